#!/usr/bin/env python3
"""Writes /verif/MANIFEST.json from tools/props.py (claimed checks) — run after editing props.py."""
import json, os, sys
ROOT = os.path.join(os.path.dirname(os.path.abspath(__file__)), "..")
sys.path.insert(0, os.path.dirname(os.path.abspath(__file__)))
from props import PROPS, NOT_CLAIMED, HOOK_COMMITS

ALL = [json.loads(l)["id"] for l in open(os.path.join(ROOT, "properties.jsonl"))]
checks = []
for pid in ALL:
    if pid not in PROPS or not PROPS[pid].get("claimed", True):
        continue
    c = PROPS[pid]
    checks.append({
        "property_id": pid,
        "quick_cmd": f"./check {pid} --tier quick",
        "thorough_cmd": f"./check {pid} --tier thorough",
        "evidence_file": f"/verif/evidence/{pid}.json",
        "replay_cmd_template": f"./check {pid} --replay {{path}}",
        "engine": "lean4-model+correspondence",
        "level_claimed": {
            "category": c.get("level", "proof"),
            "text": c["claim"],
            "design_ref": f"DESIGN.md §6 {pid}",
        },
        "level_note": c["note"],
        "technique": c.get("technique", "Lean 4 theorems about an executable model; model tied to /repo by differential correspondence (Rust harness vs compiled Lean driver) + regenerated constants"),
    })
na = [{"property_id": pid, "reason": NOT_CLAIMED.get(pid, "check not built yet in this session (see DESIGN.md §10 build order); no claim is made")}
      for pid in ALL if pid not in [c["property_id"] for c in checks]]
m = {
    "version": 1,
    "setup_cmd": "cd /verif && ./check --setup",
    "hooks": {
        "guard": "--cfg sux_verif",
        "enable": "harness/.cargo/config.toml sets rustflags = [\"--cfg\", \"sux_verif\"]; the harness crate has a path dependency on /repo and is rebuilt by cargo from /repo's working tree on every check",
        "baseline_off_cmd": "cd /repo && cargo test --workspace --no-fail-fast --offline",
        "source_commits": HOOK_COMMITS,
        "add_only": True,
    },
    "engines": [
        {"name": "lean4-model+correspondence", "path": "/verif/check",
         "serves_properties": [c["property_id"] for c in checks],
         "kind_free_text": "Lean 4.33 theorems (lake project /verif/lean, property theorems in SuxModel/Props/Cxx.lean, axiom audit in Audit/Cxx.lean) about a hand-written executable model; Rust harness /verif/harness drives the real crate and the compiled model driver suxdrv on the same op lines and diffs replies; naive Rust oracle for three-way classification"},
    ],
    "checks": checks,
    "not_applicable": na,
    "notes": "See DESIGN.md. KNOWN_FINDINGS.json lists defects found (fixed entries document fix: commits in /repo).",
}
json.dump(m, open(os.path.join(ROOT, "MANIFEST.json"), "w"), indent=1)
print("claimed:", [c["property_id"] for c in checks])
