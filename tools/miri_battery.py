#!/usr/bin/env python3
"""
miri_battery.py — the Miri battery of property C12 (thorough tier of `./check C12`).

  miri_battery.py --out DIR [--runners a,b,c] [--budget N] [--native DIR] [--harness DIR]
                  [--seed N] [--jobs N] [--deadline S] [--aliasing none|tree|stacked]
  miri_battery.py --replay FILE [--harness DIR]      re-run one Miri replay file

What it does, per runner of the differential harness (/verif/harness):
  1. takes the quick-tier native run (ops.txt / impl.txt) from --native DIR/<runner>/ or, if absent,
     runs the native debug harness itself (`<runner> --tier quick --seed N`);
  2. selects a subset of WHOLE cases (small ones first; every op kind / constructor variant /
     reply class represented; cases dense in out-of-domain ops preferred) within an op-cost budget;
  3. re-executes the subset with `cargo +nightly miri run -- <runner> --replay subset.txt --out D`
     (MIRIFLAGS see `miri_flags`; one Miri process per runner, the processes run in parallel);
  4. compares the replies written under Miri with the native replies of the same ops (must be
     identical: a difference is result=diff) and turns every Miri "Undefined Behavior" report (or an
     abort) into result=ub with a replay file = the case that was running up to the last op written.

One summary line per runner on stdout:
  MIRI runner=<r> cases=<n> ops=<n> wall=<s> result=ok|ub|diff|skipped(<why>)
DIR/miri_summary.json holds the details.  Exit 0 = no UB and no reply difference, 1 otherwise,
2 = the battery itself could not run (build failure).

Miri is not a proof: it validates the model's no-oob theorems against the real code on the selected
ops, and sees what core's debug precondition checks cannot (accesses inside an allocation's
capacity, raw-pointer reads/writes, uninitialised memory).
"""
import hashlib, json, os, re, shutil, subprocess, sys, threading, time

ROOT = os.path.dirname(os.path.dirname(os.path.abspath(__file__)))

ALL_RUNNERS = ["bitvec", "bfv", "ranksel", "ef", "rcl", "sigstore", "gf2", "edge", "atomic", "func", "serde", "misc"]

# runners (or ops) that cannot run under Miri, with the exact reason
SKIP_RUNNERS = {
    "space": "builds structures of 10^5..10^9 elements to measure mem_size; hours under an interpreter and nothing C12 is about",
    "lender": "zstd / flate2 back-ends are C code reached through FFI; Miri cannot execute foreign functions",
}

# Per-runner tuning.  budget = selection budget in cost units (cost(op) = 1 + bytes(op+reply)/32 + extra),
# tuned so that the whole battery finishes in 10-15 minutes on 16 cores with all runners in parallel.
# drop_ops: ops removed from the replayed cases because Miri cannot execute them (reason given);
# they must be observers (removing them does not change the state seen by later ops).
PADDING_WHY = ("offline signature store with a value type narrower than the signature's alignment: write_binary "
               "(sig_store.rs) views &[SigVal<S,V>] as bytes, so the uninitialised padding bytes of every pair reach "
               "libc::write: an `uninit` observation (inside the store's own buffer, not out of bounds)")
RUNNER_CFG = {
    "bitvec": dict(budget=11000),
    "bfv": dict(budget=11000),
    "ranksel": dict(budget=17000),
    "ef": dict(budget=17000),
    "rcl": dict(budget=15500),
    "sigstore": dict(budget=18000, quarantine=r"^new offline .* u8$", quarantine_witness=r"^(push|pushes) \d",
                     quarantine_why=PADDING_WHY),
    "gf2": dict(budget=11000),
    "edge": dict(budget=17000),
    "atomic": dict(budget=20000, procs=2),
    "func": dict(budget=24000, procs=4, quarantine=r"^build\w* func .* w=(8|16|32) .* off=1 ", quarantine_witness=r"^get ",
                 quarantine_why=PADDING_WHY),
    "misc": dict(budget=9000),
    "serde": dict(budget=7000, procs=2, drop_ops=r"^load (mmap|load_mmap) ",
                  drop_why="Miri does not support file-backed memory mappings (mmap of a file)"),
}

OOD_REPLY = ("panic", "err", "rejected", "none", "oob", "refused")
BIG = 1 << 31


def miri_flags(aliasing):
    f = ["-Zmiri-disable-isolation",      # the harness reads the replay file, writes ops/impl, uses temp files
         "-Zmiri-ignore-leaks",           # rayon's global pool threads are still parked when main returns
         # Miri perturbs the results of floating-point intrinsics (log2, ln, ...) by default to expose
         # reliance on their precision; the replies must equal the native ones, and the crate computes
         # Elias-Fano size estimates and graph geometry (c, segment sizes) in f64
         "-Zmiri-deterministic-floats"]
    if aliasing == "none":
        # C12 is about out-of-bounds / dangling / uninitialised accesses.  The aliasing models are
        # switched off: Stacked Borrows rejects crossbeam-epoch 0.9 (container_of in Local::element_of,
        # reached from every rayon call) and the deliberate `Arc::as_ptr(..) as *mut` of par_solve is an
        # aliasing-model matter, not a C12 one.  Bounds, liveness and initialisation are still checked.
        f.append("-Zmiri-disable-stacked-borrows")
    elif aliasing == "tree":
        f.append("-Zmiri-tree-borrows")
    return " ".join(f)


def base_env(aliasing):
    env = dict(os.environ)
    env["CARGO_NET_OFFLINE"] = "true"
    env.pop("RUSTFLAGS", None)
    env["MIRIFLAGS"] = miri_flags(aliasing)
    env.setdefault("RAYON_NUM_THREADS", "2")   # Miri interprets all threads on one core
    env["RUST_BACKTRACE"] = "0"
    env["SUX_VERIF_BUILD_TIMEOUT_SECS"] = "100000"   # run_func's wall-clock guard on builds (60 s natively)
    return env


# ----------------------------------------------------------------------------- case selection

def split_cases(ops, imp):
    """list of (first_line_index, [ops], [replies]); only complete cases (every op has a reply)"""
    cases, cur = [], None
    n = min(len(ops), len(imp))
    for i in range(n):
        if ops[i].startswith("case "):
            cur = (i, [], [])
            cases.append(cur)
        if cur is None:
            continue
        cur[1].append(ops[i])
        cur[2].append(imp[i])
    return cases


def reply_class(r):
    h = re.split(r"[ ;]", r, maxsplit=1)[0]
    if h == "ok" and re.match(r"ok none\b", r):
        return "none"
    if h in ("ok", "panic", "err", "na", "rejected", "none", "case", "nostruct", "oob", "refused"):
        return h
    return "other"


def is_num(t):
    return t.isdigit()


def op_features(op, variants_ok):
    """kinds an op stands for: its name, name + non-numeric 2nd token (constructor variants such as
    `build rank9`, `new offline`, `load eps`), name + every non-numeric k=v token (func builds)"""
    t = op.split(" ")
    name = t[0]
    fs = [name]
    if len(t) > 1 and not is_num(t[1]) and "=" not in t[1] and not t[1].startswith("[") and (name, t[1]) in variants_ok:
        fs.append(name + " " + t[1])
    for x in t[1:]:
        if "=" in x and not x.startswith("["):
            k, v = x.split("=", 1)
            if v and not v[0].isdigit() and (name, x) in variants_ok:
                fs.append(name + " " + x)
    return fs


def is_ood(op, reply):
    """out-of-domain op: the implementation refused (panic / err / rejected / none), or an argument is
    far outside any structure the quick tier builds (>= 2^31, e.g. usize::MAX)"""
    c = reply_class(reply)
    if c in ("na", "case"):
        return False
    if c in OOD_REPLY:
        return True
    t = op.split(" ")
    return any(is_num(x) and int(x) >= BIG for x in t[1:4]) and len(t) <= 4


EMPTY_PAT = re.compile(r"^(bits 0 |builder 0 |cbuilder 0 |from_slice \[\]|system 0 |raw 0 |inst \S+ \S+ 0 |.* n=0 |vec \S+ \S+ 0 )")


def op_cost(runner, op, reply):
    c = 1.0 + (len(op) + len(reply)) / 32.0
    if runner == "func":
        m = re.search(r"\bn=(\d+)", op)
        if m and op.startswith("build"):
            c += (60 + 12 * int(m.group(1))) * (4 if "dups=1" in op else 1)   # duplicate keys: up to 4 attempts
        if op.startswith("fp ") or op.startswith("qbig "):
            t = op.split(" ")
            c += int(t[-1]) * 1.5
        if op.startswith("solve"):
            c += 20
        if op.startswith("crafted_"):   # directed search cases with ~10^8 keys (thorough tier): never under Miri
            c += 1e12
    if runner == "atomic" and (op.startswith("schedule") or op.startswith("efseq")):
        c += 15     # spawns threads under the token scheduler
    if runner == "serde" and op.startswith("load"):
        c += 8
    if runner == "sigstore" and op.startswith("new offline"):
        c += 30     # temp dir + bucket files
    return c


def select_cases(runner, cases, budget, drop_ops):
    """returns (chosen case indices in execution order, stats)"""
    # which constructor variants are few enough to be treated as distinct kinds:
    # 2nd token (limit 96 distinct per op name), k=v tokens (limit 12 distinct values per key)
    count = {}
    for _, ops, _ in cases:
        for op in ops:
            t = op.split(" ")
            if len(t) > 1 and not is_num(t[1]) and not t[1].startswith("[") and "=" not in t[1]:
                vs = count.setdefault((t[0], ""), set())
                if len(vs) < 200:
                    vs.add(t[1])
            for x in t[1:]:
                if "=" in x and not x.startswith("["):
                    vs = count.setdefault((t[0], x.split("=", 1)[0]), set())
                    if len(vs) < 200:
                        vs.add(x)
    variants_ok = set()
    for (name, key), vs in count.items():
        if len(vs) <= (96 if key == "" else 12):
            variants_ok |= {(name, v) for v in vs}

    info = []
    for ci, (start, ops, reps) in enumerate(cases):
        feats, cost, ood, real = set(), 0.0, 0, 0
        empty = any(EMPTY_PAT.match(op) for op in ops[:4])
        for op, r in zip(ops, reps):
            if drop_ops and drop_ops.match(op):
                continue
            rc = reply_class(r)
            cost += op_cost(runner, op, r)
            if rc in ("na", "case"):
                continue
            real += 1
            for f in op_features(op, variants_ok):
                feats.add(f + "->" + rc)
            if is_ood(op, r) or empty:
                ood += 1
        info.append(dict(ci=ci, cost=cost, feats=feats, ood=ood, real=real))

    chosen, spent, covered = [], 0.0, set()
    cap = budget / 3.0
    rest = [x for x in info if x["cost"] <= cap and x["real"] > 0]
    too_big = len(info) - len(rest)

    # phase A: small cases first, a case is taken iff it adds a kind not yet represented
    for x in sorted(rest, key=lambda x: (x["cost"], x["ci"])):
        new = x["feats"] - covered
        if new and spent + x["cost"] <= budget * 0.6:
            chosen.append(x); spent += x["cost"]; covered |= x["feats"]; x["taken"] = True
    # phase B: cases densest in out-of-domain ops
    for x in sorted(rest, key=lambda x: (-(x["ood"] / x["cost"]), x["cost"], x["ci"])):
        if x.get("taken") or x["ood"] == 0:
            continue
        if spent + x["cost"] > budget * 0.9:
            continue
        chosen.append(x); spent += x["cost"]; covered |= x["feats"]; x["taken"] = True
    # phase C: fill up with the smallest remaining cases
    for x in sorted(rest, key=lambda x: (x["cost"], x["ci"])):
        if x.get("taken"):
            continue
        if spent + x["cost"] > budget:
            break
        chosen.append(x); spent += x["cost"]; covered |= x["feats"]; x["taken"] = True

    allf = set()
    for x in info:
        allf |= x["feats"]
    # execution order: cheap first, so that a deadline cuts off the expensive tail only
    chosen.sort(key=lambda x: (x["cost"], x["ci"]))
    stats = dict(cases_available=len(cases), cases_too_big=too_big, cost=round(spent, 1),
                 kinds_available=len(allf), kinds_covered=len(covered & allf),
                 kinds_missing=sorted(allf - covered)[:40])
    return [x["ci"] for x in chosen], stats


# ----------------------------------------------------------------------------- Miri runs

UB_RE = re.compile(r"^error: (Undefined Behavior: .*|abnormal termination: .*|the program aborted execution.*|deadlock.*|memory leaked.*)$", re.M)
UNSUP_RE = re.compile(r"^error: (unsupported operation: .*|resource exhaustion: .*|post-monomorphization error.*)$", re.M)
ALIASING_RE = re.compile(r"Stacked Borrows|Tree Borrows|borrow stack|retag|protector|reborrow", re.I)
RACE_RE = re.compile(r"Data race detected", re.I)
UNINIT_RE = re.compile(r"uninitialized|uninitialised|uninit", re.I)
# Classes of Miri reports:
#   ub      out-of-bounds pointer arithmetic / access, dangling pointer, use after free, misaligned or
#           otherwise invalid access, wrong deallocation, abort: a C12 VIOLATION
#   uninit  read of uninitialised memory inside a live allocation (e.g. struct padding written to a file):
#           not an out-of-bounds access, reported as an OBSERVATION (exit code unaffected)
#   aliasing / race   aliasing-model and data-race reports: OBSERVATION (not C12's subject)
OBSERVATION_KINDS = ("uninit", "aliasing", "race")


def diagnostic(stderr):
    """(kind, text): kind in ub | uninit | aliasing | race | unsupported | none; text = Miri's headline and source
    snippet plus the backtrace frames that lie in the crate under test or in the harness"""
    m = UB_RE.search(stderr)
    kind = "ub"
    if not m:
        m = UNSUP_RE.search(stderr)
        kind = "unsupported"
    if not m:
        return "none", ""
    lines = stderr[m.start():].splitlines()
    head, frames, in_bt = [], [], False
    for k, ln in enumerate(lines[:400]):
        if ln.startswith("note: some details are omitted") or ln.startswith("error: aborting"):
            break
        if "stack backtrace:" in ln or ln.strip().startswith("= note: BACKTRACE"):
            in_bt = True
            continue
        if not in_bt:
            if len(head) < 24:
                head.append(ln[:400])
            continue
        mm = re.match(r"\s*at (\S+?):(\d+):\d+", ln)
        if mm and ("/registry/" not in mm.group(1)) and ("/rustlib/" not in mm.group(1)):
            fn = lines[k - 1].strip()
            fn = re.sub(r"^\d+:\s*", "", fn)
            frames.append(f"  in {fn[:160]}\n     at {mm.group(1)}:{mm.group(2)}")
    text = "\n".join(head)
    if frames:
        text += "\nframes in the crate under test / harness (innermost first):\n" + "\n".join(frames[:8])
    if kind == "ub":
        h = "\n".join(head[:14])
        if ALIASING_RE.search(h):
            kind = "aliasing"
        elif RACE_RE.search(h):
            kind = "race"
        elif UNINIT_RE.search(head[0] if head else ""):
            kind = "uninit"
    return kind, text[:6000]


def miri_cmd(runner, replay_file, out_dir):
    return ["cargo", "+nightly", "miri", "run", "--quiet", "--bin", "sux-verif-harness", "--",
            runner, "--replay", replay_file, "--out", out_dir]


def prepare_miri_harness(harness):
    """private copy of the harness crate for the Miri build: same sources, same path dependency on the
    repository under test, plus a [patch] replacing the FFI-only crate `thread-priority` by a no-op
    stand-in (tools/miri_shims).  Lives under <root>/work (own Cargo.lock and target dir), so the
    native build of the harness is not disturbed."""
    work = os.path.join(ROOT, "work")
    d = os.path.join(work, "miri_harness_" + hashlib.sha1(harness.encode()).hexdigest()[:8])
    os.makedirs(d, exist_ok=True)
    subprocess.run(["rsync", "-a", "--delete", "--exclude", "target", "--exclude", "Cargo.lock", harness + "/", d + "/"], check=True)
    lk, lk0 = os.path.join(d, "Cargo.lock"), os.path.join(harness, "Cargo.lock")
    if not os.path.exists(lk) or os.path.getmtime(lk) < os.path.getmtime(lk0):
        shutil.copy(lk0, lk)   # cargo then drops the replaced crate's entries from the copy (offline is enough)
    shim = os.path.join(ROOT, "tools", "miri_shims", "thread-priority")
    ct = open(os.path.join(d, "Cargo.toml")).read()
    ct += f'\n[patch.crates-io]\nthread-priority = {{ path = "{shim}" }}\n'
    open(os.path.join(d, "Cargo.toml"), "w").write(ct)
    return d


def build_miri(harness, env, log):
    """compile the harness for Miri once (no arguments: the binary prints its usage and exits 2)"""
    t0 = time.time()
    p = subprocess.run(["cargo", "+nightly", "miri", "run", "--quiet", "--bin", "sux-verif-harness"], cwd=harness, env=env,
                       stdout=subprocess.PIPE, stderr=subprocess.PIPE)
    err = p.stderr.decode("utf-8", "replace")
    ok = "usage: sux-verif-harness" in err
    if not ok:
        log(err[-3000:])
    return ok, time.time() - t0


def run_miri(harness, env, runner, replay_file, out_dir, deadline):
    shutil.rmtree(out_dir, ignore_errors=True)
    os.makedirs(out_dir, exist_ok=True)
    t0 = time.time()
    timed_out = False
    with open(os.path.join(out_dir, "..", os.path.basename(out_dir) + ".stderr"), "wb") as ferr:
        p = subprocess.Popen(miri_cmd(runner, replay_file, out_dir), cwd=harness, env=env,
                             stdout=subprocess.DEVNULL, stderr=ferr, start_new_session=True)
        try:
            p.wait(timeout=max(5, deadline))
        except subprocess.TimeoutExpired:
            timed_out = True
            try:
                os.killpg(p.pid, 9)
            except ProcessLookupError:
                pass
            p.wait()
    err = open(os.path.join(out_dir, "..", os.path.basename(out_dir) + ".stderr"), errors="replace").read()
    def rd(name):
        f = os.path.join(out_dir, name)
        return open(f, errors="replace").read().splitlines() if os.path.exists(f) else []
    return dict(rc=p.returncode, timed_out=timed_out, stderr=err, ops=rd("ops.txt"), impl=rd("impl.txt"),
                wall=time.time() - t0)


def write_replay(replay_dir, prop, runner, kind, detail, lines, native, got):
    os.makedirs(replay_dir, exist_ok=True)
    body = "\n".join(lines)
    h = hashlib.sha1((runner + kind + body).encode()).hexdigest()[:10]
    path = os.path.join(replay_dir, f"miri-{runner}-{h}.replay")
    with open(path, "w") as f:
        f.write(f"# property={prop} runner={runner} kind=miri-{kind}\n")
        for ln in detail.splitlines()[:60]:
            f.write("# " + ln + "\n")
        f.write(f"# replay under Miri: python3 tools/miri_battery.py --replay {os.path.relpath(path, ROOT) if path.startswith(ROOT) else path}\n")
        for i, ln in enumerate(lines):
            f.write(ln + "\n")
            a = native[i] if i < len(native) else "<none>"
            b = got[i] if i < len(got) else "<no reply under Miri: interpreter stopped here>"
            f.write(f"#   native: {a[:300]}\n#   miri  : {b[:300]}\n")
    return path


def battery_runner(runner, args, env, out, log):
    """whole pipeline for one runner; returns its summary dict"""
    t0 = time.time()
    cfg = RUNNER_CFG.get(runner, {})
    res = dict(runner=runner, cases=0, ops=0, wall=0.0, result="ok", first_diagnostic=None, replays=[], observations=[])
    if runner in SKIP_RUNNERS:
        res["result"] = f"skipped({SKIP_RUNNERS[runner]})"
        return res
    # 1. native run
    nat = os.path.join(args.native, runner) if args.native else None
    if not (nat and os.path.exists(os.path.join(nat, "ops.txt")) and os.path.exists(os.path.join(nat, "impl.txt"))):
        nat = os.path.join(out, "native", runner)
        shutil.rmtree(nat, ignore_errors=True)
        os.makedirs(nat, exist_ok=True)
        hb = os.path.join(args.harness, "target", "debug", "sux-verif-harness")
        nenv = dict(env); nenv.pop("MIRIFLAGS", None); nenv.pop("RAYON_NUM_THREADS", None)
        p = subprocess.run([hb, runner, "--out", nat, "--seed", str(args.seed), "--tier", "quick"], env=nenv,
                           stdout=subprocess.PIPE, stderr=subprocess.PIPE)
        res["native_rc"] = p.returncode
    ops = open(os.path.join(nat, "ops.txt"), errors="replace").read().splitlines()
    imp = open(os.path.join(nat, "impl.txt"), errors="replace").read().splitlines()
    aborted = len(imp) < len(ops)
    cases = split_cases(ops, imp)
    if cases and aborted:
        # the native run aborted: the case being executed is incomplete (that abort is the quick tier's finding)
        cases = cases[:-1]
    if not cases:
        res["result"] = "skipped(no native cases)"
        return res
    # 2. selection
    drop = re.compile(cfg["drop_ops"]) if cfg.get("drop_ops") else None
    budget = args.budget if args.budget else cfg.get("budget", 6000)
    # quarantine: constructor variants known to stop Miri with an OBSERVATION-class report are kept out of the
    # main subset (Miri stops at the first report; they would mask the cases after them); one tiny such case is
    # run last, in its own Miri process, so that the observation stays visible
    qpat = re.compile(cfg["quarantine"]) if cfg.get("quarantine") else None
    q_idx = [ci for ci, c in enumerate(cases) if qpat and any(qpat.search(o) for o in c[1][1:4])]
    if q_idx:
        qs = set(q_idx)
        main_idx = [ci for ci in range(len(cases)) if ci not in qs]
        chosen_m, sel = select_cases(runner, [cases[ci] for ci in main_idx], budget, drop)
        chosen = [main_idx[k] for k in chosen_m]
        qcost = lambda ci: sum(op_cost(runner, o, r) for o, r in zip(cases[ci][1], cases[ci][2]))
        # a case that really goes through the quarantined path: its constructor and >= 4 further ops answer ok
        wit = re.compile(cfg.get("quarantine_witness", "."))
        qcands = [ci for ci in q_idx if sum(1 for r in cases[ci][2] if reply_class(r) == "ok") >= 5
                  and any(wit.search(o) and reply_class(r) == "ok" for o, r in zip(cases[ci][1], cases[ci][2]))]
        q_case = min(qcands or q_idx, key=lambda ci: (qcost(ci), ci))
        res["quarantine"] = dict(pattern=cfg["quarantine"], why=cfg.get("quarantine_why", ""),
                                 cases_kept_out=len(q_idx), case_run_separately=cases[q_case][1][0])
    else:
        chosen, sel = select_cases(runner, cases, budget, drop)
        q_case = None
    res["selection"] = sel
    main_chosen = list(chosen)
    if q_case is not None:
        chosen = chosen + [q_case]
    if cfg.get("drop_ops"):
        res["dropped_ops"] = dict(pattern=cfg["drop_ops"], why=cfg.get("drop_why", ""))
    sub_ops, sub_nat, case_of = [], [], []
    for ci in chosen:
        _, cops, creps = cases[ci]
        for op, r in zip(cops, creps):
            if drop and drop.match(op):
                continue
            sub_ops.append(op); sub_nat.append(r); case_of.append(ci)
    ctor_sig = {}
    for ci in chosen:
        cops = cases[ci][1][1:]
        first = cops[0] if cops else ""
        if first.startswith("wordtype") and len(cops) > 1:
            first = first + " " + cops[1]
        ctor_sig[ci] = " ".join(t for t in first.split(" ")[:8] if t and not t[0].isdigit() and not t.startswith("["))
        if runner == "func":
            ctor_sig[ci] = " ".join(t for t in first.split(" ") if re.match(r"^(build\w*|func|filter|kt=|w=|be=|lg=|lk=|off=)", t))
    rdir = os.path.join(out, runner)
    os.makedirs(rdir, exist_ok=True)
    deadline_at = t0 + args.deadline
    # the selected cases are dealt round-robin to `procs` Miri processes running in parallel
    procs = max(1, min(cfg.get("procs", 1), len(main_chosen)))
    shard_of_case = {ci: k % procs for k, ci in enumerate(main_chosen)}
    shards = [[i for i in range(len(sub_ops)) if shard_of_case.get(case_of[i]) == k] for k in range(procs)]
    parts = [None] * procs

    def go(k, dl=None):
        try:
            parts[k] = run_shard(runner, args, env, rdir, k, shards[k], sub_ops, sub_nat, case_of, ctor_sig, dl or deadline_at)
        except Exception as e:
            parts[k] = dict(hist={}, ood=0, ops=0, cases=0, replays=[], notes=[f"battery error: {e!r}"], broken=True,
                            observations=[], unsupported=[])

    ths = [threading.Thread(target=go, args=(k,)) for k in range(procs)]
    for t in ths:
        t.start()
    for t in ths:
        t.join()
    if q_case is not None:
        parts.append(None)
        shards.append([i for i in range(len(sub_ops)) if case_of[i] == q_case])
        go(procs, max(deadline_at, time.time() + 120))
    hist, notes = {}, []
    for pt in parts:
        for k, v in pt["hist"].items():
            hist[k] = hist.get(k, 0) + v
        res["replays"] += pt["replays"]
        notes += pt["notes"]
        if pt.get("broken"):
            res["broken"] = True
        res["observations"] += pt["observations"]
        if pt["unsupported"]:
            res.setdefault("unsupported", []).extend(pt["unsupported"])
    kinds = [r["kind"] for r in res["replays"]]
    if "ub" in kinds:
        res["result"] = "ub"
    elif "diff" in kinds:
        res["result"] = "diff"
    if res["replays"]:
        first = next(r for r in res["replays"] if r["kind"] == ("ub" if "ub" in kinds else "diff"))
        res["first_diagnostic"] = first["detail"]
    res["cases"], res["ops"] = sum(pt["cases"] for pt in parts), sum(pt["ops"] for pt in parts)
    res["op_kinds"] = dict(sorted(hist.items()))
    res["out_of_domain_ops"] = sum(pt["ood"] for pt in parts)
    res["selected_ops"] = sum(1 for o in sub_ops if not o.startswith("case "))
    res["selected_cases"] = len(chosen)
    res["miri_processes"] = procs + (1 if q_case is not None else 0)
    res["notes"] = notes
    res["wall"] = round(time.time() - t0, 1)
    if res["result"] == "ok" and res["ops"] == 0:
        why = notes[0] if notes else "nothing executed"
        res["result"] = f"skipped({why[:200]})"
    return res


def run_shard(runner, args, env, rdir, shard, remaining, sub_ops, sub_nat, case_of, ctor_sig, deadline_at):
    """one Miri process over the op lines `remaining` (indices into sub_ops); after a finding the
    process is restarted on the cases after the culprit (at most 7 restarts)"""
    out = dict(hist={}, ood=0, ops=0, cases=0, replays=[], notes=[], observations=[], unsupported=[])
    hist = out["hist"]
    attempt = 0
    while remaining and attempt < 8:
        attempt += 1
        sub_file = os.path.join(rdir, f"subset{shard}_{attempt}.txt")
        with open(sub_file, "w") as f:
            f.write("\n".join(sub_ops[i] for i in remaining) + "\n")
        left = deadline_at - time.time()
        if left < 8:
            out["notes"].append(f"deadline reached: {len(remaining)} selected op lines not executed")
            break
        m = run_miri(args.miri_harness, env, runner, sub_file, os.path.join(rdir, f"miri{shard}_{attempt}"), left)
        got = m["impl"]
        n_ops_written = len(m["ops"])
        diff_at = None
        for k, g in enumerate(got):
            if k >= len(remaining) or g != sub_nat[remaining[k]]:
                diff_at = k
                break
        upto = len(got) if diff_at is None else diff_at
        for k in range(upto):
            i = remaining[k]
            name = sub_ops[i].split(" ")[0]
            if name != "case":
                hist[name] = hist.get(name, 0) + 1
                out["ops"] += 1
                if is_ood(sub_ops[i], sub_nat[i]):
                    out["ood"] += 1
            else:
                out["cases"] += 1
        kind, text = diagnostic(m["stderr"])
        culprit_case = None
        if diff_at is not None:
            i = remaining[min(diff_at, len(remaining) - 1)]
            culprit_case = case_of[i]
            idx = [j for j in remaining[:diff_at + 1] if case_of[j] == culprit_case]
            detail = (f"reply under Miri differs from the native reply at op `{sub_ops[i][:200]}`: "
                      f"native `{sub_nat[i][:200]}` miri `{got[diff_at][:200]}`")
            path = write_replay(args.replay_dir, args.property, runner, "diff", detail,
                                [sub_ops[j] for j in idx], [sub_nat[j] for j in idx],
                                got[diff_at + 1 - len(idx):diff_at + 1])
            out["replays"].append(dict(kind="diff", path=path, detail=detail, op=sub_ops[i][:300], case=sub_ops[idx[0]]))
        elif kind in ("ub",) + OBSERVATION_KINDS or (m["rc"] not in (0, None) and not m["timed_out"] and kind == "none"):
            # the op being executed = the last op line written (ops are flushed before each call)
            k = max(0, min(n_ops_written, len(remaining)) - 1)
            i = remaining[k]
            culprit_case = case_of[i]
            idx = [j for j in remaining[:k + 1] if case_of[j] == culprit_case]
            if kind == "none":
                text = f"Miri process ended with rc={m['rc']} without a diagnostic; stderr tail:\n" + m["stderr"][-1500:]
                kind = "ub"
            first = next(j for j in idx)
            detail = f"Miri stopped while executing op `{sub_ops[i][:200]}` ({sub_ops[first]}):\n{text}"
            if kind == "ub":
                path = write_replay(args.replay_dir, args.property, runner, "ub", detail,
                                    [sub_ops[j] for j in idx], [sub_nat[j] for j in idx], got[k + 1 - len(idx):k + 1])
                out["replays"].append(dict(kind="ub", path=path, detail=detail, op=sub_ops[i][:300], case=sub_ops[idx[0]]))
            else:
                # not an out-of-bounds / dangling access: an observation, recorded with its own replay file
                path = write_replay(args.obs_dir, args.property, runner, "observation-" + kind, detail,
                                    [sub_ops[j] for j in idx], [sub_nat[j] for j in idx], got[k + 1 - len(idx):k + 1])
                out["observations"].append(dict(kind=kind, op=sub_ops[i][:300], case=sub_ops[idx[0]], replay=path,
                                                ops=[sub_ops[j][:300] for j in idx][:60], diagnostic=text))
        elif kind == "unsupported":
            k = max(0, min(n_ops_written, len(remaining)) - 1)
            i = remaining[k]
            culprit_case = case_of[i]
            out["notes"].append(f"Miri cannot execute op `{sub_ops[i][:120]}`: {text.splitlines()[0][:300]}")
            out["unsupported"].append(dict(op=sub_ops[i][:300], diagnostic=text[:1500]))
        elif m["timed_out"]:
            out["notes"].append(f"deadline: {len(remaining) - upto} selected op lines not executed")
            break
        if culprit_case is None:
            break   # ran to completion
        # continue with the cases after the culprit, to collect further findings; cases built by the same
        # constructor variant (non-numeric tokens of the constructor line) would stop at the same place: skipped
        first_after = next((k for k, j in enumerate(remaining) if k >= upto and case_of[j] != culprit_case), None)
        if first_after is None:
            break
        sig = ctor_sig[culprit_case]
        rest = remaining[first_after:]
        remaining = [j for j in rest if ctor_sig[case_of[j]] != sig]
        skipped = len({case_of[j] for j in rest}) - len({case_of[j] for j in remaining})
        if skipped:
            out["notes"].append(f"{skipped} later cases with the constructor variant `{sig}` of the stopped case not executed")
    return out


def replay_one(args):
    env = base_env(args.aliasing)
    hdr = open(args.replay).readline()
    m = re.search(r"runner=(\S+)", hdr)
    runner = m.group(1) if m else "bitvec"
    args.miri_harness = prepare_miri_harness(args.harness)
    out = os.path.join(args.miri_harness, "target", "miri-replay")
    ok, _ = build_miri(args.miri_harness, env, print)
    if not ok:
        print("CHECK-BROKEN harness does not build under Miri"); return 2
    m = run_miri(args.miri_harness, env, runner, os.path.abspath(args.replay), os.path.join(out, "run"), 3600)
    lines = [l.rstrip("\n") for l in open(args.replay) if not l.startswith("#") and l.strip()]
    for i, l in enumerate(lines):
        print(l)
        print("    miri: " + (m["impl"][i][:200] if i < len(m["impl"]) else "<no reply: interpreter stopped>"))
    kind, text = diagnostic(m["stderr"])
    if kind != "none":
        print(text)
    if kind in OBSERVATION_KINDS:
        print(f"MIRI-OBSERVATION kind={kind} replay={args.replay} (not an out-of-bounds access: no violation)")
        return 0
    if kind == "ub" or len(m["impl"]) < len(lines):
        print(f"VIOLATION property={args.property} replay={args.replay}")
        return 1
    # replies vs the native replies recorded in the file
    nat = [l[len("#   native: "):].rstrip("\n") for l in open(args.replay) if l.startswith("#   native: ")]
    if nat and [x[:300] for x in m["impl"]] != nat[:len(m["impl"])]:
        print(f"VIOLATION property={args.property} replay={args.replay}")
        return 1
    print("miri replay: no undefined behaviour, replies as recorded")
    return 0


def main():
    import argparse
    ap = argparse.ArgumentParser()
    ap.add_argument("--out")
    ap.add_argument("--runners", default=",".join(ALL_RUNNERS))
    ap.add_argument("--budget", type=float, default=0, help="selection budget (cost units) for every runner; default: per-runner table")
    ap.add_argument("--native", default=None, help="directory with <runner>/ops.txt, impl.txt of a native quick run")
    ap.add_argument("--harness", default=os.path.join(ROOT, "harness"))
    ap.add_argument("--seed", type=int, default=1)
    ap.add_argument("--jobs", type=int, default=0)
    ap.add_argument("--deadline", type=float, default=840, help="per-runner wall limit in seconds (the rest of the subset is dropped)")
    ap.add_argument("--aliasing", default="none", choices=["none", "tree", "stacked"])
    ap.add_argument("--property", default="C12")
    ap.add_argument("--replay-dir", default=None)
    ap.add_argument("--replay", default=None)
    args = ap.parse_args()
    args.harness = os.path.abspath(args.harness)
    if args.replay:
        return replay_one(args)
    if not args.out:
        ap.error("--out DIR is required")
    out = os.path.abspath(args.out)
    os.makedirs(out, exist_ok=True)
    if not args.replay_dir:
        args.replay_dir = os.path.join(ROOT, "replays", args.property)
    args.obs_dir = os.path.join(out, "observations")
    env = base_env(args.aliasing)
    lock = threading.Lock()

    def log(s):
        with lock:
            print(s, flush=True)

    t0 = time.time()
    runners = [r for r in args.runners.split(",") if r]
    # native binary (needed only when a native run directory is missing)
    need_native = any(not (args.native and os.path.exists(os.path.join(args.native, r, "impl.txt"))) for r in runners if r not in SKIP_RUNNERS)
    if need_native:
        p = subprocess.run(["cargo", "build", "--quiet"], cwd=args.harness, env={k: v for k, v in env.items() if k != "MIRIFLAGS"},
                           stdout=subprocess.PIPE, stderr=subprocess.STDOUT)
        if p.returncode != 0:
            log(p.stdout.decode("utf-8", "replace")[-3000:])
            log("MIRI-BROKEN native harness does not build")
            return 2
    args.miri_harness = prepare_miri_harness(args.harness)
    ok, bt = build_miri(args.miri_harness, env, log)
    if not ok:
        log("MIRI-BROKEN harness does not build under `cargo +nightly miri run`")
        return 2
    results = {}
    jobs = args.jobs or min(len(runners), os.cpu_count() or 4)
    sem = threading.Semaphore(jobs)

    def work(r):
        with sem:
            try:
                res = battery_runner(r, args, env, out, log)
            except Exception as e:   # the battery's own bug: never a violation
                res = dict(runner=r, cases=0, ops=0, wall=0.0, result=f"skipped(battery error: {e!r})", broken=True)
            results[r] = res
            log(f"MIRI runner={r} cases={res['cases']} ops={res['ops']} wall={res['wall']:.0f}s result={res['result']}")
            for n in res.get("notes", []):
                log(f"#   {r}: {n}")
            for ob in res.get("observations", []):
                log(f"MIRI-OBSERVATION runner={r} kind={ob['kind']} {ob['case']} op=`{ob['op'][:80]}` replay={ob['replay']} :: "
                    + ob["diagnostic"].splitlines()[0][:300])

    # expensive runners first
    order = sorted(runners, key=lambda r: -RUNNER_CFG.get(r, {}).get("budget", 0) if r not in ("func", "atomic", "serde") else -1e9)
    ths = [threading.Thread(target=work, args=(r,)) for r in order]
    for t in ths:
        t.start()
    for t in ths:
        t.join()
    summary = dict(
        miriflags=env["MIRIFLAGS"], rayon_threads=env.get("RAYON_NUM_THREADS"), aliasing=args.aliasing,
        toolchain=subprocess.run(["cargo", "+nightly", "miri", "--version"], stdout=subprocess.PIPE).stdout.decode().strip(),
        harness=args.harness, miri_harness=args.miri_harness, seed=args.seed, build_s=round(bt, 1), wall_s=round(time.time() - t0, 1),
        runners={r: results[r] for r in runners if r in results},
        total_cases=sum(results[r]["cases"] for r in results), total_ops=sum(results[r]["ops"] for r in results),
        total_out_of_domain_ops=sum(results[r].get("out_of_domain_ops", 0) for r in results),
        total_observations=sum(len(results[r].get("observations", [])) for r in results),
    )
    with open(os.path.join(out, "miri_summary.json"), "w") as f:
        json.dump(summary, f, indent=1)
    bad = [r for r in results if results[r]["result"] in ("ub", "diff")]
    for r in bad:
        for rp in results[r]["replays"][:3]:
            log(f"# miri-{rp['kind']}: {rp['detail'][:600]}")
            log(f"MIRI-VIOLATION property={args.property} runner={r} replay={rp['path']}")
    log(f"MIRI total cases={summary['total_cases']} ops={summary['total_ops']} ood={summary['total_out_of_domain_ops']} wall={summary['wall_s']:.0f}s")
    if any(results[r].get("broken") for r in results):
        return 2
    return 1 if bad else 0


if __name__ == "__main__":
    sys.exit(main())
