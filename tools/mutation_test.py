#!/usr/bin/env python3
"""
Development aid: runs registered checks against mutated copies of /repo in a scratch worktree
(/tmp/mt_repo), never touching /repo itself.

  tools/mutation_test.py revert <commit> <Cxx> [<Cyy> …]     # reverse-apply a fix: commit
  tools/mutation_test.py patch <file.diff> <Cxx> [<Cyy> …]    # apply a seeded change
Prints one line per (mutant, property): CAUGHT / MISSED with the check's exit code.
"""
import os, subprocess, sys
MT = os.environ.get("MT_DIR", "/tmp/mt_repo")
ROOT = os.path.dirname(os.path.dirname(os.path.abspath(__file__)))

def sh(cmd, **kw):
    return subprocess.run(cmd, shell=isinstance(cmd, str), stdout=subprocess.PIPE, stderr=subprocess.STDOUT, **kw)

def ensure():
    if not os.path.isdir(MT):
        r = sh(["git", "-C", "/repo", "worktree", "add", "--detach", MT, "HEAD"])
        if r.returncode != 0:
            print(r.stdout.decode()); sys.exit(2)
    sh(["git", "-C", MT, "checkout", "-q", "--detach", subprocess.check_output(["git", "-C", "/repo", "rev-parse", "HEAD"]).decode().strip()])
    sh(["git", "-C", MT, "checkout", "-q", "--", "."])
    sh(["git", "-C", MT, "clean", "-fdq", "--exclude=target"])

def record(kind, what, prop, verdict, viol):
    """keeps seeded/RESULTS.json (and the mutant's meta.json) up to date"""
    import json
    name = os.path.basename(os.path.dirname(os.path.abspath(what))) if kind == "patch" else "revert-" + what
    rp = os.path.join(ROOT, "seeded", "RESULTS.json")
    res = json.load(open(rp)) if os.path.exists(rp) else {}
    res.setdefault(name, {})[prop] = {"verdict": verdict, "first_report": (viol[0][:300] if viol else "")}
    json.dump(res, open(rp, "w"), indent=1, sort_keys=True)
    if kind == "patch":
        mp = os.path.join(os.path.dirname(os.path.abspath(what)), "meta.json")
        if os.path.exists(mp):
            try:
                m = json.load(open(mp))
            except Exception:
                m = {}
            m.setdefault("orchestrator", {"confirmed": "tools/verify_mutant.sh: existing suite (192 tests + doctests) passes with the patch; demo fails with it and passes without it",
                                          "checks": {}})
            m["orchestrator"]["checks"][prop] = f"tools/mutation_test.py patch … {prop} -> {verdict}"
            json.dump(m, open(mp, "w"), indent=1)


def main():
    kind, what, props = sys.argv[1], sys.argv[2], sys.argv[3:]
    ensure()
    if kind == "revert":
        r = sh(["git", "-C", MT, "revert", "--no-commit", what])
    else:
        r = sh(["git", "-C", MT, "apply", os.path.abspath(what)])
    if r.returncode != 0:
        print("could not apply:", r.stdout.decode()[-500:]); sys.exit(2)
    env = dict(os.environ, VERIF_REPO=MT)
    for p in props:
        r = subprocess.run([os.path.join(ROOT, "check"), p], env=env, stdout=subprocess.PIPE, stderr=subprocess.STDOUT)
        out = r.stdout.decode()
        viol = [l for l in out.splitlines() if l.startswith("VIOLATION") or l.startswith("# ")][:3]
        verdict = 'CAUGHT' if r.returncode == 1 else ('BROKEN' if r.returncode == 2 else 'MISSED')
        print(f"{verdict} mutant={kind}:{os.path.basename(what)} property={p} rc={r.returncode}")
        record(kind, what, p, verdict, viol)
        for v in viol:
            print("    " + v[:300])
        if r.returncode == 2:
            print(out[-1500:])
        # disk hygiene: the run directories of a development run are not needed once the verdict is
        # recorded (the replay file, if any, is under replays/)
        import hashlib, shutil
        shutil.rmtree(os.path.join(ROOT, "work", "runs_alt_" + hashlib.sha1(MT.encode()).hexdigest()[:8], p), ignore_errors=True)
    if kind == "revert":
        sh(["git", "-C", MT, "revert", "--abort"])
    sh(["git", "-C", MT, "checkout", "-q", "--", "."])
    sh(["git", "-C", MT, "clean", "-fdq", "--exclude=target"])

if __name__ == "__main__":
    main()
