#!/usr/bin/env python3
"""
Development aid: runs registered checks against mutated copies of /repo in a scratch worktree
(/tmp/mt_repo), never touching /repo itself.

  tools/mutation_test.py revert <commit> <Cxx> [<Cyy> …]     # reverse-apply a fix: commit
  tools/mutation_test.py patch <file.diff> <Cxx> [<Cyy> …]    # apply a seeded change
Prints one line per (mutant, property): CAUGHT / MISSED with the check's exit code.
"""
import os, subprocess, sys
MT = "/tmp/mt_repo"
ROOT = os.path.dirname(os.path.dirname(os.path.abspath(__file__)))

def sh(cmd, **kw):
    return subprocess.run(cmd, shell=isinstance(cmd, str), stdout=subprocess.PIPE, stderr=subprocess.STDOUT, **kw)

def ensure():
    if not os.path.isdir(MT):
        r = sh(["git", "-C", "/repo", "worktree", "add", "--detach", MT, "HEAD"])
        if r.returncode != 0:
            print(r.stdout.decode()); sys.exit(2)
    sh(["git", "-C", MT, "checkout", "-q", "--detach", subprocess.check_output(["git", "-C", "/repo", "rev-parse", "HEAD"]).decode().strip()])
    sh(["git", "-C", MT, "checkout", "-q", "--", "."])
    sh(["git", "-C", MT, "clean", "-fdq", "--exclude=target"])

def main():
    kind, what, props = sys.argv[1], sys.argv[2], sys.argv[3:]
    ensure()
    if kind == "revert":
        r = sh(["git", "-C", MT, "revert", "--no-commit", what])
    else:
        r = sh(["git", "-C", MT, "apply", os.path.abspath(what)])
    if r.returncode != 0:
        print("could not apply:", r.stdout.decode()[-500:]); sys.exit(2)
    env = dict(os.environ, VERIF_REPO=MT)
    for p in props:
        r = subprocess.run([os.path.join(ROOT, "check"), p], env=env, stdout=subprocess.PIPE, stderr=subprocess.STDOUT)
        out = r.stdout.decode()
        viol = [l for l in out.splitlines() if l.startswith("VIOLATION") or l.startswith("# ")][:3]
        print(f"{'CAUGHT' if r.returncode == 1 else ('BROKEN' if r.returncode == 2 else 'MISSED')} mutant={kind}:{os.path.basename(what)} property={p} rc={r.returncode}")
        for v in viol:
            print("    " + v[:300])
        if r.returncode == 2:
            print(out[-1500:])
    if kind == "revert":
        sh(["git", "-C", MT, "revert", "--abort"])
    sh(["git", "-C", MT, "checkout", "-q", "--", "."])
    sh(["git", "-C", MT, "clean", "-fdq", "--exclude=target"])

if __name__ == "__main__":
    main()
