#!/usr/bin/env python3
"""
Source fingerprints: a second, purely syntactic tie between the hand-written Lean model and the
Rust text it mirrors.

For every property, the files named in its `anchors.files` (properties.jsonl) are normalised
(comments and whitespace removed) and hashed.  `SOURCE_FINGERPRINTS.json` (committed) holds the
hashes of the tree on which the model was last validated by the orchestrator (all checks green,
thorough tier included).

  tools/fingerprint.py --update        rewrite SOURCE_FINGERPRINTS.json from /repo's current tree
  tools/fingerprint.py --diff [Cxx]    list anchored files whose normalised text changed

`check` calls `changed(pid)`: when a file the property is anchored in differs from the validated
text, the quick tier is ESCALATED to the thorough search budget for that run (and the evidence says
so).  A changed fingerprint is never reported as a violation: a harmless rewrite changes it too.
"""
import hashlib, json, os, re, sys

ROOT = os.path.dirname(os.path.dirname(os.path.abspath(__file__)))
REPO = os.environ.get("VERIF_REPO", "/repo")
FP = os.path.join(ROOT, "SOURCE_FINGERPRINTS.json")


def normalise(src):
    src = re.sub(r"/\*.*?\*/", "", src, flags=re.S)
    src = re.sub(r"//[^\n]*", "", src)
    return re.sub(r"\s+", "", src)


# source files each runner of the harness drives (the anchors of a property name only the central ones)
RUNNER_FILES = {
    "bitvec": ["src/bits/bit_vec.rs", "src/utils/mod.rs"],
    "bfv": ["src/bits/bit_field_vec.rs", "src/traits/bit_field_slice.rs"],
    "ranksel": ["src/rank_sel/*.rs", "src/traits/rank_sel.rs", "src/bits/bit_vec.rs"],
    "ef": ["src/dict/elias_fano.rs", "src/traits/indexed_dict.rs", "src/rank_sel/select_adapt_const.rs",
           "src/rank_sel/select_zero_adapt_const.rs", "src/bits/bit_field_vec.rs", "src/bits/bit_vec.rs"],
    "rcl": ["src/dict/rear_coded_list.rs"],
    "sigstore": ["src/utils/sig_store.rs"],
    "gf2": ["src/utils/mod2_sys.rs"],
    "lender": ["src/utils/lenders.rs"],
    "edge": ["src/func/shard_edge.rs"],
    "space": [],
    "atomic": ["src/bits/bit_vec.rs", "src/bits/bit_field_vec.rs", "src/verif.rs"],
    "func": ["src/func/*.rs", "src/dict/vfilter.rs", "src/utils/sig_store.rs", "src/utils/mod2_sys.rs", "src/utils/lenders.rs"],
    "serde": [],
    "misc": ["src/utils/fair_chunks.rs", "src/dict/slice_seq.rs", "src/traits/*.rs"],
}


def expand(pats):
    import glob
    out = []
    for p in pats:
        if "*" in p:
            out += [os.path.relpath(x, REPO) for x in glob.glob(os.path.join(REPO, p))]
        else:
            out.append(p)
    return out


def anchors():
    sys.path.insert(0, os.path.join(ROOT, "tools"))
    try:
        import props
        runners = {k: v.get("runners", []) for k, v in props.PROPS.items()}
    except Exception:
        runners = {}
    out = {}
    for l in open(os.path.join(ROOT, "properties.jsonl")):
        d = json.loads(l)
        fs = set(d.get("anchors", {}).get("files", []))
        for r in runners.get(d["id"], []):
            fs |= set(expand(RUNNER_FILES.get(r, [])))
        out[d["id"]] = sorted(fs)
    return out


def digest(path):
    p = os.path.join(REPO, path)
    if not os.path.exists(p):
        return "missing"
    return hashlib.sha256(normalise(open(p, encoding="utf-8", errors="replace").read()).encode()).hexdigest()[:16]


def current():
    files = sorted({f for fs in anchors().values() for f in fs})
    return {f: digest(f) for f in files}


def changed(pid):
    """anchored files of `pid` whose normalised text differs from the validated one"""
    if not os.path.exists(FP):
        return []
    ref = json.load(open(FP))["files"]
    return [f for f in anchors().get(pid, []) if ref.get(f) != digest(f)]


if __name__ == "__main__":
    if len(sys.argv) > 1 and sys.argv[1] == "--update":
        import subprocess
        head = subprocess.check_output(["git", "-C", REPO, "rev-parse", "--short", "HEAD"]).decode().strip()
        json.dump({"_doc": "normalised-source hashes of the anchored files on the tree the model was last validated against "
                           "(tools/fingerprint.py); a difference escalates the quick tier to the thorough search, nothing else",
                   "validated_at": head, "files": current()}, open(FP, "w"), indent=1, sort_keys=True)
        print("updated", FP, "at", head)
    else:
        pids = sys.argv[2:] or sorted(anchors())
        for pid in pids:
            c = changed(pid)
            if c:
                print(pid, "changed:", " ".join(c))
