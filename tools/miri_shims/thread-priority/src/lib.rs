//! No-op stand-in for `thread-priority` 1.2.0 under Miri (see Cargo.toml).
#[derive(Debug, Clone, Copy, PartialEq, Eq)]
pub enum ThreadPriority {
    Min,
    Max,
}

#[derive(Debug, Clone, Copy, PartialEq, Eq)]
pub enum Error {
    Unsupported,
}

pub fn set_current_thread_priority(_priority: ThreadPriority) -> Result<(), Error> {
    Ok(())
}
