#!/bin/bash
# usage: tools/verify_mutant.sh <worktree> <seeded-name>
# Confirms, in the mutant's scratch worktree: existing tests pass with the patch, the demo fails with
# it and passes without it; then stores patch/demo/meta under /verif/seeded/<name>/.
set -u
WT=$1; NAME=$2
cd $WT || exit 2
export CARGO_NET_OFFLINE=true
git apply --check -R MUTANT/patch.diff || { echo "worktree is not in the patched state"; exit 2; }
echo "== existing suite with the patch"
cargo test --workspace --no-fail-fast --offline 2>&1 | grep -E "^test result" > /tmp/vm_$NAME.suite
PASSED=$(awk '{s+=$4} END{print s}' /tmp/vm_$NAME.suite); FAILED=$(awk '{s+=$6} END{print s}' /tmp/vm_$NAME.suite)
echo "suite: passed=$PASSED failed=$FAILED"
cp MUTANT/demo.rs tests/demo_mutant.rs
echo "== demo with the patch (must fail)"
cargo test --offline --test demo_mutant > /tmp/vm_$NAME.with.raw 2>&1; RCW=$?
grep -E "^test result|^test .* (ok|FAILED)|SIGABRT|signal: 6" /tmp/vm_$NAME.with.raw | tee /tmp/vm_$NAME.with
git apply -R MUTANT/patch.diff
echo "== demo without the patch (must pass)"
cargo test --offline --test demo_mutant 2>&1 | grep -E "^test result|^test .* (ok|FAILED)" | tee /tmp/vm_$NAME.without
git apply MUTANT/patch.diff
rm -f tests/demo_mutant.rs
W=$(grep -c "FAILED\|SIGABRT\|signal: 6" /tmp/vm_$NAME.with); [ "$RCW" = "0" ] && W=0; WO=$(grep -c "FAILED" /tmp/vm_$NAME.without)
echo "demo failures: with=$W without=$WO"
if [ "$FAILED" = "0" ] && [ "$W" -gt 0 ] && [ "$WO" = "0" ]; then
  mkdir -p /verif/seeded/$NAME && cp MUTANT/patch.diff MUTANT/demo.rs MUTANT/meta.json /verif/seeded/$NAME/
  echo "CONFIRMED $NAME (suite passed=$PASSED)"
else
  echo "NOT CONFIRMED $NAME"
fi
