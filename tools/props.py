"""Per-property configuration of ./check: which theorem modules, which runners, which ops count."""

HOOK_COMMITS = []

# property id -> reason, for properties deliberately not claimed (default reason: not built yet)
NOT_CLAIMED = {}

PROPS = {
    "C06": dict(
        claim="Refinement theorem: every operation history on the BitVec model (word-level mirror of bit_vec.rs) yields exactly the observations of a Vec<bool>, index errors panic with state unchanged, no out-of-bounds access; lifted to all histories by induction. The model is tied to the code by differential correspondence on generated histories incl. dirty backends.",
        note="Trusted: Lean kernel + {propext, Classical.choice, Quot.sound}; the hand-written model and the correspondence harness (differential testing power); usize = 64 bits; allocator never fails.",
        lean=["SuxModel.Props.C06"],
        runners=["bitvec"],
        ops=None,
        trusted_base=["BitVec model: SuxModel/BitVec/Model.lean mirrors src/bits/bit_vec.rs method by method (W = 64)"],
        assumptions=["usize = 64 bits", "lengths < 2^64 (no overflow of len)", "Vec growth never fails (allocator)"],
        open=[],
    ),
}
