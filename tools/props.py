"""Per-property configuration of ./check: which theorem modules, which runners, which ops count."""

HOOK_COMMITS = ["49d50de (accessors verif_parts/verif_counts/verif_inner + check-cfg lint)", "1ad7b36 (src/verif.rs + sched_point calls before atomic operations)"]

# property id -> reason, for properties deliberately not claimed (default reason: not built yet)
NOT_CLAIMED = {}

BFV_OPS_C05 = {"wordtype", "new", "new_unaligned", "with_capacity", "raw", "from_slice", "macro_fill", "macro_list",
               "push", "pop", "set", "aset", "get", "aget", "resize", "clear", "extend", "iter", "iter_from",
               "unchecked_from", "rev_iter", "rev_iter_from", "eq", "clone", "swapab", "conv", "reset"}

PROPS = {
    "C05": dict(
        lean=["SuxModel.Props.C05"],
        runners=["bfv"],
        ops=BFV_OPS_C05,
        claim="Refinement theorem for every word size W > 0 and every width 0..=W: every operation history on the BitFieldVec model (word-level mirror of bit_field_vec.rs: one/two-word get/set, growth, equality, forward/reverse unchecked iterators) yields exactly the observations of a plain vector of w-bit values; index/value errors panic; no out-of-bounds access; layout lemmas getU_spec/setU_spec. Tied to the code by differential correspondence over six word types, all widths, dirty backends.",
        note="Trusted: Lean kernel + {propext, Classical.choice, Quot.sound}; the hand-written model and the correspondence harness; From conversions modelled as identity on raw parts (validated by correspondence only); lengths far below 2^64.",
        trusted_base=["BitFieldVec model: SuxModel/BitFieldVec/Model.lean mirrors src/bits/bit_field_vec.rs (generic W)"],
        assumptions=["no usize overflow in len * bit_width", "allocator never fails", "extend with a non-fitting value is not generated (it panics after pushing the good prefix)"],
        open=[],
    ),
    "C06": dict(
        claim="Refinement theorem: every operation history on the BitVec model (word-level mirror of bit_vec.rs) yields exactly the observations of a Vec<bool>, index errors panic with state unchanged, no out-of-bounds access; lifted to all histories by induction. The model is tied to the code by differential correspondence on generated histories incl. dirty backends.",
        note="Trusted: Lean kernel + {propext, Classical.choice, Quot.sound}; the hand-written model and the correspondence harness (differential testing power); usize = 64 bits; allocator never fails.",
        lean=["SuxModel.Props.C06"],
        runners=["bitvec"],
        ops=None,
        trusted_base=["BitVec model: SuxModel/BitVec/Model.lean mirrors src/bits/bit_vec.rs method by method (W = 64)"],
        assumptions=["usize = 64 bits", "lengths < 2^64 (no overflow of len)", "Vec growth never fails (allocator)"],
        open=[],
    ),
}
