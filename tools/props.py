"""Per-property configuration of ./check: which theorem modules, which runners, which ops count."""

HOOK_COMMITS = ["49d50de (accessors verif_parts/verif_counts/verif_inner + check-cfg lint)", "1ad7b36 (src/verif.rs + sched_point calls before atomic operations)"]

# property id -> reason, for properties deliberately not claimed (default reason: not built yet)
NOT_CLAIMED = {}

BFV_OPS_C05 = {"wordtype", "new", "new_unaligned", "with_capacity", "raw", "from_slice", "macro_fill", "macro_list",
               "push", "pop", "set", "aset", "get", "aget", "resize", "clear", "extend", "iter", "iter_from",
               "unchecked_from", "rev_iter", "rev_iter_from", "eq", "clone", "swapab", "conv", "reset"}

PROPS = {
    "C05": dict(
        lean=["SuxModel.Props.C05"],
        runners=["bfv"],
        ops=BFV_OPS_C05,
        claim="Refinement theorem for every word size W > 0 and every width 0..=W: every operation history on the BitFieldVec model (word-level mirror of bit_field_vec.rs: one/two-word get/set, growth, equality, forward/reverse unchecked iterators) yields exactly the observations of a plain vector of w-bit values; index/value errors panic; no out-of-bounds access; layout lemmas getU_spec/setU_spec. Tied to the code by differential correspondence over six word types, all widths, dirty backends.",
        note="Trusted: Lean kernel + {propext, Classical.choice, Quot.sound}; the hand-written model and the correspondence harness; From conversions modelled as identity on raw parts (validated by correspondence only); lengths far below 2^64.",
        trusted_base=["BitFieldVec model: SuxModel/BitFieldVec/Model.lean mirrors src/bits/bit_field_vec.rs (generic W)"],
        assumptions=["no usize overflow in len * bit_width", "allocator never fails", "extend with a non-fitting value is not generated (it panics after pushing the good prefix)"],
        open=[],
    ),
    "C01": dict(
        claim="For every bit vector (any length, arbitrary garbage beyond len, extra backend words) the model builders of Rank9 and of the five RankSmall variants (generic in (NUM_U32S, COUNTER_WIDTH), admissibility of the five tuples decided over the table) establish counters equal to the specification prefix counts (absolute, packed relative, upper counts; no truncation of the 32-bit absolute counters for any length), and rank(p) = number of ones among the first min(p,len) bits for every p, rank_zero = p - rank, num_ones/num_zeros exact, never out of bounds; rank through any stack of wrappers is the base layer's rank. Model tied to the code by differential correspondence on all rank structures and ~60 compositions, with the real counter arrays (exported through cfg-gated accessors) compared byte for byte with the model's.",
        note="Trusted: Lean kernel + {propext, Classical.choice, Quot.sound}; hand-written model + correspondence harness; ambassador delegation through wrapper stacks is modelled as 'first layer that answers' and validated only by the correspondence.",
        lean=["SuxModel.Props.C01"],
        runners=["ranksel"],
        ops={"case", "bits", "build", "rank", "rank_zero", "num_ones", "num_zeros", "count_ones", "len", "index", "parts"},
        parts_layers={"r9", "rs"},
        trusted_base=["Rank9 / RankSmall models: SuxModel/RankSel/{Rank9,RankSmall}/Model.lean mirror src/rank_sel/{rank9,rank_small}.rs and the trait defaults of src/traits/rank_sel.rs"],
        assumptions=["usize = 64 bits; lengths below 2^64", "vectors beyond 2^32 bits are covered by the theorems only (the quick generator stays below 2^20 bits)"],
        open=[],
    ),
    "C09": dict(
        claim="On the model of rear_coded_list.rs: decode_int inverts encode_int on all usize; for every NUL-free string list and k>=1 the built list has len=n, get/get_in_place(i)=strs[i], get panics exactly for i>=n, iter_from/lend_from(j) yield strs.drop j with exact len() for every j, is_sorted flag <=> bytewise sorted, index_of returns an index holding s iff s was pushed (sorted: for any binary_search_by result satisfying its contract, and the std algorithm is proved to satisfy it; unsorted: first occurrence), contains = index_of.is_some. Tied to the code by differential correspondence incl. exported (k,len,is_sorted,data,pointers).",
        note="Trusted: Lean kernel + {propext, Classical.choice, Quot.sound}; hand-written model + harness; usize=64; binary_search_by modelled as the core library algorithm (>= 1.82) and additionally abstracted by its contract.",
        lean=["SuxModel.Props.C09"],
        runners=["rcl"],
        ops=None,
        trusted_base=["RCL model: SuxModel/RCL/Model.lean mirrors src/dict/rear_coded_list.rs; binary_search_by = core library algorithm (>=1.82)"],
        assumptions=["usize = 64 bits", "every string < 2^63 bytes (isize::MAX)", "Stats arithmetic not modelled", "String::from_utf8 in get not modelled (result = pushed &str)"],
        open=["vbyte code lengths 5..9 are not reachable through the public API (strings >= 270 MB): covered by the round-trip theorem and a one-off comparison only"],
    ),
    "C10": dict(
        claim="copy_correct (bit-exact result of all six branches of BitFieldVec::copy, min-length clipping, frame), apply_correct (apply_in_place = mapAccum: exactly one call per element, in index order, on the current value, results stored, frame) for both code paths, chunk views address exactly the corresponding elements or return Err, get_unaligned = get under its documented preconditions, for every word size; BitVec fill/flip/reset/count_ones word loops = per-element loops (C06 theorems); par_* variants are the same functions (rayon a parameter). Tied to the code by differential correspondence with random contents over all relative alignments, all branches hit and counted.",
        note="Trusted: Lean kernel + {propext, Classical.choice, Quot.sound}; model + harness; rayon's par_iter applies the same closure to the same disjoint words (not modelled).",
        lean=["SuxModel.Props.C10", "SuxModel.Props.C06"],
        runners=["bfv", "bitvec"],
        ops={"wordtype", "raw", "clone", "copy", "apply", "chunk_set", "chunk_get", "get_unaligned", "reset", "par_reset", "areset",
             "fill", "par_fill", "afill", "flip", "par_flip", "aflip", "count_ones", "par_count_ones", "acount", "count_zeros"},
        trusted_base=["BitFieldVec model (copy, applyInPlace, chunkOp, getUnaligned) and BitVec model (fillWords, flip, countOnes)"],
        assumptions=["word sizes are powers of two (8..128)", "the apply callback returns values that fit (apply_in_place checks it and panics otherwise; the panic path is not generated)"],
        open=[],
    ),
    "C14": dict(
        claim="Readers ignore garbage: every observation of BitVec / BitFieldVec (get, counting, iteration over bits / ones / zeros, equality, unchecked iterators) is a function of the logical contents only, for arbitrary storage beyond len*width (stale bits, spare words). Writers keep the frame: set, fill, flip, reset, copy-into, apply_in_place, chunked writes, atomic set/reset change no storage bit outside the documented elements. Restated from the C05/C06/C10 theorems; tied to the code by running every history over dirty raw backends and comparing all backing words after every op (model) and the untouched-bits oracle (harness).",
        note="Trusted: Lean kernel + {propext, Classical.choice, Quot.sound}; model + harness.",
        lean=["SuxModel.Props.C14"],
        runners=["bitvec", "bfv"],
        ops=None,
        frame_only=True,
        trusted_base=["BitVec and BitFieldVec models operate on raw words; St.Inv says nothing about bits beyond the logical length"],
        assumptions=["par_count_ones / parallel variants = sequential functions"],
        open=[],
    ),
    "C18": dict(
        claim="Partition theorem on the SigStore model (mirror of sig_store.rs: high_bits, new_online/new_offline, try_push, into_shard_store, both ShardIterator::next impls with equal/aggregate/split branches, borrowed and consuming): for every backend, signature width, pushed list and admissible (bucket bits, max shard bits, shard bits), iteration yields exactly 2^shard_bits shards, shard i is (as a multiset) the pushed pairs whose top shard_bits bits are i, shard_sizes[i] is its length, len is the number pushed, the union is the pushed multiset, borrowed iteration leaves the store unchanged and equals the consuming one; no panic, no uninitialised read. Model tied to the code by differential correspondence (online/offline, [u64;1]/[u64;2], u8/u64/EmptyVal, all triples with bits <= 6 quick / <= 10 thorough).",
        note="Trusted: Lean kernel + {propext, Classical.choice, Quot.sound}; hand-written model + correspondence harness; binary file I/O is a parameter (a bucket file = the list of pairs written, read_exact returns a prefix, set_len(0) empties); usize = 64 bits; allocator never fails.",
        lean=["SuxModel.Props.C18"],
        runners=["sigstore"],
        ops={"case", "new", "push", "pushes", "len", "max_shard_high_bits", "shard", "shard_sizes", "iter", "iter_take", "into_iter"},
        trusted_base=["SigStore model: SuxModel/SigStore/Model.lean mirrors src/utils/sig_store.rs method by method; file backend = list of pairs (binary I/O a parameter)"],
        assumptions=["bits < 64 (documented; the constructors panic otherwise in a checked build)", "offline: bucket bits < 31 (i32 loop counter in new_offline)", "file system / allocator never fail"],
        open=[],
    ),
    "C20": dict(
        claim="lines_spec: a full pass of a line lender yields exactly the lines of the (decoded) file per the independent spec splitLines/specItems; rewind_replays: for LineLender, Zstd/GzipLineLender (any decoder function) and FromIntoIterator, after ANY history of next/rewind calls, rewind + full pass yields exactly the items of the first pass. For lender::Take the statement is false (known finding D18): the replay is (items).take(n - #next calls) (take_rewind_items, take_rewind_counterexample, take_replay_complete_iff).",
        note="Model tied to the code by differential correspondence on real Cursor/temp-file/gzip/zstd lenders incl. 64 KiB-1 MiB lines, CRLF, lone CR, invalid UTF-8, multi-block/member/frame streams. Trusted: Lean kernel + {propext, Classical.choice, Quot.sound}; decoders as parameters.",
        lean=["SuxModel.Props.C20"],
        runners=["lender"],
        ops=None,
        trusted_base=[
            "Lender model SuxModel/Lender/Model.lean mirrors src/utils/lenders.rs and lender-0.3.2 adapters/take.rs",
            "BufReader/Cursor/File = byte list + position; read_until/seek(Start(0)) semantics; no I/O errors (rewind never fails)",
            "zstd/flate2 decoders are a parameter dec (compressed bytes from offset 0 -> plain bytes): theorems hold for every dec; correct decoding from a frame start is tested, not proved; GzDecoder reads the first member only",
            "str::from_utf8 accepts exactly utf8Valid (RFC 3629 automaton), differentially tested",
        ],
        assumptions=["no I/O error during next/rewind", "compressed stream well-formed", "Take of a base lender (not Take of Take)"],
        open=[],
    ),
    "C06": dict(
        claim="Refinement theorem: every operation history on the BitVec model (word-level mirror of bit_vec.rs) yields exactly the observations of a Vec<bool>, index errors panic with state unchanged, no out-of-bounds access; lifted to all histories by induction. The model is tied to the code by differential correspondence on generated histories incl. dirty backends.",
        note="Trusted: Lean kernel + {propext, Classical.choice, Quot.sound}; the hand-written model and the correspondence harness (differential testing power); usize = 64 bits; allocator never fails.",
        lean=["SuxModel.Props.C06"],
        runners=["bitvec"],
        ops=None,
        trusted_base=["BitVec model: SuxModel/BitVec/Model.lean mirrors src/bits/bit_vec.rs method by method (W = 64)"],
        assumptions=["usize = 64 bits", "lengths < 2^64 (no overflow of len)", "Vec growth never fails (allocator)"],
        open=[],
    ),
}
