#!/usr/bin/env python3
"""
Regenerates lean/SuxModel/Gen/Consts.lean from /repo's *current* source text (tie 3 of DESIGN §1).

Each constant is located by a regex anchored on the surrounding source; every listed file must
match exactly the expected number of times and, where several files carry the same constant
(the four SelectAdapt variants), all must agree.  A broken anchor is a broken tie: the script
prints `CHECK-BROKEN tie=consts anchor=<name>` and exits 1.  The Lean models refer to these
definitions, and the side conditions the proofs need are lemmas about the generated values
(SuxModel/Gen/ConstsLemmas.lean), so the theorems are re-checked against what the code says now:
an edited constant either keeps every side condition (harmless; correspondence decides) or breaks
a named lemma (then check reports per DESIGN §3.1).
"""
import os, re, sys

REPO = os.environ.get("VERIF_REPO", "/repo")
OUT = os.path.join(os.environ.get("VERIF_LEAN_DIR") or os.path.join(os.path.dirname(os.path.abspath(__file__)), "..", "lean"), "SuxModel", "Gen", "Consts.lean")


def num(s):
    s = s.replace("_", "").strip()
    return int(s, 16) if s.lower().startswith("0x") else int(s)


def ratio(s):
    """decimal literal -> (numerator, denominator) as exact rational"""
    s = s.replace("_", "").strip().rstrip(".")
    if "." in s:
        a, b = s.split(".")
        return int(a + b), 10 ** len(b)
    return int(s), 1


ADAPT = ["src/rank_sel/select_adapt.rs", "src/rank_sel/select_adapt_const.rs",
         "src/rank_sel/select_zero_adapt.rs", "src/rank_sel/select_zero_adapt_const.rs"]

# (lean name, files, regex with one group, converter, expected matches per file, doc)
ANCHORS = [
    ("spanU16Max", ["src/rank_sel/select_adapt.rs"], r"0\.\.=(0x[0-9a-fA-F_]+)\s*=>\s*SpanType::U16", num, 1, "largest span encoded with 16-bit offsets"),
    ("spanU32Max", ["src/rank_sel/select_adapt.rs"], r"0x[0-9a-fA-F_]+\.\.=(0x[0-9a-fA-F_]+)\s*=>\s*SpanType::U32", num, 1, "largest span encoded with 32-bit offsets"),
    ("spanU32Min", ["src/rank_sel/select_adapt.rs"], r"(0x[0-9a-fA-F_]+)\.\.=0x[0-9a-fA-F_]+\s*=>\s*SpanType::U32", num, 1, "smallest span encoded with 32-bit offsets"),
    ("sub32Shift", ADAPT, r"saturating_sub\(\(span >> (\d+)\)\.ilog2\(\)", num, 1, "shift in log2_ones_per_sub32"),
    ("defaultTargetInventorySpan", ["src/rank_sel/select_adapt.rs", "src/rank_sel/select_zero_adapt.rs"],
     r"DEFAULT_TARGET_INVENTORY_SPAN: usize = (\d+);", num, 1, "default target inventory span"),
    ("rank9WordsPerBlock", ["src/rank_sel/rank9.rs"], r"const WORDS_PER_BLOCK: usize = (\d+);", num, 1, "words per Rank9 block"),
    ("rank9RelBits", ["src/rank_sel/rank9.rs"], r"self\.relative >> \((\d+) \* \(word \^ 7\)\)", num, 1, "bits per Rank9 relative counter"),
    ("rank9RelMask", ["src/rank_sel/rank9.rs"], r"\(word \^ 7\)\)\) & (0x[0-9A-Fa-f]+)", num, 1, "mask of a Rank9 relative counter"),
    ("superblockLog2", ["src/rank_sel/rank_small.rs"], r"num_bits\.div_ceil\(1usize << (\d+)\)", num, 1, "log2 of the RankSmall superblock size in bits"),
    ("upperCountWordsLog2", ["src/rank_sel/rank_small.rs"], r"i % \(1usize << (\d+)\) == 0", num, 1, "log2 of the RankSmall superblock size in words"),
    ("sel9Log2OnesPerInv", ["src/rank_sel/select9.rs"], r"const LOG2_ZEROS_PER_INVENTORY: usize = (\d+);", num, 1, "log2 of ones per Select9 inventory entry"),
    ("sel9U64PerSubinv", ["src/rank_sel/select9.rs"], r"let u64_per_subinventory = (\d+);", num, 1, "u64 per Select9 subinventory"),
    ("selSmallBlocksPerInv", ["src/rank_sel/select_small.rs", "src/rank_sel/select_zero_small.rs"],
     r"Self::with_inv\(small_counters, (\d+)\)", num, 1, "default RankSmall blocks per inventory entry"),
    ("efLog2OnesPerInv", ["src/dict/elias_fano.rs"], r"Select(?:Zero)?AdaptConst::<_, _, (\d+), \d+>::new", num, 8, "Elias-Fano select: log2 ones per inventory"),
    ("efLog2U64PerSub", ["src/dict/elias_fano.rs"], r"Select(?:Zero)?AdaptConst::<_, _, \d+, (\d+)>::new", num, 8, "Elias-Fano select: log2 u64 per subinventory"),
    ("vbyteBase", ["src/dict/rear_coded_list.rs"], r"const UPPER_BOUND_1: usize = (\d+);", num, 1, "first vbyte bound"),
    ("maxLinSize", ["src/func/shard_edge.rs"], r"const MAX_LIN_SIZE: usize = ([\d_]+);", num, 1, "largest key set solved by lazy Gaussian elimination"),
    ("halfMaxLinShardSize", ["src/func/shard_edge.rs"], r"const HALF_MAX_LIN_SHARD_SIZE: usize = ([\d_]+);", num, 1, "half of the maximum LGE shard size"),
    ("minFuseShard", ["src/func/shard_edge.rs"], r"const MIN_FUSE_SHARD: usize = ([\d_]+);", num, 1, "minimum fuse shard size"),
    ("noShardsSegCap", ["src/func/shard_edge.rs"], r"Self::log2_seg_size\(3, n\)\.min\((\d+)\)", num, 1, "cap of log2 segment size without shards"),
    ("log2MaxShards", ["src/func/vbuilder.rs"], r"const LOG2_MAX_SHARDS: u32 = (\d+);", num, 1, "log2 of the maximum number of shards"),
    ("dupRetries", ["src/func/vbuilder.rs"], r"if dup_count >= (\d+) \{", num, 1, "retries on duplicate signatures"),
    ("localDupRetries", ["src/func/vbuilder.rs"], r"if local_dup_count >= (\d+) \{", num, 1, "retries on duplicate local signatures"),
    # D34: the bound on consecutive `MaxShardTooBig` retries under `check_dups`, inside `build_loop`
    ("maxShardTooBigRetries", ["src/func/vbuilder.rs"],
     r"fn build_loop\b(?:(?!\n    fn ).)*?SolveError::MaxShardTooBig => \{(?:(?!SolveError::).)*?if self\.check_dups && max_shard_count >= (\d+) \{",
     num, 1, "retries on an oversized maximum shard when duplicate checking is on (then DuplicateKey)"),
    ("maxNoLocalSigCheckLog2", ["src/func/vbuilder.rs"], r"const MAX_NO_LOCAL_SIG_CHECK: usize = 1 << (\d+);", num, 1, "log2 of the key count above which local signatures are deduplicated"),
    ("mixMul1", ["src/func/mod.rs"], r"k = k\.overflowing_mul\((0x[0-9a-f_]+)\)\.0;\s*k \^= k >> 33;\s*k = k\.overflowing_mul", num, 1, "first multiplier of mix64"),
    ("mixMul2", ["src/func/mod.rs"], r"k \^= k >> 33;\s*k = k\.overflowing_mul\((0x[0-9a-f_]+)\)\.0;\s*k \^= k >> 33;\s*k\s*\}", num, 1, "second multiplier of mix64"),
    ("mixShift", ["src/func/mod.rs"], r"k \^= k >> (\d+);", num, 3, "shift of mix64"),
    ("unalignedSlackA", ["src/bits/bit_field_vec.rs"], r"self\.bit_width <= W::BITS - 8 \+ (\d+)", num, 2, "get_unaligned: widths up to W - 8 + this"),
    ("unalignedSlackB", ["src/bits/bit_field_vec.rs"], r"self\.bit_width == W::BITS - 8 \+ (\d+)", num, 2, "get_unaligned: width W - 8 + this"),
]

# rationals: emitted as numerator / denominator pairs
RATIOS = [
    ("maxShardSlack", ["src/func/vbuilder.rs"], r"max_shard as f64 > ([\d.]+) \* self\.num_keys as f64", 1, "tolerated ratio largest / average shard"),
    ("cSmall", ["src/func/shard_edge.rs"], r"if n <= 100 \{\s*\(([\d.]+), Self::lin_log2_seg_size", 1, "expansion factor for n <= 100 (sharded logic)"),
    ("cLin", ["src/func/shard_edge.rs"], r"else if n <= Self::MAX_LIN_SIZE \{\s*\(([\d.]+), Self::lin_log2_seg_size", 1, "expansion factor in the LGE regime (sharded logic)"),
    ("cLinNoShards", ["src/func/shard_edge.rs"], r"HALF_MAX_LIN_SHARD_SIZE \{\s*\(([\d.]+), FuseLge3Shards::lin_log2_seg_size", 1, "expansion factor in the LGE regime (no shards)"),
    ("linSegCoeff", ["src/func/shard_edge.rs"], r"\(([\d.]+) \* \(n\.max\(1\) as f64\)\.ln\(\)\)\.floor\(\)", 1, "coefficient of ln n in lin_log2_seg_size"),
]

LISTS = [
    # fuse c() constants in order
    ("cFuse", "src/func/shard_edge.rs",
     r"if n <= Self::MIN_FUSE_SHARD / 2 \{\s*([\d.]+)\s*\} else if n <= Self::MIN_FUSE_SHARD \{\s*([\d.]+)\s*\} else if n <= 2 \* Self::MIN_FUSE_SHARD \{\s*([\d.]+)\s*\} else \{\s*([\d.]+)\s*\}",
     "expansion factors of the fuse regime, by shard size class"),
]

# statements that select a behaviour: (lean name, file, regex with one group capturing the statement
# text, {statement text: Lean Bool literal}, doc).  Any other statement text (or a number of matches
# different from one) is an extraction error: the model has no counterpart for it.
CHOICES = [
    # the first statement of `if shard.is_empty() { … }` in the worker loop of `par_solve`; the
    # negative lookahead keeps the match inside the body of `par_solve`
    ("parEmptyShardContinues", "src/func/vbuilder.rs",
     r"fn par_solve\b(?:(?!\n    fn ).)*?if shard\.is_empty\(\) \{\s*([^;{}]*?)\s*;",
     {"continue": "true", "return": "false"},
     "what a `par_solve` worker does when it receives an empty shard: `continue;` (true: it goes on "
     "to the next shard) or `return;` (false: the worker thread ends, defect D31)"),
]


def main():
    out = ["/-! GENERATED by tools/extract_consts.py from /repo's current source — do not edit.",
           "Every run of ./check regenerates this file; the proofs are re-checked against these values. -/",
           "namespace Sux.Gen", ""]
    bad = []

    def grab(name, files, rx, expected):
        vals = []
        for f in files:
            src = open(os.path.join(REPO, f)).read()
            ms = re.findall(rx, src, flags=re.S)
            if len(ms) != expected:
                bad.append((name, f, len(ms), expected))
                return None
            vals += [m if isinstance(m, str) else m for m in ms]
        return vals

    for name, files, rx, conv, expected, doc in ANCHORS:
        vals = grab(name, files, rx, expected)
        if vals is None:
            continue
        cv = {conv(v) for v in vals}
        if len(cv) != 1:
            bad.append((name, ",".join(files), f"disagreeing values {sorted(cv)}", 1))
            continue
        out.append(f"/-- {doc} (`{files[0]}`{' and ' + str(len(files) - 1) + ' more' if len(files) > 1 else ''}) -/")
        out.append(f"def {name} : Nat := {cv.pop()}")
    for name, files, rx, expected, doc in RATIOS:
        vals = grab(name, files, rx, expected)
        if vals is None:
            continue
        cv = {ratio(v) for v in vals}
        if len(cv) != 1:
            bad.append((name, ",".join(files), "disagreeing values", 1))
            continue
        a, b = cv.pop()
        out.append(f"/-- {doc} (`{files[0]}`), as the exact rational `{name}Num / {name}Den` -/")
        out.append(f"def {name}Num : Nat := {a}")
        out.append(f"def {name}Den : Nat := {b}")
    for name, f, rx, doc in LISTS:
        src = open(os.path.join(REPO, f)).read()
        ms = re.findall(rx, src, flags=re.S)
        if len(ms) != 1:
            bad.append((name, f, len(ms), 1))
            continue
        rs = [ratio(x) for x in ms[0]]
        den = max(b for _, b in rs)
        nums = [a * (den // b) for a, b in rs]
        out.append(f"/-- {doc} (`{f}`), numerators over `{name}Den` -/")
        out.append(f"def {name}Nums : List Nat := {nums}")
        out.append(f"def {name}Den : Nat := {den}")
    for name, f, rx, table, doc in CHOICES:
        src = open(os.path.join(REPO, f)).read()
        ms = re.findall(rx, src, flags=re.S)
        if len(ms) != 1:
            bad.append((name, f, len(ms), 1))
            continue
        stmt = " ".join(ms[0].split())
        if stmt not in table:
            bad.append((name, f, f"unexpected statement `{stmt}`", "one of " + "/".join(sorted(table))))
            continue
        out.append(f"/-- {doc} (`{f}`) -/")
        out.append(f"def {name} : Bool := {table[stmt]}")
    # RankSmall table from the rank_small! macro arms
    src = open(os.path.join(REPO, "src/rank_sel/rank_small.rs")).read()
    arms = re.findall(r"\((\d) ; \$bits: expr\) => \{\s*\$crate::prelude::RankSmall::<(\d+), (\d+), _, _, _>::new", src)
    if len(arms) != 5 or [int(a[0]) for a in arms] != [0, 1, 2, 3, 4]:
        bad.append(("rankSmallTable", "src/rank_sel/rank_small.rs", len(arms), 5))
    else:
        out.append("/-- (NUM_U32S, COUNTER_WIDTH) of `rank_small![k; …]`, k = 0..4 (`src/rank_sel/rank_small.rs`) -/")
        out.append("def rankSmallTable : List (Nat × Nat) := [" + ", ".join(f"({a[1]}, {a[2]})" for a in arms) + "]")
    out += ["", "end Sux.Gen", ""]
    new = "\n".join(out)
    old = open(OUT).read() if os.path.exists(OUT) else None
    if new != old:
        os.makedirs(os.path.dirname(OUT), exist_ok=True)
        open(OUT, "w").write(new)
    for name, f, n, e in bad:
        print(f"CHECK-BROKEN tie=consts anchor={name} file={f} matches={n} expected={e}")
    return 1 if bad else 0


if __name__ == "__main__":
    sys.exit(main())
