import SuxModel.Props.C03Backends
#print axioms Sux.EF.ef_high_wellformed
#print axioms Sux.EF.ef_select_backend_is_spec
#print axioms Sux.EF.ef_select_zero_backend_is_spec
#print axioms Sux.EF.ef_high_lt_2_62
