import SuxModel.Props.C19
#print axioms Sux.GF2.add_symmdiff
#print axioms Sux.GF2.add_eval
#print axioms Sux.GF2.add_in_bounds
#print axioms Sux.GF2.row_add_preserves
#print axioms Sux.GF2.row_swap_preserves
#print axioms Sux.GF2.check_spec
#print axioms Sux.GF2.exists_check_of_sat
#print axioms Sux.GF2.gauss_sound
#print axioms Sux.GF2.gauss_complete
#print axioms Sux.GF2.gauss_total
#print axioms Sux.GF2.gauss_ok_iff_solvable
#print axioms Sux.GF2.gauss_post
