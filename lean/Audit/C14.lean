import SuxModel.Props.C14
#print axioms Sux.C14.bv_reads_ignore_garbage
#print axioms Sux.C14.bv_eq_ignores_garbage
#print axioms Sux.C14.bv_write_frame
#print axioms Sux.C14.bfv_reads_ignore_garbage
#print axioms Sux.C14.bfv_eq_ignores_garbage
#print axioms Sux.C14.bfv_write_frame
#print axioms Sux.C14.bfv_copy_frame
#print axioms Sux.C14.bfv_apply_frame
#print axioms Sux.C14.bfv_chunk_write_frame
#print axioms Sux.C14.bfv_set_frame
#print axioms Sux.C14.bv_history_ignores_garbage
#print axioms Sux.C14.bfv_history_ignores_garbage
#print axioms Sux.C14.bv_history_frame
#print axioms Sux.C14.bfv_history_frame
