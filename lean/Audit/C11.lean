import SuxModel.Props.C11
import SuxModel.Space.EFReal
/-! Axiom audit for C11: every line must list only `propext`, `Classical.choice`, `Quot.sound`.
`SuxModel.Space.EFReal` (real-valued Elias–Fano bound) imports two Mathlib modules and is not part
of the default build: run `lake build SuxModel.Props.C11 SuxModel.Space.EFReal` first. -/
#print axioms Sux.Space.c11_bitvec_exact
#print axioms Sux.Space.c11_bitvec_model
#print axioms Sux.Space.c11_bfv_exact
#print axioms Sux.Space.c11_bfv_unaligned_exact
#print axioms Sux.Space.c11_bfv_model
#print axioms Sux.Space.c11_rank9
#print axioms Sux.Space.c11_ranksmall0
#print axioms Sux.Space.c11_ranksmall1
#print axioms Sux.Space.c11_ranksmall2
#print axioms Sux.Space.c11_ranksmall3
#print axioms Sux.Space.c11_ranksmall4
#print axioms Sux.Space.c11_ranksmall_upper
#print axioms Sux.Space.c11_select9
#print axioms Sux.Space.c11_ef_l
#print axioms Sux.Space.c11_ef_high
#print axioms Sux.Space.c11_ef_rounding
#print axioms Sux.Space.c11_ef_empty
#print axioms Sux.Space.c11_vfunc_shard_cells
#print axioms Sux.Space.c11_vfunc_cells_all
#print axioms Sux.Space.c11_vfunc_123_all
#print axioms Sux.Space.c11_vfunc_cells
#print axioms Sux.Space.c11_vfunc_123_small
#print axioms Sux.Space.c11_vfunc_large
#print axioms Sux.Space.c11_vfunc_1135_balanced
#print axioms Sux.Space.c11_vfunc_noshards_113
#print axioms Sux.Space.c11_vfunc_bits
#print axioms Sux.Space.c11_vfunc_min_graph
#print axioms Sux.Space.c11_mwhc_cells
#print axioms Sux.Space.c11_mwhc_exceeds_1135
#print axioms Sux.Space.c11_noshards_exceeds_1135
#print axioms Sux.Space.ef_bits_le
#print axioms Sux.Space.ef_words_le
