import SuxModel.Props.C17
#print axioms Sux.Func.BL.key_error_fails_attempt
#print axioms Sux.Func.BL.value_error_fails_attempt
#print axioms Sux.Func.BL.io_error_propagates
#print axioms Sux.Func.BL.rewind_error_propagates
#print axioms Sux.Func.BL.dup_bounded
#print axioms Sux.Func.BL.local_dup_bounded
#print axioms Sux.Func.BL.ok_is_last_attempt
#print axioms Sux.Func.BL.ok_delivers_all
#print axioms Sux.Func.BL.terminates_of_final_attempt
#print axioms Sux.Func.BL.never_returns_if_all_transient
#print axioms Sux.Func.BL.returns_only_if_nontransient
#print axioms Sux.Func.BL.build_loop_bounded_when_checking_dups
#print axioms Sux.Func.BL.build_loop_bound_38
#print axioms Sux.Func.BL.heavy_key_shard
#print axioms Sux.Func.BL.heavy_key_forces_max_shard_too_big
#print axioms Sux.Func.BL.heavy_key_gives_duplicate_key_after_33_attempts
#print axioms Sux.Func.BL.old_loop_never_returns_on_heavy_key
