import SuxModel.Props.C02Small9
/-! Axiom audit for C02 (Select9 / SelectSmall part): only `propext`, `Classical.choice`, `Quot.sound`. -/
#print axioms Sux.RS.uleq_step_counts_lanes
#print axioms Sux.RS.small_select_query_correct
#print axioms Sux.RS.small_select_zero_query_correct
#print axioms Sux.RS.small_build_establishes_inv
#print axioms Sux.RS.small_layer_select_correct
#print axioms Sux.RS.small_layer_select_zero_correct
#print axioms Sux.RS.select9_query_correct
#print axioms Sux.RS.select9_build_inventory_partial
#print axioms Sux.RS.select9_build_establishes_inv
#print axioms Sux.RS.select9_layer_select_correct
#print axioms Sux.RS.select9_view_is_rank9_build
#print axioms Sux.RS.select9_over_rank9_select_correct
#print axioms Sux.RS.small_view_is_rankSmall_build
#print axioms Sux.RS.small_over_rankSmall_select_correct
#print axioms Sux.RS.small_over_rankSmall_select_zero_correct
