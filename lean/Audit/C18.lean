import SuxModel.Props.C18
#print axioms Sux.SigStore.high_bits_top
#print axioms Sux.SigStore.high_bits_shift
#print axioms Sux.SigStore.high_bits_call
#print axioms Sux.SigStore.shards_partition
#print axioms Sux.SigStore.iter_order
#print axioms Sux.SigStore.shard_bits_beyond_max_panics
#print axioms Sux.SigStore.new_bits_ge_64_panics
