import SuxModel.Props.C02Adapt
/-! Axiom audit for C02 (adaptive family): every line must list only `propext`, `Classical.choice`,
`Quot.sound`. -/
#print axioms Sux.RS.Adapt.hinted_select_correct
#print axioms Sux.RS.Adapt.hinted_select_zero_correct
#print axioms Sux.RS.Adapt.adapt_query_correct
#print axioms Sux.RS.Adapt.adapt_select_unchecked_correct
#print axioms Sux.RS.Adapt.adapt_select_zero_unchecked_correct
#print axioms Sux.RS.Adapt.adapt_select_correct
#print axioms Sux.RS.Adapt.adapt_select_zero_correct
#print axioms Sux.RS.Adapt.adapt_select_none_iff
#print axioms Sux.RS.Adapt.adapt_build_inv
#print axioms Sux.RS.Adapt.adapt_const_build_inv
#print axioms Sux.RS.Adapt.adapt_with_inv_build_inv
#print axioms Sux.RS.Adapt.adapt_with_span_build_inv
#print axioms Sux.RS.Adapt.adaptConst_select_correct
#print axioms Sux.RS.Adapt.adaptConst_select_zero_correct
#print axioms Sux.RS.Adapt.adapt_with_inv_select_correct
#print axioms Sux.RS.Adapt.adapt_with_inv_select_zero_correct
#print axioms Sux.RS.Adapt.adapt_with_span_select_correct
#print axioms Sux.RS.Adapt.adapt_with_span_select_zero_correct
