import SuxModel.Props.C08
#print axioms Sux.Func.no_false_negative
#print axioms Sux.Func.no_false_negatives
#print axioms Sux.Func.mask_eq
#print axioms Sux.Func.filterVal_lt
#print axioms Sux.Func.accept_count
#print axioms Sux.Func.accept_iff
#print axioms Sux.Func.contains_iff
#print axioms Sux.Func.contains_eq
#print axioms Sux.Func.contains_iff_hash_class
#print axioms Sux.Func.rejects_outside_class
