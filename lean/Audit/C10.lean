import SuxModel.Props.C10
#print axioms Sux.BFV.copy_correct
#print axioms Sux.BFV.copy_vals
#print axioms Sux.BFV.copy_width_zero_panics
#print axioms Sux.BFV.apply_correct
#print axioms Sux.BFV.apply_correct_pow2
#print axioms Sux.BFV.unaligned_eq_get
