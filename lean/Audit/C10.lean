import SuxModel.Props.C10
#print axioms Sux.BFV.copy_correct
#print axioms Sux.BFV.copy_vals
#print axioms Sux.BFV.copy_width_zero_panics
#print axioms Sux.BFV.apply_correct
#print axioms Sux.BFV.apply_correct_pow2
#print axioms Sux.BFV.chunk_get_correct
#print axioms Sux.BFV.chunk_set_correct
#print axioms Sux.BFV.chunk_err_iff
#print axioms Sux.BFV.chunk_no_oob
#print axioms Sux.BFV.chunk_zero_panics
#print axioms Sux.BFV.unaligned_eq_get
#print axioms Sux.BFV.unaligned_eq_get_call
#print axioms Sux.BFV.slice_copy_spec
#print axioms Sux.BFV.slice_copy_panics
