import SuxModel.Props.C10
#print axioms Sux.BFV.copy_correct
#print axioms Sux.BFV.copy_vals
#print axioms Sux.BFV.copy_width_zero_panics
