import SuxModel.Props.C06
/-! Axiom audit for C06: every line must list only `propext`, `Classical.choice`, `Quot.sound`. -/
#print axioms Sux.BV.withValue_spec
#print axioms Sux.BV.withCapacity_spec
#print axioms Sux.BV.step_refines
#print axioms Sux.BV.run_refines
#print axioms Sux.BV.step_never_oob
#print axioms Sux.BV.run_never_oob
#print axioms Sux.BV.step_frame
#print axioms Sux.BV.eq_spec
#print axioms Sux.BV.reads_ignore_garbage
#print axioms Sux.BV.run_ignores_garbage
