import SuxModel.Props.C13
/-! Axiom audit for C13: every line must list only `propext`, `Classical.choice`, `Quot.sound`. -/
#print axioms Sux.Atomic.compat_writers_final
#print axioms Sux.Atomic.distinct_writers_final
#print axioms Sux.Atomic.bit_writers_final
#print axioms Sux.Atomic.swap_linearizable
#print axioms Sux.Atomic.seqStep_swap_is_BV_swap
#print axioms Sux.Atomic.ef_concurrent_eq_sequential
#print axioms Sux.Atomic.parts_of_perm
#print axioms Sux.Atomic.no_thread_faults
#print axioms Sux.Atomic.cas_failures_bounded
#print axioms Sux.Atomic.cas_failures_bounded_sc
#print axioms Sux.Atomic.fair_schedule_terminates
