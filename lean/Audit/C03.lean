import SuxModel.Props.C03
#print axioms Sux.EF.ef_build_total
#print axioms Sux.EF.ef_repr
#print axioms Sux.EF.ef_get
#print axioms Sux.EF.ef_get_out_of_range
#print axioms Sux.EF.ef_len
#print axioms Sux.EF.ef_iter
#print axioms Sux.EF.ef_iter_from
#print axioms Sux.EF.ef_iter_from_out_of_range
#print axioms Sux.EF.ef_push_accepts_iff
#print axioms Sux.EF.ef_push_rejects
#print axioms Sux.EF.ef_build_too_few
#print axioms Sux.EF.ef_new_overflow_panics
#print axioms Sux.EF.ef_extend
#print axioms Sux.EF.ef_from_slice
#print axioms Sux.EF.ef_from_slice_rejects
#print axioms Sux.EF.ef_concurrent_eq_sequential
#print axioms Sux.EF.ef_no_oob
