import SuxModel.Props.C15
/-! Axiom audit for C15: every line must list only `propext`, `Classical.choice`, `Quot.sound`. -/
#print axioms Sux.Serde.decode_encode
#print axioms Sux.Serde.padding_lemma
#print axioms Sux.Serde.view_reads_same
#print axioms Sux.Serde.view_encode
#print axioms Sux.Serde.view_misaligned_rejected
#print axioms Sux.Serde.answers_identical
#print axioms Sux.Serde.bitvec_answers
#print axioms Sux.Serde.rank9_answers
