import SuxModel.Props.C15
/-! Axiom audit for C15: every line must list only `propext`, `Classical.choice`, `Quot.sound`. -/
#print axioms Sux.Serde.decode_encode
#print axioms Sux.Serde.padding_lemma
#print axioms Sux.Serde.view_reads_same
#print axioms Sux.Serde.view_encode
#print axioms Sux.Serde.view_misaligned_rejected
#print axioms Sux.Serde.answers_identical
#print axioms Sux.Serde.bitvec_answers
#print axioms Sux.Serde.rank9_answers
#print axioms Sux.Serde.Bridge.reload
#print axioms Sux.Serde.Bridge.answers
#print axioms Sux.Serde.Bridge.rejected
#print axioms Sux.Serde.bfv_answers
#print axioms Sux.Serde.rankSmall_answers
#print axioms Sux.Serde.ef_answers
#print axioms Sux.Serde.ef_built_answers
#print axioms Sux.Serde.adapt_answers
#print axioms Sux.Serde.adaptConst_answers
#print axioms Sux.Serde.select9_answers
#print axioms Sux.Serde.small_answers
#print axioms Sux.Serde.rcl_answers
#print axioms Sux.Serde.vfunc_answers
#print axioms Sux.Serde.vfilter_answers
#print axioms Sux.Serde.rankSmall_built_answers
#print axioms Sux.Serde.bridged_misaligned_rejected
