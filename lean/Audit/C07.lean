import SuxModel.Props.C07
#print axioms Sux.Func.equations_hold_get
#print axioms Sux.Func.get_iff_equation
#print axioms Sux.Func.assign_correct
#print axioms Sux.Func.peel_sound
#print axioms Sux.Func.peel_loop_invariant
#print axioms Sux.Func.peel_assign_correct
#print axioms Sux.Func.lge_correct
#print axioms Sux.Func.shards_disjoint
#print axioms Sux.Func.whole_function_correct
#print axioms Sux.Func.sharding_consistent
#print axioms Sux.Func.knobs_irrelevant
