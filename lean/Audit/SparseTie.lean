import SuxModel.RankSel.SparseTie
#print axioms Sux.RS.Sparse.modelOf_queries
#print axioms Sux.RS.Sparse.modelsOf_eq
