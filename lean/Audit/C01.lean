import SuxModel.Props.C01
/-! Axiom audit for C01: every line must list only `propext`, `Classical.choice`, `Quot.sound`. -/
#print axioms Sux.RS.rank9_correct
#print axioms Sux.RS.rank9_rankOf
#print axioms Sux.RS.rank9_numOnes
#print axioms Sux.RS.rank9_rankZero_numZeros
#print axioms Sux.RS.rel_packing
#print axioms Sux.RS.rank9_counters
#print axioms Sux.RS.rankSmall_correct
#print axioms Sux.RS.rankSmall_admissible
#print axioms Sux.RS.rankSmall_rankOf
#print axioms Sux.RS.rankSmall_numOnes_rankZero_numZeros
#print axioms Sux.RS.rankSmall_counters
#print axioms Sux.RS.rankSmall_absolute_no_trunc
#print axioms Sux.RS.rank9_layer
#print axioms Sux.RS.rankSmall_layer
#print axioms Sux.RS.firstSome_through
#print axioms Sux.RS.rank_through_stack_r9
#print axioms Sux.RS.rank_through_stack_rs
