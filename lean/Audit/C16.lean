import SuxModel.Props.C16
#print axioms Sux.Edge.edge_ok
#print axioms Sux.Edge.sort_key_lt
#print axioms Sux.Edge.shard_eq_high_bits
#print axioms Sux.Edge.fullsigs_rotation
#print axioms Sux.Edge.setup_params_ok
#print axioms Sux.Edge.setup_edge_ok
#print axioms Sux.Edge.mwhc_n_zero_ok
#print axioms Sux.Edge.mwhc_seg_zero_counterexample
#print axioms Sux.Edge.setup_assert_wraps_counterexample
