import SuxModel.Space.LemmasGrow
import SuxModel.RankSel.Rank9.Model
import SuxModel.RankSel.RankSmall.Model
/-!
# C11 — the size formulas against the validated builder models of `Rank9` and `RankSmall`

Optional strengthening of the tie (the runner `space` already compares the formulas with
`mem_size` of the real structures): the executable builder models of the runner `ranksel`, whose
exported arrays are compared element by element with the real ones, produce arrays of exactly
the length the formulas say.  Imports only the two `Model.lean` files.
-/
namespace Sux.Space

theorem r9_divCeil_eq (a b : Nat) (hb : 0 < b) : RS.Rank9.divCeil a b = divCeil a b := by
  unfold RS.Rank9.divCeil divCeil
  have hm := Nat.mod_lt a hb
  have hd := Nat.div_add_mod a b
  split
  · rename_i h
    symm; apply Nat.div_eq_of_lt_le
    · rw [Nat.add_mul, Nat.one_mul]
      have : a / b * b = b * (a / b) := Nat.mul_comm _ _
      omega
    · rw [Nat.add_mul, Nat.add_mul, Nat.one_mul]
      have : a / b * b = b * (a / b) := Nat.mul_comm _ _
      omega
  · rename_i h
    have h0 : a % b = 0 := by omega
    symm; apply Nat.div_eq_of_lt_le
    · have : a / b * b = b * (a / b) := Nat.mul_comm _ _
      omega
    · rw [Nat.add_mul, Nat.one_mul]
      have : a / b * b = b * (a / b) := Nat.mul_comm _ _
      omega

theorem r9_blockLoop_size (ws : Array Nat) (len numWords : Nat) :
    ∀ (fuel i numOnes : Nat) (counts : Array RS.Rank9.BlockCounters) (r : Nat × Array RS.Rank9.BlockCounters),
      RS.Rank9.blockLoop ws len numWords fuel i numOnes counts = .ok r →
      r.2.size = counts.size + fuel
  | 0, _, _, counts, r, h => by
    simp only [RS.Rank9.blockLoop, Out.ok.injEq] at h; subst h; rfl
  | fuel + 1, i, numOnes, counts, r, h => by
    simp only [RS.Rank9.blockLoop] at h
    obtain ⟨c, _, h2⟩ := bind_eq_ok h
    obtain ⟨p, _, h3⟩ := bind_eq_ok h2
    have := r9_blockLoop_size ws len numWords fuel _ _ _ r h3
    rw [this, Array.size_push]; omega

/-- `Rank9::new` (model): `⌈len/512⌉ + 1` counter pairs, i.e. `rank9Words len` words -/
theorem rank9_model_size (ws : Array Nat) (len : Nat) (cs : Array RS.Rank9.BlockCounters)
    (h : RS.Rank9.build ws len = .ok cs) : 2 * cs.size = rank9Words len := by
  unfold RS.Rank9.build at h
  obtain ⟨r, h1, h2⟩ := bind_eq_ok h
  simp only [Out.pure_eq, Out.ok.injEq] at h2
  subst h2
  have := r9_blockLoop_size ws len _ _ _ _ _ r h1
  rw [Array.size_push, this]
  rw [r9_divCeil_eq _ RS.Rank9.wordsPerBlock (by decide), r9_divCeil_eq _ 64 (by decide)]
  unfold rank9Words rank9WordsPerBlock RS.Rank9.wordsPerBlock divCeil
  simp only [Array.size_empty]
  omega

theorem rs_divCeil_eq (a b : Nat) : RS.RankSmall.divCeil a b = RS.Rank9.divCeil a b := rfl

/-- `RankSmall::new` (model), variant `k ≤ 4`: the two `assert_eq!` of the source pin the lengths -/
theorem ranksmall_model_size (k : Nat) (hk : k ≤ 4) (ws : Array Nat) (len : Nat) (x : RS.RankSmall.Idx)
    (h : RS.RankSmall.build (RS.RankSmall.variant k) ws len = .ok x) :
    x.counts.size = rsNumCounts (RS.RankSmall.variant k).counterWidth len ∧
    x.upper.size = rsUpperWords len := by
  unfold RS.RankSmall.build at h
  obtain ⟨st, _, h2⟩ := bind_eq_ok h
  split at h2
  · simp at h2
  · split at h2
    · simp at h2
    · rename_i hu hc
      simp only [Out.pure_eq, Out.ok.injEq] at h2
      subst h2
      simp only [Decidable.not_not] at hu hc
      have hwpb : 0 < 64 * (RS.RankSmall.variant k).wordsPerBlock := by
        have : k = 0 ∨ k = 1 ∨ k = 2 ∨ k = 3 ∨ k = 4 := by omega
        rcases this with h | h | h | h | h <;> subst h <;> decide
      have hbb : 64 * (RS.RankSmall.variant k).wordsPerBlock
          = rsBlockBits (RS.RankSmall.variant k).counterWidth := by
        have : k = 0 ∨ k = 1 ∨ k = 2 ∨ k = 3 ∨ k = 4 := by omega
        rcases this with h | h | h | h | h <;> subst h <;> decide
      refine ⟨?_, ?_⟩
      · rw [hc, rs_divCeil_eq, r9_divCeil_eq _ _ hwpb, hbb]; rfl
      · rw [hu, rs_divCeil_eq, r9_divCeil_eq _ _ (by decide)]; rfl

#print axioms Sux.Space.rank9_model_size
#print axioms Sux.Space.ranksmall_model_size

end Sux.Space
