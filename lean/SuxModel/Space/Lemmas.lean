import SuxModel.Space.Formulas
/-!
# C11 — arithmetic lemmas about the size formulas (integers only, core Lean)
-/
namespace Sux.Space

/-! ## `div_ceil` -/

theorem divCeil_mul_le (a : Nat) {b : Nat} (_hb : 0 < b) : divCeil a b * b ≤ a + b - 1 :=
  Nat.div_mul_le_self _ _

theorem le_divCeil_mul (a : Nat) {b : Nat} (hb : 0 < b) : a ≤ divCeil a b * b := by
  unfold divCeil
  have h := Nat.lt_mul_div_succ (a + b - 1) hb
  generalize (a + b - 1) / b = q at *
  rw [Nat.mul_add, Nat.mul_one] at h
  rw [Nat.mul_comm]
  omega

theorem divCeil_zero {b : Nat} (hb : 0 < b) : divCeil 0 b = 0 := by
  unfold divCeil
  apply Nat.div_eq_of_lt
  omega

theorem two_pow_pos' (s : Nat) : 0 < 2 ^ s := Nat.pos_of_ne_zero (by simp)

/-! ## bit vectors: exact -/

theorem bitVecWords_ge (len : Nat) : len ≤ 64 * bitVecWords len := by
  unfold bitVecWords divCeil; omega

theorem bitVecWords_lt (len : Nat) : 64 * bitVecWords len < len + 64 := by
  unfold bitVecWords divCeil; omega

theorem bfvWords_ge (W w len : Nat) (hW : 0 < W) : len * w ≤ W * bfvWords W w len := by
  unfold bfvWords
  have h := le_divCeil_mul (len * w) hW
  have : divCeil (len * w) W * W ≤ max 1 (divCeil (len * w) W) * W :=
    Nat.mul_le_mul_right _ (Nat.le_max_right _ _)
  rw [Nat.mul_comm W]; omega

theorem bfvWords_lt (W w len : Nat) (hW : 0 < W) :
    W * bfvWords W w len < max 1 (len * w) + W := by
  unfold bfvWords
  have h := divCeil_mul_le (len * w) hW
  generalize len * w = bits at *
  generalize hq : divCeil bits W = q at *
  rw [Nat.mul_comm W]
  rcases Nat.lt_or_ge q 1 with hq1 | hq1
  · have : max 1 q = 1 := by omega
    rw [this]; omega
  · have : max 1 q = q := by omega
    rw [this]
    have : 1 ≤ bits := by
      rcases Nat.eq_zero_or_pos bits with h0 | h0
      · subst h0; rw [divCeil_zero hW] at hq; omega
      · exact h0
    omega

theorem bfvUnalignedWords_ge (W w len : Nat) (hW : 0 < W) :
    len * w + W ≤ W * bfvUnalignedWords W w len := by
  unfold bfvUnalignedWords
  have h := le_divCeil_mul (len * w) hW
  rw [Nat.mul_add, Nat.mul_one, Nat.mul_comm W]; omega

theorem bfvUnalignedWords_lt (W w len : Nat) (hW : 0 < W) :
    W * bfvUnalignedWords W w len < len * w + 2 * W := by
  unfold bfvUnalignedWords
  have h := divCeil_mul_le (len * w) hW
  rw [Nat.mul_add, Nat.mul_one, Nat.mul_comm W]; omega

/-! ## Rank9 / Select9 -/

theorem rank9_bits_le (len : Nat) : 4 * (64 * rank9Words len) ≤ len + 4 * 256 := by
  unfold rank9Words rank9WordsPerBlock divCeil; omega

theorem select9_bits_le (len ones : Nat) (h : ones ≤ len) :
    8 * (64 * select9Words len ones) ≤ 3 * len + 8 * 192 := by
  unfold select9Words sel9OnesPerInv sel9U64PerSubinv divCeil; omega

/-! ## RankSmall -/

theorem rsBlockBits_pos (cw : Nat) : 0 < rsBlockBits cw := by
  unfold rsBlockBits rsWordsPerBlock
  have := two_pow_pos' (cw - 6); omega

/-- counters: at most the nominal fraction `32(1+numU32)/blockBits` of `len` plus one block -/
theorem rsCounts_bits_le (nu cw len : Nat) :
    rsBlockBits cw * (32 * rsCountsU32 nu cw len) ≤ 32 * (1 + nu) * (len + rsBlockBits cw - 1) := by
  unfold rsCountsU32 rsNumCounts
  have h := divCeil_mul_le len (rsBlockBits_pos cw)
  generalize divCeil len (rsBlockBits cw) = q at *
  generalize rsBlockBits cw = B at *
  calc B * (32 * (q * (1 + nu))) = 32 * (1 + nu) * (q * B) := by ac_rfl
    _ ≤ 32 * (1 + nu) * (len + B - 1) := Nat.mul_le_mul_left _ h

theorem rsUpper_bits_le (len : Nat) : 2 ^ 26 * (64 * rsUpperWords len) ≤ len + 2 ^ 26 * 64 := by
  unfold rsUpperWords superblockLog2 divCeil; omega

theorem rs0_counts_le (len : Nat) : 16 * (32 * rsCountsU32 2 9 len) ≤ 3 * len + 16 * 96 := by
  have h := rsCounts_bits_le 2 9 len
  have hb : rsBlockBits 9 = 512 := by decide
  rw [hb] at h; omega

theorem rs1_counts_le (len : Nat) : 8 * (32 * rsCountsU32 1 9 len) ≤ len + 8 * 64 := by
  have h := rsCounts_bits_le 1 9 len
  have hb : rsBlockBits 9 = 512 := by decide
  rw [hb] at h; omega

theorem rs2_counts_le (len : Nat) : 16 * (32 * rsCountsU32 1 10 len) ≤ len + 16 * 64 := by
  have h := rsCounts_bits_le 1 10 len
  have hb : rsBlockBits 10 = 1024 := by decide
  rw [hb] at h; omega

theorem rs3_counts_le (len : Nat) : 32 * (32 * rsCountsU32 1 11 len) ≤ len + 32 * 64 := by
  have h := rsCounts_bits_le 1 11 len
  have hb : rsBlockBits 11 = 2048 := by decide
  rw [hb] at h; omega

theorem rs4_counts_le (len : Nat) : 64 * (32 * rsCountsU32 3 13 len) ≤ len + 64 * 128 := by
  have h := rsCounts_bits_le 3 13 len
  have hb : rsBlockBits 13 = 8192 := by decide
  rw [hb] at h; omega

end Sux.Space
