import SuxModel.Base.Proto
import SuxModel.Space.Formulas
/-!
# Protocol runner `space` (C11)

Stateless: every op line carries all parameters; the reply is the value of the size formula
(bytes of payload = what `mem_size` reports beyond the wrapped vector and the struct header).
See `/verif/harness/src/run_space.rs` for the op grammar.
-/
namespace Sux.Space
open Sux.Proto

def usizeMax : Nat := 2 ^ 64

/-- final length of a grow history -/
def finalLen (mode : String) (a b : Nat) : Option Nat :=
  if mode = "new" ∨ mode = "unaligned" then some a
  else if mode = "push" ∨ mode = "extend" ∨ mode = "extendx" ∨ mode = "collect" then some (a + b)
  else if mode = "resize" ∨ mode = "resizes" then some (max a b)
  else if mode = "cap" then some b
  else none

def bitvecReply (mode : String) (a b : Nat) : String :=
  if mode = "unaligned" then "bad-op" else
  match finalLen mode a b with
  | some len => s!"ok {8 * bitVecWords len}"
  | none => "bad-op"

def bfvReply (W w : Nat) (mode : String) (a b : Nat) : String :=
  if ¬ (W = 8 ∨ W = 16 ∨ W = 32 ∨ W = 64 ∨ W = 128) ∨ w > W then "bad-op" else
  match finalLen mode a b with
  | none => "bad-op"
  | some len =>
    -- `len * bit_width` is computed in `usize` with overflow checks on
    if len * w ≥ usizeMax then "panic" else
    let words :=
      if mode = "unaligned" then bfvUnalignedWords W w len
      else if mode = "cap" then bfvCapWords W w len
      else bfvWords W w len
    s!"ok {words * (W / 8)}"

def efReply (n u : Nat) : String :=
  if efHighBits n u ≥ usizeMax then "panic"
  else s!"ok {8 * efWords n u} {efL n u}"

def logicOK (logic : String) : Bool :=
  logic == "shards" || logic == "fullsigs" || logic == "noshards1" || logic == "noshards2"
    || logic == "mwhcshards" || logic == "mwhcnoshards"

def isMwhc (logic : String) : Bool := logic == "mwhcshards" || logic == "mwhcnoshards"

def vbuildReply (kind logic : String) (W : Nat) (backend : String) (b : Nat) : String :=
  if ¬ logicOK logic ∨ ¬ (kind = "func" ∨ kind = "filter") ∨ ¬ (backend = "bfv" ∨ backend = "box") then "bad-op"
  -- `assert!(filter_bits > 0); assert!(filter_bits <= W::BITS)`
  else if kind = "filter" ∧ backend = "bfv" ∧ (b = 0 ∨ b > W) then "panic"
  else "ok"

def vsizeReply (logic : String) (W : Nat) (backend : String) (n b shards s l m V : Nat) : String :=
  if ¬ logicOK logic ∨ ¬ (backend = "bfv" ∨ backend = "box") then "bad-op" else
  if isMwhc logic then
    -- for the MWHC logics the field `l` of the op line carries `seg_size` (and `s` is 0)
    let cells := mwhcCells l shards
    let bytes := vfuncBytes (backend == "box") W b cells
    let mm := if logic = "mwhcshards" then m else n
    let hyp := mwhcHyp n shards l mm V && (logic == "mwhcshards" || shards == 1)
    s!"ok {bytes} {cells} {fmtBool hyp}"
  else
  let cells := vfuncCells l s shards
  let bytes := vfuncBytes (backend == "box") W b cells
  let mm := if logic = "shards" ∨ logic = "fullsigs" then m else n
  let (cn, cd) := cBound logic n mm
  let hyp := vfuncHyp cn cd n shards s l mm V && (logic == "shards" || logic == "fullsigs" || shards == 1)
  s!"ok {bytes} {cells} {fmtBool hyp}"

def step (_ : Unit) (toks : List String) : Unit × String :=
  let r : String :=
    match toks with
    | ["case", _] => "case"
    | ["calib", key] => match header key with
      | some h => s!"ok {h}" | none => "bad-op"
    | ["bitvec", mode, a, b] => match parseNat a, parseNat b with
      | some a, some b => bitvecReply mode a b | _, _ => "bad-op"
    | ["bfv", W, w, mode, a, b] => match parseNat W, parseNat w, parseNat a, parseNat b with
      | some W, some w, some a, some b => bfvReply W w mode a b | _, _, _, _ => "bad-op"
    | ["rank9", len, _d] => match parseNat len with
      | some len => s!"ok {8 * rank9Words len}" | none => "bad-op"
    | ["ranksmall", k, len, _d] => match parseNat k, parseNat len with
      | some k, some len => match rankSmallBitsK k len with
        | some bits => s!"ok {bits / 8}" | none => "bad-op"
      | _, _ => "bad-op"
    | ["select9", len, ones, _m] => match parseNat len, parseNat ones with
      | some len, some ones =>
        if ones > len then "bad-op" else s!"ok {8 * select9Words len ones}"
      | _, _ => "bad-op"
    | ["ef", n, u] => match parseNat n, parseNat u with
      | some n, some u => if u ≥ usizeMax then "bad-op" else efReply n u
      | _, _ => "bad-op"
    | ["vbuild", kind, logic, W, backend, _n, b, _start] => match parseNat W, parseNat b with
      | some W, some b => vbuildReply kind logic W backend b | _, _ => "bad-op"
    | ["vsize", _kind, logic, W, backend, n, b, shards, s, l, m, V] =>
      match parseNat W, parseNat n, parseNat b, parseNat shards, parseNat s, parseNat l, parseNat m, parseNat V with
      | some W, some n, some b, some shards, some s, some l, some m, some V =>
        vsizeReply logic W backend n b shards s l m V
      | _, _, _, _, _, _, _, _ => "bad-op"
    | _ => "bad-op"
  ((), r)

def runner : Runner := { σ := Unit, init := (), step := step }

end Sux.Space
