import SuxModel.Space.Lemmas
import SuxModel.BitVec.Model
import SuxModel.BitFieldVec.Model
/-!
# C11 — "built or grown": the word count of the validated `BitVec` / `BitFieldVec` models

`Tight` = the backing store has exactly the number of words of the size formula.  The safe
constructors establish it, `push` and a growing `resize` preserve it.  (A vector that was shrunk
by `pop` / `resize` / `clear` keeps its words: that is why the property says "only built or
grown".)  Only `Model.lean` of the two components is imported.
-/
namespace Sux.Space

theorem bind_eq_ok {α β : Type} {x : Out α} {f : α → Out β} {b : β}
    (h : (x >>= f) = .ok b) : ∃ a, x = .ok a ∧ f a = .ok b := by
  cases x with
  | ok a => exact ⟨a, rfl, h⟩
  | panic => simp at h
  | oob => simp at h

/-! ## BitVec -/

def BVTight (s : BV.St) : Prop := s.words.size = bitVecWords s.len

theorem bv_withValue_tight (len : Nat) (v : Bool) : BVTight (BV.withValue len v) := by
  unfold BVTight BV.withValue bitVecWords divCeil
  simp only []
  split <;> simp

theorem bv_new_tight (len : Nat) : BVTight (BV.new len) := bv_withValue_tight len false

theorem bv_withCapacity_tight (cap : Nat) : BVTight (BV.withCapacity cap) := by
  simp [BVTight, BV.withCapacity, bitVecWords, divCeil]

theorem bv_setU_size {s s' : BV.St} {i : Nat} {v : Bool} (h : BV.setU s i v = .ok s') :
    s'.words.size = s.words.size ∧ s'.len = s.len := by
  unfold BV.setU at h
  obtain ⟨w, _, h2⟩ := bind_eq_ok h
  simp only [Out.pure_eq, Out.ok.injEq] at h2
  subst h2; simp

theorem bv_setRange_size (v : Bool) : ∀ (n start : Nat) (s s' : BV.St),
    BV.setRange v start n s = .ok s' → s'.words.size = s.words.size ∧ s'.len = s.len
  | 0, _, s, s', h => by
    simp only [BV.setRange, Out.ok.injEq] at h; subst h; exact ⟨rfl, rfl⟩
  | n + 1, start, s, s', h => by
    simp only [BV.setRange] at h
    obtain ⟨s1, h1, h2⟩ := bind_eq_ok h
    have a := bv_setU_size h1
    have b := bv_setRange_size v n (start + 1) s1 s' h2
    exact ⟨b.1.trans a.1, b.2.trans a.2⟩

theorem bv_push_tight {s s' : BV.St} {b : Bool} (ht : BVTight s) (h : BV.push s b = .ok s') :
    BVTight s' := by
  unfold BV.push at h
  obtain ⟨w, _, h2⟩ := bind_eq_ok h
  simp only [Out.pure_eq, Out.ok.injEq] at h2
  subst h2
  unfold BVTight bitVecWords divCeil at *
  simp only [Array.size_setIfInBounds]
  split
  · rename_i hc
    have hc' : s.words.size * 64 = s.len := by simpa using hc
    simp only [Array.size_push]; omega
  · rename_i hc
    have hc' : s.words.size * 64 ≠ s.len := by simpa using hc
    omega

theorem bv_resize_tight {s s' : BV.St} {n : Nat} {v : Bool} (ht : BVTight s) (hn : s.len ≤ n)
    (h : BV.resize s n v = .ok s') : BVTight s' := by
  unfold BV.resize at h
  split at h
  · obtain ⟨s1, h1, h2⟩ := bind_eq_ok h
    simp only [Out.pure_eq, Out.ok.injEq] at h2
    subst h2
    have a := (bv_setRange_size v _ _ _ _ h1).1
    unfold BVTight bitVecWords divCeil at *
    simp only [a]
    split
    · simp only [Array.size_append, Array.size_replicate]; omega
    · omega
  · simp only [Out.ok.injEq] at h
    subst h
    have : n = s.len := by omega
    subst this; exact ht

/-! ## BitFieldVec (any word size `W > 0`) -/

def BFVTight (W : Nat) (s : BFV.St) : Prop := s.words.size = bfvWords W s.bw s.len

theorem bfv_divCeil_eq (a b : Nat) : BFV.divCeil a b = divCeil a b := rfl

theorem divCeil_le_iff {a W k : Nat} (hW : 0 < W) : divCeil a W ≤ k ↔ a ≤ k * W := by
  unfold divCeil
  rw [← Nat.lt_succ_iff, Nat.div_lt_iff_lt_mul hW, Nat.succ_mul]
  omega

theorem bfv_new_tight (W bw len : Nat) : BFVTight W (BFV.new W bw len) := by
  simp [BFVTight, BFV.new, bfvWords, bfv_divCeil_eq]

theorem bfv_newUnaligned_size (W bw len : Nat) :
    (BFV.newUnaligned W bw len).words.size = bfvUnalignedWords W bw len := by
  simp [BFV.newUnaligned, bfvUnalignedWords, bfv_divCeil_eq]

theorem bfv_withCapacity_size (W bw cap : Nat) :
    (BFV.withCapacity W bw cap).words.size = bfvCapWords W bw 0 := by
  unfold BFV.withCapacity bfvCapWords
  by_cases h : bw = 0
  · simp [h]
  · have : (bw == 0) = false := by simpa using h
    simp [this, h, divCeil]
    rcases Nat.eq_zero_or_pos W with h0 | h0
    · subst h0; simp
    · exact (Nat.div_eq_of_lt (by omega)).symm

theorem bfv_setWords_size {W : Nat} {ws ws' : Array Nat} {bw i v : Nat}
    (h : BFV.setWords W ws bw i v = .ok ws') : ws'.size = ws.size := by
  unfold BFV.setWords at h
  simp only [] at h
  split at h
  · obtain ⟨w, _, h2⟩ := bind_eq_ok h
    simp only [Out.pure_eq, Out.ok.injEq] at h2
    subst h2; simp
  · obtain ⟨w, _, h2⟩ := bind_eq_ok h
    obtain ⟨w2, _, h3⟩ := bind_eq_ok h2
    simp only [Out.pure_eq, Out.ok.injEq] at h3
    subst h3; simp

theorem bfv_setU_size {W : Nat} {s s' : BFV.St} {i v : Nat} (h : BFV.setU W s i v = .ok s') :
    s'.words.size = s.words.size ∧ s'.bw = s.bw ∧ s'.len = s.len := by
  unfold BFV.setU at h
  obtain ⟨ws, h1, h2⟩ := bind_eq_ok h
  simp only [Out.pure_eq, Out.ok.injEq] at h2
  subst h2
  exact ⟨bfv_setWords_size h1, rfl, rfl⟩

theorem bfv_setRange_size {W : Nat} (v : Nat) : ∀ (n start : Nat) (s s' : BFV.St),
    BFV.setRange W v start n s = .ok s' →
    s'.words.size = s.words.size ∧ s'.bw = s.bw ∧ s'.len = s.len
  | 0, _, s, s', h => by
    simp only [BFV.setRange, Out.ok.injEq] at h; subst h; exact ⟨rfl, rfl, rfl⟩
  | n + 1, start, s, s', h => by
    simp only [BFV.setRange] at h
    obtain ⟨s1, h1, h2⟩ := bind_eq_ok h
    have a := bfv_setU_size h1
    have b := bfv_setRange_size v n (start + 1) s1 s' h2
    exact ⟨b.1.trans a.1, b.2.1.trans a.2.1, b.2.2.trans a.2.2⟩

/-- growing the logical bit count from `p` to `p' ≤ p + W`, adding a word exactly when
`p' > size·W`, keeps `size = max 1 ⌈bits/W⌉` -/
theorem tight_step {W p p' sz : Nat} (hW : 0 < W) (hsz : sz = max 1 (divCeil p W))
    (hpp : p ≤ p') (hstep : p' ≤ p + W) :
    (if p' > sz * W then sz + 1 else sz) = max 1 (divCeil p' W) := by
  have h1 : divCeil p W ≤ sz := by omega
  have h1' := (divCeil_le_iff hW).mp h1
  split
  · rename_i hc
    have hle : divCeil p' W ≤ sz + 1 := (divCeil_le_iff hW).mpr (by rw [Nat.succ_mul]; omega)
    have hgt : ¬ divCeil p' W ≤ sz := fun hh => by
      have := (divCeil_le_iff hW).mp hh; omega
    omega
  · rename_i hc
    have hle : divCeil p' W ≤ sz := (divCeil_le_iff hW).mpr (by omega)
    have hmono : divCeil p W ≤ divCeil p' W := by
      unfold divCeil; exact Nat.div_le_div_right (by omega)
    omega

theorem bfv_push_tight {W : Nat} (hW : 0 < W) {s s' : BFV.St} {v : Nat} (hbw : s.bw ≤ W)
    (ht : BFVTight W s) (h : BFV.push W s v = .ok s') : BFVTight W s' ∧ s'.bw = s.bw := by
  unfold BFV.push at h
  split at h
  · simp at h
  · obtain ⟨s1, h1, h2⟩ := bind_eq_ok h
    simp only [Out.pure_eq, Out.ok.injEq] at h2
    subst h2
    have a := bfv_setU_size h1
    simp only at a
    refine ⟨?_, a.2.1⟩
    unfold BFVTight bfvWords at *
    simp only [a.1, a.2.1]
    have key := tight_step (p := s.len * s.bw) (p' := (s.len + 1) * s.bw) hW ht
      (by rw [Nat.succ_mul]; omega) (by rw [Nat.succ_mul]; omega)
    rw [← key]
    split <;> simp

theorem bfv_resize_tight {W : Nat} (hW : 0 < W) {s s' : BFV.St} {n v : Nat}
    (ht : BFVTight W s) (hn : s.len ≤ n) (h : BFV.resize W s n v = .ok s') :
    BFVTight W s' ∧ s'.bw = s.bw := by
  unfold BFV.resize at h
  split at h
  · simp at h
  · split at h
    · obtain ⟨s1, h1, h2⟩ := bind_eq_ok h
      simp only [Out.pure_eq, Out.ok.injEq] at h2
      subst h2
      have a := bfv_setRange_size v _ _ _ _ h1
      simp only at a
      refine ⟨?_, a.2.1⟩
      unfold BFVTight bfvWords at *
      simp only [a.1, a.2.1, bfv_divCeil_eq]
      have hmul : s.len * s.bw ≤ n * s.bw := Nat.mul_le_mul_right _ hn
      generalize s.len * s.bw = p at *
      generalize n * s.bw = p' at *
      have h1 : divCeil p W ≤ s.words.size := by omega
      have h1' := (divCeil_le_iff hW).mp h1
      split
      · rename_i hc
        simp only [Array.size_append, Array.size_replicate]
        have hgt : ¬ divCeil p' W ≤ s.words.size := fun hh => by
          have := (divCeil_le_iff hW).mp hh; omega
        omega
      · rename_i hc
        have hle : divCeil p' W ≤ s.words.size := (divCeil_le_iff hW).mpr (by omega)
        have hmono : divCeil p W ≤ divCeil p' W := by
          unfold divCeil; exact Nat.div_le_div_right (by omega)
        omega
    · simp only [Out.ok.injEq] at h
      subst h
      have : n = s.len := by omega
      subst this; exact ⟨ht, rfl⟩

end Sux.Space
