import SuxModel.Space.Lemmas
/-!
# C11 — Elias–Fano: integer facts about `l` and the upper-bits vector, word rounding

`l` is computed with `n.max(1)` in place of `n` (/repo 76fce19): an empty sequence is sized like a
sequence of one element.
-/
namespace Sux.Space

theorem efL_of_lt {n u : Nat} (h : u < n) : efL n u = 0 := by
  unfold efL; rw [if_neg]; omega

/-- `n = 0`: `l = ⌊lg u⌋` (`Nat.log2 0 = 0`) -/
theorem efL_zero_left (u : Nat) : efL 0 u = Nat.log2 u := by
  unfold efL
  have e : max 0 1 = 1 := by decide
  rw [e, Nat.div_one]
  split
  · rfl
  · rename_i h
    have : u = 0 := by omega
    subst this; rfl

theorem efL_of_le' {n u : Nat} (h : max n 1 ≤ u) : efL n u = Nat.log2 (u / max n 1) := by
  unfold efL; rw [if_pos h]

theorem efL_of_le {n u : Nat} (hn : 0 < n) (h : n ≤ u) : efL n u = Nat.log2 (u / n) := by
  have e : max n 1 = n := by omega
  rw [efL_of_le' (by omega), e]

/-- every `n` (with `N = max n 1`): `l = ⌊log₂ ⌊u/N⌋⌋`, i.e. `2^l · N ≤ u < 2^(l+1) · N` -/
theorem efL_spec' {n u : Nat} (h : max n 1 ≤ u) :
    2 ^ efL n u * max n 1 ≤ u ∧ u < 2 ^ (efL n u + 1) * max n 1 := by
  rw [efL_of_le' h]
  generalize hN : max n 1 = N at *
  have hNpos : 0 < N := by omega
  have hq : u / N ≠ 0 := by
    have : 1 ≤ u / N := (Nat.le_div_iff_mul_le hNpos).mpr (by omega)
    omega
  have h1 := Nat.log2_self_le hq
  have h2 := @Nat.lt_log2_self (u / N)
  constructor
  · calc 2 ^ (u / N).log2 * N ≤ (u / N) * N := Nat.mul_le_mul_right _ h1
      _ ≤ u := Nat.div_mul_le_self _ _
  · have h3 : u < (u / N + 1) * N := by
      have := Nat.lt_mul_div_succ u hNpos
      rw [Nat.mul_comm]; exact this
    calc u < (u / N + 1) * N := h3
      _ ≤ 2 ^ ((u / N).log2 + 1) * N := Nat.mul_le_mul_right _ h2

/-- `n ≥ 1`: `2^l · n ≤ u < 2^(l+1) · n` -/
theorem efL_spec {n u : Nat} (hn : 0 < n) (h : n ≤ u) :
    2 ^ efL n u * n ≤ u ∧ u < 2 ^ (efL n u + 1) * n := by
  have e : max n 1 = n := by omega
  have := efL_spec' (n := n) (u := u) (by omega)
  rw [e] at this; exact this

/-- the upper parts are below `2·max n 1` (for `u < n` even below `n`) -/
theorem ef_shift_lt' (n u : Nat) : u >>> efL n u < 2 * max n 1 := by
  rcases Nat.lt_or_ge u (max n 1) with h | h
  · have : efL n u = 0 := by unfold efL; rw [if_neg]; omega
    rw [this, Nat.shiftRight_zero]; omega
  · rw [Nat.shiftRight_eq_div_pow]
    have hs := (efL_spec' h).2
    apply Nat.div_lt_of_lt_mul
    rw [Nat.pow_succ] at hs
    calc u < 2 ^ efL n u * 2 * max n 1 := hs
      _ = 2 ^ efL n u * (2 * max n 1) := by ac_rfl

theorem ef_shift_lt {n u : Nat} (hn : 0 < n) : u >>> efL n u < 2 * n := by
  have := ef_shift_lt' n u
  have e : max n 1 = n := by omega
  rw [e] at this; exact this

/-- every `n`: at most `n + 2·max n 1` upper bits -/
theorem efHighBits_le' (n u : Nat) : efHighBits n u ≤ n + 2 * max n 1 := by
  unfold efHighBits
  have := ef_shift_lt' n u
  omega

theorem efHighBits_le {n u : Nat} (hn : 0 < n) : efHighBits n u ≤ 3 * n := by
  have := efHighBits_le' n u
  omega

/-- word rounding costs less than two words on top of the exact bit counts -/
theorem efWords_le (n u : Nat) :
    64 * efWords n u ≤ n * efL n u + efHighBits n u + 127 := by
  unfold efWords efLowWords efHighWords
  have h1 := bfvWords_lt 64 (efL n u) n (by omega)
  have h2 := bitVecWords_lt (efHighBits n u)
  generalize n * efL n u = a at *
  omega

/-- `n = 0`: one (empty) word of low bits and one word of upper bits, whatever `u` -/
theorem efWords_zero (u : Nat) : efWords 0 u = 2 := by
  have hh := efHighBits_le' 0 u
  have hpos : 1 ≤ efHighBits 0 u := by
    unfold efHighBits; exact Nat.le_add_left 1 _
  unfold efWords efLowWords efHighWords bfvWords bitVecWords divCeil
  generalize efHighBits 0 u = hb at *
  simp only [Nat.zero_mul]
  omega

end Sux.Space
