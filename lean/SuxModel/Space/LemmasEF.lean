import SuxModel.Space.Lemmas
/-!
# C11 — Elias–Fano: integer facts about `l` and the upper-bits vector, word rounding
-/
namespace Sux.Space

theorem efL_of_lt {n u : Nat} (h : u < n) : efL n u = 0 := by
  unfold efL; rw [if_neg]; omega

theorem efL_zero_left (u : Nat) : efL 0 u = 0 := by
  unfold efL; rw [if_neg]; omega

theorem efL_of_le {n u : Nat} (hn : 0 < n) (h : n ≤ u) : efL n u = Nat.log2 (u / n) := by
  unfold efL; rw [if_pos ⟨hn, h⟩]

/-- `l = ⌊log₂ ⌊u/n⌋⌋`: `2^l · n ≤ u < 2^(l+1) · n` -/
theorem efL_spec {n u : Nat} (hn : 0 < n) (h : n ≤ u) :
    2 ^ efL n u * n ≤ u ∧ u < 2 ^ (efL n u + 1) * n := by
  rw [efL_of_le hn h]
  have hq : u / n ≠ 0 := by
    have : 1 ≤ u / n := (Nat.le_div_iff_mul_le hn).mpr (by omega)
    omega
  have h1 := Nat.log2_self_le hq
  have h2 := @Nat.lt_log2_self (u / n)
  constructor
  · calc 2 ^ (u / n).log2 * n ≤ (u / n) * n := Nat.mul_le_mul_right _ h1
      _ ≤ u := Nat.div_mul_le_self _ _
  · have h3 : u < (u / n + 1) * n := by
      have := Nat.lt_mul_div_succ u hn
      rw [Nat.mul_comm]; exact this
    calc u < (u / n + 1) * n := h3
      _ ≤ 2 ^ ((u / n).log2 + 1) * n := Nat.mul_le_mul_right _ h2

/-- the upper parts are below `2n` (for `u < n` even below `n`) -/
theorem ef_shift_lt {n u : Nat} (hn : 0 < n) : u >>> efL n u < 2 * n := by
  rcases Nat.lt_or_ge u n with h | h
  · rw [efL_of_lt h, Nat.shiftRight_zero]; omega
  · rw [Nat.shiftRight_eq_div_pow]
    have hs := (efL_spec hn h).2
    apply Nat.div_lt_of_lt_mul
    rw [Nat.pow_succ] at hs
    calc u < 2 ^ efL n u * 2 * n := hs
      _ = 2 ^ efL n u * (2 * n) := by ac_rfl

theorem efHighBits_le {n u : Nat} (hn : 0 < n) : efHighBits n u ≤ 3 * n := by
  unfold efHighBits
  have := @ef_shift_lt n u hn
  omega

/-- word rounding costs less than two words on top of the exact bit counts -/
theorem efWords_le (n u : Nat) :
    64 * efWords n u ≤ n * efL n u + efHighBits n u + 127 := by
  unfold efWords efLowWords efHighWords
  have h1 := bfvWords_lt 64 (efL n u) n (by omega)
  have h2 := bitVecWords_lt (efHighBits n u)
  generalize n * efL n u = a at *
  omega

/-- `n = 0`: the structure still has one word of low bits and `u + 1` upper bits -/
theorem efWords_zero (u : Nat) : efWords 0 u = 1 + bitVecWords (u + 1) := by
  unfold efWords efLowWords efHighWords efHighBits bfvWords
  rw [efL_zero_left]
  simp [divCeil, Nat.shiftRight_zero]

end Sux.Space
