/-!
# C11 — size formulas read off the constructors

Every definition is the arithmetic the Rust constructor performs to size its arrays, in the unit
the constructor uses (64-bit words, `u32`s, cells); `…Bytes` are the same numbers in bytes, which
is what `mem_dbg::MemSize::mem_size(SizeFlags::default())` reports for the arrays (lengths, not
capacities) once the fixed struct header (`header`) is subtracted.

Sources (all in /repo/src):
* `bits/bit_vec.rs`        `BitVec::with_value`, `push`, `resize`
* `bits/bit_field_vec.rs`  `BitFieldVec::new`, `new_unaligned`, `with_capacity`, `push`, `resize`
* `rank_sel/rank9.rs`      `Rank9::new` (`num_counts + 1` pairs of words)
* `rank_sel/rank_small.rs` `impl_rank_small! new` (`num_counts`, `num_upper_counts`)
* `rank_sel/select9.rs`    `Select9::new` (`inventory_size + 1`, `subinventory_size`)
* `dict/elias_fano.rs`     `EliasFanoBuilder::new`
* `func/shard_edge.rs`     `set_up_graphs`, `num_vertices`; `func/vbuilder.rs` `try_seed`
-/
namespace Sux.Space

/-- `usize::div_ceil` -/
def divCeil (a b : Nat) : Nat := (a + b - 1) / b

/-! ## constants of the sources -/

/-- `Rank9::WORDS_PER_BLOCK` -/
def rank9WordsPerBlock : Nat := 8
/-- `Select9::ONES_PER_INVENTORY = 1 << 9` -/
def sel9OnesPerInv : Nat := 512
/-- `u64_per_subinventory` in `Select9::new` -/
def sel9U64PerSubinv : Nat := 4
/-- `rank_small!` table: variant k ↦ (`NUM_U32S`, `COUNTER_WIDTH`) -/
def rankSmallTable : List (Nat × Nat) := [(2, 9), (1, 9), (1, 10), (1, 11), (3, 13)]
/-- one upper count per `1 << 32` bits -/
def superblockLog2 : Nat := 32

/-! ## bit vectors -/

/-- `BitVec::new(len)`, or grown to `len` by `push` / `resize`: words of the backing `Vec` -/
def bitVecWords (len : Nat) : Nat := divCeil len 64

/-- `BitFieldVec::<W>::new(w, len)` (or grown from it): words of width `W` -/
def bfvWords (W w len : Nat) : Nat := max 1 (divCeil (len * w) W)

/-- `BitFieldVec::<W>::new_unaligned(w, len)`: one padding word -/
def bfvUnalignedWords (W w len : Nat) : Nat := divCeil (len * w) W + 1

/-- `BitFieldVec::<W>::with_capacity(w, _)` followed by `len` pushes: nothing is materialised
up front except the one word of the width-zero convention -/
def bfvCapWords (W w len : Nat) : Nat := if w = 0 then 1 else divCeil (len * w) W

/-! ## rank / select -/

/-- `Rank9::new`: `num_counts + 1` `BlockCounters` of two words each, in words -/
def rank9Words (len : Nat) : Nat := 2 * (divCeil len (64 * rank9WordsPerBlock) + 1)

/-- `RankSmall::WORDS_PER_BLOCK = 1 << (COUNTER_WIDTH - 6)` -/
def rsWordsPerBlock (counterWidth : Nat) : Nat := 2 ^ (counterWidth - 6)

/-- bits covered by one `Block32Counters` -/
def rsBlockBits (counterWidth : Nat) : Nat := 64 * rsWordsPerBlock counterWidth

/-- `num_counts` -/
def rsNumCounts (counterWidth len : Nat) : Nat := divCeil len (rsBlockBits counterWidth)

/-- `counts`: `num_counts` blocks of `1 + NUM_U32S` `u32` each, in `u32`s -/
def rsCountsU32 (numU32 counterWidth len : Nat) : Nat := rsNumCounts counterWidth len * (1 + numU32)

/-- `upper_counts`: `num_upper_counts` words -/
def rsUpperWords (len : Nat) : Nat := divCeil len (2 ^ superblockLog2)

/-- bits RankSmall⟨numU32, counterWidth⟩ adds to the bit vector -/
def rankSmallBits (numU32 counterWidth len : Nat) : Nat :=
  32 * rsCountsU32 numU32 counterWidth len + 64 * rsUpperWords len

/-- variant `k` of the `rank_small!` macro -/
def rankSmallBitsK (k len : Nat) : Option Nat :=
  match rankSmallTable[k]? with
  | some (nu, cw) => some (rankSmallBits nu cw len)
  | none => none

/-- `Select9::new` on top of a `Rank9`: `inventory_size + 1` + `subinventory_size` words -/
def select9Words (len ones : Nat) : Nat :=
  divCeil ones sel9OnesPerInv + 1 + divCeil (divCeil len 64) sel9U64PerSubinv

/-! ## Elias–Fano (no selection structures) -/

/-- number of lower bits: `if u >= n.max(1) { (u / n.max(1)).ilog2() } else { 0 }`
(an empty sequence is sized like a sequence of one element; /repo 76fce19) -/
def efL (n u : Nat) : Nat := if max n 1 ≤ u then Nat.log2 (u / max n 1) else 0

/-- `BitFieldVec::new(l, n)` -/
def efLowWords (n u : Nat) : Nat := bfvWords 64 (efL n u) n

/-- length of the upper-bits vector `BitVec::new(n + (u >> l) + 1)` -/
def efHighBits (n u : Nat) : Nat := n + (u >>> efL n u) + 1

def efHighWords (n u : Nat) : Nat := bitVecWords (efHighBits n u)

def efWords (n u : Nat) : Nat := efLowWords n u + efHighWords n u

/-! ## static functions / filters -/

/-- `set_up_graphs`: `l = ⌈c·max_shard⌉.div_ceil(1 << s).saturating_sub(2).max(1)` where
`V = ⌈c·max_shard⌉` (the float product is an input) -/
def vfuncL (V s : Nat) : Nat := max 1 (divCeil V (2 ^ s) - 2)

/-- `num_vertices = (l + 2) << log2_seg_size` -/
def vfuncShardCells (l s : Nat) : Nat := (l + 2) <<< s

/-- `new_data(bit_width, num_vertices * num_shards)` -/
def vfuncCells (l s shards : Nat) : Nat := vfuncShardCells l s * shards

/-- MWHC logics (`Mwhc3Shards`, `Mwhc3NoShards`, feature `mwhc`): three segments of `seg_size`
vertices per shard; `seg_size = max 1 ⌈1.23·max_shard / 3⌉`, rounded up to a multiple of 128
when there is more than one shard -/
def mwhcSeg (V shards : Nat) : Nat := if shards = 1 then V else divCeil V 128 * 128

def mwhcCells (seg shards : Nat) : Nat := 3 * seg * shards

/-- bytes of the backend: `BitFieldVec::<W>::new_unaligned(b, cells)` or `Box<[W]>` -/
def vfuncBytes (boxed : Bool) (W b cells : Nat) : Nat :=
  if boxed then cells * (W / 8) else bfvUnalignedWords W b cells * (W / 8)

/-! ## expansion factor: rational upper bounds on the `c` chosen by `set_up_graphs`

`logic` is `"shards"` / `"fullsigs"` (`FuseLge3Shards`, `FuseLge3FullSigs`) or `"noshards…"`
(`FuseLge3NoShards`); `m` is the size of the largest shard (`n` itself without sharding).
The constants 1.23, 1.125, 1.12, 1.11, 1.105, 1.13 are the literals of the source; for
`FuseLge3NoShards` between 100 001 and 800 000 keys the source computes
`0.168 + lnln 300000 / lnln (n + 200000)`, which is below 1.168 and above 1.133. -/
def fuseC (m : Nat) : Nat × Nat :=
  if m ≤ 5000000 then (1125, 1000) else if m ≤ 10000000 then (112, 100)
  else if m ≤ 20000000 then (111, 100) else (1105, 1000)

def cBound (logic : String) (n m : Nat) : Nat × Nat :=
  if logic = "mwhcshards" ∨ logic = "mwhcnoshards" then (123, 100)
  else if n ≤ 100 then (123, 100)
  else if logic = "shards" ∨ logic = "fullsigs" then
    if n ≤ 800000 then (1125, 1000) else fuseC m
  else
    if n ≤ 100000 then (113, 100) else if n ≤ 800000 then (1168, 1000) else fuseC n

/-- the hypotheses of the C11 function theorem, as a decidable check on real parameters:
`l` is what `set_up_graphs` computes from `V`; the largest shard passed the builder's 1 % test;
`V = ⌈c·m⌉` for some real `c ≤ cn/cd` -/
def vfuncHyp (cn cd n shards s l m V : Nat) : Bool :=
  l == vfuncL V s && decide (shards * 100 * m ≤ 101 * n) && decide (cd * V ≤ cn * m + cd)

/-- the same for the MWHC logics: `V = max 1 ⌈1.23·m/3⌉` is the unrounded segment size -/
def mwhcHyp (n shards seg m V : Nat) : Bool :=
  seg == mwhcSeg V shards && decide (shards * 100 * m ≤ 101 * n) && decide (300 * V ≤ 123 * m + 300)
    && decide (1 ≤ V)

/-! ## fixed struct headers (`size_of` of the struct minus the wrapped structure; x86-64 layout,
re-measured by every run through the `calib` ops) -/

def header : String → Option Nat
  | "bitvec" => some 32        -- Vec (24) + len
  | "bfv8" => some 48          -- Vec (24) + bit_width + mask (padded) + len
  | "bfv16" => some 48
  | "bfv32" => some 48
  | "bfv64" => some 48
  | "bfv128" => some 64
  | "rank9" => some 16         -- Box<[BlockCounters]>
  | "ranksmall0" => some 40    -- two boxed slices + num_ones
  | "ranksmall1" => some 40
  | "ranksmall2" => some 40
  | "ranksmall3" => some 40
  | "ranksmall4" => some 40
  | "select9" => some 48       -- two boxed slices + two sizes
  | "ef" => some 88            -- n, u, l + BitFieldVec<Box> (40) + BitVec<Box> (24)
  | "v:func:shards:64:bfv" => some 80
  | "v:func:noshards2:64:bfv" => some 72
  | "v:func:noshards1:64:bfv" => some 72
  | "v:func:fullsigs:64:bfv" => some 80
  | "v:func:shards:16:bfv" => some 80
  | "v:func:shards:64:box" => some 48
  | "v:func:noshards1:16:box" => some 40
  | "v:filter:shards:8:box" => some 56
  | "v:filter:noshards1:8:box" => some 48
  | "v:filter:shards:16:box" => some 56
  | "v:filter:fullsigs:32:box" => some 56
  | "v:filter:shards:64:box" => some 64
  | "v:filter:shards:64:bfv" => some 96
  | "v:filter:noshards2:64:bfv" => some 88
  | "v:filter:noshards1:32:bfv" => some 80
  | "v:func:mwhcshards:64:bfv" => some 80
  | "v:func:mwhcnoshards:64:bfv" => some 72
  | "v:filter:mwhcnoshards:8:box" => some 48
  | _ => none

end Sux.Space
