import SuxModel.Space.Lemmas
/-!
# C11 — static functions: number of cells against `c·n`

`V = ⌈c · maxShard⌉` is an input (the product is computed in floating point by the source);
`d = 2^s` is the segment size; a shard has `l + 2` segments.
-/
namespace Sux.Space

theorem vfuncShardCells_eq (l s : Nat) : vfuncShardCells l s = (l + 2) * 2 ^ s := by
  unfold vfuncShardCells; rw [Nat.shiftLeft_eq]

/-- three segments or more: `l + 2 = ⌈V/d⌉` -/
theorem shardCells_big {V s : Nat} (h : 3 ≤ divCeil V (2 ^ s)) :
    vfuncShardCells (vfuncL V s) s = divCeil V (2 ^ s) * 2 ^ s := by
  rw [vfuncShardCells_eq]; unfold vfuncL
  have : max 1 (divCeil V (2 ^ s) - 2) + 2 = divCeil V (2 ^ s) := by omega
  rw [this]

/-- the minimum graph: three segments -/
theorem shardCells_min {V s : Nat} (h : divCeil V (2 ^ s) ≤ 3) :
    vfuncShardCells (vfuncL V s) s = 3 * 2 ^ s := by
  rw [vfuncShardCells_eq]; unfold vfuncL
  have : max 1 (divCeil V (2 ^ s) - 2) + 2 = 3 := by omega
  rw [this]

theorem divCeil_le_two {V d : Nat} (hd : 0 < d) (h : V ≤ 2 * d) : divCeil V d ≤ 2 := by
  unfold divCeil
  have h3 : V + d - 1 < 3 * d := by omega
  have := (Nat.div_lt_iff_lt_mul hd).mpr h3
  omega

/-- all inputs: a shard has at most `max (3·2^s) (V + 2^s − 1)` cells -/
theorem shardCells_le (V s : Nat) :
    vfuncShardCells (vfuncL V s) s ≤ max (3 * 2 ^ s) (V + 2 ^ s - 1) := by
  rcases Nat.lt_or_ge (divCeil V (2 ^ s)) 3 with h | h
  · rw [shardCells_min (by omega)]; exact Nat.le_max_left _ _
  · rw [shardCells_big h]
    exact Nat.le_trans (divCeil_mul_le V (two_pow_pos' s)) (Nat.le_max_right _ _)

/-- tiny inputs (`V ≤ 2·2^s`): exactly three segments, whatever `V` -/
theorem shardCells_tiny {V s : Nat} (h : V ≤ 2 * 2 ^ s) :
    vfuncShardCells (vfuncL V s) s = 3 * 2 ^ s :=
  shardCells_min (by have := divCeil_le_two (two_pow_pos' s) h; omega)

/-- from two segments' worth of vertices upward: at most one extra segment -/
theorem shardCells_le_add {V s : Nat} (h : 2 * 2 ^ s ≤ V) :
    vfuncShardCells (vfuncL V s) s ≤ V + 2 ^ s := by
  rcases Nat.lt_or_ge (divCeil V (2 ^ s)) 3 with h3 | h3
  · rw [shardCells_min (by omega)]; omega
  · rw [shardCells_big h3]
    have := divCeil_mul_le V (two_pow_pos' s)
    have := two_pow_pos' s
    omega

/-- Cells against the keys, no imbalance assumption yet: with `V ≤ c·m + 1`, `c = cn/cd`,
`cd · cells ≤ cn · (shards · m) + cd · shards · (2^s + 1)`. -/
theorem vfunc_cells_le {cn cd shards s l m V : Nat}
    (H2 : cd * V ≤ cn * m + cd) (H3 : l = vfuncL V s) (hbig : 2 * 2 ^ s ≤ V) :
    cd * vfuncCells l s shards ≤ cn * (shards * m) + cd * (shards * (2 ^ s + 1)) := by
  unfold vfuncCells; subst H3
  have h1 := shardCells_le_add hbig
  generalize vfuncShardCells (vfuncL V s) s = C at *
  generalize 2 ^ s = d at *
  have h2 : cd * C ≤ cn * m + cd * (d + 1) := by
    calc cd * C ≤ cd * (V + d) := Nat.mul_le_mul_left _ h1
      _ = cd * V + cd * d := Nat.mul_add _ _ _
      _ ≤ cn * m + cd + cd * d := Nat.add_le_add_right H2 _
      _ = cn * m + cd * (d + 1) := by rw [Nat.mul_add, Nat.mul_one]; omega
  calc cd * (C * shards) = shards * (cd * C) := by ac_rfl
    _ ≤ shards * (cn * m + cd * (d + 1)) := Nat.mul_le_mul_left _ h2
    _ = cn * (shards * m) + cd * (shards * (d + 1)) := by rw [Nat.mul_add]; ac_rfl

/-- every input, tiny ones included: the additive term is three segments and one cell per shard -/
theorem vfunc_cells_le_all {cn cd shards s l m V : Nat}
    (H2 : cd * V ≤ cn * m + cd) (H3 : l = vfuncL V s) :
    cd * vfuncCells l s shards ≤ cn * (shards * m) + cd * (shards * (3 * 2 ^ s + 1)) := by
  unfold vfuncCells; subst H3
  have h1 : vfuncShardCells (vfuncL V s) s ≤ V + 3 * 2 ^ s := by
    have := shardCells_le V s
    have := two_pow_pos' s
    omega
  generalize vfuncShardCells (vfuncL V s) s = C at *
  generalize 2 ^ s = d at *
  have h2 : cd * C ≤ cn * m + cd * (3 * d + 1) := by
    calc cd * C ≤ cd * (V + 3 * d) := Nat.mul_le_mul_left _ h1
      _ = cd * V + cd * (3 * d) := Nat.mul_add _ _ _
      _ ≤ cn * m + cd + cd * (3 * d) := Nat.add_le_add_right H2 _
      _ = cn * m + cd * (3 * d + 1) := by rw [Nat.mul_add, Nat.mul_one]; omega
  calc cd * (C * shards) = shards * (cd * C) := by ac_rfl
    _ ≤ shards * (cn * m + cd * (3 * d + 1)) := Nat.mul_le_mul_left _ h2
    _ = cn * (shards * m) + cd * (shards * (3 * d + 1)) := by rw [Nat.mul_add]; ac_rfl

/-- with the builder's own test `maxShard ≤ 1.01 · n / shards`:
`cells ≤ 1.01 · c · n + shards · (2^s + 1)` -/
theorem vfunc_cells_le_imbalance {cn cd n shards s l m V : Nat}
    (H1 : shards * 100 * m ≤ 101 * n)
    (H2 : cd * V ≤ cn * m + cd) (H3 : l = vfuncL V s) (hbig : 2 * 2 ^ s ≤ V) :
    100 * cd * vfuncCells l s shards ≤ 101 * cn * n + 100 * cd * (shards * (2 ^ s + 1)) := by
  have h := vfunc_cells_le (shards := shards) H2 H3 hbig
  generalize vfuncCells l s shards = C at *
  generalize shards * (2 ^ s + 1) = A at *
  have h1 : cn * (100 * (shards * m)) ≤ cn * (101 * n) :=
    Nat.mul_le_mul_left _ (by rw [← Nat.mul_assoc, Nat.mul_comm 100]; exact H1)
  calc 100 * cd * C = 100 * (cd * C) := Nat.mul_assoc _ _ _
    _ ≤ 100 * (cn * (shards * m) + cd * A) := Nat.mul_le_mul_left _ h
    _ = cn * (100 * (shards * m)) + 100 * cd * A := by rw [Nat.mul_add]; ac_rfl
    _ ≤ cn * (101 * n) + 100 * cd * A := Nat.add_le_add_right h1 _
    _ = 101 * cn * n + 100 * cd * A := by ac_rfl

/-- every input, with the builder's 1 % test:
`cells ≤ 1.01 · c · n + shards · (3·2^s + 1)` -/
theorem vfunc_cells_le_all_imbalance {cn cd n shards s l m V : Nat}
    (H1 : shards * 100 * m ≤ 101 * n) (H2 : cd * V ≤ cn * m + cd) (H3 : l = vfuncL V s) :
    100 * cd * vfuncCells l s shards ≤ 101 * cn * n + 100 * cd * (shards * (3 * 2 ^ s + 1)) := by
  have h := vfunc_cells_le_all (shards := shards) H2 H3
  generalize vfuncCells l s shards = C at *
  generalize shards * (3 * 2 ^ s + 1) = A at *
  have h1 : cn * (100 * (shards * m)) ≤ cn * (101 * n) :=
    Nat.mul_le_mul_left _ (by rw [← Nat.mul_assoc, Nat.mul_comm 100]; exact H1)
  calc 100 * cd * C = 100 * (cd * C) := Nat.mul_assoc _ _ _
    _ ≤ 100 * (cn * (shards * m) + cd * A) := Nat.mul_le_mul_left _ h
    _ = cn * (100 * (shards * m)) + 100 * cd * A := by rw [Nat.mul_add]; ac_rfl
    _ ≤ cn * (101 * n) + 100 * cd * A := Nat.add_le_add_right h1 _
    _ = 101 * cn * n + 100 * cd * A := by ac_rfl

/-! ## MWHC logics: three segments of `seg` vertices, `V = max 1 ⌈1.23·m/3⌉ ≤ 0.41·m + 1` -/

theorem mwhcSeg_le (V shards : Nat) : mwhcSeg V shards ≤ V + 127 := by
  unfold mwhcSeg
  split
  · omega
  · have := divCeil_mul_le V (by decide : 0 < 128); omega

/-- `cells ≤ 1.23 · (shards·m) + shards · 3·128` (3 cells when there is one shard) -/
theorem mwhc_cells_le {shards seg m V : Nat}
    (H2 : 300 * V ≤ 123 * m + 300) (H3 : seg = mwhcSeg V shards) :
    100 * mwhcCells seg shards ≤ 123 * (shards * m) + 100 * (shards * (3 * 128)) := by
  unfold mwhcCells; subst H3
  have h1 := mwhcSeg_le V shards
  generalize mwhcSeg V shards = g at *
  have h2 : 100 * (3 * g) ≤ 123 * m + 100 * (3 * 128) := by omega
  calc 100 * (3 * g * shards) = shards * (100 * (3 * g)) := by ac_rfl
    _ ≤ shards * (123 * m + 100 * (3 * 128)) := Nat.mul_le_mul_left _ h2
    _ = 123 * (shards * m) + 100 * (shards * (3 * 128)) := by rw [Nat.mul_add]; ac_rfl

theorem mwhc_cells_le_one {seg n V : Nat}
    (H2 : 300 * V ≤ 123 * n + 300) (H3 : seg = mwhcSeg V 1) :
    100 * mwhcCells seg 1 ≤ 123 * n + 100 * 3 := by
  unfold mwhcCells mwhcSeg at *
  simp only [if_true] at H3
  subst H3; omega

end Sux.Space
