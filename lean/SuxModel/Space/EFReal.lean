import Mathlib.Analysis.Convex.SpecificFunctions.Basic
import Mathlib.Analysis.SpecialFunctions.Log.Base
import SuxModel.Space.LemmasEF
/-!
# C11 — Elias–Fano: the bit count against `n (2 + max 0 (lg (u/n)))` over the reals

The only file of the project that imports Mathlib (proof-only; nothing the driver imports depends
on it; build with `lake build SuxModel.Space.EFReal`).

`ef_bits_le`  : `n·l + (n + (u >> l) + 1) ≤ n (2 + max 0 (log₂ (u/n))) + 1` for every `n ≥ 1`, `u`
                (the `+ 1` is the sentinel bit of the upper-bits vector);
`ef_words_le` : the allocated words, `+ 128` (less than two words of rounding on top of the
                sentinel bit), for **every** `n` and `u`: the empty sequence takes exactly two words
                (`Sux.Space.efWords_zero`; /repo 76fce19).
-/
namespace Sux.Space
open Real

/-- `2^f ≤ 1 + f` on `[0, 1]` (concavity of `x ↦ x^f`) -/
theorem two_rpow_le_one_add {f : ℝ} (h0 : 0 ≤ f) (h1 : f ≤ 1) : (2 : ℝ) ^ f ≤ 1 + f := by
  have h := rpow_one_add_le_one_add_mul_self (s := 1) (by norm_num) h0 h1
  have e : (1 : ℝ) + 1 = 2 := by norm_num
  rw [e, mul_one] at h
  exact h

theorem ef_bits_le (n u : ℕ) (hn : 0 < n) :
    ((n * efL n u + efHighBits n u : ℕ) : ℝ)
      ≤ (n : ℝ) * (2 + max 0 (logb 2 ((u : ℝ) / n))) + 1 := by
  have hnR : (0 : ℝ) < n := by exact_mod_cast hn
  have hmax : (0 : ℝ) ≤ max 0 (logb 2 ((u : ℝ) / n)) := le_max_left _ _
  rcases Nat.lt_or_ge u n with h | h
  · -- u < n : no lower bits, the upper parts are below n
    rw [efL_of_lt h] at *
    unfold efHighBits
    rw [efL_of_lt h, Nat.shiftRight_zero]
    have huR : (u : ℝ) ≤ n := by exact_mod_cast h.le
    push_cast
    nlinarith [mul_nonneg hnR.le hmax]
  · obtain ⟨hlo, hhi⟩ := efL_spec hn h
    unfold efHighBits
    generalize hl : efL n u = l at *
    set x : ℝ := (u : ℝ) / n with hx
    have hloR : (2 : ℝ) ^ l * n ≤ u := by exact_mod_cast hlo
    have hhiR : (u : ℝ) ≤ (2 : ℝ) ^ (l + 1) * n := by exact_mod_cast hhi.le
    have hpow : (0 : ℝ) < (2 : ℝ) ^ l := by positivity
    have hx1 : (2 : ℝ) ^ l ≤ x := by rw [hx, le_div_iff₀ hnR]; exact hloR
    have hx2 : x ≤ (2 : ℝ) ^ (l + 1) := by rw [hx, div_le_iff₀ hnR]; exact hhiR
    have hxpos : 0 < x := lt_of_lt_of_le hpow hx1
    -- f = fractional part of lg x
    have hf0 : (l : ℝ) ≤ logb 2 x := by
      rw [le_logb_iff_rpow_le (by norm_num) hxpos, rpow_natCast]; exact hx1
    have hf1 : logb 2 x ≤ (l : ℝ) + 1 := by
      rw [logb_le_iff_le_rpow (by norm_num) hxpos]
      have : ((l : ℝ) + 1) = ((l + 1 : ℕ) : ℝ) := by push_cast; ring
      rw [this, rpow_natCast]; exact hx2
    have h2f : (2 : ℝ) ^ (logb 2 x - l) = x / 2 ^ l := by
      rw [rpow_sub (by norm_num), rpow_logb (by norm_num) (by norm_num) hxpos, rpow_natCast]
    have hbern := two_rpow_le_one_add (f := logb 2 x - l) (by linarith) (by linarith)
    rw [h2f] at hbern
    -- the upper parts
    have hshift : ((u >>> l : ℕ) : ℝ) ≤ (u : ℝ) / 2 ^ l := by
      rw [Nat.shiftRight_eq_div_pow]
      have := Nat.cast_div_le (α := ℝ) (m := u) (n := 2 ^ l)
      simpa using this
    have hux : (u : ℝ) / 2 ^ l = n * (x / 2 ^ l) := by
      rw [hx]; field_simp
    have hup : ((u >>> l : ℕ) : ℝ) ≤ n * (1 + (logb 2 x - l)) := by
      calc ((u >>> l : ℕ) : ℝ) ≤ (u : ℝ) / 2 ^ l := hshift
        _ = n * (x / 2 ^ l) := hux
        _ ≤ n * (1 + (logb 2 x - l)) := mul_le_mul_of_nonneg_left hbern hnR.le
    have hmx : logb 2 x ≤ max 0 (logb 2 x) := le_max_right _ _
    push_cast
    nlinarith [mul_le_mul_of_nonneg_left hmx hnR.le]

/-- allocated words, every `n` and `u`: less than two words of rounding on top of the sentinel bit -/
theorem ef_words_le (n u : ℕ) :
    ((64 * efWords n u : ℕ) : ℝ) ≤ (n : ℝ) * (2 + max 0 (logb 2 ((u : ℝ) / n))) + 128 := by
  rcases Nat.eq_zero_or_pos n with h0 | hn
  · subst h0
    rw [efWords_zero]
    norm_num
  have h1 : ((64 * efWords n u : ℕ) : ℝ) ≤ ((n * efL n u + efHighBits n u + 127 : ℕ) : ℝ) := by
    exact_mod_cast efWords_le n u
  have h2 := ef_bits_le n u hn
  push_cast at h1 h2 ⊢
  linarith

/-- non-vacuity / tightness: `n = 1`, `u = 2^k`: `l = k`, one upper part of value 1, sentinel -/
example : efL 1 1024 = 10 ∧ efHighBits 1 1024 = 3 := by decide

end Sux.Space

/-! Axiom audit (this module is outside `Audit/C11.lean` because of the Mathlib import) -/
#print axioms Sux.Space.ef_bits_le
#print axioms Sux.Space.ef_words_le
