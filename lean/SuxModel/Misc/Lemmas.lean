import SuxModel.Misc.LemmasFC
import SuxModel.Misc.LemmasWrap
/-!
# Lemmas for runner `misc`

* `LemmasFC`  : FairChunks — the executable run is the greedy chunking (`Chunks`), and what follows
  from a greedy run (tiling, length, weights, no panic); `SuccLeast` for Elias–Fano and lists.
* `LemmasWrap`: closed forms (result + call log) of the trait default methods; the Elias–Fano
  model's own default-method definitions are instances of the generic ones.
-/
