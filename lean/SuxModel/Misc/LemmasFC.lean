import SuxModel.Misc.Model
import SuxModel.EF.LemmasProps
/-!
# FairChunks: the run of the iterator is the greedy chunking of the cumulative list

`Chunks xs t a cw ps e` is the relational specification of a run that starts at position `a` with
current weight `cw`: every non-final chunk `(a, i)` ends at the LEAST index `i` with
`xs[i] ≥ cw + t`, the final chunk `(a, n)` is emitted when `cw + t` exceeds the last element, a
run stops with `panic` when `cw + t` leaves `usize`.  There is no constructor for `oob` / `more`.

* `drain_chunks`: with enough fuel the executable `FC.drain` produces a `Chunks` run;
* the remaining lemmas derive tiling, length bounds and the weight characterisation from `Chunks`
  alone.
-/
namespace Sux.Misc
open Sux.EF (addC subC Mono)

/-- `succU` answers like `succ_unchecked::<false>` of a structure holding `xs` INSIDE its safety
contract: for a query `q` that has a successor, the least index whose element is `≥ q`, with that
element.  Nothing is assumed about queries without a successor. -/
def SuccLeast (xs : List Nat) (succU : Nat → Out (Nat × Nat)) : Prop :=
  ∀ q i, i < xs.length → q ≤ xs.getD i 0 → (∀ j, j < i → xs.getD j 0 < q) →
    succU q = .ok (i, xs.getD i 0)

/-- greedy runs (see the module header) -/
inductive Chunks (xs : List Nat) (t : Nat) : Nat → Nat → List (Nat × Nat) → FC.Ending → Prop
  | final {a cw : Nat} (h1 : cw + t < 2 ^ 64) (h2 : xs.getD (xs.length - 1) 0 < cw + t) :
      Chunks xs t a cw [(a, xs.length - 1)] .done
  | panic {a cw : Nat} (h : 2 ^ 64 ≤ cw + t) : Chunks xs t a cw [] .panic
  | step {a cw i : Nat} {rest : List (Nat × Nat)} {e : FC.Ending}
      (h1 : cw + t < 2 ^ 64) (h2 : cw + t ≤ xs.getD (xs.length - 1) 0) (hi : i < xs.length)
      (hsat : cw + t ≤ xs.getD i 0) (hmin : ∀ j, j < i → xs.getD j 0 < cw + t)
      (hrest : Chunks xs t i (xs.getD i 0) rest e) :
      Chunks xs t a cw ((a, i) :: rest) e

/-! ## one call of `next` -/

theorem next_zero (succU : Nat → Out (Nat × Nat)) (s : FC) (h : s.target = 0) :
    FC.next succU s = .ok (none, s) := by
  unfold FC.next; simp [h]

theorem next_panic (succU : Nat → Out (Nat × Nat)) (s : FC) (h0 : s.target ≠ 0)
    (h : 2 ^ 64 ≤ s.currentWeight + s.target) : FC.next succU s = .panic := by
  unfold FC.next addC
  have : ¬ s.currentWeight + s.target < 2 ^ 64 := by omega
  simp [h0, this]

theorem next_final (succU : Nat → Out (Nat × Nat)) (s : FC) (h0 : s.target ≠ 0)
    (h1 : s.currentWeight + s.target < 2 ^ 64) (h2 : s.maxWeight < s.currentWeight + s.target) :
    FC.next succU s = .ok (some (s.currPos, s.numWeights), { s with target := 0 }) := by
  unfold FC.next addC
  simp [h0, h1, h2]

theorem next_step (succU : Nat → Out (Nat × Nat)) (s : FC) (h0 : s.target ≠ 0)
    (h1 : s.currentWeight + s.target < 2 ^ 64) (h2 : s.currentWeight + s.target ≤ s.maxWeight)
    {i w : Nat} (hs : succU (s.currentWeight + s.target) = .ok (i, w)) :
    FC.next succU s = .ok (some (s.currPos, i), { s with currentWeight := w, currPos := i }) := by
  unfold FC.next addC
  have : ¬ s.maxWeight < s.currentWeight + s.target := by omega
  simp [h0, h1, this, hs]

/-- after the final chunk: `None` forever -/
theorem drain_exhausted (succU : Nat → Out (Nat × Nat)) (s : FC) (h : s.target = 0) (k : Nat) :
    FC.drain succU (k + 1) s = ([], .done, s) := by
  simp [FC.drain, next_zero succU s h]

/-! ## the executable run is a greedy run -/

/-- existence of the least index with `q ≤ xs[i]` -/
theorem exists_least_ge (xs : List Nat) (q : Nat) (n : Nat) (hn : n < xs.length)
    (h : q ≤ xs.getD n 0) :
    ∃ i, i < xs.length ∧ q ≤ xs.getD i 0 ∧ ∀ j, j < i → xs.getD j 0 < q := by
  obtain ⟨i, hi, h1, h2⟩ := EF.exists_least (fun i => q ≤ xs.getD i 0) xs.length ⟨n, hn, h⟩
  exact ⟨i, hi, h1, fun j hj => Nat.not_le.1 (h2 j hj)⟩

/-- number of chunks still to come is at most `mu + 1` -/
def mu (xs : List Nat) (a cw : Nat) : Nat :=
  (xs.length - 1 - a) + (if xs.getD a 0 ≤ cw then 0 else 1)

variable {xs : List Nat} {t : Nat} {succU : Nat → Out (Nat × Nat)}

/-- the least successor index lies at or after the current position, strictly after it when the
current weight has reached `xs[a]` -/
theorem least_ge_pos (hm : Mono xs) (ht : 0 < t) {a cw i : Nat} (_hi : i < xs.length)
    (ha : a < xs.length) (hH : ∀ j, j < a → xs.getD j 0 ≤ cw) (hsat : cw + t ≤ xs.getD i 0) :
    a ≤ i ∧ (xs.getD a 0 ≤ cw → a < i) := by
  constructor
  · rcases Nat.lt_or_ge i a with h | h
    · have := hH i h; omega
    · exact h
  · intro hle
    rcases Nat.lt_or_ge a i with h | h
    · exact h
    · have := hm i a h ha
      omega

theorem drain_chunks (hm : Mono xs) (hS : SuccLeast xs succU) (ht : 0 < t) :
    ∀ (k : Nat) (s : FC), s.target = t → s.numWeights = xs.length - 1 →
      s.maxWeight = xs.getD (xs.length - 1) 0 → s.currPos < xs.length →
      (∀ j, j < s.currPos → xs.getD j 0 ≤ s.currentWeight) →
      mu xs s.currPos s.currentWeight + 2 ≤ k →
      ∃ ps e s', FC.drain succU k s = (ps, e, s') ∧ Chunks xs t s.currPos s.currentWeight ps e ∧
        (e = .done → s' = { s' with target := 0 } ∧ s'.target = 0) := by
  intro k
  induction k with
  | zero => intro s _ _ _ _ _ hk; omega
  | succ k ih =>
    intro s hst hnw hmw hcp hH hk
    have h0 : s.target ≠ 0 := by omega
    by_cases hov : 2 ^ 64 ≤ s.currentWeight + s.target
    · refine ⟨[], .panic, s, ?_, .panic (by rw [← hst]; exact hov), fun h => by cases h⟩
      simp [FC.drain, next_panic succU s h0 hov]
    · have h1 : s.currentWeight + s.target < 2 ^ 64 := by omega
      by_cases hfin : s.maxWeight < s.currentWeight + s.target
      · have hk' : ∃ k', k = k' + 1 := ⟨k - 1, by omega⟩
        obtain ⟨k', rfl⟩ := hk'
        refine ⟨[(s.currPos, xs.length - 1)], .done, { s with target := 0 }, ?_,
          .final (by rw [← hst]; exact h1) (by rw [← hst, ← hmw]; exact hfin), fun _ => ⟨rfl, rfl⟩⟩
        rw [FC.drain, next_final succU s h0 h1 hfin]
        simp only
        rw [drain_exhausted succU _ rfl k', hnw]
      · have h2 : s.currentWeight + s.target ≤ s.maxWeight := by omega
        have hne : xs.length - 1 < xs.length := by omega
        obtain ⟨i, hi, hsat, hmin⟩ :=
          exists_least_ge xs (s.currentWeight + s.target) (xs.length - 1) hne (by rw [← hmw]; exact h2)
        have hsu := hS _ i hi hsat hmin
        have hpos := least_ge_pos hm ht hi hcp hH (by rw [← hst]; exact hsat)
        let s1 : FC := { s with currentWeight := xs.getD i 0, currPos := i }
        have hmu : mu xs s1.currPos s1.currentWeight + 2 ≤ k := by
          have hmu0 : mu xs i (xs.getD i 0) = xs.length - 1 - i := by
            unfold mu; rw [if_pos (Nat.le_refl _)]; omega
          show mu xs i (xs.getD i 0) + 2 ≤ k
          rw [hmu0]
          unfold mu at hk
          by_cases hc : xs.getD s.currPos 0 ≤ s.currentWeight
          · have := hpos.2 hc
            rw [if_pos hc] at hk
            omega
          · rw [if_neg hc] at hk
            have := hpos.1
            omega
        obtain ⟨ps, e, s', hd, hC, hdone⟩ := ih s1 hst hnw hmw hi
          (fun j hj => hm j i (Nat.le_of_lt hj) hi) hmu
        refine ⟨(s.currPos, i) :: ps, e, s', ?_, ?_, hdone⟩
        · rw [FC.drain, next_step succU s h0 h1 h2 hsu]
          simp only
          rw [hd]
        · exact .step (by rw [← hst]; exact h1) (by rw [← hst, ← hmw]; exact h2) hi
            (by rw [← hst]; exact hsat) (by rw [← hst]; exact hmin) hC

/-! ## consequences of a greedy run -/

/-- `ps` is a chain of consecutive well-formed ranges from `a` to `b` -/
def Consec : Nat → List (Nat × Nat) → Nat → Prop
  | a, [], b => a = b
  | a, p :: ps, b => p.1 = a ∧ a ≤ p.2 ∧ Consec p.2 ps b

/-- the elements of the ranges, in order -/
def elems (ps : List (Nat × Nat)) : List Nat := ps.flatMap fun p => List.range' p.1 (p.2 - p.1)

theorem elems_consec : ∀ (ps : List (Nat × Nat)) (a b : Nat), Consec a ps b →
    a ≤ b ∧ elems ps = List.range' a (b - a) := by
  intro ps
  induction ps with
  | nil => intro a b h; cases h; simp [elems]
  | cons p ps ih =>
    intro a b h
    obtain ⟨h1, h2, h3⟩ := h
    obtain ⟨h4, h5⟩ := ih _ _ h3
    refine ⟨by omega, ?_⟩
    have e : elems (p :: ps) = List.range' p.1 (p.2 - p.1) ++ elems ps := by simp [elems]
    obtain ⟨d, hd⟩ : ∃ d, p.2 = a + d := ⟨p.2 - a, by omega⟩
    rw [e, h5, h1, hd, Nat.add_sub_cancel_left, List.range'_append_1]
    congr 1
    omega

theorem chunks_ending {a cw : Nat} {ps : List (Nat × Nat)} {e : FC.Ending}
    (h : Chunks xs t a cw ps e) : e = .done ∨ e = .panic := by
  induction h with
  | final => exact Or.inl rfl
  | panic => exact Or.inr rfl
  | step _ _ _ _ _ _ ih => exact ih

/-- tiling: the ranges are consecutive and well formed from the current position; a complete run
ends at `n = xs.length - 1`, a run cut by a panic at some `b ≤ n` -/
theorem chunks_consec (hm : Mono xs) (ht : 0 < t) {a cw : Nat} {ps : List (Nat × Nat)}
    {e : FC.Ending} (h : Chunks xs t a cw ps e) :
    a < xs.length → (∀ j, j < a → xs.getD j 0 ≤ cw) →
    ∃ b, b < xs.length ∧ Consec a ps b ∧ (e = .done → b = xs.length - 1) := by
  induction h with
  | @final a cw _ _ =>
    intro ha _
    exact ⟨xs.length - 1, by omega, ⟨rfl, by show a ≤ xs.length - 1; omega, rfl⟩, fun _ => rfl⟩
  | @panic a cw _ =>
    intro ha _
    exact ⟨a, ha, rfl, fun h => by cases h⟩
  | @step a cw i rest e _ _ hi hsat _ _ ih =>
    intro ha hH
    obtain ⟨b, hb, hc, hd⟩ := ih hi (fun j hj => hm j i (Nat.le_of_lt hj) hi)
    exact ⟨b, hb, ⟨rfl, (least_ge_pos hm ht hi ha hH hsat).1, hc⟩, hd⟩

/-- number of chunks -/
theorem chunks_length (hm : Mono xs) (ht : 0 < t) {a cw : Nat} {ps : List (Nat × Nat)}
    {e : FC.Ending} (h : Chunks xs t a cw ps e) :
    a < xs.length → (∀ j, j < a → xs.getD j 0 ≤ cw) → ps.length ≤ mu xs a cw + 1 := by
  induction h with
  | final => intro _ _; simp
  | panic => intro _ _; simp
  | @step a cw i rest e _ _ hi hsat _ _ ih =>
    intro ha hH
    have h1 := ih hi (fun j hj => hm j i (Nat.le_of_lt hj) hi)
    have hmu0 : mu xs i (xs.getD i 0) = xs.length - 1 - i := by
      unfold mu; rw [if_pos (Nat.le_refl _)]; omega
    rw [hmu0] at h1
    have hpos := least_ge_pos hm ht hi ha hH hsat
    simp only [List.length_cons]
    unfold mu
    by_cases hc : xs.getD a 0 ≤ cw
    · have := hpos.2 hc
      rw [if_pos hc]; omega
    · have := hpos.1
      rw [if_neg hc]; omega

/-- no panic when the last cumulative weight plus the target fits in `usize` -/
theorem chunks_no_panic (hm : Mono xs) {a cw : Nat} {ps : List (Nat × Nat)} {e : FC.Ending}
    (h : Chunks xs t a cw ps e) (hfit : xs.getD (xs.length - 1) 0 + t < 2 ^ 64) :
    cw ≤ xs.getD (xs.length - 1) 0 → e = .done := by
  induction h with
  | final => intro _; rfl
  | panic h => intro hcw; omega
  | @step a cw i rest e _ _ hi _ _ _ ih =>
    intro _
    exact ih (hm i (xs.length - 1) (by omega) (by omega))

/-- the weight characterisation of a chunk `p`: non-empty, total weight `≥ t`, and `< t` without
its last element (weights are differences of the cumulative list) -/
def FairChunk (xs : List Nat) (t : Nat) (p : Nat × Nat) : Prop :=
  p.1 < p.2 ∧ p.2 < xs.length ∧ xs.getD p.1 0 + t ≤ xs.getD p.2 0 ∧
    xs.getD (p.2 - 1) 0 < xs.getD p.1 0 + t

theorem chunks_weights (hm : Mono xs) (ht : 0 < t) {a cw : Nat} {ps : List (Nat × Nat)}
    {e : FC.Ending} (h : Chunks xs t a cw ps e) :
    a < xs.length → cw = xs.getD a 0 →
    (e = .done → ∃ init a', ps = init ++ [(a', xs.length - 1)] ∧ (∀ p, p ∈ init → FairChunk xs t p) ∧
      a' < xs.length ∧ xs.getD (xs.length - 1) 0 < xs.getD a' 0 + t) ∧
    (e = .panic → ∀ p, p ∈ ps → FairChunk xs t p) := by
  induction h with
  | @final a cw _ h2 =>
    intro ha hcw
    refine ⟨fun _ => ⟨[], a, rfl, (fun p hp => by cases hp), ha, by rw [← hcw]; exact h2⟩,
      fun h => by cases h⟩
  | @panic a cw _ =>
    intro _ _
    exact ⟨(fun h => by cases h), (fun _ p hp => by cases hp)⟩
  | @step a cw i rest e _ _ hi hsat hmin _ ih =>
    intro ha hcw
    have hpos := least_ge_pos hm ht hi ha
      (fun j hj => by rw [hcw]; exact hm j a (Nat.le_of_lt hj) ha) hsat
    have hai : a < i := hpos.2 (by rw [hcw]; exact Nat.le_refl _)
    have hW : FairChunk xs t (a, i) :=
      ⟨hai, hi, by rw [← hcw]; exact hsat, by rw [← hcw]; exact hmin (i - 1) (by omega)⟩
    obtain ⟨ih1, ih2⟩ := ih hi rfl
    constructor
    · intro he
      obtain ⟨init, a', e1, e2, e3⟩ := ih1 he
      refine ⟨(a, i) :: init, a', by rw [e1]; rfl, ?_, e3⟩
      intro p hp
      rcases List.mem_cons.1 hp with rfl | hp
      · exact hW
      · exact e2 p hp
    · intro he p hp
      rcases List.mem_cons.1 hp with rfl | hp
      · exact hW
      · exact ih2 he p hp

/-! ## structures that satisfy `SuccLeast` -/

/-- Elias–Fano (every state that represents `xs`) -/
theorem succLeast_ef {u : Nat} {s : EF.St} (R : EF.Rep xs u s) (V : EF.Valid xs u)
    (hL : s.high.len < 2 ^ 64) : SuccLeast xs (EF.succU false s) := by
  intro q i hi hsat hmin
  exact EF.succU_ok R V hL false q hi (by unfold EF.geq; simpa using hsat)
    (fun j hj => by unfold EF.geq; simpa using hmin j hj)

theorem findFrom_least (p : Nat → Bool) : ∀ (xs : List Nat) (k i : Nat), i < xs.length →
    p (xs.getD i 0) = true → (∀ j, j < i → p (xs.getD j 0) = false) →
    findFrom p xs k = some (k + i, xs.getD i 0) := by
  intro xs
  induction xs with
  | nil => intro k i hi; simp at hi
  | cons x xs ih =>
    intro k i hi hp hmin
    cases i with
    | zero =>
      have : p x = true := by simpa using hp
      simp [findFrom, this]
    | succ i =>
      have h0 : p x = false := by simpa using hmin 0 (by omega)
      have := ih (k + 1) i (by simpa using hi) (by simpa using hp)
        (fun j hj => by simpa using hmin (j + 1) (by omega))
      simp only [findFrom, h0]
      rw [this]
      simp
      omega

/-- the reference implementor over a plain list -/
theorem succLeast_ofList (xs : List Nat) : SuccLeast xs ((DictImpl.ofList xs).succU false) := by
  intro q i hi hsat hmin
  have := findFrom_least (fun x => if false then decide (q < x) else decide (q ≤ x)) xs 0 i hi
    (by simpa using hsat) (fun j hj => by simpa using hmin j hj)
  simp only [DictImpl.ofList]
  rw [this]
  simp

/-! ## `FairChunks::new` -/

/-- positional view of an implementor -/
structure DictImpl.Seq (d : DictImpl) (xs : List Nat) : Prop where
  len_eq : d.len = xs.length
  get_ok : ∀ i, i < xs.length → d.getU i = .ok (xs.getD i 0)

end Sux.Misc
