import SuxModel.EF.Model
/-!
# Model of the remaining small library pieces

* `src/utils/fair_chunks.rs`    — `FairChunks::new`, `new_with`, `Iterator::next`;
* `src/dict/slice_seq.rs`        — `SliceSeq` (`IndexedSeq`, `iter`, `IntoIterator`, `IntoIteratorFrom`);
* `src/traits/indexed_dict.rs`   — the DEFAULT methods `IndexedSeq::get`, `is_empty`,
  `IndexedDict::contains`, `Succ::succ`, `succ_strict`, `Pred::pred`, `pred_strict`;
* `src/traits/rank_sel.rs`       — the DEFAULT methods `BitCount::count_zeros`, `NumBits::num_zeros`,
  `Rank::rank`, `RankZero::rank_zero`, `rank_zero_unchecked`, `Select::select`,
  `SelectZero::select_zero`, and the struct `AddNumBits`;
* `src/traits/iter.rs`           — the one default method, `IntoUncheckedIterator::into_unchecked_iter`.

`usize` = 64 bits; `a + b`, `a - b` on `usize` in a checked build go through `EF.addC` / `EF.subC`
(`panic` on overflow / underflow).

## Trait defaults: an implementor is a record of its REQUIRED methods

A default method is generic code over the required methods of the trait.  The implementor is a
record (`DictImpl`, `BitsImpl`) of functions into `Out`: a required `unsafe fn …_unchecked` called
outside its safety contract answers `oob`.  The default methods run in the trace monad `Tr`
(`Out` + the list of required-method calls made so far, kept when the computation panics), so that
"the unchecked method is not called" is a statement about the model (`Call.succU … ∉ log`) and is
observable on the real code through a logging implementor (harness: `MockDict`, `MockBits`).
-/
namespace Sux.Misc
open Sux.EF (addC subC)

/-! ## trace monad -/

/-- a call of a required trait method -/
inductive Call where
  | len                                   -- `IndexedSeq::len`
  | getU (i : Nat)                        -- `IndexedSeq::get_unchecked`
  | indexOf (q : Nat)                     -- `IndexedDict::index_of`
  | succU (strict : Bool) (q : Nat)       -- `SuccUnchecked::succ_unchecked::<STRICT>`
  | predU (strict : Bool) (q : Nat)       -- `PredUnchecked::pred_unchecked::<STRICT>`
  | bitLen                                -- `BitLength::len`
  | numOnes                               -- `NumBits::num_ones`
  | countOnes                             -- `BitCount::count_ones`
  | rankU (p : Nat)                       -- `RankUnchecked::rank_unchecked`
  | selU (r : Nat)                        -- `SelectUnchecked::select_unchecked`
  | selZeroU (r : Nat)                    -- `SelectZeroUnchecked::select_zero_unchecked`
  | uiterFrom (k : Nat)                   -- `IntoUncheckedIterator::into_unchecked_iter_from`
deriving DecidableEq, Repr

/-- outcome + the required-method calls made (in order; kept on `panic` / `oob`) -/
structure Tr (α : Type) where
  out : Out α
  log : List Call

namespace Tr

def bind {α β : Type} (x : Tr α) (f : α → Tr β) : Tr β :=
  match x.out with
  | .ok a => ⟨(f a).out, x.log ++ (f a).log⟩
  | .panic => ⟨.panic, x.log⟩
  | .oob => ⟨.oob, x.log⟩

instance : Monad Tr where
  pure a := ⟨.ok a, []⟩
  bind := Tr.bind

/-- a call of a required method with outcome `o` -/
def call {α : Type} (c : Call) (o : Out α) : Tr α := ⟨o, [c]⟩
/-- `panic!(..)` -/
def fail {α : Type} : Tr α := ⟨.panic, []⟩
/-- checked arithmetic (no call) -/
def lift {α : Type} (o : Out α) : Tr α := ⟨o, []⟩

end Tr

/-! ## `traits/indexed_dict.rs` -/

/-- the required methods of `IndexedSeq + IndexedDict + SuccUnchecked + PredUnchecked`
(`Input = Output = usize`) -/
structure DictImpl where
  len : Nat
  getU : Nat → Out Nat
  indexOf : Nat → Out (Option Nat)
  succU : Bool → Nat → Out (Nat × Nat)
  predU : Bool → Nat → Out (Nat × Nat)

namespace DictImpl

/-- `self.len()` -/
def lenT (d : DictImpl) : Tr Nat := Tr.call .len (.ok d.len)

/-- `IndexedSeq::is_empty`: `self.len() == 0` -/
def isEmpty (d : DictImpl) : Tr Bool := do
  let n ← d.lenT
  pure (n == 0)

/-- `IndexedSeq::get`: `if index >= self.len() { panic!("… {} >= {}", index, self.len()) } else
{ self.get_unchecked(index) }` (the panic message evaluates `self.len()` once more) -/
def get (d : DictImpl) (i : Nat) : Tr Nat := do
  let n ← d.lenT
  if i ≥ n then do
    let _ ← d.lenT
    Tr.fail
  else Tr.call (.getU i) (d.getU i)

/-- `IndexedDict::contains`: `self.index_of(value).is_some()` -/
def contains (d : DictImpl) (q : Nat) : Tr Bool := do
  let r ← Tr.call (.indexOf q) (d.indexOf q)
  pure r.isSome

/-- `Succ::succ`: `if self.is_empty() || *value.borrow() > self.get(self.len() - 1) { None }
else { Some(self.succ_unchecked::<false>(value)) }` -/
def succ (d : DictImpl) (q : Nat) : Tr (Option (Nat × Nat)) := do
  if (← d.isEmpty) then pure none
  else do
    let n ← d.lenT
    let i ← Tr.lift (subC n 1)
    let last ← d.get i
    if q > last then pure none
    else do
      let r ← Tr.call (.succU false q) (d.succU false q)
      pure (some r)

/-- `Succ::succ_strict`: guard `*value.borrow() >= self.get(self.len() - 1)` -/
def succStrict (d : DictImpl) (q : Nat) : Tr (Option (Nat × Nat)) := do
  if (← d.isEmpty) then pure none
  else do
    let n ← d.lenT
    let i ← Tr.lift (subC n 1)
    let last ← d.get i
    if q ≥ last then pure none
    else do
      let r ← Tr.call (.succU true q) (d.succU true q)
      pure (some r)

/-- `Pred::pred`: `if self.is_empty() || *value.borrow() < self.get(0) { None } else
{ Some(self.pred_unchecked::<false>(value)) }` -/
def pred (d : DictImpl) (q : Nat) : Tr (Option (Nat × Nat)) := do
  if (← d.isEmpty) then pure none
  else do
    let first ← d.get 0
    if q < first then pure none
    else do
      let r ← Tr.call (.predU false q) (d.predU false q)
      pure (some r)

/-- `Pred::pred_strict`: guard `*value.borrow() <= self.get(0)` -/
def predStrict (d : DictImpl) (q : Nat) : Tr (Option (Nat × Nat)) := do
  if (← d.isEmpty) then pure none
  else do
    let first ← d.get 0
    if q ≤ first then pure none
    else do
      let r ← Tr.call (.predU true q) (d.predU true q)
      pure (some r)

end DictImpl

/-! ### implementors -/

/-- least index `< xs.length` at or after `i` whose element satisfies `p` -/
def findFrom (p : Nat → Bool) : List Nat → Nat → Option (Nat × Nat)
  | [], _ => none
  | x :: xs, i => if p x then some (i, x) else findFrom p xs (i + 1)

/-- greatest index whose element satisfies `p` -/
def findLast (p : Nat → Bool) : List Nat → Nat → Option (Nat × Nat)
  | [], _ => none
  | x :: xs, i =>
    match findLast p xs (i + 1) with
    | some r => some r
    | none => if p x then some (i, x) else none

/-- the reference implementor over a plain list (harness: `MockDict`): linear scans; a call outside
the safety contract (index out of range, no successor, no predecessor) is `oob` -/
def DictImpl.ofList (xs : List Nat) : DictImpl where
  len := xs.length
  getU := fun i => match xs[i]? with | some v => .ok v | none => .oob
  indexOf := fun q => .ok ((findFrom (· == q) xs 0).map (·.1))
  succU := fun strict q =>
    match findFrom (fun x => if strict then decide (q < x) else decide (q ≤ x)) xs 0 with
    | some r => .ok r
    | none => .oob
  predU := fun strict q =>
    match findLast (fun x => if strict then decide (x < q) else decide (x ≤ q)) xs 0 with
    | some r => .ok r
    | none => .oob

/-- `EliasFano` as an implementor (it implements exactly the required methods and inherits every
default method) -/
def DictImpl.ofEF (s : EF.St) : DictImpl where
  len := EF.len s
  getU := EF.getU s
  indexOf := EF.indexOf s
  succU := fun strict q => EF.succU strict s q
  predU := fun strict q => EF.predU strict s q

/-! ## `traits/rank_sel.rs` -/

/-- the required methods of `BitLength`, `BitCount`, `NumBits`, `RankUnchecked`,
`SelectUnchecked`, `SelectZeroUnchecked` -/
structure BitsImpl where
  bitLen : Nat
  countOnes : Nat
  numOnes : Nat
  rankU : Nat → Out Nat
  selU : Nat → Out Nat
  selZeroU : Nat → Out Nat

namespace BitsImpl

def lenT (b : BitsImpl) : Tr Nat := Tr.call .bitLen (.ok b.bitLen)
def numOnesT (b : BitsImpl) : Tr Nat := Tr.call .numOnes (.ok b.numOnes)
def countOnesT (b : BitsImpl) : Tr Nat := Tr.call .countOnes (.ok b.countOnes)

/-- `BitCount::count_zeros`: `self.len() - self.count_ones()` -/
def countZeros (b : BitsImpl) : Tr Nat := do
  let n ← b.lenT
  let c ← b.countOnesT
  Tr.lift (subC n c)

/-- `NumBits::num_zeros`: `self.len() - self.num_ones()` -/
def numZeros (b : BitsImpl) : Tr Nat := do
  let n ← b.lenT
  let c ← b.numOnesT
  Tr.lift (subC n c)

/-- `Rank::rank`: `if pos >= self.len() { self.num_ones() } else { self.rank_unchecked(pos) }` -/
def rank (b : BitsImpl) (pos : Nat) : Tr Nat := do
  let n ← b.lenT
  if pos ≥ n then b.numOnesT
  else Tr.call (.rankU pos) (b.rankU pos)

/-- `RankZero::rank_zero`: `pos - self.rank(pos)` -/
def rankZero (b : BitsImpl) (pos : Nat) : Tr Nat := do
  let r ← b.rank pos
  Tr.lift (subC pos r)

/-- `RankZero::rank_zero_unchecked`: `pos - self.rank_unchecked(pos)` -/
def rankZeroU (b : BitsImpl) (pos : Nat) : Tr Nat := do
  let r ← Tr.call (.rankU pos) (b.rankU pos)
  Tr.lift (subC pos r)

/-- `Select::select`: `if rank >= self.num_ones() { None } else
{ Some(self.select_unchecked(rank)) }` -/
def select (b : BitsImpl) (r : Nat) : Tr (Option Nat) := do
  let n1 ← b.numOnesT
  if r ≥ n1 then pure none
  else do
    let p ← Tr.call (.selU r) (b.selU r)
    pure (some p)

/-- `SelectZero::select_zero`: `if rank >= self.num_zeros() { None } else
{ Some(self.select_zero_unchecked(rank)) }` -/
def selectZero (b : BitsImpl) (r : Nat) : Tr (Option Nat) := do
  let n0 ← b.numZeros
  if r ≥ n0 then pure none
  else do
    let p ← Tr.call (.selZeroU r) (b.selZeroU r)
    pure (some p)

end BitsImpl

/-- number of `true` among the first `p` bits -/
def rankList (bits : List Bool) (p : Nat) : Nat := (bits.take p).countP (· == true)

/-- position of the `r`-th bit equal to `v`, scanning from position `i` -/
def selList (v : Bool) : List Bool → Nat → Nat → Option Nat
  | [], _, _ => none
  | b :: bs, i, r =>
    if b == v then (if r == 0 then some i else selList v bs (i + 1) (r - 1))
    else selList v bs (i + 1) r

/-- the reference implementor over a list of bits (harness: `MockBits`); `numOnes` / `countOnes`
are whatever the implementor reports (they are parameters: the guards of the default methods use
the reported numbers).  A call outside the safety contract is `oob`. -/
def BitsImpl.ofList (bits : List Bool) (numOnes countOnes : Nat) : BitsImpl where
  bitLen := bits.length
  countOnes := countOnes
  numOnes := numOnes
  rankU := fun p => if p < bits.length then .ok (rankList bits p) else .oob
  selU := fun r => match selList true bits 0 r with | some p => .ok p | none => .oob
  selZeroU := fun r => match selList false bits 0 r with | some p => .ok p | none => .oob

/-- `AddNumBits<B>`: `bits`, `number_of_ones` -/
structure AddNumBits where
  bits : BitsImpl
  numberOfOnes : Nat

namespace AddNumBits

/-- `From<B: BitCount>`: `number_of_ones = bits.count_ones()` -/
def ofBits (b : BitsImpl) : Tr AddNumBits := do
  let c ← b.countOnesT
  pure { bits := b, numberOfOnes := c }

/-- `from_raw_parts` (no check) -/
def fromRaw (b : BitsImpl) (k : Nat) : AddNumBits := { bits := b, numberOfOnes := k }

/-- `BitLength::len` / inherent `len` (delegated to `bits`) -/
def len (a : AddNumBits) : Tr Nat := a.bits.lenT
/-- `NumBits::num_ones` (cached) -/
def numOnes (a : AddNumBits) : Tr Nat := pure a.numberOfOnes
/-- `BitCount::count_ones` (cached) -/
def countOnes (a : AddNumBits) : Tr Nat := pure a.numberOfOnes
/-- `NumBits::num_zeros` (default method on `AddNumBits`) -/
def numZeros (a : AddNumBits) : Tr Nat := do
  let n ← a.len
  let c ← a.numOnes
  Tr.lift (subC n c)
/-- `BitCount::count_zeros` (default method on `AddNumBits`) -/
def countZeros (a : AddNumBits) : Tr Nat := do
  let n ← a.len
  let c ← a.countOnes
  Tr.lift (subC n c)
/-- `Rank`, `RankZero`, `Select`, `SelectZero` are delegated (`ambassador`) to `bits` with all their
methods, the provided ones included: the guards use the numbers reported by `bits`, not the cache -/
def rank (a : AddNumBits) (p : Nat) : Tr Nat := a.bits.rank p
def rankZero (a : AddNumBits) (p : Nat) : Tr Nat := a.bits.rankZero p
def rankZeroU (a : AddNumBits) (p : Nat) : Tr Nat := a.bits.rankZeroU p
def select (a : AddNumBits) (r : Nat) : Tr (Option Nat) := a.bits.select r
def selectZero (a : AddNumBits) (r : Nat) : Tr (Option Nat) := a.bits.selectZero r

end AddNumBits

/-! ## `traits/iter.rs` -/

/-- `IntoUncheckedIterator::into_unchecked_iter`: `self.into_unchecked_iter_from(0)` -/
def intoUncheckedIter {α : Type} (intoFrom : Nat → Out α) : Tr α :=
  Tr.call (.uiterFrom 0) (intoFrom 0)

/-! ## `dict/slice_seq.rs` -/

/-- `SliceSeq<usize, A>`: the slice -/
structure SliceSeq where
  data : Array Nat
deriving Repr, DecidableEq

namespace SliceSeq

/-- `SliceSeq::new` / `From<A>` -/
def new (xs : List Nat) : SliceSeq := ⟨xs.toArray⟩
/-- `IndexedSeq::len` -/
def len (s : SliceSeq) : Nat := s.data.size
/-- `IndexedSeq::get_unchecked`: `*self.0.as_ref().get_unchecked(index)` -/
def getU (s : SliceSeq) (i : Nat) : Out Nat := Out.readU s.data i
/-- `IndexedSeq::get` (trait default) -/
def get (s : SliceSeq) (i : Nat) : Out Nat := if i ≥ s.len then .panic else s.getU i
/-- `IndexedSeq::is_empty` (trait default) -/
def isEmpty (s : SliceSeq) : Bool := s.len == 0
/-- `iter()` / `into_iter()`: `self.0.as_ref().iter().copied()` -/
def iter (s : SliceSeq) : List Nat := s.data.toList
/-- `into_iter_from(from)`: `self.iter().skip(from)` -/
def iterFrom (s : SliceSeq) (k : Nat) : List Nat := s.data.toList.drop k

/-- as an implementor of `IndexedSeq` (the other required methods do not exist) -/
def toDict (s : SliceSeq) : DictImpl where
  len := s.len
  getU := s.getU
  indexOf := fun _ => .oob
  succU := fun _ _ => .oob
  predU := fun _ _ => .oob

end SliceSeq

/-! ## `utils/fair_chunks.rs` -/

/-- `FairChunks<I>` without the field `cwf` (the structure is a parameter of `new` / `next`) -/
structure FC where
  target : Nat          -- `target_weight`
  currPos : Nat         -- `curr_pos`
  currentWeight : Nat   -- `current_weight`
  numWeights : Nat      -- `num_weights`
  maxWeight : Nat       -- `max_weight`
deriving Repr, DecidableEq, Inhabited

namespace FC

/-- `FairChunks::new_with(target_weight, cwf, num_weights, max_weight)` -/
def newWith (t nw mw : Nat) : FC :=
  { target := t, currPos := 0, currentWeight := 0, numWeights := nw, maxWeight := mw }

/-- `FairChunks::new(target_weight, cwf)`:
`let len = cwf.len(); let max_weight = if len == 0 { 0 } else { cwf.get(len - 1) };` and
`num_weights: len - 1` — for `len == 0` the subtraction underflows: `panic` in a checked build
(in a release build it wraps to `usize::MAX`, see `Props/Extra.lean`). -/
def new (len : Nat) (get : Nat → Out Nat) (t : Nat) : Out FC := do
  let mw ← (if len == 0 then pure 0 else get (len - 1) : Out Nat)
  let nw ← subC len 1
  pure (newWith t nw mw)

/-- `Iterator::next`; `succU` = `|v| self.cwf.succ_unchecked::<false>(&v)`.  Returns the item (a
range `start..end` as a pair) and the new state; on `panic` / `oob` the state is unchanged (the
fields are assigned after the addition and after the call). -/
def next (succU : Nat → Out (Nat × Nat)) (s : FC) : Out (Option (Nat × Nat) × FC) :=
  if s.target == 0 then .ok (none, s)
  else do
    let target ← addC s.currentWeight s.target
    if target > s.maxWeight then
      pure (some (s.currPos, s.numWeights), { s with target := 0 })
    else do
      let (nextPos, nextWeight) ← succU target
      pure (some (s.currPos, nextPos), { s with currentWeight := nextWeight, currPos := nextPos })

/-- how a bounded sequence of `next` calls ended -/
inductive Ending where
  | done      -- `next` returned `None`
  | more      -- the bound on the number of calls was reached
  | panic
  | oob
deriving Repr, DecidableEq

/-- at most `k` calls of `next`, stopping at the first `None` / `panic` / `oob`: the items, how it
ended, and the final state -/
def drain (succU : Nat → Out (Nat × Nat)) : Nat → FC → List (Nat × Nat) × Ending × FC
  | 0, s => ([], .more, s)
  | k + 1, s =>
    match next succU s with
    | .ok (none, s') => ([], .done, s')
    | .ok (some p, s') =>
      let r := drain succU k s'
      (p :: r.1, r.2.1, r.2.2)
    | .panic => ([], .panic, s)
    | .oob => ([], .oob, s)

end FC

end Sux.Misc
