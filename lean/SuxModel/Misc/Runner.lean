import SuxModel.Base.Proto
import SuxModel.Misc.Model
import SuxModel.EF.Spec
/-!
# Protocol runner `misc` (FairChunks, SliceSeq, trait default methods)

```
case <id>                                        -> case
fc_new <ef|mock> <t> <cwf>                       -> ok | panic | oob      FairChunks::new(t, &cwf)
fc_new_with <ef|mock> <t> <cwf> <nw> <mw>        -> ok | panic            FairChunks::new_with(t, &cwf, nw, mw)
fc_next                                          -> ok none | ok <start> <end> | panic | oob
fc_collect <cap>     at most <cap> calls of next -> ok [s0,e0,s1,e1,…] <done|more|panic|oob>
fc_state             (fields, from `Debug`)      -> ok <target> <curr_pos> <current_weight> <num_weights> <max_weight>
ss_new <list>                                    -> ok
ss_len | ss_is_empty | ss_iter | ss_into_iter    -> ok <n> | ok <0|1> | ok <list>
ss_get <i>                                       -> ok <v> | panic
ss_get_unchecked <i>                             -> ok <v> | oob   (issued by the harness only in range)
ss_into_iter_from <k>                            -> ok <list>
ss_eq <list>                                     -> ok <0|1>
d_new <ef|mock> <list>                           -> ok | panic
d_len | d_is_empty | d_get <i> | d_contains <q> | d_succ <q> | d_succ_strict <q> | d_pred <q> | d_pred_strict <q>
                                                 -> <res> ; <log>
b_new <plain|anb_from|anb_raw> <bits> <num_ones> <count_ones> <k>   -> ok ; <log>
b_len | b_num_ones | b_count_ones | b_num_zeros | b_count_zeros | b_rank <p> | b_rank_zero <p>
  | b_rank_zero_unchecked <p> | b_select <r> | b_select_zero <r>     -> <res> ; <log>
ui_default                                       -> ok ; uif:0
```
`ef`: the list goes through `EliasFanoBuilder::new(len, last or 0)`, `extend`, `build_with_seq_and_dict`
(`fc_new_with`: `build_with_dict`); model: `EF.build`.  `mock`: a logging implementor of the required
trait methods over the plain list (`DictImpl.ofList`, `BitsImpl.ofList`).  `<res>` is `ok <v>`,
`ok none`, `ok some <i> <x>`, `panic` or `oob`; `<log>` lists the required-method calls made, in
order (`.` = none; `-` for `ef`, which does not log).
-/
namespace Sux.Misc
open Sux.Proto

def fmtCall : Call → String
  | .len => "len"
  | .getU i => s!"gu:{i}"
  | .indexOf q => s!"io:{q}"
  | .succU s q => s!"su:{fmtBool s}:{q}"
  | .predU s q => s!"pu:{fmtBool s}:{q}"
  | .bitLen => "bl"
  | .numOnes => "no"
  | .countOnes => "co"
  | .rankU p => s!"ru:{p}"
  | .selU r => s!"s1:{r}"
  | .selZeroU r => s!"s0:{r}"
  | .uiterFrom k => s!"uif:{k}"

def fmtLog (l : List Call) : String :=
  if l.isEmpty then "." else " ".intercalate (l.map fmtCall)

def fmtRes {α : Type} (f : α → String) : Out α → String
  | .ok a => f a
  | .panic => "panic"
  | .oob => "oob"

def fmtTr {α : Type} (logged : Bool) (f : α → String) (t : Tr α) : String :=
  fmtRes f t.out ++ " ; " ++ (if logged then fmtLog t.log else "-")

def fmtNat (n : Nat) : String := s!"ok {n}"
def fmtB (b : Bool) : String := s!"ok {fmtBool b}"
def fmtOptPair : Option (Nat × Nat) → String
  | none => "ok none"
  | some (i, x) => s!"ok some {i} {x}"
def fmtOptNat : Option Nat → String
  | none => "ok none"
  | some p => s!"ok some {p}"

/-- the structure behind `fc_*` / `d_*`: required methods + whether it logs -/
structure Dict where
  impl : DictImpl
  logged : Bool

/-- `EliasFanoBuilder::new(len, last or 0)`, `extend`, `build_with_*` -/
def efOf (xs : List Nat) : Out EF.St :=
  EF.build xs.length (xs.getLast?.getD 0) xs

def mkDict (kind : String) (xs : List Nat) : Option (Out Dict) :=
  match kind with
  | "mock" => some (.ok ⟨DictImpl.ofList xs, true⟩)
  | "ef" => some ((efOf xs).bind fun s => .ok ⟨DictImpl.ofEF s, false⟩)
  | _ => none

inductive Bits where
  | plain (b : BitsImpl)
  | anb (a : AddNumBits)

structure RSt where
  fc : Option (Dict × FC) := none
  ss : Option SliceSeq := none
  dict : Option Dict := none
  bits : Option Bits := none

def flat : List (Nat × Nat) → List Nat
  | [] => []
  | (a, b) :: ps => a :: b :: flat ps

def fmtEnding : FC.Ending → String
  | .done => "done" | .more => "more" | .panic => "panic" | .oob => "oob"

def dictQuery (d : Dict) (toks : List String) : Option String :=
  let D := d.impl
  let lg := d.logged
  match toks with
  | ["d_len"] => some (fmtTr lg fmtNat D.lenT)
  | ["d_is_empty"] => some (fmtTr lg fmtB D.isEmpty)
  | ["d_get", i] => (parseNat i).map fun i => fmtTr lg fmtNat (D.get i)
  | ["d_contains", q] => (parseNat q).map fun q => fmtTr lg fmtB (D.contains q)
  | ["d_succ", q] => (parseNat q).map fun q => fmtTr lg fmtOptPair (D.succ q)
  | ["d_succ_strict", q] => (parseNat q).map fun q => fmtTr lg fmtOptPair (D.succStrict q)
  | ["d_pred", q] => (parseNat q).map fun q => fmtTr lg fmtOptPair (D.pred q)
  | ["d_pred_strict", q] => (parseNat q).map fun q => fmtTr lg fmtOptPair (D.predStrict q)
  | _ => none

def bitsQuery (b : Bits) (toks : List String) : Option String :=
  match b, toks with
  | .plain b, ["b_len"] => some (fmtTr true fmtNat b.lenT)
  | .plain b, ["b_num_ones"] => some (fmtTr true fmtNat b.numOnesT)
  | .plain b, ["b_count_ones"] => some (fmtTr true fmtNat b.countOnesT)
  | .plain b, ["b_num_zeros"] => some (fmtTr true fmtNat b.numZeros)
  | .plain b, ["b_count_zeros"] => some (fmtTr true fmtNat b.countZeros)
  | .plain b, ["b_rank", p] => (parseNat p).map fun p => fmtTr true fmtNat (b.rank p)
  | .plain b, ["b_rank_zero", p] => (parseNat p).map fun p => fmtTr true fmtNat (b.rankZero p)
  | .plain b, ["b_rank_zero_unchecked", p] => (parseNat p).map fun p => fmtTr true fmtNat (b.rankZeroU p)
  | .plain b, ["b_select", r] => (parseNat r).map fun r => fmtTr true fmtOptNat (b.select r)
  | .plain b, ["b_select_zero", r] => (parseNat r).map fun r => fmtTr true fmtOptNat (b.selectZero r)
  | .anb a, ["b_len"] => some (fmtTr true fmtNat a.len)
  | .anb a, ["b_num_ones"] => some (fmtTr true fmtNat a.numOnes)
  | .anb a, ["b_count_ones"] => some (fmtTr true fmtNat a.countOnes)
  | .anb a, ["b_num_zeros"] => some (fmtTr true fmtNat a.numZeros)
  | .anb a, ["b_count_zeros"] => some (fmtTr true fmtNat a.countZeros)
  | .anb a, ["b_rank", p] => (parseNat p).map fun p => fmtTr true fmtNat (a.rank p)
  | .anb a, ["b_rank_zero", p] => (parseNat p).map fun p => fmtTr true fmtNat (a.rankZero p)
  | .anb a, ["b_rank_zero_unchecked", p] => (parseNat p).map fun p => fmtTr true fmtNat (a.rankZeroU p)
  | .anb a, ["b_select", r] => (parseNat r).map fun r => fmtTr true fmtOptNat (a.select r)
  | .anb a, ["b_select_zero", r] => (parseNat r).map fun r => fmtTr true fmtOptNat (a.selectZero r)
  | _, _ => none

def ssQuery (s : SliceSeq) (toks : List String) : Option String :=
  match toks with
  | ["ss_len"] => some (fmtNat s.len)
  | ["ss_is_empty"] => some (fmtB s.isEmpty)
  | ["ss_iter"] | ["ss_into_iter"] => some s!"ok {fmtNatList s.iter}"
  | ["ss_get", i] => (parseNat i).map fun i => fmtRes fmtNat (s.get i)
  | ["ss_get_unchecked", i] => (parseNat i).map fun i => fmtRes fmtNat (s.getU i)
  | ["ss_into_iter_from", k] => (parseNat k).map fun k => s!"ok {fmtNatList (s.iterFrom k)}"
  | ["ss_eq", xs] => (parseNatList xs).map fun xs => fmtB (decide (s = SliceSeq.new xs))
  | _ => none

def isPrefixTok (p : String) (toks : List String) : Bool :=
  match toks with
  | t :: _ => t.startsWith p
  | [] => false

def step (r : RSt) (toks : List String) : RSt × String :=
  let bad := (r, "bad-op")
  match toks with
  | ["case", _] => ({}, "case")
  | ["fc_new", kind, t, cwf] =>
    match parseNat t, parseNatList cwf with
    | some t, some xs =>
      match mkDict kind xs with
      | some (.ok d) =>
        match FC.new d.impl.len (fun i => (d.impl.get i).out) t with
        | .ok fc => ({ r with fc := some (d, fc) }, "ok")
        | .panic => ({ r with fc := none }, "panic")
        | .oob => ({ r with fc := none }, "oob")
      | some .panic => ({ r with fc := none }, "panic")
      | some .oob => ({ r with fc := none }, "oob")
      | none => bad
    | _, _ => bad
  | ["fc_new_with", kind, t, cwf, nw, mw] =>
    match parseNat t, parseNatList cwf, parseNat nw, parseNat mw with
    | some t, some xs, some nw, some mw =>
      match mkDict kind xs with
      | some (.ok d) => ({ r with fc := some (d, FC.newWith t nw mw) }, "ok")
      | some .panic => ({ r with fc := none }, "panic")
      | some .oob => ({ r with fc := none }, "oob")
      | none => bad
    | _, _, _, _ => bad
  | ["fc_next"] =>
    match r.fc with
    | some (d, fc) =>
      match FC.next (d.impl.succU false) fc with
      | .ok (none, fc') => ({ r with fc := some (d, fc') }, "ok none")
      | .ok (some (a, b), fc') => ({ r with fc := some (d, fc') }, s!"ok {a} {b}")
      | .panic => (r, "panic")
      | .oob => (r, "oob")
    | none => (r, "nofc")
  | ["fc_collect", cap] =>
    match r.fc, parseNat cap with
    | some (d, fc), some cap =>
      let res := FC.drain (d.impl.succU false) cap fc
      ({ r with fc := some (d, res.2.2) }, s!"ok {fmtNatList (flat res.1)} {fmtEnding res.2.1}")
    | none, some _ => (r, "nofc")
    | _, _ => bad
  | ["fc_state"] =>
    match r.fc with
    | some (_, fc) =>
      (r, s!"ok {fc.target} {fc.currPos} {fc.currentWeight} {fc.numWeights} {fc.maxWeight}")
    | none => (r, "nofc")
  | ["ss_new", xs] =>
    match parseNatList xs with
    | some xs => ({ r with ss := some (SliceSeq.new xs) }, "ok")
    | none => bad
  | ["d_new", kind, xs] =>
    match parseNatList xs with
    | some xs =>
      match mkDict kind xs with
      | some (.ok d) => ({ r with dict := some d }, "ok")
      | some .panic => ({ r with dict := none }, "panic")
      | some .oob => ({ r with dict := none }, "oob")
      | none => bad
    | none => bad
  | ["b_new", kind, bits, n1, c1, k] =>
    match parseBoolString bits, parseNat n1, parseNat c1, parseNat k with
    | some bits, some n1, some c1, some k =>
      let b := BitsImpl.ofList bits n1 c1
      match kind with
      | "plain" => ({ r with bits := some (.plain b) }, "ok ; .")
      | "anb_raw" => ({ r with bits := some (.anb (AddNumBits.fromRaw b k)) }, "ok ; .")
      | "anb_from" =>
        let t := AddNumBits.ofBits b
        match t.out with
        | .ok a => ({ r with bits := some (.anb a) }, "ok ; " ++ fmtLog t.log)
        | _ => bad
      | _ => bad
    | _, _, _, _ => bad
  | ["ui_default"] =>
    (r, fmtTr true (fun (_ : Unit) => "ok") (intoUncheckedIter (fun _ => .ok ())))
  | _ =>
    if isPrefixTok "ss_" toks then
      match r.ss with
      | some s => match ssQuery s toks with
        | some rep => (r, rep) | none => bad
      | none => (r, "noss")
    else if isPrefixTok "d_" toks then
      match r.dict with
      | some d => match dictQuery d toks with
        | some rep => (r, rep) | none => bad
      | none => (r, "nodict")
    else if isPrefixTok "b_" toks then
      match r.bits with
      | some b => match bitsQuery b toks with
        | some rep => (r, rep) | none => bad
      | none => (r, "nobits")
    else bad

def runner : Runner := { σ := RSt, init := {}, step := step }

end Sux.Misc
