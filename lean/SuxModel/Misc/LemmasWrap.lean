import SuxModel.Misc.LemmasFC
/-!
# Closed forms of the trait default methods (result and call log)
-/
namespace Sux.Misc
open Sux.EF (addC subC)

theorem Tr.bind_ok {α β : Type} (a : α) (l : List Call) (f : α → Tr β) :
    (Tr.mk (.ok a) l >>= f) = ⟨(f a).out, l ++ (f a).log⟩ := rfl
theorem Tr.bind_panic {α β : Type} (l : List Call) (f : α → Tr β) :
    (Tr.mk (.panic : Out α) l >>= f) = ⟨.panic, l⟩ := rfl
theorem Tr.bind_oob {α β : Type} (l : List Call) (f : α → Tr β) :
    (Tr.mk (.oob : Out α) l >>= f) = ⟨.oob, l⟩ := rfl
theorem Tr.pure_eq {α : Type} (a : α) : (pure a : Tr α) = ⟨.ok a, []⟩ := rfl

/-- post-processing of the result of a call -/
def mapO {α β : Type} (g : α → β) (o : Out α) : Out β :=
  match o with
  | .ok a => .ok (g a)
  | .panic => .panic
  | .oob => .oob

/-- `Some(unsafe { self.…_unchecked(…) })` -/
def someOf {α : Type} (o : Out α) : Out (Option α) := mapO some o

theorem call_map {α β : Type} (c : Call) (o : Out α) (g : α → β) :
    (Tr.call c o >>= fun r => (pure (g r) : Tr β)) =
      ⟨mapO g o, [c]⟩ := by
  cases o <;> rfl

namespace DictImpl
variable (d : DictImpl)

theorem isEmpty_eq : d.isEmpty = ⟨.ok (d.len == 0), [.len]⟩ := rfl

theorem get_eq (i : Nat) :
    d.get i = if i < d.len then ⟨d.getU i, [.len, .getU i]⟩ else ⟨.panic, [.len, .len]⟩ := by
  unfold get lenT Tr.call
  rw [Tr.bind_ok]
  by_cases h : i < d.len
  · have : ¬ i ≥ d.len := by omega
    simp [h, this]
  · have : i ≥ d.len := by omega
    simp [h, this, Tr.bind_ok, Tr.fail]

theorem contains_eq (q : Nat) :
    d.contains q = ⟨mapO Option.isSome (d.indexOf q), [.indexOf q]⟩ := by
  unfold contains
  exact call_map (.indexOf q) (d.indexOf q) Option.isSome


theorem succ_eq (q : Nat) :
    d.succ q =
      if d.len = 0 then ⟨.ok none, [.len]⟩
      else match d.getU (d.len - 1) with
        | .ok last =>
          if q > last then ⟨.ok none, [.len, .len, .len, .getU (d.len - 1)]⟩
          else ⟨someOf (d.succU false q), [.len, .len, .len, .getU (d.len - 1), .succU false q]⟩
        | .panic => ⟨.panic, [.len, .len, .len, .getU (d.len - 1)]⟩
        | .oob => ⟨.oob, [.len, .len, .len, .getU (d.len - 1)]⟩ := by
  unfold succ
  rw [isEmpty_eq, Tr.bind_ok]
  by_cases h : d.len = 0
  · simp [h, Tr.pure_eq]
  · have hb : (d.len == 0) = false := by simpa using h
    have hlt : d.len - 1 < d.len := by omega
    have hs : subC d.len 1 = .ok (d.len - 1) := by unfold subC; rw [if_pos (by omega)]
    simp only [hb, if_neg h, lenT, Tr.call, Tr.lift, hs, Tr.bind_ok, get_eq, if_pos hlt]
    cases hg : d.getU (d.len - 1) with
    | ok last =>
      simp only [Tr.bind_ok]
      by_cases hq : q > last
      · simp [hq, Tr.pure_eq]
      · simp only [if_neg hq]
        cases d.succU false q <;> simp [someOf, mapO, Tr.bind_ok, Tr.bind_panic, Tr.bind_oob, Tr.pure_eq]
    | panic => simp [Tr.bind_panic]
    | oob => simp [Tr.bind_oob]

theorem succStrict_eq (q : Nat) :
    d.succStrict q =
      if d.len = 0 then ⟨.ok none, [.len]⟩
      else match d.getU (d.len - 1) with
        | .ok last =>
          if q ≥ last then ⟨.ok none, [.len, .len, .len, .getU (d.len - 1)]⟩
          else ⟨someOf (d.succU true q), [.len, .len, .len, .getU (d.len - 1), .succU true q]⟩
        | .panic => ⟨.panic, [.len, .len, .len, .getU (d.len - 1)]⟩
        | .oob => ⟨.oob, [.len, .len, .len, .getU (d.len - 1)]⟩ := by
  unfold succStrict
  rw [isEmpty_eq, Tr.bind_ok]
  by_cases h : d.len = 0
  · simp [h, Tr.pure_eq]
  · have hb : (d.len == 0) = false := by simpa using h
    have hlt : d.len - 1 < d.len := by omega
    have hs : subC d.len 1 = .ok (d.len - 1) := by unfold subC; rw [if_pos (by omega)]
    simp only [hb, if_neg h, lenT, Tr.call, Tr.lift, hs, Tr.bind_ok, get_eq, if_pos hlt]
    cases hg : d.getU (d.len - 1) with
    | ok last =>
      simp only [Tr.bind_ok]
      by_cases hq : q ≥ last
      · simp [hq, Tr.pure_eq]
      · simp only [if_neg hq]
        cases d.succU true q <;> simp [someOf, mapO, Tr.bind_ok, Tr.bind_panic, Tr.bind_oob, Tr.pure_eq]
    | panic => simp [Tr.bind_panic]
    | oob => simp [Tr.bind_oob]

theorem pred_eq (q : Nat) :
    d.pred q =
      if d.len = 0 then ⟨.ok none, [.len]⟩
      else match d.getU 0 with
        | .ok first =>
          if q < first then ⟨.ok none, [.len, .len, .getU 0]⟩
          else ⟨someOf (d.predU false q), [.len, .len, .getU 0, .predU false q]⟩
        | .panic => ⟨.panic, [.len, .len, .getU 0]⟩
        | .oob => ⟨.oob, [.len, .len, .getU 0]⟩ := by
  unfold pred
  rw [isEmpty_eq, Tr.bind_ok]
  by_cases h : d.len = 0
  · simp [h, Tr.pure_eq]
  · have hb : (d.len == 0) = false := by simpa using h
    have hlt : 0 < d.len := by omega
    simp only [hb, if_neg h, get_eq, if_pos hlt]
    cases hg : d.getU 0 with
    | ok first =>
      simp only [Tr.bind_ok]
      by_cases hq : q < first
      · simp [hq, Tr.pure_eq]
      · simp only [if_neg hq]
        cases d.predU false q <;> simp [someOf, mapO, Tr.call, Tr.bind_ok, Tr.bind_panic, Tr.bind_oob, Tr.pure_eq]
    | panic => simp [Tr.bind_panic]
    | oob => simp [Tr.bind_oob]

theorem predStrict_eq (q : Nat) :
    d.predStrict q =
      if d.len = 0 then ⟨.ok none, [.len]⟩
      else match d.getU 0 with
        | .ok first =>
          if q ≤ first then ⟨.ok none, [.len, .len, .getU 0]⟩
          else ⟨someOf (d.predU true q), [.len, .len, .getU 0, .predU true q]⟩
        | .panic => ⟨.panic, [.len, .len, .getU 0]⟩
        | .oob => ⟨.oob, [.len, .len, .getU 0]⟩ := by
  unfold predStrict
  rw [isEmpty_eq, Tr.bind_ok]
  by_cases h : d.len = 0
  · simp [h, Tr.pure_eq]
  · have hb : (d.len == 0) = false := by simpa using h
    have hlt : 0 < d.len := by omega
    simp only [hb, if_neg h, get_eq, if_pos hlt]
    cases hg : d.getU 0 with
    | ok first =>
      simp only [Tr.bind_ok]
      by_cases hq : q ≤ first
      · simp [hq, Tr.pure_eq]
      · simp only [if_neg hq]
        cases d.predU true q <;> simp [someOf, mapO, Tr.call, Tr.bind_ok, Tr.bind_panic, Tr.bind_oob, Tr.pure_eq]
    | panic => simp [Tr.bind_panic]
    | oob => simp [Tr.bind_oob]

end DictImpl

namespace BitsImpl
variable (b : BitsImpl)

theorem numZeros_eq : b.numZeros = ⟨subC b.bitLen b.numOnes, [.bitLen, .numOnes]⟩ := by
  unfold numZeros lenT numOnesT Tr.call Tr.lift
  rw [Tr.bind_ok, Tr.bind_ok]
  simp

theorem countZeros_eq : b.countZeros = ⟨subC b.bitLen b.countOnes, [.bitLen, .countOnes]⟩ := by
  unfold countZeros lenT countOnesT Tr.call Tr.lift
  rw [Tr.bind_ok, Tr.bind_ok]
  simp

theorem rank_eq (p : Nat) :
    b.rank p = if p ≥ b.bitLen then ⟨.ok b.numOnes, [.bitLen, .numOnes]⟩
      else ⟨b.rankU p, [.bitLen, .rankU p]⟩ := by
  unfold rank lenT numOnesT Tr.call
  rw [Tr.bind_ok]
  by_cases h : p ≥ b.bitLen <;> simp [h]

theorem rankZero_eq (p : Nat) :
    b.rankZero p = if p ≥ b.bitLen then ⟨subC p b.numOnes, [.bitLen, .numOnes]⟩
      else ⟨(b.rankU p).bind (subC p), [.bitLen, .rankU p]⟩ := by
  unfold rankZero
  rw [rank_eq]
  by_cases h : p ≥ b.bitLen
  · simp [h, Tr.bind_ok, Tr.lift]
  · simp only [if_neg h]
    cases b.rankU p <;> simp [Tr.bind_ok, Tr.bind_panic, Tr.bind_oob, Tr.lift, Out.bind]

theorem rankZeroU_eq (p : Nat) :
    b.rankZeroU p = ⟨(b.rankU p).bind (subC p), [.rankU p]⟩ := by
  unfold rankZeroU Tr.call
  cases b.rankU p <;> simp [Tr.bind_ok, Tr.bind_panic, Tr.bind_oob, Tr.lift, Out.bind]

theorem select_eq (r : Nat) :
    b.select r = if r ≥ b.numOnes then ⟨.ok none, [.numOnes]⟩
      else ⟨someOf (b.selU r), [.numOnes, .selU r]⟩ := by
  unfold select numOnesT Tr.call
  rw [Tr.bind_ok]
  by_cases h : r ≥ b.numOnes
  · simp [h, Tr.pure_eq]
  · simp only [if_neg h]
    cases b.selU r <;> simp [someOf, mapO, Tr.bind_ok, Tr.bind_panic, Tr.bind_oob, Tr.pure_eq]

theorem selectZero_eq (r : Nat) :
    b.selectZero r =
      if b.bitLen < b.numOnes then ⟨.panic, [.bitLen, .numOnes]⟩
      else if r ≥ b.bitLen - b.numOnes then ⟨.ok none, [.bitLen, .numOnes]⟩
      else ⟨someOf (b.selZeroU r), [.bitLen, .numOnes, .selZeroU r]⟩ := by
  unfold selectZero
  rw [numZeros_eq]
  unfold subC
  by_cases h : b.bitLen < b.numOnes
  · have : ¬ b.numOnes ≤ b.bitLen := by omega
    simp [h, this, Tr.bind_panic]
  · have h' : b.numOnes ≤ b.bitLen := by omega
    simp only [if_pos h', if_neg h, Tr.bind_ok]
    by_cases hr : r ≥ b.bitLen - b.numOnes
    · simp [hr, Tr.pure_eq]
    · simp only [if_neg hr, Tr.call]
      cases b.selZeroU r <;> simp [someOf, mapO, Tr.bind_ok, Tr.bind_panic, Tr.bind_oob, Tr.pure_eq]

end BitsImpl

namespace AddNumBits
variable (a : AddNumBits)

theorem ofBits_eq (b : BitsImpl) :
    AddNumBits.ofBits b = ⟨.ok { bits := b, numberOfOnes := b.countOnes }, [.countOnes]⟩ := rfl

theorem numZeros_eq : a.numZeros = ⟨subC a.bits.bitLen a.numberOfOnes, [.bitLen]⟩ := by
  unfold numZeros len numOnes BitsImpl.lenT Tr.call Tr.lift
  rw [Tr.bind_ok, Tr.pure_eq, Tr.bind_ok]
  simp

theorem countZeros_eq : a.countZeros = ⟨subC a.bits.bitLen a.numberOfOnes, [.bitLen]⟩ := by
  unfold countZeros len countOnes BitsImpl.lenT Tr.call Tr.lift
  rw [Tr.bind_ok, Tr.pure_eq, Tr.bind_ok]
  simp

end AddNumBits

/-! ## the reference bit implementor is inside its contract under every safe default -/

theorem selList_none_iff (v : Bool) : ∀ (bs : List Bool) (i r : Nat),
    selList v bs i r = none ↔ bs.countP (· == v) ≤ r := by
  intro bs
  induction bs with
  | nil => intro i r; simp [selList]
  | cons b bs ih =>
    intro i r
    by_cases hb : (b == v) = true
    · cases r with
      | zero => simp [selList, hb]
      | succ r =>
        have : (r + 1 == 0) = false := by simp
        simp only [selList, hb, if_true, List.countP_cons, this, Bool.false_eq_true, if_false,
          Nat.add_sub_cancel]
        rw [ih]; omega
    · simp only [selList, hb, Bool.false_eq_true, if_false, List.countP_cons, Nat.add_zero]
      exact ih _ _

theorem rankList_le (bits : List Bool) (p : Nat) : rankList bits p ≤ p := by
  unfold rankList
  exact Nat.le_trans (List.countP_le_length) (by simp; omega)

theorem rankList_le_total (bits : List Bool) (p : Nat) :
    rankList bits p ≤ rankList bits bits.length := by
  unfold rankList
  rw [List.take_length]
  exact (List.take_sublist p bits).countP_le

theorem rankList_ge_len (bits : List Bool) {p : Nat} (h : bits.length ≤ p) :
    rankList bits p = rankList bits bits.length := by
  unfold rankList
  rw [List.take_of_length_le h, List.take_length]

theorem count_true_add_false (bits : List Bool) :
    bits.countP (· == true) + bits.countP (· == false) = bits.length := by
  induction bits with
  | nil => rfl
  | cons b bs ih => cases b <;> simp_all <;> omega

/-! ## `EliasFano` inherits the generic default methods: the EF model's own definitions of
`get`/`contains`/`succ`/… (validated by runner `ef`) are instances of the generic ones -/

theorem ofEF_get (s : EF.St) (i : Nat) : ((DictImpl.ofEF s).get i).out = EF.get s i := by
  rw [DictImpl.get_eq]
  unfold EF.get
  by_cases h : i < (DictImpl.ofEF s).len
  · have h2 : i < s.n := h
    have h' : ¬ i ≥ s.n := by omega
    rw [if_pos h, if_neg h']
    rfl
  · have h2 : ¬ i < s.n := h
    have h' : i ≥ s.n := by omega
    rw [if_neg h, if_pos h']

theorem ofEF_contains (s : EF.St) (q : Nat) :
    ((DictImpl.ofEF s).contains q).out = EF.contains s q := by
  rw [DictImpl.contains_eq]
  unfold EF.contains
  simp only [DictImpl.ofEF]
  cases EF.indexOf s q <;> rfl


theorem ofEF_succ (s : EF.St) (q : Nat) : ((DictImpl.ofEF s).succ q).out = EF.succ s q := by
  rw [DictImpl.succ_eq]
  unfold EF.succ EF.get
  show (if s.n = 0 then _ else _ : Tr _).out = _
  by_cases h : s.n = 0
  · simp [h]
  · have hb : (s.n == 0) = false := by simpa using h
    have hlt : ¬ s.n - 1 ≥ s.n := by omega
    simp only [if_neg h, hb, Bool.false_eq_true, if_false, if_neg hlt]
    show (match EF.getU s (s.n - 1) with
      | .ok last => _ | .panic => _ | .oob => _ : Tr _).out = _
    cases EF.getU s (s.n - 1) with
    | ok last =>
      simp only [Out.bind_ok]
      by_cases hq : q > last
      · simp [hq]
      · simp only [if_neg hq]
        show someOf (EF.succU false s q) = _
        cases EF.succU false s q <;> rfl
    | panic => rfl
    | oob => rfl

theorem ofEF_succStrict (s : EF.St) (q : Nat) :
    ((DictImpl.ofEF s).succStrict q).out = EF.succStrict s q := by
  rw [DictImpl.succStrict_eq]
  unfold EF.succStrict EF.get
  show (if s.n = 0 then _ else _ : Tr _).out = _
  by_cases h : s.n = 0
  · simp [h]
  · have hb : (s.n == 0) = false := by simpa using h
    have hlt : ¬ s.n - 1 ≥ s.n := by omega
    simp only [if_neg h, hb, Bool.false_eq_true, if_false, if_neg hlt]
    show (match EF.getU s (s.n - 1) with
      | .ok last => _ | .panic => _ | .oob => _ : Tr _).out = _
    cases EF.getU s (s.n - 1) with
    | ok last =>
      simp only [Out.bind_ok]
      by_cases hq : q ≥ last
      · simp [hq]
      · simp only [if_neg hq]
        show someOf (EF.succU true s q) = _
        cases EF.succU true s q <;> rfl
    | panic => rfl
    | oob => rfl

theorem ofEF_pred (s : EF.St) (q : Nat) : ((DictImpl.ofEF s).pred q).out = EF.pred s q := by
  rw [DictImpl.pred_eq]
  unfold EF.pred EF.get
  show (if s.n = 0 then _ else _ : Tr _).out = _
  by_cases h : s.n = 0
  · simp [h]
  · have hb : (s.n == 0) = false := by simpa using h
    have hlt : ¬ 0 ≥ s.n := by omega
    simp only [if_neg h, hb, Bool.false_eq_true, if_false, if_neg hlt]
    show (match EF.getU s 0 with
      | .ok first => _ | .panic => _ | .oob => _ : Tr _).out = _
    cases EF.getU s 0 with
    | ok first =>
      simp only [Out.bind_ok]
      by_cases hq : q < first
      · simp [hq]
      · simp only [if_neg hq]
        show someOf (EF.predU false s q) = _
        cases EF.predU false s q <;> rfl
    | panic => rfl
    | oob => rfl

theorem ofEF_predStrict (s : EF.St) (q : Nat) :
    ((DictImpl.ofEF s).predStrict q).out = EF.predStrict s q := by
  rw [DictImpl.predStrict_eq]
  unfold EF.predStrict EF.get
  show (if s.n = 0 then _ else _ : Tr _).out = _
  by_cases h : s.n = 0
  · simp [h]
  · have hb : (s.n == 0) = false := by simpa using h
    have hlt : ¬ 0 ≥ s.n := by omega
    simp only [if_neg h, hb, Bool.false_eq_true, if_false, if_neg hlt]
    show (match EF.getU s 0 with
      | .ok first => _ | .panic => _ | .oob => _ : Tr _).out = _
    cases EF.getU s 0 with
    | ok first =>
      simp only [Out.bind_ok]
      by_cases hq : q ≤ first
      · simp [hq]
      · simp only [if_neg hq]
        show someOf (EF.predU true s q) = _
        cases EF.predU true s q <;> rfl
    | panic => rfl
    | oob => rfl

end Sux.Misc
