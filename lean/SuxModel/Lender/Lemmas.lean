import SuxModel.Lender.Model
/-!
# Generic lemmas: lenders as streams, rewindable lenders, `Take`
-/
namespace Sux.Lender

variable {σ ι : Type}

/-! ## the tail-recursive driver loops compute `drain` / `nexts` -/

theorem drainTR_eq (L : Ops σ ι) (f : Nat) (s : σ) (acc : List ι) :
    drainTR L f s acc = ((drain L f s).1, acc.reverse ++ (drain L f s).2) := by
  induction f generalizing s acc with
  | zero => simp [drainTR, drain]
  | succ f ih =>
    simp only [drainTR, drain]
    rcases h : L.next s with ⟨s', o⟩
    cases o with
    | none => simp
    | some x => simp [ih]

theorem drainTR_nil (L : Ops σ ι) (f : Nat) (s : σ) : drainTR L f s [] = drain L f s := by
  rw [drainTR_eq]; simp

theorem nextsTR_eq (L : Ops σ ι) (k : Nat) (s : σ) (acc : List (Option ι)) :
    nextsTR L k s acc = ((nexts L k s).1, acc.reverse ++ (nexts L k s).2) := by
  induction k generalizing s acc with
  | zero => simp [nextsTR, nexts]
  | succ k ih => simp [nextsTR, nexts, ih]

theorem nextsTR_nil (L : Ops σ ι) (k : Nat) (s : σ) : nextsTR L k s [] = nexts L k s := by
  rw [nextsTR_eq]; simp

/-! ## streams: `rem s` is the list of items the lender will still lend from state `s` -/

/-- `next` lends the head of `rem` and leaves its tail; after the last item it answers `None`
(and keeps doing so); `fuel` exceeds the number of items left -/
structure Stream (L : Ops σ ι) (rem : σ → List ι) : Prop where
  next_out : ∀ s, (L.next s).2 = (rem s).head?
  next_rem : ∀ s, rem (L.next s).1 = (rem s).tail
  fuel_ok : ∀ s, (rem s).length < L.fuel s

/-- a stream whose `rewind` restarts the fixed item list `all s`, which no operation changes -/
structure Refines (L : Ops σ ι) (all rem : σ → List ι) : Prop extends Stream L rem where
  next_all : ∀ s, all (L.next s).1 = all s
  rewind_rem : ∀ s, rem (L.rewind s) = all s
  rewind_all : ∀ s, all (L.rewind s) = all s

theorem Stream.drain_items {L : Ops σ ι} {rem : σ → List ι} (S : Stream L rem) :
    ∀ (f : Nat) (s : σ), (rem s).length < f → (drain L f s).2 = rem s := by
  intro f
  induction f with
  | zero => intro s h; omega
  | succ f ih =>
    intro s h
    have ho := S.next_out s
    have hr := S.next_rem s
    simp only [drain]
    rcases hn : L.next s with ⟨s', o⟩
    rw [hn] at ho hr
    simp only at ho hr
    cases hrem : rem s with
    | nil =>
      rw [hrem] at ho; simp only [List.head?_nil] at ho
      subst ho; rfl
    | cons x r =>
      rw [hrem] at ho hr h; simp only [List.head?_cons, List.tail_cons] at ho hr
      subst ho
      simp only
      rw [ih s' (by rw [hr]; simp only [List.length_cons] at h; omega), hr]

/-- more fuel than needed changes nothing (final state included): the pass ended on a `None` -/
theorem Stream.drain_fuel {L : Ops σ ι} {rem : σ → List ι} (S : Stream L rem) :
    ∀ (f g : Nat) (s : σ), (rem s).length < f → (rem s).length < g →
      drain L f s = drain L g s := by
  intro f
  induction f with
  | zero => intro g s h; omega
  | succ f ih =>
    intro g s hf hg
    cases g with
    | zero => omega
    | succ g =>
      have ho := S.next_out s
      have hr := S.next_rem s
      simp only [drain]
      rcases hn : L.next s with ⟨s', o⟩
      rw [hn] at ho hr
      simp only at ho hr
      cases o with
      | none => rfl
      | some x =>
        cases hrem : rem s with
        | nil => rw [hrem] at ho; simp at ho
        | cons y r =>
          rw [hrem] at hr hf hg
          simp only [List.tail_cons] at hr
          simp only [List.length_cons] at hf hg
          simp only
          rw [ih g s' (by rw [hr]; omega) (by rw [hr]; omega)]

theorem Stream.items_eq {L : Ops σ ι} {rem : σ → List ι} (S : Stream L rem) (s : σ) :
    items L s = rem s := S.drain_items _ s (S.fuel_ok s)

/-- `pass` is complete: any larger loop bound gives the same items and the same final state -/
theorem Stream.pass_complete {L : Ops σ ι} {rem : σ → List ι} (S : Stream L rem) (s : σ)
    (f : Nat) (h : L.fuel s ≤ f) : drain L f s = pass L s :=
  S.drain_fuel f (L.fuel s) s (Nat.lt_of_lt_of_le (S.fuel_ok s) h) (S.fuel_ok s)

/-- the `i`-th of `k` successive `next` calls lends the `i`-th remaining item, `None` past the end -/
theorem Stream.nexts_out {L : Ops σ ι} {rem : σ → List ι} (S : Stream L rem) :
    ∀ (k : Nat) (s : σ), (nexts L k s).2 = (List.range k).map (fun i => (rem s)[i]?) := by
  intro k
  induction k with
  | zero => intro s; rfl
  | succ k ih =>
    intro s
    simp only [nexts]
    rw [ih, S.next_out, S.next_rem, List.range_succ_eq_map, List.map_cons, List.map_map]
    congr 1
    · cases rem s <;> rfl
    · apply List.map_congr_left
      intro i _
      cases rem s <;> simp

theorem Refines.exec_all {L : Ops σ ι} {all rem : σ → List ι} (R : Refines L all rem) :
    ∀ (h : List Op) (s : σ), all (exec L h s) = all s := by
  intro h
  induction h with
  | nil => intro s; rfl
  | cons o h ih =>
    intro s
    cases o with
    | next => simp only [exec]; rw [ih, R.next_all]
    | rewind => simp only [exec]; rw [ih, R.rewind_all]

/-- generic form of `rewind_replays` -/
theorem Refines.rewind_replays {L : Ops σ ι} {all rem : σ → List ι} (R : Refines L all rem)
    (s0 : σ) (fresh : all s0 = rem s0) (h : List Op) :
    items L (L.rewind (exec L h s0)) = items L s0 := by
  rw [R.toStream.items_eq, R.toStream.items_eq, R.rewind_rem, R.exec_all, fresh]

/-! ## `Take` over a rewindable lender -/

/-- what a `Take` will still lend -/
def tRem (rem : σ → List ι) (t : Take σ) : List ι := (rem t.lender).take t.n

theorem take_stream {L : Ops σ ι} {rem : σ → List ι} (S : Stream L rem) :
    Stream (takeOps L) (tRem rem) where
  next_out := by
    intro t
    show (Take.next L t).2 = _
    unfold Take.next tRem
    by_cases hn : t.n = 0
    · simp [hn]
    · simp only [ne_eq, hn, not_false_eq_true, if_true, S.next_out, List.head?_take, if_false]
  next_rem := by
    intro t
    show tRem rem (Take.next L t).1 = _
    unfold Take.next tRem
    by_cases hn : t.n = 0
    · simp [hn]
    · simp only [ne_eq, hn, not_false_eq_true, if_true, S.next_rem]
      obtain ⟨m, hm⟩ : ∃ m, t.n = m + 1 := ⟨t.n - 1, by omega⟩
      rw [hm]
      cases rem t.lender <;> simp
  fuel_ok := by
    intro t
    show (tRem rem t).length < L.fuel t.lender
    have := S.fuel_ok t.lender
    unfold tRem
    rw [List.length_take]
    omega

theorem take_exec {L : Ops σ ι} {all rem : σ → List ι} (R : Refines L all rem) :
    ∀ (h : List Op) (t : Take σ),
      (exec (takeOps L) h t).n = t.n - calls h ∧
      all (exec (takeOps L) h t).lender = all t.lender := by
  intro h
  induction h with
  | nil => intro t; simp [exec, calls]
  | cons o h ih =>
    intro t
    cases o with
    | next =>
      simp only [exec]
      obtain ⟨h1, h2⟩ := ih ((takeOps L).next t).1
      rw [h1, h2]
      show (Take.next L t).1.n - calls h = _ ∧ all (Take.next L t).1.lender = _
      unfold Take.next
      have hc : calls (Op.next :: h) = calls h + 1 := by simp [calls]
      by_cases hn : t.n = 0
      · simp only [hn, ne_eq, not_true_eq_false, if_false]
        exact ⟨by omega, trivial⟩
      · simp only [ne_eq, hn, not_false_eq_true, if_true, R.next_all]
        exact ⟨by omega, trivial⟩
    | rewind =>
      simp only [exec]
      obtain ⟨h1, h2⟩ := ih ((takeOps L).rewind t)
      rw [h1, h2]
      show (Take.rewind L t).n - calls h = _ ∧ all (Take.rewind L t).lender = _
      have hc : calls (Op.rewind :: h) = calls h := by simp [calls]
      simp only [Take.rewind, Take.intoParts, Take.new, R.rewind_all, hc]
      exact ⟨trivial, trivial⟩

/-- the first pass of `l.take(n)` lends the first `n` items of `l` -/
theorem take_items {L : Ops σ ι} {all rem : σ → List ι} (R : Refines L all rem)
    (s0 : σ) (n : Nat) :
    items (takeOps L) (Take.new s0 n) = (items L s0).take n := by
  rw [(take_stream R.toStream).items_eq, R.toStream.items_eq]; rfl

/-- **what `rewind` of a `Take` really does**: the replay is cut at the *remaining* count, i.e.
the original count minus the number of `next` calls made so far (over all passes) -/
theorem take_rewind_items_aux {L : Ops σ ι} {all rem : σ → List ι} (R : Refines L all rem)
    (s0 : σ) (fresh : all s0 = rem s0) (n : Nat) (h : List Op) :
    items (takeOps L) ((takeOps L).rewind (exec (takeOps L) h (Take.new s0 n))) =
      (items L s0).take (n - calls h) := by
  rw [(take_stream R.toStream).items_eq, R.toStream.items_eq]
  obtain ⟨h1, h2⟩ := take_exec R h (Take.new s0 n)
  show tRem rem (Take.rewind L _) = _
  simp only [tRem, Take.rewind, Take.intoParts, Take.new, R.rewind_rem] at *
  rw [h1, h2, fresh]

theorem take_eq_take_iff_min {α : Type} (xs : List α) (a b : Nat) :
    xs.take a = xs.take b ↔ min a xs.length = min b xs.length := by
  constructor
  · intro h
    have := congrArg List.length h
    simpa [List.length_take] using this
  · intro h
    rw [← List.take_take_self_min a, ← List.take_take_self_min b, h]
where
  List.take_take_self_min {α : Type} {xs : List α} (a : Nat) :
      xs.take (min a xs.length) = xs.take a := by
    by_cases h : a ≤ xs.length
    · rw [Nat.min_eq_left h]
    · rw [Nat.min_eq_right (by omega), List.take_length, List.take_of_length_le (by omega)]

end Sux.Lender
