/-!
# Model of `src/utils/lenders.rs` (rewindable I/O lenders) and of `lender::Take` (lender 0.3.2)

Conventions (DESIGN §2.1): a byte is a `Nat` (the harness only sends values `< 256`), `&mut self`
methods return the new state, `rewind(self) -> Result<Self>` returns the new lender.

What is *not* in the model (trusted base of C20, see `Props/C20.lean`):

* `BufReader`, `Cursor`, `File`: a seekable byte source is the pair `(bytes, pos)`;
  `read_until` delivers the unread bytes up to and including the first LF; `seek(Start(0))`
  sets `pos := 0` and never fails; no I/O error ever occurs (so every `rewind` is `Ok`).
* zstd / flate2: the decoder is a **parameter** `dec : List Nat → List Nat` — the plain bytes a
  decoder produces when it is started on a given suffix of the compressed file.  The lenders only
  ever start it at offset 0 (`new` on a fresh reader, `rewind` after `seek(Start(0))`), so only
  `dec (file.drop 0)` is used.  Corrupt streams (decoder errors) are outside the model.
* the reusable `line: String` buffer and `FromIntoIterator::item` are scratch space whose content
  is overwritten by every `next`; they are not part of the state.
-/
namespace Sux.Lender

/-! ## Generic lender interface -/

/-- The operations of a `RewindableIoLender` on a state type `σ` lending items `ι`.
`hint` is the upper bound of `Lender::size_hint` (all lenders of `lenders.rs` use the default
`(0, None)`), `fuel` bounds the `while let Some(_) = l.next()` loop of `pass` (any number larger
than the number of items still to come). -/
structure Ops (σ ι : Type) where
  next : σ → σ × Option ι
  rewind : σ → σ
  hint : σ → Option Nat
  fuel : σ → Nat

variable {σ ι : Type}

/-- `k` successive calls of `next` (the calls go on after a `None`), with their answers -/
def nexts (L : Ops σ ι) : Nat → σ → σ × List (Option ι)
  | 0, s => (s, [])
  | k + 1, s =>
    let r := L.next s
    let rs := nexts L k r.1
    (rs.1, r.2 :: rs.2)

/-- `while let Some(x) = l.next() { out.push(x) }`, at most `fuel` calls of `next` -/
def drain (L : Ops σ ι) : Nat → σ → σ × List ι
  | 0, s => (s, [])
  | f + 1, s =>
    match L.next s with
    | (s', some x) => let r := drain L f s'; (r.1, x :: r.2)
    | (s', none) => (s', [])

/-- tail-recursive form of `drain` used by the driver (`drainTR_eq` in `Lemmas.lean`) -/
def drainTR (L : Ops σ ι) : Nat → σ → List ι → σ × List ι
  | 0, s, acc => (s, acc.reverse)
  | f + 1, s, acc =>
    match L.next s with
    | (s', some x) => drainTR L f s' (x :: acc)
    | (s', none) => (s', acc.reverse)

/-- tail-recursive form of `nexts` used by the driver (`nextsTR_eq` in `Lemmas.lean`) -/
def nextsTR (L : Ops σ ι) : Nat → σ → List (Option ι) → σ × List (Option ι)
  | 0, s, acc => (s, acc.reverse)
  | k + 1, s, acc =>
    let r := L.next s
    nextsTR L k r.1 (r.2 :: acc)

/-- a full pass: all items up to the first `None` -/
def pass (L : Ops σ ι) (s : σ) : σ × List ι := drain L (L.fuel s) s

/-- the items of a full pass -/
def items (L : Ops σ ι) (s : σ) : List ι := (pass L s).2

/-- one step of a consume/rewind history -/
inductive Op where
  | next
  | rewind
deriving DecidableEq, Repr

/-- state after a history of `next` / `rewind` calls (answers dropped) -/
def exec (L : Ops σ ι) : List Op → σ → σ
  | [], s => s
  | .next :: h, s => exec L h (L.next s).1
  | .rewind :: h, s => exec L h (L.rewind s)

/-- number of `next` calls in a history -/
def calls (h : List Op) : Nat := h.countP (· == Op.next)

/-! ## UTF-8 validity (what `str::from_utf8` accepts: RFC 3629 well-formed sequences) -/

def inRange (lo hi b : Nat) : Bool := lo ≤ b && b ≤ hi

/-- leading byte ≥ 0x80 → (number of continuation bytes, admissible range of the second byte) -/
def lead (b0 : Nat) : Option (Nat × Nat × Nat) :=
  if inRange 0xC2 0xDF b0 then some (1, 0x80, 0xBF)
  else if b0 = 0xE0 then some (2, 0xA0, 0xBF)
  else if inRange 0xE1 0xEC b0 then some (2, 0x80, 0xBF)
  else if b0 = 0xED then some (2, 0x80, 0x9F)
  else if inRange 0xEE 0xEF b0 then some (2, 0x80, 0xBF)
  else if b0 = 0xF0 then some (3, 0x90, 0xBF)
  else if inRange 0xF1 0xF3 b0 then some (3, 0x80, 0xBF)
  else if b0 = 0xF4 then some (3, 0x80, 0x8F)
  else none

/-- the validating automaton: `need` continuation bytes are still due, the next one must lie in
`[lo, hi]` (the ones after it in `[0x80, 0xBF]`) -/
def utf8Go : (need lo hi : Nat) → List Nat → Bool
  | need, _, _, [] => need == 0
  | 0, _, _, b :: r =>
    if b < 0x80 then utf8Go 0 0 0 r
    else
      match lead b with
      | some (n, lo, hi) => utf8Go n lo hi r
      | none => false
  | need + 1, lo, hi, b :: r =>
    if inRange lo hi b then utf8Go need 0x80 0xBF r else false

def utf8Valid (l : List Nat) : Bool := utf8Go 0 0 0 l

/-! ## `fn next(buf: &mut impl BufRead, line: &mut String)` over a byte source -/

/-- a seekable byte source: content and read position (`BufReader<File>`, `Cursor<Vec<u8>>`, or
the output side of a decoder) -/
structure Src where
  bytes : List Nat
  pos : Nat

def Src.unread (s : Src) : List Nat := s.bytes.drop s.pos

/-- what a line lender lends: `Some(Ok(&str))` (the bytes of the string) or `Some(Err(_))`
(`read_line` found invalid UTF-8) -/
inductive LItem where
  | ok (line : List Nat)
  | err
deriving DecidableEq, Repr

/-- `read_until(b'\n', …)`: the bytes appended to the line (LF included if there is one) -/
def readUntilLF (rest : List Nat) : List Nat :=
  let pre := rest.takeWhile (· != 10)
  match rest.dropWhile (· != 10) with
  | [] => pre
  | _ :: _ => pre ++ [10]

/-- `if line.ends_with('\n') { line.pop(); if line.ends_with('\r') { line.pop(); } }` -/
def stripEol (raw : List Nat) : List Nat :=
  if raw.getLast? = some 10 then
    let l := raw.dropLast
    if l.getLast? = some 13 then l.dropLast else l
  else raw

/-- `read_line` = `read_until` + UTF-8 check of the appended bytes; then the terminator is removed -/
def finish (raw : List Nat) : LItem :=
  if utf8Valid raw then .ok (stripEol raw) else .err

/-- the shared `fn next`: `Ok(0)` ⇒ `None`; the bytes of the line are consumed also when the
UTF-8 check fails -/
def Src.next (s : Src) : Src × Option LItem :=
  let raw := readUntilLF s.unread
  if raw.length = 0 then (s, none)
  else ({ s with pos := s.pos + raw.length }, some (finish raw))

/-- `seek(SeekFrom::Start(0))` -/
def Src.seek0 (s : Src) : Src := { s with pos := 0 }

/-! ## `LineLender<B>` -/

structure LineLender where
  buf : Src

def LineLender.new (bytes : List Nat) : LineLender := ⟨⟨bytes, 0⟩⟩

def LineLender.next (l : LineLender) : LineLender × Option LItem :=
  let r := l.buf.next
  (⟨r.1⟩, r.2)

/-- `self.buf.seek(io::SeekFrom::Start(0))` -/
def LineLender.rewind (l : LineLender) : LineLender := ⟨l.buf.seek0⟩

def lineOps : Ops LineLender LItem where
  next := LineLender.next
  rewind := LineLender.rewind
  hint := fun _ => none
  fuel := fun l => l.buf.unread.length + 1

/-! ## `ZstdLineLender<R>` / `GzipLineLender<R>` (identical up to the decoder) -/

/-- `file`: the compressed bytes of the underlying reader; `dec`: the decoder (parameter);
`buf`: `BufReader<Decoder<…>>`, i.e. the decoded stream and the position in it -/
structure CLender where
  file : List Nat
  dec : List Nat → List Nat
  buf : Src

/-- decoder created on the reader positioned at `off` -/
def CLender.decodeFrom (file : List Nat) (dec : List Nat → List Nat) (off : Nat) : Src :=
  ⟨dec (file.drop off), 0⟩

/-- `new(read)` on a reader positioned at 0 -/
def CLender.new (file : List Nat) (dec : List Nat → List Nat) : CLender :=
  ⟨file, dec, CLender.decodeFrom file dec 0⟩

def CLender.next (c : CLender) : CLender × Option LItem :=
  let r := c.buf.next
  ({ c with buf := r.1 }, r.2)

/-- `read.seek(io::SeekFrom::Start(0))?; self.buf = BufReader::new(Decoder::…(read))` -/
def CLender.rewind (c : CLender) : CLender :=
  { c with buf := CLender.decodeFrom c.file c.dec 0 }

def compOps : Ops CLender LItem where
  next := CLender.next
  rewind := CLender.rewind
  hint := fun _ => none
  fuel := fun c => c.buf.unread.length + 1

/-! ## `FromIntoIterator<I>` over a list -/

structure FromIter (α : Type) where
  intoIter : List α
  iter : List α

/-- `From<I>::from` -/
def FromIter.from {α : Type} (xs : List α) : FromIter α := ⟨xs, xs⟩

def FromIter.next {α : Type} (f : FromIter α) : FromIter α × Option α :=
  match f.iter with
  | [] => (f, none)
  | x :: r => ({ f with iter := r }, some x)

/-- `self.iter = self.into_iter.clone().into_iter()` -/
def FromIter.rewind {α : Type} (f : FromIter α) : FromIter α := { f with iter := f.intoIter }

def iterOps (α : Type) : Ops (FromIter α) α where
  next := FromIter.next
  rewind := FromIter.rewind
  hint := fun _ => none
  fuel := fun f => f.iter.length + 1

/-! ## `lender::Take<L>` (lender-0.3.2 `src/adapters/take.rs`) and its `RewindableIoLender` impl -/

structure Take (σ : Type) where
  lender : σ
  n : Nat

/-- `Lender::take` -/
def Take.new (l : σ) (n : Nat) : Take σ := ⟨l, n⟩

/-- `into_parts` returns the inner lender and the **remaining** count -/
def Take.intoParts (t : Take σ) : σ × Nat := (t.lender, t.n)

/-- `if self.n != 0 { self.n -= 1; self.lender.next() } else { None }` -/
def Take.next (L : Ops σ ι) (t : Take σ) : Take σ × Option ι :=
  if t.n ≠ 0 then
    let r := L.next t.lender
    (⟨r.1, t.n - 1⟩, r.2)
  else (t, none)

/-- `let (lender, n) = self.into_parts(); lender.rewind().map(|lender| lender.take(n))` -/
def Take.rewind (L : Ops σ ι) (t : Take σ) : Take σ :=
  let p := t.intoParts
  Take.new (L.rewind p.1) p.2

/-- upper bound of `Take::size_hint` -/
def Take.hint (L : Ops σ ι) (t : Take σ) : Option Nat :=
  if t.n = 0 then some 0
  else
    match L.hint t.lender with
    | some x => if x < t.n then some x else some t.n
    | none => some t.n

def takeOps (L : Ops σ ι) : Ops (Take σ) ι where
  next := Take.next L
  rewind := Take.rewind L
  hint := Take.hint L
  fuel := fun t => L.fuel t.lender

end Sux.Lender
