import SuxModel.Lender.Lemmas
import SuxModel.Lender.Spec
/-!
# The line reader against `splitLines`; the four base lenders are rewindable streams
-/
namespace Sux.Lender

/-! ## UTF-8: a trailing LF does not change validity -/

theorem lead_lo {b0 n lo hi : Nat} (h : lead b0 = some (n, lo, hi)) : 0x80 ≤ lo := by
  unfold lead at h
  repeat' split at h
  all_goals simp_all
  all_goals omega

theorem utf8Go_append_lf (l : List Nat) : ∀ (need lo hi : Nat), (0 < need → 0x80 ≤ lo) →
    utf8Go need lo hi (l ++ [10]) = utf8Go need lo hi l := by
  induction l with
  | nil =>
    intro need lo hi h
    cases need with
    | zero => simp [utf8Go]
    | succ k =>
      have := h (by omega)
      simp [utf8Go, inRange]; omega
  | cons b r ih =>
    intro need lo hi h
    cases need with
    | zero =>
      simp only [List.cons_append, utf8Go]
      split
      · exact ih 0 0 0 (by omega)
      · split
        · next n lo' hi' hl => exact ih n lo' hi' (fun _ => lead_lo hl)
        · rfl
    | succ k =>
      simp only [List.cons_append, utf8Go]
      split
      · exact ih k 0x80 0xBF (fun _ => Nat.le_refl _)
      · rfl

theorem utf8Valid_append_lf (l : List Nat) : utf8Valid (l ++ [10]) = utf8Valid l :=
  utf8Go_append_lf l 0 0 0 (by omega)

/-! ## `read_until` -/

theorem readUntilLF_nil : readUntilLF [] = [] := rfl

theorem readUntilLF_lf (t : List Nat) : readUntilLF (10 :: t) = [10] := by
  simp [readUntilLF]

theorem readUntilLF_cons {b : Nat} (h : b ≠ 10) (t : List Nat) :
    readUntilLF (b :: t) = b :: readUntilLF t := by
  have hb : (b != 10) = true := by simpa using h
  simp only [readUntilLF, List.takeWhile_cons, List.dropWhile_cons, hb, if_true]
  split <;> simp

theorem readUntilLF_ne_nil {rest : List Nat} (h : rest ≠ []) : readUntilLF rest ≠ [] := by
  cases rest with
  | nil => exact absurd rfl h
  | cons b t =>
    by_cases hb : b = 10
    · subst hb; rw [readUntilLF_lf]; simp
    · rw [readUntilLF_cons hb]; simp

/-! ## the specification function -/

theorem splitLines_eq_nil {bs : List Nat} : splitLines bs = [] ↔ bs = [] := by
  cases bs with
  | nil => simp [splitLines]
  | cons b t =>
    simp only [splitLines]
    split
    · simp
    · split <;> simp

/-- no line contains an LF -/
theorem splitLines_noLF (bs : List Nat) : ∀ p ∈ splitLines bs, 10 ∉ p.1 := by
  induction bs with
  | nil => intro p hp; simp [splitLines] at hp
  | cons b t ih =>
    intro p hp
    simp only [splitLines] at hp
    split at hp
    · rcases List.mem_cons.mp hp with h | h
      · subst h; simp
      · exact ih p h
    · next hb =>
      split at hp
      · simp only [List.mem_singleton] at hp
        subst hp
        simp only [List.mem_singleton]
        exact fun h => hb h.symm
      · next l t' ls heq =>
        rcases List.mem_cons.mp hp with h | h
        · subst h
          have := ih (l, t') (by rw [heq]; exact List.mem_cons_self)
          simp only [List.mem_cons, not_or]
          exact ⟨fun h => hb h.symm, this⟩
        · exact ih p (by rw [heq]; exact List.mem_cons_of_mem _ h)

/-- the lines, each flagged one followed by an LF, make up the file -/
theorem splitLines_join (bs : List Nat) : ((splitLines bs).map rawLine).flatten = bs := by
  induction bs with
  | nil => simp [splitLines]
  | cons b t ih =>
    simp only [splitLines]
    split
    · next hb => subst hb; simp [rawLine, ih]
    · split
      · next heq =>
        have := splitLines_eq_nil.mp heq
        subst this
        simp [rawLine]
      · next l t' ls heq =>
        rw [heq] at ih
        simp only [List.map_cons, List.flatten_cons, rawLine] at ih ⊢
        rw [← ih]; simp

/-- only the last line can lack its LF, and then it is not empty -/
theorem splitLines_flags (bs : List Nat) :
    (∀ p ∈ (splitLines bs).dropLast, p.2 = true) ∧
    (∀ l, (splitLines bs).getLast? = some (l, false) → l ≠ []) := by
  induction bs with
  | nil => simp [splitLines]
  | cons b t ih =>
    simp only [splitLines]
    split
    · -- an LF: a new flagged empty line in front
      constructor
      · intro p hp
        cases hs : splitLines t with
        | nil => rw [hs] at hp; simp at hp
        | cons q qs =>
          rw [hs, List.dropLast_cons_of_ne_nil (by simp)] at hp
          rcases List.mem_cons.mp hp with h | h
          · subst h; rfl
          · exact ih.1 p (by rw [hs]; exact h)
      · intro l hl
        cases hs : splitLines t with
        | nil => rw [hs] at hl; simp at hl
        | cons q qs =>
          rw [hs, List.getLast?_cons_cons] at hl
          exact ih.2 l (by rw [hs]; exact hl)
    · split
      · constructor
        · intro p hp; simp at hp
        · intro l hl
          simp only [List.getLast?_singleton, Option.some.injEq, Prod.mk.injEq] at hl
          rw [← hl.1]; simp
      · next l' t' ls heq =>
        rw [heq] at ih
        constructor
        · intro p hp
          cases ls with
          | nil => simp at hp
          | cons q qs =>
            rw [List.dropLast_cons_of_ne_nil (by simp)] at hp
            have ih1 := ih.1
            rw [List.dropLast_cons_of_ne_nil (by simp)] at ih1
            rcases List.mem_cons.mp hp with h | h
            · subst h
              exact ih1 (l', t') List.mem_cons_self
            · exact ih1 p (List.mem_cons_of_mem _ h)
        · intro l hl
          cases ls with
          | nil =>
            simp only [List.getLast?_singleton, Option.some.injEq, Prod.mk.injEq] at hl
            rw [← hl.1]; simp
          | cons q qs =>
            rw [List.getLast?_cons_cons] at hl
            exact ih.2 l (by rw [List.getLast?_cons_cons]; exact hl)

theorem splitLines_length_le (bs : List Nat) : (splitLines bs).length ≤ bs.length := by
  induction bs with
  | nil => simp [splitLines]
  | cons b t ih =>
    simp only [splitLines]
    split
    · simp only [List.length_cons]; omega
    · split
      · simp
      · next heq =>
        rw [heq] at ih
        simp only [List.length_cons] at ih ⊢
        omega

/-- one `read_until` takes exactly the first line of the unread bytes -/
theorem splitLines_step (rest : List Nat) (h : rest ≠ []) :
    ∃ p ps, splitLines rest = p :: ps ∧ readUntilLF rest = rawLine p ∧
      splitLines (rest.drop (rawLine p).length) = ps := by
  induction rest with
  | nil => exact absurd rfl h
  | cons b t ih =>
    by_cases hb : b = 10
    · subst hb
      refine ⟨([], true), splitLines t, by simp [splitLines], by simp [readUntilLF_lf, rawLine], ?_⟩
      simp [rawLine]
    · by_cases ht : t = []
      · subst ht
        refine ⟨([b], false), [], by simp [splitLines, hb], ?_, ?_⟩
        · rw [readUntilLF_cons hb, readUntilLF_nil]; simp [rawLine]
        · simp [rawLine, splitLines]
      · obtain ⟨p, ps, h1, h2, h3⟩ := ih ht
        obtain ⟨l, f⟩ := p
        refine ⟨(b :: l, f), ps, by simp [splitLines, hb, h1], ?_, ?_⟩
        · rw [readUntilLF_cons hb, h2]; simp [rawLine]
        · simp only [rawLine, List.cons_append, List.length_cons, List.drop_succ_cons] at h3 ⊢
          exact h3

theorem finish_rawLine (p : List Nat × Bool) (h : 10 ∉ p.1) : finish (rawLine p) = specItem p := by
  obtain ⟨l, f⟩ := p
  cases f with
  | true =>
    simp only [finish, rawLine, if_true, specItem, utf8Valid_append_lf, stripEol,
      List.getLast?_concat, List.dropLast_concat, stripCR]
  | false =>
    have hl : l.getLast? ≠ some 10 := by
      intro hc
      exact h (List.mem_of_getLast? hc)
    simp only [finish, rawLine, Bool.false_eq_true, if_false, List.append_nil, specItem,
      stripEol, hl]

/-! ## the byte source as a stream of `specItems` -/

/-- the items still to come from a source -/
def srcRem (s : Src) : List LItem := specItems s.unread

theorem Src.next_bytes (s : Src) : s.next.1.bytes = s.bytes := by
  unfold Src.next
  simp only
  split <;> rfl

theorem Src.next_out (s : Src) : s.next.2 = (srcRem s).head? := by
  unfold Src.next srcRem specItems
  simp only
  by_cases hr : s.unread = []
  · simp [hr, readUntilLF_nil, splitLines]
  · obtain ⟨p, ps, h1, h2, _⟩ := splitLines_step s.unread hr
    have hne : (readUntilLF s.unread).length ≠ 0 := by
      have := readUntilLF_ne_nil hr
      intro h0
      exact this (List.eq_nil_of_length_eq_zero h0)
    have hp : 10 ∉ p.1 := splitLines_noLF s.unread p (by rw [h1]; exact List.mem_cons_self)
    rw [if_neg hne]
    simp only [h1, List.map_cons, List.head?_cons, h2, finish_rawLine p hp]

theorem Src.next_rem (s : Src) : srcRem s.next.1 = (srcRem s).tail := by
  unfold Src.next srcRem specItems
  simp only
  by_cases hr : s.unread = []
  · simp [hr, readUntilLF_nil, splitLines]
  · obtain ⟨p, ps, h1, h2, h3⟩ := splitLines_step s.unread hr
    have hne : (readUntilLF s.unread).length ≠ 0 := by
      have := readUntilLF_ne_nil hr
      intro h0
      exact this (List.eq_nil_of_length_eq_zero h0)
    rw [if_neg hne]
    simp only [h1, List.map_cons, List.tail_cons]
    show List.map specItem (splitLines (List.drop (s.pos + (readUntilLF s.unread).length) s.bytes)) = _
    rw [← List.drop_drop, h2]
    show List.map specItem (splitLines (List.drop (rawLine p).length s.unread)) = _
    rw [h3]

theorem srcRem_length_lt (s : Src) : (srcRem s).length < s.unread.length + 1 := by
  unfold srcRem specItems
  rw [List.length_map]
  have := splitLines_length_le s.unread
  omega

theorem srcRem_fresh (bytes : List Nat) : srcRem ⟨bytes, 0⟩ = specItems bytes := by
  simp [srcRem, Src.unread]

/-! ## the base lenders are rewindable streams -/

theorem line_refines :
    Refines lineOps (fun l => specItems l.buf.bytes) (fun l => srcRem l.buf) where
  next_out := fun l => Src.next_out l.buf
  next_rem := fun l => Src.next_rem l.buf
  fuel_ok := fun l => srcRem_length_lt l.buf
  next_all := fun l => congrArg specItems (Src.next_bytes l.buf)
  rewind_rem := fun l => srcRem_fresh l.buf.bytes
  rewind_all := fun _ => rfl

theorem comp_refines :
    Refines compOps (fun c => specItems (c.dec (c.file.drop 0))) (fun c => srcRem c.buf) where
  next_out := fun c => Src.next_out c.buf
  next_rem := fun c => Src.next_rem c.buf
  fuel_ok := fun c => srcRem_length_lt c.buf
  next_all := fun _ => rfl
  rewind_rem := fun _ => srcRem_fresh _
  rewind_all := fun _ => rfl

theorem iter_refines (α : Type) :
    Refines (iterOps α) (fun f => f.intoIter) (fun f => f.iter) where
  next_out := by
    intro f
    show (FromIter.next f).2 = _
    unfold FromIter.next
    split <;> simp [*]
  next_rem := by
    intro f
    show (FromIter.next f).1.iter = _
    unfold FromIter.next
    split <;> simp [*]
  fuel_ok := fun f => Nat.lt_succ_self _
  next_all := by
    intro f
    show (FromIter.next f).1.intoIter = _
    unfold FromIter.next
    split <;> rfl
  rewind_rem := fun _ => rfl
  rewind_all := fun _ => rfl

end Sux.Lender
