import SuxModel.Lender.Model
/-!
# Specification of the items of a line lender (independent of the reader state machine)

`splitLines bytes` is the list of text lines of a file: the maximal LF-free pieces, each with a
flag saying whether an LF closes it.  What follows the last LF is a line only if it is non-empty,
and it is the only line whose flag can be `false`.  The function is characterised declaratively in
`LemmasLines.lean`:

* `splitLines_noLF`  : no line contains an LF;
* `splitLines_join`  : gluing the lines back, each flagged line followed by an LF, gives the file;
* `splitLines_flags` : only the last line can be unflagged, and then it is not empty.

The terminator of a line is LF or CRLF: one CR before the closing LF is removed.  A final line
that lacks the LF has no terminator, so a CR at its end belongs to it (that is what
`line.ends_with('\n')` guarding the two `pop`s does).
-/
namespace Sux.Lender

/-- the lines of a file, without their LF, and whether an LF closes them -/
def splitLines : List Nat → List (List Nat × Bool)
  | [] => []
  | b :: bs =>
    if b = 10 then ([], true) :: splitLines bs
    else
      match splitLines bs with
      | [] => [([b], false)]
      | (l, t) :: ls => (b :: l, t) :: ls

/-- remove one trailing CR -/
def stripCR (l : List Nat) : List Nat :=
  if l.getLast? = some 13 then l.dropLast else l

/-- the item a line must be lent as: its bytes without the terminator, or an error if they are
not UTF-8 -/
def specItem (p : List Nat × Bool) : LItem :=
  if utf8Valid p.1 then .ok (if p.2 then stripCR p.1 else p.1) else .err

/-- the items of one full pass over a file -/
def specItems (bytes : List Nat) : List LItem := (splitLines bytes).map specItem

/-- a line as it stands in the file -/
def rawLine (p : List Nat × Bool) : List Nat := p.1 ++ (if p.2 then [10] else [])

end Sux.Lender
