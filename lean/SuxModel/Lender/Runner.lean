import SuxModel.Base.Proto
import SuxModel.Lender.Model
/-!
# Protocol runner `lender` (C20; the lender laws used by C17 / C07)

One lender per case.  Bytes travel as lower-case hex (`-` = empty), `u64` items as `[a,b,c]`.

```
case <id>                                            -> case
src lines <mem|file> <hex>                           -> ok     LineLender over Cursor / temp file
src gzip  <mem|file> <plainhex> <comphex>            -> ok     GzipLineLender over <comphex>
src zstd  <mem|file> <plainhex> <comphex>            -> ok     ZstdLineLender over <comphex>
src iter  [a,b,c]                                    -> ok     FromIntoIterator::from(vec)
src take_lines <n> <mem|file> <hex>                  -> ok     LineLender(..).take(n)
src take_gzip|take_zstd <n> <mem|file> <plainhex> <comphex>
src take_iter  <n> [a,b,c]
next <k>        k calls of `next` (they go on after a `None`)  -> ok <e1> … <ek>
all             `next` until the first `None`                   -> ok <e1> … <en> end
rewind          `rewind()` of a lender that is not a Take       -> ok
take_rewind     `rewind()` of a Take                            -> ok <upper bound of size_hint()>
```
Entries: `s:<hex>` = `Some(Ok(line))`, `e` = `Some(Err(_))`, `n:<dec>` = `Some(Ok(&v))`,
`end` = `None`.  Any of the last four ops before a `src` answers `nosrc`.  (`rewind` and
`take_rewind` are the same call; the two names only label the receiver for the known finding
D18, the reply depends on the lender alone.)

`<mem|file>` (the backing store of the real lender; also `path` / `fd` = the convenience
constructors `from_path` / `from_file`) is ignored by the model.  `src iterx <kind> [..]` and
`src take_iterx <n> <kind> [..]` are `iter` / `take_iter` over another clonable `IntoIterator`
(`vec deque boxed btree range repeat`) holding exactly the listed items.  For the compressed
kinds the decoder parameter of the model is instantiated by the table `{<comphex> ↦ <plainhex>}`
of the op line: `<plainhex>` is the text the harness compressed into `<comphex>`.
-/
namespace Sux.Lender
open Sux.Proto

def hexVal (c : UInt8) : Option Nat :=
  if 48 ≤ c ∧ c ≤ 57 then some (c.toNat - 48)
  else if 97 ≤ c ∧ c ≤ 102 then some (c.toNat - 87)
  else none

/-- bytes `0 .. i-1` of the hex string, prepended to `acc` (built from the back, no reversal) -/
def parseHexAux (b : ByteArray) : Nat → List Nat → Option (List Nat)
  | 0, acc => some acc
  | i + 1, acc =>
    match hexVal (b.get! (2 * i)), hexVal (b.get! (2 * i + 1)) with
    | some x, some y => parseHexAux b i ((16 * x + y) :: acc)
    | _, _ => none

def parseHex (s : String) : Option (List Nat) :=
  if s == "-" then some []
  else
    let b := s.toUTF8
    if b.size % 2 = 0 then parseHexAux b (b.size / 2) [] else none

def hexDigit (n : Nat) : Char :=
  if n < 10 then Char.ofNat (48 + n) else Char.ofNat (87 + n)

def fmtHexInto (acc : String) (bs : List Nat) : String :=
  bs.foldl (fun a b => (a.push (hexDigit (b / 16 % 16))).push (hexDigit (b % 16))) acc

def fmtHex (bs : List Nat) : String := fmtHexInto "" bs

def fmtLItem : LItem → String
  | .ok l => "s:" ++ fmtHex l
  | .err => "e"

def fmtNItem (v : Nat) : String := s!"n:{v}"

def okWith (es : List String) : String := " ".intercalate ("ok" :: es)

inductive LSt where
  | none
  | lines (l : LineLender)
  | comp (c : CLender)
  | iter (f : FromIter Nat)
  | tlines (t : Take LineLender)
  | tcomp (t : Take CLender)
  | titer (t : Take (FromIter Nat))

/-- the ops on an existing lender -/
def cmd {σ ι : Type} (L : Ops σ ι) (fmt : ι → String) (s : σ) (toks : List String) :
    Option (σ × String) :=
  match toks with
  | ["next", k] =>
    match parseNat k with
    | some k =>
      let r := nextsTR L k s []
      some (r.1, okWith (r.2.map fun o => match o with | some x => fmt x | none => "end"))
    | none => none
  | ["all"] =>
    let r := drainTR L (L.fuel s) s []
    some (r.1, okWith (r.2.map fmt ++ ["end"]))
  | ["rewind"] | ["take_rewind"] =>
    let s' := L.rewind s
    some (s', match L.hint s' with | some n => s!"ok {n}" | none => "ok")
  | _ => none

/-- the decoder parameter instantiated by the table of the op line -/
def tableDec (comp plain : List Nat) : List Nat → List Nat :=
  fun c => if c = comp then plain else []

def mkSrc (toks : List String) : Option LSt :=
  match toks with
  | ["lines", _, h] => (parseHex h).map fun b => .lines (LineLender.new b)
  | ["gzip", _, p, c] | ["zstd", _, p, c] =>
    match parseHex p, parseHex c with
    | some p, some c => some (.comp (CLender.new c (tableDec c p)))
    | _, _ => none
  | ["iter", xs] => (parseNatList xs).map fun xs => .iter (FromIter.from xs)
  -- `FromIntoIterator` over another clonable `IntoIterator` (named by the second token) that holds
  -- exactly these items: the adapter is generic, the model is the same
  | ["iterx", _, xs] => (parseNatList xs).map fun xs => .iter (FromIter.from xs)
  | ["take_iterx", n, _, xs] =>
    match parseNat n, parseNatList xs with
    | some n, some xs => some (.titer (Take.new (FromIter.from xs) n))
    | _, _ => none
  | ["take_lines", n, _, h] =>
    match parseNat n, parseHex h with
    | some n, some b => some (.tlines (Take.new (LineLender.new b) n))
    | _, _ => none
  | ["take_gzip", n, _, p, c] | ["take_zstd", n, _, p, c] =>
    match parseNat n, parseHex p, parseHex c with
    | some n, some p, some c => some (.tcomp (Take.new (CLender.new c (tableDec c p)) n))
    | _, _, _ => none
  | ["take_iter", n, xs] =>
    match parseNat n, parseNatList xs with
    | some n, some xs => some (.titer (Take.new (FromIter.from xs) n))
    | _, _ => none
  | _ => none

def isCmd (toks : List String) : Bool :=
  match toks with
  | ["next", k] => (parseNat k).isSome
  | ["all"] | ["rewind"] | ["take_rewind"] => true
  | _ => false

def step (st : LSt) (toks : List String) : LSt × String :=
  let bad := (st, "bad-op")
  match toks with
  | ["case", _] => (.none, "case")
  | "src" :: rest =>
    match mkSrc rest with
    | some s => (s, "ok")
    | none => bad
  | _ =>
    match st with
    | .none => if isCmd toks then (st, "nosrc") else bad
    | .lines l => match cmd lineOps fmtLItem l toks with
      | some (l, r) => (.lines l, r) | none => bad
    | .comp c => match cmd compOps fmtLItem c toks with
      | some (c, r) => (.comp c, r) | none => bad
    | .iter f => match cmd (iterOps Nat) fmtNItem f toks with
      | some (f, r) => (.iter f, r) | none => bad
    | .tlines t => match cmd (takeOps lineOps) fmtLItem t toks with
      | some (t, r) => (.tlines t, r) | none => bad
    | .tcomp t => match cmd (takeOps compOps) fmtLItem t toks with
      | some (t, r) => (.tcomp t, r) | none => bad
    | .titer t => match cmd (takeOps (iterOps Nat)) fmtNItem t toks with
      | some (t, r) => (.titer t, r) | none => bad

def runner : Runner := { σ := LSt, init := .none, step := step }

end Sux.Lender
