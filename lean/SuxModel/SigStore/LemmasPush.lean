import SuxModel.SigStore.LemmasBits
import SuxModel.SigStore.LemmasList
/-!
# The store invariant: `new_*`, `try_push`, `into_shard_store`
-/
namespace Sux.SigStore

/-- state of a store into which exactly `ps` has been pushed -/
structure Store.Inv (s : Store) (be : Backend) (sw b m : Nat) (ps : List Pair) : Prop where
  backend : s.backend = be
  sigWords : s.sigWords = sw
  bbits : s.bucketsHighBits = b
  mbits : s.maxShardHighBits = m
  bmask : s.bucketsMask = (1 <<< b) - 1
  mmask : s.maxShardMask = (1 <<< m) - 1
  len : s.len = ps.length
  buckets : s.buckets = (List.range (2 ^ b)).map (cls sw b ps)
  bucketSizes : s.bucketSizes = (List.range (2 ^ b)).map (fun k => (cls sw b ps k).length)
  shardSizes : s.shardSizes = (List.range (2 ^ m)).map (fun k => (cls sw m ps k).length)

theorem cls_nil (sw bits k : Nat) : cls sw bits [] k = [] := rfl

theorem cls_nil_fun (sw bits : Nat) : cls sw bits [] = fun _ => [] := rfl

theorem cls_append_single (sw bits : Nat) (ps : List Pair) (p : Pair) (k : Nat) :
    cls sw bits (ps ++ [p]) k =
      if highBits sw p.1 bits = k then cls sw bits ps k ++ [p] else cls sw bits ps k := by
  unfold cls
  rw [List.filter_append]
  by_cases h : highBits sw p.1 bits = k
  · simp [h]
  · simp [h]

theorem i32Count_of_lt (b : Nat) (h : b < 31) : i32Count b = .ok (2 ^ b) := by
  unfold i32Count
  have h1 : ¬ (32 ≤ b) := by omega
  have h2 : ¬ (b = 31) := by omega
  simp [h1, h2]

theorem new_inv (be : Backend) (sw b m : Nat) (hb : b < 64) (hm : m < 64)
    (hfile : be = .file → b < 31) :
    ∃ s, new be sw b m = .ok s ∧ s.Inv be sw b m [] := by
  have hnw : newWriters be b = .ok (2 ^ b) := by
    cases be with
    | mem => rfl
    | file => exact i32Count_of_lt b (hfile rfl)
  have hne : ¬ (64 ≤ b ∨ 64 ≤ m) := by omega
  unfold new
  rw [if_neg hne]
  simp only [bind, hnw, Out.bind, pure]
  refine ⟨_, rfl, ?_⟩
  constructor <;> simp [cls_nil, cls_nil_fun, Nat.one_shiftLeft, map_range_const]

theorem new_panic (be : Backend) (sw b m : Nat) (h : 64 ≤ b ∨ 64 ≤ m) :
    new be sw b m = .panic := by
  unfold new
  rw [if_pos h]

theorem tryPush_inv (s : Store) (be : Backend) (sw b m : Nat) (ps : List Pair) (p : Pair)
    (hb : b < 64) (hm : m < 64) (h : s.Inv be sw b m ps) :
    ∃ s', tryPush s p = .ok s' ∧ s'.Inv be sw b m (ps ++ [p]) := by
  have hB := highBits_lt sw p.1 b (by omega)
  have hM := highBits_lt sw p.1 m (by omega)
  have e1 : highBitsChk s.sigWords p.1 s.bucketsHighBits s.bucketsMask
      = .ok (highBits sw p.1 b) := by
    rw [h.sigWords, h.bbits, h.bmask]; exact highBitsChk_eq sw p.1 b hb
  have e2 : highBitsChk s.sigWords p.1 s.maxShardHighBits s.maxShardMask
      = .ok (highBits sw p.1 m) := by
    rw [h.sigWords, h.mbits, h.mmask]; exact highBitsChk_eq sw p.1 m hm
  have e3 : incrAt s.bucketSizes (highBits sw p.1 b)
      = .ok ((List.range (2 ^ b)).map (fun k => (cls sw b (ps ++ [p]) k).length)) := by
    rw [h.bucketSizes]
    apply incrAt_map_range _ _ _ _ hB
    · simp [cls_append_single]
    · intro k hk
      have : ¬ (highBits sw p.1 b = k) := fun e => hk e.symm
      simp [cls_append_single, this]
  have e4 : incrAt s.shardSizes (highBits sw p.1 m)
      = .ok ((List.range (2 ^ m)).map (fun k => (cls sw m (ps ++ [p]) k).length)) := by
    rw [h.shardSizes]
    apply incrAt_map_range _ _ _ _ hM
    · simp [cls_append_single]
    · intro k hk
      have : ¬ (highBits sw p.1 m = k) := fun e => hk e.symm
      simp [cls_append_single, this]
  have e5 : pushAt s.buckets (highBits sw p.1 b) p
      = .ok ((List.range (2 ^ b)).map (cls sw b (ps ++ [p]))) := by
    rw [h.buckets]
    apply pushAt_map_range _ _ _ _ _ hB
    · simp [cls_append_single]
    · intro k hk
      have : ¬ (highBits sw p.1 b = k) := fun e => hk e.symm
      simp [cls_append_single, this]
  unfold tryPush
  simp only [bind, e1, e2, e3, e4, e5, Out.bind, pure]
  refine ⟨_, rfl, ?_⟩
  constructor
  · exact h.backend
  · exact h.sigWords
  · exact h.bbits
  · exact h.mbits
  · exact h.bmask
  · exact h.mmask
  · simp [h.len]
  · rfl
  · rfl
  · rfl

theorem pushAll_inv (be : Backend) (sw b m : Nat) (hb : b < 64) (hm : m < 64) :
    ∀ (qs ps : List Pair) (s : Store), s.Inv be sw b m ps →
      ∃ s', pushAll s qs = .ok s' ∧ s'.Inv be sw b m (ps ++ qs) := by
  intro qs
  induction qs with
  | nil =>
    intro ps s h
    exact ⟨s, rfl, by simpa using h⟩
  | cons q qs ih =>
    intro ps s h
    obtain ⟨s1, e1, h1⟩ := tryPush_inv s be sw b m ps q hb hm h
    obtain ⟨s2, e2, h2⟩ := ih (ps ++ [q]) s1 h1
    refine ⟨s2, ?_, by simpa using h2⟩
    unfold pushAll
    rw [e1]
    exact e2

/-! ## `into_shard_store` -/

/-- pairs with `sb` high bits `j` are those whose `m` high bits lie in the `j`-th block -/
theorem cls_coarse_eq_filter (sw sb m : Nat) (ps : List Pair) (j : Nat) (hs : sb ≤ m)
    (hm : m ≤ 64) :
    cls sw sb ps j = ps.filter (fun p => decide (j * 2 ^ (m - sb) ≤ highBits sw p.1 m ∧
      highBits sw p.1 m < j * 2 ^ (m - sb) + 2 ^ (m - sb))) := by
  unfold cls
  apply List.filter_congr
  intro p _
  rw [highBits_div sw p.1 sb m hs hm]
  have hpos : 0 < 2 ^ (m - sb) := Nat.two_pow_pos _
  generalize highBits sw p.1 m = x
  generalize 2 ^ (m - sb) = t at hpos
  by_cases h : x / t = j
  · subst h
    have h1 := Nat.div_mul_le_self x t
    have h2 := Nat.lt_div_mul_add (a := x) hpos
    simp [h1, h2]
  · have : ¬ (j * t ≤ x ∧ x < j * t + t) := by
      intro ⟨h1, h2⟩
      apply h
      apply Nat.div_eq_of_lt_le
      · exact h1
      · rw [Nat.succ_mul]; exact h2
    simp [h, this]

/-- buckets (or finest shards) of one coarse shard, concatenated, are that shard -/
theorem flatten_cls_perm (sw sb m : Nat) (ps : List Pair) (j : Nat) (hs : sb ≤ m) (hm : m ≤ 64) :
    (((List.range' (j * 2 ^ (m - sb)) (2 ^ (m - sb))).map (cls sw m ps)).flatten).Perm
      (cls sw sb ps j) := by
  rw [cls_coarse_eq_filter sw sb m ps j hs hm]
  generalize 2 ^ (m - sb) = t
  have := flatten_classes_perm (fun p : Pair => highBits sw p.1 m) ps t (j * t)
  exact this

theorem sum_cls_length (sw sb m : Nat) (ps : List Pair) (j : Nat) (hs : sb ≤ m) (hm : m ≤ 64) :
    ((List.range' (j * 2 ^ (m - sb)) (2 ^ (m - sb))).map (fun k => (cls sw m ps k).length)).sum
      = (cls sw sb ps j).length := by
  rw [← (flatten_cls_perm sw sb m ps j hs hm).length_eq, List.length_flatten, List.map_map]
  rfl

/-- a shard store obtained from a store holding `ps` -/
structure ShardStore.Inv (st : ShardStore) (be : Backend) (sw b sb : Nat) (ps : List Pair) :
    Prop where
  backend : st.backend = be
  sigWords : st.sigWords = sw
  bbits : st.bucketHighBits = b
  sbits : st.shardHighBits = sb
  buckets : st.buckets = (List.range (2 ^ b)).map (cls sw b ps)
  bufSizes : st.bufSizes = (List.range (2 ^ b)).map (fun k => (cls sw b ps k).length)
  shardSizes : st.shardSizes = (List.range (2 ^ sb)).map (fun k => (cls sw sb ps k).length)

theorem intoShardStore_inv (s : Store) (be : Backend) (sw b m sb : Nat) (ps : List Pair)
    (hm : m < 64) (hs : sb ≤ m) (hfile : be = .file → b < 31)
    (h : s.Inv be sw b m ps) :
    ∃ st, intoShardStore s sb = .ok st ∧ st.Inv be sw b sb ps := by
  have hfiles : storeFiles s = .ok s.buckets := by
    unfold storeFiles
    rw [h.backend]
    cases be with
    | mem => rfl
    | file =>
      simp only [h.bbits, i32Count_of_lt b (hfile rfl), Out.bind_ok]
      unfold popFronts
      have hl : s.buckets.length = 2 ^ b := by rw [h.buckets]; simp
      rw [if_neg (by omega), ← hl, List.take_length]
  have hpow : 2 ^ m = 2 ^ sb * 2 ^ (m - sb) := by
    rw [← Nat.pow_add]; congr 1; omega
  have hsizes : (chunks (1 <<< (s.maxShardHighBits - sb)) s.shardSizes).map List.sum
      = (List.range (2 ^ sb)).map (fun k => (cls sw sb ps k).length) := by
    rw [h.mbits, h.shardSizes, Nat.one_shiftLeft, hpow,
      chunks_map_range _ (Nat.two_pow_pos _), List.map_map]
    apply List.map_congr_left
    intro j _
    exact sum_cls_length sw sb m ps j hs (by omega)
  unfold intoShardStore
  rw [if_neg (by rw [h.mbits]; omega)]
  simp only [bind, hfiles, Out.bind, pure]
  refine ⟨_, rfl, ?_⟩
  constructor
  · exact h.backend
  · exact h.sigWords
  · exact h.bbits
  · rfl
  · exact h.buckets
  · exact h.bucketSizes
  · exact hsizes

theorem intoShardStore_panic (s : Store) (sb : Nat) (h : s.maxShardHighBits < sb) :
    intoShardStore s sb = .panic := by
  unfold intoShardStore
  rw [if_pos h]

end Sux.SigStore
