import SuxModel.SigStore.Model
/-!
# `high_bits` = the top bits of the first word
-/
namespace Sux.SigStore

theorem firstWord_lt (sw sig : Nat) : firstWord sw sig < 2 ^ 64 :=
  Nat.mod_lt _ (Nat.two_pow_pos 64)

/-- rotate-and-mask is a right shift -/
theorem rotl64_and_lowMask (x b : Nat) (hx : x < 2 ^ 64) (hb : b ≤ 64) :
    rotl64 x b &&& lowMask b = x >>> (64 - b) := by
  apply Nat.eq_of_testBit_eq
  intro j
  rw [Nat.testBit_and, testBit_lowMask, Nat.testBit_shiftRight]
  unfold rotl64
  rw [Nat.testBit_mod_two_pow, Nat.testBit_or, Nat.testBit_shiftLeft, Nat.testBit_shiftRight]
  by_cases hjb : j < b
  · have hj64 : j < 64 := by omega
    by_cases hb64 : b = 64
    · subst hb64
      have h1 : x.testBit (64 - 64 % 64 + j) = false :=
        testBit_ge_of_lt hx (by omega)
      simp [hjb, h1]
    · have hbm : b % 64 = b := Nat.mod_eq_of_lt (by omega)
      rw [hbm]
      have : ¬ (b ≤ j) := by omega
      simp [hjb, hj64, this]
  · have h1 : x.testBit (64 - b + j) = false := testBit_ge_of_lt hx (by omega)
    simp [hjb, h1]

theorem highBits_eq_shift (sw sig b : Nat) (hb : b ≤ 64) :
    highBits sw sig b = firstWord sw sig >>> (64 - b) :=
  rotl64_and_lowMask _ _ (firstWord_lt sw sig) hb

theorem highBits_lt (sw sig b : Nat) (hb : b ≤ 64) : highBits sw sig b < 2 ^ b := by
  rw [highBits_eq_shift sw sig b hb, Nat.shiftRight_eq_div_pow]
  apply Nat.div_lt_of_lt_mul
  rw [← Nat.pow_add]
  have : 64 - b + b = 64 := by omega
  rw [this]
  exact firstWord_lt sw sig

theorem highBits_zero (sw sig : Nat) : highBits sw sig 0 = 0 := by
  have := highBits_lt sw sig 0 (by omega)
  omega

/-- the key lemma: fewer high bits are a right shift of more high bits -/
theorem highBits_shift (sw sig a b : Nat) (hab : a ≤ b) (hb : b ≤ 64) :
    highBits sw sig a = highBits sw sig b >>> (b - a) := by
  rw [highBits_eq_shift sw sig a (by omega), highBits_eq_shift sw sig b hb,
    ← Nat.shiftRight_add]
  congr 1
  omega

theorem highBits_div (sw sig a b : Nat) (hab : a ≤ b) (hb : b ≤ 64) :
    highBits sw sig a = highBits sw sig b / 2 ^ (b - a) := by
  rw [highBits_shift sw sig a b hab hb, Nat.shiftRight_eq_div_pow]

/-- with the mask the callers compute, the checked call returns `highBits` -/
theorem highBitsChk_eq (sw sig b : Nat) (hb : b < 64) :
    highBitsChk sw sig b ((1 <<< b) - 1) = .ok (highBits sw sig b) := by
  unfold highBitsChk highBits lowMask
  have : ¬ (64 ≤ b) := by omega
  simp [this, Nat.one_shiftLeft]

theorem highBitsChk_panic (sw sig b mask : Nat) (hb : 64 ≤ b) :
    highBitsChk sw sig b mask = .panic := by
  unfold highBitsChk
  simp [hb]

end Sux.SigStore
