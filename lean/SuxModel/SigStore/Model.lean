import SuxModel.Base.Out
import SuxModel.Base.Bits
/-!
# Model of `src/utils/sig_store.rs` (C18)

A signature `[u64; n]` (`n = sigWords ∈ {1, 2}`) is the natural number
`sig[0] * 2^(64*(n-1)) + … + sig[n-1]`; `high_bits` only looks at `sig[0]`, the most significant
word of that number.  A signature/value pair is a `Nat × Nat`.

A bucket is the list of the pairs pushed into it, in push order.  The in-memory backend
(`Vec<SigVal>`, later `Arc<Vec<SigVal>>`) and the file backend (`BufWriter<File>`, later
`BufReader<File>`) are both such a list: *binary I/O is a parameter of the model* (a file holds
exactly the pairs written to it, in order; `seek(0)` + `read_exact` of `k` pairs returns the first
`k` pairs or fails if there are fewer; `set_len(0)` empties it).

`Out.panic` = unwinding panic (`assert!`, safe indexing, `unwrap`, checked arithmetic in a
debug/overflow-checked build); `Out.oob` = the call would hand out uninitialised memory
(`Vec::set_len` beyond what `read_exact` filled).
-/
namespace Sux.SigStore

abbrev Pair := Nat × Nat

inductive Backend where
  | mem
  | file
deriving DecidableEq, Repr, Inhabited

/-- `u64::rotate_left(x, n)` -/
def rotl64 (x n : Nat) : Nat := ((x <<< (n % 64)) ||| (x >>> (64 - n % 64))) % 2 ^ 64

/-- `sig[0]` of a `[u64; sw]` -/
def firstWord (sw sig : Nat) : Nat := (sig >>> (64 * (sw - 1))) % 2 ^ 64

/-- what `Sig::high_bits(hb, (1 << hb) - 1)` computes: `self[0].rotate_left(hb) & mask` -/
def highBits (sw sig hb : Nat) : Nat := rotl64 (firstWord sw sig) hb &&& lowMask hb

/-- `Sig::high_bits(&self, high_bits, mask)` as called (same body for `[u64;1]` and `[u64;2]`):
the caller computes `mask = (1 << high_bits) - 1` in `u64` (shift overflow panics in a checked
build), the callee `debug_assert!`s it. -/
def highBitsChk (sw sig hb mask : Nat) : Out Nat :=
  if 64 ≤ hb then .panic
  else if mask ≠ (1 <<< hb) - 1 then .panic
  else .ok (rotl64 (firstWord sw sig) hb &&& mask)

/-- `SigStoreImpl` -/
structure Store where
  backend : Backend
  sigWords : Nat
  len : Nat
  bucketsHighBits : Nat
  maxShardHighBits : Nat
  bucketsMask : Nat
  maxShardMask : Nat
  /-- `VecDeque<B>` -/
  buckets : List (List Pair)
  bucketSizes : List Nat
  shardSizes : List Nat
deriving Repr, Inhabited

/-- number of iterations of `for i in 0..1 << b` where the literal `1` falls back to `i32`
(`new_offline`, offline `into_shard_store`): shift amounts ≥ 32 panic (checked build),
`1i32 << 31 = i32::MIN` makes the range empty (probed on the real code: `new_offline(31, 0, None)`
returns `Ok` with no bucket file at all and the first `try_push` panics; `new_offline(32, ..)`
panics with "attempt to shift left with overflow"). -/
def i32Count (b : Nat) : Out Nat :=
  if 32 ≤ b then .panic else if b = 31 then .ok 0 else .ok (2 ^ b)

/-- number of bucket writers created: `resize_with(1 << b, ..)` (online), the `i32` loop (offline) -/
def newWriters (be : Backend) (b : Nat) : Out Nat :=
  match be with
  | .mem => .ok (2 ^ b)
  | .file => i32Count b

/-- `new_online` (`be = mem`) / `new_offline` (`be = file`); `1u64 << bits` and `1usize << bits`
panic for `bits ≥ 64` in a checked build.  The `expected_num_keys` argument only sets capacities. -/
def new (be : Backend) (sw b m : Nat) : Out Store :=
  if 64 ≤ b ∨ 64 ≤ m then .panic else
  newWriters be b >>= fun nw =>
  pure {
    backend := be, sigWords := sw, len := 0,
    bucketsHighBits := b, maxShardHighBits := m,
    bucketsMask := (1 <<< b) - 1, maxShardMask := (1 <<< m) - 1,
    buckets := List.replicate nw [],
    bucketSizes := List.replicate (1 <<< b) 0,
    shardSizes := List.replicate (1 <<< m) 0 }

/-- `v[i] += 1` with safe indexing -/
def incrAt (l : List Nat) (i : Nat) : Out (List Nat) :=
  match l[i]? with
  | some v => .ok (l.set i (v + 1))
  | none => .panic

/-- `v[i].push(p)` (memory) / `write_binary(&mut v[i], &[p])` (file) with safe indexing -/
def pushAt (l : List (List Pair)) (i : Nat) (p : Pair) : Out (List (List Pair)) :=
  match l[i]? with
  | some v => .ok (l.set i (v ++ [p]))
  | none => .panic

/-- `SigStore::try_push` (both impls are the same up to the backend's append) -/
def tryPush (s : Store) (p : Pair) : Out Store := do
  let buffer ← highBitsChk s.sigWords p.1 s.bucketsHighBits s.bucketsMask
  let shard ← highBitsChk s.sigWords p.1 s.maxShardHighBits s.maxShardMask
  let bs ← incrAt s.bucketSizes buffer
  let ss ← incrAt s.shardSizes shard
  let bk ← pushAt s.buckets buffer p
  pure { s with len := s.len + 1, bucketSizes := bs, shardSizes := ss, buckets := bk }

/-- a sequence of `try_push` calls -/
def pushAll (s : Store) : List Pair → Out Store
  | [] => .ok s
  | p :: ps => tryPush s p >>= fun s' => pushAll s' ps

/-- `slice::chunks(n)` (`n = 1 << k` is never 0 here; `chunks(0)` would panic) -/
def chunksAux {α : Type} (n : Nat) : Nat → List α → List (List α)
  | 0, _ => []
  | fuel + 1, l => if l = [] ∨ n = 0 then [] else l.take n :: chunksAux n fuel (l.drop n)

def chunks {α : Type} (n : Nat) (l : List α) : List (List α) := chunksAux n l.length l

/-- `n` times `pop_front().unwrap()`, collected -/
def popFronts (n : Nat) (l : List (List Pair)) : Out (List (List Pair)) :=
  if l.length < n then .panic else .ok (l.take n)

/-- `ShardStoreImpl` -/
structure ShardStore where
  backend : Backend
  sigWords : Nat
  bucketHighBits : Nat
  shardHighBits : Nat
  buckets : List (List Pair)
  bufSizes : List Nat
  shardSizes : List Nat
deriving Repr, Inhabited

/-- the readers: memory buckets as they are; offline `pop_front().unwrap()` in the `i32` loop -/
def storeFiles (s : Store) : Out (List (List Pair)) :=
  match s.backend with
  | .mem => .ok s.buckets
  | .file => i32Count s.bucketsHighBits >>= fun n => popFronts n s.buckets

/-- `SigStore::into_shard_store` (both impls) -/
def intoShardStore (s : Store) (sb : Nat) : Out ShardStore :=
  if s.maxShardHighBits < sb then .panic else
  storeFiles s >>= fun files =>
  let sizes := (chunks (1 <<< (s.maxShardHighBits - sb)) s.shardSizes).map List.sum
  pure {
    backend := s.backend, sigWords := s.sigWords,
    bucketHighBits := s.bucketsHighBits, shardHighBits := sb,
    buckets := files, bufSizes := s.bucketSizes, shardSizes := sizes }

/-- `ShardStore::len` (default method: sum of the shard sizes) -/
def ShardStore.len (st : ShardStore) : Nat := st.shardSizes.sum

/-- `ShardIterator` -/
structure Iter where
  store : ShardStore
  borrowed : Bool
  nextBucket : Nat
  nextShard : Nat
  /-- `VecDeque<Vec<SigVal>>` -/
  shards : List (List Pair)
deriving Repr, Inhabited

/-- `ShardStore::iter` -/
def ShardStore.iter (st : ShardStore) : Iter :=
  { store := st, borrowed := true, nextBucket := 0, nextShard := 0, shards := [] }

/-- `ShardStore::into_iter` -/
def ShardStore.intoIter (st : ShardStore) : Iter :=
  { store := st, borrowed := false, nextBucket := 0, nextShard := 0, shards := [] }

/-- `ExactSizeIterator::len` : `shard_sizes.len() - next_shard` (checked subtraction) -/
def Iter.len (it : Iter) : Out Nat :=
  if it.store.shardSizes.length < it.nextShard then .panic
  else .ok (it.store.shardSizes.length - it.nextShard)

/-- memory: `buckets[i].clone()` (borrowed) or `mem::take(&mut buckets[i])` (consuming) -/
def takeOrClone (borrowed : Bool) (bks : List (List Pair)) (i : Nat) :
    Out (List Pair × List (List Pair)) :=
  match bks[i]? with
  | none => .panic
  | some c => .ok (c, if borrowed then bks else bks.set i [])

/-- file: `buf_sizes[i]` pairs read from the start of `buckets[i]`; no truncation -/
def readFile (bufSizes : List Nat) (bks : List (List Pair)) (i : Nat) :
    Out (List Pair × List (List Pair)) :=
  match bufSizes[i]?, bks[i]? with
  | some n, some f => if f.length < n then .panic else .ok (f.take n, bks)
  | _, _ => .panic

/-- split branch: the whole bucket `i` (memory: released when consuming; file: kept) -/
def readBucket (be : Backend) (borrowed : Bool) (bufSizes : List Nat) (bks : List (List Pair))
    (i : Nat) : Out (List Pair × List (List Pair)) :=
  match be with
  | .mem => takeOrClone borrowed bks i
  | .file => readFile bufSizes bks i

/-- memory, aggregate branch: `for i in next_bucket..next_bucket + to_aggr { shard.extend(..) }` -/
def aggrLoop (borrowed : Bool) : Nat → Nat → List (List Pair) → List Pair →
    Out (List Pair × List (List Pair))
  | 0, _, bks, acc => .ok (acc, bks)
  | n + 1, i, bks, acc =>
    takeOrClone borrowed bks i >>= fun r => aggrLoop borrowed n (i + 1) r.2 (acc ++ r.1)

/-- file, aggregate branch: the shard buffer has `rem` free slots left; each bucket contributes
`buf_sizes[i]` pairs (`&mut buf[..bytes]` panics if they do not fit, `read_exact(..).unwrap()` if
the file is shorter); consuming iteration truncates the file. -/
def fileAggrLoop (borrowed : Bool) (bufSizes : List Nat) : Nat → Nat → List (List Pair) →
    List Pair → Nat → Out (List Pair × List (List Pair) × Nat)
  | 0, _, bks, acc, rem => .ok (acc, bks, rem)
  | n + 1, i, bks, acc, rem =>
    match bufSizes[i]?, bks[i]? with
    | some sz, some f =>
      if rem < sz then .panic
      else if f.length < sz then .panic
      else fileAggrLoop borrowed bufSizes n (i + 1) (if borrowed then bks else bks.set i [])
        (acc ++ f.take sz) (rem - sz)
    | _, _ => .panic

/-- split branch: `for shard in off..off + split_into { shards.push_back(Vec::with_capacity(
shard_sizes[shard])) }` -/
def mkQueues (sizes : List Nat) : Nat → Nat → List (List Pair) → Out (List (List Pair))
  | 0, _, q => .ok q
  | n + 1, i, q =>
    match sizes[i]? with
    | none => .panic
    | some _ => mkQueues sizes n (i + 1) (q ++ [[]])

/-- split branch: `for &v in bucket { shards[high_bits(v) - off].push(v) }` -/
def distribute (sw sb mask off : Nat) : List Pair → List (List Pair) → Out (List (List Pair))
  | [], q => .ok q
  | v :: vs, q =>
    highBitsChk sw v.1 sb mask >>= fun h =>
    if h < off then .panic
    else pushAt q (h - off) v >>= fun q' => distribute sw sb mask off vs q'

/-- `self.next_shard += 1; Some(Arc::new(self.shards.pop_front().unwrap()))` -/
def popShard (it : Iter) : Out (Option (List Pair) × Iter) :=
  match it.shards with
  | [] => .panic
  | x :: q => .ok (some x, { it with shards := q, nextShard := it.nextShard + 1 })

/-- split branch of `next` (memory and file): the file variant reads the bucket in blocks of 1024
pairs, which is `readFile` (first `buf_sizes[next_bucket]` pairs, failure if the file is shorter);
only the memory variant releases the bucket when consuming. -/
def splitNext (it : Iter) : Out (Option (List Pair) × Iter) :=
  let st := it.store
  if it.shards.isEmpty then
    if it.nextBucket = st.buckets.length then .ok (none, it)
    else
      let splitInto := 1 <<< (st.shardHighBits - st.bucketHighBits)
      let off := it.nextBucket * splitInto
      mkQueues st.shardSizes splitInto off it.shards >>= fun q =>
      readBucket st.backend it.borrowed st.bufSizes st.buckets it.nextBucket >>= fun r =>
      distribute st.sigWords st.shardHighBits ((1 <<< st.shardHighBits) - 1) off r.1 q >>= fun q' =>
      popShard { it with store := { st with buckets := r.2 }, shards := q',
                         nextBucket := it.nextBucket + 1 }
  else popShard it

/-- `Iterator::next` for `ShardIterator<S, V, Arc<Vec<SigVal<S, V>>>, T>` -/
def nextMem (it : Iter) : Out (Option (List Pair) × Iter) :=
  let st := it.store
  if st.bucketHighBits = st.shardHighBits then
    if st.buckets.length ≤ it.nextBucket then .ok (none, it)
    else
      takeOrClone it.borrowed st.buckets it.nextBucket >>= fun r =>
      .ok (some r.1, { it with store := { st with buckets := r.2 },
                               nextBucket := it.nextBucket + 1, nextShard := it.nextShard + 1 })
  else if st.shardHighBits < st.bucketHighBits then
    if st.buckets.length ≤ it.nextBucket then .ok (none, it)
    else
      let toAggr := 1 <<< (st.bucketHighBits - st.shardHighBits)
      match st.shardSizes[it.nextShard]? with
      | none => .panic
      | some _ =>
        aggrLoop it.borrowed toAggr it.nextBucket st.buckets [] >>= fun r =>
        .ok (some r.1, { it with store := { st with buckets := r.2 },
                                 nextBucket := it.nextBucket + toAggr,
                                 nextShard := it.nextShard + 1 })
  else splitNext it

/-- `Iterator::next` for `ShardIterator<S, V, BufReader<File>, T>` -/
def nextFile (it : Iter) : Out (Option (List Pair) × Iter) :=
  let st := it.store
  if st.shardHighBits ≤ st.bucketHighBits then
    if st.buckets.length ≤ it.nextBucket then .ok (none, it)
    else
      let toAggr := 1 <<< (st.bucketHighBits - st.shardHighBits)
      match st.shardSizes[it.nextShard]? with
      | none => .panic
      | some len =>
        fileAggrLoop it.borrowed st.bufSizes toAggr it.nextBucket st.buckets [] len >>= fun r =>
        -- `set_len(len)` was done up front: unfilled slots would be uninitialised memory
        if r.2.2 ≠ 0 then .oob
        else .ok (some r.1, { it with store := { st with buckets := r.2.1 },
                                      nextBucket := it.nextBucket + toAggr,
                                      nextShard := it.nextShard + 1 })
  else splitNext it

def next (it : Iter) : Out (Option (List Pair) × Iter) :=
  match it.store.backend with
  | .mem => nextMem it
  | .file => nextFile it

/-- `for shard in it { acc.push(shard) }`, at most `fuel` calls of `next` -/
def drain : Nat → Iter → List (List Pair) → Out (List (List Pair) × Iter)
  | 0, it, acc => .ok (acc, it)
  | fuel + 1, it, acc =>
    next it >>= fun r =>
    match r.1 with
    | none => .ok (acc, r.2)
    | some x => drain fuel r.2 (acc ++ [x])

/-- enough fuel for every store produced by `into_shard_store` (see `Props/C18.lean`:
the iterator returned is exhausted) -/
def Iter.fuel (it : Iter) : Nat := it.store.shardSizes.length + it.store.buckets.length + 1

/-- all shards of an iterator -/
def collect (it : Iter) : Out (List (List Pair) × Iter) := drain it.fuel it []

end Sux.SigStore
