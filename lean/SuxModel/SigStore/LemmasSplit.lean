import SuxModel.SigStore.LemmasMerge
/-!
# The split branch of `next` (shard bits > bucket bits)
-/
namespace Sux.SigStore

theorem mkQueues_spec (sizes : List Nat) :
    ∀ (n off : Nat) (q : List (List Pair)), off + n ≤ sizes.length →
      mkQueues sizes n off q = .ok (q ++ List.replicate n []) := by
  intro n
  induction n with
  | zero => intro off q _; simp [mkQueues]
  | succ n ih =>
    intro off q h
    unfold mkQueues
    have : off < sizes.length := by omega
    rw [List.getElem?_eq_getElem this]
    simp only
    rw [ih (off + 1) _ (by omega), List.replicate_succ]
    simp

theorem distribute_spec (sw sb off n : Nat) (hsb : sb < 64) :
    ∀ (l : List Pair) (Q : Nat → List Pair),
      (∀ p ∈ l, off ≤ highBits sw p.1 sb ∧ highBits sw p.1 sb < off + n) →
      distribute sw sb ((1 <<< sb) - 1) off l ((List.range n).map Q)
        = .ok ((List.range n).map
            (fun i => Q i ++ l.filter (fun p => highBits sw p.1 sb == off + i))) := by
  intro l
  induction l with
  | nil => intro Q _; simp [distribute]
  | cons v vs ih =>
    intro Q h
    have hv := h v (List.mem_cons_self)
    unfold distribute
    rw [highBitsChk_eq sw v.1 sb hsb]
    simp only [Out.bind_ok]
    rw [if_neg (by omega)]
    rw [pushAt_map_range Q
      (fun i => if i = highBits sw v.1 sb - off then Q i ++ [v] else Q i) n _ v (by omega)
      (by simp) (by intro k hk; simp [hk])]
    simp only [Out.bind_ok]
    rw [ih _ (fun p hp => h p (List.mem_cons_of_mem _ hp))]
    congr 1
    apply List.map_congr_left
    intro i _
    by_cases hi : i = highBits sw v.1 sb - off
    · have h1 : highBits sw v.1 sb = off + i := by omega
      have hc : (highBits sw v.1 sb == off + i) = true := by rw [h1]; simp
      rw [if_pos hi, List.filter_cons, if_pos hc]
      simp
    · have : ¬ (highBits sw v.1 sb = off + i) := by omega
      simp [hi, this]

/-- the pairs of bucket `k` have their `sb` high bits in the `k`-th block -/
theorem mem_cls_block (sw b sb : Nat) (ps : List Pair) (k : Nat) (hbs : b ≤ sb) (hsb : sb ≤ 64)
    (p : Pair) (hp : p ∈ cls sw b ps k) :
    k * 2 ^ (sb - b) ≤ highBits sw p.1 sb ∧ highBits sw p.1 sb < k * 2 ^ (sb - b) + 2 ^ (sb - b) := by
  unfold cls at hp
  rw [List.mem_filter] at hp
  have hk : highBits sw p.1 b = k := by simpa using hp.2
  rw [highBits_div sw p.1 b sb hbs hsb] at hk
  have hpos : 0 < 2 ^ (sb - b) := Nat.two_pow_pos _
  subst hk
  exact ⟨Nat.div_mul_le_self _ _, Nat.lt_div_mul_add hpos⟩

/-- splitting bucket `k` by the `sb` high bits gives the shards of its block -/
theorem cls_cls (sw b sb : Nat) (ps : List Pair) (k i : Nat) (hbs : b ≤ sb) (hsb : sb ≤ 64)
    (hi : i < 2 ^ (sb - b)) :
    (cls sw b ps k).filter (fun p => highBits sw p.1 sb == k * 2 ^ (sb - b) + i)
      = cls sw sb ps (k * 2 ^ (sb - b) + i) := by
  unfold cls
  rw [List.filter_filter]
  apply List.filter_congr
  intro p _
  by_cases h : highBits sw p.1 sb = k * 2 ^ (sb - b) + i
  · have : highBits sw p.1 b = k := by
      rw [highBits_div sw p.1 b sb hbs hsb, h]
      apply Nat.div_eq_of_lt_le
      · omega
      · rw [Nat.succ_mul]; omega
    simp [h, this]
  · simp [h]

/-- state of a splitting iterator that has emitted `j` shards: `j = k*sp + r`, bucket `k` is
being handed out (`r > 0`) or is the next one to be read (`r = 0`) -/
def RSplit (st : ShardStore) (brw : Bool) (sw b sb : Nat) (ps : List Pair) (j : Nat) (it : Iter) :
    Prop :=
  ∃ bks k r, j = k * 2 ^ (sb - b) + r ∧ r < 2 ^ (sb - b) ∧ (brw = true → bks = st.buckets) ∧
    ((r = 0 ∧ AgreeFrom bks (cls sw b ps) (2 ^ b) k ∧ it = mkIt st brw bks k j []) ∨
     (0 < r ∧ AgreeFrom bks (cls sw b ps) (2 ^ b) (k + 1) ∧
        it = mkIt st brw bks (k + 1) j
          ((List.range' j (2 ^ (sb - b) - r)).map (cls sw sb ps))))

theorem splitNext_pop (st : ShardStore) (brw : Bool) (bks : List (List Pair)) (nb j : Nat)
    (x : List Pair) (q : List (List Pair)) :
    splitNext (mkIt st brw bks nb j (x :: q)) = .ok (some x, mkIt st brw bks nb (j + 1) q) := by
  unfold splitNext
  simp [mkIt, popShard]

theorem splitNext_refill (st : ShardStore) (be : Backend) (sw b sb : Nat) (ps : List Pair)
    (hinv : st.Inv be sw b sb ps) (hbs : b < sb) (hsb : sb < 64) (brw : Bool)
    (bks : List (List Pair)) (k : Nat) (hk : k < 2 ^ b)
    (hag : AgreeFrom bks (cls sw b ps) (2 ^ b) k) :
    ∃ bks', splitNext (mkIt st brw bks k (k * 2 ^ (sb - b)) [])
        = .ok (some (cls sw sb ps (k * 2 ^ (sb - b))),
            mkIt st brw bks' (k + 1) (k * 2 ^ (sb - b) + 1)
              ((List.range' (k * 2 ^ (sb - b) + 1) (2 ^ (sb - b) - 1)).map (cls sw sb ps))) ∧
      AgreeFrom bks' (cls sw b ps) (2 ^ b) (k + 1) ∧ (brw = true → bks' = bks) := by
  have hpow : 2 ^ sb = 2 ^ b * 2 ^ (sb - b) := pow_split sb b (by omega)
  have hblk := block_le k (2 ^ b) (2 ^ (sb - b)) hk
  have hpos : 0 < 2 ^ (sb - b) := Nat.two_pow_pos _
  -- reading the bucket
  have hread : ∃ bks', readBucket st.backend brw st.bufSizes bks k = .ok (cls sw b ps k, bks') ∧
      AgreeFrom bks' (cls sw b ps) (2 ^ b) (k + 1) ∧ (brw = true → bks' = bks) := by
    rw [hinv.backend]
    unfold readBucket
    cases be with
    | mem => exact takeOrClone_spec brw bks _ _ k hag hk
    | file =>
      refine ⟨bks, ?_, hag.mono _ (by omega), fun _ => rfl⟩
      rw [hinv.bufSizes]
      exact readFile_spec bks _ _ k hag hk
  obtain ⟨bks', eread, hag', hb'⟩ := hread
  refine ⟨bks', ?_, hag', hb'⟩
  have hq : mkQueues st.shardSizes (2 ^ (sb - b)) (k * 2 ^ (sb - b)) []
      = .ok ((List.range (2 ^ (sb - b))).map (fun _ => ([] : List Pair))) := by
    rw [mkQueues_spec _ _ _ _ (by rw [hinv.shardSizes]; simp; rw [hpow]; exact hblk),
      map_range_const]
    simp
  have hd := distribute_spec sw sb (k * 2 ^ (sb - b)) (2 ^ (sb - b)) hsb (cls sw b ps k)
    (fun _ => []) (fun p hp => mem_cls_block sw b sb ps k (by omega) (by omega) p hp)
  have hne : ¬ (k = bks.length) := by rw [hag.1]; omega
  unfold splitNext
  simp only [mkIt, List.isEmpty_nil, if_true, if_neg hne, hinv.bbits, hinv.sbits, hinv.sigWords,
    Nat.one_shiftLeft, hq, Out.bind_ok, eread]
  rw [← Nat.one_shiftLeft sb, hd]
  simp only [Out.bind_ok, List.nil_append]
  -- pop the first of the `sp` queues
  have hsp : 2 ^ (sb - b) = (2 ^ (sb - b) - 1) + 1 := by omega
  have hG : (List.range (2 ^ (sb - b))).map
        (fun i => (cls sw b ps k).filter (fun p => highBits sw p.1 sb == k * 2 ^ (sb - b) + i))
      = (List.range' (k * 2 ^ (sb - b)) (2 ^ (sb - b))).map (cls sw sb ps) := by
    have hr : List.range' (k * 2 ^ (sb - b)) (2 ^ (sb - b))
        = List.map (k * 2 ^ (sb - b) + ·) (List.range' 0 (2 ^ (sb - b))) := by
      rw [List.map_add_range']; simp
    rw [List.range_eq_range', hr, List.map_map]
    apply List.map_congr_left
    intro i hi
    rw [List.mem_range'_1] at hi
    simp only [Function.comp]
    exact cls_cls sw b sb ps k i (by omega) (by omega) (by omega)
  rw [hG]
  generalize 2 ^ (sb - b) = sp at *
  rw [hsp, List.range'_succ]
  simp [popShard]

theorem split_decomp (k r K sp : Nat) (hr : r < sp) (h : k * sp + r = K * sp) : r = 0 ∧ k = K := by
  have h1 : (k * sp + r) % sp = r := by
    rw [Nat.mul_comm, Nat.mul_add_mod, Nat.mod_eq_of_lt hr]
  have h2 : (K * sp) % sp = 0 := Nat.mul_mod_left K sp
  have hr0 : r = 0 := by rw [h, h2] at h1; exact h1.symm
  subst hr0
  refine ⟨rfl, ?_⟩
  have hsp : 0 < sp := by omega
  exact Nat.eq_of_mul_eq_mul_right hsp (by simpa using h)

theorem next_eq_splitNext (st : ShardStore) (be : Backend) (sw b sb : Nat) (ps : List Pair)
    (hinv : st.Inv be sw b sb ps) (hbs : b < sb) (brw : Bool) (bks : List (List Pair)) (nb j : Nat)
    (q : List (List Pair)) :
    next (mkIt st brw bks nb j q) = splitNext (mkIt st brw bks nb j q) := by
  have h1 : ¬ (b = sb) := by omega
  have h2 : ¬ (sb < b) := by omega
  have h3 : ¬ (sb ≤ b) := by omega
  unfold next
  cases be with
  | mem =>
    simp only [mkIt, hinv.backend]
    unfold nextMem
    simp only [hinv.bbits, hinv.sbits, if_neg h1, if_neg h2]
  | file =>
    simp only [mkIt, hinv.backend]
    unfold nextFile
    simp only [hinv.bbits, hinv.sbits, if_neg h3]

theorem drain_split (st : ShardStore) (be : Backend) (sw b sb : Nat) (ps : List Pair)
    (hinv : st.Inv be sw b sb ps) (hbs : b < sb) (hsb : sb < 64) (brw : Bool) (fuel : Nat)
    (hf : 2 ^ sb < fuel) :
    ∃ it', drain fuel (mkIt st brw st.buckets 0 0 []) []
        = .ok ((List.range (2 ^ sb)).map (cls sw sb ps), it') ∧
      RSplit st brw sw b sb ps (2 ^ sb) it' ∧ next it' = .ok (none, it') := by
  have hpow : 2 ^ sb = 2 ^ b * 2 ^ (sb - b) := pow_split sb b (by omega)
  have hpos : 0 < 2 ^ (sb - b) := Nat.two_pow_pos _
  have hend : ∀ it, RSplit st brw sw b sb ps (2 ^ sb) it → next it = .ok (none, it) := by
    intro it ⟨bks, k, r, hj, hr, _, hcase⟩
    rw [hpow] at hj
    obtain ⟨hr0, hk⟩ := split_decomp k r (2 ^ b) _ hr hj.symm
    cases hcase with
    | inl h =>
      obtain ⟨_, hag, e⟩ := h
      subst e
      rw [next_eq_splitNext st be sw b sb ps hinv hbs]
      unfold splitNext
      simp [mkIt, hk, hag.1]
    | inr h => omega
  have hstep : ∀ j it, j < 2 ^ sb → RSplit st brw sw b sb ps j it →
      ∃ it', next it = .ok (some (cls sw sb ps j), it') ∧ RSplit st brw sw b sb ps (j + 1) it' := by
    intro j it hj ⟨bks, k, r, hjk, hr, hbk, hcase⟩
    cases hcase with
    | inl h =>
      obtain ⟨hr0, hag, e⟩ := h
      subst e
      subst hr0
      have hk : k < 2 ^ b := by
        rw [hpow, hjk, Nat.add_zero] at hj
        exact Nat.lt_of_mul_lt_mul_right hj
      rw [next_eq_splitNext st be sw b sb ps hinv hbs]
      obtain ⟨bks', e', hag', hb'⟩ :=
        splitNext_refill st be sw b sb ps hinv hbs hsb brw bks k hk hag
      rw [Nat.add_zero] at hjk
      subst hjk
      refine ⟨_, e', bks', ?_⟩
      by_cases hsp1 : 2 ^ (sb - b) = 1
      · refine ⟨k + 1, 0, ?_, by omega, fun h => by rw [hb' h, hbk h], Or.inl ⟨rfl, hag', ?_⟩⟩
        · rw [Nat.succ_mul, hsp1]
        · rw [hsp1]; rfl
      · exact ⟨k, 1, rfl, by omega, fun h => by rw [hb' h, hbk h], Or.inr ⟨by omega, hag', rfl⟩⟩
    | inr h =>
      obtain ⟨hr0, hag, e⟩ := h
      subst e
      rw [next_eq_splitNext st be sw b sb ps hinv hbs]
      have hlen : 2 ^ (sb - b) - r = (2 ^ (sb - b) - r - 1) + 1 := by omega
      rw [hlen, List.range'_succ, List.map_cons, splitNext_pop]
      refine ⟨_, rfl, bks, ?_⟩
      by_cases hlast : r + 1 = 2 ^ (sb - b)
      · refine ⟨k + 1, 0, ?_, by omega, hbk, Or.inl ⟨rfl, hag, ?_⟩⟩
        · rw [Nat.succ_mul, hjk]; omega
        · have : 2 ^ (sb - b) - r - 1 = 0 := by omega
          rw [this]; rfl
      · refine ⟨k, r + 1, by omega, by omega, hbk, Or.inr ⟨by omega, hag, ?_⟩⟩
        have : 2 ^ (sb - b) - r - 1 = 2 ^ (sb - b) - (r + 1) := by omega
        rw [this]
  have h0 : RSplit st brw sw b sb ps 0 (mkIt st brw st.buckets 0 0 []) := by
    refine ⟨st.buckets, 0, 0, by simp, hpos, fun _ => rfl, Or.inl ⟨rfl, ?_, rfl⟩⟩
    rw [hinv.buckets]
    exact agreeFrom_map_range _ _
  obtain ⟨it', e, hR⟩ := drain_generic (2 ^ sb) _ _ hstep hend fuel 0 _ [] (Nat.zero_le _) h0
    (by omega)
  refine ⟨it', ?_, hR, hend it' hR⟩
  rw [e, List.range_eq_range']
  simp

end Sux.SigStore
