import SuxModel.SigStore.Spec
/-!
# Generic list lemmas used by the C18 proofs: tables `(range n).map f`, `chunks`,
classification of a list by a key into consecutive ranges of key values
-/
namespace Sux.SigStore

theorem getElem?_map_range {β : Type} (f : Nat → β) (n i : Nat) :
    ((List.range n).map f)[i]? = if i < n then some (f i) else none := by
  rw [List.getElem?_map]
  by_cases h : i < n
  · simp [h]
  · simp [h]

theorem map_range_const {β : Type} (c : β) (n : Nat) :
    (List.range n).map (fun _ => c) = List.replicate n c := by
  rw [List.map_const', List.length_range]

theorem set_map_range {β : Type} (f g : Nat → β) (n i : Nat)
    (h : ∀ k, k ≠ i → g k = f k) :
    ((List.range n).map f).set i (g i) = (List.range n).map g := by
  apply List.ext_getElem?
  intro k
  rw [List.getElem?_set, getElem?_map_range, getElem?_map_range]
  by_cases hk : i = k
  · subst hk
    simp
  · have := h k (fun e => hk e.symm)
    simp [hk, this]

theorem incrAt_map_range (f g : Nat → Nat) (n i : Nat) (hi : i < n)
    (hg : g i = f i + 1) (h : ∀ k, k ≠ i → g k = f k) :
    incrAt ((List.range n).map f) i = .ok ((List.range n).map g) := by
  unfold incrAt
  rw [getElem?_map_range]
  simp only [hi, if_true]
  rw [← hg, set_map_range f g n i h]

theorem pushAt_map_range (f g : Nat → List Pair) (n i : Nat) (p : Pair) (hi : i < n)
    (hg : g i = f i ++ [p]) (h : ∀ k, k ≠ i → g k = f k) :
    pushAt ((List.range n).map f) i p = .ok ((List.range n).map g) := by
  unfold pushAt
  rw [getElem?_map_range]
  simp only [hi, if_true]
  rw [← hg, set_map_range f g n i h]

theorem pushAt_panic (l : List (List Pair)) (i : Nat) (p : Pair) (hi : l.length ≤ i) :
    pushAt l i p = .panic := by
  unfold pushAt
  rw [List.getElem?_eq_none hi]

/-! ## chunks -/

theorem chunksAux_nil {α : Type} (n fuel : Nat) : chunksAux n fuel ([] : List α) = [] := by
  cases fuel <;> simp [chunksAux]

theorem chunksAux_map_range' {β : Type} (t : Nat) (ht : 0 < t) (f : Nat → β) :
    ∀ (n a fuel : Nat), n * t ≤ fuel →
      chunksAux t fuel ((List.range' a (n * t)).map f)
        = (List.range n).map (fun j => (List.range' (a + j * t) t).map f) := by
  intro n
  induction n with
  | zero =>
    intro a fuel _
    simp [chunksAux_nil]
  | succ n ih =>
    intro a fuel hf
    have hnt : (n + 1) * t = t + n * t := by rw [Nat.succ_mul]; omega
    cases fuel with
    | zero => omega
    | succ fuel =>
      have hsplit : List.range' a ((n + 1) * t) = List.range' a t ++ List.range' (a + t) (n * t) := by
        rw [hnt, List.range'_append_1]
      have hne : ¬ ((List.range' a ((n + 1) * t)).map f = [] ∨ t = 0) := by
        intro h
        cases h with
        | inl h =>
          have := congrArg List.length h
          simp at this
          omega
        | inr h => omega
      unfold chunksAux
      rw [if_neg hne, hsplit, List.map_append]
      have hl : ((List.range' a t).map f).length = t := by simp
      have htake : (List.map f (List.range' a t) ++ List.map f (List.range' (a + t) (n * t))).take t
          = List.map f (List.range' a t) := by
        rw [List.take_append_of_le_length (by omega), List.take_of_length_le (by omega)]
      have hdrop : (List.map f (List.range' a t) ++ List.map f (List.range' (a + t) (n * t))).drop t
          = List.map f (List.range' (a + t) (n * t)) := by
        rw [List.drop_append_of_le_length (by omega), List.drop_of_length_le (by omega),
          List.nil_append]
      rw [htake, hdrop, ih (a + t) fuel (by omega), List.range_succ_eq_map, List.map_cons,
        List.map_map]
      congr 1
      · simp
      · apply List.map_congr_left
        intro j _
        simp only [Function.comp]
        congr 2
        rw [Nat.succ_mul]
        omega

theorem chunks_map_range {β : Type} (t : Nat) (ht : 0 < t) (f : Nat → β) (n : Nat) :
    chunks t ((List.range (n * t)).map f)
      = (List.range n).map (fun j => (List.range' (j * t) t).map f) := by
  unfold chunks
  rw [List.range_eq_range', chunksAux_map_range' t ht f n 0 _ (by simp)]
  simp

/-! ## classification by a key -/

theorem filter_disjoint_perm {α : Type} (p q : α → Bool) (l : List α)
    (h : ∀ x, ¬ (p x = true ∧ q x = true)) :
    (l.filter p ++ l.filter q).Perm (l.filter (fun x => p x || q x)) := by
  induction l with
  | nil => simp
  | cons x l ih =>
    cases hp : p x <;> cases hq : q x
    · simpa [List.filter_cons, hp, hq] using ih
    · simp only [List.filter_cons, hp, hq, Bool.false_or, if_true]
      exact List.perm_middle.trans (List.Perm.cons x ih)
    · simp only [List.filter_cons, hp, hq, Bool.or_false, if_true, List.cons_append]
      exact List.Perm.cons x ih
    · exact absurd ⟨hp, hq⟩ (h x)

/-- the classes of `t` consecutive key values, concatenated, are the elements whose key lies in
the range (as a multiset) -/
theorem flatten_classes_perm {α : Type} (v : α → Nat) (l : List α) :
    ∀ (t a : Nat),
      (((List.range' a t).map (fun k => l.filter (fun x => v x == k))).flatten).Perm
        (l.filter (fun x => decide (a ≤ v x ∧ v x < a + t))) := by
  intro t
  induction t with
  | zero =>
    intro a
    simp
  | succ t ih =>
    intro a
    rw [List.range'_succ, List.map_cons, List.flatten_cons]
    refine (List.Perm.append_left _ (ih (a + 1))).trans ?_
    refine (filter_disjoint_perm _ _ l ?_).trans ?_
    · intro x hx
      simp at hx
      omega
    · apply List.Perm.of_eq
      apply List.filter_congr
      intro x _
      by_cases h1 : v x = a
      · simp [h1]
      · have : (v x == a) = false := by simp [h1]
        rw [this, Bool.false_or]
        apply decide_eq_decide.mpr
        omega

theorem sum_map_length_eq_length_flatten {α : Type} (ls : List (List α)) :
    (ls.map List.length).sum = ls.flatten.length := by
  rw [List.length_flatten]

end Sux.SigStore
