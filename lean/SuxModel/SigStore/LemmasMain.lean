import SuxModel.SigStore.LemmasSplit
/-!
# Assembly: what `collect` returns for a store produced by `into_shard_store`
-/
namespace Sux.SigStore

theorem iterOrder_perm (sw b sb : Nat) (ps : List Pair) (i : Nat) (hb : b ≤ 64) :
    (iterOrder sw b sb ps i).Perm (cls sw sb ps i) := by
  unfold iterOrder
  by_cases h : sb < b
  · rw [if_pos h]
    exact flatten_cls_perm sw sb b ps i (by omega) hb
  · rw [if_neg h]

theorem mkIt_store_self (st : ShardStore) (brw : Bool) (nb ns : Nat) (q : List (List Pair)) :
    (mkIt st brw st.buckets nb ns q).store = st := rfl

theorem collect_spec (st : ShardStore) (be : Backend) (sw b sb : Nat) (ps : List Pair)
    (hinv : st.Inv be sw b sb ps) (hb : b < 64) (hsb : sb < 64) (brw : Bool) :
    ∃ it', collect (mkIt st brw st.buckets 0 0 [])
        = .ok ((List.range (2 ^ sb)).map (iterOrder sw b sb ps), it') ∧
      next it' = .ok (none, it') ∧ (brw = true → it'.store = st) := by
  have hfuel : 2 ^ sb < (mkIt st brw st.buckets 0 0 []).fuel := by
    unfold Iter.fuel
    simp only [mkIt, hinv.shardSizes, List.length_map, List.length_range]
    omega
  unfold collect
  by_cases h : sb ≤ b
  · obtain ⟨it', e, hR, hn⟩ := drain_merge st be sw b sb ps hinv h (by omega) brw _ hfuel
    refine ⟨it', ?_, hn, ?_⟩
    · rw [e]
      congr 2
      apply List.map_congr_left
      intro j _
      unfold iterOrder
      by_cases h2 : sb < b
      · rw [if_pos h2]
      · have : b = sb := by omega
        subst this
        simp
    · intro hbr
      obtain ⟨bks, e1, _, e2⟩ := hR
      rw [e1, e2 hbr]
      rfl
  · obtain ⟨it', e, hR, hn⟩ := drain_split st be sw b sb ps hinv (by omega) hsb brw _ hfuel
    refine ⟨it', ?_, hn, ?_⟩
    · rw [e]
      congr 2
      apply List.map_congr_left
      intro j _
      unfold iterOrder
      rw [if_neg (by omega)]
    · intro hbr
      obtain ⟨bks, k, r, _, _, e2, hcase⟩ := hR
      cases hcase with
      | inl h => rw [h.2.2, e2 hbr]; rfl
      | inr h => rw [h.2.2, e2 hbr]; rfl

theorem flatten_map_perm {α : Type} (f g : Nat → List α) (l : List Nat)
    (h : ∀ i ∈ l, (f i).Perm (g i)) : ((l.map f).flatten).Perm ((l.map g).flatten) := by
  induction l with
  | nil => simp
  | cons x l ih =>
    simp only [List.map_cons, List.flatten_cons]
    exact (h x List.mem_cons_self).append (ih (fun i hi => h i (List.mem_cons_of_mem _ hi)))

/-- all classes together are the pushed multiset -/
theorem all_cls_perm (sw sb : Nat) (ps : List Pair) (hsb : sb ≤ 64) :
    (((List.range (2 ^ sb)).map (cls sw sb ps)).flatten).Perm ps := by
  have h := flatten_classes_perm (fun p : Pair => highBits sw p.1 sb) ps (2 ^ sb) 0
  rw [← List.range_eq_range'] at h
  have hall : ps.filter (fun x => decide (0 ≤ highBits sw x.1 sb ∧ highBits sw x.1 sb < 0 + 2 ^ sb))
      = ps := by
    rw [List.filter_eq_self]
    intro p _
    have := highBits_lt sw p.1 sb hsb
    simp
    omega
  rw [hall] at h
  exact h

theorem sum_cls_lengths (sw sb : Nat) (ps : List Pair) (hsb : sb ≤ 64) :
    ((List.range (2 ^ sb)).map (fun k => (cls sw sb ps k).length)).sum = ps.length := by
  rw [← (all_cls_perm sw sb ps hsb).length_eq, List.length_flatten, List.map_map]
  rfl

end Sux.SigStore
