import SuxModel.SigStore.LemmasIter
/-!
# The merge branches of `next` (shard bits ≤ bucket bits): one step, the end, the full drain
-/
namespace Sux.SigStore

theorem pow_split (b sb : Nat) (h : sb ≤ b) : 2 ^ b = 2 ^ sb * 2 ^ (b - sb) := by
  rw [← Nat.pow_add]; congr 1; omega

/-- `(j+1)`-th block of `t` buckets lies inside the `N*t` buckets -/
theorem block_le (j N t : Nat) (hj : j < N) : j * t + t ≤ N * t := by
  have : (j + 1) * t ≤ N * t := Nat.mul_le_mul_right t (by omega)
  rw [Nat.succ_mul] at this
  exact this

theorem next_merge_step (st : ShardStore) (be : Backend) (sw b sb : Nat) (ps : List Pair)
    (hinv : st.Inv be sw b sb ps) (hsb : sb ≤ b) (hb : b ≤ 64) (brw : Bool)
    (bks : List (List Pair)) (j : Nat) (hj : j < 2 ^ sb)
    (hag : AgreeFrom bks (cls sw b ps) (2 ^ b) (j * 2 ^ (b - sb))) :
    ∃ bks', next (mkIt st brw bks (j * 2 ^ (b - sb)) j [])
        = .ok (some (((List.range' (j * 2 ^ (b - sb)) (2 ^ (b - sb))).map (cls sw b ps)).flatten),
            mkIt st brw bks' ((j + 1) * 2 ^ (b - sb)) (j + 1) []) ∧
      AgreeFrom bks' (cls sw b ps) (2 ^ b) ((j + 1) * 2 ^ (b - sb)) ∧
      (brw = true → bks' = bks) := by
  have hpow := pow_split b sb hsb
  have hblk := block_le j (2 ^ sb) (2 ^ (b - sb)) hj
  have hlen : bks.length = 2 ^ b := hag.1
  have htpos : 0 < 2 ^ (b - sb) := Nat.two_pow_pos _
  have hss : st.shardSizes[j]? = some ((cls sw sb ps j).length) := by
    rw [hinv.shardSizes, getElem?_map_range, if_pos hj]
  have hnl : ¬ (bks.length ≤ j * 2 ^ (b - sb)) := by
    rw [hlen, hpow]; omega
  rw [Nat.succ_mul]
  cases be with
  | mem =>
    have hnext : ∀ it : Iter, it.store.backend = .mem → next it = nextMem it := by
      intro it h; unfold next; rw [h]
    rw [hnext _ (by simp [mkIt, hinv.backend])]
    by_cases hbe : b = sb
    · subst hbe
      simp only [Nat.sub_self, Nat.pow_zero, Nat.mul_one] at *
      obtain ⟨bks', e, hag', hb'⟩ := takeOrClone_spec brw bks _ _ j hag (by omega)
      refine ⟨bks', ?_, hag', hb'⟩
      unfold nextMem
      simp only [mkIt, hinv.bbits, hinv.sbits, if_true, if_neg hnl, e, Out.bind_ok]
      simp
    · obtain ⟨bks', e, hag', hb'⟩ :=
        aggrLoop_spec brw (cls sw b ps) (2 ^ b) (2 ^ (b - sb)) (j * 2 ^ (b - sb)) bks [] hag
          (by rw [hpow]; exact hblk)
      refine ⟨bks', ?_, hag', hb'⟩
      unfold nextMem
      have h1 : ¬ (b = sb) := hbe
      have h2 : sb < b := by omega
      simp only [mkIt, hinv.bbits, hinv.sbits, if_neg h1, if_pos h2, if_neg hnl, hss,
        Nat.one_shiftLeft, e, Out.bind_ok]
      simp
  | file =>
    have hnext : ∀ it : Iter, it.store.backend = .file → next it = nextFile it := by
      intro it h; unfold next; rw [h]
    rw [hnext _ (by simp [mkIt, hinv.backend])]
    have hsum := sum_cls_length sw sb b ps j hsb hb
    obtain ⟨bks', e, hag', hb'⟩ :=
      fileAggrLoop_spec brw (cls sw b ps) (2 ^ b) (2 ^ (b - sb)) (j * 2 ^ (b - sb)) bks [] 0 hag
        (by rw [hpow]; exact hblk)
    rw [Nat.zero_add, hsum] at e
    refine ⟨bks', ?_, hag', hb'⟩
    unfold nextFile
    simp only [mkIt, hinv.bbits, hinv.sbits, hinv.bufSizes, if_pos hsb, if_neg hnl, hss,
      Nat.one_shiftLeft, e, Out.bind_ok]
    simp

theorem next_merge_end (st : ShardStore) (be : Backend) (sw b sb : Nat) (ps : List Pair)
    (hinv : st.Inv be sw b sb ps) (hsb : sb ≤ b) (brw : Bool)
    (bks : List (List Pair)) (hlen : bks.length = 2 ^ b) :
    next (mkIt st brw bks (2 ^ sb * 2 ^ (b - sb)) (2 ^ sb) [])
      = .ok (none, mkIt st brw bks (2 ^ sb * 2 ^ (b - sb)) (2 ^ sb) []) := by
  have hpow := pow_split b sb hsb
  have hl : bks.length ≤ 2 ^ sb * 2 ^ (b - sb) := by rw [hlen, hpow]; exact Nat.le_refl _
  cases be with
  | mem =>
    unfold next
    simp only [mkIt, hinv.backend]
    unfold nextMem
    by_cases hbe : b = sb
    · simp only [hinv.bbits, hinv.sbits, hbe, if_true]
      rw [if_pos (by simpa [hbe] using hl)]
    · have h2 : sb < b := by omega
      simp only [hinv.bbits, hinv.sbits, if_neg hbe, if_pos h2, if_pos hl]
  | file =>
    unfold next
    simp only [mkIt, hinv.backend]
    unfold nextFile
    simp only [hinv.bbits, hinv.sbits, if_pos hsb, if_pos hl]

/-- state of a merging iterator that has emitted `j` shards -/
def RMerge (st : ShardStore) (brw : Bool) (sw b sb : Nat) (ps : List Pair) (j : Nat) (it : Iter) :
    Prop :=
  ∃ bks, it = mkIt st brw bks (j * 2 ^ (b - sb)) j [] ∧
    AgreeFrom bks (cls sw b ps) (2 ^ b) (j * 2 ^ (b - sb)) ∧ (brw = true → bks = st.buckets)

theorem drain_merge (st : ShardStore) (be : Backend) (sw b sb : Nat) (ps : List Pair)
    (hinv : st.Inv be sw b sb ps) (hsb : sb ≤ b) (hb : b ≤ 64) (brw : Bool) (fuel : Nat)
    (hf : 2 ^ sb < fuel) :
    ∃ it', drain fuel (mkIt st brw st.buckets 0 0 []) []
        = .ok ((List.range (2 ^ sb)).map (fun j =>
            ((List.range' (j * 2 ^ (b - sb)) (2 ^ (b - sb))).map (cls sw b ps)).flatten), it') ∧
      RMerge st brw sw b sb ps (2 ^ sb) it' ∧ next it' = .ok (none, it') := by
  have hend : ∀ it, RMerge st brw sw b sb ps (2 ^ sb) it → next it = .ok (none, it) := by
    intro it ⟨bks, e, hag, _⟩
    subst e
    exact next_merge_end st be sw b sb ps hinv hsb brw bks hag.1
  have hstep : ∀ j it, j < 2 ^ sb → RMerge st brw sw b sb ps j it →
      ∃ it', next it = .ok (some (((List.range' (j * 2 ^ (b - sb)) (2 ^ (b - sb))).map
        (cls sw b ps)).flatten), it') ∧ RMerge st brw sw b sb ps (j + 1) it' := by
    intro j it hj ⟨bks, e, hag, hbk⟩
    subst e
    obtain ⟨bks', e', hag', hb'⟩ := next_merge_step st be sw b sb ps hinv hsb hb brw bks j hj hag
    exact ⟨_, e', bks', rfl, hag', fun h => by rw [hb' h, hbk h]⟩
  have h0 : RMerge st brw sw b sb ps 0 (mkIt st brw st.buckets 0 0 []) := by
    refine ⟨st.buckets, by simp, ?_, fun _ => rfl⟩
    rw [hinv.buckets, Nat.zero_mul]
    exact agreeFrom_map_range _ _
  obtain ⟨it', e, hR⟩ := drain_generic (2 ^ sb) _ _ hstep hend fuel 0 _ [] (Nat.zero_le _) h0
    (by omega)
  refine ⟨it', ?_, hR, hend it' hR⟩
  rw [e, List.range_eq_range']
  simp

end Sux.SigStore
