import SuxModel.Base.Proto
import SuxModel.SigStore.Model
/-!
# Protocol runner `sigstore` (C18)

```
case <n>                                   reset                                   -> case
new online|offline <sw> <b> <m> <vt>       new_online / new_offline::<[u64;sw], vt>(b, m, None)
                                           sw ∈ {1,2}; vt ∈ {u8,u64,unit}          -> ok | panic
push <sig> <val>                           try_push (sig decimal, = sig[0]*2^64+sig[1] if sw=2)
                                                                                    -> ok <len>
pushes <sig>:<val>,<sig>:<val>,… | -       several try_push                        -> ok <len>
len                                        SigStore::len / ShardStore::len         -> ok <n>
max_shard_high_bits                        SigStore::max_shard_high_bits           -> ok <m>
shard <s>                                  into_shard_store(s)                     -> ok | panic
shard_sizes                                ShardStore::shard_sizes                 -> ok [..]
iter                                       all shards of iter(), each shard SORTED -> ok [p,p][..]…
iter_raw                                   the same in iteration order             -> ok [p,p][..]…
iter_take <k>                              first k shards of iter() (sorted), then
                                           ExactSizeIterator::len of the rest      -> ok <rest> [..]…
into_iter / into_iter_raw                  all shards of into_iter() (store gone)  -> ok [..]…
new_hint <be> <sw> <b> <m> <vt> <hint>     the constructors with Some(hint) expected keys (capacity
                                           only: the model ignores it)             -> ok | panic
is_empty                                   SigStore::is_empty                      -> ok 0|1
temp_dir                                   SigStore::temp_dir().is_some()          -> ok some|none
into_iter_held <k>                         into_iter() while k handles of a borrowed pass are alive -> ok [..]…
into_iter_take <k>                         first k shards of into_iter() (sorted), size_hint of the
                                           rest, iterator dropped (store gone)     -> ok <rest> [..]…
svops <sw> <vt> <sigA> <valA> <sigB> <valB>   stateless: `SigVal` `==` (signature only), `^`, and
                                           `RadixKey::get_level` of A for every level (8·sw)
                                                                  -> ok <eq> <sig>:<val> [levels]
tosig <seed> <hex>                         stateless: all `ToSig` impls agree on keys with these bytes
                                           (xxh3 is not modelled: the expected reply is the law) -> ok 1
```
A pair prints as `sig:val`; no shards at all prints as `-`.  Ops in the wrong stage (e.g. `push`
after `shard`, anything after `into_iter` or after a panicking `shard`) reply `err stage`.
Domain of the protocol (anything else is `bad-op`): bits ≤ 16 or bits that make the constructor
panic before allocating (≥ 64; offline bucket bits ≥ 32); signatures < 2^(64·sw); values in range
of the value type (`unit` = `EmptyVal`: 0).
-/
namespace Sux.SigStore
open Sux.Proto

inductive Stage where
  | none
  | sig (s : Store)
  | shard (st : ShardStore)
  | dead
deriving Inhabited

structure RSt where
  stage : Stage := .none
  sw : Nat := 1
  valBound : Nat := 1
  offline : Bool := false
deriving Inhabited

def pairLe (a b : Pair) : Bool := a.1 < b.1 || (a.1 == b.1 && a.2 ≤ b.2)

def canon (l : List Pair) : List Pair := l.mergeSort pairLe

def fmtPair (p : Pair) : String := s!"{p.1}:{p.2}"

def fmtShard (l : List Pair) : String := "[" ++ ",".intercalate (l.map fmtPair) ++ "]"

def fmtShards (ls : List (List Pair)) : String :=
  if ls.isEmpty then "-" else String.join (ls.map fmtShard)

def parsePair (s : String) : Option Pair :=
  match s.splitOn ":" with
  | [a, b] => match a.toNat?, b.toNat? with
    | some a, some b => some (a, b)
    | _, _ => none
  | _ => none

def parsePairs (s : String) : Option (List Pair) :=
  if s == "-" then some [] else (s.splitOn ",").mapM parsePair

def outStr {α} (o : Out α) (f : α → String) : String :=
  match o with
  | .ok v => f v
  | .panic => "panic"
  | .oob => "oob"

/-- `RadixKey::get_level` for every level: byte `l` (least significant first) of the signature read
    as one number (`sig[0]·2^64 + sig[1]` for two words) -/
def radixLevels (sw sig : Nat) : List Nat :=
  (List.range (8 * sw)).map fun l => (sig >>> (8 * l)) % 256

def isHexArg (s : String) : Bool :=
  s == "-" || (s.length % 2 == 0 && s.toList.all fun c => c.isDigit || ('a' ≤ c && c ≤ 'f'))

def bitsOk (offlineBuckets : Bool) (b : Nat) : Bool :=
  b ≤ 16 || 64 ≤ b || (offlineBuckets && 32 ≤ b)

def step (r : RSt) (toks : List String) : RSt × String :=
  let bad := (r, "bad-op")
  let wrong := (r, "err stage")
  -- the expected number of keys only sizes the initial allocation
  let toks := match toks with
    | ["new_hint", be, sw, b, m, vt, h] => if (parseNat h).isSome then ["new", be, sw, b, m, vt] else toks
    | _ => toks
  match toks with
  | ["case", _] => ({}, "case")
  | ["svops", sw, vt, sa, va, sb, vb] =>
    let vb? : Option Nat := if vt == "u8" then some 256 else if vt == "u64" then some (2 ^ 64)
      else if vt == "unit" then some 1 else none
    match parseNat sw, vb?, parseNat sa, parseNat va, parseNat sb, parseNat vb with
    | some sw, some bound, some sa, some va, some sb, some vb =>
      if (sw = 1 ∨ sw = 2) ∧ sa < 2 ^ (64 * sw) ∧ sb < 2 ^ (64 * sw) ∧ va < bound ∧ vb < bound then
        (r, s!"ok {fmtBool (sa == sb)} {sa ^^^ sb}:{va ^^^ vb} {fmtNatList (radixLevels sw sa)}")
      else bad
    | _, _, _, _, _, _ => bad
  | ["tosig", seed, h] =>
    match parseNat seed with
    | some seed => if seed < 2 ^ 64 ∧ isHexArg h then (r, "ok 1") else bad
    | none => bad
  | ["new", be, sw, b, m, vt] =>
    let be? : Option Backend := if be == "online" then some .mem else if be == "offline" then some .file else none
    let vb? : Option Nat := if vt == "u8" then some 256 else if vt == "u64" then some (2 ^ 64)
      else if vt == "unit" then some 1 else none
    match be?, parseNat sw, parseNat b, parseNat m, vb? with
    | some be, some sw, some b, some m, some vb =>
      if (sw = 1 ∨ sw = 2) ∧ bitsOk (be == .file) b ∧ bitsOk false m then
        match new be sw b m with
        | .ok s => ({ stage := .sig s, sw := sw, valBound := vb, offline := be == .file }, "ok")
        | .panic => ({ stage := .none, sw := sw, valBound := vb, offline := be == .file }, "panic")
        | .oob => ({ stage := .none, sw := sw, valBound := vb, offline := be == .file }, "oob")
      else bad
    | _, _, _, _, _ => bad
  | ["push", sig, val] =>
    match parseNat sig, parseNat val with
    | some sig, some val =>
      match r.stage with
      | .sig s =>
        if sig < 2 ^ (64 * r.sw) ∧ val < r.valBound then
          match tryPush s (sig, val) with
          | .ok s' => ({ r with stage := .sig s' }, s!"ok {s'.len}")
          | .panic => (r, "panic")
          | .oob => (r, "oob")
        else bad
      | _ => wrong
    | _, _ => bad
  | ["pushes", ps] =>
    match parsePairs ps with
    | some ps =>
      match r.stage with
      | .sig s =>
        if ps.all (fun p => p.1 < 2 ^ (64 * r.sw) ∧ p.2 < r.valBound) then
          match pushAll s ps with
          | .ok s' => ({ r with stage := .sig s' }, s!"ok {s'.len}")
          | .panic => (r, "panic")
          | .oob => (r, "oob")
        else bad
      | _ => wrong
    | none => bad
  | ["len"] =>
    match r.stage with
    | .sig s => (r, s!"ok {s.len}")
    | .shard st => (r, s!"ok {st.len}")
    | _ => wrong
  | ["max_shard_high_bits"] =>
    match r.stage with
    | .sig s => (r, s!"ok {s.maxShardHighBits}")
    | _ => wrong
  | ["is_empty"] =>
    match r.stage with
    | .sig s => (r, s!"ok {fmtBool (s.len == 0)}")
    | _ => wrong
  | ["temp_dir"] =>
    match r.stage with
    | .sig _ => (r, if r.offline then "ok some" else "ok none")
    | _ => wrong
  | ["shard", sb] =>
    match parseNat sb with
    | some sb =>
      match r.stage with
      | .sig s => match intoShardStore s sb with
        | .ok st => ({ r with stage := .shard st }, "ok")
        | .panic => ({ r with stage := .dead }, "panic")
        | .oob => ({ r with stage := .dead }, "oob")
      | _ => wrong
    | none => bad
  | ["shard_sizes"] =>
    match r.stage with
    | .shard st => (r, s!"ok {fmtNatList st.shardSizes}")
    | _ => wrong
  | ["iter"] =>
    match r.stage with
    | .shard st => match collect st.iter with
      | .ok (ls, it) => ({ r with stage := .shard it.store }, s!"ok {fmtShards (ls.map canon)}")
      | .panic => (r, "panic")
      | .oob => (r, "oob")
    | _ => wrong
  | ["iter_raw"] =>
    match r.stage with
    | .shard st => match collect st.iter with
      | .ok (ls, it) => ({ r with stage := .shard it.store }, s!"ok {fmtShards ls}")
      | .panic => (r, "panic")
      | .oob => (r, "oob")
    | _ => wrong
  | ["iter_take", k] =>
    match parseNat k with
    | some k =>
      match r.stage with
      | .shard st => match drain k st.iter [] with
        | .ok (ls, it) =>
          ({ r with stage := .shard it.store },
            outStr it.len (fun n => s!"ok {n} {fmtShards (ls.map canon)}"))
        | .panic => (r, "panic")
        | .oob => (r, "oob")
      | _ => wrong
    | none => bad
  | ["into_iter_take", k] =>
    match parseNat k with
    | some k =>
      match r.stage with
      | .shard st => match drain k st.intoIter [] with
        | .ok (ls, it) =>
          ({ r with stage := .dead },
            outStr it.len (fun n => s!"ok {n} {fmtShards (ls.map canon)}"))
        | .panic => ({ r with stage := .dead }, "panic")
        | .oob => ({ r with stage := .dead }, "oob")
      | _ => wrong
    | none => bad
  | ["into_iter"] =>
    match r.stage with
    | .shard st =>
      ({ r with stage := .dead }, outStr (collect st.intoIter) (fun x => s!"ok {fmtShards (x.1.map canon)}"))
    | _ => wrong
  | ["into_iter_held", k] =>
    -- the caller keeps k shard handles of a borrowed pass alive: shards are values, nothing changes
    match parseNat k with
    | some _ =>
      match r.stage with
      | .shard st =>
        ({ r with stage := .dead }, outStr (collect st.intoIter) (fun x => s!"ok {fmtShards (x.1.map canon)}"))
      | _ => wrong
    | none => bad
  | ["into_iter_raw"] =>
    match r.stage with
    | .shard st =>
      ({ r with stage := .dead }, outStr (collect st.intoIter) (fun x => s!"ok {fmtShards x.1}"))
    | _ => wrong
  | _ => bad

def runner : Runner := { σ := RSt, init := {}, step := step }

end Sux.SigStore
