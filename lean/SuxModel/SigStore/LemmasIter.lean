import SuxModel.SigStore.LemmasPush
/-!
# The shard iterator: generic drain lemma, bucket readers, the merge branches
(memory `equal`, memory `aggregate`, file `aggregate`)
-/
namespace Sux.SigStore

/-- If `next` walks through states `R 0, R 1, …, R N` emitting `F j` at step `j` and returns
`None` in `R N`, then draining from `R j` yields `F j, …, F (N-1)` and ends in `R N`. -/
theorem drain_generic (N : Nat) (F : Nat → List Pair) (R : Nat → Iter → Prop)
    (hstep : ∀ j it, j < N → R j it → ∃ it', next it = .ok (some (F j), it') ∧ R (j + 1) it')
    (hend : ∀ it, R N it → next it = .ok (none, it)) :
    ∀ (fuel j : Nat) (it : Iter) (acc : List (List Pair)), j ≤ N → R j it → N - j < fuel →
      ∃ it', drain fuel it acc = .ok (acc ++ (List.range' j (N - j)).map F, it') ∧ R N it' := by
  intro fuel
  induction fuel with
  | zero => intro j it acc _ _ h; omega
  | succ fuel ih =>
    intro j it acc hj hR hf
    by_cases hjN : j = N
    · subst hjN
      refine ⟨it, ?_, hR⟩
      unfold drain
      rw [hend it hR]
      simp
    · obtain ⟨it', e, hR'⟩ := hstep j it (by omega) hR
      obtain ⟨it'', e', hR''⟩ := ih (j + 1) it' (acc ++ [F j]) (by omega) hR' (by omega)
      refine ⟨it'', ?_, hR''⟩
      unfold drain
      rw [e]
      simp only [Out.bind_ok]
      rw [e']
      have : N - j = (N - (j + 1)) + 1 := by omega
      rw [this, List.range'_succ]
      simp

/-- an iterator state over the store `st` whose bucket list has become `bks` -/
def mkIt (st : ShardStore) (brw : Bool) (bks : List (List Pair)) (nb ns : Nat)
    (q : List (List Pair)) : Iter :=
  { store := { st with buckets := bks }, borrowed := brw, nextBucket := nb, nextShard := ns,
    shards := q }

theorem iter_eq_mkIt (st : ShardStore) : st.iter = mkIt st true st.buckets 0 0 [] := rfl

theorem intoIter_eq_mkIt (st : ShardStore) : st.intoIter = mkIt st false st.buckets 0 0 [] := rfl

/-- `bks` has `n` buckets and agrees with `B` from index `lo` on (consumed buckets below `lo`
may have been released) -/
def AgreeFrom (bks : List (List Pair)) (B : Nat → List Pair) (n lo : Nat) : Prop :=
  bks.length = n ∧ ∀ k, lo ≤ k → k < n → bks[k]? = some (B k)

theorem agreeFrom_map_range (B : Nat → List Pair) (n : Nat) :
    AgreeFrom ((List.range n).map B) B n 0 := by
  refine ⟨by simp, ?_⟩
  intro k _ hk
  rw [getElem?_map_range, if_pos hk]

theorem AgreeFrom.mono {bks B n lo} (h : AgreeFrom bks B n lo) (lo' : Nat) (hl : lo ≤ lo') :
    AgreeFrom bks B n lo' :=
  ⟨h.1, fun k hk hkn => h.2 k (by omega) hkn⟩

theorem agreeFrom_set {bks B n i} (h : AgreeFrom bks B n i) (x : List Pair) :
    AgreeFrom (bks.set i x) B n (i + 1) := by
  refine ⟨by rw [List.length_set]; exact h.1, ?_⟩
  intro k hk hkn
  rw [List.getElem?_set_ne (by omega)]
  exact h.2 k (by omega) hkn

theorem takeOrClone_spec (brw : Bool) (bks : List (List Pair)) (B : Nat → List Pair) (n i : Nat)
    (h : AgreeFrom bks B n i) (hi : i < n) :
    ∃ bks', takeOrClone brw bks i = .ok (B i, bks') ∧ AgreeFrom bks' B n (i + 1) ∧
      (brw = true → bks' = bks) := by
  unfold takeOrClone
  rw [h.2 i (Nat.le_refl i) hi]
  cases brw with
  | true => exact ⟨bks, rfl, h.mono _ (by omega), fun _ => rfl⟩
  | false => exact ⟨bks.set i [], rfl, agreeFrom_set h [], fun e => by cases e⟩

theorem readFile_spec (bks : List (List Pair)) (B : Nat → List Pair) (n i : Nat)
    (h : AgreeFrom bks B n i) (hi : i < n) :
    readFile ((List.range n).map (fun k => (B k).length)) bks i = .ok (B i, bks) := by
  unfold readFile
  rw [h.2 i (Nat.le_refl i) hi, getElem?_map_range, if_pos hi]
  simp

theorem aggrLoop_spec (brw : Bool) (B : Nat → List Pair) (n : Nat) :
    ∀ (c i : Nat) (bks : List (List Pair)) (acc : List Pair), AgreeFrom bks B n i → i + c ≤ n →
      ∃ bks', aggrLoop brw c i bks acc = .ok (acc ++ ((List.range' i c).map B).flatten, bks') ∧
        AgreeFrom bks' B n (i + c) ∧ (brw = true → bks' = bks) := by
  intro c
  induction c with
  | zero =>
    intro i bks acc h _
    exact ⟨bks, by simp [aggrLoop], h, fun _ => rfl⟩
  | succ c ih =>
    intro i bks acc h hle
    obtain ⟨bks1, e1, h1, hb1⟩ := takeOrClone_spec brw bks B n i h (by omega)
    obtain ⟨bks2, e2, h2, hb2⟩ := ih (i + 1) bks1 (acc ++ B i) h1 (by omega)
    refine ⟨bks2, ?_, ?_, ?_⟩
    · unfold aggrLoop
      rw [e1]
      simp only [Out.bind_ok]
      rw [e2, List.range'_succ]
      simp
    · have : i + (c + 1) = i + 1 + c := by omega
      rw [this]; exact h2
    · intro hb
      rw [hb2 hb, hb1 hb]

theorem fileAggrLoop_spec (brw : Bool) (B : Nat → List Pair) (n : Nat) :
    ∀ (c i : Nat) (bks : List (List Pair)) (acc : List Pair) (r : Nat),
      AgreeFrom bks B n i → i + c ≤ n →
      ∃ bks', fileAggrLoop brw ((List.range n).map (fun k => (B k).length)) c i bks acc
          (r + ((List.range' i c).map (fun k => (B k).length)).sum)
          = .ok (acc ++ ((List.range' i c).map B).flatten, bks', r) ∧
        AgreeFrom bks' B n (i + c) ∧ (brw = true → bks' = bks) := by
  intro c
  induction c with
  | zero =>
    intro i bks acc r h _
    exact ⟨bks, by simp [fileAggrLoop], h, fun _ => rfl⟩
  | succ c ih =>
    intro i bks acc r h hle
    have hi : i < n := by omega
    have hb : AgreeFrom (if brw = true then bks else bks.set i []) B n (i + 1) := by
      cases brw with
      | true => exact h.mono _ (by omega)
      | false => exact agreeFrom_set h []
    obtain ⟨bks2, e2, h2, hb2⟩ := ih (i + 1) _ (acc ++ B i) r hb (by omega)
    refine ⟨bks2, ?_, ?_, ?_⟩
    · unfold fileAggrLoop
      rw [h.2 i (Nat.le_refl i) hi, getElem?_map_range, if_pos hi]
      simp only [List.range'_succ, List.map_cons, List.sum_cons]
      have hs : r + ((B i).length + ((List.range' (i + 1) c).map (fun k => (B k).length)).sum)
          - (B i).length = r + ((List.range' (i + 1) c).map (fun k => (B k).length)).sum := by
        omega
      rw [if_neg (by omega), if_neg (by omega), hs, List.take_length, e2]
      simp
    · have : i + (c + 1) = i + 1 + c := by omega
      rw [this]; exact h2
    · intro hbt
      rw [hb2 hbt]
      simp [hbt]

end Sux.SigStore
