import SuxModel.SigStore.Model
/-!
# Specification vocabulary for C18

`cls sw bits ps k` : the pushed pairs whose top `bits` bits (of the first signature word) are `k`,
in push order.  The property says: shard `i` of a store sharded with `sb` bits is, as a multiset,
`cls sw sb ps i`.

`iterOrder` additionally records the order in which the real iterators emit the pairs of a shard
(not part of the property; the `iter_raw` protocol op makes drift visible): when several buckets
are concatenated into a shard the pairs come bucket by bucket, otherwise in push order.
-/
namespace Sux.SigStore

def cls (sw bits : Nat) (ps : List Pair) (k : Nat) : List Pair :=
  ps.filter (fun p => highBits sw p.1 bits == k)

def iterOrder (sw b sb : Nat) (ps : List Pair) (i : Nat) : List Pair :=
  if sb < b then
    ((List.range' (i * 2 ^ (b - sb)) (2 ^ (b - sb))).map (cls sw b ps)).flatten
  else cls sw sb ps i

/-- the triples accepted by `new_*` + `into_shard_store` without a panic -/
def Admissible (be : Backend) (b m sb : Nat) : Prop :=
  b < 64 ∧ m < 64 ∧ sb ≤ m ∧ (be = .file → b < 31)

end Sux.SigStore
