import SuxModel.Props.C01
import SuxModel.Props.C02Adapt
import SuxModel.Props.C02Small9
import SuxModel.Props.C03
import SuxModel.Props.C04
import SuxModel.Props.C05
import SuxModel.Props.C06
import SuxModel.Props.C07
import SuxModel.Props.C08
import SuxModel.Props.C09
import SuxModel.Props.C10
import SuxModel.Props.C13
import SuxModel.Props.C16
import SuxModel.Props.C18
import SuxModel.Props.C19
import SuxModel.BitFieldVec.UnalignedSafe
import SuxModel.Func.EdgeBridge
import SuxModel.Atomic.LemmasChecked
import SuxModel.RCL.LemmasNoOob
/-!
# C12 — no safe call reads or writes outside its buffers: it answers or it panics

In every model of this project a `get_unchecked`-style access of the Rust code is a *checked* read
whose failure is the outcome `.oob` (`SuxModel/Base/Out.lean`); safe indexing fails with `.panic`.
Memory safety of a safe public method is therefore the theorem

  for every state satisfying the constructor invariant and EVERY argument value,
  the outcome of the method's model is not `.oob` (it is `.ok _` or `.panic`).

This file ASSEMBLES these theorems, one section per structure.  Each theorem below is a short
derivation from the theorem(s) of the component's own property file (named in its doc comment); it
is stated for the whole argument domain (index ≥ len, rank ≥ count, query above the universe
bound, start = len, empty structure, never-inserted key) and is followed by an `example` on an
out-of-domain argument.  `AnswersOrPanics x` is the property's wording; it is `x ≠ .oob`
(`answersOrPanics_iff`).

## Closed here (not available before this file)

* `BitFieldVec::get_unaligned`: `bfv_get_unaligned_never_oob` — for EVERY index and EVERY state
  (no invariant needed), from the new lemma `BFV.getUnaligned_never_oob`
  (`BitFieldVec/UnalignedSafe.lean`): the method's own three `assert!`s make the unchecked
  word reads safe.
* `VFunc::get_by_sig`, `VFilter::contains_by_sig` for an ARBITRARY signature (a key that was never
  inserted): `get_by_sig_never_oob`, `contains_by_sig_never_oob`, from the C16 range theorem
  `Edge.edge_ok` through the bridge `Func.edge_bridge` (`Func/EdgeBridge.lean`) between the two
  edge models, with `cells.size = num_vertices * num_shards` (what `try_seed` allocates).
* atomic vectors, out-of-range index / oversized value on the SAFE calls (`set_atomic`,
  `get_atomic`, `AtomicBitVec::{set,swap,get}`): `atomic_safe_calls_never_oob` — any number of
  threads, any interleaving, arbitrary indices and values: no thread reaches the status `oob`
  (new invariant `Thread.Guarded`, `Atomic/LemmasChecked.lean`, built on C13's per-call lemmas);
  `atomic_checked_out_of_domain`: such a call unwinds at its first micro-step, memory untouched.

* `RearCodedList::get_in_place(i)` with `i ≥ len` (a safe method WITHOUT an explicit bounds check):
  `rcl_get_in_place_never_oob`, for every `RCL` value and every index, from the new structural
  lemma `RCL.getInPlace_ne_oob` (`RCL/LemmasNoOob.lean`).

## Open (no theorem in the tree yet)

* `BitFieldVec::copy` called outside its documented preconditions (`start > src.len`,
  `to > dst.len`, different widths): C10 proves it total only under the preconditions
  (+ the width-0 panic); `apply_in_place` with a callback returning a value that does not fit.
* the GF(2) solvers on systems outside `Sys.WF` / `Sys.WF0` (rows with empty or unsorted variable
  lists): C19's examples show panics there, and the model has no primitive that *creates* `.oob`
  (it only propagates it), but there is no theorem `∀ s, s.gauss ≠ .oob`.
* `VBuilder` (the construction side of functions/filters): `peel_by_index`, `assign`,
  `lge_shard` are covered as `.ok`/`.panic` statements by C07 under C16's `EdgeOK`; they are
  internal, not restated here.

## What the theorems do NOT cover

* The `*_unchecked` family (`get_unchecked`, `set_unchecked`, `select_unchecked`,
  `rank_unchecked`, `succ_unchecked`, `pred_unchecked`, `get_atomic_unchecked`, …) and the unaligned
  query variants of functions and filters (`get_by_sig_unaligned`, `contains_by_sig_unaligned`,
  `get_unaligned` / `contains_unaligned`): their documentation states an unchecked precondition;
  they are outside the property.  (The models do contain them — e.g. `EF.succU`, `BFV.getU`,
  `Func.getBySigUnaligned` — and out of contract they do return `.oob`.)
* The real memory accesses of the Rust code.  A Lean theorem speaks about the model; the tie to
  the implementation is the differential run: every runner's out-of-domain ops (≲ 15 % of each
  generated case, plus the directed out-of-domain batteries) are executed on the real code in a
  build where `core`'s unsafe-precondition checks turn an out-of-range `get_unchecked` into a
  process abort; the outcome classes {value, unwinding panic, abort} must match the model's
  {`.ok`, `.panic`, `.oob`} line by line (DESIGN §6-C12 (K); defects D5, D7, D8, D9, D22 were
  found this way).  Reads that stay inside an allocation's capacity are invisible to these
  checks (Miri tier).
* Lenders (`src/utils/lenders.rs`): no unchecked access in the code, the model (`Sux.Lender`)
  has no `Out` at all; nothing to state.
-/
namespace Sux.C12

/-! ## vocabulary -/

/-- the property's wording: the call returns a value or unwinds -/
def AnswersOrPanics {α : Type} (x : Out α) : Prop := (∃ a, x = .ok a) ∨ x = .panic

theorem answersOrPanics_iff {α : Type} (x : Out α) : AnswersOrPanics x ↔ x ≠ .oob := by
  unfold AnswersOrPanics
  cases x with
  | ok a => exact ⟨fun _ e => (by cases e), fun _ => Or.inl ⟨a, rfl⟩⟩
  | panic => exact ⟨fun _ e => (by cases e), fun _ => Or.inr rfl⟩
  | oob =>
    refine ⟨fun h => ?_, fun h => absurd rfl h⟩
    rcases h with ⟨a, h⟩ | h <;> cases h

theorem ne_oob_of_ok {α : Type} {x : Out α} {a : α} (h : x = .ok a) : x ≠ .oob := by
  rw [h]; intro e; cases e

theorem ne_oob_of_panic {α : Type} {x : Out α} (h : x = .panic) : x ≠ .oob := by
  rw [h]; intro e; cases e

example : AnswersOrPanics (Out.readS #[1, 2] 7) := (answersOrPanics_iff _).2 (by decide)
example : ¬ AnswersOrPanics (Out.readU #[1, 2] 7) := fun h => (answersOrPanics_iff _).1 h (by decide)

/-! ## `BitVec` (`src/bits/bit_vec.rs`) — from C06 -/

section BitVec
open Sux.BV

/-- every op of the `BitVec` op language (push, pop, set, swap, get, resize, fill, flip, reset,
extend, the three iterators, the two counts) with EVERY argument, on every state with
`len ≤ 64 * words.size` (garbage beyond `len` allowed).  From `BV.step_never_oob`. -/
theorem bitvec_step_never_oob (s : St) (h : s.Inv) (op : Op) : step s op ≠ .oob :=
  step_never_oob s h op

/-- … and every finite history.  From `BV.run_never_oob`. -/
theorem bitvec_run_never_oob (s : St) (h : s.Inv) (ops : List Op) : run s ops ≠ .oob :=
  run_never_oob s h ops

/-- index at or past the length: `get`, `set`, `swap` panic.  From `BV.step_refines`. -/
theorem bitvec_index_out_of_range (s : St) (h : s.Inv) (i : Nat) (hi : s.len ≤ i) (b : Bool) :
    step s (.get i) = .panic ∧ step s (.set i b) = .panic ∧ step s (.swap i b) = .panic := by
  have hn : ¬ i < s.abs.length := by rw [abs_length]; omega
  have h1 := step_refines s h (.get i)
  have h2 := step_refines s h (.set i b)
  have h3 := step_refines s h (.swap i b)
  simp only [specStep, if_neg hn] at h1 h2 h3
  exact ⟨h1, h2, h3⟩

/-- the empty vector (even without storage: `with_capacity(0)`): the three iterators return the
empty list (D5 was an `oob` exactly here).  From `BV.step_refines`, `BV.withCapacity_spec`. -/
theorem bitvec_empty_iterators (c : Nat) :
    (∃ s', step (withCapacity c) .ones = .ok (s', .nats [])) ∧
    (∃ s', step (withCapacity c) .zeros = .ok (s', .nats [])) ∧
    (∃ s', step (withCapacity c) .iter = .ok (s', .bools [])) := by
  obtain ⟨hinv, habs⟩ := withCapacity_spec c
  have h1 := step_refines _ hinv .ones
  have h2 := step_refines _ hinv .zeros
  have h3 := step_refines _ hinv .iter
  rw [habs] at h1 h2 h3
  obtain ⟨s1, e1, -⟩ := h1
  obtain ⟨s2, e2, -⟩ := h2
  obtain ⟨s3, e3, -⟩ := h3
  exact ⟨⟨s1, e1⟩, ⟨s2, e2⟩, ⟨s3, e3⟩⟩

-- index far beyond a vector with garbage after `len`; the storage-less empty vector
example : step exA (.get (2 ^ 64 - 1)) ≠ .oob := bitvec_step_never_oob exA exA_inv _
example : step exA (.get 70) = .panic := (bitvec_index_out_of_range exA exA_inv 70 (by decide) true).1
example : step exA (.swap 1000 true) = .panic :=
  (bitvec_index_out_of_range exA exA_inv 1000 (by decide) true).2.2
example : run (withCapacity 0) [.pop, .ones, .get 0] ≠ .oob :=
  bitvec_run_never_oob _ (withCapacity_spec 0).1 _
example : ∃ s', step (withCapacity 0) .ones = .ok (s', .nats []) := (bitvec_empty_iterators 0).1

end BitVec

/-! ## `BitFieldVec` (`src/bits/bit_field_vec.rs`) — from C05, C10 -/

section BitFieldVec
open Sux.BFV

/-- every op (push, pop, set, get, resize, clear, extend, reset, `iter_from`, `rev_iter_from`)
with EVERY argument, under the weak invariant `WInv` that every safe constructor establishes
(`with_capacity` of a non-zero width included: no backing word at all).
From `BFV.step_never_oob_weak`. -/
theorem bfv_step_never_oob (W : Nat) (hW : 0 < W) (s : St) (h : s.WInv W) (op : Op) :
    step W s op ≠ .oob :=
  step_never_oob_weak W hW s h op

/-- … and every finite history.  From `BFV.run_never_oob_weak`. -/
theorem bfv_run_never_oob (W : Nat) (hW : 0 < W) (s : St) (h : s.WInv W) (ops : List Op) :
    run W s ops ≠ .oob :=
  run_never_oob_weak W hW s h ops

/-- index at or past the length (`get`, `set`), value that does not fit (`set`, `push`), start
position past the length (`iter_from`, `rev_iter_from`): panic.  From `BFV.step_refines_weak`. -/
theorem bfv_out_of_domain_panics (W : Nat) (hW : 0 < W) (s : St) (h : s.WInv W) (i v : Nat) :
    (s.len ≤ i → step W s (.get i) = .panic ∧ step W s (.set i v) = .panic) ∧
    (2 ^ s.bw ≤ v → step W s (.set i v) = .panic ∧ step W s (.push v) = .panic) ∧
    (s.len < i → step W s (.iterFrom i) = .panic ∧ step W s (.revIterFrom i) = .panic) := by
  have h1 := step_refines_weak W hW s h (.get i)
  have h2 := step_refines_weak W hW s h (.set i v)
  have h3 := step_refines_weak W hW s h (.push v)
  have h4 := step_refines_weak W hW s h (.iterFrom i)
  have h5 := step_refines_weak W hW s h (.revIterFrom i)
  simp only [specStep, vals_length] at h1 h2 h3 h4 h5
  refine ⟨fun hi => ?_, fun hv => ?_, fun hi => ?_⟩
  · rw [if_neg (by omega)] at h1
    rw [if_neg (by omega)] at h2
    exact ⟨h1, h2⟩
  · rw [if_neg (by omega)] at h2
    rw [if_neg (by omega)] at h3
    exact ⟨h2, h3⟩
  · rw [if_neg (by omega)] at h4
    rw [if_neg (by omega)] at h5
    exact ⟨h4, h5⟩

/-- start position exactly at the end: both iterators answer (the empty / the reversed list).
From `BFV.step_refines_weak`. -/
theorem bfv_iter_from_len (W : Nat) (hW : 0 < W) (s : St) (h : s.WInv W) :
    (∃ s', step W s (.iterFrom s.len) = .ok (s', .nats [])) ∧
    (∃ s' l, step W s (.revIterFrom s.len) = .ok (s', .nats l)) := by
  have h4 := step_refines_weak W hW s h (.iterFrom s.len)
  have h5 := step_refines_weak W hW s h (.revIterFrom s.len)
  simp only [specStep, vals_length, Nat.le_refl, if_true] at h4 h5
  obtain ⟨s4, e4, -⟩ := h4
  obtain ⟨s5, e5, -⟩ := h5
  refine ⟨⟨s4, ?_⟩, ⟨s5, _, e5⟩⟩
  rw [e4]
  have : List.drop s.len (s.vals W) = [] := List.drop_eq_nil_of_le (by simp)
  rw [this]

/-- `try_chunks_mut`: no chunk operation (any chunk size, chunk index, element index, read or
write) leaves the backing words.  From `BFV.chunk_no_oob` (C10). -/
theorem bfv_chunk_never_oob (W : Nat) (hW : 0 < W) (s : St) (h : s.Inv W) (cs j i : Nat)
    (v : Option Nat) : chunkOp W s cs j i v ≠ .oob :=
  chunk_no_oob W hW s h cs j i v

/-- **`get_unaligned(i)`** for EVERY `i` and EVERY state (word size a positive multiple of 8): the
method's asserts (admissible width, `i < len`, padding) make its unchecked reads safe; when all
three hold and the invariant holds it returns `get(i)` (`BFV.unaligned_eq_get`, C10), otherwise
it panics.  From `BFV.getUnaligned_never_oob`, `BFV.getUnaligned_panics`
(`BitFieldVec/UnalignedSafe.lean`). -/
theorem bfv_get_unaligned_never_oob (W : Nat) (h8 : 8 ∣ W) (hW : 0 < W) (s : St) (i : Nat) :
    getUnaligned W s i ≠ .oob :=
  getUnaligned_never_oob W h8 hW s i

theorem bfv_get_unaligned_out_of_domain (W : Nat) (s : St) (i : Nat)
    (h : ¬ (s.bw ≤ W - 8 + 2 ∨ s.bw = W - 8 + 4 ∨ s.bw = W) ∨ s.len ≤ i ∨
      s.words.size * (W / 8) < i * s.bw / 8 + W / 8) :
    getUnaligned W s i = .panic :=
  getUnaligned_panics W s i h

-- out-of-range index, oversized value, start past the end, on a store with garbage beyond `len`
example : step 8 exSt (.get 5) = .panic :=
  ((bfv_out_of_domain_panics 8 (by decide) exSt exSt_inv.toWInv 5 0).1 (by decide)).1
example : step 8 exSt (.set 0 8) = .panic :=
  ((bfv_out_of_domain_panics 8 (by decide) exSt exSt_inv.toWInv 0 8).2.1 (by decide)).1
example : step 8 exSt (.iterFrom 6) = .panic :=
  ((bfv_out_of_domain_panics 8 (by decide) exSt exSt_inv.toWInv 6 0).2.2 (by decide)).1
example : ∃ s', step 8 exSt (.iterFrom 5) = .ok (s', .nats []) :=
  (bfv_iter_from_len 8 (by decide) exSt exSt_inv.toWInv).1
-- the empty vector without any backing word (`with_capacity(3 bits, 0)`), and width 0 (D9)
example : run 8 (withCapacity 8 3 0) [.get 0, .pop, .iterFrom 0] ≠ .oob :=
  bfv_run_never_oob 8 (by decide) _ (withCapacity_spec_w 8 3 0 (by decide)).1 _
example : step 8 (withCapacity 8 0 10) (.push 0) ≠ .oob :=
  bfv_step_never_oob 8 (by decide) _ (withCapacity_spec_w 8 0 10 (by decide)).1 _
-- chunk index far outside
example : chunkOp 8 exSt 2 1000 7 none ≠ .oob :=
  bfv_chunk_never_oob 8 (by decide) exSt exSt_inv 2 1000 7 none
-- `get_unaligned` at `len`, and on a store without the padding word
example : getUnaligned 8 exSt 5 = .panic := bfv_get_unaligned_out_of_domain 8 exSt 5 (Or.inr (Or.inl (by decide)))
example : getUnaligned 16 ⟨#[0xABCD], 7, 2⟩ 1 ≠ .oob :=
  bfv_get_unaligned_never_oob 16 (by decide) (by decide) _ 1
example : getUnaligned 16 ⟨#[], 7, 2⟩ 1 = .panic :=
  bfv_get_unaligned_out_of_domain 16 _ 1 (Or.inr (Or.inr (by decide)))

end BitFieldVec

/-! ## Rank structures (`src/rank_sel/rank9.rs`, `rank_small.rs`) — from C01 -/

section Rank
open Sux.RS

/-- `Rank9::new(bits).rank(p)` for EVERY `p` (positions at or past `len` are clamped), every
backend with `len ≤ 64 * ws.size` (stale bits, extra words): the builder does not panic and the
query answers.  From `RS.rank9_rankOf`. -/
theorem rank9_never_oob (ws : Array Nat) (len : Nat) (h : len ≤ 64 * ws.size) (p : Nat) :
    Rank9.rankOf ws len p ≠ .oob ∧ ∃ v, Rank9.rankOf ws len p = .ok v :=
  ⟨ne_oob_of_ok (rank9_rankOf ws len h p), _, rank9_rankOf ws len h p⟩

/-- the same from the built counters (`rank`, `rank_zero`), for every `p`.
From `RS.rank9_correct`, `RS.rank9_rankZero_numZeros`. -/
theorem rank9_queries_never_oob (ws : Array Nat) (len : Nat) (h : len ≤ 64 * ws.size) :
    ∃ counts, Rank9.build ws len = .ok counts ∧
      ∀ p, Rank9.rank ws len counts p ≠ .oob ∧ Rank9.rankZero ws len counts p ≠ .oob := by
  obtain ⟨counts, hb, hr⟩ := rank9_correct ws len h
  obtain ⟨counts', hb', hz, -⟩ := rank9_rankZero_numZeros ws len h
  rw [hb] at hb'; cases hb'
  exact ⟨counts, hb, fun p => ⟨ne_oob_of_ok (hr p), ne_oob_of_ok (hz p)⟩⟩

/-- `rank_small![k; bits].rank(p)` for the five variants and EVERY `p`.
From `RS.rankSmall_rankOf`. -/
theorem rankSmall_never_oob (k : Nat) (ws : Array Nat) (len : Nat) (h : len ≤ 64 * ws.size)
    (p : Nat) :
    RankSmall.rankOf (RankSmall.variant k) ws len p ≠ .oob ∧
      ∃ v, RankSmall.rankOf (RankSmall.variant k) ws len p = .ok v :=
  ⟨ne_oob_of_ok (rankSmall_rankOf k ws len h p), _, rankSmall_rankOf k ws len h p⟩

/-- every admissible parameter tuple, `rank` and `rank_zero`, every `p`.
From `RS.rankSmall_correct`, `RS.rankSmall_numOnes_rankZero_numZeros`. -/
theorem rankSmall_queries_never_oob (P : RankSmall.SmallParams) (hP : RankSmall.Admissible P)
    (ws : Array Nat) (len : Nat) (h : len ≤ 64 * ws.size) :
    ∃ x, RankSmall.build P ws len = .ok x ∧
      ∀ p, RankSmall.rank P ws len x p ≠ .oob ∧ RankSmall.rankZero P ws len x p ≠ .oob := by
  obtain ⟨x, hb, hr⟩ := rankSmall_correct P hP ws len h
  obtain ⟨x', hb', -, hz, -⟩ := rankSmall_numOnes_rankZero_numZeros P hP ws len h
  rw [hb] at hb'; cases hb'
  exact ⟨x, hb, fun p => ⟨ne_oob_of_ok (hr p), ne_oob_of_ok (hz p)⟩⟩

-- positions far beyond a 3-bit vector with stale bits; the empty vector over no words
example : Rank9.rankOf exStale 3 (2 ^ 64 - 1) ≠ .oob := (rank9_never_oob exStale 3 exStale_len _).1
example : ∀ p, Rank9.rankOf #[] 0 p ≠ .oob := fun p => (rank9_never_oob #[] 0 (by decide) p).1
example : ∀ k, RankSmall.rankOf (RankSmall.variant k) exFull 515 1000000 ≠ .oob :=
  fun k => (rankSmall_never_oob k exFull 515 exFull_len515 _).1
example : ∀ k p, RankSmall.rankOf (RankSmall.variant k) #[] 0 p ≠ .oob :=
  fun k p => (rankSmall_never_oob k #[] 0 (by decide) p).1

end Rank

/-! ## Selection, adaptive family (`select_adapt.rs`, `select_zero_adapt.rs`,
`select_adapt_const.rs`, `select_zero_adapt_const.rs`) — from C02 (part A) -/

section SelectAdapt
open Sux.RS Sux.RS.Adapt

/-- `select(r)` / `select_zero(r)` from the invariant of the built arrays, for EVERY rank `r`:
`Some` below the count, `None` (no panic, no access) from the count on.
From `Adapt.adapt_select_none_iff` + `Adapt.adapt_query_correct`. -/
theorem adapt_select_never_oob (P : Params) (idx : Idx) (ws : Array Nat) (len : Nat)
    (hlen : len ≤ 64 * ws.size) (h : AdaptInvOK P idx ws len) (r : Nat) :
    select P ws idx (count P ws len) r ≠ .oob ∧
    (count P ws len ≤ r → select P ws idx (count P ws len) r = .ok none) := by
  refine ⟨?_, fun hr => (adapt_select_none_iff P idx ws len hlen h r).2 hr⟩
  by_cases hr : count P ws len ≤ r
  · exact ne_oob_of_ok ((adapt_select_none_iff P idx ws len hlen h r).2 hr)
  · obtain ⟨p, hp, -⟩ := adapt_query_correct P idx ws len hlen h r (by omega)
    unfold select
    rw [if_neg (by omega)]
    simp only [bind, Out.bind, hp, pure]
    intro e; cases e

/-- end to end, `SelectAdaptConst<_, _, l, m>::new(bits).select(r)` and
`SelectZeroAdaptConst::new(bits).select_zero(r)` for EVERY `r`, every bit vector (stale tail bits,
extra words) shorter than `2^62` bits.  From `Adapt.adaptConst_select_correct`,
`Adapt.adaptConst_select_zero_correct`. -/
theorem adaptConst_never_oob (l m : Nat) (ws : Array Nat) (len : Nat) (hl : l < 64) (hm : m < 64)
    (hlen : len ≤ 64 * ws.size) (h62 : max 1 len < 2 ^ 62) :
    (∃ q, (layerConst false l m ws len (numOnes ws len)).select = some q ∧
      ∀ r, q r ≠ .oob ∧ (numOnes ws len ≤ r → q r = .ok none)) ∧
    (∃ q, (layerConst true l m ws len (numOnes ws len)).selectZero = some q ∧
      ∀ r, q r ≠ .oob ∧ (numZeros ws len ≤ r → q r = .ok none)) := by
  obtain ⟨q, hq, hs⟩ := adaptConst_select_correct l m ws len hl hm hlen h62
  obtain ⟨q0, hq0, hs0⟩ := adaptConst_select_zero_correct l m ws len hl hm hlen h62
  refine ⟨⟨q, hq, fun r => ⟨ne_oob_of_ok (hs r), fun hr => ?_⟩⟩,
    ⟨q0, hq0, fun r => ⟨ne_oob_of_ok (hs0 r), fun hr => ?_⟩⟩⟩
  · rw [hs r, (selectSpec_eq_none_iff ws len r).2 hr]
  · rw [hs0 r, (selectZeroSpec_eq_none_iff ws len r).2 hr]

/-- end to end, `SelectAdapt::with_inv` / `SelectZeroAdapt::with_inv`, EVERY `r`.
From `Adapt.adapt_with_inv_select_correct`, `Adapt.adapt_with_inv_select_zero_correct`. -/
theorem adaptWithInv_never_oob (l maxM : Nat) (ws : Array Nat) (len : Nat) (hl : l < 64)
    (hlen : len ≤ 64 * ws.size) (h62 : max 1 len < 2 ^ 62) :
    (∃ q, (layerRun false "inv" l maxM ws len (numOnes ws len)).select = some q ∧
      ∀ r, q r ≠ .oob ∧ (numOnes ws len ≤ r → q r = .ok none)) ∧
    (∃ q, (layerRun true "inv" l maxM ws len (numOnes ws len)).selectZero = some q ∧
      ∀ r, q r ≠ .oob ∧ (numZeros ws len ≤ r → q r = .ok none)) := by
  obtain ⟨q, hq, hs⟩ := adapt_with_inv_select_correct l maxM ws len hl hlen h62
  obtain ⟨q0, hq0, hs0⟩ := adapt_with_inv_select_zero_correct l maxM ws len hl hlen h62
  refine ⟨⟨q, hq, fun r => ⟨ne_oob_of_ok (hs r), fun hr => ?_⟩⟩,
    ⟨q0, hq0, fun r => ⟨ne_oob_of_ok (hs0 r), fun hr => ?_⟩⟩⟩
  · rw [hs r, (selectSpec_eq_none_iff ws len r).2 hr]
  · rw [hs0 r, (selectZeroSpec_eq_none_iff ws len r).2 hr]

/-- end to end, `SelectAdapt::new` / `with_span` and the zero versions (`count * span < 2^64`,
otherwise the constructor panics on the checked multiplication), EVERY `r`.
From `Adapt.adapt_with_span_select_correct`, `Adapt.adapt_with_span_select_zero_correct`. -/
theorem adaptWithSpan_never_oob (how : String) (p1 maxM : Nat) (ws : Array Nat) (len : Nat)
    (hhow : (how == "inv") = false) (hlen : len ≤ 64 * ws.size) (h62 : max 1 len < 2 ^ 62) :
    (numOnes ws len * (if how == "new" then 8192 else p1) < 2 ^ 64 →
      ∃ q, (layerRun false how p1 maxM ws len (numOnes ws len)).select = some q ∧
        ∀ r, q r ≠ .oob ∧ (numOnes ws len ≤ r → q r = .ok none)) ∧
    (numZeros ws len * (if how == "new" then 8192 else p1) < 2 ^ 64 →
      ∃ q, (layerRun true how p1 maxM ws len (numOnes ws len)).selectZero = some q ∧
        ∀ r, q r ≠ .oob ∧ (numZeros ws len ≤ r → q r = .ok none)) := by
  refine ⟨fun hov => ?_, fun hov => ?_⟩
  · obtain ⟨q, hq, hs⟩ := adapt_with_span_select_correct how p1 maxM ws len hhow hov hlen h62
    refine ⟨q, hq, fun r => ⟨ne_oob_of_ok (hs r), fun hr => ?_⟩⟩
    rw [hs r, (selectSpec_eq_none_iff ws len r).2 hr]
  · obtain ⟨q, hq, hs⟩ := adapt_with_span_select_zero_correct how p1 maxM ws len hhow hov hlen h62
    refine ⟨q, hq, fun r => ⟨ne_oob_of_ok (hs r), fun hr => ?_⟩⟩
    rw [hs r, (selectZeroSpec_eq_none_iff ws len r).2 hr]

-- rank far beyond the 6 ones / 4 zeros of a 10-bit vector with stale ones above
example : select Adapt.exP Adapt.exWs Adapt.exIdx (count Adapt.exP Adapt.exWs Adapt.exLen) (2 ^ 64 - 1) = .ok none :=
  (adapt_select_never_oob Adapt.exP Adapt.exIdx Adapt.exWs Adapt.exLen Adapt.exLenOK Adapt.exInv _).2 (by decide)
example : ∀ r, select Adapt.exPz Adapt.exWs Adapt.exIdxz (count Adapt.exPz Adapt.exWs Adapt.exLen) r ≠ .oob :=
  fun r => (adapt_select_never_oob Adapt.exPz Adapt.exIdxz Adapt.exWs Adapt.exLen Adapt.exLenOK Adapt.exInvz r).1
-- the empty vector over no words
example : ∃ q, (layerConst false 3 1 #[] 0 (numOnes #[] 0)).select = some q ∧
    ∀ r, q r ≠ .oob ∧ (numOnes #[] 0 ≤ r → q r = .ok none) :=
  (adaptConst_never_oob 3 1 #[] 0 (by decide) (by decide) (by decide) (by decide)).1
example := adaptWithInv_never_oob 2 16 Adapt.exWs Adapt.exLen (by decide) Adapt.exLenOK Adapt.exLen62
example := (adaptWithSpan_never_oob "new" 0 3 Adapt.exWs Adapt.exLen (by decide) Adapt.exLenOK Adapt.exLen62).2 (by decide)

end SelectAdapt

/-! ## Selection, `SelectSmall`, `SelectZeroSmall` and `Select9` (`src/rank_sel/select_small.rs`,
`select9.rs`) — from C02 (query from the invariant, and end to end through the builders) -/

section SelectSmall
open Sux.RS

/-- `SelectSmall::select(r)` over `RankSmall` variant `k`, from the invariant `SelInvOK` of the built
arrays, for EVERY `r`: `Some` below `num_ones`, `None` from there on.
From `RS.small_select_query_correct`. -/
theorem small_select_never_oob (k : Nat) (ws : Array Nat) (len : Nat) (hlen : len ≤ 64 * ws.size)
    (s : Small.Sel) (hinv : Small.SelInvOK false ws len s) (r : Nat) :
    Small.select (Priv.smallParams k) false ws len (numOnes ws len)
      (Small.viewOf (Priv.smallParams k) ws len) s r ≠ .oob ∧
    (numOnes ws len ≤ r → Small.select (Priv.smallParams k) false ws len (numOnes ws len)
      (Small.viewOf (Priv.smallParams k) ws len) s r = .ok none) := by
  obtain ⟨h1, h2⟩ := small_select_query_correct k ws len hlen s hinv r
  refine ⟨?_, h2⟩
  by_cases hr : numOnes ws len ≤ r
  · exact ne_oob_of_ok (h2 hr)
  · obtain ⟨p, hp, -⟩ := h1 (by omega)
    exact ne_oob_of_ok hp

/-- `Select9::select(r)` from the invariant `S9InvOK` of the built arrays, for EVERY `r`.
From `RS.select9_query_correct`. -/
theorem select9_never_oob (ws : Array Nat) (len : Nat) (hlen : len ≤ 64 * ws.size)
    (hl64 : len < 2 ^ 64) (s : Select9.S9) (hinv : Select9.S9InvOK ws len s) (r : Nat) :
    Select9.select ws (Select9.viewOf ws len) (numOnes ws len) s r ≠ .oob ∧
    (numOnes ws len ≤ r →
      Select9.select ws (Select9.viewOf ws len) (numOnes ws len) s r = .ok none) := by
  obtain ⟨h1, h2⟩ := select9_query_correct ws len hlen hl64 s hinv r
  refine ⟨?_, h2⟩
  by_cases hr : numOnes ws len ≤ r
  · exact ne_oob_of_ok (h2 hr)
  · obtain ⟨p, hp, -⟩ := h1 (by omega)
    exact ne_oob_of_ok hp

/-- end to end: `Select9::new(Rank9::new(bits))` then `select(r)`, for EVERY backend of 64-bit words
(arbitrary stale bits beyond `len`) and EVERY `r`: both builders return and the query answers.
From `RS.select9_over_rank9_select_correct`. -/
theorem select9_built_never_oob (ws : Array Nat) (len : Nat) (hw : WordsOK 64 ws)
    (hlen : len ≤ 64 * ws.size) (hl64 : len < 2 ^ 64) :
    ∃ counts n1 s, Rank9.build ws len = .ok counts ∧ Rank9.numOnes counts = .ok n1 ∧
      Select9.build ws len n1 (Select9.viewOfCounts counts) = .ok s ∧
      ∀ r, Select9.select ws (Select9.viewOfCounts counts) n1 s r ≠ .oob := by
  obtain ⟨counts, n1, hc, hn, -, s, hs, -, hq⟩ := select9_over_rank9_select_correct ws len hw hlen hl64
  exact ⟨counts, n1, s, hc, hn, hs, fun r => ne_oob_of_ok (hq r)⟩

/-- end to end: `SelectSmall::with_inv(rank_small![k; bits], b)` then `select(r)` for EVERY `r`.
From `RS.small_over_rankSmall_select_correct`. -/
theorem small_built_never_oob (k b : Nat) (ws : Array Nat) (len : Nat) (hlen : len ≤ 64 * ws.size)
    (h1 : b * ((Priv.smallParams k).wpb * 64) < 2 ^ 64)
    (h2 : numOnes ws len * (b * ((Priv.smallParams k).wpb * 64)) < 2 ^ 64) :
    ∃ x s, RankSmall.build (RankSmall.variant k) ws len = .ok x ∧
      Small.buildWithInv (Priv.smallParams k) false ws len x.numOnes b = .ok s ∧
      ∀ r, Small.select (Priv.smallParams k) false ws len x.numOnes (Small.viewOfIdx x) s r ≠ .oob := by
  obtain ⟨x, hx, -, s, hs, hq⟩ := small_over_rankSmall_select_correct k b ws len hlen h1 h2
  exact ⟨x, s, hx, hs, fun r => ne_oob_of_ok (hq r)⟩

/-- end to end: `SelectZeroSmall::with_inv(rank_small![k; bits], b)` then `select_zero(r)` for EVERY
`r`.  From `RS.small_over_rankSmall_select_zero_correct`. -/
theorem smallZero_built_never_oob (k b : Nat) (ws : Array Nat) (len : Nat) (hlen : len ≤ 64 * ws.size)
    (h1 : b * ((Priv.smallParams k).wpb * 64) < 2 ^ 64)
    (h2 : numZeros ws len * (b * ((Priv.smallParams k).wpb * 64)) < 2 ^ 64) :
    ∃ x s, RankSmall.build (RankSmall.variant k) ws len = .ok x ∧
      Small.buildWithInv (Priv.smallParams k) true ws len (len - x.numOnes) b = .ok s ∧
      ∀ r, Small.select (Priv.smallParams k) true ws len (len - x.numOnes) (Small.viewOfIdx x) s r
        ≠ .oob := by
  obtain ⟨x, hx, -, s, hs, hq⟩ := small_over_rankSmall_select_zero_correct k b ws len hlen h1 h2
  exact ⟨x, s, hx, hs, fun r => ne_oob_of_ok (hq r)⟩

example := select9_built_never_oob exWsScan exLenScan exWsScan_ok exWsScan_len (by decide)
example := small_built_never_oob 4 8 RS.exWs RS.exLen (by decide) (by decide) (by decide)
example := smallZero_built_never_oob 0 8 RS.exWs RS.exLen (by decide) (by decide) (by decide)

-- every rank on 1100 set bits over 20 full words (180 stale ones after bit 1100)
example : ∀ r, Select9.select exWs9 (Select9.viewOf exWs9 exLen9) (numOnes exWs9 exLen9) exS9 r ≠ .oob :=
  fun r => (select9_never_oob exWs9 exLen9 (by decide) (by decide) exS9 exS9_inv r).1
-- rank far beyond the ones of a 200-bit vector with stale bits after bit 200
example : Small.select (Priv.smallParams 1) false RS.exWs RS.exLen (numOnes RS.exWs RS.exLen)
    (Small.viewOf (Priv.smallParams 1) RS.exWs RS.exLen) exSel (2 ^ 64 - 1) = .ok none :=
  (small_select_never_oob 1 RS.exWs RS.exLen (by decide) exSel exSel_inv _).2 (by decide)

end SelectSmall

/-! ## Elias–Fano (`src/dict/elias_fano.rs`) — from C03, C04 -/

section EliasFano
open Sux.EF

variable {xs : List Nat} {u : Nat} {s : St}

/-- positional access with EVERY index / start position: `get(i)`, `iter()`, `iter_from(k)`;
`get` panics from `len` on, `iter_from(len)` is the empty iteration (D8), `iter_from` panics
beyond.  From `EF.ef_no_oob`, `EF.ef_get_out_of_range`, `EF.ef_iter_from`,
`EF.ef_iter_from_out_of_range`. -/
theorem ef_positional_never_oob (h : Input xs u) (hs : build xs.length u xs = .ok s) (i k : Nat) :
    get s i ≠ .oob ∧ iterAll s ≠ .oob ∧ iterFrom s k ≠ .oob ∧
    (xs.length ≤ i → get s i = .panic) ∧
    (∃ lens, iterFrom s xs.length = .ok ([], lens)) ∧
    (xs.length < k → iterFrom s k = .panic) := by
  obtain ⟨h1, h2, h3⟩ := ef_no_oob h hs i k
  have h4 := ef_iter_from h hs xs.length (Nat.le_refl _)
  rw [List.drop_length] at h4
  exact ⟨h1, h2, h3, ef_get_out_of_range h hs i, ⟨_, h4⟩, ef_iter_from_out_of_range h hs k⟩

/-- dictionary queries with EVERY query value — below the first element, above the last, above the
universe bound `u`, above `usize::MAX`: `index_of`, `contains`, `succ`, `succ_strict`, `pred`,
`pred_strict` all ANSWER (D7: `pred` above `u` used to select a non-existent zero).
From `EF.ef_dict_no_oob` and the `EF.ef_*_total` theorems. -/
theorem ef_dict_never_oob (h : Input xs u) (hs : build xs.length u xs = .ok s) (q : Nat) :
    (indexOf s q ≠ .oob ∧ contains s q ≠ .oob ∧ succ s q ≠ .oob ∧ succStrict s q ≠ .oob ∧
      pred s q ≠ .oob ∧ predStrict s q ≠ .oob) ∧
    (∃ r, indexOf s q = .ok r) ∧ (∃ r, contains s q = .ok r) ∧ (∃ r, succ s q = .ok r) ∧
    (∃ r, succStrict s q = .ok r) ∧ (∃ r, pred s q = .ok r) ∧ (∃ r, predStrict s q = .ok r) :=
  ⟨ef_dict_no_oob h hs q, ef_index_of_total h hs q, ⟨_, ef_contains h hs q⟩, ef_succ_total h hs q,
    ef_succ_strict_total h hs q, ef_pred_total h hs q, ef_pred_strict_total h hs q⟩

/-- queries strictly above the universe bound: nothing is found above, the last element below.
From `EF.ef_succ_none_iff`, `EF.ef_index_of_none_iff`. -/
theorem ef_above_universe (h : Input xs u) (hs : build xs.length u xs = .ok s) (q : Nat)
    (hq : u < q) : succ s q = .ok none ∧ indexOf s q = .ok none := by
  refine ⟨(ef_succ_none_iff h hs q).2 fun y hy => ?_, (ef_index_of_none_iff h hs q).2 fun hm => ?_⟩
  · have := h.bound y hy; omega
  · have := h.bound q hm; omega

/-- the builder side: a rejected `push` (too many values, value above `u`, value below the last one)
panics, and `build` on a builder that received fewer than `n` values panics (D22).
From `EF.ef_push_rejects`, `EF.ef_build_too_few`. -/
theorem ef_builder_rejects_panic {n : Nat} (hu : u < 2 ^ 64) (hn : n + 2 * max n 1 < 2 ^ 64)
    (ys : List Nat) (b : Builder)
    (hb : (Builder.new n u >>= fun b0 => pushAll b0 ys) = .ok b) (v : Nat)
    (hbad : ¬ (ys.length < n ∧ v ≤ u ∧ ys.getLast?.getD 0 ≤ v)) : b.push v ≠ .oob :=
  ne_oob_of_panic (ef_push_rejects hu hn ys b hb v hbad)

theorem ef_build_too_few_panics (h : Input xs u) (n : Nat) (hn : xs.length < n)
    (hlen : n + 2 * max n 1 < 2 ^ 64) : build n u xs ≠ .oob :=
  ne_oob_of_panic (ef_build_too_few h n hn hlen)

/-- the documentation example of the crate -/
theorem exInput : Input [0, 2, 2, 8, 10] 10 := ⟨by decide, by decide, by decide, by decide⟩
/-- the empty sequence with the largest universe -/
theorem exEmpty : Input [] (2 ^ 64 - 1) := ⟨by decide, by simp, by decide, by decide⟩

-- `get(len)`, `iter_from(len)` (D8), `iter_from(len + 1)`, `pred(1000)` with `u = 10` (D7)
example : ∃ s, build 5 10 [0, 2, 2, 8, 10] = .ok s ∧ get s 5 = .panic ∧
    (∃ lens, iterFrom s 5 = .ok ([], lens)) ∧ iterFrom s 6 = .panic ∧ pred s 1000 ≠ .oob ∧
    succ s 11 = .ok none := by
  obtain ⟨s, hs⟩ := ef_build_total exInput
  have hp := ef_positional_never_oob exInput hs 5 6
  exact ⟨s, hs, hp.2.2.2.1 (by decide), hp.2.2.2.2.1, hp.2.2.2.2.2 (by decide),
    (ef_dict_never_oob exInput hs 1000).1.2.2.2.2.1, (ef_above_universe exInput hs 11 (by decide)).1⟩
-- the empty structure: every index, every query
example : ∃ s, build 0 (2 ^ 64 - 1) [] = .ok s ∧ (∀ i, get s i = .panic) ∧
    (∀ q, pred s q ≠ .oob ∧ succ s q ≠ .oob ∧ indexOf s q ≠ .oob) := by
  obtain ⟨s, hs⟩ := ef_build_total exEmpty
  refine ⟨s, hs, fun i => (ef_positional_never_oob exEmpty hs i 0).2.2.2.1 (Nat.zero_le _), fun q => ?_⟩
  have := (ef_dict_never_oob exEmpty hs q).1
  exact ⟨this.2.2.2.2.1, this.2.2.1, this.1⟩
example : build 3 10 [4] ≠ .oob :=
  ef_build_too_few_panics (xs := [4]) ⟨by decide, by decide, by decide, by decide⟩ 3 (by decide)
    (by decide)

end EliasFano

/-! ## Rear-coded list (`src/dict/rear_coded_list.rs`) — from C09 -/

section RearCodedList
open Sux.RCL

/-- `get(i)` for EVERY `i` (panic from `len` on), `iter_from(j)` / `lend_from(j)` for EVERY `j`
(the empty iteration from `len` on), `index_of(key)` / `contains(key)` for EVERY key (keys that
were never pushed, keys containing NUL).  From `RCL.rcl_get`, `RCL.rcl_get_panic`,
`RCL.rcl_iter_from`, `RCL.rcl_index_of`, `RCL.rcl_contains`. -/
theorem rcl_never_oob (k : Nat) (hk : 0 < k) (strs : List (List Nat)) (hn : NulFree strs)
    (hlen : LenOK strs) (l : RCL) (hb : build k strs = .ok l) (i : Nat) (key : List Nat) :
    get l i ≠ .oob ∧ iterFrom l i ≠ .oob ∧ indexOf l key ≠ .oob ∧ contains l key ≠ .oob ∧
    (i < strs.length → getInPlace l i ≠ .oob) ∧
    (strs.length ≤ i → get l i = .panic ∧ iterFrom l i = .ok ([0], [])) ∧
    (key ∉ strs → indexOf l key = .ok none) := by
  obtain ⟨o, ho, -, hnone⟩ := rcl_index_of k hk strs hn hlen l hb key
  have hit := rcl_iter_from k hk strs hn hlen l hb i
  refine ⟨?_, ne_oob_of_ok hit, ne_oob_of_ok ho,
    ne_oob_of_ok (rcl_contains k hk strs hn hlen l hb key).2,
    fun hi => ne_oob_of_ok (rcl_get k hk strs hn hlen l hb i hi).2,
    fun hi => ⟨?_, ?_⟩, fun hk' => ?_⟩
  · rcases Nat.lt_or_ge i strs.length with hi | hi
    · exact ne_oob_of_ok (rcl_get k hk strs hn hlen l hb i hi).1
    · exact ne_oob_of_panic (rcl_get_panic k hk strs hlen l hb i hi)
  · exact rcl_get_panic k hk strs hlen l hb i hi
  · rw [hit, Nat.sub_eq_zero_of_le hi, List.drop_eq_nil_of_le hi]; rfl
  · rw [ho, hnone.2 hk']

/-- `get_in_place(i)` — a safe method without an explicit bounds check — and `get(i)`, for EVERY
index and EVERY `RCL` value (built or not; no hypothesis at all): all their accesses are safe slice
indexings, so out of range they can only panic.
From `RCL.getInPlace_ne_oob`, `RCL.get_ne_oob` (`RCL/LemmasNoOob.lean`). -/
theorem rcl_get_in_place_never_oob (l : RCL) (i : Nat) :
    getInPlace l i ≠ .oob ∧ get l i ≠ .oob :=
  ⟨getInPlace_ne_oob l i, get_ne_oob l i⟩

/-- the only unchecked accesses of the file (inside `binary_search_by`) are in range for EVERY
slice and EVERY comparator.  From `RCL.rcl_binary_search_no_oob`. -/
theorem rcl_binary_search_never_oob (f : Nat → Out Ordering) (xs : Array Nat)
    (hf : ∀ x, f x ≠ .oob) : binarySearchBy f xs ≠ .oob :=
  rcl_binary_search_no_oob f xs hf

/-- block size 0 (nothing can be stored): `push` panics.  From `RCL.rcl_k_zero`. -/
theorem rcl_k_zero_panics (s : List Nat) (strs : List (List Nat)) : build 0 (s :: strs) ≠ .oob :=
  ne_oob_of_panic (rcl_k_zero s strs)

-- `get(len)`, `iter_from(len)` with `len` a multiple of `k`, a key never pushed, a key with NUL
example (l : RCL) (hb : build 3 exStrs = .ok l) :
    get l 6 = .panic ∧ iterFrom l 6 = .ok ([0], []) ∧ indexOf l [1, 0, 2] = .ok none :=
  have h := rcl_never_oob 3 (by decide) exStrs exStrs_nulFree exStrs_lenOK l hb 6 [1, 0, 2]
  ⟨(h.2.2.2.2.2.1 (by decide)).1, (h.2.2.2.2.2.1 (by decide)).2, h.2.2.2.2.2.2 (by decide)⟩
-- on the concrete built list: every index, every key
example : ∃ l, build 1 nulList = .ok l ∧ ∀ i key, get l i ≠ .oob ∧ indexOf l key ≠ .oob :=
  ⟨_, nulList_build, fun i key =>
    have h := rcl_never_oob 1 (by decide) nulList nulList_nulFree nulList_lenOK _ nulList_build i key
    ⟨h.1, h.2.2.1⟩⟩
-- `get_in_place` past the end of the built list, and on a corrupted value (dangling pointer)
example : ∃ l, build 1 nulList = .ok l ∧ getInPlace l 2 ≠ .oob ∧ getInPlace l (2 ^ 64 - 1) ≠ .oob :=
  ⟨_, nulList_build, (rcl_get_in_place_never_oob _ _).1, (rcl_get_in_place_never_oob _ _).1⟩
example : getInPlace ⟨1, 2, true, [0x61, 0], #[0, 99]⟩ 1 = .panic := by decide
-- the empty list
example : ∃ l, build 4 [] = .ok l ∧ ∀ i key, get l i = .panic ∧ indexOf l key = .ok none := by
  obtain ⟨l, hb, -⟩ := rcl_build 4 (by decide) [] (by unfold LenOK; simp)
  refine ⟨l, hb, fun i key => ?_⟩
  have h := rcl_never_oob 4 (by decide) [] (by unfold NulFree; simp) (by unfold LenOK; simp) l hb i key
  exact ⟨(h.2.2.2.2.2.1 (Nat.zero_le _)).1, h.2.2.2.2.2.2 (by simp)⟩

end RearCodedList

/-! ## Static functions and filters (`src/func/vfunc.rs`, `src/dict/vfilter.rs`,
`src/func/shard_edge.rs`) — from C16 through the edge bridge -/

section Func
open Sux.Func

/-- **`VFunc::get_by_sig(sig)` for EVERY signature** (in particular for a key that was never
inserted): for every parameter set satisfying C16's `ParamsOK` (`POK p`; three fuse logics), if
the backend has the `num_vertices * num_shards` cells that `try_seed` allocates, the three
`get_unchecked` are in range and the call answers.
From `Edge.edge_ok` (C16) via `Func.edge_bridge` / `Func.getBySig_ok` (`Func/EdgeBridge.lean`). -/
theorem get_by_sig_never_oob (cells : Array Nat) (p : Params) (hp : POK p)
    (hsz : cells.size = numVertices p * numShards p) (sig : Sig) (hs : SigOK sig) :
    getBySig cells p sig ≠ .oob ∧ ∃ v, getBySig cells p sig = .ok v :=
  have h := getBySig_ok cells p hp sig hs (Nat.le_of_eq hsz.symm)
  ⟨ne_oob_of_ok h, _, h⟩

/-- **`VFilter::contains_by_sig(sig)` for EVERY signature.**  From `Func.containsBySig_ok`. -/
theorem contains_by_sig_never_oob (cells : Array Nat) (p : Params) (hp : POK p) (W mask : Nat)
    (hsz : cells.size = numVertices p * numShards p) (sig : Sig) (hs : SigOK sig) :
    containsBySig cells p W mask sig ≠ .oob ∧ ∃ b, containsBySig cells p W mask sig = .ok b := by
  obtain ⟨b, hb⟩ := containsBySig_ok cells p hp W mask sig hs (Nat.le_of_eq hsz.symm)
  exact ⟨ne_oob_of_ok hb, b, hb⟩

/-- the same for the parameters produced by the modelled set-up (`set_up_shards` +
`set_up_graphs`, whatever the floating-point sub-results), under C16's `SetupHyps`.
From `Edge.setup_params_ok`. -/
theorem get_by_sig_never_oob_after_setup (cells : Array Nat) (p : Params) (n maxShard : Nat)
    (f : Sux.Edge.Floats) (p0 : Sux.Edge.Params) (lge : Bool)
    (hyp : Sux.Edge.SetupHyps (toLogic p) n f)
    (hset : Sux.Edge.setUp (toLogic p) n maxShard f p0 = .ok (toParams p, lge))
    (hsz : cells.size = numVertices p * numShards p) (sig : Sig) (hs : SigOK sig) :
    getBySig cells p sig ≠ .oob :=
  (get_by_sig_never_oob cells p
    (Sux.Edge.setup_params_ok (toLogic p) n maxShard f p0 (toParams p) lge hyp hset) hsz sig hs).1

/-- the bridge itself, restated: under `ParamsOK` the vertices `getBySig` reads are those of the
C16 model, they are pairwise distinct and below `num_vertices * num_shards < 2^64`. -/
theorem query_edge_is_c16_edge (p : Params) (hp : POK p) (sig : Sig) (hs : SigOK sig) :
    Sux.Edge.edge (toLogic p) (toParams p) (toSig sig) = .ok (edge p sig) ∧
    (edge p sig).1 < numVertices p * numShards p ∧
    (edge p sig).2.1 < numVertices p * numShards p ∧
    (edge p sig).2.2 < numVertices p * numShards p :=
  have h := (edge_in_range p hp sig hs).1
  ⟨edge_bridge p hp sig hs, h.1, h.2.1, h.2.2⟩

/-- the parameters the real `FuseLge3Shards` chooses for 10^8 keys (8 shards of 441·2^15 vertices) -/
def exBig : Params := { logic := .shards, sw := 2, shift := 60, s := 15, l := 439 }
/-- `FuseLge3FullSigs` at the edge of the domain: 2^40 shards of 31·2^19 vertices -/
def exFull : Params := { logic := .fullsigs, sw := 2, shift := 23, s := 19, l := 29 }

-- a signature that was never inserted (all ones), on an all-zero backend of the allocated size
example : getBySig (Array.replicate (numVertices exBig * numShards exBig) 0) exBig
    (2 ^ 64 - 1, 2 ^ 64 - 1) ≠ .oob :=
  (get_by_sig_never_oob _ exBig (by decide) (by simp) _ ⟨by decide, by decide⟩).1
example : ∀ sig, SigOK sig →
    getBySig (Array.replicate (numVertices exFull * numShards exFull) 0) exFull sig ≠ .oob :=
  fun sig hs => (get_by_sig_never_oob _ exFull (by decide) (by simp) sig hs).1
-- the certified one-key instances of C07 / C08, queried with other signatures
example : ∀ sig, SigOK sig → getBySig #[7, 0, 0, 1, 0, 2] exP7 sig ≠ .oob :=
  fun sig hs => (get_by_sig_never_oob _ exP7 (by decide) (by decide) sig hs).1
example : ∀ sig, SigOK sig → containsBySig exCells Sux.Func.exP 8 (filterMask 8 3) sig ≠ .oob :=
  fun sig hs => (contains_by_sig_never_oob _ Sux.Func.exP (by decide) 8 _ (by decide) sig hs).1
-- the hypothesis on the size is needed: one cell short and the all-ones signature reads outside
example : getBySig #[7, 0, 0, 1, 0] exP7 (2 ^ 64 - 1, 0) = .oob := by decide

end Func

/-! ## Signature store (`src/utils/sig_store.rs`) — from C18 -/

section SigStore
open Sux.SigStore

/-- for every backend, signature width, admissible `(bucket bits, max shard bits, shard bits)` and
every pushed list (empty included): construction, pushes, `into_shard_store`, borrowed and
consuming iteration all ANSWER.  From `SigStore.shards_partition`. -/
theorem sigstore_never_oob (be : Backend) (sw b m sb : Nat) (ps : List Pair)
    (hadm : Admissible be b m sb) :
    ∃ s0 s st, new be sw b m = .ok s0 ∧ pushAll s0 ps = .ok s ∧ intoShardStore s sb = .ok st ∧
      collect st.iter ≠ .oob ∧ collect st.intoIter ≠ .oob := by
  obtain ⟨s0, s, st, shards, it1, it2, e0, e1, -, e2, -, e3, -, -, e4, -⟩ :=
    shards_partition be sw b m sb ps hadm
  exact ⟨s0, s, st, e0, e1, e2, ne_oob_of_ok e3, ne_oob_of_ok e4⟩

/-- out-of-domain parameters: more shard bits than `max_shard_high_bits`, or 64 and more bits in a
constructor: panic.  From `SigStore.shard_bits_beyond_max_panics`,
`SigStore.new_bits_ge_64_panics`. -/
theorem sigstore_out_of_domain_panics (be : Backend) (sw b m sb : Nat) (ps : List Pair) :
    (b < 64 → m < 64 → (be = .file → b < 31) → m < sb →
      ∃ s0 s, new be sw b m = .ok s0 ∧ pushAll s0 ps = .ok s ∧ intoShardStore s sb ≠ .oob) ∧
    (64 ≤ b ∨ 64 ≤ m → new be sw b m ≠ .oob) := by
  refine ⟨fun hb hm hf hs => ?_, fun h => ne_oob_of_panic (new_bits_ge_64_panics be sw b m h)⟩
  obtain ⟨s0, s, e0, e1, e2⟩ := shard_bits_beyond_max_panics be sw b m sb ps hb hm hf hs
  exact ⟨s0, s, e0, e1, ne_oob_of_panic e2⟩

-- the empty store split into 16 shards; 3 shard bits asked of a store that allows 1
example := sigstore_never_oob .mem 1 1 4 4 [] (by unfold Admissible; simp)
example := (sigstore_out_of_domain_panics .mem 1 2 1 3 [(5, 6)]).1 (by omega) (by omega)
  (by intro h; cases h) (by omega)
example : new .file 2 64 0 ≠ .oob := (sigstore_out_of_domain_panics .file 2 64 0 0 []).2 (Or.inl (by omega))

end SigStore

/-! ## GF(2) solvers (`src/utils/mod2_sys.rs`) — from C19 -/

section GF2
open Sux.GF2

/-- `gaussian_elimination` on every well-formed system (solvable or not, any number of equations,
zero included), `lazy_gaussian_elimination` on the larger domain `WF0` (empty rows allowed):
neither panics nor reads outside.  From `GF2.gauss_total`, `GF2.lazy_total`. -/
theorem gf2_never_oob (s : Sys) :
    (s.WF → s.gauss ≠ .oob ∧ s.gauss ≠ .panic) ∧
    (s.WF0 → s.lazyGauss ≠ .oob ∧ s.lazyGauss ≠ .panic) :=
  ⟨fun h => ⟨(gauss_total s h).2, (gauss_total s h).1⟩,
   fun h => ⟨(lazy_total s h).2, (lazy_total s h).1⟩⟩

/-- the raw-pointer writes of `add_ptr` stay inside the destination's capacity
(`len(a) + len(b)`), for arbitrary equations.  From `GF2.add_in_bounds`. -/
theorem gf2_add_in_bounds (a b : Eqn) : (a.add b).vars.length ≤ a.vars.length + b.vars.length :=
  add_in_bounds a b

-- an unsolvable system, a system with empty rows, the system without equations
example : exBad.gauss ≠ .oob := ((gf2_never_oob exBad).1 (by decide)).1
example : exEmptyRow.lazyGauss ≠ .oob := ((gf2_never_oob exEmptyRow).2 (by decide)).1
example : (⟨0, #[]⟩ : Sys).gauss ≠ .oob ∧ (⟨0, #[]⟩ : Sys).lazyGauss ≠ .oob :=
  ⟨((gf2_never_oob _).1 (by decide)).1, ((gf2_never_oob _).2 (by decide)).1⟩

end GF2

/-! ## Atomic vectors (`AtomicBitFieldVec`, `AtomicBitVec`) — from C13 -/

section Atomic
open Sux.Atomic

/-- in-contract calls (checked or unchecked), any number of threads, EVERY interleaving and every
stale-load choice: no thread ever reaches the status `oob` (nor `panicked`).
From `Atomic.no_thread_faults`. -/
theorem atomic_no_thread_faults (W : Nat) (hW : 0 < W) (ws0 : Array Nat) (hok : WordsOK W ws0)
    (progs : List (List Op)) (hwf : ProgsWF W ws0.size progs) (sched : List (Nat × Nat)) :
    ∀ th ∈ (run W (Cfg.init ws0 progs) sched).thr, th.st ≠ .oob := by
  intro th hth
  rw [(no_thread_faults W hW ws0 hok progs hwf sched th hth).1]
  intro e; cases e

/-- a CHECKED call (`set_atomic`, `get_atomic`, `AtomicBitVec::{set, swap, get}`) with an index at or
past the length — or, for `set_atomic`, a value that does not fit — unwinds at its first
micro-step: status `panicked` (not `oob`), memory untouched, whatever the memory, the vector
descriptor and the stale-load choice.  (By unfolding the machine's step functions.) -/
theorem atomic_checked_out_of_domain (W : Nat) (m : Mem) (th : Thread) (c : Nat) (d : VecD)
    (i v : Nat) (b : Bool) (hpc : th.pc = .start) :
    ((d.len ≤ i ∨ BFV.fits W d.bw v = false) →
      stepOp W m th c (.setField true d i v) = (m, th.fault .panicked, 0)) ∧
    (d.len ≤ i →
      stepOp W m th c (.getField true d i) = (m, th.fault .panicked, 0) ∧
      stepOp W m th c (.setBit d i b) = (m, th.fault .panicked, 0) ∧
      stepOp W m th c (.swapBit d i b) = (m, th.fault .panicked, 0) ∧
      stepOp W m th c (.getBit d i) = (m, th.fault .panicked, 0)) := by
  refine ⟨fun h => ?_, fun h => ⟨?_, ?_, ?_, ?_⟩⟩
  · show stepSetField W m th c true d i v = _
    unfold stepSetField
    simp only
    rw [if_pos ⟨hpc, trivial, h⟩]
  · show stepGetField W m th c true d i = _
    unfold stepGetField
    simp only
    rw [if_pos ⟨hpc, trivial, h⟩]
  · show stepSetBit W m th d i b = _
    unfold stepSetBit
    rw [hpc]; simp only; rw [if_pos h]
  · show stepSwapBit W m th d i b = _
    unfold stepSwapBit
    rw [hpc]; simp only; rw [if_pos h]
  · show stepGetBit W m th c d i = _
    unfold stepGetBit
    rw [hpc]; simp only; rw [if_pos h]

/-- **safe calls with ARBITRARY arguments**: programs made of calls of the safe methods
(`set_atomic`, `get_atomic`, `AtomicBitVec::{set, swap, get}`) on valid vector objects, with any
index and any value, any number of threads, EVERY interleaving and stale-load choice: no thread
ever reaches the status `oob` (an out-of-domain call leaves its thread `panicked`), the backing
memory keeps its size.  From `Atomic.safe_calls_never_oob` (`Atomic/LemmasChecked.lean`). -/
theorem atomic_safe_calls_never_oob (W : Nat) (hW : 0 < W) (ws0 : Array Nat) (hok : WordsOK W ws0)
    (progs : List (List Op)) (hsc : ProgsSafeCalls W ws0.size progs) (sched : List (Nat × Nat)) :
    (∀ th ∈ (run W (Cfg.init ws0 progs) sched).thr, th.st ≠ .oob) ∧
    (run W (Cfg.init ws0 progs) sched).mem.words.size = ws0.size :=
  have h := safe_calls_never_oob W hW ws0 hok progs hsc sched
  ⟨h.1, h.2.1⟩

/-- two threads on the 4-element, 5-bit example vector of C13: thread 0 reads index 1000 and
would then write; thread 1 writes a value that does not fit, thread 2 is in contract -/
def exWild : List (List Op) :=
  [[.getField true exD 1000, .setField true exD 0 21], [.setField true exD 1 999],
   [.setField true exD 2 3, .getField true exD 4]]

theorem exWild_safe : ProgsSafeCalls 8 exWords.size exWild := by
  intro p hp o ho
  simp only [exWild, List.mem_cons, List.mem_nil_iff, or_false] at hp
  rcases hp with rfl | rfl | rfl <;>
    (simp only [List.mem_cons, List.mem_nil_iff, or_false] at ho
     rcases ho with rfl | rfl <;> decide)

example : ∀ sched, ∀ th ∈ (run 8 (Cfg.init exWords exWild) sched).thr, th.st ≠ .oob :=
  fun sched => (atomic_safe_calls_never_oob 8 (by decide) exWords exOK exWild exWild_safe sched).1
-- … and the out-of-domain calls do unwind: after one step each, threads 0 and 1 are `panicked`
example : ((run 8 (Cfg.init exWords exWild) [(0, 0), (1, 0)]).thr.map (·.st)) =
    [.panicked, .panicked, .run] := by decide
example : ∀ th ∈ (run 8 (Cfg.init exWords exProgs) exSched).thr, th.st ≠ .oob :=
  atomic_no_thread_faults 8 (by decide) exWords exOK exProgs exWF _
-- `get_atomic(1000)` on the 3-element example vector, over an EMPTY memory
example : (stepOp 8 (Mem.init #[]) { prog := [.getField true exD 1000] } 0
    (.getField true exD 1000)).2.1.st = .panicked := by
  rw [((atomic_checked_out_of_domain 8 (Mem.init #[]) { prog := [.getField true exD 1000] } 0 exD
    1000 0 false rfl).2 (by decide)).1]
  rfl

end Atomic

end Sux.C12
