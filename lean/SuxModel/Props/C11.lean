import SuxModel.Space.LemmasEF
import SuxModel.Space.LemmasVFunc
import SuxModel.Space.LemmasGrow
/-!
# C11 — every structure stays within its documented space overhead, for every input

Formulas: `SuxModel/Space/Formulas.lean` (the arithmetic of the constructors; tied to the code by
the runner `space`: formula value = `mem_size` payload, byte for byte).  All statements are over
`Nat`, all inputs, exact integer forms of the documented fractions (`4·bits ≤ len + …` for 25 %).
The real-valued Elias–Fano bound is in `SuxModel/Space/EFReal.lean` (`ef_bits_le`, `ef_words_le`;
Mathlib, built separately).

Additive constants (fixed here, cf. DESIGN §6-C11):
* Rank9: 256 bits (one block's counters + the sentinel pair);
* RankSmall variant k: one block of counters (96, 64, 64, 64, 128 bits) + one upper count (64 bits);
* Select9: 3 words;
* Elias–Fano: the sentinel bit + less than two words of rounding (every `n`, `n = 0` included
  since /repo 76fce19: two words);
* functions / filters: **three segments and one cell per shard** (`shards·(3·2^s + 1)` cells),
  for every input (`c11_vfunc_cells_all`, `c11_vfunc_123_all`).  From two segments' worth of
  vertices upward (`2·2^s ≤ ⌈c·maxShard⌉`) one segment and one cell suffice (`c11_vfunc_cells`);
  the minimum graph of three segments of two cells (0, 1, 2 keys) is why the general constant has
  three segments (remark `c11_vfunc_min_graph`).  MWHC logics: three cells, or `3·128` cells per
  shard when sharded (`c11_mwhc_cells`).
-/
namespace Sux.Space

/-! ## bit vectors and bit-field vectors: exact -/

/-- `BitVec`: `len` bits rounded up to whole words -/
theorem c11_bitvec_exact (len : Nat) :
    len ≤ 64 * bitVecWords len ∧ 64 * bitVecWords len < len + 64 :=
  ⟨bitVecWords_ge len, bitVecWords_lt len⟩

example : bitVecWords 0 = 0 ∧ bitVecWords 64 = 1 ∧ bitVecWords 65 = 2 := by decide

/-- the validated `BitVec` model has exactly that many words when built or grown -/
theorem c11_bitvec_model :
    (∀ len v, BVTight (BV.withValue len v)) ∧ (∀ cap, BVTight (BV.withCapacity cap)) ∧
    (∀ s s' b, BVTight s → BV.push s b = .ok s' → BVTight s') ∧
    (∀ s s' n v, BVTight s → s.len ≤ n → BV.resize s n v = .ok s' → BVTight s') :=
  ⟨bv_withValue_tight, bv_withCapacity_tight,
   fun _ _ _ ht h => bv_push_tight ht h, fun _ _ _ _ ht hn h => bv_resize_tight ht hn h⟩

example : ∃ s', BV.push (BV.new 64) true = .ok s' ∧ s'.words.size = 2 := ⟨_, rfl, rfl⟩

/-- `BitFieldVec<W>`: `len·w` bits rounded up to whole words, at least one word -/
theorem c11_bfv_exact (W w len : Nat) (hW : 0 < W) :
    len * w ≤ W * bfvWords W w len ∧ W * bfvWords W w len < max 1 (len * w) + W :=
  ⟨bfvWords_ge W w len hW, bfvWords_lt W w len hW⟩

/-- `new_unaligned`: the same plus exactly one padding word -/
theorem c11_bfv_unaligned_exact (W w len : Nat) (hW : 0 < W) :
    len * w + W ≤ W * bfvUnalignedWords W w len ∧ W * bfvUnalignedWords W w len < len * w + 2 * W :=
  ⟨bfvUnalignedWords_ge W w len hW, bfvUnalignedWords_lt W w len hW⟩

example : bfvWords 64 13 10 = 3 ∧ bfvUnalignedWords 64 13 10 = 4 ∧ bfvWords 8 0 5 = 1 := by decide

/-- the validated `BitFieldVec` model has exactly that many words when built or grown -/
theorem c11_bfv_model (W : Nat) (hW : 0 < W) :
    (∀ bw len, BFVTight W (BFV.new W bw len)) ∧
    (∀ bw len, (BFV.newUnaligned W bw len).words.size = bfvUnalignedWords W bw len) ∧
    (∀ s s' v, s.bw ≤ W → BFVTight W s → BFV.push W s v = .ok s' → BFVTight W s' ∧ s'.bw = s.bw) ∧
    (∀ s s' n v, BFVTight W s → s.len ≤ n → BFV.resize W s n v = .ok s' →
      BFVTight W s' ∧ s'.bw = s.bw) :=
  ⟨bfv_new_tight W, bfv_newUnaligned_size W,
   fun _ _ _ hbw ht h => bfv_push_tight hW hbw ht h,
   fun _ _ _ _ ht hn h => bfv_resize_tight hW ht hn h⟩

/-! ## rank / select -/

/-- Rank9 counters: at most 25 % of the bit vector plus 256 bits -/
theorem c11_rank9 (len : Nat) : 4 * (64 * rank9Words len) ≤ len + 4 * 256 := rank9_bits_le len

/-- the constant is attained: a 1-bit vector has 4 words of counters -/
example : 64 * rank9Words 1 = 256 ∧ 4 * (64 * rank9Words 513) = 513 + 4 * 256 - 1 := by decide

/-- RankSmall⟨2,9⟩ (`rank_small![0]`): 18.75 % + one block (96 bits) + upper counts -/
theorem c11_ranksmall0 (len : Nat) :
    16 * rankSmallBits 2 9 len ≤ 3 * len + 16 * 96 + 16 * (64 * rsUpperWords len) := by
  have := rs0_counts_le len; unfold rankSmallBits; omega

/-- RankSmall⟨1,9⟩: 12.5 % + one block (64 bits) + upper counts -/
theorem c11_ranksmall1 (len : Nat) :
    8 * rankSmallBits 1 9 len ≤ len + 8 * 64 + 8 * (64 * rsUpperWords len) := by
  have := rs1_counts_le len; unfold rankSmallBits; omega

/-- RankSmall⟨1,10⟩: 6.25 % + one block (64 bits) + upper counts -/
theorem c11_ranksmall2 (len : Nat) :
    16 * rankSmallBits 1 10 len ≤ len + 16 * 64 + 16 * (64 * rsUpperWords len) := by
  have := rs2_counts_le len; unfold rankSmallBits; omega

/-- RankSmall⟨1,11⟩: 3.125 % + one block (64 bits) + upper counts -/
theorem c11_ranksmall3 (len : Nat) :
    32 * rankSmallBits 1 11 len ≤ len + 32 * 64 + 32 * (64 * rsUpperWords len) := by
  have := rs3_counts_le len; unfold rankSmallBits; omega

/-- RankSmall⟨3,13⟩: 1.5625 % + one block (128 bits) + upper counts -/
theorem c11_ranksmall4 (len : Nat) :
    64 * rankSmallBits 3 13 len ≤ len + 64 * 128 + 64 * (64 * rsUpperWords len) := by
  have := rs4_counts_le len; unfold rankSmallBits; omega

/-- upper counts: one word per 2^32 bits, rounded up -/
theorem c11_ranksmall_upper (len : Nat) :
    2 ^ 26 * (64 * rsUpperWords len) ≤ len + 2 ^ 26 * 64 := rsUpper_bits_le len

example : rankSmallBitsK 0 1000 = some (2 * 96 + 64) ∧ rankSmallBitsK 4 8193 = some (2 * 128 + 64)
    ∧ rankSmallBitsK 5 8193 = none := by decide

/-- Select9 on top of Rank9: at most a further 37.5 % plus 3 words -/
theorem c11_select9 (len ones : Nat) (h : ones ≤ len) :
    8 * (64 * select9Words len ones) ≤ 3 * len + 8 * 192 := select9_bits_le len ones h

example : select9Words 1024 1024 = 2 + 1 + 4 ∧ 8 * (64 * select9Words 1 1) = 3 * 1 + 8 * 192 - 3 := by
  decide

/-! ## Elias–Fano (integer part; the logarithm is in `EFReal.lean`) -/

/-- `l = ⌊lg ⌊u/N⌋⌋` with `N = max n 1` (every `n`, the empty sequence included);
`l = 0` when `u < N` -/
theorem c11_ef_l (n u : Nat) :
    (max n 1 ≤ u → 2 ^ efL n u * max n 1 ≤ u ∧ u < 2 ^ (efL n u + 1) * max n 1) ∧
    (u < max n 1 → efL n u = 0) :=
  ⟨efL_spec', fun h => by unfold efL; rw [if_neg]; omega⟩

example : efL 0 0 = 0 ∧ efL 0 1000000 = 19 ∧ efL 1 1024 = 10 ∧ efL 5 3 = 0 := by decide

/-- the upper-bits vector has at most `n + 2·max n 1` bits (`3n` for `n ≥ 1`, 2 for `n = 0`) -/
theorem c11_ef_high (n u : Nat) : efHighBits n u ≤ n + 2 * max n 1 := efHighBits_le' n u

/-- words against exact bits: less than two words of rounding -/
theorem c11_ef_rounding (n u : Nat) :
    64 * efWords n u ≤ n * efL n u + efHighBits n u + 127 := efWords_le n u

example : efL 1000 1000000 = 9 ∧ efWords 1000 1000000 = 141 + 47 := by decide

/-- an empty sequence (`n = 0`) takes two words whatever `u` (one word of low bits, at most two
upper bits); before /repo 76fce19 it took `u + 1` upper bits -/
theorem c11_ef_empty (u : Nat) : efWords 0 u = 2 := efWords_zero u

example : efWords 0 0 = 2 ∧ efWords 0 (2 ^ 64 - 1) = 2 ∧ efHighBits 0 (2 ^ 64 - 1) = 2 := by decide

/-! ## static functions and filters -/

/-- every input: a shard has `max (3·2^s) (V + 2^s − 1)` cells at most; exactly `3·2^s` when
`V ≤ 2·2^s`; at most `V + 2^s` when `2·2^s ≤ V` -/
theorem c11_vfunc_shard_cells (V s : Nat) :
    vfuncShardCells (vfuncL V s) s ≤ max (3 * 2 ^ s) (V + 2 ^ s - 1) ∧
    (V ≤ 2 * 2 ^ s → vfuncShardCells (vfuncL V s) s = 3 * 2 ^ s) ∧
    (2 * 2 ^ s ≤ V → vfuncShardCells (vfuncL V s) s ≤ V + 2 ^ s) :=
  ⟨shardCells_le V s, shardCells_tiny, shardCells_le_add⟩

/-- every input, `c = cn/cd` any rational bound of the expansion factor (`cd·V ≤ cn·m + cd`
says `V = ⌈c·m⌉`): `cells ≤ c · (shards·m) + shards · (3·2^s + 1)` -/
theorem c11_vfunc_cells_all {cn cd shards s l m V : Nat}
    (H2 : cd * V ≤ cn * m + cd) (H3 : l = vfuncL V s) :
    cd * vfuncCells l s shards ≤ cn * (shards * m) + cd * (shards * (3 * 2 ^ s + 1)) :=
  vfunc_cells_le_all H2 H3

/-- the documented 1.23 for **every** input with the additive constant of the property (three
segments and one cell per shard): up to 100 keys `c = 1.23` and there is one shard holding all
keys; above 100 keys `c ≤ 1.125` and the largest shard passed the builder's 1 % test -/
theorem c11_vfunc_123_all {n shards s l m V : Nat} (H3 : l = vfuncL V s)
    (hreg : (shards = 1 ∧ m = n ∧ 100 * V ≤ 123 * n + 100) ∨
            (shards * 100 * m ≤ 101 * n ∧ 1000 * V ≤ 1125 * m + 1000)) :
    100 * vfuncCells l s shards ≤ 123 * n + 100 * (shards * (3 * 2 ^ s + 1)) := by
  rcases hreg with ⟨h1, h2, h3⟩ | ⟨h1, h2⟩
  · subst h1; subst h2
    have := vfunc_cells_le_all (shards := 1) h3 H3
    omega
  · have := vfunc_cells_le_all_imbalance h1 h2 H3
    omega

/-- with the builder's 1 % test on the largest shard, from two segments' worth of vertices:
`cells ≤ 1.01 · c · n + shards · (2^s + 1)`: one segment and one cell per shard suffice -/
theorem c11_vfunc_cells {cn cd n shards s l m V : Nat}
    (H1 : shards * 100 * m ≤ 101 * n) (H2 : cd * V ≤ cn * m + cd) (H3 : l = vfuncL V s)
    (hbig : 2 * 2 ^ s ≤ V) :
    100 * cd * vfuncCells l s shards ≤ 101 * cn * n + 100 * cd * (shards * (2 ^ s + 1)) :=
  vfunc_cells_le_imbalance H1 H2 H3 hbig

/-- up to 100 keys (`c = 1.23`, never sharded): `cells ≤ 1.23 n + 2^s + 1` -/
theorem c11_vfunc_123_small {n s l V : Nat}
    (H2 : 100 * V ≤ 123 * n + 100) (H3 : l = vfuncL V s) (hbig : 2 * 2 ^ s ≤ V) :
    100 * vfuncCells l s 1 ≤ 123 * n + 100 * (2 ^ s + 1) := by
  have := vfunc_cells_le (shards := 1) H2 H3 hbig
  omega

/-- above 100 keys (`c ≤ 1.125`, largest shard within 1 %): `cells ≤ 1.13625 n + shards·(2^s+1)`,
in particular `≤ 1.23 n + …` -/
theorem c11_vfunc_large {n shards s l m V : Nat}
    (H1 : shards * 100 * m ≤ 101 * n) (H2 : 1000 * V ≤ 1125 * m + 1000) (H3 : l = vfuncL V s)
    (hbig : 2 * 2 ^ s ≤ V) :
    100000 * vfuncCells l s shards ≤ 113625 * n + 100000 * (shards * (2 ^ s + 1)) ∧
    100 * vfuncCells l s shards ≤ 123 * n + 100 * (shards * (2 ^ s + 1)) := by
  have := vfunc_cells_le_imbalance H1 H2 H3 hbig
  omega

/-- the documented 1.135 (from 100 000 keys upward) holds whenever the largest shard is within
0.88 % of the average (1.125 · 1.0088 < 1.135); the builder itself only guarantees 1 % -/
theorem c11_vfunc_1135_balanced {n shards s l m V : Nat}
    (H1 : shards * 10000 * m ≤ 10088 * n) (H2 : 1000 * V ≤ 1125 * m + 1000) (H3 : l = vfuncL V s)
    (hbig : 2 * 2 ^ s ≤ V) :
    1000 * vfuncCells l s shards ≤ 1135 * n + 1000 * (shards * (2 ^ s + 1)) := by
  have h := vfunc_cells_le (shards := shards) H2 H3 hbig
  have e : shards * 10000 * m = 10000 * (shards * m) := by ac_rfl
  rw [e] at H1
  generalize shards * m = X at *
  omega

/-- `FuseLge3NoShards` from 101 to 100 000 keys (`c = 1.13`, one shard) -/
theorem c11_vfunc_noshards_113 {n s l V : Nat}
    (H2 : 100 * V ≤ 113 * n + 100) (H3 : l = vfuncL V s) (hbig : 2 * 2 ^ s ≤ V) :
    1000 * vfuncCells l s 1 ≤ 1135 * n + 1000 * (2 ^ s + 1) := by
  have := vfunc_cells_le (shards := 1) H2 H3 hbig
  omega

/-- bits of the backend: `cells · b` for a boxed slice of `b`-bit words; less than two words more
for the bit-field vector with its padding word -/
theorem c11_vfunc_bits (b cells : Nat) :
    cells * b + 64 ≤ 64 * bfvUnalignedWords 64 b cells ∧
    64 * bfvUnalignedWords 64 b cells < cells * b + 2 * 64 :=
  ⟨bfvUnalignedWords_ge 64 b cells (by omega), bfvUnalignedWords_lt 64 b cells (by omega)⟩

/-- non-vacuity on real parameters (100 000 keys, 2 shards, largest shard 50 234, `s = 9`):
the hypotheses hold, `l = 109`, 113 664 cells = 1.13664 n -/
example : vfuncL 56514 9 = 109 ∧ vfuncCells 109 9 2 = 113664 ∧ 2 * 100 * 50234 ≤ 101 * 100000 ∧
    1000 * 56514 ≤ 1125 * 50234 + 1000 ∧ 2 * 2 ^ 9 ≤ 56514 := by decide

/-- remark (why the general constant has three segments): for 0, 1, 2 keys the graph has its
minimum size of three segments of two cells, more than `1.23 n + 2^s + 1` but within
`1.23 n + 3·2^s + 1` -/
theorem c11_vfunc_min_graph :
    vfuncCells (vfuncL 0 1) 1 1 = 6 ∧ ¬ (100 * 6 ≤ 123 * 0 + 100 * (2 ^ 1 + 1)) ∧
    vfuncCells (vfuncL 2 1) 1 1 = 6 ∧ ¬ (100 * 6 ≤ 123 * 1 + 100 * (2 ^ 1 + 1)) ∧
    vfuncCells (vfuncL 3 1) 1 1 = 6 ∧ ¬ (100 * 6 ≤ 123 * 2 + 100 * (2 ^ 1 + 1)) := by decide

/-- MWHC logics (`c = 1.23` always): `cells ≤ 1.23·(shards·m) + shards·3·128`, and
`cells ≤ 1.23 n + 3` without sharding -/
theorem c11_mwhc_cells {n shards seg m V : Nat} (H2 : 300 * V ≤ 123 * m + 300)
    (H3 : seg = mwhcSeg V shards) :
    100 * mwhcCells seg shards ≤ 123 * (shards * m) + 100 * (shards * (3 * 128)) ∧
    (shards = 1 → m = n → 100 * mwhcCells seg shards ≤ 123 * n + 100 * 3) := by
  refine ⟨mwhc_cells_le H2 H3, fun h1 h2 => ?_⟩
  subst h1; subst h2
  exact mwhc_cells_le_one H2 H3

/-- **known finding** witness for MWHC: 100 000 keys, `seg = ⌈123000/3⌉ = 41000`: 123 000 cells,
above `1.135 n + 3` -/
theorem c11_mwhc_exceeds_1135 :
    mwhcCells (mwhcSeg 41000 1) 1 = 123000 ∧ 300 * 41000 ≤ 123 * 100000 + 300 ∧
    ¬ (1000 * 123000 ≤ 1135 * 100000 + 1000 * 3) := by decide

/-- **known finding**: `FuseLge3NoShards` at 100 001 keys (`c ≈ 1.168`, `V = 116 802`, `s = 11`):
118 784 cells, above `1.135 n + 2^s + 1` -/
theorem c11_noshards_exceeds_1135 :
    vfuncCells (vfuncL 116802 11) 11 1 = 118784 ∧
    ¬ (1000 * 118784 ≤ 1135 * 100001 + 1000 * (2 ^ 11 + 1)) := by decide

end Sux.Space
