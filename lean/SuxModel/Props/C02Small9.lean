import SuxModel.RankSel.Small.LemmasCheck
import SuxModel.RankSel.Small.LemmasCheckZero
import SuxModel.RankSel.Small.LemmasLayer
import SuxModel.RankSel.Select9.LemmasCheck
import SuxModel.RankSel.Select9.LemmasBuildInv
import SuxModel.RankSel.Select9.LemmasRank9View
import SuxModel.RankSel.Small.LemmasRankSmallView
/-!
# C02 — Select9 / SelectSmall / SelectZeroSmall return the bit of rank `r`

Models: `SuxModel/RankSel/Select9/Model.lean`, `SuxModel/RankSel/Small/Model.lean` (dev profile,
/repo @ db42763).  Specification: `SuxModel/RankSel/Spec.lean` (`IsSelect`, `IsSelectZero`,
`numOnes`, `numZeros`); storage at or beyond `len` is arbitrary in every theorem.
The broadword comparison `ULEQ_STEP_w` is proved in the kernel (`Sux.RS.BW.uleq_count`); no theorem
below has a broadword hypothesis.
-/
namespace Sux.RS

/-! ## concrete state of the non-vacuity examples: 200 bits over 4 words, stale bits after bit 200 -/

def exWs : Array Nat := #[0xF0F0F0F0F0F0F0F1, 0, 0xFFFFFFFFFFFFFFFF, 0xABCDEF0123456789]
def exLen : Nat := 200

/-- `SelectSmall::<1,9,_>::with_inv(rank_small![1; bits], 1)` built by the model -/
def exSel : Small.Sel :=
  match Small.buildWithInv (Priv.smallParams 1) false exWs exLen (numOnes exWs exLen) 1 with
  | .ok s => s
  | _ => { inv := #[], begin := #[], l := 0 }

/-- 1100 bits, all ones, over 18 words (stale ones after bit 1100, two more backend words):
three inventory entries, the first two spans are of class `2..=15` -/
def exWs9 : Array Nat := Array.replicate 20 0xFFFFFFFFFFFFFFFF
def exLen9 : Nat := 1100

/-- `Select9::new(Rank9::new(bits))` built by the model -/
def exS9 : Select9.S9 :=
  match Select9.build exWs9 exLen9 (numOnes exWs9 exLen9) (Select9.viewOf exWs9 exLen9) with
  | .ok s => s
  | _ => { inv := #[], sub := #[], isz := 0, ssz := 0 }

/-! ## the broadword lemma -/

/-- `ULEQ_STEP_w` counts the lanes with `x_j ≤ y_j`: for `n` lanes of `w` bits inside a `B`-bit word
the subtraction `(y | H) - (x & !H)` does not underflow and the number of set bits of
`((((y | H) - (x & !H)) | (x ^ y)) ^ (x & !y)) & H` is the number of lanes `j < n` with
`lane_j x ≤ lane_j y` -/
theorem uleq_step_counts_lanes (w n B : Nat) (hw : 1 ≤ w) (hB : w * n ≤ B) (x y : Nat)
    (hx : x < 2 ^ (w * n)) (hy : y < 2 ^ (w * n)) :
    BW.andn x (BW.hmask w n) ≤ y ||| BW.hmask w n ∧
    BW.bc (BW.F (BW.hmask w n) x y) B = BW.leCount w n x y :=
  BW.uleq_count w n B hw hB x y hx hy

example : BW.bc (BW.F (BW.hmask 9 7) 0x0123456789ABCDE 0x0FEDCBA98765432) 64
    = BW.leCount 9 7 0x0123456789ABCDE 0x0FEDCBA98765432 :=
  (uleq_step_counts_lanes 9 7 64 (by decide) (by decide) _ _ (by decide) (by decide)).2

/-! ## SelectSmall (ones), query from invariant -/

/-- (Q) `SelectSmall` over `RankSmall` variant `k` (any `k`; `k ≥ 4` is `rank_small![4]`): from the
explicit invariant `SelInvOK` on the built arrays, `select r` returns `ok (some p)` with
`IsSelect ws len r p` for `r < numOnes`, and `ok none` for `r ≥ numOnes`; in particular never
`oob` / `panic` -/
theorem small_select_query_correct (k : Nat) (ws : Array Nat) (len : Nat) (hlen : len ≤ 64 * ws.size)
    (s : Small.Sel) (hinv : Small.SelInvOK false ws len s) (r : Nat) :
    (r < numOnes ws len → ∃ p, Small.select (Priv.smallParams k) false ws len (numOnes ws len)
        (Small.viewOf (Priv.smallParams k) ws len) s r = .ok (some p) ∧ IsSelect ws len r p) ∧
    (numOnes ws len ≤ r → Small.select (Priv.smallParams k) false ws len (numOnes ws len)
        (Small.viewOf (Priv.smallParams k) ws len) s r = .ok none) :=
  Small.small_select_correct k ws len hlen s hinv r

theorem exSel_inv : Small.SelInvOK false exWs exLen exSel :=
  Small.selInvCheck_sound false exWs exLen exSel (by decide +kernel)

example : ∃ p, Small.select (Priv.smallParams 1) false exWs exLen (numOnes exWs exLen)
    (Small.viewOf (Priv.smallParams 1) exWs exLen) exSel 40 = .ok (some p) ∧ IsSelect exWs exLen 40 p :=
  (small_select_query_correct 1 exWs exLen (by decide) exSel exSel_inv 40).1 (by decide)

/-! ## SelectZeroSmall, query from invariant -/

/-- `SelectZeroSmall::<3,13,_>::with_inv(rank_small![4; bits], 2)` built by the model -/
def exSelZ : Small.Sel :=
  match Small.buildWithInv (Priv.smallParams 4) true exWs exLen (numZeros exWs exLen) 2 with
  | .ok s => s
  | _ => { inv := #[], begin := #[], l := 0 }

/-- (Q) `SelectZeroSmall` over `RankSmall` variant `k`: from `SelInvOK` (zero polarity),
`select_zero r` returns `ok (some p)` with `IsSelectZero ws len r p` for `r < numZeros`, `ok none`
for `r ≥ numZeros`; never `oob` / `panic`.  No hypothesis on the length (the unclipped
`last_block_idx` of the zero selector is harmless because its block search is linear). -/
theorem small_select_zero_query_correct (k : Nat) (ws : Array Nat) (len : Nat) (hlen : len ≤ 64 * ws.size)
    (s : Small.Sel) (hinv : Small.SelInvOK true ws len s) (r : Nat) :
    (r < numZeros ws len → ∃ p, Small.select (Priv.smallParams k) true ws len (numZeros ws len)
        (Small.viewOf (Priv.smallParams k) ws len) s r = .ok (some p) ∧ IsSelectZero ws len r p) ∧
    (numZeros ws len ≤ r → Small.select (Priv.smallParams k) true ws len (numZeros ws len)
        (Small.viewOf (Priv.smallParams k) ws len) s r = .ok none) :=
  Small.small_select_zero_correct k ws len hlen s hinv r

theorem exSelZ_inv : Small.SelInvOK true exWs exLen exSelZ :=
  Small.selInvCheck_sound true exWs exLen exSelZ (by decide +kernel)

example : ∃ p, Small.select (Priv.smallParams 4) true exWs exLen (numZeros exWs exLen)
    (Small.viewOf (Priv.smallParams 4) exWs exLen) exSelZ 70 = .ok (some p) ∧ IsSelectZero exWs exLen 70 p :=
  (small_select_zero_query_correct 4 exWs exLen (by decide) exSelZ exSelZ_inv 70).1 (by decide +kernel)

/-! ## SelectSmall / SelectZeroSmall, builder establishes the invariant -/

/-- (B) `SelectSmall::with_inv` / `SelectZeroSmall::with_inv` (`zero = true`) over ANY backend
`(ws, len)` with `len ≤ 64 * ws.size` (stale bits at or beyond `len`, extra words allowed; no
`WordsOK` needed) return a structure satisfying `SelInvOK`, provided the two overflow-checked
products of `with_inv` do not overflow (otherwise the dev-profile code panics; the release code wraps,
which only changes `log2_ones_per_inventory`, and `buildNew_inv` holds for every value of it). -/
theorem small_build_establishes_inv (k : Nat) (zero : Bool) (ws : Array Nat) (len b : Nat)
    (hlen : len ≤ 64 * ws.size)
    (h1 : b * ((Priv.smallParams k).wpb * 64) < 2 ^ 64)
    (h2 : cnt (polBit zero ws) len * (b * ((Priv.smallParams k).wpb * 64)) < 2 ^ 64) :
    ∃ s, Small.buildWithInv (Priv.smallParams k) zero ws len (cnt (polBit zero ws) len) b = .ok s ∧
      Small.SelInvOK zero ws len s :=
  Small.buildWithInv_inv (Priv.smallParams k) zero ws len b hlen h1 h2

example : ∃ s, Small.buildWithInv (Priv.smallParams 1) false exWs exLen (cnt (polBit false exWs) exLen) 1 = .ok s ∧
    Small.SelInvOK false exWs exLen s :=
  small_build_establishes_inv 1 false exWs exLen 1 (by decide) (by decide) (by decide +kernel)

/-- end to end: the layer `.ss k b` (what `modelOf` returns, `b = none` is `new`) answers `select` -/
theorem small_layer_select_correct (k : Nat) (b : Option Nat) (ws : Array Nat) (len : Nat)
    (hlen : len ≤ 64 * ws.size)
    (h1 : b.getD 8 * ((Priv.smallParams k).wpb * 64) < 2 ^ 64)
    (h2 : numOnes ws len * (b.getD 8 * ((Priv.smallParams k).wpb * 64)) < 2 ^ 64) :
    ∃ f, (Small.layer ws len (numOnes ws len) k b).select = some f ∧ ∀ r,
      (r < numOnes ws len → ∃ p, f r = .ok (some p) ∧ IsSelect ws len r p) ∧
      (numOnes ws len ≤ r → f r = .ok none) :=
  Small.layer_correct k b ws len hlen h1 h2

example : ∃ f, (Small.layer exWs exLen (numOnes exWs exLen) 3 none).select = some f ∧ ∀ r,
      (r < numOnes exWs exLen → ∃ p, f r = .ok (some p) ∧ IsSelect exWs exLen r p) ∧
      (numOnes exWs exLen ≤ r → f r = .ok none) :=
  small_layer_select_correct 3 none exWs exLen (by decide) (by decide) (by decide +kernel)

/-- end to end: the layer `.szs k b` answers `select_zero` -/
theorem small_layer_select_zero_correct (k : Nat) (b : Option Nat) (ws : Array Nat) (len : Nat)
    (hlen : len ≤ 64 * ws.size)
    (h1 : b.getD 8 * ((Priv.smallParams k).wpb * 64) < 2 ^ 64)
    (h2 : numZeros ws len * (b.getD 8 * ((Priv.smallParams k).wpb * 64)) < 2 ^ 64) :
    ∃ f, (Small.layerZero ws len (numOnes ws len) k b).selectZero = some f ∧ ∀ r,
      (r < numZeros ws len → ∃ p, f r = .ok (some p) ∧ IsSelectZero ws len r p) ∧
      (numZeros ws len ≤ r → f r = .ok none) :=
  Small.layerZero_correct k b ws len hlen h1 h2

example : ∃ f, (Small.layerZero exWs exLen (numOnes exWs exLen) 0 (some 64)).selectZero = some f ∧ ∀ r,
      (r < numZeros exWs exLen → ∃ p, f r = .ok (some p) ∧ IsSelectZero exWs exLen r p) ∧
      (numZeros exWs exLen ≤ r → f r = .ok none) :=
  small_layer_select_zero_correct 0 (some 64) exWs exLen (by decide) (by decide) (by decide +kernel)

/-! ## Select9, query from invariant -/

/-- (Q) `Select9`: from the explicit invariant `S9InvOK` on the built arrays (inventory entries are
the positions of the ones of rank `512 i`, sentinel, subinventory contents per span class),
`select r` returns `ok (some p)` with `IsSelect ws len r p` for `r < numOnes` and `ok none` for
`r ≥ numOnes`; never `oob` / `panic`.  `len < 2^64` is the range of `usize`. -/
theorem select9_query_correct (ws : Array Nat) (len : Nat) (hlen : len ≤ 64 * ws.size) (hl64 : len < 2 ^ 64)
    (s : Select9.S9) (hinv : Select9.S9InvOK ws len s) (r : Nat) :
    (r < numOnes ws len → ∃ p, Select9.select ws (Select9.viewOf ws len) (numOnes ws len) s r = .ok (some p) ∧
        IsSelect ws len r p) ∧
    (numOnes ws len ≤ r → Select9.select ws (Select9.viewOf ws len) (numOnes ws len) s r = .ok none) :=
  Select9.select9_correct ws len hlen hl64 s hinv r

theorem exS9_inv : Select9.S9InvOK exWs9 exLen9 exS9 :=
  Select9.s9InvCheck_sound exWs9 exLen9 exS9 (by decide +kernel)

example : ∃ p, Select9.select exWs9 (Select9.viewOf exWs9 exLen9) (numOnes exWs9 exLen9) exS9 700 = .ok (some p) ∧
    IsSelect exWs9 exLen9 700 p :=
  (select9_query_correct exWs9 exLen9 (by decide) (by decide) exS9 exS9_inv 700).1 (by decide +kernel)

/-! ## Select9, builder

`select9_build_inventory_partial` (first phase only) is kept under its old name; the full (B) statement
is `select9_build_establishes_inv` below (lemma files `Select9/LemmasSub{Lanes,Counters,Scan,Frame}.lean`). -/

/-- (B), partial: the inventory loop of `Select9::new` over ALL backend words (with the
`.min(num_ones - curr)` clipping) returns `⌈N/512⌉` entries, entry `i` is the position of the one of
rank `512 i`; after pushing `((num_words + 3) & !3) * 64` the `assert!` on the length holds and the
`invSize` / `iszEq` / `entry` / `sentinel` parts of `S9InvOK` are established. -/
theorem select9_build_inventory_partial (ws : Array Nat) (len : Nat) (hlen : len ≤ 64 * ws.size)
    (hl64 : len < 2 ^ 64) :
    ∃ inv0, Select9.invLoop (cnt (polBit false ws) len) ws.toList 0 #[] 0 0 = .ok inv0 ∧
      (inv0.push (Priv.andNot ((len + 63) / 64 + 3) 3 * 64)).size = (cnt (polBit false ws) len + 511) / 512 + 1 ∧
      (∀ i e, IsSel (polBit false ws) len (i * 512) e →
        (inv0.push (Priv.andNot ((len + 63) / 64 + 3) 3 * 64)).getD i 0 = e) ∧
      (inv0.push (Priv.andNot ((len + 63) / 64 + 3) 3 * 64)).getD ((cnt (polBit false ws) len + 511) / 512) 0
        = Select9.sentinelOf len :=
  Select9.build_inventory_partial ws len hlen hl64

example := select9_build_inventory_partial exWs9 exLen9 (by decide) (by decide)

/-- 1100 backend words with one set bit each (bit 0), 70390 bits: 1100 ones, three inventory entries
at `0`, `32768`, `65536`; the first two spans are `128` subinventory words (class `128..=255`, `u16`
position scan), the last one (up to the sentinel `70400`) is of class `16..=127` -/
def exWsScan : Array Nat := Array.replicate 1100 1
def exLenScan : Nat := 70390

theorem exWsScan_ok : WordsOK 64 exWsScan := by
  apply WordsOK_of_getD
  intro i _
  unfold exWsScan
  rw [getD_replicate]
  split <;> decide

theorem exWsScan_len : exLenScan ≤ 64 * exWsScan.size := by
  unfold exWsScan exLenScan
  rw [Array.size_replicate]
  decide

theorem exWs9_ok : WordsOK 64 exWs9 := by
  apply WordsOK_of_getD
  intro i _
  unfold exWs9
  rw [getD_replicate]
  split <;> decide

/-- (B) `Select9::new` over ANY backend `(ws, len)` of 64-bit words with `len ≤ 64 * ws.size`
(arbitrary stale bits at or beyond `len`, arbitrary extra words; `len < 2^64` is the range of `usize`),
given the number of ones of the vector and the Rank9 counters: both phases run without `panic` /
`oob` — every `debug_assert!`, every overflow check and every safe index of the builder holds, for
all six span classes — and the result satisfies `S9InvOK` (inventory entries, sentinel, the `u16`
counter fills of classes `2..=15` / `16..=127` with their `0xFFFF` padding and two-level layout, the
`u16` / `u32` / `u64` position lanes of classes `128..=255` / `256..=511` / `≥ 512`; the writes of
different inventory entries touch disjoint word ranges). -/
theorem select9_build_establishes_inv (ws : Array Nat) (len : Nat) (hw : WordsOK 64 ws)
    (hlen : len ≤ 64 * ws.size) (hl64 : len < 2 ^ 64) :
    ∃ s, Select9.build ws len (numOnes ws len) (Select9.viewOf ws len) = .ok s ∧ Select9.S9InvOK ws len s :=
  Select9.build_inv ws len hw hlen hl64

example := select9_build_establishes_inv exWs9 exLen9 exWs9_ok (by decide) (by decide)
example := select9_build_establishes_inv exWsScan exLenScan exWsScan_ok exWsScan_len (by decide)

/-- end to end: the layer `.s9` (what `modelOf` returns) answers `select r` with the specification
`selectSpec ws len r` for EVERY `r` (`some p` = position of the one of rank `r`, `none` iff
`r ≥ numOnes`); never `oob` / `panic` -/
theorem select9_layer_select_correct (ws : Array Nat) (len : Nat) (hw : WordsOK 64 ws)
    (hlen : len ≤ 64 * ws.size) (hl64 : len < 2 ^ 64) :
    ∃ f, (Select9.layer ws len (numOnes ws len)).select = some f ∧ ∀ r, f r = .ok (selectSpec ws len r) :=
  Select9.layer_correct ws len hw hlen hl64

example := select9_layer_select_correct exWsScan exLenScan exWsScan_ok exWsScan_len (by decide)

/-! ## Select9 over the real Rank9 layer -/

/-- the spec-level counter view the `Select9` model reads (`viewOf` = `r9View` over `cumOnes`) IS the
array `Rank9::new` builds (model `Rank9.build`, C01): same length, `absolute[b]` and the packed
`relative[b]` word for word, sentinel `(num_ones, 0)` included -/
theorem select9_view_is_rank9_build (ws : Array Nat) (len : Nat) (hlen : len ≤ 64 * ws.size) :
    ∃ counts, Rank9.build ws len = .ok counts ∧ Select9.viewOf ws len = Select9.viewOfCounts counts :=
  Select9.rank9_build_view ws len hlen

example := select9_view_is_rank9_build exWs9 exLen9 (by decide)

/-- `Select9::new(Rank9::new(bits))`, every input of `Select9` taken from the built `Rank9`
(`counts`, `num_ones()`): both builders succeed, `S9InvOK` holds and `select r` answers
`selectSpec ws len r` for every `r` -/
theorem select9_over_rank9_select_correct (ws : Array Nat) (len : Nat) (hw : WordsOK 64 ws)
    (hlen : len ≤ 64 * ws.size) (hl64 : len < 2 ^ 64) :
    ∃ counts n1, Rank9.build ws len = .ok counts ∧ Rank9.numOnes counts = .ok n1 ∧ n1 = numOnes ws len ∧
      ∃ s, Select9.build ws len n1 (Select9.viewOfCounts counts) = .ok s ∧ Select9.S9InvOK ws len s ∧
        ∀ r, Select9.select ws (Select9.viewOfCounts counts) n1 s r = .ok (selectSpec ws len r) :=
  Select9.select9_over_rank9 ws len hw hlen hl64

example := select9_over_rank9_select_correct exWsScan exLenScan exWsScan_ok exWsScan_len (by decide)

/-! ## SelectSmall / SelectZeroSmall over the real RankSmall layer -/

/-- the spec-level counter view the `SelectSmall` / `SelectZeroSmall` models read (`Small.viewOf` =
`smallView` over `cumOnes`: `upper_counts`, `absolute`, `all_rel()` of every block) IS what
`rank_small![k; bits]` builds (model `RankSmall.build`, C01), array for array and word for word;
`num_ones()` is the number of ones of the vector -/
theorem small_view_is_rankSmall_build (k : Nat) (ws : Array Nat) (len : Nat) (hlen : len ≤ 64 * ws.size) :
    ∃ x, RankSmall.build (RankSmall.variant k) ws len = .ok x ∧
      Small.viewOf (Priv.smallParams k) ws len = Small.viewOfIdx x ∧ x.numOnes = numOnes ws len :=
  Small.rankSmall_build_view k ws len hlen

example := small_view_is_rankSmall_build 4 exWs exLen (by decide)

/-- `SelectSmall::with_inv(rank_small![k; bits], b)`, every input of the selector taken from the built
`RankSmall`: both builders succeed and `select r` answers `selectSpec ws len r` for every `r` -/
theorem small_over_rankSmall_select_correct (k b : Nat) (ws : Array Nat) (len : Nat)
    (hlen : len ≤ 64 * ws.size)
    (h1 : b * ((Priv.smallParams k).wpb * 64) < 2 ^ 64)
    (h2 : numOnes ws len * (b * ((Priv.smallParams k).wpb * 64)) < 2 ^ 64) :
    ∃ x, RankSmall.build (RankSmall.variant k) ws len = .ok x ∧ x.numOnes = numOnes ws len ∧
      ∃ s, Small.buildWithInv (Priv.smallParams k) false ws len x.numOnes b = .ok s ∧
        ∀ r, Small.select (Priv.smallParams k) false ws len x.numOnes (Small.viewOfIdx x) s r
          = .ok (selectSpec ws len r) :=
  Small.select_over_rankSmall k b ws len hlen h1 h2

example := small_over_rankSmall_select_correct 1 1 exWs exLen (by decide) (by decide) (by decide +kernel)

/-- the same for `SelectZeroSmall` (`num_zeros() = len - num_ones()`) -/
theorem small_over_rankSmall_select_zero_correct (k b : Nat) (ws : Array Nat) (len : Nat)
    (hlen : len ≤ 64 * ws.size)
    (h1 : b * ((Priv.smallParams k).wpb * 64) < 2 ^ 64)
    (h2 : numZeros ws len * (b * ((Priv.smallParams k).wpb * 64)) < 2 ^ 64) :
    ∃ x, RankSmall.build (RankSmall.variant k) ws len = .ok x ∧ len - x.numOnes = numZeros ws len ∧
      ∃ s, Small.buildWithInv (Priv.smallParams k) true ws len (len - x.numOnes) b = .ok s ∧
        ∀ r, Small.select (Priv.smallParams k) true ws len (len - x.numOnes) (Small.viewOfIdx x) s r
          = .ok (selectZeroSpec ws len r) :=
  Small.selectZero_over_rankSmall k b ws len hlen h1 h2

example := small_over_rankSmall_select_zero_correct 4 2 exWs exLen (by decide) (by decide) (by decide +kernel)

end Sux.RS
