import SuxModel.Props.C05
import SuxModel.Props.C06
import SuxModel.Props.C10
/-!
# C14 — storage outside the logical contents is neither trusted nor modified

The models of `BitVec` and `BitFieldVec` operate on raw backing words whose content at or beyond
the logical length is *arbitrary* (`St.Inv` says nothing about it).  C14 has two halves:

* **readers ignore garbage**: every observation is a function of the abstraction (`abs` / `vals`)
  only — two stores with the same logical contents, whatever lies beyond, give the same answers;
* **writers keep the frame**: a mutating operation changes no storage bit outside the elements it
  is documented to write (the tail of the last word and spare words in particular).

The statements below are the C14 view of theorems proved for C05, C06 and C10; they are restated
here (not re-proved) so that the property has its own audited list.
-/
namespace Sux.C14

/-! ## BitVec -/

/-- readers: one op -/
theorem bv_reads_ignore_garbage (s₁ s₂ : BV.St) (h₁ : s₁.Inv) (h₂ : s₂.Inv)
    (habs : s₁.abs = s₂.abs) (op : BV.Op) :
    (match BV.step s₁ op, BV.step s₂ op with
     | .ok (_, o₁), .ok (_, o₂) => o₁ = o₂
     | .panic, .panic => True
     | _, _ => False) :=
  BV.reads_ignore_garbage s₁ s₂ h₁ h₂ habs op

/-- equality compares the logical contents only -/
theorem bv_eq_ignores_garbage (a b : BV.St) (ha : a.Inv) (hb : b.Inv) :
    BV.eq a b = .ok (decide (a.abs = b.abs)) :=
  BV.eq_spec a b ha hb

/-- writers: set, swap, fill, flip, reset (and the reads) leave every bit at or beyond `len`, and the
shape of the store, untouched -/
theorem bv_write_frame (s : BV.St) (h : s.Inv) (op : BV.Op) (hop : op.nonGrowing = true)
    (s' : BV.St) (o : BV.Obs) (hs : BV.step s op = .ok (s', o)) :
    s'.len = s.len ∧ s'.words.size = s.words.size ∧ ∀ k, s.len ≤ k → s'.bit k = s.bit k :=
  BV.step_frame s h op hop s' o hs

/-! ## BitFieldVec (every word size `W > 0`, every width) -/

/-- readers: one op, same observation and same resulting contents -/
theorem bfv_reads_ignore_garbage (W : Nat) (hW : 0 < W) (s₁ s₂ : BFV.St) (h₁ : s₁.WInv W)
    (h₂ : s₂.WInv W) (hbw : s₁.bw = s₂.bw) (hv : s₁.vals W = s₂.vals W) (op : BFV.Op) :
    (∃ s₁' s₂' o, BFV.step W s₁ op = .ok (s₁', o) ∧ BFV.step W s₂ op = .ok (s₂', o) ∧
        s₁'.bw = s₂'.bw ∧ s₁'.vals W = s₂'.vals W) ∨
      (BFV.step W s₁ op = .panic ∧ BFV.step W s₂ op = .panic) :=
  BFV.step_garbage_independent W hW s₁ s₂ h₁ h₂ hbw hv op

theorem bfv_eq_ignores_garbage (W : Nat) (hW : 0 < W) (a b : BFV.St) (ha : a.Inv W) (hb : b.Inv W) :
    BFV.eq W a b = .ok (decide (a.bw = b.bw ∧ a.vals W = b.vals W)) :=
  BFV.eq_spec W hW a b ha hb

/-- writers: set, reset (and the reads) leave every bit at or beyond `len * bw` untouched -/
theorem bfv_write_frame (W : Nat) (hW : 0 < W) (s : BFV.St) (h : s.Inv W) (op : BFV.Op)
    (hop : op.nonGrowing = true) (s' : BFV.St) (o : BFV.Obs) (hs : BFV.step W s op = .ok (s', o)) :
    s'.len = s.len ∧ s'.words.size = s.words.size ∧
      ∀ k, s.len * s.bw ≤ k → bitAt W s'.words k = bitAt W s.words k :=
  BFV.step_frame W hW s h op hop s' o hs

/-- `copy` into a vector changes exactly the destination range: every other bit of the destination
store (other elements, tail of the last word, spare words) is the old one -/
theorem bfv_copy_frame (W : Nat) (hW : 0 < W) (src dst : BFV.St) (hs : src.Inv W) (hd : dst.Inv W)
    (hbw : src.bw = dst.bw) (start to len : Nat) (hst : start ≤ src.len) (hto : to ≤ dst.len)
    (hpos : 0 < dst.bw ∨ min (min len (dst.len - to)) (src.len - start) = 0) :
    ∃ d', BFV.copy W src start dst to len = .ok d' ∧ d'.words.size = dst.words.size ∧
      ∀ k, ¬ (to * dst.bw ≤ k ∧ k < (to + min (min len (dst.len - to)) (src.len - start)) * dst.bw) →
        bitAt W d'.words k = bitAt W dst.words k := by
  obtain ⟨d', h1, _, _, h4, _, h6⟩ := BFV.copy_correct W hW src dst hs hd hbw start to len hst hto hpos
  refine ⟨d', h1, h4, ?_⟩
  intro k hk
  rw [h6 k]
  simp only [hk, if_false]

/-- `apply_in_place` (real word sizes) leaves every bit at or beyond `len * bw` untouched -/
theorem bfv_apply_frame {σ : Type} (e : Nat) (s : BFV.St) (h : s.Inv (2 ^ e))
    (f : σ → Nat → σ × Nat) (st : σ) (hf : ∀ st x, (f st x).2 < 2 ^ s.bw) :
    ∃ s' st', BFV.applyInPlace (2 ^ e) s f st = .ok (s', st') ∧ s'.words.size = s.words.size ∧
      ∀ k, s.len * s.bw ≤ k → bitAt (2 ^ e) s'.words k = bitAt (2 ^ e) s.words k := by
  obtain ⟨s', h1, _, _, _, h5, _, h7⟩ := BFV.apply_correct_pow2 e s h f st hf
  exact ⟨s', _, h1, h5, h7⟩

/-- a write through a chunk view changes exactly the addressed element -/
theorem bfv_chunk_write_frame (W : Nat) (hW : 0 < W) (s : BFV.St) (h : s.Inv W) (cs j i v : Nat)
    (hc : s.len ≤ cs ∨ (cs * s.bw) % W = 0) (hpos : 0 < cs * s.bw) (hj : j * cs < s.len)
    (hi : i < min cs (s.len - j * cs)) (hv : v < 2 ^ s.bw) :
    ∃ s', BFV.chunkOp W s cs j i (some v) = .ok (.done s') ∧ s'.words.size = s.words.size ∧
      ∀ k, ¬ ((j * cs + i) * s.bw ≤ k ∧ k < (j * cs + i) * s.bw + s.bw) →
        bitAt W s'.words k = bitAt W s.words k := by
  obtain ⟨s', h1, _, _, h4, _, h6, _⟩ := BFV.chunk_set_correct W hW s h cs j i v hc hpos hj hi hv
  refine ⟨s', h1, h4, ?_⟩
  intro k hk
  rw [h6 k]
  simp only [hk, if_false]

/-- `set` alone: neighbours inside the vector are untouched as well -/
theorem bfv_set_frame (W : Nat) (hW : 0 < W) (s : BFV.St) (h : s.WInv W) (i v : Nat) (s' : BFV.St)
    (hs : BFV.set W s i v = .ok s') :
    ∀ k, k < i * s.bw ∨ (i + 1) * s.bw ≤ k → bitAt W s'.words k = bitAt W s.words k :=
  BFV.set_frame W hW s h i v s' hs

/-! ## whole histories (the property quantifies over every operation sequence) -/

/-- readers, `BitVec`: the observation sequence of any history depends on the logical contents only -/
theorem bv_history_ignores_garbage (s₁ s₂ : BV.St) (h₁ : s₁.Inv) (h₂ : s₂.Inv)
    (habs : s₁.abs = s₂.abs) (ops : List BV.Op) :
    (match BV.run s₁ ops, BV.run s₂ ops with
     | .ok (t₁, os₁), .ok (t₂, os₂) => os₁ = os₂ ∧ t₁.abs = t₂.abs
     | .panic, .panic => True
     | _, _ => False) :=
  BV.run_ignores_garbage s₁ s₂ h₁ h₂ habs ops

/-- readers, `BitFieldVec`: two stores of the same width and logical contents — whatever lies beyond
`len * bw`, however many spare words — answer every history identically (same observations, same
final contents), or both panic -/
theorem bfv_history_ignores_garbage (W : Nat) (hW : 0 < W) (s₁ s₂ : BFV.St) (h₁ : s₁.WInv W)
    (h₂ : s₂.WInv W) (hbw : s₁.bw = s₂.bw) (hv : s₁.vals W = s₂.vals W) (ops : List BFV.Op) :
    (∃ t₁ t₂ os, BFV.run W s₁ ops = .ok (t₁, os) ∧ BFV.run W s₂ ops = .ok (t₂, os) ∧
        t₁.bw = t₂.bw ∧ t₁.vals W = t₂.vals W) ∨
      (BFV.run W s₁ ops = .panic ∧ BFV.run W s₂ ops = .panic) := by
  have r₁ := BFV.run_refines_weak W hW s₁ h₁ ops
  have r₂ := BFV.run_refines_weak W hW s₂ h₂ ops
  rw [← hbw, ← hv] at r₂
  cases hs : BFV.specRun s₁.bw (s₁.vals W) ops with
  | none =>
    rw [hs] at r₁ r₂
    exact Or.inr ⟨r₁, r₂⟩
  | some r =>
    obtain ⟨l', os⟩ := r
    rw [hs] at r₁ r₂
    obtain ⟨a, ea, _, hba, _, hva⟩ := r₁
    obtain ⟨b, eb, _, hbb, _, hvb⟩ := r₂
    exact Or.inl ⟨a, b, os, ea, eb, by rw [hba, hbb, hbw], by rw [hva, hvb]⟩

/-- writers, `BitVec`: a history of non-growing operations of any length leaves every bit at or
beyond `len`, and the shape of the store, untouched -/
theorem bv_history_frame (s : BV.St) (h : s.Inv) (ops : List BV.Op)
    (hop : ∀ op ∈ ops, op.nonGrowing = true) (s' : BV.St) (os : List BV.Obs)
    (hs : BV.run s ops = .ok (s', os)) :
    s'.len = s.len ∧ s'.words.size = s.words.size ∧ ∀ k, s.len ≤ k → s'.bit k = s.bit k := by
  induction ops generalizing s os with
  | nil =>
    simp only [BV.run, Out.ok.injEq, Prod.mk.injEq] at hs
    obtain ⟨rfl, _⟩ := hs
    exact ⟨rfl, rfl, fun _ _ => rfl⟩
  | cons op ops ih =>
    have hr := BV.step_refines s h op
    cases hsp : BV.specStep s.abs op with
    | none =>
      rw [hsp] at hr
      simp only at hr
      simp [BV.run, hr, bind, Out.bind] at hs
    | some r =>
      obtain ⟨l', o⟩ := r
      rw [hsp] at hr
      simp only at hr
      obtain ⟨m, em, hm, _⟩ := hr
      have hf := BV.step_frame s h op (hop op (List.mem_cons_self)) m o em
      cases hrun : BV.run m ops with
      | ok q =>
        obtain ⟨t, os'⟩ := q
        simp [BV.run, em, hrun, bind, Out.bind, pure] at hs
        obtain ⟨rfl, _⟩ := hs
        have := ih m hm (fun op' ho => hop op' (List.mem_cons_of_mem _ ho)) os' hrun
        obtain ⟨a1, a2, a3⟩ := this
        obtain ⟨b1, b2, b3⟩ := hf
        exact ⟨by rw [a1, b1], by rw [a2, b2], fun k hk => by rw [a3 k (by rw [b1]; exact hk), b3 k hk]⟩
      | panic => simp [BV.run, em, hrun, bind, Out.bind] at hs
      | oob => simp [BV.run, em, hrun, bind, Out.bind] at hs

/-- writers, `BitFieldVec`: the same for any history of non-growing operations -/
theorem bfv_history_frame (W : Nat) (hW : 0 < W) (s : BFV.St) (h : s.Inv W) (ops : List BFV.Op)
    (hop : ∀ op ∈ ops, op.nonGrowing = true) (s' : BFV.St) (os : List BFV.Obs)
    (hs : BFV.run W s ops = .ok (s', os)) :
    s'.len = s.len ∧ s'.words.size = s.words.size ∧
      ∀ k, s.len * s.bw ≤ k → bitAt W s'.words k = bitAt W s.words k := by
  induction ops generalizing s os with
  | nil =>
    simp only [BFV.run, Out.ok.injEq, Prod.mk.injEq] at hs
    obtain ⟨rfl, _⟩ := hs
    exact ⟨rfl, rfl, fun _ _ => rfl⟩
  | cons op ops ih =>
    have hr := BFV.step_refines W hW s h op
    cases hsp : BFV.specStep s.bw (s.vals W) op with
    | none =>
      rw [hsp] at hr
      simp only at hr
      simp [BFV.run, hr, bind, Out.bind] at hs
    | some r =>
      obtain ⟨l', o⟩ := r
      rw [hsp] at hr
      simp only at hr
      obtain ⟨m, em, hm, hbm, _⟩ := hr
      have hf := BFV.step_frame W hW s h op (hop op (List.mem_cons_self)) m o em
      cases hrun : BFV.run W m ops with
      | ok q =>
        obtain ⟨t, os'⟩ := q
        simp [BFV.run, em, hrun, bind, Out.bind, pure] at hs
        obtain ⟨rfl, _⟩ := hs
        have := ih m hm (fun op' ho => hop op' (List.mem_cons_of_mem _ ho)) os' hrun
        obtain ⟨a1, a2, a3⟩ := this
        obtain ⟨b1, b2, b3⟩ := hf
        exact ⟨by rw [a1, b1], by rw [a2, b2],
          fun k hk => by rw [a3 k (by rw [b1, hbm]; exact hk), b3 k hk]⟩
      | panic => simp [BFV.run, em, hrun, bind, Out.bind] at hs
      | oob => simp [BFV.run, em, hrun, bind, Out.bind] at hs

/-- non-vacuity: two different `BitVec` stores with equal contents and a six-op history -/
example : (match BV.run BV.exA BV.exOps, BV.run BV.exB BV.exOps with
     | .ok (t₁, os₁), .ok (t₂, os₂) => os₁ = os₂ ∧ t₁.abs = t₂.abs
     | .panic, .panic => True
     | _, _ => False) :=
  bv_history_ignores_garbage BV.exA BV.exB BV.exA_inv BV.exB_inv BV.exAB_abs BV.exOps

end Sux.C14
