import SuxModel.BitFieldVec.LemmasStep
/-!
# C05 — `BitFieldVec` is observationally a `Vec` of `bw`-bit values under any op sequence
# C14 (write-frame half, `BitFieldVec`) — storage at or beyond `len * bw` is never modified by a
non-growing op, and (reader half, bonus) never influences an observation.

All theorems hold for every word size `W > 0` (no `8 ≤ W` needed), every width `0 ≤ bw ≤ W`
(including `bw = 0` and `bw = W`) and arbitrary garbage beyond `len * bw`.

Two invariants appear:
* `St.Inv W`  (Model.lean): `bw ≤ W ∧ len*bw ≤ W*size ∧ 1 ≤ size ∧ WordsOK`;
* `St.WInv W` (LemmasOps.lean): the same with `bw = 0 → 1 ≤ size` instead of `1 ≤ size`.
`with_capacity(bw ≠ 0, _)` has an empty backing `Vec`, so it satisfies only `WInv`
(`withCapacity_not_inv` below); every theorem is therefore also proved under `WInv` (`…_w`),
and the `Inv` versions follow because no op shrinks the store.
-/
namespace Sux.BFV

/-! ## layout -/

theorem getU_spec (W : Nat) (hW : 0 < W) (s : St) (h : s.Inv W) (i : Nat) (hi : i < s.len) :
    getU W s i = .ok (valAt W s.words s.bw i) :=
  getU_w hW s h.toWInv i hi

theorem setU_spec (W : Nat) (hW : 0 < W) (s : St) (h : s.Inv W) (i v : Nat)
    (hi : (i + 1) * s.bw ≤ W * s.words.size) (hv : v < 2 ^ s.bw) :
    ∃ s', setU W s i v = .ok s' ∧ s'.len = s.len ∧ s'.bw = s.bw ∧ s'.words.size = s.words.size ∧
      WordsOK W s'.words ∧
      ∀ k, bitAt W s'.words k =
        if i * s.bw ≤ k ∧ k < (i + 1) * s.bw then v.testBit (k - i * s.bw) else bitAt W s.words k :=
  setU_w hW s h.toWInv i v hi hv

theorem valAt_lt (W : Nat) (ws : Array Nat) (bw i : Nat) : valAt W ws bw i < 2 ^ bw :=
  valAt_lt_pow W ws bw i

/-- the `WInv` versions (cover `with_capacity` + `push` histories) -/
theorem getU_spec_w (W : Nat) (hW : 0 < W) (s : St) (h : s.WInv W) (i : Nat) (hi : i < s.len) :
    getU W s i = .ok (valAt W s.words s.bw i) :=
  getU_w hW s h i hi

theorem setU_spec_w (W : Nat) (hW : 0 < W) (s : St) (h : s.WInv W) (i v : Nat)
    (hi : (i + 1) * s.bw ≤ W * s.words.size) (hv : v < 2 ^ s.bw) :
    ∃ s', setU W s i v = .ok s' ∧ s'.len = s.len ∧ s'.bw = s.bw ∧ s'.words.size = s.words.size ∧
      WordsOK W s'.words ∧
      ∀ k, bitAt W s'.words k =
        if i * s.bw ≤ k ∧ k < (i + 1) * s.bw then v.testBit (k - i * s.bw) else bitAt W s.words k :=
  setU_w hW s h i v hi hv

/-! ## constructors -/

theorem new_spec (W bw n : Nat) (hW : 0 < W) (hbw : bw ≤ W) :
    (new W bw n).Inv W ∧ (new W bw n).vals W = List.replicate n 0 :=
  ⟨new_inv hW bw n hbw, vals_zero_store W _ bw n⟩

theorem newUnaligned_spec (W bw n : Nat) (hW : 0 < W) (hbw : bw ≤ W) :
    (newUnaligned W bw n).Inv W ∧ (newUnaligned W bw n).vals W = List.replicate n 0 :=
  ⟨newUnaligned_inv hW bw n hbw, vals_zero_store W _ bw n⟩

/-
The statement asked for,
  `theorem withCapacity_spec (W bw c) (hW : 0 < W) (hbw : bw ≤ W) :
      (withCapacity W bw c).Inv W ∧ (withCapacity W bw c).vals W = []`,
is FALSE for every `bw ≠ 0`: `with_capacity` pushes the one word only when `bit_width == 0`
(src/bits/bit_field_vec.rs `with_capacity`), so e.g. `withCapacity 8 1 0 = ⟨#[], 1, 0⟩` has
`words.size = 0`, violating the conjunct `1 ≤ words.size` of `St.Inv` (`withCapacity_not_inv`).
Closest true statements: `withCapacity_spec_w` (weak invariant, all widths) and
`withCapacity_spec_zero` (`St.Inv` for width 0).
-/
theorem withCapacity_spec_w (W bw c : Nat) (hbw : bw ≤ W) :
    (withCapacity W bw c).WInv W ∧ (withCapacity W bw c).vals W = [] :=
  ⟨withCapacity_winv W bw c hbw, rfl⟩

theorem withCapacity_spec_zero (W c : Nat) :
    (withCapacity W 0 c).Inv W ∧ (withCapacity W 0 c).vals W = [] :=
  ⟨(withCapacity_winv W 0 c (Nat.zero_le _)).toInv (by simp [withCapacity]), rfl⟩

theorem withCapacity_not_inv (W bw c : Nat) (hbw : 0 < bw) : ¬ (withCapacity W bw c).Inv W := by
  intro h
  have h1 : 1 ≤ (withCapacity W bw c).words.size := h.2.2.1
  have hne : (bw == 0) = false := by simp; omega
  simp [withCapacity, hne] at h1

/-! ## refinement -/

theorem step_refines_weak (W : Nat) (hW : 0 < W) (s : St) (h : s.WInv W) (op : Op) :
    match specStep s.bw (s.vals W) op with
    | some (l', o) => ∃ s', step W s op = .ok (s', o) ∧ s'.WInv W ∧ s'.bw = s.bw ∧
        s.words.size ≤ s'.words.size ∧ s'.vals W = l'
    | none => step W s op = .panic :=
  step_refines_w hW s h op

theorem run_refines_weak (W : Nat) (hW : 0 < W) (s : St) (h : s.WInv W) (ops : List Op) :
    match specRun s.bw (s.vals W) ops with
    | some (l', os) => ∃ s', run W s ops = .ok (s', os) ∧ s'.WInv W ∧ s'.bw = s.bw ∧
        s.words.size ≤ s'.words.size ∧ s'.vals W = l'
    | none => run W s ops = .panic :=
  run_refines_w hW ops s h

theorem step_refines (W : Nat) (hW : 0 < W) (s : St) (h : s.Inv W) (op : Op) :
    match specStep s.bw (s.vals W) op with
    | some (l', o) => ∃ s', step W s op = .ok (s', o) ∧ s'.Inv W ∧ s'.bw = s.bw ∧ s'.vals W = l'
    | none => step W s op = .panic := by
  have := step_refines_w hW s h.toWInv op
  split
  · rename_i l' o heq
    rw [heq] at this
    obtain ⟨s', e, hi, hb, hsz, hv⟩ := this
    exact ⟨s', e, hi.toInv (Nat.le_trans h.2.2.1 hsz), hb, hv⟩
  · rename_i heq
    rw [heq] at this
    exact this

theorem run_refines (W : Nat) (hW : 0 < W) (s : St) (h : s.Inv W) (ops : List Op) :
    match specRun s.bw (s.vals W) ops with
    | some (l', os) => ∃ s', run W s ops = .ok (s', os) ∧ s'.Inv W ∧ s'.bw = s.bw ∧ s'.vals W = l'
    | none => run W s ops = .panic := by
  have := run_refines_w hW ops s h.toWInv
  split
  · rename_i l' os heq
    rw [heq] at this
    obtain ⟨s', e, hi, hb, hsz, hv⟩ := this
    exact ⟨s', e, hi.toInv (Nat.le_trans h.2.2.1 hsz), hb, hv⟩
  · rename_i heq
    rw [heq] at this
    exact this

theorem step_never_oob_weak (W : Nat) (hW : 0 < W) (s : St) (h : s.WInv W) (op : Op) :
    step W s op ≠ .oob := by
  have := step_refines_w hW s h op
  split at this
  · obtain ⟨s', e, _⟩ := this
    rw [e]; simp
  · rw [this]; simp

theorem step_never_oob (W : Nat) (hW : 0 < W) (s : St) (h : s.Inv W) (op : Op) :
    step W s op ≠ .oob :=
  step_never_oob_weak W hW s h.toWInv op

theorem run_never_oob_weak (W : Nat) (hW : 0 < W) (s : St) (h : s.WInv W) (ops : List Op) :
    run W s ops ≠ .oob := by
  have := run_refines_w hW ops s h
  split at this
  · obtain ⟨s', e, _⟩ := this
    rw [e]; simp
  · rw [this]; simp

/-! ## C14 -/

theorem step_frame (W : Nat) (hW : 0 < W) (s : St) (h : s.Inv W) (op : Op)
    (hop : op.nonGrowing = true) (s' : St) (o : Obs) (hs : step W s op = .ok (s', o)) :
    s'.len = s.len ∧ s'.words.size = s.words.size ∧
      ∀ k, s.len * s.bw ≤ k → bitAt W s'.words k = bitAt W s.words k :=
  step_frame_w hW s h.toWInv op hop s' o hs

theorem step_frame_weak (W : Nat) (hW : 0 < W) (s : St) (h : s.WInv W) (op : Op)
    (hop : op.nonGrowing = true) (s' : St) (o : Obs) (hs : step W s op = .ok (s', o)) :
    s'.len = s.len ∧ s'.words.size = s.words.size ∧
      ∀ k, s.len * s.bw ≤ k → bitAt W s'.words k = bitAt W s.words k :=
  step_frame_w hW s h op hop s' o hs

/-- `set` writes exactly the bits of element `i` (sharper than `step_frame`: neighbours inside
`len * bw` are untouched too) -/
theorem set_frame (W : Nat) (hW : 0 < W) (s : St) (h : s.WInv W) (i v : Nat) (s' : St)
    (hs : set W s i v = .ok s') :
    ∀ k, k < i * s.bw ∨ (i + 1) * s.bw ≤ k → bitAt W s'.words k = bitAt W s.words k := by
  by_cases hc : i < s.len ∧ v < 2 ^ s.bw
  · have hi' : (i + 1) * s.bw ≤ W * s.words.size :=
      Nat.le_trans (succ_mul_le_of_lt hc.1) h.2.1
    obtain ⟨s1, e, _, _, _, _, hframe, _, _⟩ := setU_ok hW s h i v hi' hc.2
    have : set W s i v = .ok s1 := by
      unfold set
      rw [if_neg (by omega), (fits_iff W s.bw v h.1).2 hc.2]; exact e
    rw [this] at hs
    cases hs
    exact hframe
  · rw [set_panic s h.1 i v hc] at hs
    cases hs

/-- reader half of C14 for `BitFieldVec` (bonus): two stores with the same width and the same
logical contents — whatever garbage lies beyond `len * bw`, however many spare words — give the
same observation for every op, and the same logical contents afterwards -/
theorem step_garbage_independent (W : Nat) (hW : 0 < W) (s₁ s₂ : St) (h₁ : s₁.WInv W)
    (h₂ : s₂.WInv W) (hbw : s₁.bw = s₂.bw) (hv : s₁.vals W = s₂.vals W) (op : Op) :
    (∃ s₁' s₂' o, step W s₁ op = .ok (s₁', o) ∧ step W s₂ op = .ok (s₂', o) ∧
        s₁'.bw = s₂'.bw ∧ s₁'.vals W = s₂'.vals W) ∨
      (step W s₁ op = .panic ∧ step W s₂ op = .panic) := by
  have r₁ := step_refines_w hW s₁ h₁ op
  have r₂ := step_refines_w hW s₂ h₂ op
  rw [← hbw, ← hv] at r₂
  cases hs : specStep s₁.bw (s₁.vals W) op with
  | none =>
    rw [hs] at r₁ r₂
    exact Or.inr ⟨r₁, r₂⟩
  | some r =>
    obtain ⟨l', o⟩ := r
    rw [hs] at r₁ r₂
    obtain ⟨a, ea, _, hba, _, hva⟩ := r₁
    obtain ⟨b, eb, _, hbb, _, hvb⟩ := r₂
    exact Or.inl ⟨a, b, o, ea, eb, by rw [hba, hbb, hbw], by rw [hva, hvb]⟩

/-! ## equality, `from_slice` -/

theorem eq_spec (W : Nat) (hW : 0 < W) (a b : St) (ha : a.Inv W) (hb : b.Inv W) :
    eq W a b = .ok (decide (a.bw = b.bw ∧ a.vals W = b.vals W)) :=
  eq_w hW a b ha.toWInv hb.toWInv

theorem eq_spec_weak (W : Nat) (hW : 0 < W) (a b : St) (ha : a.WInv W) (hb : b.WInv W) :
    eq W a b = .ok (decide (a.bw = b.bw ∧ a.vals W = b.vals W)) :=
  eq_w hW a b ha hb

theorem fromSlice_spec (W : Nat) (hW : 0 < W) (vs : List Nat) (hv : ∀ v ∈ vs, v < 2 ^ W) :
    ∃ s, fromSlice W vs = .ok s ∧ s.Inv W ∧ s.vals W = vs :=
  fromSlice_ok hW vs hv

/-! ## non-vacuity: the hypotheses are satisfiable on concrete, non-trivial states -/

/-- `W = 8`, width 3, five elements `[5, 6, 6, 1, 4]` straddling the two words; the bit of the
second word above `len * bw = 15` is garbage (1), and a spare all-ones word follows -/
def exSt : St := { words := #[0xB5, 0xC3, 0xFF], bw := 3, len := 5 }

theorem exSt_wordsOK : WordsOK 8 exSt.words := by
  intro i hi
  have hi' : i < 3 := hi
  have : i = 0 ∨ i = 1 ∨ i = 2 := by omega
  rcases this with rfl | rfl | rfl <;> simp [exSt]

theorem exSt_inv : exSt.Inv 8 := ⟨by decide, by decide, by decide, exSt_wordsOK⟩

example : exSt.vals 8 = [5, 6, 6, 1, 4] := by decide

example : getU 8 exSt 2 = .ok (valAt 8 exSt.words 3 2) :=
  getU_spec 8 (by decide) exSt exSt_inv 2 (by decide)

example : ∃ s', setU 8 exSt 2 7 = .ok s' ∧ s'.len = exSt.len ∧ s'.bw = exSt.bw ∧
    s'.words.size = exSt.words.size ∧ WordsOK 8 s'.words ∧
    ∀ k, bitAt 8 s'.words k =
      if 2 * exSt.bw ≤ k ∧ k < (2 + 1) * exSt.bw then (7 : Nat).testBit (k - 2 * exSt.bw)
      else bitAt 8 exSt.words k :=
  setU_spec 8 (by decide) exSt exSt_inv 2 7 (by decide) (by decide)

example : valAt 8 exSt.words 3 2 < 2 ^ 3 := valAt_lt 8 exSt.words 3 2

example : (new 8 3 5).Inv 8 ∧ (new 8 3 5).vals 8 = List.replicate 5 0 :=
  new_spec 8 3 5 (by decide) (by decide)

example : (newUnaligned 8 8 5).Inv 8 ∧ (newUnaligned 8 8 5).vals 8 = List.replicate 5 0 :=
  newUnaligned_spec 8 8 5 (by decide) (by decide)

example : (withCapacity 8 3 10).WInv 8 ∧ (withCapacity 8 3 10).vals 8 = [] :=
  withCapacity_spec_w 8 3 10 (by decide)

example : ¬ (withCapacity 8 1 0).Inv 8 := withCapacity_not_inv 8 1 0 (by decide)

/-- a history mixing writes, growth across a word boundary, shrinkage, both iterators, reset -/
def exOps : List Op :=
  [.set 2 7, .push 3, .get 5, .pop, .resize 2 0, .push 7, .iterFrom 1, .revIterFrom 3,
   .extend [1, 2, 3, 4, 5, 6, 7], .reset, .get 9, .clear, .pop]

example : (specRun exSt.bw (exSt.vals 8) exOps).isSome = true := by decide

example :
    match specRun exSt.bw (exSt.vals 8) exOps with
    | some (l', os) => ∃ s', run 8 exSt exOps = .ok (s', os) ∧ s'.Inv 8 ∧ s'.bw = exSt.bw ∧
        s'.vals 8 = l'
    | none => run 8 exSt exOps = .panic :=
  run_refines 8 (by decide) exSt exSt_inv exOps

example :
    match specStep exSt.bw (exSt.vals 8) (.set 4 7) with
    | some (l', o) => ∃ s', step 8 exSt (.set 4 7) = .ok (s', o) ∧ s'.Inv 8 ∧ s'.bw = exSt.bw ∧
        s'.vals 8 = l'
    | none => step 8 exSt (.set 4 7) = .panic :=
  step_refines 8 (by decide) exSt exSt_inv (.set 4 7)

/-- the panic branch is inhabited too: value 8 does not fit 3 bits -/
example : step 8 exSt (.set 4 8) = .panic := by
  have := step_refines 8 (by decide) exSt exSt_inv (.set 4 8)
  exact this

example : step 8 exSt (.push 3) ≠ .oob := step_never_oob 8 (by decide) exSt exSt_inv (.push 3)

/-- the frame hypothesis is satisfiable: `set 4 7` succeeds on `exSt`, and the garbage bit 15
and the spare word survive -/
example : ∃ s' o, step 8 exSt (.set 4 7) = .ok (s', o) ∧
    ∀ k, exSt.len * exSt.bw ≤ k → bitAt 8 s'.words k = bitAt 8 exSt.words k := by
  have hs : step 8 exSt (.set 4 7) = .ok (⟨#[0xB5, 0xF3, 0xFF], 3, 5⟩, .unit) := by decide
  exact ⟨_, _, hs, (step_frame 8 (by decide) exSt exSt_inv (.set 4 7) rfl _ _ hs).2.2⟩

/-- equality ignores the garbage: `exSt` equals its clean, tightly-sized twin -/
def exClean : St := { words := #[0xB5, 0x43], bw := 3, len := 5 }

theorem exClean_inv : exClean.Inv 8 := by
  refine ⟨by decide, by decide, by decide, ?_⟩
  intro i hi
  have hi' : i < 2 := hi
  have : i = 0 ∨ i = 1 := by omega
  rcases this with rfl | rfl <;> simp [exClean]

example : eq 8 exSt exClean = .ok true := by
  rw [eq_spec 8 (by decide) exSt exClean exSt_inv exClean_inv]
  decide

example : ∃ s, fromSlice 8 [5, 255, 0, 17] = .ok s ∧ s.Inv 8 ∧ s.vals 8 = [5, 255, 0, 17] :=
  fromSlice_spec 8 (by decide) [5, 255, 0, 17] (by decide)

end Sux.BFV
