import SuxModel.EF.LemmasProps
/-!
# C03 — Elias–Fano returns exactly the monotone sequence it was built from

For every non-decreasing `xs` with all elements `≤ u < 2^64` and `n + 2·max n 1 < 2^64` elements
(`Input xs u`; the last condition only bounds the NUMBER of elements: with
`l = ⌊log2(u / max n 1)⌋` the upper-bits vector has at most `n + 2·max n 1` bits whatever `u` is —
`ef_new_total`; beyond it `EliasFanoBuilder::new` panics on the checked addition —
`ef_new_overflow_panics`), `n = xs.length`, and every state `s` produced by the sequential builder
(`build`: `new`, `push` of every value, `build`):

* `ef_repr`            the representation: `l = ⌊log2(u / max n 1)⌋ ≤ 63`, `high` has `n + (u >> l) + 1`
                        bits with a one exactly at `(xs[i] >> l) + i` — the `i`-th one —, and
                        `low[i] = xs[i] % 2^l`;
* `ef_get`, `ef_len`   `get i = xs[i]` (`panic` beyond `n`), `len = n`;
* `ef_iter`, `ef_iter_from`  `iter_from(k)` yields `xs.drop k` for all `k ≤ n` with
                        `len()` = remaining items before every `next` (`panic` for `k > n`);
* `ef_push_accepts_iff` in every reachable builder state `push v` is accepted iff the builder is
                        not full, `v ≤ u` and `v ≥` the last value; otherwise it panics (no state);
* `ef_build_too_few`   `build` panics when fewer than `n` values were pushed;
* `ef_extend`, `ef_from_slice`  the other builders give the same kind of state;
* `ef_concurrent_eq_sequential` (T-B) `set(i, xs[i])` over ANY list of indices covering `0..n`
                        gives exactly the state of the sequential builder;
* all results are `.ok`/`.panic` as stated, never `oob` (`ef_no_oob`).

Selection on the upper bits is the specification `RS.selectSpec` (real back-ends: C02).
-/
namespace Sux.EF

variable {xs : List Nat} {u : Nat} {s : St}

/-- the sequential builder succeeds -/
theorem ef_build_total (h : Input xs u) : ∃ s, build xs.length u xs = .ok s := by
  obtain ⟨s, e, _, _⟩ := build_ok xs u h.valid h.fits
  exact ⟨s, e⟩

/-- the representation -/
theorem ef_repr (h : Input xs u) (hs : build xs.length u xs = .ok s) :
    s.n = xs.length ∧ s.u = u ∧ s.l = lowWidth xs.length u ∧ s.l ≤ 63 ∧
    s.high.len = xs.length + (u >>> s.l) + 1 ∧ s.high.len < 2 ^ 64 ∧
    s.high.len ≤ 64 * s.high.words.size ∧
    (∀ k, bitAt 64 s.high.words k = true ↔ ∃ i, ∃ hi : i < xs.length, k = (xs[i] >>> s.l) + i) ∧
    (∀ i (hi : i < xs.length), RS.selectSpec s.high.words s.high.len i = some ((xs[i] >>> s.l) + i)) ∧
    RS.numOnes s.high.words s.high.len = xs.length ∧
    s.low.len = xs.length ∧ s.low.bw = s.l ∧ s.low.vals 64 = xs.map (· % 2 ^ s.l) := by
  obtain ⟨R, hl⟩ := rep_of_build h hs
  have V := h.valid
  refine ⟨R.n_eq, R.u_eq, hl, R.l_le, R.high_len, high_len_lt h R hl, R.high_inv.1, ?_, ?_,
    numOnes_eq R V, R.low_len, R.low_bw, ?_⟩
  · intro k
    rw [R.high_bit k]
    constructor
    · rintro ⟨i, hi, e⟩
      refine ⟨i, hi, ?_⟩
      rw [e]; unfold hiPos; rw [getD_eq_getElem xs hi]
    · rintro ⟨i, hi, e⟩
      refine ⟨i, hi, ?_⟩
      rw [e]; unfold hiPos; rw [getD_eq_getElem xs hi]
  · intro i hi
    have := sel1_ok R V hi
    unfold sel1 at this
    cases hsel : RS.selectSpec s.high.words s.high.len i with
    | none => rw [hsel] at this; cases this
    | some p =>
      rw [hsel] at this
      cases this
      unfold hiPos; rw [getD_eq_getElem xs hi]
  · apply BFV.vals_eq_of_valAt
    · simp [R.low_len]
    · intro i hi
      have hi' : i < xs.length := by simpa using hi
      rw [R.low_bw, R.low_val i hi', List.getElem_map, getD_eq_getElem xs hi']

/-- `get(i) = xs[i]` -/
theorem ef_get (h : Input xs u) (hs : build xs.length u xs = .ok s) (i : Nat) (hi : i < xs.length) :
    get s i = .ok xs[i] := by
  obtain ⟨R, _⟩ := rep_of_build h hs
  rw [get_ok R h.valid hi, getD_eq_getElem xs hi]

theorem ef_get_out_of_range (h : Input xs u) (hs : build xs.length u xs = .ok s) (i : Nat)
    (hi : xs.length ≤ i) : get s i = .panic :=
  get_panic (rep_of_build h hs).1 hi

/-- `len() = n` -/
theorem ef_len (h : Input xs u) (hs : build xs.length u xs = .ok s) : len s = xs.length :=
  (rep_of_build h hs).1.n_eq

/-- `iter()` yields `xs`; `len()` counts down `n, n-1, …, 0` -/
theorem ef_iter (h : Input xs u) (hs : build xs.length u xs = .ok s) :
    iterAll s = .ok (xs, (List.range (xs.length + 1)).map (fun j => xs.length - j)) := by
  rw [iterAll_ok (rep_of_build h hs).1 h.valid]
  simp [lensFrom]

/-- `iter_from(k)` yields `xs.drop k` for every `k ≤ n` (including `k = n`); `len()` before the
`j`-th call of `next` is `n - k - j` -/
theorem ef_iter_from (h : Input xs u) (hs : build xs.length u xs = .ok s) (k : Nat)
    (hk : k ≤ xs.length) :
    iterFrom s k = .ok (xs.drop k, (List.range (xs.length - k + 1)).map (fun j => xs.length - k - j)) :=
  iterFrom_ok (rep_of_build h hs).1 h.valid hk

theorem ef_iter_from_out_of_range (h : Input xs u) (hs : build xs.length u xs = .ok s) (k : Nat)
    (hk : xs.length < k) : iterFrom s k = .panic :=
  iterFrom_panic (rep_of_build h hs).1 hk

/-- in every builder state reached by accepted pushes of `ys`, `push v` is accepted exactly when the
builder is not full, `v ≤ u` and `v` is not smaller than the last accepted value -/
theorem ef_push_accepts_iff {n : Nat} (hu : u < 2 ^ 64)
    (hn : n + 2 * max n 1 < 2 ^ 64) (ys : List Nat) (b : Builder)
    (hb : (Builder.new n u >>= fun b0 => pushAll b0 ys) = .ok b) (v : Nat) :
    (∃ b', b.push v = .ok b' ∧ (Builder.new n u >>= fun b0 => pushAll b0 (ys ++ [v])) = .ok b') ↔
      (ys.length < n ∧ v ≤ u ∧ ys.getLast?.getD 0 ≤ v) := by
  have hfit := fits_of_len n u hn
  have B := binv_of_new hu hfit hb
  rw [getLast?_getD]
  constructor
  · rintro ⟨b', e, _⟩
    apply Classical.byContradiction
    intro hc
    rw [push_panic B v hc] at e
    cases e
  · intro hc
    obtain ⟨b', e, _, _⟩ := push_ok B v hc.1 hc.2.1 hc.2.2
    refine ⟨b', e, ?_⟩
    rw [bnew_ok n u hfit] at hb ⊢
    simp only [Out.bind_ok] at hb ⊢
    have : ∀ (vs : List Nat) (b0 b1 : Builder), pushAll b0 vs = .ok b1 →
        pushAll b0 (vs ++ [v]) = (b1.push v >>= fun b2 => pushAll b2 []) := by
      intro vs
      induction vs with
      | nil => intro b0 b1 h; cases h; rfl
      | cons w ws ih =>
        intro b0 b1 h
        have h' : (b0.push w >>= fun b2 => pushAll b2 ws) = .ok b1 := h
        show (b0.push w >>= fun b2 => pushAll b2 (ws ++ [v])) = _
        cases hp : b0.push w with
        | ok b2 => rw [hp] at h'; exact ih b2 b1 h'
        | panic => rw [hp] at h'; cases h'
        | oob => rw [hp] at h'; cases h'
    rw [this ys _ b hb, e]
    rfl

/-- … and every other push panics (the model returns no new state: the builder is unchanged) -/
theorem ef_push_rejects {n : Nat} (hu : u < 2 ^ 64)
    (hn : n + 2 * max n 1 < 2 ^ 64) (ys : List Nat) (b : Builder)
    (hb : (Builder.new n u >>= fun b0 => pushAll b0 ys) = .ok b) (v : Nat)
    (hbad : ¬ (ys.length < n ∧ v ≤ u ∧ ys.getLast?.getD 0 ≤ v)) : b.push v = .panic := by
  rw [getLast?_getD] at hbad
  exact push_panic (binv_of_new hu (fits_of_len n u hn) hb) v hbad

/-- `push_unchecked` under its documented contract (not full, `v ≤ u`, `v` not below the last value,
whichever of the two methods added it) IS `push`: a history that mixes the two public insertion
methods reaches exactly the states of the all-`push` history, so `ef_push_accepts_iff` /
`ef_push_rejects` speak about mixed histories too (in particular a checked push below a value added
by `push_unchecked` is rejected: both update `last`) -/
theorem ef_push_unchecked_is_push (b : Builder) (v : Nat)
    (hc : b.count ≠ b.n) (hu : v ≤ b.u) (hl : b.last ≤ v) : b.pushUnchecked v = b.push v := by
  unfold Builder.push
  have h1 : (b.count == b.n) = false := by simpa using hc
  have h2 : ¬ v > b.u := by omega
  have h3 : ¬ v < b.last := by omega
  simp [h1, h2, h3]

/-- … and it records the value it added: the next checked push compares against it -/
theorem ef_push_unchecked_records_last (b b' : Builder) (v : Nat) (h : b.pushUnchecked v = .ok b') :
    b'.last = v ∧ b'.count = b.count + 1 := by
  unfold Builder.pushUnchecked at h
  cases h1 : BFV.set 64 b.low b.count (v &&& lowMask b.l) with
  | panic => simp [h1, Bind.bind, Out.bind] at h
  | oob => simp [h1, Bind.bind, Out.bind] at h
  | ok lowS =>
    cases h2 : addC (v >>> b.l) b.count with
    | panic => simp [h1, h2, Bind.bind, Out.bind] at h
    | oob => simp [h1, h2, Bind.bind, Out.bind] at h
    | ok hi =>
      cases h3 : BV.set b.high hi true with
      | panic => simp [h1, h2, h3, Bind.bind, Out.bind] at h
      | oob => simp [h1, h2, h3, Bind.bind, Out.bind] at h
      | ok highS =>
        simp [h1, h2, h3, Bind.bind, Out.bind, Pure.pure] at h
        subst h
        exact ⟨rfl, rfl⟩

/-- `build` refuses a builder that received fewer than `n` values -/
theorem ef_build_too_few (h : Input xs u) (n : Nat) (hn : xs.length < n)
    (hlen : n + 2 * max n 1 < 2 ^ 64) : build n u xs = .panic :=
  build_too_few n u xs h.valid hn (fits_of_len n u hlen)

/-- `new` never overflows for fewer than about `2^64 / 3` declared values, whatever `u` is
(in particular `new(0, usize::MAX)`: the upper-bits vector of an empty sequence has ≤ 2 bits) -/
theorem ef_new_total (n u : Nat) (hn : n + 2 * max n 1 < 2 ^ 64) :
    ∃ b, Builder.new n u = .ok b ∧ b.l = lowWidth n u ∧ b.high.len = n + (u >>> lowWidth n u) + 1 ∧
      b.high.len ≤ n + 2 * max n 1 :=
  ⟨_, bnew_ok n u (fits_of_len n u hn), rfl, rfl, by
    have := shr_lowWidth_lt n u
    show n + (u >>> lowWidth n u) + 1 ≤ _
    omega⟩

/-- the only remaining overflow: `n + (u >> l) + 1 ≥ 2^64`, which needs `n ≥ (2^64 - 2) / 3`
declared values; then `new` panics (checked arithmetic) -/
theorem ef_new_overflow_panics (n u : Nat) (h : ¬ n + (u >>> lowWidth n u) + 1 < 2 ^ 64) :
    Builder.new n u = .panic ∧ 2 ^ 64 ≤ n + 2 * max n 1 :=
  ⟨bnew_panic n u h, by
    have := shr_lowWidth_lt n u
    omega⟩

/-- `extend` with the whole sequence = pushing every value -/
theorem ef_extend (h : Input xs u) (hs : build xs.length u xs = .ok s) :
    ∃ b0 b, Builder.new xs.length u = .ok b0 ∧ b0.extend xs = (b, .ok ()) ∧ b.build = .ok s := by
  unfold build at hs
  rw [bnew_ok _ _ h.fits] at hs
  simp only [Out.bind_ok] at hs
  cases hp : pushAll ⟨xs.length, u, lowWidth xs.length u, BFV.new 64 (lowWidth xs.length u) xs.length,
      BV.new (xs.length + (u >>> lowWidth xs.length u) + 1), 0, 0⟩ xs with
  | ok b =>
    rw [hp] at hs
    exact ⟨_, b, bnew_ok _ _ h.fits, extend_ok xs _ b hp, hs⟩
  | panic => rw [hp] at hs; cases hs
  | oob => rw [hp] at hs; cases hs

/-- `EliasFano::from(slice)`: a representation of the slice with `u = max`, hence the same
`get` / `iter` answers -/
theorem ef_from_slice (hm : xs.Pairwise (· ≤ ·)) (hlt : ∀ x, x ∈ xs → x < 2 ^ 64)
    (hn : xs.length + 2 * max xs.length 1 < 2 ^ 64) :
    ∃ s, fromSlice xs = .ok s ∧ s.n = xs.length ∧ s.u = lmax xs ∧
      (∀ i (hi : i < xs.length), get s i = .ok xs[i]) ∧
      (∀ k, k ≤ xs.length → iterFrom s k = .ok (xs.drop k, lensFrom xs.length k)) := by
  obtain ⟨s, e, R, _⟩ := fromSlice_ok xs (mono_of_pairwise hm) hlt (fits_of_len _ _ hn)
  have V : Valid xs (lmax xs) := ⟨mono_of_pairwise hm,
    fun i hi => by rw [getD_eq_getElem xs hi]; exact mem_le_foldl_max xs 0 _ (List.getElem_mem hi),
    foldl_max_lt xs 0 _ (Nat.two_pow_pos 64) hlt⟩
  refine ⟨s, e, R.n_eq, R.u_eq, ?_, fun k hk => iterFrom_ok R V hk⟩
  intro i hi
  rw [get_ok R V hi, getD_eq_getElem xs hi]

/-- a slice that is not monotone is rejected -/
theorem ef_from_slice_rejects (i : Nat) (hi : i + 1 < xs.length)
    (hd : xs.getD (i + 1) 0 < xs.getD i 0) : fromSlice xs = .panic :=
  fromSlice_panic xs ⟨i, hi, hd⟩

/-- T-B: the concurrent builder run with the indices in ANY order (every index present,
repetitions allowed) yields exactly the state of the sequential builder -/
theorem ef_concurrent_eq_sequential (h : Input xs u) (is : List Nat)
    (his : ∀ i, i ∈ is → i < xs.length) (hall : ∀ i, i < xs.length → i ∈ is) :
    cbuild xs.length u xs is = build xs.length u xs :=
  cbuild_eq_build xs u h.valid is his hall h.fits

/-- no modelled access is out of bounds -/
theorem ef_no_oob (h : Input xs u) (hs : build xs.length u xs = .ok s) (i k : Nat) :
    get s i ≠ .oob ∧ iterAll s ≠ .oob ∧ iterFrom s k ≠ .oob := by
  obtain ⟨R, _⟩ := rep_of_build h hs
  refine ⟨?_, ?_, ?_⟩
  · rcases Nat.lt_or_ge i xs.length with hi | hi
    · rw [get_ok R h.valid hi]; intro e; cases e
    · rw [get_panic R hi]; intro e; cases e
  · rw [iterAll_ok R h.valid]; intro e; cases e
  · rcases Nat.lt_or_ge xs.length k with hk | hk
    · rw [iterFrom_panic R hk]; intro e; cases e
    · rw [iterFrom_ok R h.valid hk]; intro e; cases e

/-! ## non-vacuity: the hypotheses hold on a concrete sequence with duplicates, first = 0, last = u,
on the empty sequence with the largest universe, and on a singleton at `usize::MAX` -/

example : Input [0, 2, 2, 8, 10] 10 := ⟨by decide, by decide, by decide, by decide⟩

example : Input [] (2 ^ 64 - 1) := ⟨by decide, by simp, by decide, by decide⟩

example : Input [2 ^ 64 - 1] (2 ^ 64 - 1) := ⟨by simp, by simp, by decide, by decide⟩

example : ∃ s, build 5 10 [0, 2, 2, 8, 10] = .ok s :=
  ef_build_total (xs := [0, 2, 2, 8, 10]) ⟨by decide, by decide, by decide, by decide⟩

/-- `EliasFanoBuilder::new(0, usize::MAX)` succeeds -/
example : ∃ b, Builder.new 0 (2 ^ 64 - 1) = .ok b := by
  obtain ⟨b, e, _⟩ := ef_new_total 0 (2 ^ 64 - 1) (by decide)
  exact ⟨b, e⟩

example : ∀ i, i ∈ [4, 0, 3, 1, 2, 0] → i < [0, 2, 2, 8, 10].length := by decide

end Sux.EF
