import SuxModel.Props.C03
import SuxModel.Props.C02Adapt
/-!
# C03/C04 ∘ C02 — the real selection back-ends of Elias–Fano answer the specification selection

The Elias–Fano model (`SuxModel/EF/Model.lean`) selects on the upper-bits vector with the
SPECIFICATION (`RS.selectSpec` / `RS.selectZeroSpec`); C03 and C04 list "select back-ends correct
(C02)" as an assumption.  This file discharges it for the back-ends the crate's own type aliases use
(`EfSeq = EliasFano<SelectAdaptConst<_, _, 12, 3>>`, `EfDict = EliasFano<SelectZeroAdaptConst<_, _, 12, 3>>`,
`EfSeqDict` = both) and for every other choice of the const parameters: on the upper-bits vector of
ANY state the sequential builder produces, the model of `SelectAdaptConst::<L, M>::new` /
`SelectZeroAdaptConst::<L, M>::new` (C02: builder + query, proved for every backend) succeeds and its
`select` / `select_zero` is, for EVERY rank, the specification selection the EF model uses.

Hypothesis forced by C02 (`adapt_build_inv`): the upper-bits vector is shorter than `2^62` bits (the
two tag bits of an inventory entry).  It holds whenever `n + 2·max n 1 < 2^62`.
-/
namespace Sux.EF
open Sux.RS Sux.RS.Adapt

variable {xs : List Nat} {u : Nat} {s : St}

/-- the upper-bits vector of a built structure is a well-formed bit-vector state of known length -/
theorem ef_high_wellformed (h : Input xs u) (hs : build xs.length u xs = .ok s) :
    s.high.len ≤ 64 * s.high.words.size ∧ s.high.len = xs.length + (u >>> s.l) + 1 :=
  ⟨(ef_repr h hs).2.2.2.2.2.2.1, (ef_repr h hs).2.2.2.2.1⟩

/-- **`EfSeq` / `EfSeqDict`: `SelectAdaptConst<_, _, L, M>` over the upper bits is the specification
`select`** (used by `get`, `iter_from`, `pred`) -/
theorem ef_select_backend_is_spec (h : Input xs u) (hs : build xs.length u xs = .ok s)
    (l m : Nat) (hl : l < 64) (hm : m < 64) (h62 : max 1 s.high.len < 2 ^ 62) :
    ∃ q, (layerConst false l m s.high.words s.high.len (numOnes s.high.words s.high.len)).select = some q ∧
      ∀ r, q r = .ok (selectSpec s.high.words s.high.len r) :=
  adaptConst_select_correct l m s.high.words s.high.len hl hm (ef_high_wellformed h hs).1 h62

/-- **`EfDict` / `EfSeqDict`: `SelectZeroAdaptConst<_, _, L, M>` over the upper bits is the
specification `select_zero`** (used by `succ`, `pred`, `index_of`) -/
theorem ef_select_zero_backend_is_spec (h : Input xs u) (hs : build xs.length u xs = .ok s)
    (l m : Nat) (hl : l < 64) (hm : m < 64) (h62 : max 1 s.high.len < 2 ^ 62) :
    ∃ q, (layerConst true l m s.high.words s.high.len (numOnes s.high.words s.high.len)).selectZero = some q ∧
      ∀ r, q r = .ok (selectZeroSpec s.high.words s.high.len r) :=
  adaptConst_select_zero_correct l m s.high.words s.high.len hl hm (ef_high_wellformed h hs).1 h62

/-- the `2^62` side condition in terms of the input alone -/
theorem ef_high_lt_2_62 (h : Input xs u) (hs : build xs.length u xs = .ok s)
    (hn : xs.length + 2 * max xs.length 1 < 2 ^ 62) : max 1 s.high.len < 2 ^ 62 := by
  obtain ⟨_, _, hl, _, hlen, _⟩ := ef_repr h hs
  have hb := shr_lowWidth_lt xs.length u
  rw [hlen, hl]
  omega

-- the crate's parameters (12, 3) on the structure built from [0, 2, 2, 8, 10] over u = 10
example (hs : build 5 10 [0, 2, 2, 8, 10] = .ok s) :
    ∃ q, (layerConst false 12 3 s.high.words s.high.len (numOnes s.high.words s.high.len)).select = some q ∧
      ∀ r, q r = .ok (selectSpec s.high.words s.high.len r) :=
  ef_select_backend_is_spec (xs := [0, 2, 2, 8, 10]) ⟨by decide, by decide, by decide, by decide⟩ hs 12 3
    (by decide) (by decide)
    (ef_high_lt_2_62 (xs := [0, 2, 2, 8, 10]) ⟨by decide, by decide, by decide, by decide⟩ hs (by decide))

end Sux.EF
