import SuxModel.Misc.Lemmas
/-!
# Extra — `FairChunks`, `SliceSeq`, and the default methods of the dictionary / rank-select traits

Model: `SuxModel/Misc/Model.lean` (mirrors `src/utils/fair_chunks.rs`, `src/dict/slice_seq.rs`, the
default methods of `src/traits/indexed_dict.rs`, `src/traits/rank_sel.rs`, `src/traits/iter.rs`);
runner `misc` ties it to the real code.  Evidence for C04 (order-theoretic queries through the
trait defaults) and C12 (no out-of-contract unchecked call).

## FairChunks

Vocabulary: `xs` = the cumulative weight list held by the structure behind the iterator
(`n = xs.length - 1` weights, last element `M`); `succU` = its `succ_unchecked::<false>`;
`SuccLeast xs succU` = "inside its safety contract (`q ≤ M`) `succU q` answers the LEAST index whose
element is `≥ q`" — proved for every Elias–Fano state (`fc_ef`) and for the list implementor
(`fc_mock`); nothing is assumed about `succU` outside the contract, so every theorem below whose
conclusion excludes `oob` says that the contract is never left.  `FC.Run xs succU t k ps e s'` =
"`k` calls of `next` on `FairChunks::new(t, cwf)` give the items `ps`, end as `e`, leave `s'`".

Results, for every non-empty non-decreasing `xs`, every `t > 0`, `k ≥ xs.length + 2`:
* `fc_safe`        the run ends with `None` (`done`) or a `panic`; never `oob`, never unfinished;
* `fc_tiles`       `done` ⇒ the ranges are consecutive, well formed, start at 0, end at `n`; their
                   elements in order are exactly `0, 1, …, n-1` (disjoint, union `[0, n)`);
* `fc_terminates`  at most `n + 2` ranges (`n + 1` when `xs[0] = 0`; bound attained), then `None`
                   forever;
* `fc_weights`     (needs `xs[0] = 0`) every range but the last is non-empty, weighs `≥ t`, and
                   `< t` without its last element; the last range weighs `< t`;
* `fc_no_panic`    `M + t < 2^64` ⇒ `done`; `fc_overflow_panics`: otherwise it can panic;
* `fc_target_zero` `t = 0` ⇒ no range at all;
* `fc_new`         `FairChunks::new` over an EMPTY list panics (`len - 1`), else it is
                   `new_with(t, cwf, len - 1, last)`.
Hypotheses forced by the proofs and what happens without them: see the `example`s at the end
(`xs[0] ≠ 0`: first chunk may be lighter than `t`, and even empty; `new_with` with `max_weight`
above the last element: `succ_unchecked` is called without a successor from SAFE code).

Findings, replayed on the real code by `harness/src/bin/probe_misc.rs` (debug = checked build, the
one the model describes; release = wrapping arithmetic, no debug assertions):
* `FairChunks::new(5, &ef)` over an empty Elias–Fano: debug panics "attempt to subtract with
  overflow" (fair_chunks.rs:157); release yields the single range `0..18446744073709551615`;
* `FairChunks::new_with(1, &ef[0,1], 1, 5)` (all safe calls): debug trips the `debug_assert!` in
  `succ_unchecked` (elias_fano.rs:384) on the second `next`; release returns `1..2`, `2..1`
  (index 2 does not exist); with 1000 elements and `max_weight = usize::MAX` release returns
  `900..1000` and then dies in `BitFieldVec` with "Start index out of bounds";
* `FairChunks::new(1 << 63, &ef[0, 1 << 63, usize::MAX])`: debug panics "attempt to add with
  overflow" (fair_chunks.rs:171) on the second `next`; release never terminates
  (`0..1, 1..0, 0..1, 1..0, …`);
* (observation) `[0,5,10]`, target 5: `0..1, 1..2, 2..2` — a trailing EMPTY range whenever the
  weights from some point on add up exactly to a multiple of the target.
-/
namespace Sux.Misc
open Sux.EF (Mono geq leq subC addC)

/-! ## FairChunks -/

/-- `k` calls of `next` on `FairChunks::new(t, cwf)` / `new_with(t, cwf, n, M)` with consistent
`n = xs.length - 1`, `M = xs[n]` -/
def FC.Run (xs : List Nat) (succU : Nat → Out (Nat × Nat)) (t k : Nat)
    (ps : List (Nat × Nat)) (e : FC.Ending) (s' : FC) : Prop :=
  FC.drain succU k (FC.newWith t (xs.length - 1) (xs.getD (xs.length - 1) 0)) = (ps, e, s')

instance (xs : List Nat) (succU : Nat → Out (Nat × Nat)) (t k : Nat)
    (ps : List (Nat × Nat)) (e : FC.Ending) (s' : FC) : Decidable (FC.Run xs succU t k ps e s') := by
  unfold FC.Run; infer_instance

variable {xs : List Nat} {succU : Nat → Out (Nat × Nat)} {t k : Nat}
  {ps : List (Nat × Nat)} {e : FC.Ending} {s' : FC}

/-- the run is a greedy run (`Chunks`), and it is complete -/
theorem fc_run_chunks (hne : xs ≠ []) (hm : Mono xs) (hS : SuccLeast xs succU) (ht : 0 < t)
    (hk : xs.length + 2 ≤ k) (hr : FC.Run xs succU t k ps e s') :
    Chunks xs t 0 0 ps e ∧ (e = .done → s'.target = 0) := by
  have hl : 0 < xs.length := List.length_pos_iff.2 hne
  have hmu : mu xs 0 0 + 2 ≤ k := by
    unfold mu
    split <;> omega
  obtain ⟨ps', e', s'', hd, hC, hdone⟩ := drain_chunks hm hS ht k
    (FC.newWith t (xs.length - 1) (xs.getD (xs.length - 1) 0)) rfl rfl rfl hl
    (fun j hj => absurd hj (Nat.not_lt_zero _)) hmu
  unfold FC.Run at hr
  rw [hd] at hr
  cases hr
  exact ⟨hC, fun h => (hdone h).2⟩

/-- **Safety / termination of the loop.**  Every call of `succ_unchecked` is inside its contract
(no `oob`), and `xs.length + 2` calls of `next` always reach the end. -/
theorem fc_safe (hne : xs ≠ []) (hm : Mono xs) (hS : SuccLeast xs succU) (ht : 0 < t)
    (hk : xs.length + 2 ≤ k) (hr : FC.Run xs succU t k ps e s') :
    e = .done ∨ e = .panic :=
  chunks_ending (fc_run_chunks hne hm hS ht hk hr).1

/-- **Tiling.**  The ranges are consecutive (`start` of each = `end` of the previous one), well
formed (`start ≤ end`), the first starts at 0, the last ends at `n`, and their elements, in order,
are exactly `0, …, n - 1`.  After a panic the ranges delivered so far tile a prefix `[0, b)`. -/
theorem fc_tiles (hne : xs ≠ []) (hm : Mono xs) (hS : SuccLeast xs succU) (ht : 0 < t)
    (hk : xs.length + 2 ≤ k) (hr : FC.Run xs succU t k ps e s') :
    (e = .done → Consec 0 ps (xs.length - 1) ∧ elems ps = List.range (xs.length - 1)) ∧
    (∃ b, b ≤ xs.length - 1 ∧ Consec 0 ps b ∧ elems ps = List.range b) := by
  have hl : 0 < xs.length := List.length_pos_iff.2 hne
  obtain ⟨b, hb, hc, hd⟩ := chunks_consec hm ht (fc_run_chunks hne hm hS ht hk hr).1 hl
    (fun j hj => absurd hj (Nat.not_lt_zero _))
  have he := (elems_consec ps 0 b hc).2
  rw [Nat.sub_zero, ← List.range_eq_range'] at he
  refine ⟨fun h => ?_, b, by omega, hc, he⟩
  have := hd h
  subst this
  exact ⟨hc, he⟩

/-- **Termination.**  At most `n + 2 = xs.length + 1` ranges are delivered, `n + 1` when `xs[0] = 0`;
then the iterator is exhausted: `target_weight = 0` and every further `next` returns `None`
without touching the state. -/
theorem fc_terminates (hne : xs ≠ []) (hm : Mono xs) (hS : SuccLeast xs succU) (ht : 0 < t)
    (hk : xs.length + 2 ≤ k) (hr : FC.Run xs succU t k ps e s') :
    ps.length ≤ xs.length + 1 ∧ (xs.getD 0 0 = 0 → ps.length ≤ xs.length) ∧
    (e = .done → s'.target = 0 ∧ FC.next succU s' = .ok (none, s') ∧
      ∀ m, FC.drain succU (m + 1) s' = ([], .done, s')) := by
  have hl : 0 < xs.length := List.length_pos_iff.2 hne
  obtain ⟨hC, hdone⟩ := fc_run_chunks hne hm hS ht hk hr
  have hlen := chunks_length hm ht hC hl (fun j hj => absurd hj (Nat.not_lt_zero _))
  refine ⟨?_, ?_, fun h => ⟨hdone h, next_zero succU s' (hdone h),
    fun m => drain_exhausted succU s' (hdone h) m⟩⟩
  · unfold mu at hlen; split at hlen <;> omega
  · intro h0
    unfold mu at hlen
    rw [if_pos (by omega)] at hlen
    omega

/-- **Weights** (cumulative list starting at 0).  Every delivered range except the final one
(`FairChunk`): is non-empty, has total weight `xs[end] - xs[start] ≥ t`, and weight `< t` once its
last element is dropped.  The final range `(a', n)` has weight `< t` (it may be empty). -/
theorem fc_weights (hne : xs ≠ []) (hm : Mono xs) (hS : SuccLeast xs succU) (ht : 0 < t)
    (h0 : xs.getD 0 0 = 0) (hk : xs.length + 2 ≤ k) (hr : FC.Run xs succU t k ps e s') :
    (e = .done → ∃ init a', ps = init ++ [(a', xs.length - 1)] ∧
      (∀ p, p ∈ init → FairChunk xs t p) ∧ a' < xs.length ∧
      xs.getD (xs.length - 1) 0 < xs.getD a' 0 + t) ∧
    (e = .panic → ∀ p, p ∈ ps → FairChunk xs t p) := by
  have hl : 0 < xs.length := List.length_pos_iff.2 hne
  exact chunks_weights hm ht (fc_run_chunks hne hm hS ht hk hr).1 hl h0.symm

/-- **No panic** when `last + target_weight` fits in `usize`. -/
theorem fc_no_panic (hne : xs ≠ []) (hm : Mono xs) (hS : SuccLeast xs succU) (ht : 0 < t)
    (hfit : xs.getD (xs.length - 1) 0 + t < 2 ^ 64)
    (hk : xs.length + 2 ≤ k) (hr : FC.Run xs succU t k ps e s') : e = .done :=
  chunks_no_panic hm (fc_run_chunks hne hm hS ht hk hr).1 hfit (Nat.zero_le _)

/-- **`target_weight = 0`**: the iterator is born exhausted, whatever the other fields are. -/
theorem fc_target_zero (succU : Nat → Out (Nat × Nat)) (s : FC) (h : s.target = 0) (k : Nat) :
    FC.next succU s = .ok (none, s) ∧ FC.drain succU (k + 1) s = ([], .done, s) :=
  ⟨next_zero succU s h, drain_exhausted succU s h k⟩

/-- **`FairChunks::new`** over any implementor presenting `xs`: an empty structure panics
(`num_weights: len - 1` underflows in a checked build; a release build wraps to `usize::MAX`), a
non-empty one gives `new_with(t, cwf, len - 1, last)`. -/
theorem fc_new (d : DictImpl) (hS : d.Seq xs) (t : Nat) :
    FC.new d.len (fun i => (d.get i).out) t =
      if xs = [] then .panic
      else .ok (FC.newWith t (xs.length - 1) (xs.getD (xs.length - 1) 0)) := by
  unfold FC.new
  rw [hS.len_eq]
  by_cases h : xs = []
  · subst h; simp [subC]
  · have hl : 0 < xs.length := List.length_pos_iff.2 h
    have hb : (xs.length == 0) = false := by simp; omega
    have hlt : xs.length - 1 < d.len := by rw [hS.len_eq]; omega
    simp only [hb, Bool.false_eq_true, if_false, if_neg h, DictImpl.get_eq, if_pos hlt,
      hS.get_ok _ (by omega : xs.length - 1 < xs.length), Out.bind_ok]
    unfold subC
    rw [if_pos (by omega)]
    rfl

/-- **Elias–Fano**: every state built from a valid input presents `xs` and satisfies `SuccLeast`;
hence all the theorems above apply to `FairChunks::new(t, &ef)` / `new_with(t, &ef, n, M)`. -/
theorem fc_ef {u : Nat} {s : EF.St} (h : EF.Input xs u) (hs : EF.build xs.length u xs = .ok s) :
    (DictImpl.ofEF s).Seq xs ∧ SuccLeast xs (EF.succU false s) ∧
    SuccLeast xs ((DictImpl.ofEF s).succU false) := by
  obtain ⟨R, hl⟩ := EF.rep_of_build h hs
  have hL := succLeast_ef R h.valid (EF.high_len_lt h R hl)
  exact ⟨⟨R.n_eq, fun i hi => EF.getU_ok R h.valid hi⟩, hL, hL⟩

/-- **End to end on Elias–Fano** (the configuration of the documentation): for every valid
non-empty cumulative list, `FairChunks::new(t, &ef)` succeeds, and `xs.length + 2` calls of `next`
never leave the contract of `succ_unchecked`, finish, tile `[0, n)`, deliver at most `n + 2` ranges,
and do not panic when `last + t` fits in `usize`. -/
theorem fc_ef_end_to_end {u : Nat} {s : EF.St} (h : EF.Input xs u)
    (hs : EF.build xs.length u xs = .ok s) (hne : xs ≠ []) (ht : 0 < t) (hk : xs.length + 2 ≤ k) :
    ∃ fc ps e s', FC.new (EF.len s) (EF.get s) t = .ok fc ∧
      FC.drain (EF.succU false s) k fc = (ps, e, s') ∧
      (e = .done ∨ e = .panic) ∧
      (e = .done → Consec 0 ps (xs.length - 1) ∧ elems ps = List.range (xs.length - 1)) ∧
      ps.length ≤ xs.length + 1 ∧
      (xs.getD (xs.length - 1) 0 + t < 2 ^ 64 → e = .done) := by
  obtain ⟨hSeq, hL, _⟩ := fc_ef h hs
  have hm : Mono xs := EF.mono_of_pairwise h.mono
  have hnew := fc_new (DictImpl.ofEF s) hSeq t
  rw [if_neg hne] at hnew
  have hget : (fun i => ((DictImpl.ofEF s).get i).out) = EF.get s := funext (ofEF_get s)
  rw [hget] at hnew
  generalize hd : FC.drain (EF.succU false s) k
    (FC.newWith t (xs.length - 1) (xs.getD (xs.length - 1) 0)) = r
  obtain ⟨ps, e, s'⟩ := r
  have hr : FC.Run xs (EF.succU false s) t k ps e s' := hd
  exact ⟨_, ps, e, s', hnew, hd, fc_safe hne hm hL ht hk hr, (fc_tiles hne hm hL ht hk hr).1,
    (fc_terminates hne hm hL ht hk hr).1, fun hfit => fc_no_panic hne hm hL ht hfit hk hr⟩

/-- the list implementor (harness `MockDict`) -/
theorem fc_mock (xs : List Nat) :
    (DictImpl.ofList xs).Seq xs ∧ SuccLeast xs ((DictImpl.ofList xs).succU false) := by
  refine ⟨⟨rfl, fun i hi => ?_⟩, succLeast_ofList xs⟩
  simp only [DictImpl.ofList]
  rw [List.getElem?_eq_getElem hi, EF.getD_eq_getElem xs hi]

/-! ### non-vacuity and the excluded points -/

/-- the crate's own test vector (`test_fair_chunks`, doc example): weights and threshold 50 -/
def docCwf : List Nat :=
  [0, 15, 42, 62, 88, 92, 114, 124, 149, 156, 169, 169, 180, 185, 213, 236, 237, 249, 273, 276,
   306, 314, 343, 360, 362, 376, 385, 401, 419, 440, 459]

example : FC.Run docCwf ((DictImpl.ofList docCwf).succU false) 50 33
    [(0, 3), (3, 6), (6, 10), (10, 15), (15, 20), (20, 23), (23, 28), (28, 30)] .done
    { target := 0, currPos := 28, currentWeight := 419, numWeights := 30, maxWeight := 459 } := by
  decide

example : docCwf ≠ [] ∧ Mono docCwf ∧ docCwf.getD 0 0 = 0 ∧ docCwf.length + 2 ≤ 33 ∧
    docCwf.getD (docCwf.length - 1) 0 + 50 < 2 ^ 64 := by
  refine ⟨by decide, EF.mono_of_pairwise (by decide), by decide, by decide, by decide⟩

/-- `fc_ef_end_to_end` applies to the documentation example -/
example : EF.Input docCwf 459 ∧ docCwf ≠ [] :=
  ⟨⟨by decide, by decide, by decide, by decide⟩, by decide⟩

/-- the bound `n + 1` on the number of ranges is attained, and the last range is EMPTY whenever
the weights from some point on add up exactly to a multiple of the target -/
example : FC.Run [0, 5, 10] ((DictImpl.ofList [0, 5, 10]).succU false) 5 5
    [(0, 1), (1, 2), (2, 2)] .done
    { target := 0, currPos := 2, currentWeight := 10, numWeights := 2, maxWeight := 10 } := by
  decide

/-- zero weights (repeated cumulative values): `succ_unchecked::<false>` returns the first of them -/
example : FC.Run [0, 0, 5, 5, 5, 10, 10] ((DictImpl.ofList [0, 0, 5, 5, 5, 10, 10]).succU false) 5 9
    [(0, 2), (2, 5), (5, 6)] .done
    { target := 0, currPos := 5, currentWeight := 10, numWeights := 6, maxWeight := 10 } := by
  decide

/-- single element `[0]` (no weights): one empty range -/
example : FC.Run [0] ((DictImpl.ofList [0]).succU false) 5 3 [(0, 0)] .done
    { target := 0, currPos := 0, currentWeight := 0, numWeights := 0, maxWeight := 0 } := by
  decide

/-- `fc_weights` without `xs[0] = 0`: `[3, 5]`, `t = 4` — the first (non-final) range `0..1` weighs
`5 - 3 = 2 < 4`; and with `t = 2` the first range is empty (`0..0`) and `n + 2 = 3` ranges come out -/
example : FC.Run [3, 5] ((DictImpl.ofList [3, 5]).succU false) 4 4 [(0, 1), (1, 1)] .done
    { target := 0, currPos := 1, currentWeight := 5, numWeights := 1, maxWeight := 5 } ∧
    ¬ FairChunk [3, 5] 4 (0, 1) ∧
    FC.Run [3, 5] ((DictImpl.ofList [3, 5]).succU false) 2 4 [(0, 0), (0, 1), (1, 1)] .done
    { target := 0, currPos := 1, currentWeight := 5, numWeights := 1, maxWeight := 5 } := by
  refine ⟨by decide, ?_, by decide⟩
  unfold FairChunk; decide

/-- `fc_no_panic` without `M + t < 2^64`: `current_weight + target_weight` overflows on the second
call; the checked build panics, the state is unchanged, every further call panics again -/
theorem fc_overflow_panics :
    FC.Run [0, 2 ^ 63, 2 ^ 64 - 1] ((DictImpl.ofList [0, 2 ^ 63, 2 ^ 64 - 1]).succU false) (2 ^ 63) 5
      [(0, 1)] .panic
      { target := 2 ^ 63, currPos := 1, currentWeight := 2 ^ 63, numWeights := 2,
        maxWeight := 2 ^ 64 - 1 } := by
  decide

/-- FINDING (soundness of a safe API): `new_with` trusts `max_weight`.  With `max_weight` above the
last cumulative weight, `next` — safe code — calls `succ_unchecked` for a value that has no
successor.  On the list implementor that call is `oob`. -/
theorem fc_new_with_unsafe :
    FC.drain ((DictImpl.ofList [0, 1]).succU false) 3 (FC.newWith 1 1 5) =
      ([(0, 1)], .oob, FC.mk 1 1 1 1 5) := by
  decide

/-- FINDING: `FairChunks::new` on an empty structure panics although the line before handles
`len == 0` -/
theorem fc_new_empty_panics (get : Nat → Out Nat) (t : Nat) : FC.new 0 get t = .panic := rfl

/-! ## `traits/indexed_dict.rs`: default methods = guard + unchecked call -/

/-- `succ` / `succ_strict` by the const parameter of the unchecked call they make -/
def succW (d : DictImpl) (strict : Bool) (q : Nat) : Tr (Option (Nat × Nat)) :=
  if strict then d.succStrict q else d.succ q

/-- `pred` / `pred_strict` -/
def predW (d : DictImpl) (strict : Bool) (q : Nat) : Tr (Option (Nat × Nat)) :=
  if strict then d.predStrict q else d.pred q

/-- **`Succ::succ`, `Succ::succ_strict`.**  For every implementor `d` presenting a list `xs` (not
necessarily sorted) and every query:
* guard passed (`xs` non-empty and `q ≤ last`, resp. `q < last`) ⇒ the safety contract of
  `succ_unchecked::<STRICT>` holds (a successor exists: the last element), the method returns
  `Some` of the unchecked answer, and makes exactly the calls `len, len, len, get_unchecked(n-1),
  succ_unchecked(q)`;
* guard failed ⇒ the answer is `None` and `succ_unchecked` is NOT called (the log contains only
  `len` and `get_unchecked(n-1)`);
* if `xs` is sorted the guard fails exactly when no successor exists. -/
theorem succ_default (d : DictImpl) (hS : d.Seq xs) (strict : Bool) (q : Nat) :
    ((xs ≠ [] ∧ geq strict q (xs.getD (xs.length - 1) 0)) →
      (∃ y, y ∈ xs ∧ geq strict q y) ∧
      (succW d strict q).out = someOf (d.succU strict q) ∧
      (succW d strict q).log =
        [.len, .len, .len, .getU (xs.length - 1), .succU strict q]) ∧
    (¬ (xs ≠ [] ∧ geq strict q (xs.getD (xs.length - 1) 0)) →
      (succW d strict q).out = .ok none ∧
      (∀ c, c ∈ (succW d strict q).log → c = .len ∨ c = .getU (xs.length - 1)) ∧
      (Mono xs → ¬ ∃ y, y ∈ xs ∧ geq strict q y)) := by
  have hlen := hS.len_eq
  constructor
  · rintro ⟨hne, hg⟩
    have hl : 0 < xs.length := List.length_pos_iff.2 hne
    have hlast := hS.get_ok (xs.length - 1) (by omega)
    refine ⟨⟨_, (EF.mem_iff_getD xs _).2 ⟨xs.length - 1, by omega, rfl⟩, hg⟩, ?_⟩
    cases strict with
    | false =>
      have hg' : ¬ q > xs.getD (xs.length - 1) 0 := by simpa [geq] using hg
      simp only [succW, Bool.false_eq_true, if_false, DictImpl.succ_eq, hlen,
        if_neg (by omega : ¬ xs.length = 0), hlast, if_neg hg']
      exact ⟨trivial, trivial⟩
    | true =>
      have hg' : ¬ q ≥ xs.getD (xs.length - 1) 0 := by simpa [geq] using hg
      simp only [succW, if_true, DictImpl.succStrict_eq, hlen,
        if_neg (by omega : ¬ xs.length = 0), hlast, if_neg hg']
      exact ⟨trivial, trivial⟩
  · intro hng
    by_cases hne : xs = []
    · subst hne
      have h0 : d.len = 0 := by simpa using hlen
      refine ⟨?_, ?_, fun _ ⟨y, hy, _⟩ => by cases hy⟩
      · cases strict <;> simp [succW, DictImpl.succ_eq, DictImpl.succStrict_eq, h0]
      · intro c hc
        cases strict <;>
          simp [succW, DictImpl.succ_eq, DictImpl.succStrict_eq, h0] at hc <;> exact Or.inl hc
    · have hl : 0 < xs.length := List.length_pos_iff.2 hne
      have hlast := hS.get_ok (xs.length - 1) (by omega)
      have hg : ¬ geq strict q (xs.getD (xs.length - 1) 0) := fun h => hng ⟨hne, h⟩
      refine ⟨?_, ?_, ?_⟩
      · cases strict with
        | false =>
          have hg' : q > xs.getD (xs.length - 1) 0 := by simpa [geq] using hg
          simp only [succW, Bool.false_eq_true, if_false, DictImpl.succ_eq, hlen,
            if_neg (by omega : ¬ xs.length = 0), hlast, if_pos hg']
        | true =>
          have hg' : q ≥ xs.getD (xs.length - 1) 0 := by simpa [geq] using hg
          simp only [succW, if_true, DictImpl.succStrict_eq, hlen,
            if_neg (by omega : ¬ xs.length = 0), hlast, if_pos hg']
      · intro c hc
        cases strict with
        | false =>
          have hg' : q > xs.getD (xs.length - 1) 0 := by simpa [geq] using hg
          simp only [succW, Bool.false_eq_true, if_false, DictImpl.succ_eq, hlen,
            if_neg (by omega : ¬ xs.length = 0), hlast, if_pos hg'] at hc
          simp at hc
          rcases hc with h | h <;> simp [h]
        | true =>
          have hg' : q ≥ xs.getD (xs.length - 1) 0 := by simpa [geq] using hg
          simp only [succW, if_true, DictImpl.succStrict_eq, hlen,
            if_neg (by omega : ¬ xs.length = 0), hlast, if_pos hg'] at hc
          simp at hc
          rcases hc with h | h <;> simp [h]
      · rintro hm ⟨y, hy, hgy⟩
        obtain ⟨j, hj, rfl⟩ := (EF.mem_iff_getD xs y).1 hy
        have := hm j (xs.length - 1) (by omega) (by omega)
        apply hg
        unfold geq at hgy ⊢
        cases strict <;> simp only [Bool.false_eq_true, if_false, if_true] at hgy ⊢ <;> omega

/-- **`Pred::pred`, `Pred::pred_strict`**: the same three statements with the FIRST element
(`q ≥ first`, resp. `q > first`) and `pred_unchecked::<STRICT>`. -/
theorem pred_default (d : DictImpl) (hS : d.Seq xs) (strict : Bool) (q : Nat) :
    ((xs ≠ [] ∧ leq strict q (xs.getD 0 0)) →
      (∃ y, y ∈ xs ∧ leq strict q y) ∧
      (predW d strict q).out = someOf (d.predU strict q) ∧
      (predW d strict q).log = [.len, .len, .getU 0, .predU strict q]) ∧
    (¬ (xs ≠ [] ∧ leq strict q (xs.getD 0 0)) →
      (predW d strict q).out = .ok none ∧
      (∀ c, c ∈ (predW d strict q).log → c = .len ∨ c = .getU 0) ∧
      (Mono xs → ¬ ∃ y, y ∈ xs ∧ leq strict q y)) := by
  have hlen := hS.len_eq
  constructor
  · rintro ⟨hne, hg⟩
    have hl : 0 < xs.length := List.length_pos_iff.2 hne
    have hfirst := hS.get_ok 0 hl
    refine ⟨⟨_, (EF.mem_iff_getD xs _).2 ⟨0, hl, rfl⟩, hg⟩, ?_⟩
    cases strict with
    | false =>
      have hg' : ¬ q < xs.getD 0 0 := by simpa [leq] using hg
      simp only [predW, Bool.false_eq_true, if_false, DictImpl.pred_eq, hlen,
        if_neg (by omega : ¬ xs.length = 0), hfirst, if_neg hg']
      exact ⟨trivial, trivial⟩
    | true =>
      have hg' : ¬ q ≤ xs.getD 0 0 := by simpa [leq] using hg
      simp only [predW, if_true, DictImpl.predStrict_eq, hlen,
        if_neg (by omega : ¬ xs.length = 0), hfirst, if_neg hg']
      exact ⟨trivial, trivial⟩
  · intro hng
    by_cases hne : xs = []
    · subst hne
      have h0 : d.len = 0 := by simpa using hlen
      refine ⟨?_, ?_, fun _ ⟨y, hy, _⟩ => by cases hy⟩
      · cases strict <;> simp [predW, DictImpl.pred_eq, DictImpl.predStrict_eq, h0]
      · intro c hc
        cases strict <;>
          simp [predW, DictImpl.pred_eq, DictImpl.predStrict_eq, h0] at hc <;> exact Or.inl hc
    · have hl : 0 < xs.length := List.length_pos_iff.2 hne
      have hfirst := hS.get_ok 0 hl
      have hg : ¬ leq strict q (xs.getD 0 0) := fun h => hng ⟨hne, h⟩
      refine ⟨?_, ?_, ?_⟩
      · cases strict with
        | false =>
          have hg' : q < xs.getD 0 0 := by simpa [leq] using hg
          simp only [predW, Bool.false_eq_true, if_false, DictImpl.pred_eq, hlen,
            if_neg (by omega : ¬ xs.length = 0), hfirst, if_pos hg']
        | true =>
          have hg' : q ≤ xs.getD 0 0 := by simpa [leq] using hg
          simp only [predW, if_true, DictImpl.predStrict_eq, hlen,
            if_neg (by omega : ¬ xs.length = 0), hfirst, if_pos hg']
      · intro c hc
        cases strict with
        | false =>
          have hg' : q < xs.getD 0 0 := by simpa [leq] using hg
          simp only [predW, Bool.false_eq_true, if_false, DictImpl.pred_eq, hlen,
            if_neg (by omega : ¬ xs.length = 0), hfirst, if_pos hg'] at hc
          simp at hc
          rcases hc with h | h <;> simp [h]
        | true =>
          have hg' : q ≤ xs.getD 0 0 := by simpa [leq] using hg
          simp only [predW, if_true, DictImpl.predStrict_eq, hlen,
            if_neg (by omega : ¬ xs.length = 0), hfirst, if_pos hg'] at hc
          simp at hc
          rcases hc with h | h <;> simp [h]
      · rintro hm ⟨y, hy, hgy⟩
        obtain ⟨j, hj, rfl⟩ := (EF.mem_iff_getD xs y).1 hy
        have := hm 0 j (by omega) hj
        apply hg
        unfold leq at hgy ⊢
        cases strict <;> simp only [Bool.false_eq_true, if_false, if_true] at hgy ⊢ <;> omega

/-- **`IndexedSeq::get`, `is_empty`, `IndexedDict::contains`.**  `get(i)` calls
`get_unchecked(i)` exactly when `i < len` (so inside its contract) and panics otherwise (after
evaluating `len()` a second time for the message); `is_empty` is `len() == 0`; `contains` is
`index_of(..).is_some()`. -/
theorem get_default (d : DictImpl) (hS : d.Seq xs) (i : Nat) :
    (i < xs.length → d.get i = ⟨.ok (xs.getD i 0), [.len, .getU i]⟩) ∧
    (xs.length ≤ i → d.get i = ⟨.panic, [.len, .len]⟩) ∧
    d.isEmpty = ⟨.ok (decide (xs.length = 0)), [.len]⟩ ∧
    ∀ q, d.contains q = ⟨mapO Option.isSome (d.indexOf q), [.indexOf q]⟩ := by
  refine ⟨fun h => ?_, fun h => ?_, ?_, fun q => d.contains_eq q⟩
  · rw [DictImpl.get_eq, hS.len_eq, if_pos h, hS.get_ok i h]
  · rw [DictImpl.get_eq, hS.len_eq, if_neg (by omega)]
  · rw [DictImpl.isEmpty_eq, hS.len_eq]
    congr 2

/-- **`EliasFano` uses these defaults**: the definitions of `get` / `contains` / `succ` / `succ_strict`
/ `pred` / `pred_strict` in the Elias–Fano model (the ones runner `ef` validates against the real
structure and C04 speaks about) are the generic default methods applied to its required methods. -/
theorem ef_defaults_generic (s : EF.St) (q : Nat) :
    ((DictImpl.ofEF s).get q).out = EF.get s q ∧
    ((DictImpl.ofEF s).contains q).out = EF.contains s q ∧
    ((DictImpl.ofEF s).succ q).out = EF.succ s q ∧
    ((DictImpl.ofEF s).succStrict q).out = EF.succStrict s q ∧
    ((DictImpl.ofEF s).pred q).out = EF.pred s q ∧
    ((DictImpl.ofEF s).predStrict q).out = EF.predStrict s q :=
  ⟨ofEF_get s q, ofEF_contains s q, ofEF_succ s q, ofEF_succStrict s q, ofEF_pred s q,
    ofEF_predStrict s q⟩

example : (DictImpl.ofList [1, 3, 3, 7]).Seq [1, 3, 3, 7] ∧
    (DictImpl.ofList [1, 3, 3, 7]).succ 3 =
      ⟨.ok (some (1, 3)), [.len, .len, .len, .getU 3, .succU false 3]⟩ ∧
    (DictImpl.ofList [1, 3, 3, 7]).succStrict 7 = ⟨.ok none, [.len, .len, .len, .getU 3]⟩ ∧
    (DictImpl.ofList [1, 3, 3, 7]).predStrict 4 =
      ⟨.ok (some (2, 3)), [.len, .len, .getU 0, .predU true 4]⟩ ∧
    (DictImpl.ofList [1, 3, 3, 7]).pred 0 = ⟨.ok none, [.len, .len, .getU 0]⟩ ∧
    (DictImpl.ofList []).succ 0 = ⟨.ok none, [.len]⟩ :=
  ⟨(fc_mock _).1, rfl, rfl, rfl, rfl, rfl⟩

/-! ## `traits/rank_sel.rs` -/

/-- **`Select::select`**: `select_unchecked(rank)` is called exactly when `rank < num_ones()` —
which is its safety contract when `num_ones()` is the number of ones — otherwise `None` without
the call. -/
theorem select_default (b : BitsImpl) (r : Nat) :
    (r < b.numOnes → b.select r = ⟨someOf (b.selU r), [.numOnes, .selU r]⟩) ∧
    (b.numOnes ≤ r → b.select r = ⟨.ok none, [.numOnes]⟩) := by
  rw [BitsImpl.select_eq]
  exact ⟨fun h => by rw [if_neg (by omega)], fun h => by rw [if_pos h]⟩

/-- **`SelectZero::select_zero`** (guard `rank >= self.num_zeros()`, `num_zeros = len - num_ones`):
called exactly when `rank < len - num_ones`; an implementor reporting more ones than bits makes
the guard itself panic (checked build). -/
theorem select_zero_default (b : BitsImpl) (r : Nat) :
    (b.numOnes ≤ b.bitLen → r < b.bitLen - b.numOnes →
      b.selectZero r = ⟨someOf (b.selZeroU r), [.bitLen, .numOnes, .selZeroU r]⟩) ∧
    (b.numOnes ≤ b.bitLen → b.bitLen - b.numOnes ≤ r →
      b.selectZero r = ⟨.ok none, [.bitLen, .numOnes]⟩) ∧
    (b.bitLen < b.numOnes → b.selectZero r = ⟨.panic, [.bitLen, .numOnes]⟩) := by
  rw [BitsImpl.selectZero_eq]
  refine ⟨fun h1 h2 => ?_, fun h1 h2 => ?_, fun h => by rw [if_pos h]⟩
  · rw [if_neg (by omega), if_neg (by omega)]
  · rw [if_neg (by omega), if_pos h2]

/-- **`Rank::rank`, `RankZero::rank_zero`, `rank_zero_unchecked`, `NumBits::num_zeros`,
`BitCount::count_zeros`.**  `rank_unchecked(pos)` is called exactly when `pos < len` (its contract);
beyond, the answer is `num_ones()`; `rank_zero` subtracts from `pos` (panic iff the rank exceeds
`pos`, impossible for a truthful implementor). -/
theorem rank_default (b : BitsImpl) (p : Nat) :
    (p < b.bitLen → b.rank p = ⟨b.rankU p, [.bitLen, .rankU p]⟩ ∧
      b.rankZero p = ⟨(b.rankU p).bind (subC p), [.bitLen, .rankU p]⟩) ∧
    (b.bitLen ≤ p → b.rank p = ⟨.ok b.numOnes, [.bitLen, .numOnes]⟩ ∧
      b.rankZero p = ⟨subC p b.numOnes, [.bitLen, .numOnes]⟩) ∧
    b.rankZeroU p = ⟨(b.rankU p).bind (subC p), [.rankU p]⟩ ∧
    b.numZeros = ⟨subC b.bitLen b.numOnes, [.bitLen, .numOnes]⟩ ∧
    b.countZeros = ⟨subC b.bitLen b.countOnes, [.bitLen, .countOnes]⟩ := by
  rw [BitsImpl.rank_eq, BitsImpl.rankZero_eq]
  refine ⟨fun h => ?_, fun h => ?_, b.rankZeroU_eq p, b.numZeros_eq, b.countZeros_eq⟩
  · have h' : ¬ p ≥ b.bitLen := by omega
    rw [if_neg h', if_neg h']; exact ⟨rfl, rfl⟩
  · rw [if_pos h, if_pos h]; exact ⟨rfl, rfl⟩

/-- **`AddNumBits`**: `From` caches `count_ones()`; `num_ones`/`count_ones` answer from the cache
without touching the wrapped structure; `num_zeros`/`count_zeros` are `len - cache` (one call of
`len`); `rank`, `rank_zero`, `select`, `select_zero` are delegated with their guards, which
therefore use the numbers reported by the wrapped structure, not the cache. -/
theorem add_num_bits (b : BitsImpl) (k p r : Nat) :
    AddNumBits.ofBits b = ⟨.ok ⟨b, b.countOnes⟩, [.countOnes]⟩ ∧
    (AddNumBits.fromRaw b k).numOnes = ⟨.ok k, []⟩ ∧
    (AddNumBits.fromRaw b k).countOnes = ⟨.ok k, []⟩ ∧
    (AddNumBits.fromRaw b k).numZeros = ⟨subC b.bitLen k, [.bitLen]⟩ ∧
    (AddNumBits.fromRaw b k).countZeros = ⟨subC b.bitLen k, [.bitLen]⟩ ∧
    (AddNumBits.fromRaw b k).rank p = b.rank p ∧
    (AddNumBits.fromRaw b k).rankZero p = b.rankZero p ∧
    (AddNumBits.fromRaw b k).select r = b.select r ∧
    (AddNumBits.fromRaw b k).selectZero r = b.selectZero r :=
  ⟨rfl, rfl, rfl, AddNumBits.numZeros_eq _, AddNumBits.countZeros_eq _, rfl, rfl, rfl, rfl⟩

/-- **A truthful implementor is never called outside its contract by a safe default**, and the
defaults compute rank / select: for the list implementor reporting the true number of ones
(`rank_unchecked(p)` = `oob` for `p ≥ len`, `select_unchecked(r)` = `oob` for `r ≥ #ones`, …) -/
theorem bits_reference (bits : List Bool) (c : Nat) (p r : Nat) :
    let b := BitsImpl.ofList bits (bits.countP (· == true)) c
    (b.rank p).out = .ok (rankList bits p) ∧
    (b.rankZero p).out = .ok (p - rankList bits p) ∧
    (b.select r).out = .ok (selList true bits 0 r) ∧
    (b.selectZero r).out = .ok (selList false bits 0 r) ∧
    (b.numZeros).out = .ok (bits.countP (· == false)) := by
  intro b
  have htot : rankList bits bits.length = bits.countP (· == true) := by
    unfold rankList; rw [List.take_length]
  have hadd := count_true_add_false bits
  have hn1 : b.numOnes = bits.countP (· == true) := rfl
  have hbl : b.bitLen = bits.length := rfl
  refine ⟨?_, ?_, ?_, ?_, ?_⟩
  · rw [BitsImpl.rank_eq, hbl]
    by_cases h : p ≥ bits.length
    · rw [if_pos h, hn1, ← htot, rankList_ge_len bits h]
    · rw [if_neg h]
      show (if p < bits.length then Out.ok (rankList bits p) else .oob) = _
      rw [if_pos (by omega)]
  · rw [BitsImpl.rankZero_eq, hbl]
    by_cases h : p ≥ bits.length
    · rw [if_pos h, hn1, ← htot, ← rankList_ge_len bits h]
      show subC p (rankList bits p) = _
      unfold subC; rw [if_pos (rankList_le bits p)]
    · rw [if_neg h]
      show ((if p < bits.length then Out.ok (rankList bits p) else .oob).bind (subC p)) = _
      rw [if_pos (by omega)]
      show subC p (rankList bits p) = _
      unfold subC; rw [if_pos (rankList_le bits p)]
  · rw [BitsImpl.select_eq, hn1]
    by_cases h : r ≥ bits.countP (· == true)
    · rw [if_pos h, (selList_none_iff true bits 0 r).2 h]
    · rw [if_neg h]
      show someOf (match selList true bits 0 r with | some p => Out.ok p | none => .oob) = _
      cases hs : selList true bits 0 r with
      | none => exact absurd ((selList_none_iff true bits 0 r).1 hs) h
      | some p => rfl
  · rw [BitsImpl.selectZero_eq, hn1, hbl]
    have hle : ¬ bits.length < bits.countP (· == true) := by omega
    have hz : bits.length - bits.countP (· == true) = bits.countP (· == false) := by omega
    rw [if_neg hle, hz]
    by_cases h : r ≥ bits.countP (· == false)
    · rw [if_pos h, (selList_none_iff false bits 0 r).2 h]
    · rw [if_neg h]
      show someOf (match selList false bits 0 r with | some p => Out.ok p | none => .oob) = _
      cases hs : selList false bits 0 r with
      | none => exact absurd ((selList_none_iff false bits 0 r).1 hs) h
      | some p => rfl
  · rw [BitsImpl.numZeros_eq, hn1, hbl]
    show subC _ _ = _
    unfold subC
    rw [if_pos (by omega)]
    congr 1
    omega

/-- an implementor that over-reports `num_ones` IS called outside its contract by the safe
`select` (the guard can only be as good as `num_ones()`): bits `01101`, `num_ones() = 4`, `select(3)` -/
example : ((BitsImpl.ofList [false, true, true, false, true] 4 3).select 3) =
    ⟨.oob, [.numOnes, .selU 3]⟩ ∧
    ((BitsImpl.ofList [false, true, true, false, true] 9 3).selectZero 0) =
    ⟨.panic, [.bitLen, .numOnes]⟩ ∧
    ((BitsImpl.ofList [false, true, true, false, true] 3 3).select 2) =
    ⟨.ok (some 4), [.numOnes, .selU 2]⟩ := ⟨rfl, rfl, rfl⟩

/-! ## `traits/iter.rs` -/

/-- the only default method of `traits/iter.rs`: `into_unchecked_iter() = into_unchecked_iter_from(0)` -/
theorem into_unchecked_iter_default {α : Type} (intoFrom : Nat → Out α) :
    intoUncheckedIter intoFrom = ⟨intoFrom 0, [.uiterFrom 0]⟩ := rfl

/-! ## `dict/slice_seq.rs` -/

/-- **`SliceSeq`** presents its slice: `len`, `get` (panics exactly out of range, through the
generic default), `get_unchecked` (`oob` exactly out of range), `iter` / `into_iter` = the slice,
`into_iter_from(k)` = the slice without its first `k` elements (empty for `k ≥ len`), `==` is
equality of the slices. -/
theorem slice_seq_spec (xs : List Nat) :
    (SliceSeq.new xs).len = xs.length ∧
    (SliceSeq.new xs).isEmpty = decide (xs = []) ∧
    (∀ i, (SliceSeq.new xs).get i = if i < xs.length then .ok (xs.getD i 0) else .panic) ∧
    (∀ i, (SliceSeq.new xs).getU i = if i < xs.length then .ok (xs.getD i 0) else .oob) ∧
    (∀ i, ((SliceSeq.new xs).toDict.get i).out = (SliceSeq.new xs).get i) ∧
    (SliceSeq.new xs).iter = xs ∧
    (∀ k, (SliceSeq.new xs).iterFrom k = xs.drop k) ∧
    (∀ k, xs.length ≤ k → (SliceSeq.new xs).iterFrom k = []) ∧
    (∀ ys, SliceSeq.new xs = SliceSeq.new ys ↔ xs = ys) := by
  have hU : ∀ i, (SliceSeq.new xs).getU i = if i < xs.length then .ok (xs.getD i 0) else .oob := by
    intro i
    unfold SliceSeq.getU SliceSeq.new Out.readU
    by_cases h : i < xs.length
    · rw [if_pos h]
      simp [h]
    · rw [if_neg h]
      simp [h]
  have hG : ∀ i, (SliceSeq.new xs).get i = if i < xs.length then .ok (xs.getD i 0) else .panic := by
    intro i
    unfold SliceSeq.get
    have hl : (SliceSeq.new xs).len = xs.length := by simp [SliceSeq.len, SliceSeq.new]
    rw [hl, hU]
    by_cases h : i < xs.length
    · rw [if_neg (by omega), if_pos h, if_pos h]
    · rw [if_pos (by omega), if_neg h]
  refine ⟨by simp [SliceSeq.len, SliceSeq.new], ?_, hG, hU, ?_, by simp [SliceSeq.iter, SliceSeq.new],
    fun k => by simp [SliceSeq.iterFrom, SliceSeq.new],
    fun k hk => by simp [SliceSeq.iterFrom, SliceSeq.new, hk], ?_⟩
  · cases xs <;> simp [SliceSeq.isEmpty, SliceSeq.len, SliceSeq.new]
  · intro i
    rw [DictImpl.get_eq, hG]
    have hl : (SliceSeq.new xs).toDict.len = xs.length := by
      simp [SliceSeq.toDict, SliceSeq.len, SliceSeq.new]
    rw [hl]
    by_cases h : i < xs.length
    · rw [if_pos h, if_pos h]
      show (SliceSeq.new xs).getU i = _
      rw [hU, if_pos h]
    · rw [if_neg h, if_neg h]
  · intro ys
    constructor
    · intro h
      have := congrArg (fun s => s.data.toList) h
      simpa [SliceSeq.new] using this
    · intro h; rw [h]

example : (SliceSeq.new [4, 5, 6]).get 2 = .ok 6 ∧ (SliceSeq.new [4, 5, 6]).get 3 = .panic ∧
    (SliceSeq.new [4, 5, 6]).iterFrom 2 = [6] ∧ (SliceSeq.new [4, 5, 6]).iterFrom 9 = [] := by
  decide

end Sux.Misc
