import SuxModel.GF2.LemmasLazy8
/-!
# C19 — the GF(2) solvers return a satisfying assignment exactly when one exists

Model: `SuxModel/GF2/Model.lean` (mirrors `src/utils/mod2_sys.rs`), vocabulary:
`SuxModel/GF2/Spec.lean`.  An assignment is a vector of
words (`Array Nat`, read through `asg`; XOR is `^^^`, so the statements hold for every word width).

Domain of the property (`Sys.WF`): every equation has a non-empty, strictly increasing list of
variables below `num_vars`.  Outside of it the dense solver misbehaves (see the examples at the
end: an identity row `[] = 0` makes `gaussian_elimination` return `Err` on a solvable system or
panic), which is why "non-empty" is part of the statement.  The lazy solver is proved on the
larger domain `Sys.WF0` (empty lists allowed as long as `num_vars > 0`).
-/
namespace Sux.GF2

/-! ## `add` -/

/-- `add` on strictly increasing lists: the variables of the sum are the symmetric difference,
again strictly increasing; the constants are XORed -/
theorem add_symmdiff (a b : Eqn) (ha : Sorted a.vars) (hb : Sorted b.vars) :
    Sorted (a.add b).vars ∧
    (∀ x, x ∈ (a.add b).vars ↔ ((x ∈ a.vars ∧ x ∉ b.vars) ∨ (x ∉ a.vars ∧ x ∈ b.vars))) ∧
    (a.add b).c = a.c ^^^ b.c :=
  ⟨sorted_addPtr ha hb, mem_add ha hb, rfl⟩

/-- evaluation is additive (for arbitrary variable lists) -/
theorem add_eval (a b : Eqn) (f : Nat → Nat) :
    evalP f (a.add b).vars = evalP f a.vars ^^^ evalP f b.vars := evalP_add f a b

/-- the raw-pointer writes of `add_ptr` stay within the capacity of the destination -/
theorem add_in_bounds (a b : Eqn) : (a.add b).vars.length ≤ a.vars.length + b.vars.length :=
  addPtr_length_le _ _

example : ({ vars := [1, 4, 9], c := 3 } : Eqn).add { vars := [1, 4, 10], c := 3 }
    = { vars := [9, 10], c := 0 } := by decide

/-! ## Row operations -/

/-- `equations[i].add(&equations[j])`, `i ≠ j`, does not change the set of solutions -/
theorem row_add_preserves (eqs : Array Eqn) (i j : Nat) (a b : Eqn) (hne : i ≠ j)
    (hi : eqs[i]? = some a) (hj : eqs[j]? = some b) (f : Nat → Nat) :
    SatA (eqs.setIfInBounds i (a.add b)) f ↔ SatA eqs f :=
  satA_of_get2 hne hi hj (set_add_get hne hi hj) f (holds_pair_add a b f)

/-- `equations.swap(i, j)` does not change the set of solutions -/
theorem row_swap_preserves (eqs : Array Eqn) (i j : Nat) (a b : Eqn) (hne : i ≠ j)
    (hi : eqs[i]? = some a) (hj : eqs[j]? = some b) :
    ∃ eqs', swapEq eqs i j = .ok eqs' ∧ ∀ f, SatA eqs' f ↔ SatA eqs f := by
  obtain ⟨eqs', h1, _, h3⟩ := swapEq_get hne hi hj
  exact ⟨eqs', h1, fun f => satA_of_get2 hne hi hj h3 f and_comm⟩

/-! ## `check` -/

/-- `check(sol)` is `true` exactly when `sol` has length `num_vars`, every variable is in range
and every equation evaluates to its constant -/
theorem check_spec (s : Sys) (sol : Array Nat) :
    s.check sol = .ok true ↔
      sol.size = s.numVars ∧ (∀ e ∈ s.eqs.toList, ∀ v ∈ e.vars, v < s.numVars) ∧ s.Sat (asg sol) :=
  check_true_iff s sol

/-- a solution as a function gives a solution as a vector -/
theorem exists_check_of_sat (s : Sys) (hr : ∀ e ∈ s.eqs.toList, ∀ v ∈ e.vars, v < s.numVars)
    (f : Nat → Nat) (hf : s.Sat f) : ∃ sol, s.check sol = .ok true := by
  refine ⟨Array.ofFn (n := s.numVars) (fun i => f i.val), ?_⟩
  rw [check_true_iff]
  refine ⟨by simp, hr, ?_⟩
  intro e he
  have := hf e he
  unfold Eqn.Holds at *
  rw [← this]
  apply evalP_congr
  intro v hv
  have hv' := hr e he v hv
  simp [asg, Array.getD_eq_getD_getElem?, hv']

/-! ## `gaussian_elimination` -/

theorem Sys.WF.rows {s : Sys} (h : s.WF) :
    (∀ (k : Nat) (e : Eqn), s.eqs[k]? = some e → RowOK (· < s.numVars) e) ∧
    (∀ (k : Nat) (e : Eqn), s.eqs[k]? = some e → e.vars ≠ []) := by
  constructor <;> intro k e hk
  · exact (h e (by rw [← Array.getElem?_toList] at hk; exact List.mem_of_getElem? hk)).1
  · exact (h e (by rw [← Array.getElem?_toList] at hk; exact List.mem_of_getElem? hk)).2

theorem Sys.WF.range {s : Sys} (h : s.WF) : ∀ e ∈ s.eqs.toList, ∀ v ∈ e.vars, v < s.numVars :=
  fun e he v hv => (h e he).1.2 v hv

/-- `Ok(sol)` ⇒ `check(sol)` -/
theorem gauss_sound (s : Sys) (h : s.WF) (eqs' : Array Eqn) (sol : Array Nat)
    (hg : s.gauss = .ok eqs' sol) : s.check sol = .ok true := by
  have hsp := gaussEqs_spec (Q := (· < s.numVars)) (fun _ hv => hv) s.eqs h.rows.1 h.rows.2
  unfold Sys.gauss at hg
  rw [hg] at hsp
  rw [check_true_iff]
  exact ⟨hsp.1, h.range, (satA_iff_satL _ _).mp hsp.2.1⟩

/-- `Err` ⇒ no vector passes `check` -/
theorem gauss_complete (s : Sys) (h : s.WF) (eqs' : Array Eqn)
    (hg : s.gauss = .err eqs') : ¬ ∃ sol, s.check sol = .ok true := by
  have hsp := gaussEqs_spec (Q := (· < s.numVars)) (fun _ hv => hv) s.eqs h.rows.1 h.rows.2
  unfold Sys.gauss at hg
  rw [hg] at hsp
  rintro ⟨sol, hsol⟩
  rw [check_true_iff] at hsol
  exact hsp ⟨asg sol, (satA_iff_satL _ _).mpr hsol.2.2⟩

/-- no panic (in particular the `ensure!` of `echelon_form` and every index are fine), no
out-of-bounds access -/
theorem gauss_total (s : Sys) (h : s.WF) : s.gauss ≠ .panic ∧ s.gauss ≠ .oob := by
  have hsp := gaussEqs_spec (Q := (· < s.numVars)) (fun _ hv => hv) s.eqs h.rows.1 h.rows.2
  unfold Sys.gauss
  constructor <;> intro hg <;> rw [hg] at hsp <;> exact hsp

/-- the solver decides solvability -/
theorem gauss_ok_iff_solvable (s : Sys) (h : s.WF) :
    (∃ eqs' sol, s.gauss = .ok eqs' sol) ↔ ∃ sol, s.check sol = .ok true := by
  constructor
  · rintro ⟨eqs', sol, hg⟩; exact ⟨sol, gauss_sound s h eqs' sol hg⟩
  · intro hex
    cases hg : s.gauss with
    | ok eqs' sol => exact ⟨eqs', sol, rfl⟩
    | err eqs' => exact absurd hex (gauss_complete s h eqs' hg)
    | panic => exact absurd hg (gauss_total s h).1
    | oob => exact absurd hg (gauss_total s h).2

/-- the equations left behind (`&mut self`) have the same solutions and are in echelon form -/
theorem gauss_post (s : Sys) (h : s.WF) (eqs' : Array Eqn) (sol : Array Nat)
    (hg : s.gauss = .ok eqs' sol) :
    eqs'.size = s.eqs.size ∧ (∀ f, SatA eqs' f ↔ s.Sat f) ∧ Ech (· < s.numVars) eqs' := by
  have hsp := gaussEqs_spec (Q := (· < s.numVars)) (fun _ hv => hv) s.eqs h.rows.1 h.rows.2
  unfold Sys.gauss at hg
  rw [hg] at hsp
  exact ⟨hsp.2.2.2.2.1, fun f => (hsp.2.2.2.2.2 f).trans (satA_iff_satL _ _), hsp.2.2.2.1⟩

/-! ## `lazy_gaussian_elimination` -/

theorem Sys.WF.wf0 {s : Sys} (h : s.WF) : s.WF0 := by
  refine ⟨fun e he => (h e he).1, ?_⟩
  intro h0
  rcases Nat.eq_zero_or_pos s.eqs.size with hz | hz
  · exact hz
  · exfalso
    have hm : s.eqs[0] ∈ s.eqs.toList := by simp
    obtain ⟨h1, h2⟩ := h _ hm
    cases hv : (s.eqs[0]).vars with
    | nil => exact h2 hv
    | cons a t =>
      have := h1.2 a (by rw [hv]; simp)
      omega

theorem Sys.WF0.range {s : Sys} (h : s.WF0) : ∀ e ∈ s.eqs.toList, ∀ v ∈ e.vars, v < s.numVars :=
  fun e he v hv => (h.1 e he).2 v hv

/-- `Ok(sol)` ⇒ `check(sol)` -/
theorem lazy_sound (s : Sys) (h : s.WF0) (eqs' : Array Eqn) (sol : Array Nat)
    (hg : s.lazyGauss = .ok eqs' sol) : s.check sol = .ok true := by
  have hsp := lazyGauss_spec s h.1 h.2
  rw [hg] at hsp
  rw [check_true_iff]
  exact ⟨hsp.1, h.range, (satA_iff_satL _ _).mp hsp.2.1⟩

/-- `Err` ⇒ no vector passes `check` -/
theorem lazy_complete (s : Sys) (h : s.WF0) (eqs' : Array Eqn)
    (hg : s.lazyGauss = .err eqs') : ¬ ∃ sol, s.check sol = .ok true := by
  have hsp := lazyGauss_spec s h.1 h.2
  rw [hg] at hsp
  rintro ⟨sol, hsol⟩
  rw [check_true_iff] at hsol
  exact hsp ⟨asg sol, (satA_iff_satL _ _).mpr hsol.2.2⟩

/-- no panic (`unwrap`/`expect`/`assert!`/index/subtraction overflow all fine), no out-of-bounds
access, and the main loop terminates -/
theorem lazy_total (s : Sys) (h : s.WF0) : s.lazyGauss ≠ .panic ∧ s.lazyGauss ≠ .oob := by
  have hsp := lazyGauss_spec s h.1 h.2
  constructor <;> intro hg <;> rw [hg] at hsp <;> exact hsp

/-- the lazy solver decides solvability -/
theorem lazy_ok_iff_solvable (s : Sys) (h : s.WF0) :
    (∃ eqs' sol, s.lazyGauss = .ok eqs' sol) ↔ ∃ sol, s.check sol = .ok true := by
  constructor
  · rintro ⟨eqs', sol, hg⟩; exact ⟨sol, lazy_sound s h eqs' sol hg⟩
  · intro hex
    cases hg : s.lazyGauss with
    | ok eqs' sol => exact ⟨eqs', sol, rfl⟩
    | err eqs' => exact absurd hex (lazy_complete s h eqs' hg)
    | panic => exact absurd hg (lazy_total s h).1
    | oob => exact absurd hg (lazy_total s h).2

/-- the equations left behind (`&mut self`) have the same solutions -/
theorem lazy_post (s : Sys) (h : s.WF0) (eqs' : Array Eqn) (sol : Array Nat)
    (hg : s.lazyGauss = .ok eqs' sol) :
    eqs'.size = s.eqs.size ∧ ∀ f, SatA eqs' f ↔ s.Sat f := by
  have hsp := lazyGauss_spec s h.1 h.2
  rw [hg] at hsp
  exact ⟨hsp.2.2.1, fun f => (hsp.2.2.2 f).trans (satA_iff_satL _ _)⟩

/-- C19 on its stated domain, both solvers: they agree with each other and with solvability -/
theorem solvers_agree (s : Sys) (h : s.WF) :
    ((∃ eqs' sol, s.gauss = .ok eqs' sol) ↔ (∃ eqs' sol, s.lazyGauss = .ok eqs' sol)) :=
  (gauss_ok_iff_solvable s h).trans (lazy_ok_iff_solvable s h.wf0).symm

/-- the fuel parameter of the model's main loop never runs out (for arbitrary states) -/
theorem lazy_fuel_irrelevant (v2e : Array (Array Nat)) (fuel fuel' : Nat) (st : LSt)
    (h : st.variables.length + st.remaining < fuel) (hle : fuel ≤ fuel') :
    lazyLoop v2e fuel' st = lazyLoop v2e fuel st := lazyLoop_fuel v2e fuel fuel' st h hle

/-! ### Non-vacuity: concrete systems in the domain, one of each outcome -/

/-- the system of the unit test `test_small_system` -/
def exSmall : Sys :=
  { numVars := 11
    eqs := #[⟨[1, 4, 10], 0⟩, ⟨[1, 4, 9], 2⟩, ⟨[0, 6, 8], 0⟩, ⟨[0, 6, 9], 1⟩, ⟨[2, 4, 8], 2⟩,
      ⟨[2, 6, 10], 0⟩] }

/-- three dependent rows with contradictory constants -/
def exBad : Sys := { numVars := 3, eqs := #[⟨[1, 2], 1⟩, ⟨[0, 1], 1⟩, ⟨[0, 2], 1⟩] }

example : exSmall.WF := by decide
example : exBad.WF := by decide
example : exSmall.gauss = .ok #[⟨[0, 6, 9], 1⟩, ⟨[1, 4, 9], 2⟩, ⟨[2, 6, 10], 0⟩, ⟨[4, 6, 8, 10], 2⟩,
    ⟨[8, 9], 1⟩, ⟨[9, 10], 2⟩] #[3, 1, 0, 0, 1, 0, 0, 0, 3, 2, 0] := by decide
example : exSmall.check #[3, 1, 0, 0, 1, 0, 0, 0, 3, 2, 0] = .ok true := by decide
example : (match exBad.gauss with | .err _ => true | _ => false) = true := by decide

/-- a dense core (`K4` plus the sum of everything), solvable -/
def exK4 : Sys :=
  { numVars := 4
    eqs := #[⟨[0, 1, 2], 1⟩, ⟨[0, 1, 3], 2⟩, ⟨[0, 2, 3], 4⟩, ⟨[1, 2, 3], 8⟩, ⟨[0, 1, 2, 3], 15⟩] }

/-- rows with empty variable lists: inside `WF0`, outside `WF` -/
def exEmptyRow : Sys := { numVars := 3, eqs := #[⟨[0, 1], 1⟩, ⟨[], 0⟩, ⟨[1, 2], 1⟩] }

example : exSmall.WF0 := by decide
example : exK4.WF := by decide
example : exEmptyRow.WF0 ∧ ¬ exEmptyRow.WF := by decide
example : (match exSmall.lazyGauss with
    | .ok _ sol => sol == #[3, 1, 0, 0, 1, 0, 0, 0, 3, 2, 0] | _ => false) = true := by
  decide +kernel
example : (match exK4.lazyGauss with | .ok _ sol => exK4.check sol == .ok true | _ => false) = true := by
  decide +kernel
example : (match exBad.lazyGauss with | .err _ => true | _ => false) = true := by decide +kernel
example : (match exEmptyRow.lazyGauss with
    | .ok _ sol => exEmptyRow.check sol == .ok true | _ => false) = true := by decide +kernel

/-! ### Outside the domain (why "non-empty" is in the statement) -/

/-- an identity row first: `Err` although `[0, 1]` is a solution -/
example : (⟨2, #[⟨[], 0⟩, ⟨[1], 1⟩]⟩ : Sys).gauss = .err #[⟨[], 0⟩, ⟨[1], 1⟩] ∧
    (⟨2, #[⟨[], 0⟩, ⟨[1], 1⟩]⟩ : Sys).check #[0, 1] = .ok true := by decide

/-- an identity row last: panic (`eq_j.vars[0]`) -/
example : (⟨2, #[⟨[1], 1⟩, ⟨[], 0⟩]⟩ : Sys).gauss = .panic := by decide

/-- a single unsolvable empty row: panic instead of `Err` (`eq.vars[0]` in the back substitution) -/
example : (⟨2, #[⟨[], 1⟩]⟩ : Sys).gauss = .panic := by decide

/-- no variables but an (identity) equation: the lazy solver panics in `setup` -/
example : (⟨0, #[⟨[], 0⟩]⟩ : Sys).lazyGauss = .panic := by decide +kernel

/-- a repeated variable (sorted, passes the `debug_assert!` of `from_parts`): `Ok` with an
assignment violating the equation -/
example : (⟨1, #[⟨[0, 0], 1⟩]⟩ : Sys).gauss = .ok #[⟨[0, 0], 1⟩] #[1] ∧
    (⟨1, #[⟨[0, 0], 1⟩]⟩ : Sys).check #[1] = .ok false := by decide

end Sux.GF2
