import SuxModel.RankSel.Rank9.Lemmas
import SuxModel.RankSel.RankSmall.Lemmas
import SuxModel.RankSel.Runner
/-!
# C01 — `rank(p)` is the exact prefix popcount for every vector and rank structure

Models: `SuxModel/RankSel/Rank9/Model.lean` (`src/rank_sel/rank9.rs`),
`SuxModel/RankSel/RankSmall/Model.lean` (`src/rank_sel/rank_small.rs`, `rank_hinted` of
`src/bits/bit_vec.rs`, trait defaults of `src/traits/rank_sel.rs`); specification
`SuxModel/RankSel/Spec.lean`.

Every theorem is for an arbitrary backend `ws` and length `len` with `len ≤ 64 * ws.size` only:
the bits of the last word at or beyond `len` and any extra words are arbitrary.  (`WordsOK 64 ws`
is not needed: the model looks only at bits `0..63` of each word.)  No bound on `len`.
-/
namespace Sux.RS

/-! ## concrete vectors used by the non-vacuity examples -/

/-- 3 logical bits `1,1,1` over the word `0b11111`: bits 3 and 4 are stale (left by two `pop`s) -/
def exStale : Array Nat := #[0b11111]
/-- one saturated 512-bit block followed by a partial word with stale bits and a spare word -/
def exFull : Array Nat := Array.replicate 8 (2 ^ 64 - 1) ++ #[0xFF, 0xABC]

theorem exStale_len : 3 ≤ 64 * exStale.size := by decide
theorem exFull_len512 : 512 ≤ 64 * exFull.size := by decide
theorem exFull_len515 : 515 ≤ 64 * exFull.size := by decide

/-! ## Rank9 -/

/-- `Rank9::new` never panics; on the result `rank` answers the specification for EVERY `p`
(clamp included), hence never `oob` -/
theorem rank9_correct (ws : Array Nat) (len : Nat) (h : len ≤ 64 * ws.size) :
    ∃ counts, Rank9.build ws len = .ok counts ∧
      ∀ p, Rank9.rank ws len counts p = .ok (rankSpec ws len p) := by
  obtain ⟨counts, hb, hinv⟩ := Rank9.build_inv ws len h
  exact ⟨counts, hb, fun p => Rank9.rank_of_inv h hinv p⟩

/-- the same for the composition `Rank9::new(bits).rank(p)` -/
theorem rank9_rankOf (ws : Array Nat) (len : Nat) (h : len ≤ 64 * ws.size) (p : Nat) :
    Rank9.rankOf ws len p = .ok (rankSpec ws len p) := by
  obtain ⟨counts, hb, hr⟩ := rank9_correct ws len h
  unfold Rank9.rankOf
  rw [hb]; exact hr p

example : ∀ p, Rank9.rankOf exStale 3 p = .ok (rankSpec exStale 3 p) := rank9_rankOf exStale 3 exStale_len
example : Rank9.rankOf exStale 3 64 = .ok 3 := by decide
example : ∀ p, Rank9.rankOf exFull 512 p = .ok (rankSpec exFull 512 p) :=
  rank9_rankOf exFull 512 exFull_len512

/-- `num_ones` (read from the sentinel block) is the number of ones of the vector -/
theorem rank9_numOnes (ws : Array Nat) (len : Nat) (h : len ≤ 64 * ws.size) :
    Rank9.numOnesOf ws len = .ok (numOnes ws len) := by
  obtain ⟨counts, hb, hinv⟩ := Rank9.build_inv ws len h
  unfold Rank9.numOnesOf
  rw [hb, numOnes_eq_rankSpec]; exact Rank9.numOnes_of_inv hinv

example : Rank9.numOnesOf exStale 3 = .ok (numOnes exStale 3) := rank9_numOnes exStale 3 exStale_len
example : Rank9.numOnesOf exStale 3 = .ok 3 := by decide

/-- `rank_zero p = p - rank p`, `num_zeros = len - num_ones` = the number of zeros -/
theorem rank9_rankZero_numZeros (ws : Array Nat) (len : Nat) (h : len ≤ 64 * ws.size) :
    ∃ counts, Rank9.build ws len = .ok counts ∧
      (∀ p, Rank9.rankZero ws len counts p = .ok (p - rankSpec ws len p)) ∧
      Rank9.numZeros len counts = .ok (numZeros ws len) := by
  obtain ⟨counts, hb, hinv⟩ := Rank9.build_inv ws len h
  refine ⟨counts, hb, fun p => ?_, ?_⟩
  · unfold Rank9.rankZero
    rw [Rank9.rank_of_inv h hinv p]; rfl
  · unfold Rank9.numZeros
    rw [Rank9.numOnes_of_inv hinv, numZeros_eq, numOnes_eq_rankSpec]; rfl

example := rank9_rankZero_numZeros exFull 515 exFull_len515

/-- **packing** (single write): a counter `v ≤ 64 * j` — all that `j` words can hold, `448 < 512`
for the last field of a saturated block — written into field `j ∈ 1..7` of a 64-bit word is read
back exactly (when that field was empty), no other field changes, nothing is shifted out -/
theorem rel_packing (r j v j' : Nat) (hr : r < 2 ^ 64) (hj1 : 1 ≤ j) (hj : j < 8) (hv : v ≤ 64 * j) :
    Rank9.setRel r j v < 2 ^ 64 ∧
    Rank9.rel (Rank9.setRel r j v) j' = if j' = j then Rank9.rel r j' ||| v else Rank9.rel r j' :=
  Rank9.rel_setRel r j v j' hr hj1 hj hv

example : Rank9.rel (Rank9.setRel 0 7 448) 7 = 448 := by decide

/-- **packing** (whole structure): in the built array every block `k` has `absolute` = ones before
the block and field `j` = ones in the first `j` words of the block, for all `j < 8` (field `0` is the
implicit zero); the sentinel holds the total -/
theorem rank9_counters (ws : Array Nat) (len : Nat) (h : len ≤ 64 * ws.size) :
    ∃ counts, Rank9.build ws len = .ok counts ∧ counts.size = Rank9.numBlocks len + 1 ∧
      (∀ k c, counts[k]? = some c → k < Rank9.numBlocks len →
        c.absolute = rankSpec ws len (64 * (8 * k)) ∧
        ∀ j, j < 8 → Rank9.rel c.relative j
          = rankSpec ws len (64 * (8 * k + j)) - rankSpec ws len (64 * (8 * k))) ∧
      (∀ c, counts[Rank9.numBlocks len]? = some c → c.absolute = numOnes ws len) := by
  obtain ⟨counts, hb, hinv⟩ := Rank9.build_inv ws len h
  refine ⟨counts, hb, hinv.size, fun k c hc hk => hinv.blocks k c hc hk, fun c hc => ?_⟩
  rw [numOnes_eq_rankSpec]; exact hinv.last c hc

example := rank9_counters exFull 512 exFull_len512
/-- the saturated block: fields `64, 128, …, 448` -/
example : (Rank9.build exFull 512).isOk = true ∧
    (match Rank9.build exFull 512 with
     | .ok counts => (List.range 8).map (fun j => Rank9.rel (counts.getD 0 default).relative j)
     | _ => []) = [0, 64, 128, 192, 256, 320, 384, 448] := by decide

/-! ## RankSmall -/

/-- `RankSmall::new` never panics (both `assert_eq!` hold) for every admissible parameter tuple;
on the result `rank` answers the specification for every `p`; never `oob`, the `debug_assert!` of
`rank_hinted` never fails.  No hypothesis on `len`: `absolute` never truncates. -/
theorem rankSmall_correct (P : RankSmall.SmallParams) (hP : RankSmall.Admissible P)
    (ws : Array Nat) (len : Nat) (h : len ≤ 64 * ws.size) :
    ∃ x, RankSmall.build P ws len = .ok x ∧
      ∀ p, RankSmall.rank P ws len x p = .ok (rankSpec ws len p) := by
  obtain ⟨x, hb, hinv⟩ := RankSmall.build_inv hP ws len h
  exact ⟨x, hb, fun p => RankSmall.rank_of_inv hP h hinv p⟩

/-- the five tuples of `rank_small!` are admissible (finite table, by evaluation) -/
theorem rankSmall_admissible (k : Nat) : RankSmall.Admissible (RankSmall.variant k) :=
  RankSmall.variant_admissible k

/-- `rank_small![k; bits].rank(p)` for the five variants -/
theorem rankSmall_rankOf (k : Nat) (ws : Array Nat) (len : Nat) (h : len ≤ 64 * ws.size) (p : Nat) :
    RankSmall.rankOf (RankSmall.variant k) ws len p = .ok (rankSpec ws len p) := by
  obtain ⟨x, hb, hr⟩ := rankSmall_correct _ (rankSmall_admissible k) ws len h
  unfold RankSmall.rankOf
  rw [hb]; exact hr p

example : ∀ k p, RankSmall.rankOf (RankSmall.variant k) exStale 3 p = .ok (rankSpec exStale 3 p) :=
  fun k p => rankSmall_rankOf k exStale 3 exStale_len p
example : ∀ k p, RankSmall.rankOf (RankSmall.variant k) exFull 515 p = .ok (rankSpec exFull 515 p) :=
  fun k p => rankSmall_rankOf k exFull 515 exFull_len515 p
example : RankSmall.rankOf (RankSmall.variant 0) exStale 3 3 = .ok 3 := by decide
example : RankSmall.rankOf (RankSmall.variant 3) exStale 3 2 = .ok 2 := by decide

/-- `num_ones`, `rank_zero`, `num_zeros` -/
theorem rankSmall_numOnes_rankZero_numZeros (P : RankSmall.SmallParams) (hP : RankSmall.Admissible P)
    (ws : Array Nat) (len : Nat) (h : len ≤ 64 * ws.size) :
    ∃ x, RankSmall.build P ws len = .ok x ∧ x.numOnes = numOnes ws len ∧
      (∀ p, RankSmall.rankZero P ws len x p = .ok (p - rankSpec ws len p)) ∧
      RankSmall.numZeros len x = numZeros ws len := by
  obtain ⟨x, hb, hinv⟩ := RankSmall.build_inv hP ws len h
  refine ⟨x, hb, ?_, fun p => ?_, ?_⟩
  · rw [hinv.ones, numOnes_eq_rankSpec]
  · unfold RankSmall.rankZero
    rw [RankSmall.rank_of_inv hP h hinv p]; rfl
  · unfold RankSmall.numZeros
    rw [hinv.ones, numZeros_eq, numOnes_eq_rankSpec]

example := rankSmall_numOnes_rankZero_numZeros _ (rankSmall_admissible 4) exFull 515 exFull_len515

/-- **packing / no truncation** (whole structure): `upper_counts[u]` = ones before word `u * 2^26`;
for every block `k`, `upper_counts[⌊k·wpb / 2^26⌋] + absolute` is EXACTLY the number of ones before
the block (the `as u32` lost nothing, for every length), and `rel s` = ones in the first `s`
subblocks of the block for all `s < subblocks` -/
theorem rankSmall_counters (P : RankSmall.SmallParams) (hP : RankSmall.Admissible P)
    (ws : Array Nat) (len : Nat) (h : len ≤ 64 * ws.size) :
    ∃ x, RankSmall.build P ws len = .ok x ∧
      (∀ u v, x.upper[u]? = some v → v = rankSpec ws len (64 * (u * 2 ^ 26))) ∧
      (∀ k c, x.counts[k]? = some c →
        rankSpec ws len (64 * (k * P.wordsPerBlock / 2 ^ 26 * 2 ^ 26)) + c.absolute
          = rankSpec ws len (64 * (k * P.wordsPerBlock)) ∧
        ∀ s, s < P.subblocks → RankSmall.rel P c.relative s
          = rankSpec ws len (64 * (k * P.wordsPerBlock + s * P.wordsPerSubblock))
            - rankSpec ws len (64 * (k * P.wordsPerBlock))) := by
  obtain ⟨x, hb, hinv⟩ := RankSmall.build_inv hP ws len h
  exact ⟨x, hb, hinv.uok, hinv.cok⟩

/-- the quantity stored in `absolute` is below `2^32` for every word index and every length -/
theorem rankSmall_absolute_no_trunc (ws : Array Nat) (len i : Nat) :
    rankSpec ws len (64 * i) - rankSpec ws len (64 * (i / 2 ^ 26 * 2 ^ 26)) < 2 ^ 32 :=
  RankSmall.absolute_no_trunc ws len i

example := rankSmall_counters _ (rankSmall_admissible 3) exFull 515 exFull_len515

/-! ## layers and wrapper stacks (`SuxModel/RankSel/Runner.lean`) -/

/-- the `Rank9` layer answers `rank` and `num_ones` by the specification and offers no selection -/
theorem rank9_layer (ws : Array Nat) (len n1 : Nat) (h : len ≤ 64 * ws.size) :
    ∃ f, (Rank9.layer ws len n1).rank = some f ∧ (∀ p, f p = .ok (rankSpec ws len p)) ∧
      (Rank9.layer ws len n1).numOnes = some (numOnes ws len) := by
  obtain ⟨counts, hb, hinv⟩ := Rank9.build_inv ws len h
  refine ⟨Rank9.rank ws len counts, ?_, fun p => Rank9.rank_of_inv h hinv p, ?_⟩
  · unfold Rank9.layer; rw [hb]
  · unfold Rank9.layer; rw [hb]
    show (match Rank9.numOnes counts with | .ok n => some n | _ => none) = _
    rw [Rank9.numOnes_of_inv hinv, numOnes_eq_rankSpec]

/-- the `RankSmall` layers -/
theorem rankSmall_layer (ws : Array Nat) (len n1 k : Nat) (h : len ≤ 64 * ws.size) :
    ∃ f, (RankSmall.layer ws len n1 k).rank = some f ∧ (∀ p, f p = .ok (rankSpec ws len p)) ∧
      (RankSmall.layer ws len n1 k).numOnes = some (numOnes ws len) := by
  obtain ⟨x, hb, hinv⟩ := RankSmall.build_inv (rankSmall_admissible k) ws len h
  refine ⟨RankSmall.rank (RankSmall.variant k) ws len x, ?_,
    fun p => RankSmall.rank_of_inv (rankSmall_admissible k) h hinv p, ?_⟩
  · unfold RankSmall.layer; dsimp only; rw [hb]
  · unfold RankSmall.layer; dsimp only; rw [hb]
    show some x.numOnes = _
    rw [hinv.ones, numOnes_eq_rankSpec]

example := rank9_layer exStale 3 3 exStale_len
example := rankSmall_layer exFull 515 0 2 exFull_len515

/-- a query through any stack of wrappers that do not answer it themselves (delegation) is the
query of the first layer below that does -/
theorem firstSome_through {α} (pre post : List (Option LayerModel)) (base : Option LayerModel)
    (q : LayerModel → Option α) (v : α) (hpre : ∀ l ∈ pre, l.bind q = none)
    (hbase : base.bind q = some v) : firstSome (pre ++ base :: post) q = some v := by
  unfold firstSome
  induction pre with
  | nil => simp [hbase]
  | cons l pre ih =>
    have h1 : l.bind q = none := hpre l (by simp)
    simp only [List.cons_append, List.findSome?_cons, h1]
    exact ih (fun x hx => hpre x (by simp [hx]))

/-- `rank` of `W₁<W₂<…<Rank9<bits>>>>` is `rank` of `Rank9`, i.e. the specification -/
theorem rank_through_stack_r9 (ws : Array Nat) (len n1 : Nat) (h : len ≤ 64 * ws.size)
    (pre post : List (Option LayerModel)) (hpre : ∀ l ∈ pre, l.bind (·.rank) = none) :
    ∃ f, firstSome (pre ++ modelOf ws len n1 .r9 :: post) (·.rank) = some f ∧
      ∀ p, f p = .ok (rankSpec ws len p) := by
  obtain ⟨f, hf, hr, _⟩ := rank9_layer ws len n1 h
  exact ⟨f, firstSome_through pre post _ _ f hpre (by simp [modelOf, hf]), hr⟩

/-- the same over `RankSmall` -/
theorem rank_through_stack_rs (ws : Array Nat) (len n1 k : Nat) (h : len ≤ 64 * ws.size)
    (pre post : List (Option LayerModel)) (hpre : ∀ l ∈ pre, l.bind (·.rank) = none) :
    ∃ f, firstSome (pre ++ modelOf ws len n1 (.rs k) :: post) (·.rank) = some f ∧
      ∀ p, f p = .ok (rankSpec ws len p) := by
  obtain ⟨f, hf, hr, _⟩ := rankSmall_layer ws len n1 k h
  exact ⟨f, firstSome_through pre post _ _ f hpre (by simp [modelOf, hf]), hr⟩

/-- two unmodelled wrappers (`SelectZeroAdapt<SelectAdapt<Rank9<_>>>`, sid `sza_sa_r9`) -/
example := rank_through_stack_r9 exFull 515 0 exFull_len515 [none, none] []
  (by intro l hl; simp at hl; rcases hl with rfl <;> rfl)

end Sux.RS
