import SuxModel.BitFieldVec.CopyLemmas
/-!
# C10 — bulk operations of `BitFieldVec` equal their documented element-by-element definitions

Model: `SuxModel/BitFieldVec/Model.lean` (`copy`, `applyInPlace`, `chunkOp`, `getUnaligned`, mirroring
`src/bits/bit_field_vec.rs` after the `fix:` commits), abstraction `St.vals`
(`SuxModel/BitFieldVec/Spec.lean`).  All statements are for an arbitrary word size `W > 0`; storage
at or beyond `len * bw` is arbitrary (`St.Inv` only bounds it).
-/
namespace Sux.BFV
open Sux.BFV.C10

/-! ## (1) `copy` -/

/-- `copy` never fails under its documented preconditions, and is bit exact: the destination bit
range `[to*bw, (to+n)*bw)` receives the source bits starting at `start*bw`, where
`n = min len (dst.len - to) (src.len - start)`; every other bit of the backing store (other elements,
padding, spare words) is unchanged. -/
theorem copy_correct (W : Nat) (hW : 0 < W) (src dst : St) (hs : src.Inv W) (hd : dst.Inv W)
    (hbw : src.bw = dst.bw) (start to len : Nat) (hst : start ≤ src.len) (hto : to ≤ dst.len)
    (hpos : 0 < dst.bw ∨ min (min len (dst.len - to)) (src.len - start) = 0) :
    let n := min (min len (dst.len - to)) (src.len - start)
    ∃ d', copy W src start dst to len = .ok d' ∧ d'.len = dst.len ∧ d'.bw = dst.bw ∧
      d'.words.size = dst.words.size ∧ d'.Inv W ∧
      ∀ k, bitAt W d'.words k =
        if to * dst.bw ≤ k ∧ k < (to + n) * dst.bw
        then bitAt W src.words (k - to * dst.bw + start * dst.bw) else bitAt W dst.words k :=
  copy_bits W hW src dst hs hd hbw start to len hst hto hpos

/-- element level: `dst[to + i] = src[start + i]` for `i < n`, all other elements unchanged -/
theorem copy_vals (W : Nat) (hW : 0 < W) (src dst : St) (hs : src.Inv W) (hd : dst.Inv W)
    (hbw : src.bw = dst.bw) (start to len : Nat) (hst : start ≤ src.len) (hto : to ≤ dst.len)
    (hpos : 0 < dst.bw ∨ min (min len (dst.len - to)) (src.len - start) = 0) :
    let n := min (min len (dst.len - to)) (src.len - start)
    ∃ d', copy W src start dst to len = .ok d' ∧ d'.Inv W ∧
      d'.vals W = (dst.vals W).take to ++ ((src.vals W).drop start).take n
        ++ (dst.vals W).drop (to + n) :=
  copy_vals' W hW src dst hs hd hbw start to len hst hto hpos

/-- the corner excluded by `hpos`: with bit width 0 a non-empty copy panics
(`src_pos + bit_len - 1` underflows in a checked build) -/
theorem copy_width_zero_panics (W : Nat) (src dst : St) (hbw : src.bw = dst.bw) (h0 : dst.bw = 0)
    (start to len : Nat) (hst : start ≤ src.len) (hto : to ≤ dst.len)
    (hn : min (min len (dst.len - to)) (src.len - start) ≠ 0) :
    copy W src start dst to len = .panic :=
  copy_width_zero W src dst hbw h0 start to len hst hto hn

section NonVacuity
private def exSrc : St := { words := #[0xAB, 0xCD, 0x12, 0x7F], bw := 3, len := 10 }
private def exDst : St := { words := #[0xFF, 0x00, 0xFF, 0x55], bw := 3, len := 9 }
private theorem exSrc_inv : exSrc.Inv 8 := by
  refine ⟨by decide, by decide, by decide, ?_⟩
  unfold WordsOK
  decide
private theorem exDst_inv : exDst.Inv 8 := by
  refine ⟨by decide, by decide, by decide, ?_⟩
  unfold WordsOK
  decide

/-- the hypotheses of `copy_correct`/`copy_vals` hold on a concrete multi-word, misaligned copy -/
example : ∃ d', copy 8 exSrc 2 exDst 1 20 = .ok d' ∧ d'.Inv 8 ∧
    d'.vals 8 = (exDst.vals 8).take 1 ++ ((exSrc.vals 8).drop 2).take 8 ++ (exDst.vals 8).drop 9 :=
  copy_vals 8 (by decide) exSrc exDst exSrc_inv exDst_inv rfl 2 1 20 (by decide) (by decide)
    (Or.inl (by decide))
end NonVacuity

end Sux.BFV
