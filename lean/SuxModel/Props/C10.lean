import SuxModel.BitFieldVec.CopyLemmas
import SuxModel.BitFieldVec.ApplyLemmas
import SuxModel.BitFieldVec.ChunkLemmas
/-!
# C10 — bulk operations of `BitFieldVec` equal their documented element-by-element definitions

Model: `SuxModel/BitFieldVec/Model.lean` (`copy`, `applyInPlace`, `chunkOp`, `getUnaligned`, mirroring
`src/bits/bit_field_vec.rs` after the `fix:` commits), abstraction `St.vals`
(`SuxModel/BitFieldVec/Spec.lean`).  All statements are for an arbitrary word size `W > 0`; storage
at or beyond `len * bw` is arbitrary (`St.Inv` only bounds it).
-/
namespace Sux.BFV
open Sux.BFV.C10

/-! ## (1) `copy` -/

/-- `copy` never fails under its documented preconditions, and is bit exact: the destination bit
range `[to*bw, (to+n)*bw)` receives the source bits starting at `start*bw`, where
`n = min len (dst.len - to) (src.len - start)`; every other bit of the backing store (other elements,
padding, spare words) is unchanged. -/
theorem copy_correct (W : Nat) (hW : 0 < W) (src dst : St) (hs : src.Inv W) (hd : dst.Inv W)
    (hbw : src.bw = dst.bw) (start to len : Nat) (hst : start ≤ src.len) (hto : to ≤ dst.len)
    (hpos : 0 < dst.bw ∨ min (min len (dst.len - to)) (src.len - start) = 0) :
    let n := min (min len (dst.len - to)) (src.len - start)
    ∃ d', copy W src start dst to len = .ok d' ∧ d'.len = dst.len ∧ d'.bw = dst.bw ∧
      d'.words.size = dst.words.size ∧ d'.Inv W ∧
      ∀ k, bitAt W d'.words k =
        if to * dst.bw ≤ k ∧ k < (to + n) * dst.bw
        then bitAt W src.words (k - to * dst.bw + start * dst.bw) else bitAt W dst.words k :=
  copy_bits W hW src dst hs hd hbw start to len hst hto hpos

/-- element level: `dst[to + i] = src[start + i]` for `i < n`, all other elements unchanged -/
theorem copy_vals (W : Nat) (hW : 0 < W) (src dst : St) (hs : src.Inv W) (hd : dst.Inv W)
    (hbw : src.bw = dst.bw) (start to len : Nat) (hst : start ≤ src.len) (hto : to ≤ dst.len)
    (hpos : 0 < dst.bw ∨ min (min len (dst.len - to)) (src.len - start) = 0) :
    let n := min (min len (dst.len - to)) (src.len - start)
    ∃ d', copy W src start dst to len = .ok d' ∧ d'.Inv W ∧
      d'.vals W = (dst.vals W).take to ++ ((src.vals W).drop start).take n
        ++ (dst.vals W).drop (to + n) :=
  copy_vals' W hW src dst hs hd hbw start to len hst hto hpos

/-- the corner excluded by `hpos`: with bit width 0 a non-empty copy panics
(`src_pos + bit_len - 1` underflows in a checked build) -/
theorem copy_width_zero_panics (W : Nat) (src dst : St) (hbw : src.bw = dst.bw) (h0 : dst.bw = 0)
    (start to len : Nat) (hst : start ≤ src.len) (hto : to ≤ dst.len)
    (hn : min (min len (dst.len - to)) (src.len - start) ≠ 0) :
    copy W src start dst to len = .panic :=
  copy_width_zero W src dst hbw h0 start to len hst hto hn

section NonVacuity
private def exSrc : St := { words := #[0xAB, 0xCD, 0x12, 0x7F], bw := 3, len := 10 }
private def exDst : St := { words := #[0xFF, 0x00, 0xFF, 0x55], bw := 3, len := 9 }
private theorem exSrc_inv : exSrc.Inv 8 := by
  refine ⟨by decide, by decide, by decide, ?_⟩
  unfold WordsOK
  decide
private theorem exDst_inv : exDst.Inv 8 := by
  refine ⟨by decide, by decide, by decide, ?_⟩
  unfold WordsOK
  decide

/-- the hypotheses of `copy_correct`/`copy_vals` hold on a concrete multi-word, misaligned copy -/
example : ∃ d', copy 8 exSrc 2 exDst 1 20 = .ok d' ∧ d'.Inv 8 ∧
    d'.vals 8 = (exDst.vals 8).take 1 ++ ((exSrc.vals 8).drop 2).take 8 ++ (exDst.vals 8).drop 9 :=
  copy_vals 8 (by decide) exSrc exDst exSrc_inv exDst_inv rfl 2 1 20 (by decide) (by decide)
    (Or.inl (by decide))
end NonVacuity

/-! ## (2) `apply_in_place` -/

/-- `apply_in_place(f)` with a stateful callback: the callback state and the stored values are those
of `mapAccum f` over the current values, i.e. `f` is called exactly once per element, in index
order, on the current value, and each result is stored; bits at or beyond `len * bw` are untouched.

`hdiv` is forced by the power-of-two path, which assumes that a power-of-two width divides the word
size; it holds for every real word type (`apply_correct_pow2`), and the statement is false without
it (see the `example` below: `W = 12`, `bw = 8`). -/
theorem apply_correct {σ : Type} (W : Nat) (hW : 0 < W) (s : St) (h : s.Inv W)
    (f : σ → Nat → σ × Nat) (st : σ) (hf : ∀ st x, (f st x).2 < 2 ^ s.bw)
    (hdiv : isPow2 s.bw = true → s.bw ∣ W) :
    ∃ s', applyInPlace W s f st = .ok (s', (mapAccum f (s.vals W) st).2) ∧ s'.Inv W ∧
      s'.len = s.len ∧ s'.bw = s.bw ∧ s'.words.size = s.words.size ∧
      s'.vals W = (mapAccum f (s.vals W) st).1 ∧
      ∀ k, s.len * s.bw ≤ k → bitAt W s'.words k = bitAt W s.words k :=
  apply_correct' W hW s h f st hf hdiv

/-- the same for the word sizes that exist (`W = 2^e`: 8, 16, 32, 64, 128), no side condition -/
theorem apply_correct_pow2 {σ : Type} (e : Nat) (s : St) (h : s.Inv (2 ^ e))
    (f : σ → Nat → σ × Nat) (st : σ) (hf : ∀ st x, (f st x).2 < 2 ^ s.bw) :
    ∃ s', applyInPlace (2 ^ e) s f st = .ok (s', (mapAccum f (s.vals (2 ^ e)) st).2) ∧
      s'.Inv (2 ^ e) ∧ s'.len = s.len ∧ s'.bw = s.bw ∧ s'.words.size = s.words.size ∧
      s'.vals (2 ^ e) = (mapAccum f (s.vals (2 ^ e)) st).1 ∧
      ∀ k, s.len * s.bw ≤ k → bitAt (2 ^ e) s'.words k = bitAt (2 ^ e) s.words k :=
  apply_correct' (2 ^ e) (Nat.two_pow_pos e) s h f st hf
    (fun hp => isPow2_dvd_two_pow s.bw e hp h.1)

/-- without `hdiv` the statement fails: 12-bit words, width 8, three elements `255`; the identity
callback is called twice instead of three times and element 1 becomes 240 -/
example : applyInPlace 12 ⟨#[0xFFF, 0xFFF], 8, 3⟩ (fun (st : Nat) x => (st + 1, x % 256)) 0
    = .ok (⟨#[255, 4095], 8, 3⟩, 2) := by decide

section NonVacuity
/-- general path (width 3), stateful callback, spare bits in the last word -/
example : ∃ s', applyInPlace 8 exSrc (fun (st : Nat) x => (st + x, (x + st) % 8)) 0
      = .ok (s', (mapAccum (fun (st : Nat) x => (st + x, (x + st) % 8)) (exSrc.vals 8) 0).2) ∧
    s'.vals 8 = (mapAccum (fun (st : Nat) x => (st + x, (x + st) % 8)) (exSrc.vals 8) 0).1 := by
  obtain ⟨s', h1, _, _, _, _, h2, _⟩ := apply_correct 8 (by decide) exSrc exSrc_inv
    (fun (st : Nat) x => (st + x, (x + st) % 8)) 0 (fun _ _ => Nat.mod_lt _ (by decide)) (by decide)
  exact ⟨s', h1, h2⟩
end NonVacuity

/-! ## (3) `try_chunks_mut` -/

/-- reads through the view of chunk `j` address element `j * cs + i` of the vector -/
theorem chunk_get_correct (W : Nat) (hW : 0 < W) (s : St) (h : s.Inv W) (cs j i : Nat)
    (hc : s.len ≤ cs ∨ (cs * s.bw) % W = 0) (hpos : 0 < cs * s.bw) (hj : j * cs < s.len)
    (hi : i < min cs (s.len - j * cs)) :
    chunkOp W s cs j i none = .ok (.value (valAt W s.words s.bw (j * cs + i))) :=
  chunk_get W hW s h cs j i hc hpos hj hi

/-- writes through the view of chunk `j` (followed by the write-back of the chunk's words) set
exactly element `j * cs + i`: same shape, every bit outside that element unchanged -/
theorem chunk_set_correct (W : Nat) (hW : 0 < W) (s : St) (h : s.Inv W) (cs j i v : Nat)
    (hc : s.len ≤ cs ∨ (cs * s.bw) % W = 0) (hpos : 0 < cs * s.bw) (hj : j * cs < s.len)
    (hi : i < min cs (s.len - j * cs)) (hv : v < 2 ^ s.bw) :
    ∃ s', chunkOp W s cs j i (some v) = .ok (.done s') ∧ s'.len = s.len ∧ s'.bw = s.bw ∧
      s'.words.size = s.words.size ∧ s'.Inv W ∧
      (∀ k, bitAt W s'.words k =
        if (j * cs + i) * s.bw ≤ k ∧ k < (j * cs + i) * s.bw + s.bw
        then v.testBit (k - (j * cs + i) * s.bw) else bitAt W s.words k) ∧
      s'.vals W = (s.vals W).set (j * cs + i) v :=
  chunk_set W hW s h cs j i v hc hpos hj hi hv

/-- `Err(())` is returned exactly when the chunk size in bits is not a multiple of the word size and
more than one chunk would be needed — whatever the chunk/element index and operation -/
theorem chunk_err_iff (W : Nat) (hW : 0 < W) (s : St) (h : s.Inv W) (cs j i : Nat) (v : Option Nat) :
    chunkOp W s cs j i v = .ok .err ↔ ¬ (s.len ≤ cs ∨ (cs * s.bw) % W = 0) :=
  chunk_err_iff' W hW s h cs j i v

/-- no chunk operation performs an out-of-bounds unchecked access -/
theorem chunk_no_oob (W : Nat) (hW : 0 < W) (s : St) (h : s.Inv W) (cs j i : Nat) (v : Option Nat) :
    chunkOp W s cs j i v ≠ .oob :=
  chunk_no_oob' W hW s h cs j i v

/-- the corner excluded by `hpos`: chunk size 0 or bit width 0 is the `chunks_mut(0)` panic -/
theorem chunk_zero_panics (W : Nat) (hW : 0 < W) (s : St) (h : s.Inv W) (cs j i : Nat)
    (v : Option Nat) (hc : s.len ≤ cs ∨ (cs * s.bw) % W = 0) (h0 : cs * s.bw = 0) :
    chunkOp W s cs j i v = .panic :=
  chunk_zero W hW s h cs j i v hc h0

section NonVacuity
private def exC : St := { words := #[0x21, 0x43, 0x65, 0x07, 0xEE], bw := 4, len := 7 }
private theorem exC_inv : exC.Inv 8 := by
  refine ⟨by decide, by decide, by decide, ?_⟩
  unfold WordsOK
  decide
/-- chunks of 2 elements (one 8-bit word each); chunk 2, element 1 is element 5 -/
example : chunkOp 8 exC 2 2 1 none = .ok (.value (valAt 8 exC.words exC.bw 5)) :=
  chunk_get_correct 8 (by decide) exC exC_inv 2 2 1 (Or.inr (by decide)) (by decide) (by decide)
    (by decide)
example : ∃ s', chunkOp 8 exC 2 2 1 (some 9) = .ok (.done s') ∧ s'.vals 8 = (exC.vals 8).set 5 9 := by
  obtain ⟨s', h1, _, _, _, _, _, h2⟩ := chunk_set_correct 8 (by decide) exC exC_inv 2 2 1 9
    (Or.inr (by decide)) (by decide) (by decide) (by decide) (by decide)
  exact ⟨s', h1, h2⟩
/-- chunks of 3 elements = 12 bits: not word aligned, two chunks needed -/
example : chunkOp 8 exC 3 0 0 none = .ok .err :=
  (chunk_err_iff 8 (by decide) exC exC_inv 3 0 0 none).2 (by decide)
end NonVacuity

/-! ## (4) `get_unaligned` -/

/-- `get_unaligned(i)` returns element `i` (the value `get(i)` returns) for every word size that is
a multiple of 8, under the documented preconditions: admissible width, and the `W/8` bytes starting
at the byte of the first bit lie inside the backing store (one padding word suffices). -/
theorem unaligned_eq_get (W : Nat) (h8 : 8 ∣ W) (hW : 0 < W) (s : St) (h : s.Inv W) (i : Nat)
    (hi : i < s.len) (hadm : s.bw ≤ W - 8 + 2 ∨ s.bw = W - 8 + 4 ∨ s.bw = W)
    (hpad : (i * s.bw) / 8 + W / 8 ≤ s.words.size * (W / 8)) :
    getUnaligned W s i = .ok (valAt W s.words s.bw i) :=
  unaligned_get W h8 hW s h i hi hadm hpad

/-- the same, stated against `get` -/
theorem unaligned_eq_get_call (W : Nat) (h8 : 8 ∣ W) (hW : 0 < W) (s : St) (h : s.Inv W) (i : Nat)
    (hi : i < s.len) (hadm : s.bw ≤ W - 8 + 2 ∨ s.bw = W - 8 + 4 ∨ s.bw = W)
    (hpad : (i * s.bw) / 8 + W / 8 ≤ s.words.size * (W / 8)) :
    getUnaligned W s i = get W s i :=
  unaligned_get' W h8 hW s h i hi hadm hpad

section NonVacuity
private def exU : St := { words := #[0xABCD, 0x1234, 0x7F7F, 0x5555, 0x0], bw := 7, len := 9 }
private theorem exU_inv : exU.Inv 16 := by
  refine ⟨by decide, by decide, by decide, ?_⟩
  unfold WordsOK
  decide
example : getUnaligned 16 exU 8 = .ok (valAt 16 exU.words exU.bw 8) :=
  unaligned_eq_get 16 (by decide) (by decide) exU exU_inv 8 (by decide) (Or.inl (by decide))
    (by decide)
end NonVacuity

/-! ## (5) `copy` of the blanket impl for plain word vectors -/

/-- `Vec<W>::copy` (full-width slices): in range it never fails, keeps the destination's length, and
element `i` of the result is `src[from + (i - to)]` inside the clipped window and `dst[i]` outside;
the window is `min(len, dst.len() - to, src.len() - from)` elements long, *whatever the two lengths* -/
theorem slice_copy_spec (src dst : List Nat) (f t n : Nat) (hf : f ≤ src.length)
    (ht : t ≤ dst.length) :
    ∃ r, sliceCopy src dst f t n = .ok r ∧ r.length = dst.length ∧
      ∀ i, r[i]? = if t ≤ i ∧ i < t + min (min n (dst.length - t)) (src.length - f)
        then src[f + (i - t)]? else dst[i]? := by
  have hc : ¬ (dst.length < t ∨ src.length < f) := by omega
  refine ⟨dst.take t ++ ((src.drop f).take (min (min n (dst.length - t)) (src.length - f)) ++
      dst.drop (t + min (min n (dst.length - t)) (src.length - f))),
    by simp only [sliceCopy, hc, if_false], ?_, ?_⟩
  · simp only [List.length_append, List.length_take, List.length_drop]
    omega
  · intro i
    generalize hm : min (min n (dst.length - t)) (src.length - f) = m
    have hm1 : m ≤ dst.length - t := by omega
    have hm2 : m ≤ src.length - f := by omega
    by_cases h1 : i < t
    · have : ¬ (t ≤ i ∧ i < t + m) := by omega
      rw [if_neg this, List.getElem?_append_left (by simp only [List.length_take]; omega),
        List.getElem?_take_of_lt h1]
    · have hl : (dst.take t).length = t := by simp only [List.length_take]; omega
      rw [List.getElem?_append_right (by omega), hl]
      have hl2 : ((src.drop f).take m).length = m := by
        simp only [List.length_take, List.length_drop]; omega
      by_cases h2 : i < t + m
      · rw [if_pos ⟨by omega, h2⟩, List.getElem?_append_left (by omega),
          List.getElem?_take_of_lt (by omega), List.getElem?_drop]
      · have : ¬ (t ≤ i ∧ i < t + m) := by omega
        rw [if_neg this, List.getElem?_append_right (by omega), hl2, List.getElem?_drop]
        congr 1
        omega

/-- out of range it panics (the subtraction underflows in a checked build) -/
theorem slice_copy_panics (src dst : List Nat) (f t n : Nat) (h : src.length < f ∨ dst.length < t) :
    sliceCopy src dst f t n = .panic := by
  have hc : dst.length < t ∨ src.length < f := by omega
  simp only [sliceCopy, hc, if_true]

/-- non-vacuity: a 6-element source into a 10-element destination at offset 5 copies 5 elements -/
example : sliceCopy [10, 11, 12, 13, 14, 15] [0, 1, 2, 3, 4, 5, 6, 7, 8, 9] 0 5 100 =
    .ok [0, 1, 2, 3, 4, 10, 11, 12, 13, 14] := by decide

end Sux.BFV
