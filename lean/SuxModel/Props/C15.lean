import SuxModel.Serde.Lemmas
import SuxModel.Base.BitsLemmas
import SuxModel.BitVec.Model
import SuxModel.RankSel.Rank9.Model
/-!
# C15 — serialized structures answer identically after any way of loading them back

**Scope (stated limit, DESIGN §6-C15).**  The theorems are about the *layout model*
`SuxModel/Serde/Layout.lean` of the ε-serde 0.8 payload: a structure is the tuple of its field
values, scalars are written little-endian and unaligned, sequences as length + padding to the
element alignment (counted from the start of the file) + `repr(C)` images of padding-free elements.
ε-serde's derive macros, its header (type/alignment hashes) and the operating system's `mmap` are
trusted and exercised by runner `serde`, not modelled.  The tie to the real code is differential:
`run_serde.rs` prints the field tuple of real `BitVec`, `BitFieldVec<u8|u16|u32|u64|usize>`,
`Rank9`, `RankSmall×5`, `EliasFano`, `RearCodedList` instances and the bytes ε-serde wrote;
`Serde/Runner.lean` recomputes the bytes with `payload` (byte-for-byte equal on every run).
The property itself (every query of every structure type answers identically after every loader)
is decided by that runner on the real code; level claimed: translation validation, partial proof.

Loaders in the model: `decodeFull` (`deserialize_full`, `load_full`), `loadView` = `decodeView`
followed by typed reads through the views (`deserialize_eps`, `mmap`, `load_mem`, `load_mmap`), at a
buffer address `base`.
-/
namespace Sux.Serde

/-! ## concrete data for the non-vacuity examples -/

/-- a 63-byte header (the length of the real header of `BitVec<Vec<usize>>`): the first sequence
needs one byte of padding, the second none -/
def exHdr : List Nat := List.replicate 63 7

/-- the field tuple of a `Rank9<BitVec>`: two words (garbage beyond `len = 70`), `len`, two
`BlockCounters` -/
def exFields : List Field :=
  [Field.slice 8 [0xF0F0F0F0F0F0F0F1, 0xFFFFFFFFFFFFFF15], .scalar 8 70,
   .seq [8, 8] [[0, 0x123456789], [37, 0]]]

theorem exFields_wf : ∀ f ∈ exFields, f.WF := allWF_of_wfb exFields (by decide)

/-! ## T-A 1: decoding inverts encoding -/

/-- `decode ∘ encode = id` on field tuples (full-copy loaders), for every header -/
theorem decode_encode (hdr : List Nat) (fs : List Field) (h : ∀ f ∈ fs, f.WF) :
    decodeFull hdr.length (fs.map Field.kind) (encode hdr fs) = some fs :=
  decodeFull_encode hdr fs h

example : decodeFull 63 (exFields.map Field.kind) (encode exHdr exFields) = some exFields :=
  decode_encode exHdr exFields exFields_wf

/-- the model's bytes for an empty `BitVec` after a 63-byte header: length 0, ONE padding byte
(63 + 8 = 71 → 72), no elements, then `len = 0` unaligned — 17 bytes, as in the real 80-byte file -/
example : payload 63 [Field.slice 8 [], .scalar 8 0] = List.replicate 17 0 := by decide

/-! ## T-A 2: the padding lemma and views -/

/-- the encoder's padding makes the element offset a multiple of the element alignment … -/
theorem padding_lemma (pos : Nat) (comps : List Nat) :
    (pos + 8 + padTo (pos + 8) (alignOf comps)) % alignOf comps = 0 :=
  padTo_spec (pos + 8) (alignOf comps) (alignOf_pos comps)

/-- … hence a sequence field encoded at file offset `pre.length` is accepted by the ε-copy loader,
and typed reads through the accepted view return exactly the encoded rows, **iff** the buffer
address is a multiple of the element alignment -/
theorem view_reads_same (base : Nat) (pre post : List Nat) (comps : List Nat)
    (rows : List (List Nat)) (h : (Field.seq comps rows).WF) :
    (∃ v, decViewField base pre.length (.seq comps) (encField pre.length (.seq comps rows) ++ post)
            = some (v, post)
        ∧ readView base (pre ++ (encField pre.length (.seq comps rows) ++ post)) v
            = some (.seq comps rows))
      ↔ base % alignOf comps = 0 := by
  constructor
  · rintro ⟨v, hv, _⟩
    rw [decViewField_seq base pre.length comps rows post h] at hv
    by_cases hb : base % alignOf comps = 0
    · exact hb
    · rw [if_neg hb] at hv; cases hv
  · intro hb
    exact readView_encField base pre post (.seq comps rows) h hb

example : ∃ v, decViewField 4096 63 (.seq [8, 8]) (encField 63 (.seq [8, 8] [[0, 5], [37, 0]]) ++ [1, 2])
      = some (v, [1, 2])
    ∧ readView 4096 (exHdr ++ (encField 63 (.seq [8, 8] [[0, 5], [37, 0]]) ++ [1, 2])) v
      = some (.seq [8, 8] [[0, 5], [37, 0]]) :=
  (view_reads_same 4096 exHdr [1, 2] [8, 8] [[0, 5], [37, 0]]
    (Field.WF_of_wfb _ (by decide))).mpr (by decide)

/-- ε-copy loading (`deserialize_eps`, `mmap`, …) of an encoded tuple from an aligned buffer
returns the tuple -/
theorem view_encode (base : Nat) (hdr : List Nat) (fs : List Field)
    (h : ∀ f ∈ fs, f.WF) (ha : ∀ f ∈ fs, f.alignedAt base) :
    loadView base hdr.length (fs.map Field.kind) (encode hdr fs) = some fs :=
  loadView_encode base hdr fs h ha

example : loadView 4096 63 (exFields.map Field.kind) (encode exHdr exFields) = some exFields :=
  view_encode 4096 exHdr exFields exFields_wf (by decide)

/-- … and from a buffer that is misaligned for some sequence field it is rejected
(`Error::AlignmentError`; op `load eps_mis` of the runner) -/
theorem view_misaligned_rejected (base : Nat) (hdr : List Nat) (fs : List Field)
    (h : ∀ f ∈ fs, f.WF) (hm : ∃ f ∈ fs, ¬ f.alignedAt base) :
    loadView base hdr.length (fs.map Field.kind) (encode hdr fs) = none :=
  loadView_misaligned base hdr fs h hm

example : loadView 4097 63 (exFields.map Field.kind) (encode exHdr exFields) = none :=
  view_misaligned_rejected 4097 exHdr exFields exFields_wf (by decide)

/-! ## T-A 3: answers are a function of the field tuple, hence identical after loading -/

/-- For ANY observer `answer` of field tuples — every query of every model of this project is one,
the models take the arrays and scalars as arguments and never the backend — the answer on the
loaded tuple is the answer on the original, for the full-copy loaders and, from an aligned buffer,
for the ε-copy loaders.  IN THE LAYOUT MODEL. -/
theorem answers_identical {Q α : Type} (answer : List Field → Q → α)
    (base : Nat) (hdr : List Nat) (fs : List Field) (h : ∀ f ∈ fs, f.WF) :
    (∀ q, (decodeFull hdr.length (fs.map Field.kind) (encode hdr fs)).map (answer · q)
        = some (answer fs q))
    ∧ ((∀ f ∈ fs, f.alignedAt base) →
        ∀ q, (loadView base hdr.length (fs.map Field.kind) (encode hdr fs)).map (answer · q)
          = some (answer fs q)) := by
  refine ⟨fun q => ?_, fun ha q => ?_⟩
  · rw [decode_encode hdr fs h]; rfl
  · rw [view_encode base hdr fs h ha]; rfl

/-! ### instance: `BitVec` (model `Sux.BV`) -/

/-- field tuple of `BitVec { bits, len }` -/
def ofBV (s : Sux.BV.St) : List Field := [Field.slice 8 s.words.toList, .scalar 8 s.len]

def toBV : List Field → Option Sux.BV.St
  | [.seq [8] rows, .scalar 8 len] => some { words := (rows.map (·.headD 0)).toArray, len := len }
  | _ => none

theorem toBV_ofBV (s : Sux.BV.St) : toBV (ofBV s) = some s := by
  cases s with
  | mk words len =>
    simp only [ofBV, toBV, Field.slice, List.map_map]
    congr 2
    have : ((fun x : List Nat => x.headD 0) ∘ fun x : Nat => [x]) = id := by
      funext x; simp
    rw [this]; simp

theorem pow256_8 : (256 : Nat) ^ 8 = 2 ^ 64 := by decide

theorem slice8_wf (ws : Array Nat) (hw : WordsOK 64 ws) (hn : ws.size < 2 ^ 64) :
    (Field.slice 8 ws.toList).WF := by
  refine ⟨by simpa [pow256_8] using hn, ?_⟩
  intro row hm
  simp only [List.mem_map] at hm
  obtain ⟨x, hx, rfl⟩ := hm
  obtain ⟨i, hi, rfl⟩ := List.getElem_of_mem hx
  simp only [Array.length_toList] at hi
  refine ⟨?_, trivial⟩
  rw [pow256_8]
  simpa using hw i hi

theorem ofBV_wf (s : Sux.BV.St) (hw : WordsOK 64 s.words) (hn : s.words.size < 2 ^ 64)
    (hl : s.len < 2 ^ 64) : ∀ f ∈ ofBV s, f.WF := by
  intro f hf
  simp only [ofBV, List.mem_cons, List.mem_nil_iff, or_false] at hf
  rcases hf with rfl | rfl
  · exact slice8_wf s.words hw hn
  · show s.len < 256 ^ 8
    rw [pow256_8]; exact hl

/-- every query of the `BitVec` model (`get`, `countOnes`, `iterOnes`, `eq` …: any function of the
state) answers on the loaded vector as on the original; bits beyond `len` are arbitrary -/
theorem bitvec_answers {α : Type} (query : Sux.BV.St → α) (base : Nat) (hdr : List Nat)
    (s : Sux.BV.St) (hw : WordsOK 64 s.words) (hn : s.words.size < 2 ^ 64) (hl : s.len < 2 ^ 64) :
    ((decodeFull hdr.length ((ofBV s).map Field.kind) (encode hdr (ofBV s))).bind toBV).map query
        = some (query s)
    ∧ (base % 8 = 0 →
        ((loadView base hdr.length ((ofBV s).map Field.kind) (encode hdr (ofBV s))).bind toBV).map query
          = some (query s)) := by
  have hwf := ofBV_wf s hw hn hl
  refine ⟨?_, fun hb => ?_⟩
  · rw [decode_encode hdr _ hwf]; simp [toBV_ofBV]
  · have ha : ∀ f ∈ ofBV s, f.alignedAt base := by
      intro f hf
      simp only [ofBV, List.mem_cons, List.mem_nil_iff, or_false] at hf
      rcases hf with rfl | rfl
      · exact hb
      · trivial
    rw [view_encode base hdr _ hwf ha]; simp [toBV_ofBV]

example (i : Nat) :
    ((decodeFull 63 ((ofBV ⟨#[0xF1, 0xFFFFFFFFFFFFFF15, 0xABC], 70⟩).map Field.kind)
        (encode exHdr (ofBV ⟨#[0xF1, 0xFFFFFFFFFFFFFF15, 0xABC], 70⟩))).bind toBV).map
      (fun s => Sux.BV.get s i)
      = some (Sux.BV.get ⟨#[0xF1, 0xFFFFFFFFFFFFFF15, 0xABC], 70⟩ i) :=
  (bitvec_answers (fun s => Sux.BV.get s i) 0 exHdr ⟨#[0xF1, 0xFFFFFFFFFFFFFF15, 0xABC], 70⟩
    (by
      apply Sux.WordsOK_of_getD
      show ∀ i, i < 3 → (#[0xF1, 0xFFFFFFFFFFFFFF15, 0xABC] : Array Nat).getD i 0 < 2 ^ 64
      decide)
    (by decide) (by decide)).1

/-! ### instance: `Rank9` (model `Sux.RS.Rank9`: queries take the words, the length and the counters) -/

open Sux.RS.Rank9 in
/-- field tuple of `Rank9 { bits: BitVec { bits, len }, counts }` -/
def ofR9 (ws : Array Nat) (len : Nat) (cs : Array BlockCounters) : List Field :=
  [Field.slice 8 ws.toList, .scalar 8 len,
   .seq [8, 8] (cs.toList.map fun c => [c.absolute, c.relative])]

open Sux.RS.Rank9 in
def toR9 : List Field → Option (Array Nat × Nat × Array BlockCounters)
  | [.seq [8] rows, .scalar 8 len, .seq [8, 8] crows] =>
    some ((rows.map (·.headD 0)).toArray, len,
      (crows.map fun r => ({ absolute := r.headD 0, relative := (r.drop 1).headD 0 } : BlockCounters)).toArray)
  | _ => none

open Sux.RS.Rank9 in
theorem toR9_ofR9 (ws : Array Nat) (len : Nat) (cs : Array BlockCounters) :
    toR9 (ofR9 ws len cs) = some (ws, len, cs) := by
  simp only [ofR9, toR9, Field.slice, List.map_map]
  have h1 : ((fun x : List Nat => x.headD 0) ∘ fun x : Nat => [x]) = id := by
    funext x; simp
  have h2 : ((fun r : List Nat => ({ absolute := r.headD 0, relative := (r.drop 1).headD 0 } : BlockCounters))
      ∘ fun c : BlockCounters => [c.absolute, c.relative]) = id := by
    funext c; cases c; simp
  rw [h1, h2]; simp

open Sux.RS.Rank9 in
/-- `rank`, `rank_zero`, `num_ones`, … of the `Rank9` model (any function of words, length and
counters — they need not even be the counters the builder would compute) answer identically after
loading -/
theorem rank9_answers {α : Type} (query : Array Nat → Nat → Array BlockCounters → α)
    (base : Nat) (hdr : List Nat) (ws : Array Nat) (len : Nat) (cs : Array BlockCounters)
    (hw : WordsOK 64 ws) (hn : ws.size < 2 ^ 64) (hl : len < 2 ^ 64)
    (hcn : cs.size < 2 ^ 64)
    (hc : ∀ c ∈ cs.toList, c.absolute < 2 ^ 64 ∧ c.relative < 2 ^ 64) :
    ((decodeFull hdr.length ((ofR9 ws len cs).map Field.kind) (encode hdr (ofR9 ws len cs))).bind toR9).map
        (fun t => query t.1 t.2.1 t.2.2) = some (query ws len cs)
    ∧ (base % 8 = 0 →
        ((loadView base hdr.length ((ofR9 ws len cs).map Field.kind) (encode hdr (ofR9 ws len cs))).bind toR9).map
          (fun t => query t.1 t.2.1 t.2.2) = some (query ws len cs)) := by
  have hwf : ∀ f ∈ ofR9 ws len cs, f.WF := by
    intro f hf
    simp only [ofR9, List.mem_cons, List.mem_nil_iff, or_false] at hf
    rcases hf with rfl | rfl | rfl
    · exact slice8_wf ws hw hn
    · show len < 256 ^ 8
      rw [pow256_8]; exact hl
    · refine ⟨by simpa [pow256_8] using hcn, ?_⟩
      intro row hm
      simp only [List.mem_map] at hm
      obtain ⟨c, hcm, rfl⟩ := hm
      have := hc c hcm
      exact ⟨by rw [pow256_8]; exact this.1, by rw [pow256_8]; exact this.2, trivial⟩
  refine ⟨?_, fun hb => ?_⟩
  · rw [decode_encode hdr _ hwf]; simp [toR9_ofR9]
  · have ha : ∀ f ∈ ofR9 ws len cs, f.alignedAt base := by
      intro f hf
      simp only [ofR9, List.mem_cons, List.mem_nil_iff, or_false] at hf
      rcases hf with rfl | rfl | rfl
      · exact hb
      · trivial
      · exact hb
    rw [view_encode base hdr _ hwf ha]; simp [toR9_ofR9]

open Sux.RS.Rank9 in
example (pos : Nat) :
    ((loadView 4096 63 ((ofR9 #[0xF0F0, 5] 70 #[⟨0, 77⟩, ⟨10, 0⟩]).map Field.kind)
        (encode exHdr (ofR9 #[0xF0F0, 5] 70 #[⟨0, 77⟩, ⟨10, 0⟩]))).bind toR9).map
      (fun t => rank t.1 t.2.1 t.2.2 pos)
      = some (rank #[0xF0F0, 5] 70 #[⟨0, 77⟩, ⟨10, 0⟩] pos) :=
  (rank9_answers (fun ws len cs => rank ws len cs pos) 4096 exHdr #[0xF0F0, 5] 70 #[⟨0, 77⟩, ⟨10, 0⟩]
    (by
      apply Sux.WordsOK_of_getD
      show ∀ i, i < 2 → (#[0xF0F0, 5] : Array Nat).getD i 0 < 2 ^ 64
      decide)
    (by decide) (by decide) (by decide) (by decide)).2 (by decide)

end Sux.Serde
