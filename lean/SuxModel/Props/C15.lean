import SuxModel.Serde.Lemmas
import SuxModel.Serde.Bridges
import SuxModel.Serde.BridgeLemmas
import SuxModel.Base.BitsLemmas
import SuxModel.BitVec.Model
import SuxModel.RankSel.Rank9.Model
import SuxModel.Props.C03
import SuxModel.Props.C04
/-!
# C15 — serialized structures answer identically after any way of loading them back

**Scope (stated limit, DESIGN §6-C15).**  The theorems are about the *layout model*
`SuxModel/Serde/Layout.lean` of the ε-serde 0.8 payload: a structure is the tuple of its field
values, scalars are written little-endian and unaligned, sequences as length + padding to the
element alignment (counted from the start of the file) + `repr(C)` images of padding-free elements.
ε-serde's derive macros, its header (type/alignment hashes) and the operating system's `mmap` are
trusted and exercised by runner `serde`, not modelled.  The tie to the real code is differential:
`run_serde.rs` prints the field tuple of real `BitVec`, `BitFieldVec<u8|u16|u32|u64|usize>`,
`Rank9`, `RankSmall×5`, `EliasFano` (plain, `EfSeq`, `EfDict`, `EfSeqDict`), `RearCodedList`, `AddNumBits`,
`Select9`, `SelectAdapt`/`SelectZeroAdapt`(+`Const`) and `SelectSmall`/`SelectZeroSmall` stacks, `VFunc` and
`VFilter` (every shard/edge logic, boxed-slice and `BitFieldVec` backends) instances and the bytes
ε-serde wrote; `Serde/Runner.lean` parses the tuple into the MODEL states through the bridges of
`Serde/Bridges.lean`, lays it out again with the bridges' `of` (must be the tuple itself) and
recomputes the bytes with `payload` (byte-for-byte equal on every run).

**Structure theorems (second half of the file).**  For every structure `X` that has a model in this
project, `x_answers`: every query of the MODEL of `X` (any function of the model state) answers on
the state re-loaded from `encode` — full copy, and ε-copy from an aligned buffer — as on the
original.  They are instances of `Bridge.answers` through `Bridge.parse_of` (`toX (ofX x) = some x`)
and the `…_fits` lemmas; the hypotheses are exactly the machine ranges of the Rust field types.
The property itself (every query of every structure type answers identically after every loader)
is decided by that runner on the real code; level claimed: translation validation, partial proof.

Loaders in the model: `decodeFull` (`deserialize_full`, `load_full`), `loadView` = `decodeView`
followed by typed reads through the views (`deserialize_eps`, `mmap`, `load_mem`, `load_mmap`), at a
buffer address `base`.
-/
namespace Sux.Serde

/-! ## concrete data for the non-vacuity examples -/

/-- a 63-byte header (the length of the real header of `BitVec<Vec<usize>>`): the first sequence
needs one byte of padding, the second none -/
def exHdr : List Nat := List.replicate 63 7

/-- the field tuple of a `Rank9<BitVec>`: two words (garbage beyond `len = 70`), `len`, two
`BlockCounters` -/
def exFields : List Field :=
  [Field.slice 8 [0xF0F0F0F0F0F0F0F1, 0xFFFFFFFFFFFFFF15], .scalar 8 70,
   .seq [8, 8] [[0, 0x123456789], [37, 0]]]

theorem exFields_wf : ∀ f ∈ exFields, f.WF := allWF_of_wfb exFields (by decide)

/-! ## T-A 1: decoding inverts encoding -/

/-- `decode ∘ encode = id` on field tuples (full-copy loaders), for every header -/
theorem decode_encode (hdr : List Nat) (fs : List Field) (h : ∀ f ∈ fs, f.WF) :
    decodeFull hdr.length (fs.map Field.kind) (encode hdr fs) = some fs :=
  decodeFull_encode hdr fs h

example : decodeFull 63 (exFields.map Field.kind) (encode exHdr exFields) = some exFields :=
  decode_encode exHdr exFields exFields_wf

/-- the model's bytes for an empty `BitVec` after a 63-byte header: length 0, ONE padding byte
(63 + 8 = 71 → 72), no elements, then `len = 0` unaligned — 17 bytes, as in the real 80-byte file -/
example : payload 63 [Field.slice 8 [], .scalar 8 0] = List.replicate 17 0 := by decide

/-! ## T-A 2: the padding lemma and views -/

/-- the encoder's padding makes the element offset a multiple of the element alignment … -/
theorem padding_lemma (pos : Nat) (comps : List Nat) :
    (pos + 8 + padTo (pos + 8) (alignOf comps)) % alignOf comps = 0 :=
  padTo_spec (pos + 8) (alignOf comps) (alignOf_pos comps)

/-- … hence a sequence field encoded at file offset `pre.length` is accepted by the ε-copy loader,
and typed reads through the accepted view return exactly the encoded rows, **iff** the buffer
address is a multiple of the element alignment -/
theorem view_reads_same (base : Nat) (pre post : List Nat) (comps : List Nat)
    (rows : List (List Nat)) (h : (Field.seq comps rows).WF) :
    (∃ v, decViewField base pre.length (.seq comps) (encField pre.length (.seq comps rows) ++ post)
            = some (v, post)
        ∧ readView base (pre ++ (encField pre.length (.seq comps rows) ++ post)) v
            = some (.seq comps rows))
      ↔ base % alignOf comps = 0 := by
  constructor
  · rintro ⟨v, hv, _⟩
    rw [decViewField_seq base pre.length comps rows post h] at hv
    by_cases hb : base % alignOf comps = 0
    · exact hb
    · rw [if_neg hb] at hv; cases hv
  · intro hb
    exact readView_encField base pre post (.seq comps rows) h hb

example : ∃ v, decViewField 4096 63 (.seq [8, 8]) (encField 63 (.seq [8, 8] [[0, 5], [37, 0]]) ++ [1, 2])
      = some (v, [1, 2])
    ∧ readView 4096 (exHdr ++ (encField 63 (.seq [8, 8] [[0, 5], [37, 0]]) ++ [1, 2])) v
      = some (.seq [8, 8] [[0, 5], [37, 0]]) :=
  (view_reads_same 4096 exHdr [1, 2] [8, 8] [[0, 5], [37, 0]]
    (Field.WF_of_wfb _ (by decide))).mpr (by decide)

/-- ε-copy loading (`deserialize_eps`, `mmap`, …) of an encoded tuple from an aligned buffer
returns the tuple -/
theorem view_encode (base : Nat) (hdr : List Nat) (fs : List Field)
    (h : ∀ f ∈ fs, f.WF) (ha : ∀ f ∈ fs, f.alignedAt base) :
    loadView base hdr.length (fs.map Field.kind) (encode hdr fs) = some fs :=
  loadView_encode base hdr fs h ha

example : loadView 4096 63 (exFields.map Field.kind) (encode exHdr exFields) = some exFields :=
  view_encode 4096 exHdr exFields exFields_wf (by decide)

/-- … and from a buffer that is misaligned for some sequence field it is rejected
(`Error::AlignmentError`; op `load eps_mis` of the runner) -/
theorem view_misaligned_rejected (base : Nat) (hdr : List Nat) (fs : List Field)
    (h : ∀ f ∈ fs, f.WF) (hm : ∃ f ∈ fs, ¬ f.alignedAt base) :
    loadView base hdr.length (fs.map Field.kind) (encode hdr fs) = none :=
  loadView_misaligned base hdr fs h hm

example : loadView 4097 63 (exFields.map Field.kind) (encode exHdr exFields) = none :=
  view_misaligned_rejected 4097 exHdr exFields exFields_wf (by decide)

/-! ## T-A 3: answers are a function of the field tuple, hence identical after loading -/

/-- For ANY observer `answer` of field tuples — every query of every model of this project is one,
the models take the arrays and scalars as arguments and never the backend — the answer on the
loaded tuple is the answer on the original, for the full-copy loaders and, from an aligned buffer,
for the ε-copy loaders.  IN THE LAYOUT MODEL. -/
theorem answers_identical {Q α : Type} (answer : List Field → Q → α)
    (base : Nat) (hdr : List Nat) (fs : List Field) (h : ∀ f ∈ fs, f.WF) :
    (∀ q, (decodeFull hdr.length (fs.map Field.kind) (encode hdr fs)).map (answer · q)
        = some (answer fs q))
    ∧ ((∀ f ∈ fs, f.alignedAt base) →
        ∀ q, (loadView base hdr.length (fs.map Field.kind) (encode hdr fs)).map (answer · q)
          = some (answer fs q)) := by
  refine ⟨fun q => ?_, fun ha q => ?_⟩
  · rw [decode_encode hdr fs h]; rfl
  · rw [view_encode base hdr fs h ha]; rfl

/-! ### instance: `BitVec` (model `Sux.BV`) -/

/-- field tuple of `BitVec { bits, len }` -/
def ofBV (s : Sux.BV.St) : List Field := [Field.slice 8 s.words.toList, .scalar 8 s.len]

def toBV : List Field → Option Sux.BV.St
  | [.seq [8] rows, .scalar 8 len] => some { words := (rows.map (·.headD 0)).toArray, len := len }
  | _ => none

theorem toBV_ofBV (s : Sux.BV.St) : toBV (ofBV s) = some s := by
  cases s with
  | mk words len =>
    simp only [ofBV, toBV, Field.slice, List.map_map]
    congr 2
    have : ((fun x : List Nat => x.headD 0) ∘ fun x : Nat => [x]) = id := by
      funext x; simp
    rw [this]; simp

theorem slice8_wf (ws : Array Nat) (hw : WordsOK 64 ws) (hn : ws.size < 2 ^ 64) :
    (Field.slice 8 ws.toList).WF := by
  refine ⟨by simpa [pow256_8] using hn, ?_⟩
  intro row hm
  simp only [List.mem_map] at hm
  obtain ⟨x, hx, rfl⟩ := hm
  obtain ⟨i, hi, rfl⟩ := List.getElem_of_mem hx
  simp only [Array.length_toList] at hi
  refine ⟨?_, trivial⟩
  rw [pow256_8]
  simpa using hw i hi

theorem ofBV_wf (s : Sux.BV.St) (hw : WordsOK 64 s.words) (hn : s.words.size < 2 ^ 64)
    (hl : s.len < 2 ^ 64) : ∀ f ∈ ofBV s, f.WF := by
  intro f hf
  simp only [ofBV, List.mem_cons, List.mem_nil_iff, or_false] at hf
  rcases hf with rfl | rfl
  · exact slice8_wf s.words hw hn
  · show s.len < 256 ^ 8
    rw [pow256_8]; exact hl

/-- every query of the `BitVec` model (`get`, `countOnes`, `iterOnes`, `eq` …: any function of the
state) answers on the loaded vector as on the original; bits beyond `len` are arbitrary -/
theorem bitvec_answers {α : Type} (query : Sux.BV.St → α) (base : Nat) (hdr : List Nat)
    (s : Sux.BV.St) (hw : WordsOK 64 s.words) (hn : s.words.size < 2 ^ 64) (hl : s.len < 2 ^ 64) :
    ((decodeFull hdr.length ((ofBV s).map Field.kind) (encode hdr (ofBV s))).bind toBV).map query
        = some (query s)
    ∧ (base % 8 = 0 →
        ((loadView base hdr.length ((ofBV s).map Field.kind) (encode hdr (ofBV s))).bind toBV).map query
          = some (query s)) := by
  have hwf := ofBV_wf s hw hn hl
  refine ⟨?_, fun hb => ?_⟩
  · rw [decode_encode hdr _ hwf]; simp [toBV_ofBV]
  · have ha : ∀ f ∈ ofBV s, f.alignedAt base := by
      intro f hf
      simp only [ofBV, List.mem_cons, List.mem_nil_iff, or_false] at hf
      rcases hf with rfl | rfl
      · exact hb
      · trivial
    rw [view_encode base hdr _ hwf ha]; simp [toBV_ofBV]

example (i : Nat) :
    ((decodeFull 63 ((ofBV ⟨#[0xF1, 0xFFFFFFFFFFFFFF15, 0xABC], 70⟩).map Field.kind)
        (encode exHdr (ofBV ⟨#[0xF1, 0xFFFFFFFFFFFFFF15, 0xABC], 70⟩))).bind toBV).map
      (fun s => Sux.BV.get s i)
      = some (Sux.BV.get ⟨#[0xF1, 0xFFFFFFFFFFFFFF15, 0xABC], 70⟩ i) :=
  (bitvec_answers (fun s => Sux.BV.get s i) 0 exHdr ⟨#[0xF1, 0xFFFFFFFFFFFFFF15, 0xABC], 70⟩
    (by
      apply Sux.WordsOK_of_getD
      show ∀ i, i < 3 → (#[0xF1, 0xFFFFFFFFFFFFFF15, 0xABC] : Array Nat).getD i 0 < 2 ^ 64
      decide)
    (by decide) (by decide)).1

/-! ### instance: `Rank9` (model `Sux.RS.Rank9`: queries take the words, the length and the counters) -/

open Sux.RS.Rank9 in
/-- field tuple of `Rank9 { bits: BitVec { bits, len }, counts }` -/
def ofR9 (ws : Array Nat) (len : Nat) (cs : Array BlockCounters) : List Field :=
  [Field.slice 8 ws.toList, .scalar 8 len,
   .seq [8, 8] (cs.toList.map fun c => [c.absolute, c.relative])]

open Sux.RS.Rank9 in
def toR9 : List Field → Option (Array Nat × Nat × Array BlockCounters)
  | [.seq [8] rows, .scalar 8 len, .seq [8, 8] crows] =>
    some ((rows.map (·.headD 0)).toArray, len,
      (crows.map fun r => ({ absolute := r.headD 0, relative := (r.drop 1).headD 0 } : BlockCounters)).toArray)
  | _ => none

open Sux.RS.Rank9 in
theorem toR9_ofR9 (ws : Array Nat) (len : Nat) (cs : Array BlockCounters) :
    toR9 (ofR9 ws len cs) = some (ws, len, cs) := by
  simp only [ofR9, toR9, Field.slice, List.map_map]
  have h1 : ((fun x : List Nat => x.headD 0) ∘ fun x : Nat => [x]) = id := by
    funext x; simp
  have h2 : ((fun r : List Nat => ({ absolute := r.headD 0, relative := (r.drop 1).headD 0 } : BlockCounters))
      ∘ fun c : BlockCounters => [c.absolute, c.relative]) = id := by
    funext c; cases c; simp
  rw [h1, h2]; simp

open Sux.RS.Rank9 in
/-- `rank`, `rank_zero`, `num_ones`, … of the `Rank9` model (any function of words, length and
counters — they need not even be the counters the builder would compute) answer identically after
loading -/
theorem rank9_answers {α : Type} (query : Array Nat → Nat → Array BlockCounters → α)
    (base : Nat) (hdr : List Nat) (ws : Array Nat) (len : Nat) (cs : Array BlockCounters)
    (hw : WordsOK 64 ws) (hn : ws.size < 2 ^ 64) (hl : len < 2 ^ 64)
    (hcn : cs.size < 2 ^ 64)
    (hc : ∀ c ∈ cs.toList, c.absolute < 2 ^ 64 ∧ c.relative < 2 ^ 64) :
    ((decodeFull hdr.length ((ofR9 ws len cs).map Field.kind) (encode hdr (ofR9 ws len cs))).bind toR9).map
        (fun t => query t.1 t.2.1 t.2.2) = some (query ws len cs)
    ∧ (base % 8 = 0 →
        ((loadView base hdr.length ((ofR9 ws len cs).map Field.kind) (encode hdr (ofR9 ws len cs))).bind toR9).map
          (fun t => query t.1 t.2.1 t.2.2) = some (query ws len cs)) := by
  have hwf : ∀ f ∈ ofR9 ws len cs, f.WF := by
    intro f hf
    simp only [ofR9, List.mem_cons, List.mem_nil_iff, or_false] at hf
    rcases hf with rfl | rfl | rfl
    · exact slice8_wf ws hw hn
    · show len < 256 ^ 8
      rw [pow256_8]; exact hl
    · refine ⟨by simpa [pow256_8] using hcn, ?_⟩
      intro row hm
      simp only [List.mem_map] at hm
      obtain ⟨c, hcm, rfl⟩ := hm
      have := hc c hcm
      exact ⟨by rw [pow256_8]; exact this.1, by rw [pow256_8]; exact this.2, trivial⟩
  refine ⟨?_, fun hb => ?_⟩
  · rw [decode_encode hdr _ hwf]; simp [toR9_ofR9]
  · have ha : ∀ f ∈ ofR9 ws len cs, f.alignedAt base := by
      intro f hf
      simp only [ofR9, List.mem_cons, List.mem_nil_iff, or_false] at hf
      rcases hf with rfl | rfl | rfl
      · exact hb
      · trivial
      · exact hb
    rw [view_encode base hdr _ hwf ha]; simp [toR9_ofR9]

open Sux.RS.Rank9 in
example (pos : Nat) :
    ((loadView 4096 63 ((ofR9 #[0xF0F0, 5] 70 #[⟨0, 77⟩, ⟨10, 0⟩]).map Field.kind)
        (encode exHdr (ofR9 #[0xF0F0, 5] 70 #[⟨0, 77⟩, ⟨10, 0⟩]))).bind toR9).map
      (fun t => rank t.1 t.2.1 t.2.2 pos)
      = some (rank #[0xF0F0, 5] 70 #[⟨0, 77⟩, ⟨10, 0⟩] pos) :=
  (rank9_answers (fun ws len cs => rank ws len cs pos) 4096 exHdr #[0xF0F0, 5] 70 #[⟨0, 77⟩, ⟨10, 0⟩]
    (by
      apply Sux.WordsOK_of_getD
      show ∀ i, i < 2 → (#[0xF0F0, 5] : Array Nat).getD i 0 < 2 ^ 64
      decide)
    (by decide) (by decide) (by decide) (by decide)).2 (by decide)

/-! # Structure theorems through the bridges of `Serde/Bridges.lean`

`reloadFull hdr fs` = `decodeFull` of `encode hdr fs`; `reloadView base hdr fs` = `loadView` (ε-copy +
typed reads) of `encode hdr fs` from a buffer at address `base`; `B.of` the field tuple (displayed by
the `…B_of` lemmas), `B.load` the parser back to the model state. -/

/-- for EVERY bridged structure: an ε-copy load from a buffer whose address is misaligned for one
of its sequence fields is rejected (`AlignmentError`), never answered differently -/
theorem bridged_misaligned_rejected {X : Type} (B : Bridge X) (base : Nat) (hdr : List Nat) (x : X)
    (hf : B.Fits x) (hm : ∃ f ∈ B.of x, ¬ f.alignedAt base) : reloadView base hdr (B.of x) = none :=
  B.rejected base hdr x hf hm

/-- a `BitFieldVec<u16>` at an odd address -/
example : reloadView 4097 exHdr ((bfvB 2).of ⟨#[0xABCD, 0xF234], 6, 5⟩) = none :=
  bridged_misaligned_rejected (bfvB 2) 4097 exHdr ⟨#[0xABCD, 0xF234], 6, 5⟩
    (bfvB_fits 2 _ (by decide) ⟨by decide, by decide, by decide, wordsOK_of_all _ _ (by decide)⟩ (by decide)
      (by decide))
    ⟨Field.slice 2 [0xABCD, 0xF234], by simp [bfvB_of], by decide⟩

/-! ### 1. `BitFieldVec<W>`, `W = 8 * wb` bits (`wb = 1, 2, 4, 8, 16`) — `Sux.BFV.St` -/

/-- every query of the `BitFieldVec` model (`get`, `getUnaligned`, iterators, `eq`, …) answers
identically after loading; `Inv` is the representation invariant of the model -/
theorem bfv_answers {α : Type} (wb : Nat) (query : Sux.BFV.St → α) (base : Nat) (hdr : List Nat)
    (s : Sux.BFV.St) (hwb : 0 < wb) (hwb16 : wb ≤ 16) (hinv : s.Inv (8 * wb))
    (hn : s.words.size < 2 ^ 64) (hl : s.len < 2 ^ 64) :
    ((reloadFull hdr ((bfvB wb).of s)).bind (bfvB wb).load).map query = some (query s)
    ∧ (base % wb = 0 →
        ((reloadView base hdr ((bfvB wb).of s)).bind (bfvB wb).load).map query = some (query s)) := by
  have h := (bfvB wb).answers query base hdr s (bfvB_fits wb s hwb16 hinv hn hl)
  exact ⟨h.1, fun hb => h.2 (bfvB_al wb base hwb hb)⟩

/-- five 6-bit values in two 16-bit words with stale bits above bit 30, a 63-byte header, a buffer at
an address that is even but not a multiple of 4 -/
example (i : Nat) :
    ((reloadView 4098 exHdr ((bfvB 2).of ⟨#[0xABCD, 0xF234], 6, 5⟩)).bind (bfvB 2).load).map
      (fun s => Sux.BFV.get 16 s i) = some (Sux.BFV.get 16 ⟨#[0xABCD, 0xF234], 6, 5⟩ i) :=
  (bfv_answers 2 (fun s => Sux.BFV.get 16 s i) 4098 exHdr ⟨#[0xABCD, 0xF234], 6, 5⟩ (by decide) (by decide)
    ⟨by decide, by decide, by decide, wordsOK_of_all _ _ (by decide)⟩ (by decide) (by decide)).2 (by decide)

example : (reloadFull exHdr ((bfvB 2).of ⟨#[0xABCD, 0xF234], 6, 5⟩)).bind (bfvB 2).load
    = some ⟨#[0xABCD, 0xF234], 6, 5⟩ := by decide

/-! ### 2. `RankSmall<N, W, BitVec>` — `Sux.BV.St` + `Sux.RS.RankSmall.Idx` -/

open Sux.RS.RankSmall in
/-- `rank`, `rank_zero`, `num_ones`, … of the `RankSmall` model (any function of the bit vector and
of `upper_counts`, `counts`, `num_ones` — not necessarily the ones the builder computes).
`absolute : u32` and `relative : [u32; N]` give the two bounds on the counters. -/
theorem rankSmall_answers {α : Type} (P : SmallParams) (query : Sux.BV.St → Idx → α)
    (base : Nat) (hdr : List Nat) (b : Sux.BV.St) (x : Idx)
    (hw : WordsOK 64 b.words) (hn : b.words.size < 2 ^ 64) (hl : b.len < 2 ^ 64)
    (hu : WordsOK 64 x.upper) (hun : x.upper.size < 2 ^ 64) (hcn : x.counts.size < 2 ^ 64)
    (hc : ∀ c ∈ x.counts.toList, c.absolute < 2 ^ 32 ∧ c.relative < 2 ^ (32 * P.numU32))
    (ho : x.numOnes < 2 ^ 64) :
    ((reloadFull hdr ((rankSmallB P).of (b, x))).bind (rankSmallB P).load).map (fun t => query t.1 t.2)
        = some (query b x)
    ∧ (base % 8 = 0 →
        ((reloadView base hdr ((rankSmallB P).of (b, x))).bind (rankSmallB P).load).map
          (fun t => query t.1 t.2) = some (query b x)) := by
  have h := (rankSmallB P).answers (fun t => query t.1 t.2) base hdr (b, x)
    ⟨bvB_fits b hw hn hl, rsmIdxB_fits P x hu hun hcn hc ho⟩
  exact ⟨h.1, fun hb => h.2 ⟨bvB_al base hb, rsmIdxB_al P base hb⟩⟩

open Sux.RS.RankSmall in
/-- for the index the MODEL BUILDER computes (`RankSmall::new`) the bounds on the block counters need
not be assumed: `absolute` is cast to `u32` and `set_rel` keeps `32 * NUM_U32S` bits -/
theorem rankSmall_built_answers {α : Type} (P : SmallParams) (query : Sux.BV.St → Idx → α)
    (base : Nat) (hdr : List Nat) (b : Sux.BV.St) (x : Idx) (hb : build P b.words b.len = .ok x)
    (hw : WordsOK 64 b.words) (hn : b.words.size < 2 ^ 64) (hl : b.len < 2 ^ 64)
    (hu : WordsOK 64 x.upper) (hun : x.upper.size < 2 ^ 64) (hcn : x.counts.size < 2 ^ 64)
    (ho : x.numOnes < 2 ^ 64) :
    ((reloadFull hdr ((rankSmallB P).of (b, x))).bind (rankSmallB P).load).map (fun t => query t.1 t.2)
        = some (query b x)
    ∧ (base % 8 = 0 →
        ((reloadView base hdr ((rankSmallB P).of (b, x))).bind (rankSmallB P).load).map
          (fun t => query t.1 t.2) = some (query b x)) :=
  rankSmall_answers P query base hdr b x hw hn hl hu hun hcn (build_counts P b.words b.len x hb) ho

open Sux.RS.RankSmall in
/-- `rank_small![1]` built by the model builder over 70 bits -/
example (pos : Nat) : ∃ x, build ⟨1, 9⟩ #[0xF0F0, 0x3F] 70 = .ok x ∧
    ((reloadFull exHdr ((rankSmallB ⟨1, 9⟩).of (⟨#[0xF0F0, 0x3F], 70⟩, x))).bind (rankSmallB ⟨1, 9⟩).load).map
      (fun t => rank ⟨1, 9⟩ t.1.words t.1.len t.2 pos) = some (rank ⟨1, 9⟩ #[0xF0F0, 0x3F] 70 x pos) :=
  ⟨_, (by decide : build ⟨1, 9⟩ #[0xF0F0, 0x3F] 70 = .ok ⟨#[0], #[⟨0, 3677198⟩], 14⟩),
    (rankSmall_built_answers ⟨1, 9⟩ (fun b x => rank ⟨1, 9⟩ b.words b.len x pos) 0 exHdr
      ⟨#[0xF0F0, 0x3F], 70⟩ _ (by decide) (wordsOK_of_all _ _ (by decide)) (by decide) (by decide)
      (wordsOK_of_all _ _ (by decide)) (by decide) (by decide) (by decide)).1⟩

open Sux.RS.RankSmall in
/-- `rank_small![4]` (`[u32; 3]`): 70 bits, one block whose 96-bit `relative` uses all three words -/
example (pos : Nat) :
    ((reloadFull exHdr ((rankSmallB ⟨3, 13⟩).of (⟨#[0xF0F0, 0x3F], 70⟩,
        ⟨#[0], #[⟨0, 0x123456789ABCDEF001122334⟩], 14⟩))).bind (rankSmallB ⟨3, 13⟩).load).map
      (fun t => rank ⟨3, 13⟩ t.1.words t.1.len t.2 pos)
      = some (rank ⟨3, 13⟩ #[0xF0F0, 0x3F] 70 ⟨#[0], #[⟨0, 0x123456789ABCDEF001122334⟩], 14⟩ pos) :=
  (rankSmall_answers ⟨3, 13⟩ (fun b x => rank ⟨3, 13⟩ b.words b.len x pos) 0 exHdr ⟨#[0xF0F0, 0x3F], 70⟩
    ⟨#[0], #[⟨0, 0x123456789ABCDEF001122334⟩], 14⟩
    (wordsOK_of_all _ _ (by decide)) (by decide) (by decide) (wordsOK_of_all _ _ (by decide)) (by decide)
    (by decide) (by decide) (by decide)).1

open Sux.RS.RankSmall in
example : (reloadView 8 exHdr ((rankSmallB ⟨3, 13⟩).of (⟨#[0xF0F0, 0x3F], 70⟩,
      ⟨#[0], #[⟨0, 0x123456789ABCDEF001122334⟩], 14⟩))).bind (rankSmallB ⟨3, 13⟩).load
    = some (⟨#[0xF0F0, 0x3F], 70⟩, ⟨#[0], #[⟨0, 0x123456789ABCDEF001122334⟩], 14⟩) := by decide

/-! ### 3. `EliasFano<H, BitFieldVec<usize>>` — `Sux.EF.St`, followed by the arrays of the selection
layers of `H` (`S`: nothing for the plain structure, `adaptConstB` for `EfSeq` / `EfDict`,
`adaptConstB.pair adaptConstB` for `EfSeqDict`: they follow the upper-bits vector in the file) -/

/-- every query of the Elias–Fano model (and of the selection layers over its upper bits) answers
identically after loading -/
theorem ef_answers {Z α : Type} (S : Bridge Z) (query : Sux.EF.St → Z → α) (base : Nat) (hdr : List Nat)
    (s : Sux.EF.St) (z : Z)
    (hn : s.n < 2 ^ 64) (hu : s.u < 2 ^ 64) (hl : s.l < 2 ^ 64)
    (hlow : s.low.Inv 64) (hlown : s.low.words.size < 2 ^ 64) (hlowl : s.low.len < 2 ^ 64)
    (hhw : WordsOK 64 s.high.words) (hhn : s.high.words.size < 2 ^ 64) (hhl : s.high.len < 2 ^ 64)
    (hz : S.Fits z) :
    ((reloadFull hdr ((efB.pair S).of (s, z))).bind (efB.pair S).load).map (fun t => query t.1 t.2)
        = some (query s z)
    ∧ (base % 8 = 0 → S.Al base →
        ((reloadView base hdr ((efB.pair S).of (s, z))).bind (efB.pair S).load).map
          (fun t => query t.1 t.2) = some (query s z)) := by
  have h := (efB.pair S).answers (fun t => query t.1 t.2) base hdr (s, z)
    ⟨efB_fits s hn hu hl hlow hlown hlowl hhw hhn hhl, hz⟩
  exact ⟨h.1, fun hb hs => h.2 ⟨efB_al base hb, hs⟩⟩

/-- C03/C04 after a round trip: the structure built from `xs` (`Input xs u`: non-decreasing, `≤ u <
2^64`), serialized and loaded back — full copy, or ε-copy from an 8-aligned buffer — is a state `s'`
on which `len`, `get`, `iter` return `xs` (C03), `contains` decides membership and `succ` is `none`
exactly beyond the last element (C04), and every other query answers as on the original, to which
all theorems of C03/C04 apply.  The two size hypotheses bound the ALLOCATED words (the theorems of
C03 bound the lengths only). -/
theorem ef_built_answers {xs : List Nat} {u : Nat} {s : Sux.EF.St} (h : Sux.EF.Input xs u)
    (hs : Sux.EF.build xs.length u xs = .ok s)
    (hlown : s.low.words.size < 2 ^ 64) (hhn : s.high.words.size < 2 ^ 64)
    (base : Nat) (hdr : List Nat) :
    ∃ s', (reloadFull hdr (efB.of s)).bind efB.load = some s'
      ∧ (base % 8 = 0 → (reloadView base hdr (efB.of s)).bind efB.load = some s')
      ∧ Sux.EF.len s' = xs.length
      ∧ (∀ i (hi : i < xs.length), Sux.EF.get s' i = .ok xs[i])
      ∧ Sux.EF.iterAll s' = .ok (xs, (List.range (xs.length + 1)).map (fun j => xs.length - j))
      ∧ (∀ q, Sux.EF.contains s' q = .ok (decide (q ∈ xs)))
      ∧ (∀ q, Sux.EF.succ s' q = .ok none ↔ ∀ y, y ∈ xs → y < q)
      ∧ (∀ {α : Type} (query : Sux.EF.St → α), query s' = query s) := by
  obtain ⟨hneq, hueq, _, hl63, hhlen, hhlt, _, _, _, _, hlowlen, _, _⟩ := Sux.EF.ef_repr h hs
  obtain ⟨R, _⟩ := Sux.EF.rep_of_build h hs
  have hlen : xs.length < 2 ^ 64 := by have := h.len_lt; omega
  have hfits : efB.Fits s :=
    efB_fits s (by rw [hneq]; exact hlen) (by rw [hueq]; exact h.u_lt) (by omega) R.low_inv hlown
      (by rw [hlowlen]; exact hlen) R.high_inv.2 hhn hhlt
  have ha := efB.reload base hdr s hfits
  exact ⟨s, ha.1, fun hb => ha.2 (efB_al base hb), Sux.EF.ef_len h hs, Sux.EF.ef_get h hs,
    Sux.EF.ef_iter h hs, Sux.EF.ef_contains h hs, Sux.EF.ef_succ_none_iff h hs, fun _ => rfl⟩

/-- `[1, 5, 5, 9]` with `u = 12` (`l = 1`), as `EfSeq`: one inventory word and an empty spill follow -/
example (i : Nat) :
    ((reloadFull exHdr ((efB.pair adaptConstB).of (⟨4, 12, 1, ⟨#[0b1111], 1, 4⟩, ⟨#[0x99], 11⟩⟩,
        ⟨#[0, 11], #[]⟩))).bind (efB.pair adaptConstB).load).map (fun t => Sux.EF.get t.1 i)
      = some (Sux.EF.get ⟨4, 12, 1, ⟨#[0b1111], 1, 4⟩, ⟨#[0x99], 11⟩⟩ i) :=
  (ef_answers adaptConstB (fun s _ => Sux.EF.get s i) 0 exHdr
    ⟨4, 12, 1, ⟨#[0b1111], 1, 4⟩, ⟨#[0x99], 11⟩⟩ ⟨#[0, 11], #[]⟩
    (by decide) (by decide) (by decide)
    ⟨by decide, by decide, by decide, wordsOK_of_all _ _ (by decide)⟩ (by decide) (by decide)
    (wordsOK_of_all _ _ (by decide)) (by decide) (by decide)
    (adaptConstB_fits _ (wordsOK_of_all _ _ (by decide)) (by decide) (wordsOK_of_all _ _ (by decide))
      (by decide))).1

example : (reloadView 16 exHdr (efB.of ⟨4, 12, 1, ⟨#[0b1111], 1, 4⟩, ⟨#[0x99], 11⟩⟩)).bind efB.load
    = some ⟨4, 12, 1, ⟨#[0b1111], 1, 4⟩, ⟨#[0x99], 11⟩⟩ := by decide

/-- the hypotheses of `ef_built_answers` are satisfiable: the model builder on `[1, 5, 5, 9]`, `u = 12`
gives the state of the two examples above -/
example : Sux.EF.Input [1, 5, 5, 9] 12
    ∧ Sux.EF.build 4 12 [1, 5, 5, 9] = .ok ⟨4, 12, 1, ⟨#[0b1111], 1, 4⟩, ⟨#[0x99], 11⟩⟩ :=
  ⟨⟨by decide, by decide, by decide, by decide⟩, by decide⟩

/-! ### 4. the selection layers: `SelectAdapt` / `SelectZeroAdapt` (`adaptRunB`), their `Const` variants
(`adaptConstB`), `Select9` (`s9B`), `SelectSmall` / `SelectZeroSmall` (`smallSelB`), each over ANY wrapped
structure with a bridge `I` (the wrapped structure is the first field: its fields come first) -/

open Sux.RS.Adapt in
/-- `select` / `select_zero` of the adaptive layer (any function of the wrapped structure, the
parameters and the two arrays); `L ≤ 64` is what makes `ones_per_inventory - 1` a `usize` -/
theorem adapt_answers {X α : Type} (I : Bridge X) (query : X → Params → Idx → α)
    (base : Nat) (hdr : List Nat) (x : X) (P : Params) (idx : Idx)
    (hx : I.Fits x) (hL : P.L ≤ 64) (hM : P.M < 2 ^ 64)
    (hi : WordsOK 64 idx.inv) (hin : idx.inv.size < 2 ^ 64)
    (hs : WordsOK 64 idx.spill) (hsn : idx.spill.size < 2 ^ 64) :
    ((reloadFull hdr ((I.pair (adaptRunB P.zero)).of (x, P, idx))).bind (I.pair (adaptRunB P.zero)).load).map
        (fun t => query t.1 t.2.1 t.2.2) = some (query x P idx)
    ∧ (I.Al base → base % 8 = 0 →
        ((reloadView base hdr ((I.pair (adaptRunB P.zero)).of (x, P, idx))).bind
          (I.pair (adaptRunB P.zero)).load).map (fun t => query t.1 t.2.1 t.2.2) = some (query x P idx)) := by
  have h := (I.pair (adaptRunB P.zero)).answers (fun t => query t.1 t.2.1 t.2.2) base hdr (x, P, idx)
    ⟨hx, adaptRunB_fits P idx hL hM hi hin hs hsn⟩
  exact ⟨h.1, fun ha hb => h.2 ⟨ha, adaptRunB_al P.zero base hb⟩⟩

open Sux.RS.Adapt in
/-- the `Const` variants: the parameters are const generics, only the two arrays are stored -/
theorem adaptConst_answers {X α : Type} (I : Bridge X) (query : X → Idx → α)
    (base : Nat) (hdr : List Nat) (x : X) (idx : Idx) (hx : I.Fits x)
    (hi : WordsOK 64 idx.inv) (hin : idx.inv.size < 2 ^ 64)
    (hs : WordsOK 64 idx.spill) (hsn : idx.spill.size < 2 ^ 64) :
    ((reloadFull hdr ((I.pair adaptConstB).of (x, idx))).bind (I.pair adaptConstB).load).map
        (fun t => query t.1 t.2) = some (query x idx)
    ∧ (I.Al base → base % 8 = 0 →
        ((reloadView base hdr ((I.pair adaptConstB).of (x, idx))).bind (I.pair adaptConstB).load).map
          (fun t => query t.1 t.2) = some (query x idx)) := by
  have h := (I.pair adaptConstB).answers (fun t => query t.1 t.2) base hdr (x, idx)
    ⟨hx, adaptConstB_fits idx hi hin hs hsn⟩
  exact ⟨h.1, fun ha hb => h.2 ⟨ha, adaptConstB_al base hb⟩⟩

open Sux.RS.Adapt in
/-- `SelectAdapt<AddNumBits<BitVec>>` (`bits`, `number_of_ones`, then the layer) with `L = 3`, `M = 1` -/
example (r : Nat) :
    ((reloadFull exHdr (((bvB.pair (Bridge.scalar 8)).pair (adaptRunB false)).of
        ((⟨#[0xF0F0], 16⟩, 8), ⟨false, 3, 1⟩, ⟨#[4, 0, 16, 0], #[]⟩))).bind
      ((bvB.pair (Bridge.scalar 8)).pair (adaptRunB false)).load).map
      (fun t => select t.2.1 t.1.1.words t.2.2 t.1.2 r)
      = some (select ⟨false, 3, 1⟩ #[0xF0F0] ⟨#[4, 0, 16, 0], #[]⟩ 8 r) :=
  (adapt_answers (bvB.pair (Bridge.scalar 8)) (fun x P idx => select P x.1.words idx x.2 r) 0 exHdr
    (⟨#[0xF0F0], 16⟩, 8) ⟨false, 3, 1⟩ ⟨#[4, 0, 16, 0], #[]⟩
    ⟨bvB_fits _ (wordsOK_of_all _ _ (by decide)) (by decide) (by decide), (by decide : (8 : Nat) < 256 ^ 8)⟩
    (by decide) (by decide) (wordsOK_of_all _ _ (by decide)) (by decide)
    (wordsOK_of_all _ _ (by decide)) (by decide)).1

set_option maxRecDepth 8192 in
open Sux.RS.Adapt in
example : ((reloadView 8 exHdr ((bvB.pair (adaptRunB true)).of
      (⟨#[0xF0F0], 16⟩, ⟨true, 3, 1⟩, ⟨#[4, 0, 16, 0], #[7]⟩))).bind (bvB.pair (adaptRunB true)).load).map
      (fun t => (t.1, t.2.1, t.2.2.inv, t.2.2.spill))
    = some (⟨#[0xF0F0], 16⟩, ⟨true, 3, 1⟩, #[4, 0, 16, 0], #[7]) := by decide

open Sux.RS.Adapt in
example : ((reloadFull exHdr ((bvB.pair adaptConstB).of (⟨#[0xF0F0], 16⟩, ⟨#[4, 0], #[7]⟩))).bind
      (bvB.pair adaptConstB).load).map (fun t => (t.1, t.2.inv, t.2.spill))
    = some (⟨#[0xF0F0], 16⟩, #[4, 0], #[7]) := by decide

open Sux.RS.Select9 in
/-- `select` of the `Select9` model over ANY wrapped ranking structure (`rank9B` for
`Select9<Rank9<BitVec>>`) -/
theorem select9_answers {X α : Type} (I : Bridge X) (query : X → S9 → α)
    (base : Nat) (hdr : List Nat) (x : X) (s : S9) (hx : I.Fits x)
    (hi : WordsOK 64 s.inv) (hin : s.inv.size < 2 ^ 64)
    (hs : WordsOK 64 s.sub) (hsn : s.sub.size < 2 ^ 64) (hisz : s.isz < 2 ^ 64) (hssz : s.ssz < 2 ^ 64) :
    ((reloadFull hdr ((I.pair s9B).of (x, s))).bind (I.pair s9B).load).map (fun t => query t.1 t.2)
        = some (query x s)
    ∧ (I.Al base → base % 8 = 0 →
        ((reloadView base hdr ((I.pair s9B).of (x, s))).bind (I.pair s9B).load).map
          (fun t => query t.1 t.2) = some (query x s)) := by
  have h := (I.pair s9B).answers (fun t => query t.1 t.2) base hdr (x, s)
    ⟨hx, s9B_fits s hi hin hs hsn hisz hssz⟩
  exact ⟨h.1, fun ha hb => h.2 ⟨ha, s9B_al base hb⟩⟩

open Sux.RS.Select9 Sux.RS.Rank9 in
/-- `Select9<Rank9<BitVec>>`: 70 bits, two counter blocks, then inventory and subinventory -/
example :
    ((reloadView 4096 exHdr ((rank9B.pair s9B).of ((⟨#[0xF0F0, 5], 70⟩, #[⟨0, 77⟩, ⟨10, 0⟩]),
        ⟨#[4, 70], #[0x0001000200030004], 2, 1⟩))).bind (rank9B.pair s9B).load).map
      (fun t => ((t.1.1, t.1.2), t.2.inv, t.2.sub, t.2.isz, t.2.ssz))
      = some ((⟨#[0xF0F0, 5], 70⟩, #[⟨0, 77⟩, ⟨10, 0⟩]), #[4, 70], #[0x0001000200030004], 2, 1) :=
  (select9_answers rank9B (fun x s => ((x.1, x.2), s.inv, s.sub, s.isz, s.ssz)) 4096 exHdr
    (⟨#[0xF0F0, 5], 70⟩, #[⟨0, 77⟩, ⟨10, 0⟩]) ⟨#[4, 70], #[0x0001000200030004], 2, 1⟩
    ⟨bvB_fits _ (wordsOK_of_all _ _ (by decide)) (by decide) (by decide),
      r9cB_fits _ (by decide) (by decide)⟩
    (wordsOK_of_all _ _ (by decide)) (by decide) (wordsOK_of_all _ _ (by decide)) (by decide)
    (by decide) (by decide)).2 ⟨bvB_al _ (by decide), r9cB_al _ (by decide)⟩ (by decide)

set_option maxRecDepth 8192 in
open Sux.RS.Select9 Sux.RS.Rank9 in
example : ((reloadFull exHdr ((rank9B.pair s9B).of ((⟨#[0xF0F0, 5], 70⟩, #[⟨0, 77⟩, ⟨10, 0⟩]),
        ⟨#[4, 70], #[0x0001000200030004], 2, 1⟩))).bind (rank9B.pair s9B).load).map
      (fun t => ((t.1.1, t.1.2), t.2.inv, t.2.sub, t.2.isz, t.2.ssz))
    = some ((⟨#[0xF0F0, 5], 70⟩, #[⟨0, 77⟩, ⟨10, 0⟩]), #[4, 70], #[0x0001000200030004], 2, 1) := by decide

open Sux.RS.Small in
/-- `select` / `select_zero` of the `SelectSmall` model over ANY wrapped counting structure
(`rankSmallB P`, or a further `SelectSmall` layer); `inventory` is a vector of `u32` -/
theorem small_answers {X α : Type} (I : Bridge X) (query : X → Sel → α)
    (base : Nat) (hdr : List Nat) (x : X) (s : Sel) (hx : I.Fits x)
    (hi : WordsOK 32 s.inv) (hin : s.inv.size < 2 ^ 64)
    (hb : WordsOK 64 s.begin) (hbn : s.begin.size < 2 ^ 64) (hl : s.l < 2 ^ 64) :
    ((reloadFull hdr ((I.pair smallSelB).of (x, s))).bind (I.pair smallSelB).load).map
        (fun t => query t.1 t.2) = some (query x s)
    ∧ (I.Al base → base % 8 = 0 →
        ((reloadView base hdr ((I.pair smallSelB).of (x, s))).bind (I.pair smallSelB).load).map
          (fun t => query t.1 t.2) = some (query x s)) := by
  have h := (I.pair smallSelB).answers (fun t => query t.1 t.2) base hdr (x, s)
    ⟨hx, smallSelB_fits s hi hin hb hbn hl⟩
  exact ⟨h.1, fun ha hb' => h.2 ⟨ha, smallSelB_al base hb'⟩⟩

open Sux.RS.Small Sux.RS.RankSmall in
/-- `SelectSmall<1, 9, RankSmall<1, 9, BitVec>>` -/
example :
    ((reloadFull exHdr (((rankSmallB ⟨1, 9⟩).pair smallSelB).of ((⟨#[0xF0F0, 0x3F], 70⟩,
        ⟨#[0], #[⟨0, 0x00800000⟩], 14⟩), ⟨#[4, 0xFFFFFFFF], #[0, 2], 3⟩))).bind
      ((rankSmallB ⟨1, 9⟩).pair smallSelB).load).map (fun t => (t.1, t.2.inv, t.2.begin, t.2.l))
      = some ((⟨#[0xF0F0, 0x3F], 70⟩, ⟨#[0], #[⟨0, 0x00800000⟩], 14⟩), #[4, 0xFFFFFFFF], #[0, 2], 3) :=
  (small_answers (rankSmallB ⟨1, 9⟩) (fun x s => (x, s.inv, s.begin, s.l)) 0 exHdr
    (⟨#[0xF0F0, 0x3F], 70⟩, ⟨#[0], #[⟨0, 0x00800000⟩], 14⟩) ⟨#[4, 0xFFFFFFFF], #[0, 2], 3⟩
    ⟨bvB_fits _ (wordsOK_of_all _ _ (by decide)) (by decide) (by decide),
      rsmIdxB_fits _ _ (wordsOK_of_all _ _ (by decide)) (by decide) (by decide) (by decide) (by decide)⟩
    (wordsOK_of_all _ _ (by decide)) (by decide) (wordsOK_of_all _ _ (by decide)) (by decide)
    (by decide)).1

set_option maxRecDepth 8192 in
open Sux.RS.Small Sux.RS.RankSmall in
example : ((reloadView 8 exHdr (((rankSmallB ⟨1, 9⟩).pair smallSelB).of ((⟨#[0xF0F0, 0x3F], 70⟩,
        ⟨#[0], #[⟨0, 0x00800000⟩], 14⟩), ⟨#[4, 0xFFFFFFFF], #[0, 2], 3⟩))).bind
      ((rankSmallB ⟨1, 9⟩).pair smallSelB).load).map (fun t => (t.1, t.2.inv, t.2.begin, t.2.l))
    = some ((⟨#[0xF0F0, 0x3F], 70⟩, ⟨#[0], #[⟨0, 0x00800000⟩], 14⟩), #[4, 0xFFFFFFFF], #[0, 2], 3) := by
  decide

/-! ### 5. `RearCodedList` — `Sux.RCL.RCL` -/

/-- `get`, `iter`, `index_of`, … of the rear-coded list model answer identically after loading
(`data` is a byte vector: alignment 1; `pointers` needs 8) -/
theorem rcl_answers {α : Type} (query : Sux.RCL.RCL → α) (base : Nat) (hdr : List Nat) (r : Sux.RCL.RCL)
    (hk : r.k < 2 ^ 64) (hl : r.len < 2 ^ 64)
    (hd : ∀ b ∈ r.data, b < 256) (hdn : r.data.length < 2 ^ 64)
    (hp : WordsOK 64 r.pointers) (hpn : r.pointers.size < 2 ^ 64) :
    ((reloadFull hdr (rclB.of r)).bind rclB.load).map query = some (query r)
    ∧ (base % 8 = 0 → ((reloadView base hdr (rclB.of r)).bind rclB.load).map query = some (query r)) := by
  have h := rclB.answers query base hdr r (rclB_fits r hk hl hd hdn hp hpn)
  exact ⟨h.1, fun hb => h.2 (rclB_al base hb)⟩

/-- `["ab", "abc"]` with `k = 2`: one block -/
example (i : Nat) :
    ((reloadFull exHdr (rclB.of ⟨2, 2, true, [97, 98, 0, 0, 99, 0], #[0]⟩)).bind rclB.load).map
      (fun r => Sux.RCL.get r i) = some (Sux.RCL.get ⟨2, 2, true, [97, 98, 0, 0, 99, 0], #[0]⟩ i) :=
  (rcl_answers (fun r => Sux.RCL.get r i) 0 exHdr ⟨2, 2, true, [97, 98, 0, 0, 99, 0], #[0]⟩
    (by decide) (by decide) (by decide) (by decide) (wordsOK_of_all _ _ (by decide)) (by decide)).1

example : (reloadView 8 exHdr (rclB.of ⟨2, 2, true, [97, 98, 0, 0, 99, 0], #[0]⟩)).bind rclB.load
    = some ⟨2, 2, true, [97, 98, 0, 0, 99, 0], #[0]⟩ := by decide

/-! ### 6. `VFunc` / `VFilter` — `Sux.Func.Params`, seed, number of keys, the backend
(`DB = sliceB wb` for `Box<[W]>`: the cells of the model; `DB = bfvB wb` for `BitFieldVec<W>`: the
packed cells).  `E = seShardsB logic sw` for `FuseLge3Shards` / `FuseLge3FullSigs`, `seNoShardsB sw`
for `FuseLge3NoShards`. -/

/-- `get_by_sig`, `get`, `len` of the function model (any function of the parameters, the seed, the
number of keys and the cells) -/
theorem vfunc_answers {P D α : Type} (E : Bridge P) (DB : Bridge D) (query : P → Nat → Nat → D → α)
    (base : Nat) (hdr : List Nat) (p : P) (seed n : Nat) (d : D)
    (hp : E.Fits p) (hseed : seed < 2 ^ 64) (hn : n < 2 ^ 64) (hd : DB.Fits d) :
    ((reloadFull hdr ((vfuncB E DB).of (((p, seed), n), d))).bind (vfuncB E DB).load).map
        (fun t => query t.1.1.1 t.1.1.2 t.1.2 t.2) = some (query p seed n d)
    ∧ (E.Al base → DB.Al base →
        ((reloadView base hdr ((vfuncB E DB).of (((p, seed), n), d))).bind (vfuncB E DB).load).map
          (fun t => query t.1.1.1 t.1.1.2 t.1.2 t.2) = some (query p seed n d)) := by
  have h := (vfuncB E DB).answers (fun t => query t.1.1.1 t.1.1.2 t.1.2 t.2) base hdr (((p, seed), n), d)
    (vfuncB_fits E DB p seed n d hp hseed hn hd)
  exact ⟨h.1, fun he hd' => h.2 ⟨⟨⟨he, trivial⟩, trivial⟩, hd'⟩⟩

/-- `contains_by_sig`, `contains`, … of the filter model (function state, `filter_mask : W`,
`hash_bits : u32`) -/
theorem vfilter_answers {P D α : Type} (E : Bridge P) (DB : Bridge D) (wb : Nat)
    (query : P → Nat → Nat → D → Nat → Nat → α)
    (base : Nat) (hdr : List Nat) (p : P) (seed n : Nat) (d : D) (mask bits : Nat)
    (hp : E.Fits p) (hseed : seed < 2 ^ 64) (hn : n < 2 ^ 64) (hd : DB.Fits d)
    (hm : mask < 2 ^ (8 * wb)) (hb : bits < 2 ^ 32) :
    ((reloadFull hdr ((vfilterB (vfuncB E DB) wb).of (((((p, seed), n), d), mask), bits))).bind
        (vfilterB (vfuncB E DB) wb).load).map
        (fun t => query t.1.1.1.1.1 t.1.1.1.1.2 t.1.1.1.2 t.1.1.2 t.1.2 t.2) = some (query p seed n d mask bits)
    ∧ (E.Al base → DB.Al base →
        ((reloadView base hdr ((vfilterB (vfuncB E DB) wb).of (((((p, seed), n), d), mask), bits))).bind
          (vfilterB (vfuncB E DB) wb).load).map
          (fun t => query t.1.1.1.1.1 t.1.1.1.1.2 t.1.1.1.2 t.1.1.2 t.1.2 t.2)
            = some (query p seed n d mask bits)) := by
  have h := (vfilterB (vfuncB E DB) wb).answers
    (fun t => query t.1.1.1.1.1 t.1.1.1.1.2 t.1.1.1.2 t.1.1.2 t.1.2 t.2) base hdr
    (((((p, seed), n), d), mask), bits)
    (vfilterB_fits _ wb _ mask bits (vfuncB_fits E DB p seed n d hp hseed hn hd) hm hb)
  exact ⟨h.1, fun he hd' => h.2 ⟨⟨⟨⟨⟨he, trivial⟩, trivial⟩, hd'⟩, trivial⟩, trivial⟩⟩

open Sux.Func in
/-- a `FuseLge3Shards` function over `Box<[usize]>` with six cells: `get_by_sig` -/
example (sig : Sig) :
    ((reloadFull exHdr ((vfuncB (seShardsB .shards 2) (sliceB 8)).of
        ((({ logic := .shards, sw := 2, shift := 63, s := 1, l := 1 }, 0xDEADBEEF), 3),
          #[1, 2, 3, 0xFFFFFFFFFFFFFFFF, 5, 6]))).bind (vfuncB (seShardsB .shards 2) (sliceB 8)).load).map
      (fun t => getBySig t.2 t.1.1.1 sig)
      = some (getBySig #[1, 2, 3, 0xFFFFFFFFFFFFFFFF, 5, 6]
          { logic := .shards, sw := 2, shift := 63, s := 1, l := 1 } sig) :=
  (vfunc_answers (seShardsB .shards 2) (sliceB 8) (fun p _ _ d => getBySig d p sig) 0 exHdr
    { logic := .shards, sw := 2, shift := 63, s := 1, l := 1 } 0xDEADBEEF 3
    #[1, 2, 3, 0xFFFFFFFFFFFFFFFF, 5, 6]
    (seShardsB_fits { logic := .shards, sw := 2, shift := 63, s := 1, l := 1 } (by decide) (by decide)
      (by decide))
    (by decide) (by decide) (sliceB_fits 8 _ (by decide) (wordsOK_of_all _ _ (by decide)))).1

open Sux.Func in
/-- a `FuseLge3NoShards` filter over `BitFieldVec<u16>` (9 hash bits) -/
example :
    ((reloadView 4098 exHdr ((vfilterB (vfuncB (seNoShardsB 1) (bfvB 2)) 2).of
        ((((({ logic := .noshards, sw := 1, shift := 63, s := 1, l := 1 }, 7), 3),
          ⟨#[0x1234, 0xABCD, 0x0F0F, 0x00FF], 9, 6⟩), 0x1FF), 9))).bind
      (vfilterB (vfuncB (seNoShardsB 1) (bfvB 2)) 2).load).map
      (fun t => (t.1.1.1.1.1.s, t.1.1.1.1.2, t.1.1.2, t.1.2, t.2))
      = some (1, 7, ⟨#[0x1234, 0xABCD, 0x0F0F, 0x00FF], 9, 6⟩, 0x1FF, 9) :=
  (vfilter_answers (seNoShardsB 1) (bfvB 2) 2 (fun p seed _ d mask bits => (p.s, seed, d, mask, bits))
    4098 exHdr { logic := .noshards, sw := 1, shift := 63, s := 1, l := 1 } 7 3
    ⟨#[0x1234, 0xABCD, 0x0F0F, 0x00FF], 9, 6⟩ 0x1FF 9
    (seNoShardsB_fits { logic := .noshards, sw := 1, shift := 63, s := 1, l := 1 } rfl rfl (by decide)
      (by decide))
    (by decide) (by decide)
    (bfvB_fits 2 _ (by decide) ⟨by decide, by decide, by decide, wordsOK_of_all _ _ (by decide)⟩ (by decide)
      (by decide))
    (by decide) (by decide)).2 ⟨trivial, trivial⟩ (bfvB_al 2 _ (by decide) (by decide))

open Sux.Func in
example : ((reloadFull exHdr ((vfilterB (vfuncB (seNoShardsB 1) (bfvB 2)) 2).of
        ((((({ logic := .noshards, sw := 1, shift := 63, s := 1, l := 1 }, 7), 3),
          ⟨#[0x1234, 0xABCD, 0x0F0F, 0x00FF], 9, 6⟩), 0x1FF), 9))).bind
      (vfilterB (vfuncB (seNoShardsB 1) (bfvB 2)) 2).load).map
      (fun t => ((t.1.1.1.1.1.s, t.1.1.1.1.1.l, t.1.1.1.1.2, t.1.1.1.2), t.1.1.2, t.1.2, t.2))
    = some ((1, 1, 7, 3), ⟨#[0x1234, 0xABCD, 0x0F0F, 0x00FF], 9, 6⟩, 0x1FF, 9) := by decide

end Sux.Serde
