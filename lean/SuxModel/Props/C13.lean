import SuxModel.Atomic.LemmasCompat
import SuxModel.Atomic.LemmasLin
import SuxModel.Atomic.LemmasEF
import SuxModel.Atomic.LemmasProgress
import SuxModel.Atomic.LemmasSafe
import SuxModel.Atomic.LemmasTerm
import SuxModel.BitVec.Model
/-!
# C13 — concurrent writers to distinct elements never interfere, in any interleaving

Machine: `SuxModel/Atomic/Machine.lean` (micro-steps = the atomic operations of
`AtomicBitFieldVec::{get_atomic, set_atomic, set_atomic_unchecked}`, `AtomicBitVec::{get, set,
swap}`, `EliasFanoConcurrentBuilder::set`); vocabulary: `SuxModel/Atomic/Spec.lean`.

All theorems quantify over: the word size `W > 0`, the initial memory (any contents, also beyond
`len`), any number of threads with any programs of well-formed calls, any schedule, and any
`choice` of (possibly stale) values returned to plain loads and to failing compare-exchanges.
-/
namespace Sux.Atomic
open Sux.BFV

/-! ## final memory -/

/-- Writers that agree on every bit they share (`Compat`: disjoint elements, or equal bits):
when all threads have finished, every written bit holds its writer's bit and every other bit of
the memory is as it was. -/
theorem compat_writers_final (W : Nat) (hW : 0 < W) (ws0 : Array Nat) (hok : WordsOK W ws0)
    (progs : List (List Op)) (hwf : ProgsWF W ws0.size progs) (hc : Compat W progs)
    (sched : List (Nat × Nat)) (hfin : (run W (Cfg.init ws0 progs) sched).AllDone) :
    let fin := (run W (Cfg.init ws0 progs) sched).mem.words
    fin.size = ws0.size ∧ WordsOK W fin ∧
    (∀ p ∈ progs, ∀ o ∈ p, ∀ k, o.covers W k → bitAt W fin k = o.vbit W k) ∧
    (∀ k, Untouched W progs k → bitAt W fin k = bitAt W ws0 k) := by
  exact compat_writers_final_aux W hW ws0 hok progs hwf hc sched hfin

/-- **C13, bit-field and bit writers**: any number of threads whose calls write pairwise disjoint
elements (same-word fields, adjacent words, fields straddling two words, bits), any schedule in
which all threads finish, any stale-load choices: every written element holds its writer's
value, every other bit of memory (incl. beyond `len`) is unchanged. -/
theorem distinct_writers_final (W : Nat) (hW : 0 < W) (ws0 : Array Nat) (hok : WordsOK W ws0)
    (progs : List (List Op)) (hwf : ProgsWF W ws0.size progs) (hdis : DisjointWrites W progs)
    (sched : List (Nat × Nat)) (hfin : (run W (Cfg.init ws0 progs) sched).AllDone) :
    let fin := (run W (Cfg.init ws0 progs) sched).mem.words
    fin.size = ws0.size ∧ WordsOK W fin ∧
    (∀ p ∈ progs, ∀ o ∈ p, ∀ k, o.covers W k → bitAt W fin k = o.vbit W k) ∧
    (∀ p ∈ progs, ∀ chk d i v, Op.setField chk d i v ∈ p →
      fieldAt W fin (d.base * W + i * d.bw) d.bw = v) ∧
    (∀ k, Untouched W progs k → bitAt W fin k = bitAt W ws0 k) ∧
    (∀ q n, (∀ k, q ≤ k → k < q + n → Untouched W progs k) →
      fieldAt W fin q n = fieldAt W ws0 q n) := by
  obtain ⟨h1, h2, h3, h4⟩ :=
    compat_writers_final W hW ws0 hok progs hwf (compat_of_disjoint hdis) sched hfin
  refine ⟨h1, h2, h3, ?_, h4, ?_⟩
  · intro p hp chk d i v ho
    exact fieldAt_of_bits _ chk d i v (hwf p hp _ ho).2.1 (h3 p hp _ ho)
  · intro q n hq
    exact fieldAt_congr (fun k hk1 hk2 => h4 k (hq k hk1 hk2))

/-! ### non-vacuity: three writers on one 8-bit-word vector of 5-bit elements
(element 0 in word 0, element 1 straddling words 0–1, element 2 in word 1), dirty memory, a
schedule with stale loads and failing compare-exchanges -/

def exD : VecD := { base := 0, nw := 3, bw := 5, len := 4 }
def exProgs : List (List Op) :=
  [[.setField true exD 0 21], [.setField false exD 1 10], [.setField true exD 2 3]]
def exWords : Array Nat := #[255, 0, 170]
def exSched : List (Nat × Nat) :=
  [(0, 0), (1, 0), (2, 0), (1, 0), (0, 0), (0, 0), (1, 3), (2, 0), (2, 1), (2, 0), (1, 0), (1, 0), (1, 0)]

theorem exWF : ProgsWF 8 exWords.size exProgs := by
  intro p hp o ho
  simp only [exProgs, List.mem_cons, List.mem_nil_iff, or_false] at hp
  rcases hp with rfl | rfl | rfl <;>
    (simp only [List.mem_cons, List.mem_nil_iff, or_false] at ho; subst ho; decide)

theorem exDisjoint : DisjointWrites 8 exProgs := by
  show List.Pairwise _
    [Op.setField true exD 0 21, Op.setField false exD 1 10, Op.setField true exD 2 3]
  refine List.Pairwise.cons ?_ (List.Pairwise.cons ?_ (List.Pairwise.cons ?_ List.Pairwise.nil))
  · intro o ho
    simp only [List.mem_cons, List.mem_nil_iff, or_false] at ho
    rcases ho with rfl | rfl <;> intro k <;>
      exact setField_disjoint_of_ne _ _ _ _ _ _ _ (by decide) k
  · intro o ho
    simp only [List.mem_cons, List.mem_nil_iff, or_false] at ho
    subst ho
    intro k
    exact setField_disjoint_of_ne _ _ _ _ _ _ _ (by decide) k
  · intro o ho
    cases ho

theorem exDone : (run 8 (Cfg.init exWords exProgs) exSched).AllDone := by
  unfold Cfg.AllDone
  decide +kernel

theorem exOK : WordsOK 8 exWords := by
  intro i hi
  have h3 : i < 3 := hi
  match i, h3 with
  | 0, _ => show (255 : Nat) < 2 ^ 8; decide
  | 1, _ => show (0 : Nat) < 2 ^ 8; decide
  | 2, _ => show (170 : Nat) < 2 ^ 8; decide

example :
    let fin := (run 8 (Cfg.init exWords exProgs) exSched).mem.words
    fieldAt 8 fin 0 5 = 21 ∧ fieldAt 8 fin 5 5 = 10 ∧ fieldAt 8 fin 10 5 = 3 ∧
    fieldAt 8 fin 15 9 = fieldAt 8 exWords 15 9 := by
  intro fin
  obtain ⟨_, _, _, h4, _, h6⟩ := distinct_writers_final 8 (by decide) exWords exOK exProgs exWF
    exDisjoint exSched exDone
  refine ⟨h4 [.setField true exD 0 21] (by simp [exProgs]) true exD 0 21 (by simp),
    h4 [.setField false exD 1 10] (by simp [exProgs]) false exD 1 10 (by simp),
    h4 [.setField true exD 2 3] (by simp [exProgs]) true exD 2 3 (by simp), h6 15 9 ?_⟩
  intro k hk1 hk2 p hp o ho
  simp only [exProgs, List.mem_cons, List.mem_nil_iff, or_false] at hp
  rcases hp with rfl | rfl | rfl <;>
    (simp only [List.mem_cons, List.mem_nil_iff, or_false] at ho; subst ho
     rw [covers_setField]; simp only [exD]; omega)

/-! ## `AtomicBitVec` -/

/-- **C13, `AtomicBitVec::set` / `swap` writers of distinct bits** (corollary of
`distinct_writers_final`): every written bit holds its writer's value, all other bits are
unchanged. -/
theorem bit_writers_final (W : Nat) (hW : 0 < W) (ws0 : Array Nat) (hok : WordsOK W ws0)
    (progs : List (List Op)) (hwf : ProgsWF W ws0.size progs) (hdis : DisjointWrites W progs)
    (sched : List (Nat × Nat)) (hfin : (run W (Cfg.init ws0 progs) sched).AllDone) :
    let fin := (run W (Cfg.init ws0 progs) sched).mem.words
    (∀ p ∈ progs, ∀ d i b, (Op.setBit d i b ∈ p ∨ Op.swapBit d i b ∈ p) →
      bitAt W fin (d.base * W + i) = b) ∧
    (∀ k, Untouched W progs k → bitAt W fin k = bitAt W ws0 k) := by
  obtain ⟨_, _, h3, _, h5, _⟩ := distinct_writers_final W hW ws0 hok progs hwf hdis sched hfin
  refine ⟨?_, h5⟩
  intro p hp d i b ho
  rcases ho with ho | ho
  · have := h3 p hp _ ho (d.base * W + i) ⟨Nat.le_refl _, Nat.lt_succ_self _⟩
    rw [this]
    show b.toNat.testBit (d.base * W + i - (d.base * W + i)) = b
    rw [Nat.sub_self]; cases b <;> rfl
  · have := h3 p hp _ ho (d.base * W + i) ⟨Nat.le_refl _, Nat.lt_succ_self _⟩
    rw [this]
    show b.toNat.testBit (d.base * W + i - (d.base * W + i)) = b
    rw [Nat.sub_self]; cases b <;> rfl

/-- **C13, `swap` is linearizable**: for any number of threads performing `set` / `swap` calls on
any bits (shared or not) and any schedule, the final memory and *every value returned by a
`swap`* are those of executing the calls one after the other in the order `lin` of their RMWs;
`lin` is an interleaving of the programs (its projection on each thread is the part of that
thread's program executed so far — the whole program once the thread is done). -/
theorem swap_linearizable (W : Nat) (ws0 : Array Nat) (progs : List (List Op))
    (hbit : ∀ p ∈ progs, ∀ o ∈ p, o.isBitRmw = true ∧ o.WF W ws0.size)
    (sched : List (Nat × Nat)) :
    let fin := run W (Cfg.init ws0 progs) sched
    let lin := linOf W (Cfg.init ws0 progs) sched
    (fin.mem.words, fin.resOf) = seqRun W (ws0, fun _ => []) lin ∧
    (∀ t p, progs[t]? = some p → ∃ th, fin.thr[t]? = some th ∧ th.prog = p ∧
      (lin.filter (fun x => x.1 == t)).map (·.2) = p.take th.ip) ∧
    (fin.AllDone → ∀ t p, progs[t]? = some p → (lin.filter (fun x => x.1 == t)).map (·.2) = p) := by
  intro fin lin
  have h0 : BitCfg W (Cfg.init ws0 progs) := by
    intro th hth
    obtain ⟨t, ht⟩ := List.mem_iff_getElem?.1 hth
    rw [init_thr_getElem?] at ht
    cases hp : progs[t]? with
    | none => rw [hp] at ht; cases ht
    | some p =>
      rw [hp] at ht
      simp only [Option.map_some, Option.some.injEq] at ht
      subst ht
      exact ⟨rfl, hbit p (List.mem_of_getElem? hp)⟩
  obtain ⟨_, h2, h3⟩ := bit_run sched _ h0
  have hres : (Cfg.init ws0 progs).resOf = fun _ => [] := by
    funext t
    rw [resOf_def, init_thr_getElem?]
    cases progs[t]? <;> rfl
  have key : ∀ t p, progs[t]? = some p → ∃ th, fin.thr[t]? = some th ∧ th.prog = p ∧
      (lin.filter (fun x => x.1 == t)).map (·.2) = p.take th.ip := by
    intro t p hp
    have hi : (Cfg.init ws0 progs).thr[t]? = some { prog := p } := by
      rw [init_thr_getElem?, hp]; rfl
    obtain ⟨th, hth, hprog, htake⟩ := h3 t _ hi
    refine ⟨th, hth, hprog, ?_⟩
    have hprog' : th.prog = p := hprog
    rw [hprog'] at htake
    rw [htake]
    show _ = [].take 0 ++ _
    simp [lin]
  refine ⟨?_, key, ?_⟩
  · rw [h2, hres]; rfl
  · intro hdone t p hp
    obtain ⟨th, hth, hprog, htake⟩ := key t p hp
    have hd := hdone th (List.mem_of_getElem? hth)
    unfold Thread.done at hd
    simp only [Bool.and_eq_true, decide_eq_true_eq] at hd
    rw [htake, hd.2, hprog, List.take_length]

/-- the sequential `swap` used by `swap_linearizable` is the single-threaded model of
`AtomicBitVec::swap` (`SuxModel/BitVec/Model.lean`, validated by the `bitvec` runner) -/
theorem seqStep_swap_is_BV_swap (ws : Array Nat) (r : Nat → List Nat) (t : Nat) (d : VecD)
    (i : Nat) (b : Bool) (hbase : d.base = 0) (hi : i < d.len) (hw : i / 64 < ws.size) :
    BV.swap { words := ws, len := d.len } i b =
      .ok ({ words := (seqStep 64 (ws, r) (t, .swapBit d i b)).1, len := d.len },
        ((ws.getD (i / 64) 0 >>> (i % 64)) &&& 1) != 0) := by
  unfold BV.swap BV.setU
  simp only [ge_iff_le, Nat.not_le.2 hi, if_false, bind, Out.bind, pure]
  rw [readU_of_lt ws _ hw]
  simp only [seqStep, hbase, Nat.zero_add, bitFn]

/-! ### non-vacuity: three threads swapping one shared bit (bit 3 of an 8-bit word) -/

def exBV : VecD := { base := 0, nw := 1, bw := 1, len := 8 }
def exSwapProgs : List (List Op) :=
  [[.swapBit exBV 3 true, .swapBit exBV 3 false], [.swapBit exBV 3 true], [.setBit exBV 3 false]]

example :
    let fin := run 8 (Cfg.init #[0xF0] exSwapProgs) [(1, 0), (0, 0), (2, 0), (0, 0)]
    fin.AllDone ∧ fin.resOf 0 = [0, 1] ∧ fin.resOf 1 = [0] ∧
    linOf 8 (Cfg.init #[0xF0] exSwapProgs) [(1, 0), (0, 0), (2, 0), (0, 0)]
      = [(1, .swapBit exBV 3 true), (0, .swapBit exBV 3 true), (2, .setBit exBV 3 false),
         (0, .swapBit exBV 3 false)] := by
  refine ⟨?_, ?_, ?_, ?_⟩
  · unfold Cfg.AllDone; decide +kernel
  · decide +kernel
  · decide +kernel
  · decide +kernel

/-! ## Elias–Fano -/

/-- **C13, concurrent Elias–Fano builder**: let `xs` be `n` monotone values `≤ u < 2^64` (what
`EliasFanoBuilder::push` accepts).  For every distribution `parts` of the indices over threads
(thread `t` calls `set(i, xs[i])` for `i ∈ parts[t]`, in that order; every index `< n` occurs, none
`≥ n`), every schedule in which all threads finish and every stale-load choice, the memory of the
concurrent builder (`low_bits` followed by `high_bits`) is exactly what the sequential builder
produces.

Hypotheses forced by the proof: `i < n` and `xs[i] ≤ u` keep both writes of `set` inside the
vectors (the caller's `unsafe` contract); monotonicity is needed only because the *sequential*
`push` panics otherwise.  Distinctness of the indices is not needed as long as equal indices
carry equal values; distinct upper-bit positions are not needed at all (every upper write stores
a 1, and `fetch_or`s commute). -/
theorem ef_concurrent_eq_sequential (n u : Nat) (hu : u < 2 ^ 64) (xs : List Nat)
    (hn : xs.length = n) (hle : ∀ x ∈ xs, x ≤ u) (hmono : xs.Pairwise (· ≤ ·))
    (parts : List (List Nat)) (hparts : ∀ i, i ∈ parts.flatten ↔ i < n)
    (sched : List (Nat × Nat))
    (hfin : (run 64 (Cfg.init (efMem n u) (efProgs n u xs parts)) sched).AllDone) :
    ∃ b, efSeqBuild n u xs = .ok b ∧
      (run 64 (Cfg.init (efMem n u) (efProgs n u xs parts)) sched).mem.words
        = b.low.words ++ b.high.words := by
  have hget : ∀ i (hi : i < n), xs.getD i 0 = xs[i]'(by omega) := by
    intro i hi
    rw [List.getD_eq_getElem?_getD, List.getElem?_eq_getElem (by omega)]; rfl
  have hle' : ∀ i, i < n → xs.getD i 0 ≤ u := by
    intro i hi; rw [hget i hi]; exact hle _ (List.getElem_mem _)
  have hmono' : ∀ i, i + 1 < n → xs.getD i 0 ≤ xs.getD (i + 1) 0 := by
    intro i hi
    rw [hget i (by omega), hget (i + 1) hi]
    exact (List.pairwise_iff_getElem.1 hmono) i (i + 1) (by omega) (by omega) (by omega)
  obtain ⟨b, e, hg⟩ := efSeqBuild_good n u hu xs hn hle' hmono'
  exact ⟨b, e, ef_final n u hu xs hle' parts hparts b hg sched hfin⟩

/-- every partition of the indices `0..n` over threads satisfies the hypothesis on `parts` -/
theorem parts_of_perm {n : Nat} {parts : List (List Nat)} (h : parts.flatten.Perm (List.range n))
    (i : Nat) : i ∈ parts.flatten ↔ i < n := by
  rw [h.mem_iff, List.mem_range]

/-! ### non-vacuity: the example of the crate documentation (`n = 4`, `u = 10`, values 0 2 8 10),
two threads, indices dealt `[0, 3]` / `[2, 1]`, alternating schedule (with failing
compare-exchanges: `l = 1`, all lower parts share one word) -/

def exEfSched : List (Nat × Nat) :=
  (List.range 12).flatMap (fun _ => [(0, 0), (1, 0)])

theorem exEfDone :
    (run 64 (Cfg.init (efMem 4 10) (efProgs 4 10 [0, 2, 8, 10] [[0, 3], [2, 1]])) exEfSched).AllDone := by
  unfold Cfg.AllDone
  decide +kernel

example : ∃ b, efSeqBuild 4 10 [0, 2, 8, 10] = .ok b ∧
    (run 64 (Cfg.init (efMem 4 10) (efProgs 4 10 [0, 2, 8, 10] [[0, 3], [2, 1]])) exEfSched).mem.words
      = b.low.words ++ b.high.words :=
  ef_concurrent_eq_sequential 4 10 (by decide) [0, 2, 8, 10] rfl (by decide) (by decide)
    [[0, 3], [2, 1]] (parts_of_perm (by decide)) exEfSched exEfDone

/-! ## no faults -/

/-- **C13 / C12 for the atomic vectors**: if every call respects its contract (`ProgsWF`: the
element exists inside the backing words, checked calls have `index < len`, values fit the bit
width), then in every interleaving and under every stale-load choice no thread ever panics and no
unchecked access leaves the backing words; every thread state stays consistent. -/
theorem no_thread_faults (W : Nat) (hW : 0 < W) (ws0 : Array Nat) (hok : WordsOK W ws0)
    (progs : List (List Op)) (hwf : ProgsWF W ws0.size progs) (sched : List (Nat × Nat)) :
    ∀ th ∈ (run W (Cfg.init ws0 progs) sched).thr, th.st = .run ∧ th.PcOK W :=
  fun th hth => ((safe_run hW sched _ (safe_init W ws0 progs hok hwf)).2 th hth).1

example : ∀ th ∈ (run 8 (Cfg.init exWords exProgs) (exSched.take 7)).thr, th.st = .run ∧ th.PcOK 8 :=
  no_thread_faults 8 (by decide) exWords exOK exProgs exWF _

/-! ## lock-freedom accounting (T-B) -/

/-- **C13 T-B**: in every run (any programs, any memory, any schedule, any choices), for every
thread: the number of its failed compare-exchanges is at most twice the number of non-zero
(possibly stale) choices it was granted plus the number of successful RMWs *of the other
threads* (`totSucc` counts the successful RMWs of all threads, `nsucc` its own). -/
theorem cas_failures_bounded (W : Nat) (ws0 : Array Nat) (progs : List (List Op))
    (sched : List (Nat × Nat)) (t : Nat) (th : Thread)
    (hth : (run W (Cfg.init ws0 progs) sched).thr[t]? = some th) :
    th.nfail + th.nsucc ≤ 2 * staleGrants sched t + (run W (Cfg.init ws0 progs) sched).totSucc :=
  failures_bounded W ws0 progs sched t th hth

/-- … in particular under sequentially consistent interleaving (every load and every failing
compare-exchange reads the latest value): a compare-exchange fails only if another thread's RMW
succeeded, `failed CAS of t ≤ successful RMWs of the others`. -/
theorem cas_failures_bounded_sc (W : Nat) (ws0 : Array Nat) (progs : List (List Op))
    (sched : List (Nat × Nat)) (hsc : ∀ e ∈ sched, e.2 = 0) (t : Nat) (th : Thread)
    (hth : (run W (Cfg.init ws0 progs) sched).thr[t]? = some th) :
    th.nfail + th.nsucc ≤ (run W (Cfg.init ws0 progs) sched).totSucc := by
  have := failures_bounded W ws0 progs sched t th hth
  rw [staleGrants_zero sched hsc t] at this
  omega

/-- non-vacuity: in the run of the first example thread 1 fails once (stale choice 3 at its first
compare-exchange) and thread 0 fails once (thread 1's RMW succeeded in between) -/
example :
    ((run 8 (Cfg.init exWords exProgs) exSched).thr.map (fun th => (th.nfail, th.nsucc)) =
      [(1, 1), (1, 2), (0, 1)]) ∧ (run 8 (Cfg.init exWords exProgs) exSched).totSucc = 4 ∧
    staleGrants exSched 1 = 1 := by
  refine ⟨by decide +kernel, by decide +kernel, by decide +kernel⟩

/-- **C13 T-B, termination of every fair schedule**: with well-formed calls, every schedule that
grants each thread more micro-steps than `4·(its calls) + 2·(stale choices granted to it) +
2·(calls of all threads)` ends with all threads finished (`AllDone`, the hypothesis of the
final-memory theorems) — whatever the interleaving.  Reason: every micro-step of an unfinished
thread is either progress (at most 4 per call) or a failed compare-exchange, and failures are paid
for by stale choices or by successful RMWs of other threads (at most 2 per call). -/
theorem fair_schedule_terminates (W : Nat) (hW : 0 < W) (ws0 : Array Nat) (hok : WordsOK W ws0)
    (progs : List (List Op)) (hwf : ProgsWF W ws0.size progs) (sched : List (Nat × Nat))
    (hfair : ∀ t p, progs[t]? = some p →
      4 * p.length + 2 * staleGrants sched t + 2 * (progs.map List.length).sum < grants sched t) :
    (run W (Cfg.init ws0 progs) sched).AllDone :=
  term_final W hW ws0 hok progs hwf sched hfair

/-- non-vacuity: 11 sequentially consistent round-robin rounds over the three writers of the
first example -/
example : (run 8 (Cfg.init exWords exProgs)
    ((List.range 11).flatMap (fun _ => [(0, 0), (1, 0), (2, 0)]))).AllDone := by
  apply fair_schedule_terminates 8 (by decide) exWords exOK exProgs exWF
  intro t p hp
  have : t < 3 := by
    rcases Nat.lt_or_ge t 3 with h | h
    · exact h
    · rw [List.getElem?_eq_none (by simpa [exProgs] using h)] at hp; cases hp
  match t, this with
  | 0, _ => cases hp; decide +kernel
  | 1, _ => cases hp; decide +kernel
  | 2, _ => cases hp; decide +kernel

end Sux.Atomic
