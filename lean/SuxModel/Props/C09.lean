import SuxModel.RCL.LemmasRead
/-!
# C09 — a rear-coded list returns exactly the strings pushed and finds them by value

Model: `SuxModel/RCL/Model.lean` (mirrors `src/dict/rear_coded_list.rs`); vocabulary:
`SuxModel/RCL/Spec.lean`.  Bytes are `Nat`, strings `List Nat`; `build k strs` is
`RearCodedListBuilder::new(k)`, `push` of every string, `build()`.

Standing hypotheses, and why they are there:
* `0 < k`: with `k = 0` the first `push` panics (`rcl_k_zero`);
* `NulFree strs`: the strings are stored NUL-terminated (the property's own precondition);
* `LenOK strs`: every string is shorter than `2^63` bytes (Rust's allocation limit `isize::MAX`);
  beyond `2^63 + UPPER_BOUND_8` the statistics call `encode_int_len` in `push` does not return
  (`encode_len_diverges`), beyond `2^64` a rear length does not fit `usize`.
-/
namespace Sux.RCL

/-! ## variable-byte code -/

/-- `decode_int` inverts `encode_int` on every `usize`, whatever follows in the slice -/
theorem decode_encode (v : Nat) (hv : v < 2 ^ 64) (rest : List Nat) :
    decodeInt (encodeInt v ++ rest) = .ok (v, rest) :=
  decodeInt_encodeInt v hv rest

/-- `encode_int_len` is the length of the code exactly for `v < 2^63 + UPPER_BOUND_8` … -/
theorem encode_len (v : Nat) (hv : v < 2 ^ 63 + UB8) :
    encodeIntLen v = .ok (encodeInt v).length :=
  encodeIntLen_eq v hv

/-- … and its loop never exits from there on (`max <<= 7` has reached `0`) -/
theorem encode_len_diverges (v : Nat) (hv : 2 ^ 63 + UB8 ≤ v) : encodeIntLen v = .panic :=
  encodeIntLen_diverges v hv

example : decodeInt (encodeInt 16512 ++ [7, 7]) = .ok (16512, [7, 7]) :=
  decode_encode 16512 (by decide) [7, 7]
example : encodeIntLen (2 ^ 63) = .ok (encodeInt (2 ^ 63)).length := encode_len _ (by decide)
example : encodeIntLen (2 ^ 64 - 1) = .panic := encode_len_diverges _ (by decide)

/-! ## building -/

theorem built_of_build {k : Nat} {strs : List (List Nat)} {l : RCL} (hk : 0 < k)
    (hlen : LenOK strs) (hb : build k strs = .ok l) : Built k strs l := by
  obtain ⟨l', h1, h2⟩ := build_spec k hk strs hlen
  rw [hb] at h1
  cases h1
  exact h2

/-- the builder accepts every list; `len()` is the number of strings pushed -/
theorem rcl_build (k : Nat) (hk : 0 < k) (strs : List (List Nat)) (hlen : LenOK strs) :
    ∃ l, build k strs = .ok l ∧ l.len = strs.length := by
  obtain ⟨l, h1, h2⟩ := build_spec k hk strs hlen
  exact ⟨l, h1, h2.len_eq⟩

/-- block size `0`: `push` panics (division by zero), nothing can be stored -/
theorem rcl_k_zero (s : List Nat) (strs : List (List Nat)) : build 0 (s :: strs) = .panic := by
  simp only [build, Builder.pushAll, push_k_zero (Builder.new 0) s rfl, bind, Out.bind]

/-! ## positional access -/

/-- `get(i)` and `get_in_place(i)` return the `i`-th pushed string -/
theorem rcl_get (k : Nat) (hk : 0 < k) (strs : List (List Nat)) (hn : NulFree strs)
    (hlen : LenOK strs) (l : RCL) (hb : build k strs = .ok l) (i : Nat) (hi : i < strs.length) :
    get l i = .ok strs[i] ∧ getInPlace l i = .ok strs[i].toArray :=
  have h := built_of_build hk hlen hb
  ⟨get_spec h hn hlen i hi, getInPlace_spec h hn hlen i hi⟩

/-- `get(i)` panics (explicit bounds check of the trait default) exactly for `i ≥ len` -/
theorem rcl_get_panic (k : Nat) (hk : 0 < k) (strs : List (List Nat)) (hlen : LenOK strs)
    (l : RCL) (hb : build k strs = .ok l) (i : Nat) (hi : strs.length ≤ i) :
    get l i = .panic :=
  get_panic (built_of_build hk hlen hb) i hi

/-- `iter_from(j)` / `lend_from(j)` (and `iter()`/`lend()` for `j = 0`), for *every* `j`:
the items are `strs.drop j`, the `len()` observed before each `next()` counts down exactly
from `strs.length - j` to `0` -/
theorem rcl_iter_from (k : Nat) (hk : 0 < k) (strs : List (List Nat)) (hn : NulFree strs)
    (hlen : LenOK strs) (l : RCL) (hb : build k strs = .ok l) (j : Nat) :
    iterFrom l j = .ok (countdown (strs.length - j), strs.drop j) :=
  iterFrom_spec (built_of_build hk hlen hb) hn hlen j

/-- `into_lender()` (`Lend::new`) yields all strings -/
theorem rcl_into_lender (k : Nat) (hk : 0 < k) (strs : List (List Nat)) (hn : NulFree strs)
    (hlen : LenOK strs) (l : RCL) (hb : build k strs = .ok l) :
    drain l (l.len + 1) (Lend.new l) = .ok (countdown strs.length, strs) :=
  intoLender_spec (built_of_build hk hlen hb) hn hlen

end Sux.RCL
