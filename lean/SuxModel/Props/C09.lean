import SuxModel.RCL.LemmasSorted
/-!
# C09 — a rear-coded list returns exactly the strings pushed and finds them by value

Model: `SuxModel/RCL/Model.lean` (mirrors `src/dict/rear_coded_list.rs`); vocabulary:
`SuxModel/RCL/Spec.lean`.  Bytes are `Nat`, strings `List Nat`; `build k strs` is
`RearCodedListBuilder::new(k)`, `push` of every string, `build()`.

Standing hypotheses, and why they are there:
* `0 < k`: with `k = 0` the first `push` panics (`rcl_k_zero`);
* `NulFree strs`: the strings are stored NUL-terminated (the property's own precondition);
* `LenOK strs`: every string is shorter than `2^63` bytes (Rust's allocation limit `isize::MAX`);
  beyond `2^63 + UPPER_BOUND_8` the statistics call `encode_int_len` in `push` does not return
  (`encode_len_diverges`), beyond `2^64` a rear length does not fit `usize`.
-/
namespace Sux.RCL

/-! ## variable-byte code -/

/-- `decode_int` inverts `encode_int` on every `usize`, whatever follows in the slice -/
theorem decode_encode (v : Nat) (hv : v < 2 ^ 64) (rest : List Nat) :
    decodeInt (encodeInt v ++ rest) = .ok (v, rest) :=
  decodeInt_encodeInt v hv rest

/-- `encode_int_len` is the length of the code exactly for `v < 2^63 + UPPER_BOUND_8` … -/
theorem encode_len (v : Nat) (hv : v < 2 ^ 63 + UB8) :
    encodeIntLen v = .ok (encodeInt v).length :=
  encodeIntLen_eq v hv

/-- … and its loop never exits from there on (`max <<= 7` has reached `0`) -/
theorem encode_len_diverges (v : Nat) (hv : 2 ^ 63 + UB8 ≤ v) : encodeIntLen v = .panic :=
  encodeIntLen_diverges v hv

/-- the `debug_assert!`s inside `encode_int` can never fire -/
theorem encode_debug_asserts (v : Nat) :
    (UB1 ≤ v → v < UB2 → (v - UB1) >>> 8 < 1 <<< 6) ∧
    (UB2 ≤ v → v < UB3 → (v - UB2) >>> 16 < 1 <<< 5) ∧
    (UB3 ≤ v → v < UB4 → (v - UB3) >>> 24 < 1 <<< 4) ∧
    (UB4 ≤ v → v < UB5 → (v - UB4) >>> 32 < 1 <<< 3) ∧
    (UB5 ≤ v → v < UB6 → (v - UB5) >>> 40 < 1 <<< 2) ∧
    (UB6 ≤ v → v < UB7 → (v - UB6) >>> 48 < 1 <<< 1) :=
  encodeInt_asserts v

example : decodeInt (encodeInt 16512 ++ [7, 7]) = .ok (16512, [7, 7]) :=
  decode_encode 16512 (by decide) [7, 7]
example : encodeIntLen (2 ^ 63) = .ok (encodeInt (2 ^ 63)).length := encode_len _ (by decide)
example : encodeIntLen (2 ^ 64 - 1) = .panic := encode_len_diverges _ (by decide)

/-! ## building -/

theorem built_of_build {k : Nat} {strs : List (List Nat)} {l : RCL} (hk : 0 < k)
    (hlen : LenOK strs) (hb : build k strs = .ok l) : Built k strs l := by
  obtain ⟨l', h1, h2⟩ := build_spec k hk strs hlen
  rw [hb] at h1
  cases h1
  exact h2

/-- the builder accepts every list; `len()` is the number of strings pushed -/
theorem rcl_build (k : Nat) (hk : 0 < k) (strs : List (List Nat)) (hlen : LenOK strs) :
    ∃ l, build k strs = .ok l ∧ l.len = strs.length := by
  obtain ⟨l, h1, h2⟩ := build_spec k hk strs hlen
  exact ⟨l, h1, h2.len_eq⟩

/-- block size `0`: `push` panics (division by zero), nothing can be stored -/
theorem rcl_k_zero (s : List Nat) (strs : List (List Nat)) : build 0 (s :: strs) = .panic := by
  simp only [build, Builder.pushAll, push_k_zero (Builder.new 0) s rfl, bind, Out.bind]

/-! ## positional access -/

/-- `get(i)` and `get_in_place(i)` return the `i`-th pushed string -/
theorem rcl_get (k : Nat) (hk : 0 < k) (strs : List (List Nat)) (hn : NulFree strs)
    (hlen : LenOK strs) (l : RCL) (hb : build k strs = .ok l) (i : Nat) (hi : i < strs.length) :
    get l i = .ok strs[i] ∧ getInPlace l i = .ok strs[i].toArray :=
  have h := built_of_build hk hlen hb
  ⟨get_spec h hn hlen i hi, getInPlace_spec h hn hlen i hi⟩

/-- `get(i)` panics (explicit bounds check of the trait default) exactly for `i ≥ len` -/
theorem rcl_get_panic (k : Nat) (hk : 0 < k) (strs : List (List Nat)) (hlen : LenOK strs)
    (l : RCL) (hb : build k strs = .ok l) (i : Nat) (hi : strs.length ≤ i) :
    get l i = .panic :=
  get_panic (built_of_build hk hlen hb) i hi

/-- `iter_from(j)` / `lend_from(j)` (and `iter()`/`lend()` for `j = 0`), for *every* `j`:
the items are `strs.drop j`, the `len()` observed before each `next()` counts down exactly
from `strs.length - j` to `0` -/
theorem rcl_iter_from (k : Nat) (hk : 0 < k) (strs : List (List Nat)) (hn : NulFree strs)
    (hlen : LenOK strs) (l : RCL) (hb : build k strs = .ok l) (j : Nat) :
    iterFrom l j = .ok (countdown (strs.length - j), strs.drop j) :=
  iterFrom_spec (built_of_build hk hlen hb) hn hlen j

/-- `into_lender()` (`Lend::new`) yields all strings -/
theorem rcl_into_lender (k : Nat) (hk : 0 < k) (strs : List (List Nat)) (hn : NulFree strs)
    (hlen : LenOK strs) (l : RCL) (hb : build k strs = .ok l) :
    drain l (l.len + 1) (Lend.new l) = .ok (countdown strs.length, strs) :=
  intoLender_spec (built_of_build hk hlen hb) hn hlen

/-! ## search by value -/

/-- the `is_sorted` flag of the built list says exactly that the input was sorted bytewise -/
theorem rcl_is_sorted (k : Nat) (hk : 0 < k) (strs : List (List Nat)) (hlen : LenOK strs)
    (l : RCL) (hb : build k strs = .ok l) : l.isSorted = true ↔ Sorted strs := by
  rw [(built_of_build hk hlen hb).sorted_eq, adjSorted_nil_iff]

/-- `index_of(key)` returns an index holding `key` exactly when `key` was pushed — for **every**
key.  (Sorted input: binary search over block heads, then in-block scan; a key containing NUL is
answered `None` before the search — `rcl_index_of_nul` — and indeed cannot have been pushed.
Unsorted input: linear scan.) -/
theorem rcl_index_of (k : Nat) (hk : 0 < k) (strs : List (List Nat)) (hn : NulFree strs)
    (hlen : LenOK strs) (l : RCL) (hb : build k strs = .ok l) (key : List Nat) :
    ∃ o, indexOf l key = .ok o ∧
      (∀ i, o = some i → ∃ hi : i < strs.length, strs[i] = key) ∧
      (o = none ↔ key ∉ strs) :=
  indexOf_spec (built_of_build hk hlen hb) hn hlen key

/-- sorted input, key containing NUL: `None`, decided before any comparison with the data -/
theorem rcl_index_of_nul (k : Nat) (hk : 0 < k) (strs : List (List Nat)) (hlen : LenOK strs)
    (l : RCL) (hb : build k strs = .ok l) (hs : Sorted strs) (key : List Nat) (hkey : 0 ∈ key) :
    indexOf l key = .ok none := by
  rw [indexOf, if_pos ((rcl_is_sorted k hk strs hlen l hb).2 hs), indexOfSorted_nul l key hkey]

/-- unsorted input: `index_of` is the linear scan and returns the *first* position of `key`
(any key, NUL bytes included) -/
theorem rcl_index_of_unsorted (k : Nat) (hk : 0 < k) (strs : List (List Nat)) (hn : NulFree strs)
    (hlen : LenOK strs) (l : RCL) (hb : build k strs = .ok l) (hs : ¬ Sorted strs)
    (key : List Nat) : indexOf l key = .ok (firstIdx key strs 0) := by
  have h := built_of_build hk hlen hb
  have hf : ¬ l.isSorted = true := fun e => hs ((rcl_is_sorted k hk strs hlen l hb).1 e)
  rw [indexOf, if_neg hf, indexOfUnsorted_spec h hn hlen key]

/-- sorted input, the part of `index_of_sorted` that follows the binary search, for **any**
result `r` of `binary_search_by` that satisfies its documented contract (`BSContract`):
`Ok(b)` only for a block whose head equals the key, `Err(e)` only at the insertion point.
No condition on the key here. -/
theorem rcl_index_of_sorted_contract (k : Nat) (hk : 0 < k) (strs : List (List Nat))
    (hn : NulFree strs) (hlen : LenOK strs) (l : RCL) (hb : build k strs = .ok l)
    (hs : Sorted strs) (key : List Nat) (r : SearchRes)
    (hr : BSContract (headOrd k strs key) l.pointers.size r) :
    ∃ o, indexOfSortedAfter l key r = .ok o ∧
      (∀ i, o = some i → ∃ hi : i < strs.length, strs[i] = key) ∧
      (o = none ↔ key ∉ strs) := by
  obtain ⟨o, h1, h2, h3⟩ :=
    indexOfSortedAfter_spec (built_of_build hk hlen hb) hn hlen hs key r hr
  refine ⟨o, h1, h2, h3, fun hnm => ?_⟩
  cases o with
  | none => rfl
  | some i =>
    obtain ⟨hi, he⟩ := h2 i rfl
    exact absurd (he ▸ List.getElem_mem hi) hnm

/-- … and the binary search of the core library, run with the comparator closure of
`index_of_sorted` on the block pointers, returns without panic / out-of-bounds access and
satisfies that contract (NUL-free key: the only keys for which `index_of_sorted` reaches the
search) -/
theorem rcl_binary_search_contract (k : Nat) (hk : 0 < k) (strs : List (List Nat))
    (hn : NulFree strs) (hlen : LenOK strs) (l : RCL) (hb : build k strs = .ok l)
    (hs : Sorted strs) (key : List Nat) (hkey : 0 ∉ key) :
    ∃ r, binarySearchBy (headCmp l key) l.pointers = .ok r ∧
      BSContract (headOrd k strs key) l.pointers.size r :=
  have h := built_of_build hk hlen hb
  binarySearchBy_spec (headCmp l key) l.pointers (headOrd k strs key)
    (fun i hi => headCmp_spec h hn key hkey i hi) (headOrd_mono h hs key)

/-- the only unchecked accesses of the whole file are inside `binary_search_by`; they are in
range for **every** slice and **every** comparator (so also for keys with NUL bytes and for
unsorted data) -/
theorem rcl_binary_search_no_oob (f : Nat → Out Ordering) (xs : Array Nat)
    (hf : ∀ x, f x ≠ .oob) : binarySearchBy f xs ≠ .oob :=
  binarySearchBy_no_oob f xs hf

/-- `contains` is `index_of(..).is_some()` (by definition) and therefore decides membership -/
theorem rcl_contains (k : Nat) (hk : 0 < k) (strs : List (List Nat)) (hn : NulFree strs)
    (hlen : LenOK strs) (l : RCL) (hb : build k strs = .ok l) (key : List Nat) :
    (contains l key = (indexOf l key >>= fun o => pure o.isSome)) ∧
    contains l key = .ok (decide (key ∈ strs)) := by
  refine ⟨rfl, ?_⟩
  obtain ⟨o, h1, _, h3⟩ := rcl_index_of k hk strs hn hlen l hb key
  rw [contains, h1]
  simp only [bind, Out.bind, pure]
  congr 1
  cases o with
  | none => simp [h3.1 rfl]
  | some i =>
    have : key ∈ strs := Classical.byContradiction fun hnm => by cases h3.2 hnm
    simp [this]

/-! ## keys containing NUL (the inputs on which the tree before the fix was wrong)

Before `index_of_sorted` got its guard, `strcmp(string, data)` let a `0` inside `string` match a
block head's terminator and went on comparing with the *next* stored entry:
`["a","b"]`, `k = 1`, `index_of("a\0b")` answered `Some(0)`, `index_of("b\0\0x")` panicked. -/

def nulList : List (List Nat) := [[0x61], [0x62]]

theorem nulList_nulFree : NulFree nulList := by unfold NulFree nulList; decide
theorem nulList_lenOK : LenOK nulList := by unfold LenOK nulList; decide
theorem nulList_sorted : Sorted nulList := (adjSorted_nil_iff nulList).1 (by decide)

theorem nulList_build :
    build 1 nulList = .ok ⟨1, 2, true, [0x61, 0, 0x62, 0], #[0, 2]⟩ := by decide

/-- `index_of("a\0b")` on `["a","b"]`: absent -/
theorem nul_probe_absent (l : RCL) (hb : build 1 nulList = .ok l) :
    indexOf l [0x61, 0, 0x62] = .ok none ∧ contains l [0x61, 0, 0x62] = .ok false :=
  ⟨rcl_index_of_nul 1 (by decide) nulList nulList_lenOK l hb nulList_sorted _ (by decide),
   (rcl_contains 1 (by decide) nulList nulList_nulFree nulList_lenOK l hb _).2⟩

/-- `index_of("b\0\0x")` on `["a","b"]`: absent, no panic -/
theorem nul_probe_no_panic (l : RCL) (hb : build 1 nulList = .ok l) :
    indexOf l [0x62, 0, 0, 0x78] = .ok none :=
  rcl_index_of_nul 1 (by decide) nulList nulList_lenOK l hb nulList_sorted _ (by decide)

/-- and the same on the concrete built list (no hypothesis left) -/
example : ∃ l, build 1 nulList = .ok l ∧ indexOf l [0x61, 0, 0x62] = .ok none :=
  ⟨_, nulList_build, (nul_probe_absent _ nulList_build).1⟩

/-! ## non-vacuity: the documentation example of the crate (`k = 4`) and an unsorted list -/

def exStrs : List (List Nat) :=
  [[97, 97], [97, 97, 98], [97, 98, 99], [97, 98, 100, 100], [97, 98, 100, 101], [97, 98, 100, 102]]

theorem exStrs_nulFree : NulFree exStrs := by unfold NulFree exStrs; decide
theorem exStrs_lenOK : LenOK exStrs := by unfold LenOK exStrs; decide
theorem exStrs_sorted : Sorted exStrs := (adjSorted_nil_iff exStrs).1 (by decide)

example : ∃ l, build 4 exStrs = .ok l ∧ l.len = 6 := rcl_build 4 (by decide) exStrs exStrs_lenOK

example (l : RCL) (hb : build 4 exStrs = .ok l) : get l 4 = .ok [97, 98, 100, 101] :=
  (rcl_get 4 (by decide) exStrs exStrs_nulFree exStrs_lenOK l hb 4 (by decide)).1

example (l : RCL) (hb : build 4 exStrs = .ok l) : get l 6 = .panic :=
  rcl_get_panic 4 (by decide) exStrs exStrs_lenOK l hb 6 (by decide)

example (l : RCL) (hb : build 4 exStrs = .ok l) :
    iterFrom l 4 = .ok ([2, 1, 0], [[97, 98, 100, 101], [97, 98, 100, 102]]) :=
  rcl_iter_from 4 (by decide) exStrs exStrs_nulFree exStrs_lenOK l hb 4

/-- `iter_from(len)` with `len` a multiple of `k` (the start position that used to index past
`pointers`) -/
example (l : RCL) (hb : build 3 exStrs = .ok l) : iterFrom l 6 = .ok ([0], []) :=
  rcl_iter_from 3 (by decide) exStrs exStrs_nulFree exStrs_lenOK l hb 6

example (l : RCL) (hb : build 4 exStrs = .ok l) : l.isSorted = true :=
  (rcl_is_sorted 4 (by decide) exStrs exStrs_lenOK l hb).2 exStrs_sorted

example (l : RCL) (hb : build 4 exStrs = .ok l) : contains l [97, 98, 100] = .ok false :=
  (rcl_contains 4 (by decide) exStrs exStrs_nulFree exStrs_lenOK l hb [97, 98, 100]).2

example (l : RCL) (hb : build 4 exStrs = .ok l) :
    ∃ o, indexOf l [97, 98, 99] = .ok o ∧
      (∀ i, o = some i → ∃ hi : i < exStrs.length, exStrs[i] = [97, 98, 99]) ∧
      (o = none ↔ [97, 98, 99] ∉ exStrs) :=
  rcl_index_of 4 (by decide) exStrs exStrs_nulFree exStrs_lenOK l hb _

def exUnsorted : List (List Nat) := [[98], [97], [98]]

theorem exUnsorted_not_sorted : ¬ Sorted exUnsorted := fun h => by
  have := (adjSorted_nil_iff exUnsorted).2 h
  revert this; decide

example (l : RCL) (hb : build 2 exUnsorted = .ok l) : indexOf l [98] = .ok (some 0) :=
  rcl_index_of_unsorted 2 (by decide) exUnsorted (by unfold NulFree exUnsorted; decide)
    (by unfold LenOK exUnsorted; decide) l hb exUnsorted_not_sorted [98]

end Sux.RCL
