import SuxModel.RankSel.Adapt.LemmasQuery
/-!
# C02 (part A, adaptive family) — `SelectAdapt`, `SelectZeroAdapt`, `SelectAdaptConst`,
`SelectZeroAdaptConst` return the r-th one / zero

Model: `SuxModel/RankSel/Adapt/Model.lean` (one model for the four Rust files, `Params` = polarity,
`log2_ones_per_inventory`, effective `log2_u64_per_subinventory`), `SuxModel/RankSel/Hinted.lean`
(`select_hinted` / `select_zero_hinted` of `BitVec`).  Specification: `SuxModel/RankSel/Spec.lean`.
Invariant: `AdaptInvOK` (`SuxModel/RankSel/Adapt/Inv.lean`, decidable).

The bit vector is `(ws, len)` with `len ≤ 64 * ws.size` (the `BitVec` invariant); nothing is assumed
about backend bits at or beyond `len` (stale tail bits, extra words).
-/
namespace Sux.RS.Adapt
open Sux.RS

/-! ## concrete states used by the non-vacuity examples -/

/-- 10 logical bits `1011001101` (LSB first: ones at 0,2,3,6,7,9), stale ones above, one extra word -/
def exWs : Array Nat := #[0xFFFFFFFFFFFFFEcd, 0xABC]
def exLen : Nat := 10
/-- `SelectAdaptConst<_, _, 1, 0>`: an entry every 2 ones, one subinventory word (4 u16 lanes) -/
def exP : Params := { zero := false, L := 1, M := 0 }
/-- the arrays the real builder produces for it (lane 1 of each subinventory word = offset of the second one) -/
def exIdx : Idx := { inv := #[0, 131072, 3, 196608, 7, 131072, 10], spill := #[] }
/-- `SelectZeroAdaptConst<_, _, 1, 0>` over the same vector (zeros at 1,4,5,8) -/
def exPz : Params := { zero := true, L := 1, M := 0 }
def exIdxz : Idx := { inv := #[1, 196608, 5, 196608, 10], spill := #[] }

theorem exInv : AdaptInvOK exP exIdx exWs exLen := by decide
theorem exInvz : AdaptInvOK exPz exIdxz exWs exLen := by decide
theorem exLenOK : exLen ≤ 64 * exWs.size := by decide

/-! ## hinted selection of `BitVec` (T-A i) -/

/-- **`select_hinted` is correct**: if `rank < numOnes`, the hint is not after the one of rank `rank` and
`hintRank` is the number of ones before `hintPos`, the word loop returns that one's position; no
unchecked read is out of bounds. (Proof: `HintedLemmas.lean`.) -/
theorem hinted_select_correct (ws : Array Nat) (len rank hintPos hintRank : Nat)
    (hlen : len ≤ 64 * ws.size) (hr : rank < numOnes ws len)
    (hpos : ∀ p, IsSelect ws len rank p → hintPos ≤ p)
    (hrank : hintRank = rankSpec ws len hintPos) :
    ∃ p, selectHinted ws rank hintPos hintRank = .ok p ∧ IsSelect ws len rank p :=
  select_hinted_correct ws len rank hintPos hintRank hlen hr hpos hrank

/-- **`select_zero_hinted` is correct** -/
theorem hinted_select_zero_correct (ws : Array Nat) (len rank hintPos hintRank : Nat)
    (hlen : len ≤ 64 * ws.size) (hr : rank < numZeros ws len)
    (hpos : ∀ p, IsSelectZero ws len rank p → hintPos ≤ p)
    (hrank : hintRank = hintPos - rankSpec ws len hintPos) :
    ∃ p, selectZeroHinted ws rank hintPos hintRank = .ok p ∧ IsSelectZero ws len rank p :=
  select_zero_hinted_correct ws len rank hintPos hintRank hlen hr hpos hrank

/-- the one of rank 4 (position 7), hinted from position 3 where 2 ones precede -/
example : ∃ p, selectHinted exWs 4 3 2 = .ok p ∧ IsSelect exWs exLen 4 p := by
  refine hinted_select_correct exWs exLen 4 3 2 exLenOK (by decide) ?_ (by decide)
  rintro p ⟨_, _, h3⟩
  rcases Nat.lt_or_ge p 3 with h | h
  · exfalso
    have : p = 0 ∨ p = 1 ∨ p = 2 := by omega
    rcases this with rfl | rfl | rfl <;> revert h3 <;> decide
  · exact h

/-- the zero of rank 2 (position 5), hinted from position 2 where 1 zero precedes -/
example : ∃ p, selectZeroHinted exWs 2 2 1 = .ok p ∧ IsSelectZero exWs exLen 2 p := by
  refine hinted_select_zero_correct exWs exLen 2 2 1 exLenOK (by decide) ?_ (by decide)
  rintro p ⟨_, _, h3⟩
  rcases Nat.lt_or_ge p 2 with h | h
  · exfalso
    have : p = 0 ∨ p = 1 := by omega
    rcases this with rfl | rfl <;> revert h3 <;> decide
  · exact h

/-! ## vocabulary bridges -/

theorem polBit_false (ws : Array Nat) : polBit false ws = bitAt 64 ws := by
  funext k; simp [polBit]

theorem polBit_true (ws : Array Nat) : polBit true ws = fun k => !bitAt 64 ws k := by
  funext k; simp [polBit]

theorem count_ones_eq (P : Params) (ws : Array Nat) (len : Nat) (hP : P.zero = false) :
    count P ws len = numOnes ws len := by
  unfold count; rw [hP, polBit_false, numOnes_eq_cnt]

theorem count_zeros_eq (P : Params) (ws : Array Nat) (len : Nat) (hP : P.zero = true) :
    count P ws len = numZeros ws len := by
  unfold count; rw [hP, polBit_true, numZeros_eq_cnt]

/-! ## (Q) query correct from the invariant -/

/-- **C02 (Q), polarity-generic.**  If the arrays satisfy `AdaptInvOK`, then for every valid rank the
query `select_unchecked` / `select_zero_unchecked` returns — without any out-of-bounds unchecked read
and without panicking — the position of the bit of that rank. -/
theorem adapt_query_correct (P : Params) (idx : Idx) (ws : Array Nat) (len : Nat)
    (hlen : len ≤ 64 * ws.size) (h : AdaptInvOK P idx ws len) :
    ∀ r, r < count P ws len →
      ∃ p, selectUnchecked P ws idx r = .ok p ∧ IsSel (polBit P.zero ws) len r p :=
  fun r hr => ⟨pos P ws len r, selectUnchecked_correct P idx ws len hlen h r hr, pos_spec hr⟩

example : ∀ r, r < count exP exWs exLen →
    ∃ p, selectUnchecked exP exWs exIdx r = .ok p ∧ IsSel (polBit exP.zero exWs) exLen r p :=
  adapt_query_correct exP exIdx exWs exLen exLenOK exInv

/-- **C02 (Q) for `SelectAdapt` / `SelectAdaptConst`**: `select_unchecked r` is the position of the one
of rank `r` for every `r < numOnes`. -/
theorem adapt_select_unchecked_correct (P : Params) (idx : Idx) (ws : Array Nat) (len : Nat)
    (hP : P.zero = false) (hlen : len ≤ 64 * ws.size) (h : AdaptInvOK P idx ws len) :
    ∀ r, r < numOnes ws len → ∃ p, selectUnchecked P ws idx r = .ok p ∧ IsSelect ws len r p := by
  intro r hr
  rw [← count_ones_eq P ws len hP] at hr
  obtain ⟨p, h1, h2⟩ := adapt_query_correct P idx ws len hlen h r hr
  refine ⟨p, h1, ?_⟩
  rw [hP, polBit_false] at h2
  exact (isSelect_iff ws len r p).mpr h2

example : ∀ r, r < numOnes exWs exLen → ∃ p, selectUnchecked exP exWs exIdx r = .ok p ∧ IsSelect exWs exLen r p :=
  adapt_select_unchecked_correct exP exIdx exWs exLen rfl exLenOK exInv

/-- **C02 (Q) for `SelectZeroAdapt` / `SelectZeroAdaptConst`** -/
theorem adapt_select_zero_unchecked_correct (P : Params) (idx : Idx) (ws : Array Nat) (len : Nat)
    (hP : P.zero = true) (hlen : len ≤ 64 * ws.size) (h : AdaptInvOK P idx ws len) :
    ∀ r, r < numZeros ws len → ∃ p, selectUnchecked P ws idx r = .ok p ∧ IsSelectZero ws len r p := by
  intro r hr
  rw [← count_zeros_eq P ws len hP] at hr
  obtain ⟨p, h1, h2⟩ := adapt_query_correct P idx ws len hlen h r hr
  refine ⟨p, h1, ?_⟩
  rw [hP, polBit_true] at h2
  exact (isSelectZero_iff ws len r p).mpr h2

example : ∀ r, r < numZeros exWs exLen →
    ∃ p, selectUnchecked exPz exWs exIdxz r = .ok p ∧ IsSelectZero exWs exLen r p :=
  adapt_select_zero_unchecked_correct exPz exIdxz exWs exLen rfl exLenOK exInvz

/-- **`Select::select` = specification** (both the `Some` and the `None` side): with `num_ones()`
correct, `select r` never panics, never reads out of bounds and returns `selectSpec ws len r`. -/
theorem adapt_select_correct (P : Params) (idx : Idx) (ws : Array Nat) (len : Nat)
    (hP : P.zero = false) (hlen : len ≤ 64 * ws.size) (h : AdaptInvOK P idx ws len) (r : Nat) :
    select P ws idx (numOnes ws len) r = .ok (selectSpec ws len r) := by
  unfold select
  by_cases hr : r ≥ numOnes ws len
  · rw [if_pos hr, (selectSpec_eq_none_iff ws len r).mpr hr]
  · rw [if_neg hr]
    obtain ⟨p, h1, h2⟩ := adapt_select_unchecked_correct P idx ws len hP hlen h r (by omega)
    rw [(selectSpec_eq_some_iff ws len r p).mpr h2]
    simp only [bind, Out.bind, h1, pure]

example (r : Nat) : select exP exWs exIdx (numOnes exWs exLen) r = .ok (selectSpec exWs exLen r) :=
  adapt_select_correct exP exIdx exWs exLen rfl exLenOK exInv r

/-- **`SelectZero::select_zero` = specification** -/
theorem adapt_select_zero_correct (P : Params) (idx : Idx) (ws : Array Nat) (len : Nat)
    (hP : P.zero = true) (hlen : len ≤ 64 * ws.size) (h : AdaptInvOK P idx ws len) (r : Nat) :
    select P ws idx (numZeros ws len) r = .ok (selectZeroSpec ws len r) := by
  unfold select
  by_cases hr : r ≥ numZeros ws len
  · rw [if_pos hr, (selectZeroSpec_eq_none_iff ws len r).mpr hr]
  · rw [if_neg hr]
    obtain ⟨p, h1, h2⟩ := adapt_select_zero_unchecked_correct P idx ws len hP hlen h r (by omega)
    rw [(selectZeroSpec_eq_some_iff ws len r p).mpr h2]
    simp only [bind, Out.bind, h1, pure]

example (r : Nat) : select exPz exWs exIdxz (numZeros exWs exLen) r = .ok (selectZeroSpec exWs exLen r) :=
  adapt_select_zero_correct exPz exIdxz exWs exLen rfl exLenOK exInvz r

/-- `select r = None ↔ r ≥ count` (under the invariant the query never fails, so `None` comes only from
the bound check) -/
theorem adapt_select_none_iff (P : Params) (idx : Idx) (ws : Array Nat) (len : Nat)
    (hlen : len ≤ 64 * ws.size) (h : AdaptInvOK P idx ws len) (r : Nat) :
    select P ws idx (count P ws len) r = .ok none ↔ r ≥ count P ws len := by
  unfold select
  by_cases hr : r ≥ count P ws len
  · rw [if_pos hr]; exact ⟨fun _ => hr, fun _ => rfl⟩
  · rw [if_neg hr]
    have := selectUnchecked_correct P idx ws len hlen h r (by omega)
    simp only [bind, Out.bind, this, pure]
    constructor
    · intro hh; cases hh
    · intro hh; exact absurd hh hr

example (r : Nat) : select exP exWs exIdx (count exP exWs exLen) r = .ok none ↔ r ≥ count exP exWs exLen :=
  adapt_select_none_iff exP exIdx exWs exLen exLenOK exInv r

end Sux.RS.Adapt
