import SuxModel.RankSel.Adapt.LemmasQuery
import SuxModel.RankSel.Adapt.LemmasBuild
/-!
# C02 (part A, adaptive family) — `SelectAdapt`, `SelectZeroAdapt`, `SelectAdaptConst`,
`SelectZeroAdaptConst` return the r-th one / zero

Model: `SuxModel/RankSel/Adapt/Model.lean` (one model for the four Rust files, `Params` = polarity,
`log2_ones_per_inventory`, effective `log2_u64_per_subinventory`), `SuxModel/RankSel/Hinted.lean`
(`select_hinted` / `select_zero_hinted` of `BitVec`).  Specification: `SuxModel/RankSel/Spec.lean`.
Invariant: `AdaptInvOK` (`SuxModel/RankSel/Adapt/Inv.lean`, decidable).

The bit vector is `(ws, len)` with `len ≤ 64 * ws.size` (the `BitVec` invariant); nothing is assumed
about backend bits at or beyond `len` (stale tail bits, extra words).
-/
namespace Sux.RS.Adapt
open Sux.RS

/-! ## concrete states used by the non-vacuity examples -/

/-- 10 logical bits `1011001101` (LSB first: ones at 0,2,3,6,7,9), stale ones above, one extra word -/
def exWs : Array Nat := #[0xFFFFFFFFFFFFFEcd, 0xABC]
def exLen : Nat := 10
/-- `SelectAdaptConst<_, _, 1, 0>`: an entry every 2 ones, one subinventory word (4 u16 lanes) -/
def exP : Params := { zero := false, L := 1, M := 0 }
/-- the arrays the real builder produces for it (lane 1 of each subinventory word = offset of the second one) -/
def exIdx : Idx := { inv := #[0, 131072, 3, 196608, 7, 131072, 10], spill := #[] }
/-- `SelectZeroAdaptConst<_, _, 1, 0>` over the same vector (zeros at 1,4,5,8) -/
def exPz : Params := { zero := true, L := 1, M := 0 }
def exIdxz : Idx := { inv := #[1, 196608, 5, 196608, 10], spill := #[] }

theorem exInv : AdaptInvOK exP exIdx exWs exLen := by decide
theorem exInvz : AdaptInvOK exPz exIdxz exWs exLen := by decide
theorem exLenOK : exLen ≤ 64 * exWs.size := by decide

/-! ## hinted selection of `BitVec` (T-A i) -/

/-- **`select_hinted` is correct**: if `rank < numOnes`, the hint is not after the one of rank `rank` and
`hintRank` is the number of ones before `hintPos`, the word loop returns that one's position; no
unchecked read is out of bounds. (Proof: `HintedLemmas.lean`.) -/
theorem hinted_select_correct (ws : Array Nat) (len rank hintPos hintRank : Nat)
    (hlen : len ≤ 64 * ws.size) (hr : rank < numOnes ws len)
    (hpos : ∀ p, IsSelect ws len rank p → hintPos ≤ p)
    (hrank : hintRank = rankSpec ws len hintPos) :
    ∃ p, selectHinted ws rank hintPos hintRank = .ok p ∧ IsSelect ws len rank p :=
  select_hinted_correct ws len rank hintPos hintRank hlen hr hpos hrank

/-- **`select_zero_hinted` is correct** -/
theorem hinted_select_zero_correct (ws : Array Nat) (len rank hintPos hintRank : Nat)
    (hlen : len ≤ 64 * ws.size) (hr : rank < numZeros ws len)
    (hpos : ∀ p, IsSelectZero ws len rank p → hintPos ≤ p)
    (hrank : hintRank = hintPos - rankSpec ws len hintPos) :
    ∃ p, selectZeroHinted ws rank hintPos hintRank = .ok p ∧ IsSelectZero ws len rank p :=
  select_zero_hinted_correct ws len rank hintPos hintRank hlen hr hpos hrank

/-- the one of rank 4 (position 7), hinted from position 3 where 2 ones precede -/
example : ∃ p, selectHinted exWs 4 3 2 = .ok p ∧ IsSelect exWs exLen 4 p := by
  refine hinted_select_correct exWs exLen 4 3 2 exLenOK (by decide) ?_ (by decide)
  rintro p ⟨_, _, h3⟩
  rcases Nat.lt_or_ge p 3 with h | h
  · exfalso
    have : p = 0 ∨ p = 1 ∨ p = 2 := by omega
    rcases this with rfl | rfl | rfl <;> revert h3 <;> decide
  · exact h

/-- the zero of rank 2 (position 5), hinted from position 2 where 1 zero precedes -/
example : ∃ p, selectZeroHinted exWs 2 2 1 = .ok p ∧ IsSelectZero exWs exLen 2 p := by
  refine hinted_select_zero_correct exWs exLen 2 2 1 exLenOK (by decide) ?_ (by decide)
  rintro p ⟨_, _, h3⟩
  rcases Nat.lt_or_ge p 2 with h | h
  · exfalso
    have : p = 0 ∨ p = 1 := by omega
    rcases this with rfl | rfl <;> revert h3 <;> decide
  · exact h

/-! ## vocabulary bridges -/

theorem polBit_false (ws : Array Nat) : polBit false ws = bitAt 64 ws := by
  funext k; simp [polBit]

theorem polBit_true (ws : Array Nat) : polBit true ws = fun k => !bitAt 64 ws k := by
  funext k; simp [polBit]

theorem count_ones_eq (P : Params) (ws : Array Nat) (len : Nat) (hP : P.zero = false) :
    count P ws len = numOnes ws len := by
  unfold count; rw [hP, polBit_false, numOnes_eq_cnt]

theorem count_zeros_eq (P : Params) (ws : Array Nat) (len : Nat) (hP : P.zero = true) :
    count P ws len = numZeros ws len := by
  unfold count; rw [hP, polBit_true, numZeros_eq_cnt]

/-! ## (Q) query correct from the invariant -/

/-- **C02 (Q), polarity-generic.**  If the arrays satisfy `AdaptInvOK`, then for every valid rank the
query `select_unchecked` / `select_zero_unchecked` returns — without any out-of-bounds unchecked read
and without panicking — the position of the bit of that rank. -/
theorem adapt_query_correct (P : Params) (idx : Idx) (ws : Array Nat) (len : Nat)
    (hlen : len ≤ 64 * ws.size) (h : AdaptInvOK P idx ws len) :
    ∀ r, r < count P ws len →
      ∃ p, selectUnchecked P ws idx r = .ok p ∧ IsSel (polBit P.zero ws) len r p :=
  fun r hr => ⟨pos P ws len r, selectUnchecked_correct P idx ws len hlen h r hr, pos_spec hr⟩

example : ∀ r, r < count exP exWs exLen →
    ∃ p, selectUnchecked exP exWs exIdx r = .ok p ∧ IsSel (polBit exP.zero exWs) exLen r p :=
  adapt_query_correct exP exIdx exWs exLen exLenOK exInv

/-- **C02 (Q) for `SelectAdapt` / `SelectAdaptConst`**: `select_unchecked r` is the position of the one
of rank `r` for every `r < numOnes`. -/
theorem adapt_select_unchecked_correct (P : Params) (idx : Idx) (ws : Array Nat) (len : Nat)
    (hP : P.zero = false) (hlen : len ≤ 64 * ws.size) (h : AdaptInvOK P idx ws len) :
    ∀ r, r < numOnes ws len → ∃ p, selectUnchecked P ws idx r = .ok p ∧ IsSelect ws len r p := by
  intro r hr
  rw [← count_ones_eq P ws len hP] at hr
  obtain ⟨p, h1, h2⟩ := adapt_query_correct P idx ws len hlen h r hr
  refine ⟨p, h1, ?_⟩
  rw [hP, polBit_false] at h2
  exact (isSelect_iff ws len r p).mpr h2

example : ∀ r, r < numOnes exWs exLen → ∃ p, selectUnchecked exP exWs exIdx r = .ok p ∧ IsSelect exWs exLen r p :=
  adapt_select_unchecked_correct exP exIdx exWs exLen rfl exLenOK exInv

/-- **C02 (Q) for `SelectZeroAdapt` / `SelectZeroAdaptConst`** -/
theorem adapt_select_zero_unchecked_correct (P : Params) (idx : Idx) (ws : Array Nat) (len : Nat)
    (hP : P.zero = true) (hlen : len ≤ 64 * ws.size) (h : AdaptInvOK P idx ws len) :
    ∀ r, r < numZeros ws len → ∃ p, selectUnchecked P ws idx r = .ok p ∧ IsSelectZero ws len r p := by
  intro r hr
  rw [← count_zeros_eq P ws len hP] at hr
  obtain ⟨p, h1, h2⟩ := adapt_query_correct P idx ws len hlen h r hr
  refine ⟨p, h1, ?_⟩
  rw [hP, polBit_true] at h2
  exact (isSelectZero_iff ws len r p).mpr h2

example : ∀ r, r < numZeros exWs exLen →
    ∃ p, selectUnchecked exPz exWs exIdxz r = .ok p ∧ IsSelectZero exWs exLen r p :=
  adapt_select_zero_unchecked_correct exPz exIdxz exWs exLen rfl exLenOK exInvz

/-- **`Select::select` = specification** (both the `Some` and the `None` side): with `num_ones()`
correct, `select r` never panics, never reads out of bounds and returns `selectSpec ws len r`. -/
theorem adapt_select_correct (P : Params) (idx : Idx) (ws : Array Nat) (len : Nat)
    (hP : P.zero = false) (hlen : len ≤ 64 * ws.size) (h : AdaptInvOK P idx ws len) (r : Nat) :
    select P ws idx (numOnes ws len) r = .ok (selectSpec ws len r) := by
  unfold select
  by_cases hr : r ≥ numOnes ws len
  · rw [if_pos hr, (selectSpec_eq_none_iff ws len r).mpr hr]
  · rw [if_neg hr]
    obtain ⟨p, h1, h2⟩ := adapt_select_unchecked_correct P idx ws len hP hlen h r (by omega)
    rw [(selectSpec_eq_some_iff ws len r p).mpr h2]
    simp only [bind, Out.bind, h1, pure]

example (r : Nat) : select exP exWs exIdx (numOnes exWs exLen) r = .ok (selectSpec exWs exLen r) :=
  adapt_select_correct exP exIdx exWs exLen rfl exLenOK exInv r

/-- **`SelectZero::select_zero` = specification** -/
theorem adapt_select_zero_correct (P : Params) (idx : Idx) (ws : Array Nat) (len : Nat)
    (hP : P.zero = true) (hlen : len ≤ 64 * ws.size) (h : AdaptInvOK P idx ws len) (r : Nat) :
    select P ws idx (numZeros ws len) r = .ok (selectZeroSpec ws len r) := by
  unfold select
  by_cases hr : r ≥ numZeros ws len
  · rw [if_pos hr, (selectZeroSpec_eq_none_iff ws len r).mpr hr]
  · rw [if_neg hr]
    obtain ⟨p, h1, h2⟩ := adapt_select_zero_unchecked_correct P idx ws len hP hlen h r (by omega)
    rw [(selectZeroSpec_eq_some_iff ws len r p).mpr h2]
    simp only [bind, Out.bind, h1, pure]

example (r : Nat) : select exPz exWs exIdxz (numZeros exWs exLen) r = .ok (selectZeroSpec exWs exLen r) :=
  adapt_select_zero_correct exPz exIdxz exWs exLen rfl exLenOK exInvz r

/-- `select r = None ↔ r ≥ count` (under the invariant the query never fails, so `None` comes only from
the bound check) -/
theorem adapt_select_none_iff (P : Params) (idx : Idx) (ws : Array Nat) (len : Nat)
    (hlen : len ≤ 64 * ws.size) (h : AdaptInvOK P idx ws len) (r : Nat) :
    select P ws idx (count P ws len) r = .ok none ↔ r ≥ count P ws len := by
  unfold select
  by_cases hr : r ≥ count P ws len
  · rw [if_pos hr]; exact ⟨fun _ => hr, fun _ => rfl⟩
  · rw [if_neg hr]
    have := selectUnchecked_correct P idx ws len hlen h r (by omega)
    simp only [bind, Out.bind, this, pure]
    constructor
    · intro hh; cases hh
    · intro hh; exact absurd hh hr

example (r : Nat) : select exP exWs exIdx (count exP exWs exLen) r = .ok none ↔ r ≥ count exP exWs exLen :=
  adapt_select_none_iff exP exIdx exWs exLen exLenOK exInv r

/-! ## (B) the builder establishes the invariant, for all inputs -/

theorem exLen62 : max 1 exLen < 2 ^ 62 := by decide

/-- **C02 (B).**  For every backend `ws` (stale bits beyond `len` and extra words included, no bound on
the word values needed), every length `len ≤ 64 * ws.size` with `max 1 len < 2^62`, every polarity and
all parameters `L, M < 64`, the builder (`_new` of the run-time variants after clamping `M`, `new` of
the const variants) — run with the true number of selectable bits — terminates without panic
(none of its `assert!`, `debug_assert!`, checked subtractions, safe indexings fires) and its arrays
satisfy `AdaptInvOK`.
The two side conditions are forced: `1 << L` / `1 << M` overflow for `L, M ≥ 64`; for
`len ≥ 2^62` positions collide with the two tag bits of an inventory entry. -/
theorem adapt_build_inv (P : Params) (ws : Array Nat) (len : Nat) (hL : P.L < 64) (hM : P.M < 64)
    (hlen : len ≤ 64 * ws.size) (h62 : max 1 len < 2 ^ 62) :
    ∃ idx, build P ws len (count P ws len) = .ok idx ∧ AdaptInvOK P idx ws len :=
  build_spec P ws len hL hM hlen h62

example : ∃ idx, build exPz exWs exLen (count exPz exWs exLen) = .ok idx ∧ AdaptInvOK exPz idx exWs exLen :=
  adapt_build_inv exPz exWs exLen (by decide) (by decide) exLenOK exLen62

/-- `SelectAdaptConst::<_, _, l, m>::new` / `SelectZeroAdaptConst::new` over a structure reporting the
true `count_ones()` -/
theorem adapt_const_build_inv (zero : Bool) (l m : Nat) (ws : Array Nat) (len : Nat)
    (hl : l < 64) (hm : m < 64) (hlen : len ≤ 64 * ws.size) (h62 : max 1 len < 2 ^ 62) :
    ∃ idx, buildConst zero l m ws len (numOnes ws len) = .ok (paramsConst zero l m, idx) ∧
      AdaptInvOK (paramsConst zero l m) idx ws len :=
  buildConst_spec zero l m ws len hl hm hlen h62

example : ∃ idx, buildConst true 3 1 exWs exLen (numOnes exWs exLen) = .ok (paramsConst true 3 1, idx) ∧
    AdaptInvOK (paramsConst true 3 1) idx exWs exLen :=
  adapt_const_build_inv true 3 1 exWs exLen (by decide) (by decide) exLenOK exLen62

/-- `SelectAdapt::with_inv` / `SelectZeroAdapt::with_inv` (any `max_log2_u64_per_subinventory`) -/
theorem adapt_with_inv_build_inv (zero : Bool) (l maxM : Nat) (ws : Array Nat) (len : Nat)
    (hl : l < 64) (hlen : len ≤ 64 * ws.size) (h62 : max 1 len < 2 ^ 62) :
    ∃ idx, buildRun zero "inv" l maxM ws len (numOnes ws len) = .ok (paramsRun zero l maxM, idx) ∧
      AdaptInvOK (paramsRun zero l maxM) idx ws len :=
  buildRun_inv_spec zero l maxM ws len hl hlen h62

example : ∃ idx, buildRun false "inv" 2 16 exWs exLen (numOnes exWs exLen) = .ok (paramsRun false 2 16, idx) ∧
    AdaptInvOK (paramsRun false 2 16) idx exWs exLen :=
  adapt_with_inv_build_inv false 2 16 exWs exLen (by decide) exLenOK exLen62

/-- `SelectAdapt::new` (`how = "new"`, target span 8192) and `with_span` (any other `how ≠ "inv"`,
target span `p1`).  Forced hypothesis: `count * span < 2^64` — the Rust code computes
`num_ones * target_inventory_span` in `usize` (checked build: panic on overflow). -/
theorem adapt_with_span_build_inv (zero : Bool) (how : String) (p1 maxM : Nat) (ws : Array Nat) (len : Nat)
    (hhow : (how == "inv") = false)
    (hov : count (paramsRun zero 0 0) ws len * (if how == "new" then 8192 else p1) < 2 ^ 64)
    (hlen : len ≤ 64 * ws.size) (h62 : max 1 len < 2 ^ 62) :
    ∃ l idx, buildRun zero how p1 maxM ws len (numOnes ws len) = .ok (paramsRun zero l maxM, idx) ∧
      log2ForSpan len (count (paramsRun zero 0 0) ws len) (if how == "new" then 8192 else p1) = .ok l ∧
      AdaptInvOK (paramsRun zero l maxM) idx ws len :=
  buildRun_span_spec zero how p1 maxM ws len hhow hov hlen h62

example : ∃ l idx, buildRun true "new" 0 3 exWs exLen (numOnes exWs exLen) = .ok (paramsRun true l 3, idx) ∧
    log2ForSpan exLen (count (paramsRun true 0 0) exWs exLen) (if "new" == "new" then 8192 else 0) = .ok l ∧
    AdaptInvOK (paramsRun true l 3) idx exWs exLen :=
  adapt_with_span_build_inv true "new" 0 3 exWs exLen (by decide) (by decide) exLenOK exLen62

/-! ## end to end: the layers answer the specification -/

/-- the query closure of a layer built from `(P, idx)` -/
theorem mkLayer_select (parts : String) (P : Params) (ws : Array Nat) (len : Nat) (idx : Idx)
    (hP : P.zero = false) (hlen : len ≤ 64 * ws.size) (h : AdaptInvOK P idx ws len) :
    ∃ q, (mkLayer parts P ws len (numOnes ws len) idx).select = some q ∧
      ∀ r, q r = .ok (selectSpec ws len r) := by
  unfold mkLayer
  simp only [hP, Bool.false_eq_true, if_false]
  refine ⟨_, rfl, ?_⟩
  intro r
  have hc := countOf_spec P ws len
  rw [hP] at hc
  simp only [bind, Out.bind, hc]
  rw [count_ones_eq P ws len hP]
  exact adapt_select_correct P idx ws len hP hlen h r

theorem mkLayer_selectZero (parts : String) (P : Params) (ws : Array Nat) (len : Nat) (idx : Idx)
    (hP : P.zero = true) (hlen : len ≤ 64 * ws.size) (h : AdaptInvOK P idx ws len) :
    ∃ q, (mkLayer parts P ws len (numOnes ws len) idx).selectZero = some q ∧
      ∀ r, q r = .ok (selectZeroSpec ws len r) := by
  unfold mkLayer
  simp only [hP, if_true]
  refine ⟨_, rfl, ?_⟩
  intro r
  have hc := countOf_spec P ws len
  rw [hP] at hc
  simp only [bind, Out.bind, hc]
  rw [count_zeros_eq P ws len hP]
  exact adapt_select_zero_correct P idx ws len hP hlen h r

/-- **C02 for `SelectAdaptConst<_, _, l, m>`**: built by the modelled builder over any bit vector,
`select r` is `selectSpec ws len r` for every `r` (the r-th one, `None` from `numOnes` on). -/
theorem adaptConst_select_correct (l m : Nat) (ws : Array Nat) (len : Nat) (hl : l < 64) (hm : m < 64)
    (hlen : len ≤ 64 * ws.size) (h62 : max 1 len < 2 ^ 62) :
    ∃ q, (layerConst false l m ws len (numOnes ws len)).select = some q ∧
      ∀ r, q r = .ok (selectSpec ws len r) := by
  obtain ⟨idx, he, hinv⟩ := buildConst_spec false l m ws len hl hm hlen h62
  unfold layerConst
  rw [he]
  exact mkLayer_select _ _ ws len idx rfl hlen hinv

example : ∃ q, (layerConst false 1 0 exWs exLen (numOnes exWs exLen)).select = some q ∧
    ∀ r, q r = .ok (selectSpec exWs exLen r) :=
  adaptConst_select_correct 1 0 exWs exLen (by decide) (by decide) exLenOK exLen62

/-- **C02 for `SelectZeroAdaptConst<_, _, l, m>`** -/
theorem adaptConst_select_zero_correct (l m : Nat) (ws : Array Nat) (len : Nat) (hl : l < 64) (hm : m < 64)
    (hlen : len ≤ 64 * ws.size) (h62 : max 1 len < 2 ^ 62) :
    ∃ q, (layerConst true l m ws len (numOnes ws len)).selectZero = some q ∧
      ∀ r, q r = .ok (selectZeroSpec ws len r) := by
  obtain ⟨idx, he, hinv⟩ := buildConst_spec true l m ws len hl hm hlen h62
  unfold layerConst
  rw [he]
  exact mkLayer_selectZero _ _ ws len idx rfl hlen hinv

example : ∃ q, (layerConst true 1 0 exWs exLen (numOnes exWs exLen)).selectZero = some q ∧
    ∀ r, q r = .ok (selectZeroSpec exWs exLen r) :=
  adaptConst_select_zero_correct 1 0 exWs exLen (by decide) (by decide) exLenOK exLen62

/-- **C02 for `SelectAdapt::with_inv`** -/
theorem adapt_with_inv_select_correct (l maxM : Nat) (ws : Array Nat) (len : Nat) (hl : l < 64)
    (hlen : len ≤ 64 * ws.size) (h62 : max 1 len < 2 ^ 62) :
    ∃ q, (layerRun false "inv" l maxM ws len (numOnes ws len)).select = some q ∧
      ∀ r, q r = .ok (selectSpec ws len r) := by
  obtain ⟨idx, he, hinv⟩ := buildRun_inv_spec false l maxM ws len hl hlen h62
  unfold layerRun
  rw [he]
  exact mkLayer_select _ _ ws len idx rfl hlen hinv

example : ∃ q, (layerRun false "inv" 2 16 exWs exLen (numOnes exWs exLen)).select = some q ∧
    ∀ r, q r = .ok (selectSpec exWs exLen r) :=
  adapt_with_inv_select_correct 2 16 exWs exLen (by decide) exLenOK exLen62

/-- **C02 for `SelectZeroAdapt::with_inv`** -/
theorem adapt_with_inv_select_zero_correct (l maxM : Nat) (ws : Array Nat) (len : Nat) (hl : l < 64)
    (hlen : len ≤ 64 * ws.size) (h62 : max 1 len < 2 ^ 62) :
    ∃ q, (layerRun true "inv" l maxM ws len (numOnes ws len)).selectZero = some q ∧
      ∀ r, q r = .ok (selectZeroSpec ws len r) := by
  obtain ⟨idx, he, hinv⟩ := buildRun_inv_spec true l maxM ws len hl hlen h62
  unfold layerRun
  rw [he]
  exact mkLayer_selectZero _ _ ws len idx rfl hlen hinv

example : ∃ q, (layerRun true "inv" 2 16 exWs exLen (numOnes exWs exLen)).selectZero = some q ∧
    ∀ r, q r = .ok (selectZeroSpec exWs exLen r) :=
  adapt_with_inv_select_zero_correct 2 16 exWs exLen (by decide) exLenOK exLen62

/-- **C02 for `SelectAdapt::new` / `with_span`** (`numOnes * span < 2^64`) -/
theorem adapt_with_span_select_correct (how : String) (p1 maxM : Nat) (ws : Array Nat) (len : Nat)
    (hhow : (how == "inv") = false)
    (hov : numOnes ws len * (if how == "new" then 8192 else p1) < 2 ^ 64)
    (hlen : len ≤ 64 * ws.size) (h62 : max 1 len < 2 ^ 62) :
    ∃ q, (layerRun false how p1 maxM ws len (numOnes ws len)).select = some q ∧
      ∀ r, q r = .ok (selectSpec ws len r) := by
  rw [← count_ones_eq (paramsRun false 0 0) ws len rfl] at hov
  obtain ⟨l, idx, he, _, hinv⟩ := buildRun_span_spec false how p1 maxM ws len hhow hov hlen h62
  unfold layerRun
  rw [he]
  exact mkLayer_select _ _ ws len idx rfl hlen hinv

example : ∃ q, (layerRun false "span" 512 2 exWs exLen (numOnes exWs exLen)).select = some q ∧
    ∀ r, q r = .ok (selectSpec exWs exLen r) :=
  adapt_with_span_select_correct "span" 512 2 exWs exLen (by decide) (by decide) exLenOK exLen62

/-- **C02 for `SelectZeroAdapt::new` / `with_span`** (`numZeros * span < 2^64`) -/
theorem adapt_with_span_select_zero_correct (how : String) (p1 maxM : Nat) (ws : Array Nat) (len : Nat)
    (hhow : (how == "inv") = false)
    (hov : numZeros ws len * (if how == "new" then 8192 else p1) < 2 ^ 64)
    (hlen : len ≤ 64 * ws.size) (h62 : max 1 len < 2 ^ 62) :
    ∃ q, (layerRun true how p1 maxM ws len (numOnes ws len)).selectZero = some q ∧
      ∀ r, q r = .ok (selectZeroSpec ws len r) := by
  rw [← count_zeros_eq (paramsRun true 0 0) ws len rfl] at hov
  obtain ⟨l, idx, he, _, hinv⟩ := buildRun_span_spec true how p1 maxM ws len hhow hov hlen h62
  unfold layerRun
  rw [he]
  exact mkLayer_selectZero _ _ ws len idx rfl hlen hinv

example : ∃ q, (layerRun true "new" 0 3 exWs exLen (numOnes exWs exLen)).selectZero = some q ∧
    ∀ r, q r = .ok (selectZeroSpec exWs exLen r) :=
  adapt_with_span_select_zero_correct "new" 0 3 exWs exLen (by decide) (by decide) exLenOK exLen62

end Sux.RS.Adapt
