import SuxModel.Edge.Spec
import SuxModel.Edge.LemmasLogic
import SuxModel.Edge.LemmasMwhc
import SuxModel.Edge.LemmasRot
import SuxModel.Edge.LemmasSetup
/-!
# C16 — every signature maps to 3 distinct in-range cells, same at build and query time

Model: `SuxModel/Edge/Model.lean` (checked 64-bit arithmetic: any overflow is `panic`).
`ParamsOK lg p` (per logic):
`1 ≤ l ∧ s < 64` (fuse) / `1 ≤ seg_size` (mwhc); `shard_bits_shift ≤ 63` (sharded);
`num_vertices * 2^shard_high_bits < 2^64`; `num_vertices ≤ 2^32` where `Vertex = u32`.
-/
namespace Sux.Edge

/-- **C16, edge part.**  For every logic, every `ParamsOK` parameter set and every 64- or 128-bit
signature: no operation of `edge`, `local_edge`, `shard`, `num_vertices`, `num_shards` overflows
(so checked and unchecked builds compute the same), the three vertices are pairwise distinct,
below `num_vertices * num_shards` (< 2^64), inside `[shard * V, (shard + 1) * V)`, equal to
`local_edge(local_sig(sig))` shifted by `shard * V`, and the local vertices fit the logic's
`Vertex` type. -/
theorem edge_ok (lg : Logic) (p : Params) (hp : ParamsOK lg p) (sig : Sig) (hs : sig.InRange) :
    EdgeOK lg p sig := by
  cases lg
  · exact edgeOK_fuseShards hp hs
  · exact edgeOK_fuseNoShards2 hp hs
  · exact edgeOK_fuseNoShards1 hp hs
  · exact edgeOK_fuseFullSigs hp hs
  · exact edgeOK_mwhcShards hp hs
  · exact edgeOK_mwhcNoShards hp hs

-- non-vacuity: the parameters the real `FuseLge3Shards` chooses for n = 10^8, ε = 0.001,
-- max shard 13·10^6, and an all-ones signature
example : EdgeOK .fuseShards { shift := 60, s := 15, l := 439 }
    { w0 := 2 ^ 64 - 1, w1 := 2 ^ 64 - 1 } :=
  edge_ok _ _ (by decide) _ ⟨by decide, by decide⟩
example : edge .fuseShards { shift := 60, s := 15, l := 439 }
    { w0 := 2 ^ 64 - 1, w1 := 2 ^ 64 - 1 } = .ok (115539967, 115539968, 115605503) := by
  decide +kernel
-- non-vacuity at the edge of the domain: 2^40 shards of 2^24 vertices minus one segment
example : EdgeOK .fuseFullSigs { shift := 23, s := 19, l := 29 } { w0 := 2 ^ 63 + 5, w1 := 77 } :=
  edge_ok _ _ (by decide) _ ⟨by decide, by decide⟩
example : EdgeOK .mwhcShards { shift := 57, seg := 5376 } { w0 := 2 ^ 64 - 1, w1 := 12345 } :=
  edge_ok _ _ (by decide) _ ⟨by decide, by decide⟩

/-- **C16, sort keys.** `sort_key(sig) < num_sort_keys()` (and it does not overflow). -/
theorem sort_key_lt (lg : Logic) (p : Params) (hp : ParamsOK lg p) (sig : Sig)
    (hs : sig.InRange) : ∃ k, sortKey lg p sig = .ok k ∧ k < numSortKeys lg p :=
  sortKey_lt hp hs

example : ∃ k, sortKey .fuseFullSigs { shift := 60, s := 15, l := 439 }
    { w0 := 2 ^ 64 - 1, w1 := 0 } = .ok k ∧ k < 439 :=
  sort_key_lt .fuseFullSigs _ (by decide) _ ⟨by decide, by decide⟩

/-- **C16, shard = signature-store high bits.** `shard(sig)` (`sig[0] >> shift >> 1`, also for
`shard_high_bits = 0`, i.e. `>> 63 >> 1`) is `Sig::high_bits(shard_high_bits)`
(`sig[0].rotate_left(h) & ((1 << h) - 1)`), the value the signature store shards by. -/
theorem shard_eq_high_bits (lg : Logic) (p : Params)
    (hshift : lg.sharded = true → p.shift ≤ 63) (sig : Sig) (hs : sig.InRange) :
    shard lg p sig = .ok (highBits sig (hOf lg p)) :=
  shard_eq_highBits hshift hs

example : shard .fuseShards { shift := 63 } { w0 := 2 ^ 64 - 1, w1 := 0 } = .ok 0 :=
  (shard_eq_high_bits .fuseShards { shift := 63 } (fun _ => by decide) _
    ⟨by decide, by decide⟩).trans
    (by decide +kernel)

/-- `FuseLge3FullSigs` inverts `sig[0].rotate_right(shard_bits_shift).rotate_right(1)`; that is
`sig[0]` rotated left by `shard_high_bits` (the shard bits move to the bottom). -/
theorem fullsigs_rotation (x shift : Nat) (hx : x < 2 ^ 64) (hshift : shift ≤ 63) :
    rotr64 (rotr64 x shift) 1 = rotl64 x (63 - shift) :=
  rotr_rotr_eq_rotl hx hshift

example : rotr64 (rotr64 (2 ^ 63 + 1) 60) 1 = 12 := by decide +kernel

/-- **C16, set-up part.**  Whatever the floating-point sub-results, if
`set_up_shards(n, eps)` followed by `set_up_graphs(n, max_shard)` returns (no panic), the
parameters are `ParamsOK` — under `SetupHyps` (see there: `n < 2^32 * MIN_FUSE_SHARD` and
`⌈c * max_shard⌉ ≤ 2^63` for the sharded fuse logics; `lin_log2_seg_size ≤ 30` for the
unsharded ones; for `Mwhc3Shards` at most 31 shard bits, for `Mwhc3NoShards` (no guard in the
code) `3 * seg_size < 2^64`). -/
theorem setup_params_ok (lg : Logic) (n maxShard : Nat) (f : Floats) (p0 p : Params) (lge : Bool)
    (hyp : SetupHyps lg n f) (h : setUp lg n maxShard f p0 = .ok (p, lge)) : ParamsOK lg p := by
  cases lg
  · exact setup_params_ok_fuse_sharded (Or.inl rfl) hyp.1 hyp.2 h
  · exact setup_params_ok_fuseNoShards (Or.inl rfl) hyp.1 (fun _ => hyp.2) h
  · exact setup_params_ok_fuseNoShards (Or.inr rfl) hyp (fun h => by cases h) h
  · exact setup_params_ok_fuse_sharded (Or.inr rfl) hyp.1 hyp.2 h
  · exact setup_params_ok_mwhcShards hyp h
  · exact setup_params_ok_mwhcNoShards hyp h

-- non-vacuity: the float sub-results of the real set-up for n = 10^8, ε = 0.001,
-- max shard 13·10^6 (sharding_high_bits = 3, ⌈1.11·13·10^6⌉, log2_seg_size = 15)
example : setUp .fuseShards 100000000 13000000
    { shb := 3, deb := 3, cm := 14430000, fuseS := 15 } {} =
    .ok ({ shift := 60, s := 15, l := 439 }, false) := by decide +kernel
example : ParamsOK .fuseShards { shift := 60, s := 15, l := 439 } :=
  setup_params_ok .fuseShards 100000000 13000000
    { shb := 3, deb := 3, cm := 14430000, fuseS := 15 } {} _ false
    ⟨by decide, by decide⟩ (by decide +kernel)

/-- Build and query agree: after a successful set-up every signature satisfies `EdgeOK`. -/
theorem setup_edge_ok (lg : Logic) (n maxShard : Nat) (f : Floats) (p0 p : Params) (lge : Bool)
    (hyp : SetupHyps lg n f) (h : setUp lg n maxShard f p0 = .ok (p, lge)) (sig : Sig)
    (hs : sig.InRange) : EdgeOK lg p sig :=
  edge_ok lg p (setup_params_ok lg n maxShard f p0 p lge hyp h) sig hs

/-- **D20 fixed** (8665874, feature `mwhc`): a float result `seg_size = 0` (what `n = 0` gives) is
clamped by `.max(1)`: the set-up returns `seg_size = 1` (128 after rounding when there are shard
bits), the parameters are `ParamsOK` and every signature satisfies `EdgeOK`. -/
theorem mwhc_n_zero_ok (n maxShard : Nat) (sig : Sig) (hs : sig.InRange) :
    (setUp .mwhcNoShards n maxShard { segF := 0 } {} = .ok ({ seg := 1 }, false) ∧
      ParamsOK .mwhcNoShards { seg := 1 } ∧ EdgeOK .mwhcNoShards { seg := 1 } sig) ∧
    (setUp .mwhcShards n maxShard { segF := 0 } {} = .ok ({ shift := 63, seg := 1 }, false) ∧
      ParamsOK .mwhcShards { shift := 63, seg := 1 } ∧
      EdgeOK .mwhcShards { shift := 63, seg := 1 } sig) ∧
    (setUp .mwhcShards n maxShard { segF := 0, shb := 3, deb := 5 } {} =
        .ok ({ shift := 60, seg := 128 }, false) ∧
      ParamsOK .mwhcShards { shift := 60, seg := 128 } ∧
      EdgeOK .mwhcShards { shift := 60, seg := 128 } sig) :=
  ⟨⟨(setup_mwhc_seg_clamped n maxShard {}).1, by decide, edge_ok _ _ (by decide) sig hs⟩,
   ⟨(setup_mwhc_seg_clamped n maxShard {}).2.1, by decide, edge_ok _ _ (by decide) sig hs⟩,
   ⟨(setup_mwhc_seg_clamped n maxShard {}).2.2, by decide, edge_ok _ _ (by decide) sig hs⟩⟩

example : edge .mwhcNoShards { seg := 1 } { w0 := 2 ^ 64 - 1, w1 := 5 } = .ok (0, 1, 2) := by
  decide +kernel

/-- Raw parameters with `seg_size = 0` (no longer produced by the set-up, but e.g. a
default-constructed `Mwhc3Shards`/`Mwhc3NoShards`) are not `ParamsOK`, and indeed every signature
then has the edge `[0, 0, 0]` over an empty array, so `EdgeOK` fails: `1 ≤ seg_size` in `ParamsOK`
is necessary. -/
theorem mwhc_seg_zero_counterexample (lg : Logic) (hf : lg.isFuse = false) (p : Params)
    (hseg : p.seg = 0) (hshift : p.shift ≤ 63) (sig : Sig) (hs : sig.InRange) :
    ¬ ParamsOK lg p ∧
    edge lg p sig = .ok (0, 0, 0) ∧ numVertices lg p = .ok 0 ∧ ¬ EdgeOK lg p sig :=
  ⟨fun hp => by have := (paramsOK_mwhc hf hp).1; omega,
   (mwhc_seg_zero_edge lg hf p hseg hshift sig hs).1,
   (mwhc_seg_zero_edge lg hf p hseg hshift sig hs).2,
   mwhc_seg_zero_not_edgeOK lg hf p hseg hshift sig hs⟩

example : ¬ EdgeOK .mwhcNoShards {} { w0 := 1, w1 := 2 } :=
  (mwhc_seg_zero_counterexample .mwhcNoShards rfl {} rfl (by decide) _ ⟨by decide, by decide⟩).2.2.2

/-- The hypothesis `cm ≤ 2^63` of `setup_params_ok` cannot be dropped: the final `assert!` of
`FuseLge3Shards::set_up_graphs` uses a wrapping `<<` and passes for `s = 32`,
`⌈c * max_shard⌉ = 2^64 - 1`, leaving `num_vertices() = 0`. -/
theorem setup_assert_wraps_counterexample :
    finishShards 32 false { cm := 2 ^ 64 - 1 } {} = .ok ({ s := 32, l := 2 ^ 32 - 2 }, false) ∧
    ¬ ParamsOK .fuseShards { s := 32, l := 2 ^ 32 - 2 } ∧
    numVertices .fuseShards { s := 32, l := 2 ^ 32 - 2 } = .ok 0 :=
  finishShards_assert_wraps

end Sux.Edge
