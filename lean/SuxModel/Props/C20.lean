import SuxModel.Lender.LemmasLines
/-!
# C20 — rewinding an input lender replays exactly the same sequence of items

Model: `SuxModel/Lender/Model.lean` (mirrors `src/utils/lenders.rs` and `lender::Take` of
lender-0.3.2), specification: `SuxModel/Lender/Spec.lean` (`splitLines`, `specItems`).

Vocabulary: `items L s` = the items of a full pass (`while let Some(x) = l.next()`) from state
`s`; `exec L h s` = the state after the history `h` (any list of `next` / `rewind` calls, so any
consumed prefix — including polls after the end — and any number of rewinds); `calls h` = the
number of `next` calls in `h`.

Trusted base specific to C20 (stated in the model header):
* `BufReader` / `Cursor` / `File` = a byte list with a position; `seek(Start(0))` cannot fail;
  no I/O errors;
* the zstd / flate2 decoders are a *parameter* `dec` (compressed bytes from offset 0 ↦ plain
  bytes): the theorems hold for every `dec`; that the real decoders compute the right function
  from a frame start is tested by the harness (plain text → real compressor → real lender), not
  proved;
* `str::from_utf8` accepts exactly `utf8Valid` (RFC 3629 automaton).

Result: `LineLender`, `ZstdLineLender`, `GzipLineLender` (tree with `seek(Start(0))` in `rewind`) and
`FromIntoIterator` satisfy C20.  `lender::Take` does **not** (defect D18): `into_parts` returns the
*remaining* count, so the replay is cut at `n - calls h` (`take_rewind_items_*`,
`take_rewind_counterexample`).
-/
namespace Sux.Lender

/-! ## what a pass yields -/

/-- The items of a full pass over a file are its lines (`splitLines`: split at LF, last
unterminated line included, each exactly once, in order) without terminator (LF or CRLF). -/
theorem lines_spec (bytes : List Nat) :
    items lineOps (LineLender.new bytes) = specItems bytes := by
  rw [line_refines.toStream.items_eq]; exact srcRem_fresh bytes

example : items lineOps (LineLender.new [97, 13, 10, 10, 98, 13]) =
    [.ok [97], .ok [], .ok [98, 13]] := by decide

/-- the same for the compressed lenders, over the decoded bytes, for every decoder -/
theorem lines_spec_compressed (file : List Nat) (dec : List Nat → List Nat) :
    items compOps (CLender.new file dec) = specItems (dec file) := by
  rw [comp_refines.toStream.items_eq]; exact srcRem_fresh _

example : items compOps (CLender.new [1, 2, 3] (fun c => c.map (· + 96) ++ [10, 0xFF])) =
    [.ok [97, 98, 99], .err] := by decide

/-- `splitLines` is *the* splitting of the file at LF: no line contains an LF; the lines, each
closed one followed by an LF, concatenate to the file; only the last line can be unclosed, and then
it is non-empty. -/
theorem splitLines_characterisation (bytes : List Nat) :
    (∀ p ∈ splitLines bytes, 10 ∉ p.1) ∧
    ((splitLines bytes).map rawLine).flatten = bytes ∧
    (∀ p ∈ (splitLines bytes).dropLast, p.2 = true) ∧
    (∀ l, (splitLines bytes).getLast? = some (l, false) → l ≠ []) :=
  ⟨splitLines_noLF bytes, splitLines_join bytes, (splitLines_flags bytes).1,
    (splitLines_flags bytes).2⟩

example : splitLines [97, 10, 10, 98] = [([97], true), ([], true), ([98], false)] := by decide

/-- a pass really ends on a `None` (the loop bound `fuel` of the executable `pass` is not what
stops it): any larger bound gives the same items and the same final state -/
theorem pass_complete :
    (∀ (l : LineLender) (f : Nat), lineOps.fuel l ≤ f → drain lineOps f l = pass lineOps l) ∧
    (∀ (c : CLender) (f : Nat), compOps.fuel c ≤ f → drain compOps f c = pass compOps c) ∧
    (∀ (α : Type) (i : FromIter α) (f : Nat),
        (iterOps α).fuel i ≤ f → drain (iterOps α) f i = pass (iterOps α) i) :=
  ⟨fun l f h => line_refines.toStream.pass_complete l f h,
   fun c f h => comp_refines.toStream.pass_complete c f h,
   fun α i f h => (iter_refines α).toStream.pass_complete i f h⟩

/-- the same for a `Take` of any of them -/
theorem pass_complete_take {σ ι : Type} {L : Ops σ ι} {all rem : σ → List ι}
    (R : Refines L all rem) (t : Take σ) (f : Nat) (h : (takeOps L).fuel t ≤ f) :
    drain (takeOps L) f t = pass (takeOps L) t :=
  (take_stream R.toStream).pass_complete t f h

example : (takeOps (iterOps Nat)).fuel (Take.new (FromIter.from [1, 2, 3]) 2) ≤ 100 := by decide

/-! ## rewind replays: the four lenders of `lenders.rs` -/

/-- `LineLender`: after any history, `rewind` followed by a full pass yields exactly the items of
the first full pass. -/
theorem rewind_replays_line (bytes : List Nat) (h : List Op) :
    items lineOps (lineOps.rewind (exec lineOps h (LineLender.new bytes))) =
      items lineOps (LineLender.new bytes) :=
  line_refines.rewind_replays _ (srcRem_fresh bytes).symm h

example : items lineOps (lineOps.rewind (exec lineOps [.next, .rewind, .next, .next, .next]
    (LineLender.new [97, 10, 98]))) = [.ok [97], .ok [98]] := by decide

/-- `ZstdLineLender` / `GzipLineLender`, for every decoder function -/
theorem rewind_replays_compressed (file : List Nat) (dec : List Nat → List Nat) (h : List Op) :
    items compOps (compOps.rewind (exec compOps h (CLender.new file dec))) =
      items compOps (CLender.new file dec) :=
  comp_refines.rewind_replays _ (srcRem_fresh _).symm h

example : items compOps (compOps.rewind (exec compOps [.next, .next, .next, .rewind, .next]
    (CLender.new [1, 2] (fun c => c ++ [10] ++ c)))) = [.ok [1, 2], .ok [1, 2]] := by decide

/-- `FromIntoIterator` over a list -/
theorem rewind_replays_iter {α : Type} (xs : List α) (h : List Op) :
    items (iterOps α) ((iterOps α).rewind (exec (iterOps α) h (FromIter.from xs))) =
      items (iterOps α) (FromIter.from xs) :=
  (iter_refines α).rewind_replays _ rfl h

example : items (iterOps Nat) ((iterOps Nat).rewind (exec (iterOps Nat) [.next, .next, .rewind, .next]
    (FromIter.from [5, 6, 7]))) = [5, 6, 7] := by decide

/-- C20 for the lenders defined in `lenders.rs` -/
theorem rewind_replays :
    (∀ (bytes : List Nat) (h : List Op),
      items lineOps (lineOps.rewind (exec lineOps h (LineLender.new bytes))) =
        items lineOps (LineLender.new bytes)) ∧
    (∀ (file : List Nat) (dec : List Nat → List Nat) (h : List Op),
      items compOps (compOps.rewind (exec compOps h (CLender.new file dec))) =
        items compOps (CLender.new file dec)) ∧
    (∀ (α : Type) (xs : List α) (h : List Op),
      items (iterOps α) ((iterOps α).rewind (exec (iterOps α) h (FromIter.from xs))) =
        items (iterOps α) (FromIter.from xs)) :=
  ⟨rewind_replays_line, rewind_replays_compressed, fun _ => rewind_replays_iter⟩

/-! ## `lender::Take`: the replay is cut at the remaining count (D18) -/

/-- first pass of `l.take(n)` -/
theorem take_first_pass {σ ι : Type} {L : Ops σ ι} {all rem : σ → List ι}
    (R : Refines L all rem) (s0 : σ) (n : Nat) :
    items (takeOps L) (Take.new s0 n) = (items L s0).take n :=
  take_items R s0 n

/-- **The true statement for `Take`** (any inner lender that is itself a rewindable stream, fresh
state `s0`): after any history `h`, `rewind` + full pass yields the first `n - calls h` items of
the inner lender — not the first `n`. -/
theorem take_rewind_items {σ ι : Type} {L : Ops σ ι} {all rem : σ → List ι}
    (R : Refines L all rem) (s0 : σ) (fresh : all s0 = rem s0) (n : Nat) (h : List Op) :
    items (takeOps L) ((takeOps L).rewind (exec (takeOps L) h (Take.new s0 n))) =
      (items L s0).take (n - calls h) :=
  take_rewind_items_aux R s0 fresh n h

/-- instances for the three kinds of inner lender -/
theorem take_rewind_items_line (bytes : List Nat) (n : Nat) (h : List Op) :
    items (takeOps lineOps)
        ((takeOps lineOps).rewind (exec (takeOps lineOps) h (Take.new (LineLender.new bytes) n))) =
      (specItems bytes).take (n - calls h) := by
  rw [take_rewind_items line_refines _ (srcRem_fresh bytes).symm, lines_spec]

theorem take_rewind_items_compressed (file : List Nat) (dec : List Nat → List Nat) (n : Nat)
    (h : List Op) :
    items (takeOps compOps)
        ((takeOps compOps).rewind (exec (takeOps compOps) h (Take.new (CLender.new file dec) n))) =
      (specItems (dec file)).take (n - calls h) := by
  rw [take_rewind_items comp_refines _ (srcRem_fresh _).symm, lines_spec_compressed]

theorem take_rewind_items_iter {α : Type} (xs : List α) (n : Nat) (h : List Op) :
    items (takeOps (iterOps α))
        ((takeOps (iterOps α)).rewind
          (exec (takeOps (iterOps α)) h (Take.new (FromIter.from xs) n))) =
      xs.take (n - calls h) := by
  rw [take_rewind_items (iter_refines α) _ rfl, (iter_refines α).toStream.items_eq]; rfl

example : items (takeOps (iterOps Nat)) ((takeOps (iterOps Nat)).rewind
    (exec (takeOps (iterOps Nat)) [.next, .next] (Take.new (FromIter.from [1, 2, 3, 4, 5]) 4))) =
    [1, 2] := by decide

/-- the replay has `n − consumed` items (when the inner lender has at least `n`) -/
theorem take_rewind_length {σ ι : Type} {L : Ops σ ι} {all rem : σ → List ι}
    (R : Refines L all rem) (s0 : σ) (fresh : all s0 = rem s0) (n : Nat) (h : List Op)
    (hn : n ≤ (items L s0).length) :
    (items (takeOps L) ((takeOps L).rewind (exec (takeOps L) h (Take.new s0 n)))).length =
      n - calls h := by
  rw [take_rewind_items R s0 fresh, List.length_take]; omega

example : (5 : Nat) ≤ (items (iterOps Nat) (FromIter.from [1, 2, 3, 4, 5])).length := by decide

/-- **Counterexample to C20 for `Take`** (D18): `FromIntoIterator::from(vec![1,2,3,4,5]).take(5)`,
three items consumed, `rewind`: the replay is `[1, 2]`, the first pass was `[1, 2, 3, 4, 5]`. -/
theorem take_rewind_counterexample :
    items (takeOps (iterOps Nat)) ((takeOps (iterOps Nat)).rewind
        (exec (takeOps (iterOps Nat)) [.next, .next, .next]
          (Take.new (FromIter.from [1, 2, 3, 4, 5]) 5))) = [1, 2] ∧
    items (takeOps (iterOps Nat)) (Take.new (FromIter.from [1, 2, 3, 4, 5]) 5) = [1, 2, 3, 4, 5] := by
  decide

/-- the same on a line lender, after one complete pass (which polls `next` once more than there
are items): `"a\nb\nc\n"`, `take(3)`, full pass, `rewind` ⇒ nothing is replayed -/
theorem take_rewind_counterexample_lines :
    items (takeOps lineOps) ((takeOps lineOps).rewind
        (pass (takeOps lineOps) (Take.new (LineLender.new [97, 10, 98, 10, 99, 10]) 3)).1) = [] ∧
    items (takeOps lineOps) (Take.new (LineLender.new [97, 10, 98, 10, 99, 10]) 3) =
      [.ok [97], .ok [98], .ok [99]] := by
  decide

/-- hence "rewind replays" is false for `Take` -/
theorem take_rewind_not_replays :
    ¬ ∀ (xs : List Nat) (n : Nat) (h : List Op),
      items (takeOps (iterOps Nat)) ((takeOps (iterOps Nat)).rewind
          (exec (takeOps (iterOps Nat)) h (Take.new (FromIter.from xs) n))) =
        items (takeOps (iterOps Nat)) (Take.new (FromIter.from xs) n) := by
  intro hall
  have h := hall [1, 2, 3, 4, 5] 5 [.next, .next, .next]
  rw [take_rewind_counterexample.1, take_rewind_counterexample.2] at h
  exact absurd h (by decide)

/-- `Take` does replay as long as `next` was never called on it (rewinds only) -/
theorem take_rewind_ok_if_unconsumed {σ ι : Type} {L : Ops σ ι} {all rem : σ → List ι}
    (R : Refines L all rem) (s0 : σ) (fresh : all s0 = rem s0) (n : Nat) (h : List Op)
    (hc : calls h = 0) :
    items (takeOps L) ((takeOps L).rewind (exec (takeOps L) h (Take.new s0 n))) =
      items (takeOps L) (Take.new s0 n) := by
  rw [take_rewind_items R s0 fresh, take_first_pass R, hc, Nat.sub_zero]

example : calls [Op.rewind, Op.rewind] = 0 := by decide

/-- **Exact condition** (used by C17/C07: "the pass after `rewind` delivers all keys"): the replay
of a `Take` equals its first pass iff `next` was never called on it (or `n = 0`), or the remaining
count still covers the whole inner lender. -/
theorem take_replay_complete_iff {σ ι : Type} {L : Ops σ ι} {all rem : σ → List ι}
    (R : Refines L all rem) (s0 : σ) (fresh : all s0 = rem s0) (n : Nat) (h : List Op) :
    items (takeOps L) ((takeOps L).rewind (exec (takeOps L) h (Take.new s0 n))) =
        items (takeOps L) (Take.new s0 n) ↔
      (min (calls h) n = 0 ∨ (items L s0).length ≤ n - calls h) := by
  rw [take_rewind_items R s0 fresh, take_first_pass R, take_eq_take_iff_min]
  omega

example : ¬ (min (calls [Op.next, Op.next, Op.next]) 5 = 0 ∨
    (items (iterOps Nat) (FromIter.from [1, 2, 3, 4, 5])).length ≤ 5 - calls [Op.next, Op.next, Op.next]) := by
  decide

/-- **For C17/C07**: a pass after `rewind` delivers all keys (= the items of the first pass) for
the lenders of `lenders.rs` unconditionally, and for a `Take` of them iff the `Take` is not
partially consumed in the sense of `take_replay_complete_iff`. -/
theorem replay_delivers_all_iff {σ ι : Type} {L : Ops σ ι} {all rem : σ → List ι}
    (R : Refines L all rem) (s0 : σ) (fresh : all s0 = rem s0) :
    (∀ h, items L (L.rewind (exec L h s0)) = items L s0) ∧
    (∀ n h, items (takeOps L) ((takeOps L).rewind (exec (takeOps L) h (Take.new s0 n))) =
        items (takeOps L) (Take.new s0 n) ↔
      (min (calls h) n = 0 ∨ (items L s0).length ≤ n - calls h)) :=
  ⟨fun h => R.rewind_replays s0 fresh h, fun n h => take_replay_complete_iff R s0 fresh n h⟩

/-- the hypotheses of the generic `Take` theorems hold for the three kinds of inner lender -/
theorem base_lenders_refine :
    (∀ bytes, ∃ all rem, Refines lineOps all rem ∧ all (LineLender.new bytes) = rem (LineLender.new bytes)) ∧
    (∀ file dec, ∃ all rem, Refines compOps all rem ∧ all (CLender.new file dec) = rem (CLender.new file dec)) ∧
    (∀ (α : Type) (xs : List α), ∃ all rem, Refines (iterOps α) all rem ∧
        all (FromIter.from xs) = rem (FromIter.from xs)) :=
  ⟨fun bytes => ⟨_, _, line_refines, (srcRem_fresh bytes).symm⟩,
   fun _ _ => ⟨_, _, comp_refines, (srcRem_fresh _).symm⟩,
   fun α _ => ⟨_, _, iter_refines α, rfl⟩⟩

end Sux.Lender
