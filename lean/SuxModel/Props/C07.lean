import SuxModel.Func.LemmasPeel3
/-!
# C07 — a built static function returns the stored value for every key

Model: `Sux.Func` (`Func/Edge.lean`, `Func/Model.lean`): `getBySig` (`VFunc::get_by_sig`),
`assign`, `XorGraph` + `peelLoop` / `peelByIndex` (the XOR-trick peeler), `lgeFinish` (glue of
`lge_shard`), `trySeedBook` (sharding book-keeping of `build_loop` / `try_seed`).

Chain of theorems (each link is a theorem below; the links to other properties are hypotheses):
* `sharding_consistent`: the store is split on the same bits the graphs use (false before the
  D16 fix), independent of hint / buckets / threads / low_mem;
* C18: shard `j` receives exactly the signatures with `shard(sig) = j`; C16: every local edge has
  three distinct vertices `< V` (`EdgeOK`), and global edge = local edge + `j·V`;
* `peel_sound`: the peeler returns an order in which `assign` can work;
* `peel_assign_correct` / `lge_correct` (+ C19 for the solver): every equation of the shard holds
  in its chunk;
* `shards_disjoint` + `whole_function_correct`: hence every global equation holds;
* `equations_hold_get`: hence `get` returns the stored value of every key.
The runner checks the hypothesis of `equations_hold_get` on every exported instance.

Not proved: that some seed makes every shard solvable (probabilistic; see C17), and the
independence of the thread schedule (`par_solve` is modelled as the per-shard pure functions).
-/
namespace Sux.Func

/-- **Certificate ⇒ correctness.** If the equation of every key holds in the exported cell array
    (with in-range vertices), `get_by_sig` returns the stored value of every key and performs no
    out-of-bounds access. -/
theorem equations_hold_get (cells : Array Nat) (p : Params) (kvs : List (Sig × Nat))
    (h : ∀ kv ∈ kvs, (eqOf p kv.1 kv.2).check cells = true) :
    ∀ kv ∈ kvs, getBySig cells p kv.1 = .ok kv.2 :=
  fun kv hkv => getBySig_of_check cells p kv.1 kv.2 (h kv hkv)

/-- conversely the value returned by the query satisfies the key's equation -/
theorem get_iff_equation (cells : Array Nat) (p : Params) (sig : Sig) (val : Nat) :
    getBySig cells p sig = .ok val ↔ (eqOf p sig val).check cells = true :=
  ⟨check_of_getBySig cells p sig val, getBySig_of_check cells p sig val⟩

/-- **`assign` is correct** (DESIGN Appendix A).  `qs` in the order `assign` consumes it (reverse
    peeling order); `done` = equations already satisfied (core equations after the solver). -/
theorem assign_correct (done : List Eq3) (qs : List Peeled) (d : Array Nat)
    (hdone : ∀ p ∈ done, p.holds (rdA d))
    (hside : ∀ q ∈ qs, q.side ≤ 2)
    (hdist : ∀ q ∈ qs, q.eq.distinct)
    (hrange : ∀ q ∈ qs, q.eq.inRange d.size)
    (hpiv : ∀ pre q post, qs = pre ++ q :: post →
      (∀ p ∈ done, ¬ p.mem q.pivot) ∧ (∀ p ∈ pre, ¬ p.eq.mem q.pivot)) :
    ∃ d', assign d qs = .ok d' ∧ d'.size = d.size ∧
      (∀ p ∈ done, p.holds (rdA d')) ∧ (∀ q ∈ qs, q.eq.holds (rdA d')) :=
  assign_correct_array done qs d hdone hside hdist hrange hpiv

/-- **The XOR-trick peeler is sound.**  For edges with three distinct in-range vertices,
    `peel_by_index` returns visits (most recent first) that name each edge at most once, record
    the vertex and side the edge was peeled from, and whose pivots are fresh: the pivot of a visit
    occurs in no unpeeled edge (`core`) and in no edge peeled later (`GoodOrder`).  Visits and
    core together are exactly the edges of the shard. -/
theorem peel_sound (es : Array Edge) (nv : Nat)
    (hes : ∀ i, i < es.size → EdgeOK nv (eAt es i)) (vs : List Visit)
    (h : peelByIndex nv es = .ok vs) :
    ∃ core, GoodOrder es core vs ∧ (∀ t ∈ vs, VisitOK es t) ∧
      (vs.map (·.x) ++ core).Perm (List.range es.size) :=
  peelByIndex_sound es nv hes vs h

/-- the invariant behind it, for the visit loop shared by the three peelers -/
theorem peel_loop_invariant (es : Array Edge) (nv : Nat) (L : List Nat)
    (hes : ∀ i, i < es.size → EdgeOK nv (eAt es i))
    (fuel : Nat) (g : XorGraph) (st : List Nat) (peeled : List Visit) (P piv : List Nat)
    (hinv : Inv es nv g P piv) (hst : ∀ w ∈ st, w < nv) (hP : ∀ i ∈ P, i < es.size)
    (hgo : GoodOrder es P peeled) (hvo : ∀ t ∈ peeled, VisitOK es t)
    (hperm : (peeled.map (·.x) ++ P).Perm L) (g' : XorGraph) (peeled' : List Visit)
    (h : peelLoop (edgeOfIdx es) fuel g st peeled = .ok (g', peeled')) :
    ∃ P' piv', Inv es nv g' P' piv' ∧ GoodOrder es P' peeled' ∧
      (∀ t ∈ peeled', VisitOK es t) ∧ (peeled'.map (·.x) ++ P').Perm L :=
  peelLoop_sound es nv L hes fuel g st peeled P piv hinv hst hP hgo hvo hperm g' peeled' h

/-- complete peeling followed by `assign` satisfies every equation of the shard -/
theorem peel_assign_correct (es : Array Edge) (vals : Array Nat) (nv : Nat) (d d' : Array Nat)
    (hes : ∀ i, i < es.size → EdgeOK nv (eAt es i)) (hsz : d.size = nv)
    (h : peelAndAssign nv es vals d = .ok (.inr d')) :
    d'.size = d.size ∧ ∀ i, i < es.size → (eqIdx es vals i).holds (rdA d') :=
  peelAndAssign_correct es vals nv d d' hes hsz h

/-- **`lge_shard`, interface to C19.**  Whatever is left unpeeled (`core`), if the solver's answer
    `sol` satisfies the core equations (C19: `lazy_gaussian_elimination = ok sol → check sol`),
    then writing the used variables and assigning the peeled edges satisfies every equation. -/
theorem lge_correct (es : Array Edge) (vals : Array Nat) (nv : Nat) (d sol : Array Nat)
    (hes : ∀ i, i < es.size → EdgeOK nv (eAt es i)) (hsz : d.size = nv) (hsol : sol.size = nv)
    (vs : List Visit) (h : peelByIndex nv es = .ok vs) :
    ∃ core, (vs.map (·.x) ++ core).Perm (List.range es.size) ∧
      ((∀ i ∈ core, (eqIdx es vals i).holds (rdA sol)) →
        ∃ d', lgeFinish d (core.map (eqIdx es vals)) sol (peeledOf es vals vs) = .ok d' ∧
          d'.size = d.size ∧ ∀ i, i < es.size → (eqIdx es vals i).holds (rdA d')) :=
  peel_lge_correct es vals nv d sol hes hsz hsol vs h

/-- **Shards are independent.** (a) A write into the chunk of shard `j` leaves the chunk of any
    other shard unchanged; (b) a local equation that holds in the chunk of shard `j` is the global
    equation on the whole array (global edge = local edge + `j·V`, C16). -/
theorem shards_disjoint (cells : Array Nat) (V j : Nat) :
    (∀ j' i x, i < V → j ≠ j' → (j' + 1) * V ≤ cells.size →
      (cells.setIfInBounds (j * V + i) x).extract (j' * V) ((j' + 1) * V)
        = cells.extract (j' * V) ((j' + 1) * V)) ∧
    (∀ (le : Edge) (val : Nat), (j + 1) * V ≤ cells.size → le.1 < V ∧ le.2.1 < V ∧ le.2.2 < V →
      Eq3.holds (rdA (cells.extract (j * V) ((j + 1) * V))) ⟨le.1, le.2.1, le.2.2, val⟩ →
      Eq3.check cells ⟨j * V + le.1, j * V + le.2.1, j * V + le.2.2, val⟩ = true) :=
  ⟨fun j' i x hi hne hj' => chunk_frame cells V j j' i x hi hne hj',
   fun le val hj hle hloc => global_of_local cells V j le val hj hle hloc⟩

/-- **Whole-function correctness from per-shard correctness.**  If every key's global edge is
    its local edge shifted into the chunk of its shard (C16) and its local equation holds in that
    chunk (per-shard theorems above, given C18's partition), every key is mapped to its value. -/
theorem whole_function_correct (cells : Array Nat) (p : Params) (V : Nat)
    (kvs : List (Sig × Nat))
    (h : ∀ kv ∈ kvs, ∃ (j : Nat) (le : Edge),
      edge p kv.1 = (j * V + le.1, j * V + le.2.1, j * V + le.2.2) ∧
      (j + 1) * V ≤ cells.size ∧ (le.1 < V ∧ le.2.1 < V ∧ le.2.2 < V) ∧
      Eq3.holds (rdA (cells.extract (j * V) ((j + 1) * V))) ⟨le.1, le.2.1, le.2.2, kv.2⟩) :
    ∀ kv ∈ kvs, getBySig cells p kv.1 = .ok kv.2 := by
  intro kv hkv
  obtain ⟨j, le, he, hj, hle, hloc⟩ := h kv hkv
  apply getBySig_of_check
  have := global_of_local cells V j le kv.2 hj hle hloc
  unfold eqOf
  rw [he]
  exact this

/-- **Sharding is consistent** (the D16 fix): whatever the hint, the bucket count, the thread limit
    and the peeler choice, the store is split on exactly the bits the graphs use, namely those of
    `set_up_shards(num_keys)`; the knobs influence nothing but the bucket count of the store. -/
theorem sharding_consistent (fbits : Nat → Nat) (fseg fl : Nat → Nat → Nat)
    (maxShardOf : Nat → Nat) (tooBig : Nat → Nat → Nat → Bool) (hint : Option Nat)
    (log2Buckets threads : Nat) (lowMem : Option Bool) (n : Nat) (b : Book)
    (h : trySeedBook fbits fseg fl maxShardOf tooBig hint log2Buckets threads lowMem n = .ok b) :
    b.storeShardBits = b.graphShardBits ∧
    b.graphShardBits = (({} : SE).setUpShards fbits n).shardHighBits ∧ b.numKeys = n :=
  trySeedBook_consistent fbits fseg fl maxShardOf tooBig hint log2Buckets threads lowMem n b h

theorem knobs_irrelevant (fbits : Nat → Nat) (fseg fl : Nat → Nat → Nat)
    (maxShardOf : Nat → Nat) (tooBig : Nat → Nat → Nat → Bool) (hint : Option Nat)
    (lb th : Nat) (lm : Option Bool) (n : Nat) :
    ∃ bk, trySeedBook fbits fseg fl maxShardOf tooBig hint lb th lm n =
      (match trySeedBook fbits fseg fl maxShardOf tooBig none 0 0 none n with
       | .ok b => .ok { b with bucketBits := bk }
       | .maxShardTooBig => .maxShardTooBig) :=
  trySeedBook_knobs fbits fseg fl maxShardOf tooBig hint lb th lm n

/-! ### non-vacuity -/

/-- three keys on 7 vertices; edge 2 is peeled from vertex 6, then edge 1 from 4, then edge 0
    from vertex 2 -/
def exEs : Array Edge := #[(0, 1, 2), (1, 2, 4), (2, 3, 6)]
def exVals : Array Nat := #[5, 9, 12]

theorem exEs_ok : ∀ i, i < exEs.size → EdgeOK 7 (eAt exEs i) := by
  intro i hi
  have : i = 0 ∨ i = 1 ∨ i = 2 := by simp [exEs] at hi; omega
  rcases this with h | h | h <;> subst h <;> constructor <;> decide

example : peelByIndex 7 exEs = .ok [⟨0, 2, 2⟩, ⟨1, 2, 4⟩, ⟨2, 2, 6⟩] := by decide
example : ∃ d', peelAndAssign 7 exEs exVals (Array.replicate 7 0) = .ok (.inr d') ∧
    ∀ i, i < exEs.size → (eqIdx exEs exVals i).holds (rdA d') := by
  refine ⟨#[0, 0, 5, 0, 12, 0, 9], by decide, ?_⟩
  exact (peel_assign_correct exEs exVals 7 (Array.replicate 7 0) _ exEs_ok (by simp) (by decide)).2

/-- a triangle-like 2-core: nothing can be peeled, everything goes to the solver -/
def exCore : Array Edge := #[(0, 1, 2), (0, 1, 3), (0, 2, 3), (1, 2, 3)]
example : peelByIndex 4 exCore = .ok [] := by decide

/-- a certified instance: one key, `FuseLge3NoShards` on `[u64;1]` -/
def exP7 : Params := { logic := .noshards, sw := 1, shift := 63, s := 1, l := 1 }
example : getBySig #[7, 0, 0, 1, 0, 2] exP7 (5, 0) = .ok 4 :=
  equations_hold_get #[7, 0, 0, 1, 0, 2] exP7 [((5, 0), 4)]
    (by intro kv hkv; simp at hkv; subst hkv; decide) ((5, 0), 4) (by simp)

example : ∃ b, trySeedBook (fun _ => 3) (fun _ _ => 9) (fun _ _ => 110) (fun _ => 50000)
    (fun _ _ _ => false) (some 400000) 8 8 none 100001 = .ok b ∧ b.storeShardBits = 1 ∧
    b.graphShardBits = 1 ∧ b.bucketBits = 3 := by
  refine ⟨⟨3, 1, 1, 100001, ⟨62, 9, 110⟩⟩, by decide, rfl, rfl, rfl⟩

end Sux.Func
