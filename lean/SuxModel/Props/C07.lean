import SuxModel.Func.LemmasLge
import SuxModel.Func.LemmasPar2
import SuxModel.Func.LemmasStack
/-!
# C07 — a built static function returns the stored value for every key

Model: `Sux.Func` (`Func/Edge.lean`, `Func/Model.lean`): `getBySig` (`VFunc::get_by_sig`),
`assign`, `XorGraph` + `peelLoop` / `peelByIndex` (the XOR-trick peeler), `lgeFinish` (glue of
`lge_shard`), `trySeedBook` (sharding book-keeping of `build_loop` / `try_seed`).

Chain of theorems (each link is a theorem below; the links to other properties are hypotheses):
* `sharding_consistent`: the store is split on the same bits the graphs use (false before the
  D16 fix), independent of hint / buckets / threads / low_mem;
* C18: shard `j` receives exactly the signatures with `shard(sig) = j`; C16: every local edge has
  three distinct vertices `< V` (`EdgeOK`), and global edge = local edge + `j·V`;
* `peel_sound`: the peeler returns an order in which `assign` can work;
* `peel_assign_correct` / `lge_correct` (+ C19 for the solver): every equation of the shard holds
  in its chunk;
* `shards_disjoint` + `whole_function_correct`: hence every global equation holds;
* `equations_hold_get`: hence `get` returns the stored value of every key.
The runner checks the hypothesis of `equations_hold_get` on every exported instance.

Second layer (below the `/-! ## … -/` headings at the end of the file):
* the two signature-payload peelers (`Func/ModelSig.lean`): `peel_sound_high_mem`,
  `peel_sound_low_mem` (with `lowmem_recover`), `peel_assign_correct_high_mem` / `_low_mem`,
  `sig_peelers_agree`; all three peelers share one invariant (`InvP`, of which `Inv` is the
  instance `pay = id`: `peel_invariant_shared`) and one loop theorem (`peel_loop_total`);
* `peel_fuel_sufficient`: the visit loop returns within the fuel the model passes;
* `count_sort_correct`; `lge_system_wf` + `lge_shard_correct` (`Func/ModelSort.lean`; the solver
  is C19's model and C19's `lazy_sound` / `lazy_complete` / `lazy_total` are *used*);
* `par_solve_schedule_independent`, `par_solve_complete_suffix`,
  `par_solve_early_return_counterexample` (`Func/ModelPar.lean`).

Not proved: that some seed makes every shard solvable (probabilistic; see C17); liveness of
`par_solve` (that every schedule can be extended to a terminal state).  Not modelled: the
`debug_assert!(lower < upper)` of `DoubleStack::push_*`.
-/
namespace Sux.Func

/-- **Certificate ⇒ correctness.** If the equation of every key holds in the exported cell array
    (with in-range vertices), `get_by_sig` returns the stored value of every key and performs no
    out-of-bounds access. -/
theorem equations_hold_get (cells : Array Nat) (p : Params) (kvs : List (Sig × Nat))
    (h : ∀ kv ∈ kvs, (eqOf p kv.1 kv.2).check cells = true) :
    ∀ kv ∈ kvs, getBySig cells p kv.1 = .ok kv.2 :=
  fun kv hkv => getBySig_of_check cells p kv.1 kv.2 (h kv hkv)

/-- conversely the value returned by the query satisfies the key's equation -/
theorem get_iff_equation (cells : Array Nat) (p : Params) (sig : Sig) (val : Nat) :
    getBySig cells p sig = .ok val ↔ (eqOf p sig val).check cells = true :=
  ⟨check_of_getBySig cells p sig val, getBySig_of_check cells p sig val⟩

/-- **`assign` is correct** (DESIGN Appendix A).  `qs` in the order `assign` consumes it (reverse
    peeling order); `done` = equations already satisfied (core equations after the solver). -/
theorem assign_correct (done : List Eq3) (qs : List Peeled) (d : Array Nat)
    (hdone : ∀ p ∈ done, p.holds (rdA d))
    (hside : ∀ q ∈ qs, q.side ≤ 2)
    (hdist : ∀ q ∈ qs, q.eq.distinct)
    (hrange : ∀ q ∈ qs, q.eq.inRange d.size)
    (hpiv : ∀ pre q post, qs = pre ++ q :: post →
      (∀ p ∈ done, ¬ p.mem q.pivot) ∧ (∀ p ∈ pre, ¬ p.eq.mem q.pivot)) :
    ∃ d', assign d qs = .ok d' ∧ d'.size = d.size ∧
      (∀ p ∈ done, p.holds (rdA d')) ∧ (∀ q ∈ qs, q.eq.holds (rdA d')) :=
  assign_correct_array done qs d hdone hside hdist hrange hpiv

/-- **The XOR-trick peeler is sound.**  For edges with three distinct in-range vertices,
    `peel_by_index` returns visits (most recent first) that name each edge at most once, record
    the vertex and side the edge was peeled from, and whose pivots are fresh: the pivot of a visit
    occurs in no unpeeled edge (`core`) and in no edge peeled later (`GoodOrder`).  Visits and
    core together are exactly the edges of the shard. -/
theorem peel_sound (es : Array Edge) (nv : Nat)
    (hes : ∀ i, i < es.size → EdgeOK nv (eAt es i)) (vs : List Visit)
    (h : peelByIndex nv es = .ok vs) :
    ∃ core, GoodOrder es core vs ∧ (∀ t ∈ vs, VisitOK es t) ∧
      (vs.map (·.x) ++ core).Perm (List.range es.size) :=
  peelByIndex_sound es nv hes vs h

/-- the invariant behind it, for the visit loop shared by the three peelers -/
theorem peel_loop_invariant (es : Array Edge) (nv : Nat) (L : List Nat)
    (hes : ∀ i, i < es.size → EdgeOK nv (eAt es i))
    (fuel : Nat) (g : XorGraph) (st : List Nat) (peeled : List Visit) (P piv : List Nat)
    (hinv : Inv es nv g P piv) (hst : ∀ w ∈ st, w < nv) (hP : ∀ i ∈ P, i < es.size)
    (hgo : GoodOrder es P peeled) (hvo : ∀ t ∈ peeled, VisitOK es t)
    (hperm : (peeled.map (·.x) ++ P).Perm L) (g' : XorGraph) (peeled' : List Visit)
    (h : peelLoop (edgeOfIdx es) fuel g st peeled = .ok (g', peeled')) :
    ∃ P' piv', Inv es nv g' P' piv' ∧ GoodOrder es P' peeled' ∧
      (∀ t ∈ peeled', VisitOK es t) ∧ (peeled'.map (·.x) ++ P').Perm L :=
  peelLoop_sound es nv L hes fuel g st peeled P piv hinv hst hP hgo hvo hperm g' peeled' h

/-- complete peeling followed by `assign` satisfies every equation of the shard -/
theorem peel_assign_correct (es : Array Edge) (vals : Array Nat) (nv : Nat) (d d' : Array Nat)
    (hes : ∀ i, i < es.size → EdgeOK nv (eAt es i)) (hsz : d.size = nv)
    (h : peelAndAssign nv es vals d = .ok (.inr d')) :
    d'.size = d.size ∧ ∀ i, i < es.size → (eqIdx es vals i).holds (rdA d') :=
  peelAndAssign_correct es vals nv d d' hes hsz h

/-- **`lge_shard`, interface to C19.**  Whatever is left unpeeled (`core`), if the solver's answer
    `sol` satisfies the core equations (C19: `lazy_gaussian_elimination = ok sol → check sol`),
    then writing the used variables and assigning the peeled edges satisfies every equation. -/
theorem lge_correct (es : Array Edge) (vals : Array Nat) (nv : Nat) (d sol : Array Nat)
    (hes : ∀ i, i < es.size → EdgeOK nv (eAt es i)) (hsz : d.size = nv) (hsol : sol.size = nv)
    (vs : List Visit) (h : peelByIndex nv es = .ok vs) :
    ∃ core, (vs.map (·.x) ++ core).Perm (List.range es.size) ∧
      ((∀ i ∈ core, (eqIdx es vals i).holds (rdA sol)) →
        ∃ d', lgeFinish d (core.map (eqIdx es vals)) sol (peeledOf es vals vs) = .ok d' ∧
          d'.size = d.size ∧ ∀ i, i < es.size → (eqIdx es vals i).holds (rdA d')) :=
  peel_lge_correct es vals nv d sol hes hsz hsol vs h

/-- **Shards are independent.** (a) A write into the chunk of shard `j` leaves the chunk of any
    other shard unchanged; (b) a local equation that holds in the chunk of shard `j` is the global
    equation on the whole array (global edge = local edge + `j·V`, C16). -/
theorem shards_disjoint (cells : Array Nat) (V j : Nat) :
    (∀ j' i x, i < V → j ≠ j' → (j' + 1) * V ≤ cells.size →
      (cells.setIfInBounds (j * V + i) x).extract (j' * V) ((j' + 1) * V)
        = cells.extract (j' * V) ((j' + 1) * V)) ∧
    (∀ (le : Edge) (val : Nat), (j + 1) * V ≤ cells.size → le.1 < V ∧ le.2.1 < V ∧ le.2.2 < V →
      Eq3.holds (rdA (cells.extract (j * V) ((j + 1) * V))) ⟨le.1, le.2.1, le.2.2, val⟩ →
      Eq3.check cells ⟨j * V + le.1, j * V + le.2.1, j * V + le.2.2, val⟩ = true) :=
  ⟨fun j' i x hi hne hj' => chunk_frame cells V j j' i x hi hne hj',
   fun le val hj hle hloc => global_of_local cells V j le val hj hle hloc⟩

/-- **Whole-function correctness from per-shard correctness.**  If every key's global edge is
    its local edge shifted into the chunk of its shard (C16) and its local equation holds in that
    chunk (per-shard theorems above, given C18's partition), every key is mapped to its value. -/
theorem whole_function_correct (cells : Array Nat) (p : Params) (V : Nat)
    (kvs : List (Sig × Nat))
    (h : ∀ kv ∈ kvs, ∃ (j : Nat) (le : Edge),
      edge p kv.1 = (j * V + le.1, j * V + le.2.1, j * V + le.2.2) ∧
      (j + 1) * V ≤ cells.size ∧ (le.1 < V ∧ le.2.1 < V ∧ le.2.2 < V) ∧
      Eq3.holds (rdA (cells.extract (j * V) ((j + 1) * V))) ⟨le.1, le.2.1, le.2.2, kv.2⟩) :
    ∀ kv ∈ kvs, getBySig cells p kv.1 = .ok kv.2 := by
  intro kv hkv
  obtain ⟨j, le, he, hj, hle, hloc⟩ := h kv hkv
  apply getBySig_of_check
  have := global_of_local cells V j le kv.2 hj hle hloc
  unfold eqOf
  rw [he]
  exact this

/-- **Sharding is consistent** (the D16 fix): whatever the hint, the bucket count, the thread limit
    and the peeler choice, the store is split on exactly the bits the graphs use, namely those of
    `set_up_shards(num_keys)`; the knobs influence nothing but the bucket count of the store. -/
theorem sharding_consistent (fbits : Nat → Nat) (fseg fl : Nat → Nat → Nat)
    (maxShardOf : Nat → Nat) (tooBig : Nat → Nat → Nat → Bool) (hint : Option Nat)
    (log2Buckets threads : Nat) (lowMem : Option Bool) (n : Nat) (b : Book)
    (h : trySeedBook fbits fseg fl maxShardOf tooBig hint log2Buckets threads lowMem n = .ok b) :
    b.storeShardBits = b.graphShardBits ∧
    b.graphShardBits = (({} : SE).setUpShards fbits n).shardHighBits ∧ b.numKeys = n :=
  trySeedBook_consistent fbits fseg fl maxShardOf tooBig hint log2Buckets threads lowMem n b h

theorem knobs_irrelevant (fbits : Nat → Nat) (fseg fl : Nat → Nat → Nat)
    (maxShardOf : Nat → Nat) (tooBig : Nat → Nat → Nat → Bool) (hint : Option Nat)
    (lb th : Nat) (lm : Option Bool) (n : Nat) :
    ∃ bk, trySeedBook fbits fseg fl maxShardOf tooBig hint lb th lm n =
      (match trySeedBook fbits fseg fl maxShardOf tooBig none 0 0 none n with
       | .ok b => .ok { b with bucketBits := bk }
       | .maxShardTooBig => .maxShardTooBig) :=
  trySeedBook_knobs fbits fseg fl maxShardOf tooBig hint lb th lm n

/-! ### non-vacuity -/

/-- three keys on 7 vertices; edge 2 is peeled from vertex 6, then edge 1 from 4, then edge 0
    from vertex 2 -/
def exEs : Array Edge := #[(0, 1, 2), (1, 2, 4), (2, 3, 6)]
def exVals : Array Nat := #[5, 9, 12]

theorem exEs_ok : ∀ i, i < exEs.size → EdgeOK 7 (eAt exEs i) := by
  intro i hi
  have : i = 0 ∨ i = 1 ∨ i = 2 := by simp [exEs] at hi; omega
  rcases this with h | h | h <;> subst h <;> constructor <;> decide

example : peelByIndex 7 exEs = .ok [⟨0, 2, 2⟩, ⟨1, 2, 4⟩, ⟨2, 2, 6⟩] := by decide
example : ∃ d', peelAndAssign 7 exEs exVals (Array.replicate 7 0) = .ok (.inr d') ∧
    ∀ i, i < exEs.size → (eqIdx exEs exVals i).holds (rdA d') := by
  refine ⟨#[0, 0, 5, 0, 12, 0, 9], by decide, ?_⟩
  exact (peel_assign_correct exEs exVals 7 (Array.replicate 7 0) _ exEs_ok (by simp) (by decide)).2

/-- a triangle-like 2-core: nothing can be peeled, everything goes to the solver -/
def exCore : Array Edge := #[(0, 1, 2), (0, 1, 3), (0, 2, 3), (1, 2, 3)]
example : peelByIndex 4 exCore = .ok [] := by decide

/-- a certified instance: one key, `FuseLge3NoShards` on `[u64;1]` -/
def exP7 : Params := { logic := .noshards, sw := 1, shift := 63, s := 1, l := 1 }
example : getBySig #[7, 0, 0, 1, 0, 2] exP7 (5, 0) = .ok 4 :=
  equations_hold_get #[7, 0, 0, 1, 0, 2] exP7 [((5, 0), 4)]
    (by intro kv hkv; simp at hkv; subst hkv; decide) ((5, 0), 4) (by simp)

example : ∃ b, trySeedBook (fun _ => 3) (fun _ _ => 9) (fun _ _ => 110) (fun _ => 50000)
    (fun _ _ _ => false) (some 400000) 8 8 none 100001 = .ok b ∧ b.storeShardBits = 1 ∧
    b.graphShardBits = 1 ∧ b.bucketBits = 3 := by
  refine ⟨⟨3, 1, 1, 100001, ⟨62, 9, 110⟩⟩, by decide, rfl, rfl, rfl⟩

/-! ## The signature-payload peelers -/

/-- **One invariant for the three peelers.**  The XOR-trick invariant is stated for an arbitrary
    payload `pay : edge index → payload` (`InvP`); `peel_by_index` is the instance `pay = id`. -/
theorem peel_invariant_shared (es : Array Edge) (nv : Nat) (g : XorGraph) (P piv : List Nat) :
    Inv es nv g P piv ↔ InvP es id nv g P piv := inv_iff_invP es nv g P piv

/-- **The visit loop, any payload, total form.**  From a state satisfying the invariant, with every
    stacked vertex of degree at most one and `|stack| + 2·|present edges| < fuel`, the loop returns
    (no out-of-fuel, no `debug_assert!(degree < 2)`, no index or underflow panic, no `oob`), and
    the visits (`pv'`, with edge indices; the loop records the payloads `pay t.x`) are in an order
    in which `assign` can process them, every pivot still carries side and payload of its edge
    (`LoopPost.rc`), and the invariant holds. -/
theorem peel_loop_total (es : Array Edge) (pay : Nat → Nat) (nv : Nat) (L : List Nat)
    (edgeOf : Nat → Out Edge)
    (hes : ∀ i, i < es.size → EdgeOK nv (eAt es i))
    (hedge : ∀ i, i < es.size → edgeOf (pay i) = .ok (eAt es i))
    (fuel : Nat) (g : XorGraph) (st : List Nat) (pv : List Visit) (P piv : List Nat)
    (hinv : InvP es pay nv g P piv) (hst : ∀ w ∈ st, w < nv ∧ deg es P w ≤ 1)
    (hP : ∀ i ∈ P, i < es.size) (hfuel : st.length + 2 * P.length < fuel)
    (hgo : GoodOrder es P pv) (hvo : ∀ t ∈ pv, VisitOK es t) (hperm : (pv.map (·.x) ++ P).Perm L)
    (hrec : Rec pay g pv) (hpiv : ∀ t ∈ pv, t.v ∈ piv) :
    ∃ g' pv' P' piv',
      peelLoop edgeOf fuel g st (pv.map (payV pay)) = .ok (g', pv'.map (payV pay)) ∧
      LoopPost es pay nv L g' pv' P' piv' :=
  peelLoopP_total es pay nv L edgeOf hes hedge fuel g st pv P piv hinv hst hP hfuel hgo hvo hperm
    hrec hpiv

/-- **`peel_by_sig_vals_high_mem` is sound.**  `pays[i]` is the payload of the `i`-th key,
    `c.edgeOf` its local edge (three distinct in-range vertices: C16).  The payloads on
    `sig_vals_stack` (most recent first) are those of visits `vs` that name each edge at most once,
    record vertex and side, with fresh pivots; visits and unpeeled edges are the whole shard. -/
theorem peel_sound_high_mem (nv : Nat) (c : PayCfg) (pays : Array Nat)
    (hes : ∀ i, i < pays.size → EdgeOK nv (c.edgeOf (payOf pays i)))
    (g g' : XorGraph) (peeled : List Visit)
    (hg : sigGraph nv c pays = .ok g) (hv : sigVisit nv c pays g = .ok (g', peeled)) :
    ∃ (vs : List Visit) (core : List Nat),
      peeled = vs.map (payV (payOf pays)) ∧
      GoodOrder (esOf c pays) core vs ∧ (∀ t ∈ vs, VisitOK (esOf c pays) t) ∧
      (vs.map (·.x) ++ core).Perm (List.range pays.size) := by
  obtain ⟨vs, core, h1, h2, h3, h4, _⟩ := peelSig_sound nv c pays hes g g' peeled hg hv
  exact ⟨vs, core, h1, h2, h3, h4⟩

/-- **`lowmem_recover`.**  If every pivot of the visits `pv` still has degree byte `= side` and
    packed word `= payload` (`Rec`, maintained by the loop: `zero(v)` clears only the degree bits,
    and a later `remove` touches vertices of present edges only, whereas a pivot has none), then
    reading `edge_and_side(v)` for the stacked vertices yields exactly what the high-memory peeler
    stacked. -/
theorem lowmem_recover_thm (c : PayCfg) (pay : Nat → Nat) (nv : Nat) (g' : XorGraph)
    (hs1 : g'.ds.size = nv) (hs2 : g'.edges.size = nv)
    (pv : List Visit) (hrec : Rec pay g' pv) (hlt : ∀ t ∈ pv, t.v < nv) :
    lowItems c g' (pv.map (·.v)) = .ok (highItems c (pv.map (payV pay))) :=
  lowmem_recover c pay nv g' hs1 hs2 pv hrec hlt

/-- **`peel_by_sig_vals_low_mem` is sound**: as `peel_sound_high_mem`, and what it reads back from
    the graph for the vertices on the upper stack is what the high-memory peeler kept. -/
theorem peel_sound_low_mem (nv : Nat) (c : PayCfg) (pays : Array Nat)
    (hes : ∀ i, i < pays.size → EdgeOK nv (c.edgeOf (payOf pays i)))
    (g g' : XorGraph) (peeled : List Visit)
    (hg : sigGraph nv c pays = .ok g) (hv : sigVisit nv c pays g = .ok (g', peeled)) :
    ∃ (vs : List Visit) (core : List Nat),
      peeled = vs.map (payV (payOf pays)) ∧
      GoodOrder (esOf c pays) core vs ∧ (∀ t ∈ vs, VisitOK (esOf c pays) t) ∧
      (vs.map (·.x) ++ core).Perm (List.range pays.size) ∧
      lowItems c g' (peeled.map (·.v)) = .ok (highItems c peeled) :=
  peelSig_sound nv c pays hes g g' peeled hg hv

/-- the two signature peelers are the same function of shard and data -/
theorem sig_peelers_agree (nv : Nat) (c : PayCfg) (pays : Array Nat) (d : Array Nat)
    (hes : ∀ i, i < pays.size → EdgeOK nv (c.edgeOf (payOf pays i))) :
    peelBySigLow nv c pays d = peelBySigHigh nv c pays d := low_eq_high nv c pays d hes

/-- **Complete peeling by `peel_by_sig_vals_high_mem` + `assign`: every equation of the shard
    holds** (and no access was out of bounds). -/
theorem peel_assign_correct_high_mem (nv : Nat) (c : PayCfg) (pays : Array Nat) (d d' : Array Nat)
    (hes : ∀ i, i < pays.size → EdgeOK nv (c.edgeOf (payOf pays i))) (hsz : d.size = nv)
    (h : peelBySigHigh nv c pays d = .ok (some d')) :
    d'.size = d.size ∧ ∀ i, i < pays.size → (c.eqOf (payOf pays i)).holds (rdA d') :=
  peelBySigHigh_correct nv c pays d d' hes hsz h

/-- **Complete peeling by `peel_by_sig_vals_low_mem` + `assign`: every equation of the shard
    holds.** -/
theorem peel_assign_correct_low_mem (nv : Nat) (c : PayCfg) (pays : Array Nat) (d d' : Array Nat)
    (hes : ∀ i, i < pays.size → EdgeOK nv (c.edgeOf (payOf pays i))) (hsz : d.size = nv)
    (h : peelBySigLow nv c pays d = .ok (some d')) :
    d'.size = d.size ∧ ∀ i, i < pays.size → (c.eqOf (payOf pays i)).holds (rdA d') :=
  peelBySigLow_correct nv c pays d d' hes hsz h

/-- the signature peelers return (`Ok`/`Err` of the Rust method) unless a degree byte overflowed -/
theorem peel_by_sig_total (nv : Nat) (c : PayCfg) (pays : Array Nat) (d : Array Nat)
    (hes : ∀ i, i < pays.size → EdgeOK nv (c.edgeOf (payOf pays i))) (hsz : d.size = nv) :
    sigGraph nv c pays = .panic ∨
      ∃ r, peelBySigHigh nv c pays d = .ok r ∧ peelBySigLow nv c pays d = .ok r := by
  rcases peelBySigHigh_total nv c pays d hes hsz with h | ⟨r, h⟩
  · exact Or.inl h
  · exact Or.inr ⟨r, h, by rw [low_eq_high nv c pays d hes]; exact h⟩

/-- `Err(())` of a signature peeler: some edge is left (a non-empty 2-core) -/
theorem peel_by_sig_err (nv : Nat) (c : PayCfg) (pays : Array Nat) (d : Array Nat)
    (hes : ∀ i, i < pays.size → EdgeOK nv (c.edgeOf (payOf pays i)))
    (h : peelBySigHigh nv c pays d = .ok none) :
    ∃ (vs : List Visit) (core : List Nat), core ≠ [] ∧
      (vs.map (·.x) ++ core).Perm (List.range pays.size) ∧ GoodOrder (esOf c pays) core vs :=
  peelBySigHigh_none nv c pays d hes h

/-! ## `peelFuel` suffices -/

/-- **Out-of-fuel is unreachable.**  For any payload, from the graph a peeler builds (invariant
    with all edges present, no pivots) the visit loop started on the preloaded stack returns
    within `peelFuel nv m = nv + 3·m + 1` iterations (the measure `|stack| + 2·|present edges|`
    starts at most at `nv + 2·m` and decreases at every iteration). -/
theorem peel_fuel_sufficient (es : Array Edge) (pay : Nat → Nat) (nv : Nat)
    (edgeOf : Nat → Out Edge)
    (hes : ∀ i, i < es.size → EdgeOK nv (eAt es i))
    (hedge : ∀ i, i < es.size → edgeOf (pay i) = .ok (eAt es i))
    (g : XorGraph) (hinv : InvP es pay nv g (List.range es.size) []) :
    ∃ g' vs, peelLoop edgeOf (peelFuel nv es.size) g (preload g) [] = .ok (g', vs) := by
  obtain ⟨g', pv', _, _, h, _⟩ := visit_total es pay nv edgeOf hes hedge g hinv
  exact ⟨g', _, h⟩

/-- instance: `peel_by_index` returns unless a degree byte overflowed
    (`assert!(!xor_graph.overflow)`) -/
theorem peel_by_index_total (es : Array Edge) (nv : Nat)
    (hes : ∀ i, i < es.size → EdgeOK nv (eAt es i)) :
    (∃ g, addEdges (XorGraph.new nv) ((List.range es.size).zip es.toList) = .ok g ∧
      g.overflow = true ∧ peelByIndex nv es = .panic) ∨
    ∃ vs, peelByIndex nv es = .ok vs := peelByIndex_total es nv hes

/-- **`DoubleStack` capacity, partial.**  Full statement (open): a copy of the visit loop with the
    two `debug_assert!(lower < upper)` checks equals `peelLoop` under the hypotheses of
    `peel_loop_total` plus `(st ++ piv).Nodup`.  Proved: the counting invariant — the vertices on
    the visit stack and the pivots are pairwise distinct, a peeling step preserves that, hence
    `lower + upper_len < nv` before the `push_upper` and `≤ nv` after the step. -/
theorem doublestack_capacity_partial' (es : Array Edge) (pay : Nat → Nat) (nv : Nat)
    (g g3 : XorGraph) (P piv : List Nat) (v i : Nat) (st st' : List Nat)
    (hinv : InvP es pay nv g P piv) (hi : i ∈ P)
    (hst : ∀ w ∈ v :: st, w < nv ∧ deg es P w ≤ 1) (hpiv : ∀ w ∈ piv, w < nv)
    (hnd : (v :: st ++ piv).Nodup)
    (post : StepPost es pay nv g g3 P piv v i st st') :
    st.length + piv.length < nv ∧ (st' ++ (v :: piv)).Nodup ∧
      st'.length + (piv.length + 1) ≤ nv :=
  doublestack_capacity_partial es pay nv g g3 P piv v i st st' hinv hi hst hpiv hnd post

/-! ## `count_sort` and `lge_shard` -/

/-- **`count_sort` sorts stably.**  If every `sort_key` is below `num_sort_keys`, the method
    returns (no index panic) and its output is a permutation of the input, sorted by key, in
    which elements of equal key keep their order. -/
theorem count_sort_correct (key : Nat → Nat) (K : Nat) (data : Array Nat)
    (hk : ∀ x ∈ data.toList, key x < K) :
    ∃ out, countSort key K data = .ok out ∧
      out.toList.Perm data.toList ∧
      out.toList.Pairwise (fun a b => key a ≤ key b) ∧
      ∀ k, out.toList.filter (fun x => key x == k) = data.toList.filter (fun x => key x == k) := by
  obtain ⟨out, h1, h2⟩ := countSort_spec key K data hk
  refine ⟨out, h1, ?_, ?_, ?_⟩
  · rw [h2]; exact stableByKey_perm key K _ hk
  · rw [h2]; exact stableByKey_sorted key _ K
  · intro k
    rw [h2]
    by_cases hkK : k < K
    · exact stableByKey_stable key _ K k hkK
    · have e1 : (stableByKey key K data.toList).filter (fun x => key x == k) = [] := by
        rw [List.filter_eq_nil_iff]
        intro x hx
        have := ((mem_stableByKey key K _ x).mp hx).2
        simp only [beq_iff_eq]; omega
      have e2 : data.toList.filter (fun x => key x == k) = [] := by
        rw [List.filter_eq_nil_iff]
        intro x hx
        have := hk x hx
        simp only [beq_iff_eq]; omega
      rw [e1, e2]

/-- the hypothesis of `count_sort_correct` holds for the three fuse logics -/
theorem sort_key_in_range (p : Params) (sig : Sig) (h1 : sig.1 < 2 ^ 64) (h2 : sig.2 < 2 ^ 64)
    (hl : 0 < p.l) (hl32 : p.l < 2 ^ 32) : sortKey p sig < p.l := sortKey_lt p sig h1 h2 hl hl32

/-- what happens to the (single) shard of an unsharded build between `try_push` and `solve_shard`
    (bucketing by the top `b` bits, sort by signature under `check_dups`, `count_sort`) is a
    permutation and never panics — so the equations solved are those of the pushed keys -/
theorem shard_order_perm (p : Params) (b : Nat) (dups : Bool) (pushed : List Nat)
    (hb : b ≤ 64) (hl : 0 < p.l) (hl32 : p.l < 2 ^ 32) :
    ∃ l, shardOrder p b dups pushed = .ok l ∧ l.Perm pushed :=
  shardOrder_perm p b dups pushed hb hl hl32

/-- **The system handed to the solver is in C19's domain** (`Sux.GF2.Sys.WF`): every equation has
    three strictly increasing variables below `num_vertices`.  Strictness is the distinctness of
    the three vertices (C16); `nv ≤ 2^32` makes the cast `x as u32` the identity (the builder
    asserts it in `set_up_graphs`). -/
theorem lge_system_wf (nv : Nat) (es : Array Edge) (vals : Array Nat) (peeledIdx : List Nat)
    (hes : ∀ i, i < es.size → EdgeOK nv (eAt es i)) (hnv : nv ≤ 2 ^ 32) :
    (lgeSystem nv es vals peeledIdx).WF := lgeSystem_wf nv es vals peeledIdx hes hnv

/-- **`lge_shard` is correct** — with C19's theorem about the lazy solver, not a hypothesis:
    `Ok(())` ⇒ every equation of the shard holds in its chunk. -/
theorem lge_shard_correct (nv : Nat) (es : Array Edge) (vals : Array Nat) (d d' : Array Nat)
    (hes : ∀ i, i < es.size → EdgeOK nv (eAt es i)) (hnv : nv ≤ 2 ^ 32) (hsz : d.size = nv)
    (h : lgeShard nv es vals d = .ok (some d')) :
    d'.size = d.size ∧ ∀ i, i < es.size → (eqIdx es vals i).holds (rdA d') :=
  lgeShard_correct nv es vals d d' hes hnv hsz h

/-- `Err(())` ⇒ the equations of the shard have no solution whatsoever -/
theorem lge_shard_unsolvable (nv : Nat) (es : Array Edge) (vals : Array Nat) (d : Array Nat)
    (hes : ∀ i, i < es.size → EdgeOK nv (eAt es i)) (hnv : nv ≤ 2 ^ 32) (hsz : d.size = nv)
    (h : lgeShard nv es vals d = .ok none) :
    ¬ ∃ f : Nat → Nat, ∀ i, i < es.size → (eqIdx es vals i).holds f :=
  lgeShard_none nv es vals d hes hnv hsz h

/-- no panic and no out-of-bounds access in `lge_shard` unless a degree byte overflowed -/
theorem lge_shard_total (nv : Nat) (es : Array Edge) (vals : Array Nat) (d : Array Nat)
    (hes : ∀ i, i < es.size → EdgeOK nv (eAt es i)) (hnv : nv ≤ 2 ^ 32) (hsz : d.size = nv) :
    peelByIndex nv es = .panic ∨ ∃ r, lgeShard nv es vals d = .ok r :=
  lgeShard_total nv es vals d hes hnv hsz

/-! ## Thread schedules of `par_solve` -/

/-- **Schedule independence.**  For every schedule (`evs`) that the model of `par_solve` can
    execute from the initial state: if no error was sent (`Ok(())`), the chunk of every processed
    shard is `solve j` of its initial chunk and every other chunk is untouched; if moreover every
    non-empty shard was processed, the backend equals the sequential left-to-right result. -/
theorem par_solve_schedule_independent (c : Par.Cfg) (chunks0 : Array (Array Nat))
    (evs : List Par.Ev) (s : Par.St) (hT : 0 < c.threads)
    (hr : Par.run c chunks0.size (Par.init c chunks0) evs = some s) (hok : s.errs = []) :
    (s.chunks.size = chunks0.size ∧ ∀ j,
      (j ∈ s.done → ∃ ch, c.solve j (chunks0.getD j #[]) = some ch ∧ s.chunks.getD j #[] = ch) ∧
      (j ∉ s.done → s.chunks.getD j #[] = chunks0.getD j #[])) ∧
    ((∀ j, j < chunks0.size → c.empty j = false → j ∈ s.done) →
      Par.seqSolve c chunks0 = some s.chunks) :=
  ⟨Par.par_solve_pointwise c chunks0 evs s hr hok,
   fun hall => Par.par_solve_eq_seq c chunks0 evs s hT hr hok hall⟩

/-- **The early `return` on an empty shard is harmless when all remaining shards are empty**:
    if the empty shards form a suffix of the shard sequence (e.g. there is none, or `n = 0`),
    every terminal `Ok` state has solved every non-empty shard — hence (previous theorem) equals
    the sequential result. -/
theorem par_solve_complete_suffix (c : Par.Cfg) (chunks0 : Array (Array Nat))
    (evs : List Par.Ev) (s : Par.St)
    (hup : ∀ j j', c.empty j = true → j ≤ j' → c.empty j' = true) (hT : 0 < c.threads)
    (hr : Par.run c chunks0.size (Par.init c chunks0) evs = some s)
    (hterm : s.terminal = true) (hok : s.errs = []) :
    (∀ j, j < chunks0.size → c.empty j = false → j ∈ s.done) ∧
    Par.seqSolve c chunks0 = some s.chunks := by
  have h := Par.par_solve_complete c chunks0 evs s hup hT hr hterm hok
  exact ⟨h, Par.par_solve_eq_seq c chunks0 evs s hT hr hok h⟩

/-- **… and harmful otherwise** (finding candidate): one thread, shards `[empty, non-empty]`.
    The history `send, recv, sendFail` is executable, terminal, error-free (`par_solve` returns
    `Ok(())`), and the second shard is unsolved. -/
theorem par_solve_early_return_counterexample :
    Par.run Par.cexCfg Par.cexChunks.size (Par.init Par.cexCfg Par.cexChunks) Par.cexSchedule
        = some Par.cexFinal ∧
      Par.cexFinal.terminal = true ∧ Par.cexFinal.errs = [] ∧
      Par.cexFinal.chunks = #[#[0], #[0]] ∧ Par.cexCfg.empty 1 = false ∧ 1 ∉ Par.cexFinal.done ∧
      Par.seqSolve Par.cexCfg Par.cexChunks = some #[#[0], #[7]] :=
  Par.early_return_counterexample

/-! ### non-vacuity of the second layer -/

/-- payloads for the three edges of `exEs` with the values of `exVals`:
    `x = v0 + 8·v1 + 64·v2 + 512·val` -/
def exCfg : PayCfg :=
  { edgeOf := fun x => (x % 8, x / 8 % 8, x / 64 % 8), valOf := fun x => x / 512 }
def exPays : Array Nat := #[2696, 4881, 6554]

theorem exPays_ok : ∀ i, i < exPays.size → EdgeOK 7 (exCfg.edgeOf (payOf exPays i)) := by
  intro i hi
  have : i = 0 ∨ i = 1 ∨ i = 2 := by simp [exPays] at hi; omega
  rcases this with h | h | h <;> subst h <;> constructor <;> decide

example : peelBySigHigh 7 exCfg exPays (Array.replicate 7 0) = .ok (some #[0, 0, 5, 0, 12, 0, 9]) := by
  decide
example : peelBySigLow 7 exCfg exPays (Array.replicate 7 0) = .ok (some #[0, 0, 5, 0, 12, 0, 9]) := by
  decide
example : ∀ i, i < exPays.size →
    (exCfg.eqOf (payOf exPays i)).holds (rdA #[0, 0, 5, 0, 12, 0, 9]) :=
  (peel_assign_correct_low_mem 7 exCfg exPays (Array.replicate 7 0) _ exPays_ok (by simp)
    (by decide)).2
/-- the packed `SigVal` of a function build decodes to its parts -/
example : svSig (packSV (5, 9) 77) = (5, 9) ∧ svVal (packSV (5, 9) 77) = 77 := by decide

example : countSort (fun x => x % 3) 3 #[5, 3, 4, 0, 2, 1] = .ok #[3, 0, 4, 1, 5, 2] := by decide

theorem exCore_ok : ∀ i, i < exCore.size → EdgeOK 4 (eAt exCore i) := by
  intro i hi
  have : i = 0 ∨ i = 1 ∨ i = 2 ∨ i = 3 := by simp [exCore] at hi; omega
  rcases this with h | h | h | h <;> subst h <;> constructor <;> decide

/-- nothing of `exCore` can be peeled; the solver does all the work -/
example : (lgeSystem 4 exCore #[1, 2, 4, 8] []).WF := by decide
example : (match lgeShard 4 exCore #[1, 2, 4, 8] (Array.replicate 4 0) with
    | .ok (some d) => (List.range 4).all (fun i =>
        d.getD (eAt exCore i).1 0 ^^^ d.getD (eAt exCore i).2.1 0 ^^^ d.getD (eAt exCore i).2.2 0
          == #[1, 2, 4, 8].getD i 0)
    | _ => false) = true := by decide +kernel
/-- an unsolvable shard: the same edge twice with different values -/
example : lgeShard 3 #[(0, 1, 2), (0, 1, 2)] #[1, 2] (Array.replicate 3 0) = .ok none := by
  decide +kernel

end Sux.Func
