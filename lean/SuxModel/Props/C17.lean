import SuxModel.Func.LemmasLoop
/-!
# C17 — a failed build reports an error; it never returns a wrong function

Model: `Sux.Func.BL` (`BuildLoop.lean`): `readPass` (the reading loop of `try_seed`), `trySeed`,
`step`/`buildLoop` (`build_loop` with `dup_count`, `local_dup_count`, the rewinds).  Everything
`try_seed` does after reading the keys is the input `S.solve`.

Proved: I/O errors of either lender at any position of any pass, and failing rewinds, are the
result of the call; duplicate signatures on every attempt give `DuplicateKey` after exactly four
attempts (three for local duplicates); `ok f` is always the answer of the last attempt on the
pairs that pass delivered.

Not provable (stated explicitly): termination for every key set.  `build_loop` returns iff some
attempt is not a plain transient failure (`terminates_of_final`, `diverges_of_all_transient`,
`nontransient_of_terminates`); whether such an attempt exists depends on xxh3 and on
random-hypergraph theory.  The runner measures the number of attempts.
-/
namespace Sux.Func.BL

variable {κ ν F : Type} [Inhabited ν]

/-- an error lent by the key source at index `|pre|` of a pass, or by the value source at the
    position of a key, makes `try_seed` fail with that error -/
theorem key_error_fails_attempt (S : Sys κ ν F) (a : Nat) (pre : List κ) (rest : List (Item κ))
    (hk : S.keys.pass a = pre.map Item.item ++ Item.err :: rest)
    (hv : match S.vals with
      | none => True
      | some V => ∃ (vpre : List ν) (vrest : List (Item ν)), vpre.length = pre.length ∧ V.pass a = vpre.map Item.item ++ vrest) :
    trySeed S a = .ioErr := by
  unfold trySeed delivered
  rw [hk]
  cases hS : S.vals with
  | none => simp only [Option.map_none]; rw [readPass_key_err_filter]
  | some V =>
    rw [hS] at hv
    obtain ⟨vpre, vrest, hl, hp⟩ := hv
    simp only [Option.map_some, hp]
    rw [readPass_key_err pre rest vpre vrest hl]

theorem value_error_fails_attempt (S : Sys κ ν F) (a : Nat) (V : Lender ν) (hS : S.vals = some V)
    (pre : List κ) (k : κ) (rest : List (Item κ)) (vpre : List ν) (vrest : List (Item ν))
    (hl : vpre.length = pre.length)
    (hk : S.keys.pass a = pre.map Item.item ++ Item.item k :: rest)
    (hv : V.pass a = vpre.map Item.item ++ Item.err :: vrest) :
    trySeed S a = .ioErr := by
  unfold trySeed delivered
  rw [hk, hS]
  simp only [Option.map_some, hv]
  rw [readPass_val_err pre k rest vpre vrest hl]

/-- **I/O errors propagate.**  If attempt `k` fails with an I/O error (see the two lemmas above)
    after `k` attempts that failed transiently (unsolvable shard / max shard too big) and were
    followed by successful rewinds, `build_loop` returns that error after exactly `k + 1`
    attempts — in particular never `ok`. -/
theorem io_error_propagates (S : Sys κ ν F) (k fuel : Nat) (hk : k < fuel)
    (hpre : ∀ j, j < k → PlainTransient (trySeed S j) ∧ rewindsOk S j = true)
    (hio : trySeed S k = .ioErr) : build S fuel = (.errIo, k + 1) :=
  buildLoop_io_at S k fuel hk hpre hio

/-- a lender that cannot be rewound after the transient attempt `k`: the rewind error is returned -/
theorem rewind_error_propagates (S : Sys κ ν F) (k fuel : Nat) (hk : k < fuel)
    (hpre : ∀ j, j < k → PlainTransient (trySeed S j) ∧ rewindsOk S j = true)
    (htr : PlainTransient (trySeed S k)) (hrw : rewindsOk S k = false) :
    build S fuel = (.errIo, k + 1) :=
  buildLoop_rewind_fail_at S k fuel hk hpre htr hrw

/-- **Duplicates are detected after a bounded number of attempts**: `DuplicateSignature` on the
    first four attempts ⇒ `Err(DuplicateKey)` after exactly 4 attempts -/
theorem dup_bounded (S : Sys κ ν F) (fuel : Nat) (hf : 4 ≤ fuel)
    (hd : ∀ a, a < 4 → trySeed S a = .solveErr .dupSig)
    (hr : ∀ a, a < 3 → rewindsOk S a = true) :
    build S fuel = (.errDuplicateKey, 4) := dup_four S fuel hf hd hr

/-- `DuplicateLocalSignature` on the first three attempts ⇒ `Err(DuplicateLocalSignatures)`
    after exactly 3 attempts -/
theorem local_dup_bounded (S : Sys κ ν F) (fuel : Nat) (hf : 3 ≤ fuel)
    (hd : ∀ a, a < 3 → trySeed S a = .solveErr .dupLocalSig)
    (hr : ∀ a, a < 2 → rewindsOk S a = true) :
    build S fuel = (.errDuplicateLocalSignatures, 3) := ldup_three S fuel hf hd hr

/-- **`ok` is the answer of the last attempt** on the pairs its pass delivered -/
theorem ok_is_last_attempt (S : Sys κ ν F) (fuel : Nat) (f : F) (k : Nat)
    (h : build S fuel = (.ok f, k)) :
    0 < k ∧ ∃ items, delivered S (k - 1) = .ok items ∧ S.solve (k - 1) items = .ok f := by
  obtain ⟨hk, hts⟩ := buildLoop_ok_last S fuel 0 0 0 f k h
  refine ⟨hk, ?_⟩
  unfold trySeed at hts
  cases hd : delivered S (k - 1) with
  | ok items => rw [hd] at hts; exact ⟨items, rfl, hts⟩
  | ioErr => rw [hd] at hts; simp at hts
  | panic => rw [hd] at hts; simp at hts

/-- if rewinding replays the same items (C20) and no fault is injected, these pairs are all keys
    with their values -/
theorem ok_delivers_all (S : Sys κ ν F) (V : Lender ν) (hS : S.vals = some V) (a : Nat)
    (ks : List κ) (vs : List ν) (vrest : List (Item ν)) (hl : vs.length = ks.length)
    (hk : S.keys.pass a = ks.map Item.item) (hv : V.pass a = vs.map Item.item ++ vrest) :
    delivered S a = .ok (ks.zip vs) := by
  unfold delivered
  rw [hk, hS]
  simp only [Option.map_some, hv]
  rw [readPass_ok ks vs vrest hl]
  simp

/-- **Termination, what can be said.**  (1) a final attempt (anything but a `SolveError`) makes
    the loop return; (2) if every attempt is a plain transient failure and every rewind succeeds
    the loop never returns; (3) a returning loop has met an attempt that is not a plain transient
    failure, or a failing rewind. -/
theorem terminates_of_final_attempt (S : Sys κ ν F) (k : Nat) (hfin : Final (trySeed S k)) :
    (build S (k + 1)).1 ≠ .outOfFuel := terminates_of_final S k hfin k 0 0 0 (by omega)

theorem never_returns_if_all_transient (S : Sys κ ν F)
    (h : ∀ a, PlainTransient (trySeed S a) ∧ rewindsOk S a = true) (fuel : Nat) :
    (build S fuel).1 = .outOfFuel := diverges_of_all_transient S h fuel 0 0 0

theorem returns_only_if_nontransient (S : Sys κ ν F) (fuel : Nat)
    (h : (build S fuel).1 ≠ .outOfFuel) :
    ∃ k, ¬ (PlainTransient (trySeed S k) ∧ rewindsOk S k = true) := by
  obtain ⟨k, _, hk⟩ := nontransient_of_terminates S fuel 0 0 0 h
  exact ⟨k, hk⟩

/-! ### non-vacuity, and the D18 history -/

/-- 5 keys; the key source fails at index 2 of the second pass; first attempt unsolvable -/
def exS : Sys Nat Nat Nat :=
  { keys := vecLender 5 (some (1, 2)) none,
    vals := some (vecLender 5 none none),
    solve := fun a items => if a = 0 then .solveErr .unsolvable else .ok items.length }

example : build exS 10 = (.errIo, 2) :=
  io_error_propagates exS 1 10 (by omega)
    (fun j hj => by
      have : j = 0 := by omega
      subst this
      exact ⟨Or.inl rfl, rfl⟩)
    rfl

/-- duplicate keys: every attempt reports a duplicate signature -/
def exDup : Sys Nat Nat Nat :=
  { keys := vecLender 5 none none, vals := none, solve := fun _ _ => .solveErr .dupSig }

example : build exDup 100 = (.errDuplicateKey, 4) :=
  dup_bounded exDup 100 (by omega) (fun _ _ => rfl) (fun _ _ => rfl)

/-- D18: `FromIntoIterator::from(0..2n).take(n)` — after a failed first attempt the rewound
    `Take` lends nothing, the second attempt "succeeds" on zero keys: the model exhibits the
    wrong `Ok` (a function over 0 keys although 5 were supplied).  `ok_is_last_attempt` still
    holds; what fails is the hypothesis of `ok_delivers_all` (the second pass is not the first). -/
def exTake : Sys Nat Nat Nat :=
  { keys := takeLender 5,
    vals := some (vecLender 5 none none),
    solve := fun a items => if a = 0 then .solveErr .unsolvable else .ok items.length }

example : build exTake 10 = (.ok 0, 2) := rfl
example : delivered exTake 0 = .ok ((List.range 5).zip (List.range 5)) := rfl
example : delivered exTake 1 = .ok [] := rfl

end Sux.Func.BL
