import SuxModel.Func.LemmasLoop
import SuxModel.Gen.TieFunc
/-!
# C17 — a failed build reports an error; it never returns a wrong function

Model: `Sux.Func.BL` (`BuildLoop.lean`): `readPass` (the reading loop of `try_seed`), `trySeed`,
`step`/`buildLoop` (`build_loop` with `dup_count`, `local_dup_count`, `max_shard_count`, the
rewinds).  Everything `try_seed` does after reading the keys is the input `S.solve`; `S.checkDups`
is the builder's flag.

Proved: I/O errors of either lender at any position of any pass, and failing rewinds, are the
result of the call; duplicate signatures on every attempt give `DuplicateKey` after exactly four
attempts (three for local duplicates); `ok f` is always the answer of the last attempt on the
pairs that pass delivered.

D34 (fixed in the code, `max_shard_count`): with `check_dups` an oversized maximum shard is retried
at most `Gen.maxShardTooBigRetries` (= 32, regenerated from the source; tie lemma
`Gen.tie_maxShardTooBigRetries`) times, then reported as `DuplicateKey`:
`build_loop_bounded_when_checking_dups`, `heavy_key_forces_max_shard_too_big`,
`old_loop_never_returns_on_heavy_key` (the regression: the loop before the fix).

Not provable (stated explicitly): termination for every key set.  `build_loop` returns iff some
attempt is not retried without bound — `UnsolvableShard` always is, `MaxShardTooBig` is when
`check_dups` is off — (`terminates_of_final`, `diverges_of_all_unbounded`,
`nontransient_of_terminates`); whether such an attempt exists depends on xxh3 and on
random-hypergraph theory.  The runner measures the number of attempts.
-/
namespace Sux.Func.BL

variable {κ ν F : Type} [Inhabited ν]

/-- an error lent by the key source at index `|pre|` of a pass, or by the value source at the
    position of a key, makes `try_seed` fail with that error -/
theorem key_error_fails_attempt (S : Sys κ ν F) (a : Nat) (pre : List κ) (rest : List (Item κ))
    (hk : S.keys.pass a = pre.map Item.item ++ Item.err :: rest)
    (hv : match S.vals with
      | none => True
      | some V => ∃ (vpre : List ν) (vrest : List (Item ν)), vpre.length = pre.length ∧ V.pass a = vpre.map Item.item ++ vrest) :
    trySeed S a = .ioErr := by
  unfold trySeed delivered
  rw [hk]
  cases hS : S.vals with
  | none => simp only [Option.map_none]; rw [readPass_key_err_filter]
  | some V =>
    rw [hS] at hv
    obtain ⟨vpre, vrest, hl, hp⟩ := hv
    simp only [Option.map_some, hp]
    rw [readPass_key_err pre rest vpre vrest hl]

theorem value_error_fails_attempt (S : Sys κ ν F) (a : Nat) (V : Lender ν) (hS : S.vals = some V)
    (pre : List κ) (k : κ) (rest : List (Item κ)) (vpre : List ν) (vrest : List (Item ν))
    (hl : vpre.length = pre.length)
    (hk : S.keys.pass a = pre.map Item.item ++ Item.item k :: rest)
    (hv : V.pass a = vpre.map Item.item ++ Item.err :: vrest) :
    trySeed S a = .ioErr := by
  unfold trySeed delivered
  rw [hk, hS]
  simp only [Option.map_some, hv]
  rw [readPass_val_err pre k rest vpre vrest hl]

/-- **I/O errors propagate.**  If attempt `k` fails with an I/O error (see the two lemmas above)
    after `k` attempts that failed transiently (unsolvable shard / max shard too big) and were
    followed by successful rewinds, `build_loop` returns that error after exactly `k + 1`
    attempts — in particular never `ok`.  (`hc`: with `check_dups` on, oversized maximum shards
    are counted, so the `k` transient attempts must stay within the bound of D34's fix.) -/
theorem io_error_propagates (S : Sys κ ν F) (k fuel : Nat) (hk : k < fuel)
    (hc : S.checkDups = true → k ≤ Gen.maxShardTooBigRetries)
    (hpre : ∀ j, j < k → PlainTransient (trySeed S j) ∧ rewindsOk S j = true)
    (hio : trySeed S k = .ioErr) : build S fuel = (.errIo, k + 1) :=
  buildLoop_io_at S k fuel hk hc hpre hio

/-- a lender that cannot be rewound after the transient attempt `k`: the rewind error is returned -/
theorem rewind_error_propagates (S : Sys κ ν F) (k fuel : Nat) (hk : k < fuel)
    (hc : S.checkDups = true → k < Gen.maxShardTooBigRetries)
    (hpre : ∀ j, j < k → PlainTransient (trySeed S j) ∧ rewindsOk S j = true)
    (htr : PlainTransient (trySeed S k)) (hrw : rewindsOk S k = false) :
    build S fuel = (.errIo, k + 1) :=
  buildLoop_rewind_fail_at S k fuel hk hc hpre htr hrw

/-- **Duplicates are detected after a bounded number of attempts**: `DuplicateSignature` on the
    first four attempts ⇒ `Err(DuplicateKey)` after exactly 4 attempts -/
theorem dup_bounded (S : Sys κ ν F) (fuel : Nat) (hf : 4 ≤ fuel)
    (hd : ∀ a, a < 4 → trySeed S a = .solveErr .dupSig)
    (hr : ∀ a, a < 3 → rewindsOk S a = true) :
    build S fuel = (.errDuplicateKey, 4) := dup_four S fuel hf hd hr

/-- `DuplicateLocalSignature` on the first three attempts ⇒ `Err(DuplicateLocalSignatures)`
    after exactly 3 attempts -/
theorem local_dup_bounded (S : Sys κ ν F) (fuel : Nat) (hf : 3 ≤ fuel)
    (hd : ∀ a, a < 3 → trySeed S a = .solveErr .dupLocalSig)
    (hr : ∀ a, a < 2 → rewindsOk S a = true) :
    build S fuel = (.errDuplicateLocalSignatures, 3) := ldup_three S fuel hf hd hr

/-- **`ok` is the answer of the last attempt** on the pairs its pass delivered -/
theorem ok_is_last_attempt (S : Sys κ ν F) (fuel : Nat) (f : F) (k : Nat)
    (h : build S fuel = (.ok f, k)) :
    0 < k ∧ ∃ items, delivered S (k - 1) = .ok items ∧ S.solve (k - 1) items = .ok f := by
  obtain ⟨hk, hts⟩ := buildLoop_ok_last S fuel 0 0 0 0 f k h
  refine ⟨hk, ?_⟩
  unfold trySeed at hts
  cases hd : delivered S (k - 1) with
  | ok items => rw [hd] at hts; exact ⟨items, rfl, hts⟩
  | ioErr => rw [hd] at hts; simp at hts
  | panic => rw [hd] at hts; simp at hts

/-- if rewinding replays the same items (C20) and no fault is injected, these pairs are all keys
    with their values -/
theorem ok_delivers_all (S : Sys κ ν F) (V : Lender ν) (hS : S.vals = some V) (a : Nat)
    (ks : List κ) (vs : List ν) (vrest : List (Item ν)) (hl : vs.length = ks.length)
    (hk : S.keys.pass a = ks.map Item.item) (hv : V.pass a = vs.map Item.item ++ vrest) :
    delivered S a = .ok (ks.zip vs) := by
  unfold delivered
  rw [hk, hS]
  simp only [Option.map_some, hv]
  rw [readPass_ok ks vs vrest hl]
  simp

/-- **Termination, what can be said.**  (1) a final attempt (anything but a `SolveError`) makes
    the loop return; (2) if every attempt is retried without bound (`UnsolvableShard`, or
    `MaxShardTooBig` with `check_dups` off) and every rewind succeeds the loop never returns;
    (3) a returning loop has met an attempt that is not of that kind, or a failing rewind. -/
theorem terminates_of_final_attempt (S : Sys κ ν F) (k : Nat) (hfin : Final (trySeed S k)) :
    (build S (k + 1)).1 ≠ .outOfFuel := terminates_of_final S k hfin k 0 0 0 0 (by omega)

theorem never_returns_if_all_transient (S : Sys κ ν F)
    (h : ∀ a, Unbounded S (trySeed S a) ∧ rewindsOk S a = true) (fuel : Nat) :
    (build S fuel).1 = .outOfFuel := diverges_of_all_unbounded S h fuel 0 0 0 0

theorem returns_only_if_nontransient (S : Sys κ ν F) (fuel : Nat)
    (h : (build S fuel).1 ≠ .outOfFuel) :
    ∃ k, ¬ (Unbounded S (trySeed S k) ∧ rewindsOk S k = true) := by
  obtain ⟨k, _, hk⟩ := nontransient_of_terminates S fuel 0 0 0 0 h
  exact ⟨k, hk⟩

/-! ### D34: oversized maximum shards under `check_dups` -/

/-- **`build_loop` is bounded when duplicates are checked, up to unsolvable shards.**  With
    `check_dups`, every attempt either ends the loop (success, fatal error, failing rewind, a
    counter at its bound) or is retried and then increments `dup_count` (≤ 3), `local_dup_count`
    (≤ 2), `max_shard_count` (≤ `maxShardTooBigRetries`), or was an `UnsolvableShard`.  The retry
    on `UnsolvableShard` is NOT bounded in the code; the hypothesis `hk` bounds their number by
    `k` (`unsCount S n` = unsolvable attempts among the first `n`).  Then the loop returns within
    `6 + maxShardTooBigRetries + k` attempts, whatever `solve` is, and never runs out of that
    much fuel. -/
theorem build_loop_bounded_when_checking_dups (S : Sys κ ν F) (hc : S.checkDups = true) (k : Nat)
    (hk : ∀ n, unsCount S n ≤ k) (fuel : Nat)
    (hf : 6 + Gen.maxShardTooBigRetries + k ≤ fuel) :
    (build S fuel).1 ≠ .outOfFuel ∧ (build S fuel).2 ≤ 6 + Gen.maxShardTooBigRetries + k :=
  buildLoop_bounded_aux S hc k hk fuel 0 0 0 0 (by omega) (by omega) (by omega) (by simp [unsCount])
    (by omega)

/-- the same with the bound the source has now: at most `38 + k` attempts -/
theorem build_loop_bound_38 (S : Sys κ ν F) (hc : S.checkDups = true) (k : Nat)
    (hk : ∀ n, unsCount S n ≤ k) (fuel : Nat) (hf : 38 + k ≤ fuel) :
    (build S fuel).1 ≠ .outOfFuel ∧ (build S fuel).2 ≤ 38 + k := by
  have := build_loop_bounded_when_checking_dups S hc k hk fuel
    (by rw [Gen.tie_maxShardTooBigRetries]; omega)
  rw [Gen.tie_maxShardTooBigRetries] at this
  exact ⟨this.1, by omega⟩

/-- **Why a heavy key gives `MaxShardTooBig` for every seed.**  Whatever function maps keys to
    shards, the shard of `x` holds at least `count x` pairs; so if `m` copies of one key exceed
    `slack · n / shards` (`slack = maxShardSlackNum / maxShardSlackDen` = 1.01, exact arithmetic),
    the test `max_shard > slack · n / shards` of `try_seed` succeeds for every seed. -/
theorem heavy_key_shard {κ : Type} [DecidableEq κ] (shardOf : κ → Nat) (keys : List κ) (x : κ)
    (shards maxShard m : Nat) (hm : m ≤ keys.count x)
    (hmax : (keys.filter (fun k => shardOf k == shardOf x)).length ≤ maxShard)
    (hheavy : Gen.maxShardSlackNum * keys.length < Gen.maxShardSlackDen * m * shards) :
    keys.count x ≤ (keys.filter (fun k => shardOf k == shardOf x)).length ∧
    Gen.maxShardSlackNum * keys.length < Gen.maxShardSlackDen * maxShard * shards :=
  ⟨shard_of_heavy_key shardOf keys x,
   heavy_key_too_big shardOf keys x shards maxShard m hm hmax hheavy⟩

/-- **A heavy key.**  If `try_seed` answers `MaxShardTooBig` on every attempt, whatever pairs were
    delivered (what the previous lemma says a heavy key forces), and passes and rewinds succeed:
    with `check_dups` the build ends with `DuplicateKey` after exactly
    `maxShardTooBigRetries + 1` attempts; without `check_dups` it never returns (the retry is
    still unbounded there: outside the property's hypothesis, documented here). -/
theorem heavy_key_forces_max_shard_too_big (S : Sys κ ν F)
    (hsolve : ∀ a items, S.solve a items = .solveErr .maxShardTooBig)
    (hdel : ∀ a, ∃ items, delivered S a = .ok items)
    (hrw : ∀ a, rewindsOk S a = true) :
    (S.checkDups = true → ∀ fuel, Gen.maxShardTooBigRetries + 1 ≤ fuel →
      build S fuel = (.errDuplicateKey, Gen.maxShardTooBigRetries + 1)) ∧
    (S.checkDups = false → ∀ fuel, (build S fuel).1 = .outOfFuel) := by
  have hts : ∀ a, trySeed S a = .solveErr .maxShardTooBig := by
    intro a
    obtain ⟨items, hd⟩ := hdel a
    unfold trySeed
    rw [hd]
    exact hsolve a items
  constructor
  · intro hc fuel hf
    obtain ⟨r, rfl⟩ : ∃ r, fuel = r + Gen.maxShardTooBigRetries + 1 :=
      ⟨fuel - Gen.maxShardTooBigRetries - 1, by omega⟩
    have := mst_forced_aux S hc hts Gen.maxShardTooBigRetries 0 0 0 0 r (by omega)
      (fun j _ _ => hrw j)
    simpa [build] using this
  · intro hc fuel
    exact diverges_of_all_unbounded S (fun a => ⟨Or.inr ⟨hts a, hc⟩, hrw a⟩) fuel 0 0 0 0

/-- with the bound the source has now: `DuplicateKey` after exactly 33 attempts -/
theorem heavy_key_gives_duplicate_key_after_33_attempts (S : Sys κ ν F) (hc : S.checkDups = true)
    (hsolve : ∀ a items, S.solve a items = .solveErr .maxShardTooBig)
    (hdel : ∀ a, ∃ items, delivered S a = .ok items)
    (hrw : ∀ a, rewindsOk S a = true) (fuel : Nat) (hf : 33 ≤ fuel) :
    build S fuel = (.errDuplicateKey, 33) := by
  have := (heavy_key_forces_max_shard_too_big S hsolve hdel hrw).1 hc fuel
    (by rw [Gen.tie_maxShardTooBigRetries]; omega)
  rw [Gen.tie_maxShardTooBigRetries] at this
  exact this

/-- **The regression (defect D34).**  The loop before the fix (`buildOld`: the `MaxShardTooBig`
    arm retries whatever `check_dups` is) never returns under the same hypothesis — even with
    `check_dups`: every fuel is exhausted. -/
theorem old_loop_never_returns_on_heavy_key (S : Sys κ ν F)
    (hsolve : ∀ a items, S.solve a items = .solveErr .maxShardTooBig)
    (hdel : ∀ a, ∃ items, delivered S a = .ok items)
    (hrw : ∀ a, rewindsOk S a = true) (fuel : Nat) :
    (buildOld S fuel).1 = .outOfFuel := by
  have hts : ∀ a, trySeed S a = .solveErr .maxShardTooBig := by
    intro a
    obtain ⟨items, hd⟩ := hdel a
    unfold trySeed
    rw [hd]
    exact hsolve a items
  exact old_loop_diverges S (fun a => ⟨hts a, hrw a⟩) fuel 0 0 0 0

/-! ### non-vacuity, and the D18 history -/

/-- 5 keys; the key source fails at index 2 of the second pass; first attempt unsolvable -/
def exS : Sys Nat Nat Nat :=
  { keys := vecLender 5 (some (1, 2)) none,
    vals := some (vecLender 5 none none),
    solve := fun a items => if a = 0 then .solveErr .unsolvable else .ok items.length }

example : build exS 10 = (.errIo, 2) :=
  io_error_propagates exS 1 10 (by omega) (fun h => by simp [exS] at h)
    (fun j hj => by
      have : j = 0 := by omega
      subst this
      exact ⟨Or.inl rfl, rfl⟩)
    rfl

/-- duplicate keys: every attempt reports a duplicate signature -/
def exDup : Sys Nat Nat Nat :=
  { keys := vecLender 5 none none, vals := none, solve := fun _ _ => .solveErr .dupSig }

example : build exDup 100 = (.errDuplicateKey, 4) :=
  dup_bounded exDup 100 (by omega) (fun _ _ => rfl) (fun _ _ => rfl)

/-- D18: `FromIntoIterator::from(0..2n).take(n)` — after a failed first attempt the rewound
    `Take` lends nothing, the second attempt "succeeds" on zero keys: the model exhibits the
    wrong `Ok` (a function over 0 keys although 5 were supplied).  `ok_is_last_attempt` still
    holds; what fails is the hypothesis of `ok_delivers_all` (the second pass is not the first). -/
def exTake : Sys Nat Nat Nat :=
  { keys := takeLender 5,
    vals := some (vecLender 5 none none),
    solve := fun a items => if a = 0 then .solveErr .unsolvable else .ok items.length }

/-- D34: 5 keys, every seed gives an oversized maximum shard -/
def exHeavy (cd : Bool) : Sys Nat Nat Nat :=
  { keys := vecLender 5 none none, vals := none, checkDups := cd,
    solve := fun _ _ => .solveErr .maxShardTooBig }

example : build (exHeavy true) 100 = (.errDuplicateKey, 33) := by decide
example : build (exHeavy true) 100 = (.errDuplicateKey, 33) :=
  heavy_key_gives_duplicate_key_after_33_attempts (exHeavy true) rfl (fun _ _ => rfl)
    (fun _ => ⟨_, rfl⟩) (fun _ => rfl) 100 (by omega)
example : build (exHeavy false) 200 = (.outOfFuel, 200) := by decide +kernel
example : buildOld (exHeavy true) 200 = (.outOfFuel, 200) := by decide +kernel
/-- three unsolvable attempts, then success, with `check_dups`: within the bound `38 + 3` -/
example : build { exHeavy true with
    solve := fun a items => if a < 3 then .solveErr .unsolvable else .ok items.length } 41
      = (.ok 5, 4) := by decide
/-- 3000 copies of one key among 100001 keys in 2 shards is NOT forced by arithmetic (the heavy
    shard is too big only with overwhelming probability); 51000 copies are -/
example : ¬ (Gen.maxShardSlackNum * 100001 < Gen.maxShardSlackDen * 3000 * 2) ∧
    Gen.maxShardSlackNum * 100001 < Gen.maxShardSlackDen * 51000 * 2 := by decide

example : build exTake 10 = (.ok 0, 2) := rfl
example : delivered exTake 0 = .ok ((List.range 5).zip (List.range 5)) := rfl
example : delivered exTake 1 = .ok [] := rfl

end Sux.Func.BL
