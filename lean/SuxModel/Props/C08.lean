import SuxModel.Func.LemmasCount
/-!
# C08 — a static filter has no false negatives and accepts a 2^-b fraction of hash values

Model: `Sux.Func.containsBySig` (`VFilter::contains_by_sig`), `filterVal` (the value
`try_build_filter` stores for a key), `filterMask`, `mix64`.

What is proved: (1) no false negative for every key whose equation holds in the cell array
(this hypothesis is C07's conclusion, and the runner checks it on every exported instance);
(2) the mask is `2^b - 1` for both backends; (3) the counting theorem: whatever value the three
cells XOR to, exactly `2^(64-b)` of the `2^64` possible hash values are accepted, and they are
exactly the values congruent to it modulo `2^b`.

What is *not* provable here (stated, not hidden): that `mix64 ∘ xxh3` of a non-member key is
uniformly distributed and independent of the cells (`HashUniform`).  Under that assumption the
false-positive probability is `2^(64-b) / 2^64 = 2^-b` by (3); the runner measures it.
-/
namespace Sux.Func

/-- no false negative: a key whose equation (with its filter value) holds is reported present -/
theorem no_false_negative (cells : Array Nat) (p : Params) (W b : Nat) (sig : Sig)
    (h : (eqOf p sig (filterVal p W (filterMask W b) sig)).check cells = true) :
    containsBySig cells p W (filterMask W b) sig = .ok true :=
  containsBySig_of_check cells p W _ sig h

/-- ... for every key of a certified instance -/
theorem no_false_negatives (cells : Array Nat) (p : Params) (W b : Nat) (sigs : List Sig)
    (h : ∀ sig ∈ sigs, (eqOf p sig (filterVal p W (filterMask W b) sig)).check cells = true) :
    ∀ sig ∈ sigs, containsBySig cells p W (filterMask W b) sig = .ok true :=
  fun sig hs => no_false_negative cells p W b sig (h sig hs)

/-- `W::MAX >> (W::BITS - b) = 2^b - 1` (slice backends: `b = W`) -/
theorem mask_eq (W b : Nat) (hb : b ≤ W) : filterMask W b = 2 ^ b - 1 := filterMask_eq W b hb

/-- the stored value of a key fits in `b` bits -/
theorem filterVal_lt (p : Params) (W b : Nat) (hb : b ≤ W) (sig : Sig) :
    filterVal p W (filterMask W b) sig < 2 ^ b := by
  unfold filterVal
  rw [mask_eq W b hb, and_mask_eq_mod]
  exact Nat.mod_lt _ (Nat.two_pow_pos b)

/-- **Counting theorem.**  For `b ≤ W ≤ 64` and any value `c` (the XOR of the three cells), the
    number of hash values `h < 2^64` with `(h mod 2^W) & mask = c & mask` is `2^(64-b)`.
    (`acceptCount` is `(List.range (2^64)).countP …`; it is never evaluated.) -/
theorem accept_count (W b : Nat) (hb : b ≤ W) (hW : W ≤ 64) (c : Nat) :
    acceptCount W b c = 2 ^ (64 - b) := acceptCount_eq W b hb hW c

/-- the accepted hash values are exactly `c mod 2^b + 2^b·q`, `q < 2^(64-b)` -/
theorem accept_iff (W b : Nat) (hb : b ≤ W) (hW : W ≤ 64) (c h : Nat) (hh : h < 2 ^ 64) :
    ((h % 2 ^ W) &&& (2 ^ b - 1) = c &&& (2 ^ b - 1)) ↔
      ∃ q, q < 2 ^ (64 - b) ∧ h = c % 2 ^ b + 2 ^ b * q := accept_iff_repr W b hb hW c h hh

/-- **Acceptance characterisation (members and non-members alike).**  Whenever the three cells of
    a signature are readable and XOR to `v`, `contains_by_sig` answers `true` exactly when `v` is
    the masked, down-cast mixed hash of the signature.  This ties the decision the code takes to
    the set counted by `accept_count`: the answer depends on the key only through that hash. -/
theorem contains_iff (cells : Array Nat) (p : Params) (W mask : Nat) (sig : Sig) (v : Nat)
    (hv : getBySig cells p sig = .ok v) :
    containsBySig cells p W mask sig = .ok true ↔ v = filterVal p W mask sig := by
  unfold containsBySig
  rw [hv]
  simp [bind, Out.bind, pure]

/-- ... and `contains_by_sig` never answers anything but the outcome of that comparison -/
theorem contains_eq (cells : Array Nat) (p : Params) (W mask : Nat) (sig : Sig) (v : Nat)
    (hv : getBySig cells p sig = .ok v) :
    containsBySig cells p W mask sig = .ok (v == filterVal p W mask sig) := by
  unfold containsBySig
  rw [hv]
  rfl

/-- a key is accepted iff its 64-bit mixed hash lies in the class `accept_iff` describes: for
    cells holding `b`-bit values (`v < 2^b`), acceptance is `hash ≡ v (mod 2^b)`; so a non-member
    whose hash is uniform is accepted with probability `2^(64-b) / 2^64` (by `accept_count`). -/
theorem contains_iff_hash_class (cells : Array Nat) (p : Params) (W b : Nat) (hb : b ≤ W)
    (sig : Sig) (v : Nat) (hv : getBySig cells p sig = .ok v) :
    containsBySig cells p W (filterMask W b) sig = .ok true ↔
      mix64 (edgeHash p (localSig p sig)) % 2 ^ b = v := by
  rw [contains_iff cells p W _ sig v hv]
  unfold filterVal
  rw [mask_eq W b hb, and_mask_eq_mod, mod_mod_pow _ W b hb]
  exact eq_comm

/-- false positives are exactly hash collisions modulo `2^b` with the XOR of the cells: a
    signature whose class differs is rejected (no "accept by default" path) -/
theorem rejects_outside_class (cells : Array Nat) (p : Params) (W b : Nat) (hb : b ≤ W)
    (sig : Sig) (v : Nat) (hv : getBySig cells p sig = .ok v)
    (hne : mix64 (edgeHash p (localSig p sig)) % 2 ^ b ≠ v) :
    containsBySig cells p W (filterMask W b) sig = .ok false := by
  rw [contains_eq cells p W _ sig v hv]
  congr 1
  unfold filterVal
  rw [mask_eq W b hb, and_mask_eq_mod, mod_mod_pow _ W b hb]
  simp only [beq_eq_false_iff_ne, ne_eq]
  exact fun h => hne h.symm

/-! ### non-vacuity -/

/-- a 3-bit filter on a `u8` backend over 6 cells, one key with signature `(5, 0)` -/
def exP : Params := { logic := .noshards, sw := 1, shift := 63, s := 1, l := 1 }
def exCells : Array Nat := #[filterVal exP 8 (filterMask 8 3) (5, 0), 0, 0, 6, 0, 6]

example : (eqOf exP (5, 0) (filterVal exP 8 (filterMask 8 3) (5, 0))).check exCells = true := by
  decide
example : containsBySig exCells exP 8 (filterMask 8 3) (5, 0) = .ok true :=
  no_false_negative exCells exP 8 3 (5, 0) (by decide)
example : filterMask 8 3 = 7 := by decide
/-- non-member signatures of the example: `(1, 3)` is rejected, `(9, 3)` is a false positive
    (its hash class coincides with the XOR of its cells) -/
example : containsBySig exCells exP 8 (filterMask 8 3) (1, 3) = .ok false := by decide
example : containsBySig exCells exP 8 (filterMask 8 3) (9, 3) = .ok true := by decide
example : acceptCount 8 3 5 = 2 ^ 61 := accept_count 8 3 (by omega) (by omega) 5

end Sux.Func
