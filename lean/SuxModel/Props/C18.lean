import SuxModel.SigStore.LemmasMain
/-!
# C18 — the signature store returns every pair exactly once, in its high-bits shard

Model: `SuxModel/SigStore/Model.lean` (mirrors `src/utils/sig_store.rs`: `Sig::high_bits`,
`new_online`/`new_offline`, `try_push`, `into_shard_store`, `ShardStore::{len, shard_sizes, iter,
into_iter}` and the three branches of both `ShardIterator::next` impls).  Vocabulary:
`SuxModel/SigStore/Spec.lean` (`cls sw bits ps k` = the pushed pairs whose top `bits` bits are `k`,
in push order; `Admissible` = the parameter triples for which no constructor/`into_shard_store`
assertion fires).  File contents are lists of pairs: binary I/O is a parameter (trusted base).

Within-shard order is *not* part of the property (shards are characterised up to `List.Perm`);
`iter_order` records the order the real code happens to produce (checked by the `iter_raw` op).
-/
namespace Sux.SigStore

/-- `high_bits` is the top `b` bits of the first signature word (in particular 0 for `b = 0`) -/
theorem high_bits_top (sw sig b : Nat) (hb : b ≤ 64) :
    highBits sw sig b = firstWord sw sig >>> (64 - b) ∧ highBits sw sig b < 2 ^ b :=
  ⟨highBits_eq_shift sw sig b hb, highBits_lt sw sig b hb⟩

example : highBits 2 (0xF123456789ABCDEF * 2 ^ 64 + 0xFFFFFFFFFFFFFFFF) 4 = 15 := by decide

/-- key lemma: fewer high bits are a right shift of more high bits -/
theorem high_bits_shift (sw sig a b : Nat) (hab : a ≤ b) (hb : b ≤ 64) :
    highBits sw sig a = highBits sw sig b >>> (b - a) :=
  highBits_shift sw sig a b hab hb

example : highBits 1 0xF123456789ABCDEF 4 = highBits 1 0xF123456789ABCDEF 12 >>> (12 - 4) :=
  high_bits_shift 1 _ 4 12 (by omega) (by omega)

/-- the checked call made by the store (mask `(1 << b) - 1`) returns `highBits`; it panics from
64 bits on (shift overflow in a checked build) -/
theorem high_bits_call (sw sig b : Nat) :
    (b < 64 → highBitsChk sw sig b ((1 <<< b) - 1) = .ok (highBits sw sig b)) ∧
    (64 ≤ b → ∀ mask, highBitsChk sw sig b mask = .panic) :=
  ⟨highBitsChk_eq sw sig b, fun h mask => highBitsChk_panic sw sig b mask h⟩

/-- **C18.**  For every backend, signature width, admissible `(bucket bits, max shard bits, shard
bits)` and every pushed list `ps`: construction, all pushes and `into_shard_store` succeed;
`SigStore::len` and `ShardStore::len` are the number of pushed pairs; `shard_sizes` has `2^sb`
entries; borrowed iteration yields `2^sb` shards, leaves the store unchanged (so it is repeatable)
and ends exhausted; consuming iteration yields the very same list of shards; shard `i` is, as a
multiset, the pushed pairs whose top `sb` bits are `i`; `shard_sizes[i]` is its length; the union of
the shards is the pushed multiset.  No step panics and none reads uninitialised memory. -/
theorem shards_partition (be : Backend) (sw b m sb : Nat) (ps : List Pair)
    (hadm : Admissible be b m sb) :
    ∃ s0 s st shards it1 it2,
      new be sw b m = .ok s0 ∧ pushAll s0 ps = .ok s ∧ s.len = ps.length ∧
      intoShardStore s sb = .ok st ∧ st.len = ps.length ∧
      collect st.iter = .ok (shards, it1) ∧ it1.store = st ∧ next it1 = .ok (none, it1) ∧
      collect st.intoIter = .ok (shards, it2) ∧ next it2 = .ok (none, it2) ∧
      shards.length = 2 ^ sb ∧ st.shardSizes = shards.map List.length ∧
      (∀ i, i < 2 ^ sb → ∃ x, shards[i]? = some x ∧
        x.Perm (ps.filter (fun p => highBits sw p.1 sb == i))) ∧
      shards.flatten.Perm ps := by
  obtain ⟨hb, hm, hs, hfile⟩ := hadm
  obtain ⟨s0, e0, h0⟩ := new_inv be sw b m hb hm hfile
  obtain ⟨s, e1, h1⟩ := pushAll_inv be sw b m hb hm ps [] s0 h0
  rw [List.nil_append] at h1
  obtain ⟨st, e2, h2⟩ := intoShardStore_inv s be sw b m sb ps hm hs hfile h1
  obtain ⟨it1, e3, hn1, hst1⟩ := collect_spec st be sw b sb ps h2 hb (by omega) true
  obtain ⟨it2, e4, hn2, _⟩ := collect_spec st be sw b sb ps h2 hb (by omega) false
  refine ⟨s0, s, st, _, it1, it2, e0, e1, h1.len, e2, ?_, e3, hst1 rfl, hn1, e4, hn2, by simp,
    ?_, ?_, ?_⟩
  · unfold ShardStore.len
    rw [h2.shardSizes]
    exact sum_cls_lengths sw sb ps (by omega)
  · rw [h2.shardSizes, List.map_map]
    apply List.map_congr_left
    intro i _
    exact ((iterOrder_perm sw b sb ps i (by omega)).length_eq).symm
  · intro i hi
    refine ⟨iterOrder sw b sb ps i, ?_, iterOrder_perm sw b sb ps i (by omega)⟩
    rw [getElem?_map_range, if_pos hi]
  · refine (flatten_map_perm _ (cls sw sb ps) _ ?_).trans (all_cls_perm sw sb ps (by omega))
    intro i _
    exact iterOrder_perm sw b sb ps i (by omega)

/-- non-vacuity: an offline store with 4 buckets, 8 finest shards, sharded by 1 bit (aggregate
branch), 128-bit signatures, duplicates and skew -/
example := shards_partition .file 2 2 3 1
  [(2 ^ 127, 5), (0, 1), (2 ^ 127, 5), (2 ^ 128 - 1, 0), (2 ^ 126, 7), (1, 1)]
  (by unfold Admissible; simp)

/-- … and an online one split into more shards than buckets -/
example := shards_partition .mem 1 1 4 4 [(2 ^ 63, 5), (0, 1), (2 ^ 63 + 2 ^ 60, 5), (2 ^ 64 - 1, 0)]
  (by unfold Admissible; simp)

/-- the order in which the pairs of each shard are emitted (not part of the property) -/
theorem iter_order (be : Backend) (sw b m sb : Nat) (ps : List Pair)
    (hadm : Admissible be b m sb) :
    ∃ s0 s st it1 it2,
      new be sw b m = .ok s0 ∧ pushAll s0 ps = .ok s ∧ intoShardStore s sb = .ok st ∧
      collect st.iter = .ok ((List.range (2 ^ sb)).map (iterOrder sw b sb ps), it1) ∧
      collect st.intoIter = .ok ((List.range (2 ^ sb)).map (iterOrder sw b sb ps), it2) := by
  obtain ⟨hb, hm, hs, hfile⟩ := hadm
  obtain ⟨s0, e0, h0⟩ := new_inv be sw b m hb hm hfile
  obtain ⟨s, e1, h1⟩ := pushAll_inv be sw b m hb hm ps [] s0 h0
  rw [List.nil_append] at h1
  obtain ⟨st, e2, h2⟩ := intoShardStore_inv s be sw b m sb ps hm hs hfile h1
  obtain ⟨it1, e3, _, _⟩ := collect_spec st be sw b sb ps h2 hb (by omega) true
  obtain ⟨it2, e4, _, _⟩ := collect_spec st be sw b sb ps h2 hb (by omega) false
  exact ⟨s0, s, st, it1, it2, e0, e1, e2, e3, e4⟩

example := iter_order .mem 1 3 3 1 [(2 ^ 63, 5), (0, 1), (2 ^ 62, 5)] (by unfold Admissible; simp)

/-- the spec'd panics: more shard bits than `max_shard_high_bits` (`assert!` in
`into_shard_store`), 64 or more bits in a constructor -/
theorem shard_bits_beyond_max_panics (be : Backend) (sw b m sb : Nat) (ps : List Pair)
    (hb : b < 64) (hm : m < 64) (hfile : be = .file → b < 31) (hs : m < sb) :
    ∃ s0 s, new be sw b m = .ok s0 ∧ pushAll s0 ps = .ok s ∧ intoShardStore s sb = .panic := by
  obtain ⟨s0, e0, h0⟩ := new_inv be sw b m hb hm hfile
  obtain ⟨s, e1, h1⟩ := pushAll_inv be sw b m hb hm ps [] s0 h0
  exact ⟨s0, s, e0, e1, intoShardStore_panic s sb (by rw [h1.mbits]; exact hs)⟩

example := shard_bits_beyond_max_panics .mem 1 2 1 2 [(5, 6)] (by omega) (by omega)
  (by intro h; cases h) (by omega)

theorem new_bits_ge_64_panics (be : Backend) (sw b m : Nat) (h : 64 ≤ b ∨ 64 ≤ m) :
    new be sw b m = .panic := new_panic be sw b m h

example : new .mem 1 64 0 = .panic := new_bits_ge_64_panics .mem 1 64 0 (by omega)

end Sux.SigStore
