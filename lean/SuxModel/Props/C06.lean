import SuxModel.BitVec.LemmasIter
/-!
# C06 — `BitVec` is observationally a `Vec<bool>` under any operation sequence

Model: `SuxModel/BitVec/Model.lean` (mirrors `src/bits/bit_vec.rs`), specification:
`SuxModel/BitVec/Spec.lean`.  `St.Inv` says only `len ≤ 64 * words.size` and that every word fits
in 64 bits: storage at or beyond `len` is arbitrary in every theorem below.
-/
namespace Sux.BV

/-! ## concrete states used by the non-vacuity examples -/

/-- 70 logical bits, garbage in bits 6..63 of word 1, and a third word entirely beyond `len` -/
def exA : St := { words := #[0xF0F0F0F0F0F0F0F1, 0xFFFFFFFFFFFFFF15, 0xABC], len := 70 }
/-- same logical contents, other garbage, smaller capacity -/
def exB : St := { words := #[0xF0F0F0F0F0F0F0F1, 0x1234567800000055], len := 70 }

theorem exA_inv : exA.Inv := by
  refine ⟨by decide, ?_⟩
  apply WordsOK_of_getD
  show ∀ i, i < 3 → exA.words.getD i 0 < 2 ^ 64
  decide

theorem exB_inv : exB.Inv := by
  refine ⟨by decide, ?_⟩
  apply WordsOK_of_getD
  show ∀ i, i < 2 → exB.words.getD i 0 < 2 ^ 64
  decide

theorem exAB_abs : exA.abs = exB.abs := by
  refine abs_congr (s := exA) (t := exB) rfl ?_
  show ∀ k, k < 70 → exA.bit k = exB.bit k
  decide

theorem exAB_ne : exA ≠ exB := by decide

/-- shrink, flip, regrow, then iterate the ones -/
def exOps : List Op := [.pop, .pop, .flip, .push true, .resize 130 false, .ones]

/-! ## property theorems -/

theorem withValue_spec (n : Nat) (v : Bool) :
    (withValue n v).Inv ∧ (withValue n v).abs = List.replicate n v :=
  ⟨withValue_inv n v, withValue_abs n v⟩

example : (withValue 70 true).Inv ∧ (withValue 70 true).abs = List.replicate 70 true :=
  withValue_spec 70 true

theorem withCapacity_spec (c : Nat) : (withCapacity c).Inv ∧ (withCapacity c).abs = [] :=
  ⟨withCapacity_inv c, withCapacity_abs c⟩

example : (withCapacity 1000).Inv ∧ (withCapacity 1000).abs = [] := withCapacity_spec 1000

/-- every op refines the `Vec<bool>` op; index errors are panics; never `oob` -/
theorem step_refines (s : St) (h : s.Inv) (op : Op) :
    match specStep s.abs op with
    | some (l', o) => ∃ s', step s op = .ok (s', o) ∧ s'.Inv ∧ s'.abs = l'
    | none => step s op = .panic := by
  cases op with
  | push b =>
    simp only [specStep, step, push_eq s h b, Out.bind_ok, Out.pure_eq]
    exact ⟨_, rfl, pushState_inv s h b, pushState_abs s h b⟩
  | pop =>
    simp only [specStep, step]
    by_cases h0 : s.len = 0
    · simp only [pop_zero s h0, Out.bind_ok, Out.pure_eq, abs_getLast?_zero s h0]
      refine ⟨_, rfl, h, ?_⟩
      have : s.abs = [] := List.eq_nil_of_length_eq_zero (by rw [abs_length, h0])
      rw [this]; rfl
    · have hp : 0 < s.len := by omega
      simp only [pop_pos s h hp, Out.bind_ok, Out.pure_eq, abs_getLast?_pos s hp]
      refine ⟨_, rfl, ⟨?_, h.2⟩, pop_abs s⟩
      have := h.1
      show s.len - 1 ≤ 64 * s.words.size
      omega
  | set i b =>
    simp only [specStep, step, abs_length]
    by_cases hi : i < s.len
    · simp only [hi, if_true, set_eq s h i b hi, Out.bind_ok, Out.pure_eq]
      exact ⟨_, rfl, setState_inv s i b h, setState_abs s i b (inv_div_lt h hi)⟩
    · simp only [hi, if_false, set_panic s i b (by omega), Out.bind_panic]
  | swap i b =>
    simp only [specStep, step, abs_length]
    by_cases hi : i < s.len
    · simp only [hi, if_true, swap_eq s h i b hi, Out.bind_ok, Out.pure_eq, abs_getD s i hi]
      exact ⟨_, rfl, setState_inv s i b h, setState_abs s i b (inv_div_lt h hi)⟩
    · simp only [hi, if_false, swap_panic s i b (by omega), Out.bind_panic]
  | get i =>
    simp only [specStep, step, abs_length]
    by_cases hi : i < s.len
    · simp only [hi, if_true, get_eq s h i hi, Out.bind_ok, Out.pure_eq, abs_getD s i hi]
      exact ⟨_, rfl, h, rfl⟩
    · simp only [hi, if_false, get_panic s i (by omega), Out.bind_panic]
  | resize n b =>
    simp only [specStep, step, abs_length]
    by_cases hn : s.len < n
    · obtain ⟨s', h1, h2, h3, h4⟩ := resize_grow s h n b hn
      simp only [h1, Out.bind_ok, Out.pure_eq]
      exact ⟨_, rfl, h2, resize_abs s s' n b h3 h4⟩
    · simp only [resize_shrink s n b (by omega), Out.bind_ok, Out.pure_eq]
      refine ⟨_, rfl, ⟨?_, h.2⟩, resize_abs s _ n b rfl ?_⟩
      · have := h.1
        show n ≤ 64 * s.words.size
        omega
      · intro k
        have : ¬ (s.len ≤ k ∧ k < n) := by omega
        rw [if_neg this]; rfl
  | fill b =>
    simp only [specStep, step, fill_eq s h b, Out.bind_ok, Out.pure_eq]
    refine ⟨_, rfl, prefixMap_inv _ (fillconst_lt b) s h, ?_⟩
    apply abs_eq_of
    · simp [abs_length]
    · intro k hk
      rw [List.length_replicate, abs_length] at hk
      rw [fill_bit s h b k, if_pos hk, List.getElem_replicate]
  | flip =>
    simp only [specStep, step, flip_eq s h, Out.bind_ok, Out.pure_eq]
    refine ⟨_, rfl, prefixMap_inv _ (notW_lt 64) s h, ?_⟩
    apply abs_eq_of
    · simp [abs_length]
    · intro k hk
      rw [List.length_map, abs_length] at hk
      rw [flip_bit s h k, if_pos hk, List.getElem_map, abs_getElem]
  | reset =>
    simp only [specStep, step, reset, fill_eq s h false, Out.bind_ok, Out.pure_eq]
    refine ⟨_, rfl, prefixMap_inv _ (fillconst_lt false) s h, ?_⟩
    apply abs_eq_of
    · simp [abs_length]
    · intro k hk
      rw [List.length_replicate, abs_length] at hk
      rw [fill_bit s h false k, if_pos hk, List.getElem_replicate]
  | extend bs =>
    obtain ⟨s', h1, h2, h3⟩ := extend_spec bs s h
    simp only [specStep, step, h1, Out.bind_ok, Out.pure_eq]
    exact ⟨_, rfl, h2, h3⟩
  | iter =>
    simp only [specStep, step, iterAll_eq s h, Out.bind_ok, Out.pure_eq]
    exact ⟨_, rfl, h, rfl⟩
  | ones =>
    simp only [specStep, step, iterOnes_eq s h, Out.bind_ok, Out.pure_eq]
    exact ⟨_, rfl, h, rfl⟩
  | zeros =>
    simp only [specStep, step, iterZeros_eq s h, Out.bind_ok, Out.pure_eq]
    exact ⟨_, rfl, h, rfl⟩
  | countOnes =>
    simp only [specStep, step, countOnes_eq s h, Out.bind_ok, Out.pure_eq, abs_count_true]
    exact ⟨_, rfl, h, rfl⟩
  | countZeros =>
    simp only [specStep, step, countZeros_eq s h, Out.bind_ok, Out.pure_eq]
    exact ⟨_, rfl, h, rfl⟩

-- on a state with garbage beyond `len`: an `ok` case and the panic case
example : ∃ s', step exA .zeros = .ok (s', .nats (positions exA.abs false)) ∧ s'.Inv ∧
    s'.abs = exA.abs := step_refines exA exA_inv .zeros
example : step exA (.set 70 true) = .panic := step_refines exA exA_inv (.set 70 true)

/-- lifted to every finite history -/
theorem run_refines (s : St) (h : s.Inv) (ops : List Op) :
    match specRun s.abs ops with
    | some (l', os) => ∃ s', run s ops = .ok (s', os) ∧ s'.Inv ∧ s'.abs = l'
    | none => run s ops = .panic := by
  induction ops generalizing s with
  | nil =>
    simp only [specRun, run]
    exact ⟨s, rfl, h, rfl⟩
  | cons op ops ih =>
    have hstep := step_refines s h op
    simp only [specRun, run]
    cases hsp : specStep s.abs op with
    | none =>
      rw [hsp] at hstep
      simp only at hstep
      simp only [hstep, Out.bind_panic]
    | some p =>
      obtain ⟨l', o⟩ := p
      rw [hsp] at hstep
      simp only at hstep
      obtain ⟨s', h1, h2, h3⟩ := hstep
      have ih' := ih s' h2
      rw [h3] at ih'
      simp only [h1, Out.bind_ok]
      cases hr : specRun l' ops with
      | none =>
        rw [hr] at ih'
        simp only at ih'
        simp only [ih', Out.bind_panic]
      | some q =>
        obtain ⟨l'', os⟩ := q
        rw [hr] at ih'
        simp only at ih'
        obtain ⟨s'', g1, g2, g3⟩ := ih'
        simp only [g1, Out.bind_ok, Out.pure_eq]
        exact ⟨s'', rfl, g2, g3⟩

example : match specRun exA.abs exOps with
    | some (l', os) => ∃ s', run exA exOps = .ok (s', os) ∧ s'.Inv ∧ s'.abs = l'
    | none => run exA exOps = .panic :=
  run_refines exA exA_inv exOps

theorem step_never_oob (s : St) (h : s.Inv) (op : Op) : step s op ≠ .oob := by
  have hstep := step_refines s h op
  cases hsp : specStep s.abs op with
  | none =>
    rw [hsp] at hstep
    simp only at hstep
    rw [hstep]; intro e; cases e
  | some p =>
    obtain ⟨l', o⟩ := p
    rw [hsp] at hstep
    simp only at hstep
    obtain ⟨s', h1, _, _⟩ := hstep
    rw [h1]; intro e; cases e

example : step exA .ones ≠ .oob := step_never_oob exA exA_inv .ones
-- the empty vector without storage (defect D5 in the pinned tree is an `oob` exactly here)
example : step (withCapacity 0) .ones ≠ .oob := step_never_oob _ (withCapacity_spec 0).1 .ones

/-- no history ever performs an out-of-bounds unchecked access -/
theorem run_never_oob (s : St) (h : s.Inv) (ops : List Op) : run s ops ≠ .oob := by
  have hrun := run_refines s h ops
  cases hsp : specRun s.abs ops with
  | none =>
    rw [hsp] at hrun
    simp only at hrun
    rw [hrun]; intro e; cases e
  | some p =>
    obtain ⟨l', o⟩ := p
    rw [hsp] at hrun
    simp only at hrun
    obtain ⟨s', h1, _, _⟩ := hrun
    rw [h1]; intro e; cases e

example : run exA [.pop, .ones, .get 69] ≠ .oob := run_never_oob exA exA_inv _

/-- C14 write frame: non-growing ops leave every storage bit at or beyond `len` untouched, and the
shape -/
theorem step_frame (s : St) (h : s.Inv) (op : Op) (hop : op.nonGrowing = true) (s' : St) (o : Obs)
    (hs : step s op = .ok (s', o)) :
    s'.len = s.len ∧ s'.words.size = s.words.size ∧ ∀ k, s.len ≤ k → s'.bit k = s.bit k := by
  cases op with
  | push b => simp [Op.nonGrowing] at hop
  | pop => simp [Op.nonGrowing] at hop
  | resize n b => simp [Op.nonGrowing] at hop
  | extend bs => simp [Op.nonGrowing] at hop
  | set i b =>
    by_cases hi : i < s.len
    · simp only [step, set_eq s h i b hi, Out.bind_ok, Out.pure_eq, Out.ok.injEq,
        Prod.mk.injEq] at hs
      obtain ⟨rfl, _⟩ := hs
      refine ⟨setState_len s i b, setState_size s i b, fun k hk => ?_⟩
      rw [setState_bit s i b (inv_div_lt h hi), if_neg (by omega)]
    · simp only [step, set_panic s i b (by omega), Out.bind_panic] at hs
      cases hs
  | swap i b =>
    by_cases hi : i < s.len
    · simp only [step, swap_eq s h i b hi, Out.bind_ok, Out.pure_eq, Out.ok.injEq,
        Prod.mk.injEq] at hs
      obtain ⟨rfl, _⟩ := hs
      refine ⟨setState_len s i b, setState_size s i b, fun k hk => ?_⟩
      rw [setState_bit s i b (inv_div_lt h hi), if_neg (by omega)]
    · simp only [step, swap_panic s i b (by omega), Out.bind_panic] at hs
      cases hs
  | get i =>
    by_cases hi : i < s.len
    · simp only [step, get_eq s h i hi, Out.bind_ok, Out.pure_eq, Out.ok.injEq,
        Prod.mk.injEq] at hs
      obtain ⟨rfl, _⟩ := hs
      exact ⟨rfl, rfl, fun _ _ => rfl⟩
    · simp only [step, get_panic s i (by omega), Out.bind_panic] at hs
      cases hs
  | fill b =>
    simp only [step, fill_eq s h b, Out.bind_ok, Out.pure_eq, Out.ok.injEq, Prod.mk.injEq] at hs
    obtain ⟨rfl, _⟩ := hs
    refine ⟨rfl, prefixMap_size _ _ _, fun k hk => ?_⟩
    rw [fill_bit s h b k, if_neg (by omega)]
  | flip =>
    simp only [step, flip_eq s h, Out.bind_ok, Out.pure_eq, Out.ok.injEq, Prod.mk.injEq] at hs
    obtain ⟨rfl, _⟩ := hs
    refine ⟨rfl, prefixMap_size _ _ _, fun k hk => ?_⟩
    rw [flip_bit s h k, if_neg (by omega)]
  | reset =>
    simp only [step, reset, fill_eq s h false, Out.bind_ok, Out.pure_eq, Out.ok.injEq,
      Prod.mk.injEq] at hs
    obtain ⟨rfl, _⟩ := hs
    refine ⟨rfl, prefixMap_size _ _ _, fun k hk => ?_⟩
    rw [fill_bit s h false k, if_neg (by omega)]
  | iter =>
    simp only [step, iterAll_eq s h, Out.bind_ok, Out.pure_eq, Out.ok.injEq, Prod.mk.injEq] at hs
    obtain ⟨rfl, _⟩ := hs
    exact ⟨rfl, rfl, fun _ _ => rfl⟩
  | ones =>
    simp only [step, iterOnes_eq s h, Out.bind_ok, Out.pure_eq, Out.ok.injEq, Prod.mk.injEq] at hs
    obtain ⟨rfl, _⟩ := hs
    exact ⟨rfl, rfl, fun _ _ => rfl⟩
  | zeros =>
    simp only [step, iterZeros_eq s h, Out.bind_ok, Out.pure_eq, Out.ok.injEq, Prod.mk.injEq] at hs
    obtain ⟨rfl, _⟩ := hs
    exact ⟨rfl, rfl, fun _ _ => rfl⟩
  | countOnes =>
    simp only [step, countOnes_eq s h, Out.bind_ok, Out.pure_eq, Out.ok.injEq, Prod.mk.injEq] at hs
    obtain ⟨rfl, _⟩ := hs
    exact ⟨rfl, rfl, fun _ _ => rfl⟩
  | countZeros =>
    simp only [step, countZeros_eq s h, Out.bind_ok, Out.pure_eq, Out.ok.injEq, Prod.mk.injEq] at hs
    obtain ⟨rfl, _⟩ := hs
    exact ⟨rfl, rfl, fun _ _ => rfl⟩

example : ∃ s' o, step exA (.fill true) = .ok (s', o) ∧ s'.len = exA.len ∧
    s'.words.size = exA.words.size ∧ ∀ k, exA.len ≤ k → s'.bit k = exA.bit k := by
  obtain ⟨s', h1, _, _⟩ := step_refines exA exA_inv (.fill true)
  exact ⟨s', _, h1, step_frame exA exA_inv (.fill true) rfl s' _ h1⟩

/-- `PartialEq` compares exactly the logical contents, whatever lies beyond `len` -/
theorem eq_spec (a b : St) (ha : a.Inv) (hb : b.Inv) : eq a b = .ok (decide (a.abs = b.abs)) :=
  eq_eq a b ha hb

-- different words, different capacity, equal as bit vectors
example : eq exA exB = .ok true := by
  rw [eq_spec exA exB exA_inv exB_inv, decide_eq_true exAB_abs]

/-- C14 reads ignore garbage: two states with the same logical contents (but arbitrary, different
storage beyond `len`, different capacities) give the same observation on every op -/
theorem reads_ignore_garbage (s₁ s₂ : St) (h₁ : s₁.Inv) (h₂ : s₂.Inv) (habs : s₁.abs = s₂.abs)
    (op : Op) :
    (match step s₁ op, step s₂ op with
     | .ok (_, o₁), .ok (_, o₂) => o₁ = o₂
     | .panic, .panic => True
     | _, _ => False) := by
  have r1 := step_refines s₁ h₁ op
  have r2 := step_refines s₂ h₂ op
  rw [habs] at r1
  cases hsp : specStep s₂.abs op with
  | none =>
    rw [hsp] at r1 r2
    simp only at r1 r2
    rw [r1, r2]
    trivial
  | some p =>
    obtain ⟨l', o⟩ := p
    rw [hsp] at r1 r2
    simp only at r1 r2
    obtain ⟨t1, e1, _, _⟩ := r1
    obtain ⟨t2, e2, _, _⟩ := r2
    rw [e1, e2]

example (op : Op) : (match step exA op, step exB op with
     | .ok (_, o₁), .ok (_, o₂) => o₁ = o₂
     | .panic, .panic => True
     | _, _ => False) := reads_ignore_garbage exA exB exA_inv exB_inv exAB_abs op

/-- the same for whole histories: the observation sequence depends only on the logical contents -/
theorem run_ignores_garbage (s₁ s₂ : St) (h₁ : s₁.Inv) (h₂ : s₂.Inv) (habs : s₁.abs = s₂.abs)
    (ops : List Op) :
    (match run s₁ ops, run s₂ ops with
     | .ok (t₁, os₁), .ok (t₂, os₂) => os₁ = os₂ ∧ t₁.abs = t₂.abs
     | .panic, .panic => True
     | _, _ => False) := by
  have r1 := run_refines s₁ h₁ ops
  have r2 := run_refines s₂ h₂ ops
  rw [habs] at r1
  cases hsp : specRun s₂.abs ops with
  | none =>
    rw [hsp] at r1 r2
    simp only at r1 r2
    rw [r1, r2]
    trivial
  | some p =>
    obtain ⟨l', o⟩ := p
    rw [hsp] at r1 r2
    simp only at r1 r2
    obtain ⟨t1, e1, _, a1⟩ := r1
    obtain ⟨t2, e2, _, a2⟩ := r2
    rw [e1, e2]
    exact ⟨rfl, by rw [a1, a2]⟩

example : (match run exA exOps, run exB exOps with
     | .ok (t₁, os₁), .ok (t₂, os₂) => os₁ = os₂ ∧ t₁.abs = t₂.abs
     | .panic, .panic => True
     | _, _ => False) := run_ignores_garbage exA exB exA_inv exB_inv exAB_abs exOps

end Sux.BV
