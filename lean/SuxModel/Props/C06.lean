import SuxModel.BitVec.LemmasIter
/-!
# C06 — `BitVec` is observationally a `Vec<bool>` under any operation sequence

Model: `SuxModel/BitVec/Model.lean` (mirrors `src/bits/bit_vec.rs`), specification:
`SuxModel/BitVec/Spec.lean`.  `St.Inv` says only `len ≤ 64 * words.size` and that every word fits
in 64 bits: storage at or beyond `len` is arbitrary in every theorem below.
-/
namespace Sux.BV

theorem withValue_spec (n : Nat) (v : Bool) :
    (withValue n v).Inv ∧ (withValue n v).abs = List.replicate n v :=
  ⟨withValue_inv n v, withValue_abs n v⟩

theorem withCapacity_spec (c : Nat) : (withCapacity c).Inv ∧ (withCapacity c).abs = [] :=
  ⟨withCapacity_inv c, withCapacity_abs c⟩

/-- every op refines the `Vec<bool>` op; index errors are panics; never `oob` -/
theorem step_refines (s : St) (h : s.Inv) (op : Op) :
    match specStep s.abs op with
    | some (l', o) => ∃ s', step s op = .ok (s', o) ∧ s'.Inv ∧ s'.abs = l'
    | none => step s op = .panic := by
  cases op with
  | push b =>
    simp only [specStep, step, push_eq s h b, Out.bind_ok, Out.pure_eq]
    exact ⟨_, rfl, pushState_inv s h b, pushState_abs s h b⟩
  | pop =>
    simp only [specStep, step]
    by_cases h0 : s.len = 0
    · simp only [pop_zero s h0, Out.bind_ok, Out.pure_eq, abs_getLast?_zero s h0]
      refine ⟨_, rfl, h, ?_⟩
      have : s.abs = [] := List.eq_nil_of_length_eq_zero (by rw [abs_length, h0])
      rw [this]; rfl
    · have hp : 0 < s.len := by omega
      simp only [pop_pos s h hp, Out.bind_ok, Out.pure_eq, abs_getLast?_pos s hp]
      refine ⟨_, rfl, ⟨?_, h.2⟩, pop_abs s⟩
      have := h.1
      show s.len - 1 ≤ 64 * s.words.size
      omega
  | set i b =>
    simp only [specStep, step, abs_length]
    by_cases hi : i < s.len
    · simp only [hi, if_true, set_eq s h i b hi, Out.bind_ok, Out.pure_eq]
      exact ⟨_, rfl, setState_inv s i b h, setState_abs s i b (inv_div_lt h hi)⟩
    · simp only [hi, if_false, set_panic s i b (by omega), Out.bind_panic]
  | swap i b =>
    simp only [specStep, step, abs_length]
    by_cases hi : i < s.len
    · simp only [hi, if_true, swap_eq s h i b hi, Out.bind_ok, Out.pure_eq, abs_getD s i hi]
      exact ⟨_, rfl, setState_inv s i b h, setState_abs s i b (inv_div_lt h hi)⟩
    · simp only [hi, if_false, swap_panic s i b (by omega), Out.bind_panic]
  | get i =>
    simp only [specStep, step, abs_length]
    by_cases hi : i < s.len
    · simp only [hi, if_true, get_eq s h i hi, Out.bind_ok, Out.pure_eq, abs_getD s i hi]
      exact ⟨_, rfl, h, rfl⟩
    · simp only [hi, if_false, get_panic s i (by omega), Out.bind_panic]
  | resize n b =>
    simp only [specStep, step, abs_length]
    by_cases hn : s.len < n
    · obtain ⟨s', h1, h2, h3, h4⟩ := resize_grow s h n b hn
      simp only [h1, Out.bind_ok, Out.pure_eq]
      exact ⟨_, rfl, h2, resize_abs s s' n b h3 h4⟩
    · simp only [resize_shrink s n b (by omega), Out.bind_ok, Out.pure_eq]
      refine ⟨_, rfl, ⟨?_, h.2⟩, resize_abs s _ n b rfl ?_⟩
      · have := h.1
        show n ≤ 64 * s.words.size
        omega
      · intro k
        have : ¬ (s.len ≤ k ∧ k < n) := by omega
        rw [if_neg this]; rfl
  | fill b =>
    simp only [specStep, step, fill_eq s h b, Out.bind_ok, Out.pure_eq]
    refine ⟨_, rfl, prefixMap_inv _ (fillconst_lt b) s h, ?_⟩
    apply abs_eq_of
    · simp [abs_length]
    · intro k hk
      rw [List.length_replicate, abs_length] at hk
      rw [fill_bit s h b k, if_pos hk, List.getElem_replicate]
  | flip =>
    simp only [specStep, step, flip_eq s h, Out.bind_ok, Out.pure_eq]
    refine ⟨_, rfl, prefixMap_inv _ (notW_lt 64) s h, ?_⟩
    apply abs_eq_of
    · simp [abs_length]
    · intro k hk
      rw [List.length_map, abs_length] at hk
      rw [flip_bit s h k, if_pos hk, List.getElem_map, abs_getElem]
  | reset =>
    simp only [specStep, step, reset, fill_eq s h false, Out.bind_ok, Out.pure_eq]
    refine ⟨_, rfl, prefixMap_inv _ (fillconst_lt false) s h, ?_⟩
    apply abs_eq_of
    · simp [abs_length]
    · intro k hk
      rw [List.length_replicate, abs_length] at hk
      rw [fill_bit s h false k, if_pos hk, List.getElem_replicate]
  | extend bs =>
    obtain ⟨s', h1, h2, h3⟩ := extend_spec bs s h
    simp only [specStep, step, h1, Out.bind_ok, Out.pure_eq]
    exact ⟨_, rfl, h2, h3⟩
  | iter =>
    simp only [specStep, step, iterAll_eq s h, Out.bind_ok, Out.pure_eq]
    exact ⟨_, rfl, h, rfl⟩
  | ones =>
    simp only [specStep, step, iterOnes_eq s h, Out.bind_ok, Out.pure_eq]
    exact ⟨_, rfl, h, rfl⟩
  | zeros =>
    simp only [specStep, step, iterZeros_eq s h, Out.bind_ok, Out.pure_eq]
    exact ⟨_, rfl, h, rfl⟩
  | countOnes =>
    simp only [specStep, step, countOnes_eq s h, Out.bind_ok, Out.pure_eq, abs_count_true]
    exact ⟨_, rfl, h, rfl⟩
  | countZeros =>
    simp only [specStep, step, countZeros_eq s h, Out.bind_ok, Out.pure_eq]
    exact ⟨_, rfl, h, rfl⟩

end Sux.BV
