import SuxModel.EF.LemmasProps
/-!
# C04 — Elias–Fano `index_of` / `succ` / `pred` agree with their order-theoretic definitions

For every input `Input xs u` (non-decreasing `xs`, all `≤ u < 2^64`, `n + 2·max n 1 < 2^64`),
every state `s` produced by the sequential builder (hence, by C03 T-B, by any builder) and EVERY
query `q : Nat` — below the first element, between elements, equal to elements, above the last
element, above `u`, even above `usize::MAX`:

* `succ q = some (i, x)` ⇒ `xs[i]? = some x ∧ q ≤ x ∧ ∀ y ∈ xs, q ≤ y → x ≤ y`;
  `succ q = none ⇔ ∀ y ∈ xs, y < q`; the call always returns (`ef_succ_total`);
* the same for `succ_strict` (`<`), `pred` (`≤`, greatest), `pred_strict` (`<`);
* `index_of q = some i ⇒ xs[i]? = some q`, `index_of q = none ⇔ q ∉ xs`, `contains q ⇔ q ∈ xs`;
* no query is ever `oob`; since `sel0 s r = oob ⇔ r ≥ numZeros = (u >> l) + 1`
  (`ef_select_zero_domain`) and `oob` propagates through every `bind` of the model, `select_zero`
  is only ever called with a rank below the number of zeros (this is what D7 violated).

The lemma files prove more than the property asks: `succ`/`succ_strict`/`index_of` return the
LEAST index with the property, `pred`/`pred_strict` the GREATEST (`succ_cases`, `pred_cases`, …).
-/
namespace Sux.EF

variable {xs : List Nat} {u : Nat} {s : St}

/-! ## `succ` -/

theorem ef_succ_some (h : Input xs u) (hs : build xs.length u xs = .ok s) (q i x : Nat)
    (hr : succ s q = .ok (some (i, x))) :
    xs[i]? = some x ∧ q ≤ x ∧ ∀ y, y ∈ xs → q ≤ y → x ≤ y := by
  obtain ⟨R, hl⟩ := rep_of_build h hs
  have V := h.valid
  rcases succ_cases R V (high_len_lt h R hl) q with ⟨i', hi, hsat, hmin, e⟩ | ⟨_, e⟩
  · rw [e] at hr
    cases hr
    exact ⟨getElem?_of_lt xs hi, hsat,
      fun y hy hqy => first_min V.mono (fun y => q ≤ y) (fun j hj => Nat.not_le.2 (hmin j hj)) hy hqy⟩
  · rw [e] at hr; cases hr

theorem ef_succ_none_iff (h : Input xs u) (hs : build xs.length u xs = .ok s) (q : Nat) :
    succ s q = .ok none ↔ ∀ y, y ∈ xs → y < q := by
  obtain ⟨R, hl⟩ := rep_of_build h hs
  have V := h.valid
  rcases succ_cases R V (high_len_lt h R hl) q with ⟨i, hi, hsat, _, e⟩ | ⟨hnone, e⟩
  · rw [e]
    constructor
    · intro hh; cases hh
    · intro hall
      have := hall _ ((mem_iff_getD xs _).2 ⟨i, hi, rfl⟩)
      omega
  · rw [e]
    refine ⟨fun _ y hy => ?_, fun _ => rfl⟩
    obtain ⟨j, hj, ej⟩ := (mem_iff_getD xs y).1 hy
    rw [← ej]; exact hnone j hj

theorem ef_succ_total (h : Input xs u) (hs : build xs.length u xs = .ok s) (q : Nat) :
    ∃ r, succ s q = .ok r := by
  obtain ⟨R, hl⟩ := rep_of_build h hs
  rcases succ_cases R h.valid (high_len_lt h R hl) q with ⟨_, _, _, _, e⟩ | ⟨_, e⟩ <;> exact ⟨_, e⟩

/-! ## `succ_strict` -/

theorem ef_succ_strict_some (h : Input xs u) (hs : build xs.length u xs = .ok s) (q i x : Nat)
    (hr : succStrict s q = .ok (some (i, x))) :
    xs[i]? = some x ∧ q < x ∧ ∀ y, y ∈ xs → q < y → x ≤ y := by
  obtain ⟨R, hl⟩ := rep_of_build h hs
  have V := h.valid
  rcases succStrict_cases R V (high_len_lt h R hl) q with ⟨i', hi, hsat, hmin, e⟩ | ⟨_, e⟩
  · rw [e] at hr
    cases hr
    exact ⟨getElem?_of_lt xs hi, hsat,
      fun y hy hqy => first_min V.mono (fun y => q < y) (fun j hj => Nat.not_lt.2 (hmin j hj)) hy hqy⟩
  · rw [e] at hr; cases hr

theorem ef_succ_strict_none_iff (h : Input xs u) (hs : build xs.length u xs = .ok s) (q : Nat) :
    succStrict s q = .ok none ↔ ∀ y, y ∈ xs → y ≤ q := by
  obtain ⟨R, hl⟩ := rep_of_build h hs
  have V := h.valid
  rcases succStrict_cases R V (high_len_lt h R hl) q with ⟨i, hi, hsat, _, e⟩ | ⟨hnone, e⟩
  · rw [e]
    constructor
    · intro hh; cases hh
    · intro hall
      have := hall _ ((mem_iff_getD xs _).2 ⟨i, hi, rfl⟩)
      omega
  · rw [e]
    refine ⟨fun _ y hy => ?_, fun _ => rfl⟩
    obtain ⟨j, hj, ej⟩ := (mem_iff_getD xs y).1 hy
    rw [← ej]; exact hnone j hj

theorem ef_succ_strict_total (h : Input xs u) (hs : build xs.length u xs = .ok s) (q : Nat) :
    ∃ r, succStrict s q = .ok r := by
  obtain ⟨R, hl⟩ := rep_of_build h hs
  rcases succStrict_cases R h.valid (high_len_lt h R hl) q with ⟨_, _, _, _, e⟩ | ⟨_, e⟩ <;>
    exact ⟨_, e⟩

/-! ## `pred` -/

theorem ef_pred_some (h : Input xs u) (hs : build xs.length u xs = .ok s) (q i x : Nat)
    (hr : pred s q = .ok (some (i, x))) :
    xs[i]? = some x ∧ x ≤ q ∧ ∀ y, y ∈ xs → y ≤ q → y ≤ x := by
  obtain ⟨R, _⟩ := rep_of_build h hs
  have V := h.valid
  rcases pred_cases R V q with ⟨i', hi, hsat, hmax, e⟩ | ⟨_, e⟩
  · rw [e] at hr
    cases hr
    exact ⟨getElem?_of_lt xs hi, hsat, fun y hy hyq =>
      last_max V.mono (fun y => y ≤ q) (fun j h1 h2 => Nat.not_le.2 (hmax j h1 h2)) hy hyq hi⟩
  · rw [e] at hr; cases hr

theorem ef_pred_none_iff (h : Input xs u) (hs : build xs.length u xs = .ok s) (q : Nat) :
    pred s q = .ok none ↔ ∀ y, y ∈ xs → q < y := by
  obtain ⟨R, _⟩ := rep_of_build h hs
  have V := h.valid
  rcases pred_cases R V q with ⟨i, hi, hsat, _, e⟩ | ⟨hnone, e⟩
  · rw [e]
    constructor
    · intro hh; cases hh
    · intro hall
      have := hall _ ((mem_iff_getD xs _).2 ⟨i, hi, rfl⟩)
      omega
  · rw [e]
    refine ⟨fun _ y hy => ?_, fun _ => rfl⟩
    obtain ⟨j, hj, ej⟩ := (mem_iff_getD xs y).1 hy
    rw [← ej]; exact hnone j hj

theorem ef_pred_total (h : Input xs u) (hs : build xs.length u xs = .ok s) (q : Nat) :
    ∃ r, pred s q = .ok r := by
  obtain ⟨R, _⟩ := rep_of_build h hs
  rcases pred_cases R h.valid q with ⟨_, _, _, _, e⟩ | ⟨_, e⟩ <;> exact ⟨_, e⟩

/-! ## `pred_strict` -/

theorem ef_pred_strict_some (h : Input xs u) (hs : build xs.length u xs = .ok s) (q i x : Nat)
    (hr : predStrict s q = .ok (some (i, x))) :
    xs[i]? = some x ∧ x < q ∧ ∀ y, y ∈ xs → y < q → y ≤ x := by
  obtain ⟨R, _⟩ := rep_of_build h hs
  have V := h.valid
  rcases predStrict_cases R V q with ⟨i', hi, hsat, hmax, e⟩ | ⟨_, e⟩
  · rw [e] at hr
    cases hr
    exact ⟨getElem?_of_lt xs hi, hsat, fun y hy hyq =>
      last_max V.mono (fun y => y < q) (fun j h1 h2 => Nat.not_lt.2 (hmax j h1 h2)) hy hyq hi⟩
  · rw [e] at hr; cases hr

theorem ef_pred_strict_none_iff (h : Input xs u) (hs : build xs.length u xs = .ok s) (q : Nat) :
    predStrict s q = .ok none ↔ ∀ y, y ∈ xs → q ≤ y := by
  obtain ⟨R, _⟩ := rep_of_build h hs
  have V := h.valid
  rcases predStrict_cases R V q with ⟨i, hi, hsat, _, e⟩ | ⟨hnone, e⟩
  · rw [e]
    constructor
    · intro hh; cases hh
    · intro hall
      have := hall _ ((mem_iff_getD xs _).2 ⟨i, hi, rfl⟩)
      omega
  · rw [e]
    refine ⟨fun _ y hy => ?_, fun _ => rfl⟩
    obtain ⟨j, hj, ej⟩ := (mem_iff_getD xs y).1 hy
    rw [← ej]; exact hnone j hj

theorem ef_pred_strict_total (h : Input xs u) (hs : build xs.length u xs = .ok s) (q : Nat) :
    ∃ r, predStrict s q = .ok r := by
  obtain ⟨R, _⟩ := rep_of_build h hs
  rcases predStrict_cases R h.valid q with ⟨_, _, _, _, e⟩ | ⟨_, e⟩ <;> exact ⟨_, e⟩

/-! ## `index_of`, `contains` -/

theorem ef_index_of_some (h : Input xs u) (hs : build xs.length u xs = .ok s) (q i : Nat)
    (hr : indexOf s q = .ok (some i)) : xs[i]? = some q := by
  obtain ⟨R, hl⟩ := rep_of_build h hs
  rcases indexOf_cases R h.valid (high_len_lt h R hl) q with ⟨i', hi, heq, e⟩ | ⟨_, e⟩
  · rw [e] at hr
    cases hr
    rw [getElem?_of_lt xs hi, heq]
  · rw [e] at hr; cases hr

theorem ef_index_of_none_iff (h : Input xs u) (hs : build xs.length u xs = .ok s) (q : Nat) :
    indexOf s q = .ok none ↔ q ∉ xs := by
  obtain ⟨R, hl⟩ := rep_of_build h hs
  rcases indexOf_cases R h.valid (high_len_lt h R hl) q with ⟨i, hi, heq, e⟩ | ⟨hn, e⟩
  · rw [e]
    constructor
    · intro hh; cases hh
    · intro hq; exact absurd ((mem_iff_getD xs q).2 ⟨i, hi, heq⟩) hq
  · rw [e]; exact ⟨fun _ => hn, fun _ => rfl⟩

theorem ef_index_of_total (h : Input xs u) (hs : build xs.length u xs = .ok s) (q : Nat) :
    ∃ r, indexOf s q = .ok r := by
  obtain ⟨R, hl⟩ := rep_of_build h hs
  rcases indexOf_cases R h.valid (high_len_lt h R hl) q with ⟨_, _, _, e⟩ | ⟨_, e⟩ <;> exact ⟨_, e⟩

theorem ef_contains (h : Input xs u) (hs : build xs.length u xs = .ok s) (q : Nat) :
    contains s q = .ok (decide (q ∈ xs)) := by
  obtain ⟨R, hl⟩ := rep_of_build h hs
  exact contains_eq R h.valid (high_len_lt h R hl) q

/-! ## the unchecked variants (used by `EfDict`), under their safety contract "the answer exists" -/

theorem ef_succ_unchecked (h : Input xs u) (hs : build xs.length u xs = .ok s) (strict : Bool)
    (q : Nat) (hex : ∃ y, y ∈ xs ∧ geq strict q y) :
    ∃ i x, succU strict s q = .ok (i, x) ∧ xs[i]? = some x ∧ geq strict q x ∧
      ∀ y, y ∈ xs → geq strict q y → x ≤ y := by
  obtain ⟨R, hl⟩ := rep_of_build h hs
  have V := h.valid
  obtain ⟨y, hy, hgy⟩ := hex
  obtain ⟨j, hj, ej⟩ := (mem_iff_getD xs y).1 hy
  obtain ⟨i, hi, hsat, hmin⟩ := exists_least (fun i => geq strict q (xs.getD i 0)) _
    ⟨j, hj, by rw [ej]; exact hgy⟩
  exact ⟨i, _, succU_ok R V (high_len_lt h R hl) strict q hi hsat hmin, getElem?_of_lt xs hi, hsat,
    fun y hy hqy => first_min V.mono (geq strict q) hmin hy hqy⟩

theorem ef_pred_unchecked (h : Input xs u) (hs : build xs.length u xs = .ok s) (strict : Bool)
    (q : Nat) (hex : ∃ y, y ∈ xs ∧ leq strict q y) :
    ∃ i x, predU strict s q = .ok (i, x) ∧ xs[i]? = some x ∧ leq strict q x ∧
      ∀ y, y ∈ xs → leq strict q y → y ≤ x := by
  obtain ⟨R, _⟩ := rep_of_build h hs
  have V := h.valid
  obtain ⟨y, hy, hgy⟩ := hex
  obtain ⟨j, hj, ej⟩ := (mem_iff_getD xs y).1 hy
  obtain ⟨i, hi, hsat, hmax⟩ := exists_greatest (fun i => leq strict q (xs.getD i 0)) _
    ⟨j, hj, by rw [ej]; exact hgy⟩
  exact ⟨i, _, predU_ok R V strict q hi hsat hmax, getElem?_of_lt xs hi, hsat,
    fun y hy hqy => last_max V.mono (leq strict q) hmax hy hqy hi⟩

/-! ## domain of `select_zero`, no out-of-bounds access -/

/-- `select_zero_unchecked(r)` is in bounds exactly for `r < (u >> l) + 1` = number of zeros -/
theorem ef_select_zero_domain (h : Input xs u) (hs : build xs.length u xs = .ok s) (r : Nat) :
    RS.numZeros s.high.words s.high.len = (u >>> s.l) + 1 ∧
    (sel0 s r = .oob ↔ (u >>> s.l) + 1 ≤ r) := by
  obtain ⟨R, _⟩ := rep_of_build h hs
  have hz := numZeros_eq R h.valid
  refine ⟨hz, ?_⟩
  rw [sel0_oob_iff, hz]

theorem ef_dict_no_oob (h : Input xs u) (hs : build xs.length u xs = .ok s) (q : Nat) :
    indexOf s q ≠ .oob ∧ contains s q ≠ .oob ∧ succ s q ≠ .oob ∧ succStrict s q ≠ .oob ∧
    pred s q ≠ .oob ∧ predStrict s q ≠ .oob := by
  obtain ⟨r1, e1⟩ := ef_index_of_total h hs q
  obtain ⟨r2, e2⟩ := ef_succ_total h hs q
  obtain ⟨r3, e3⟩ := ef_succ_strict_total h hs q
  obtain ⟨r4, e4⟩ := ef_pred_total h hs q
  obtain ⟨r5, e5⟩ := ef_pred_strict_total h hs q
  rw [e1, e2, e3, e4, e5, ef_contains h hs q]
  refine ⟨?_, ?_, ?_, ?_, ?_, ?_⟩ <;> (intro e; cases e)

/-! ## non-vacuity: concrete inputs with duplicates, an empty bucket, queries above `u` -/

example : Input [0, 2, 2, 8, 10] 10 :=
  ⟨by decide, by decide, by decide, by decide⟩

example : ∃ y, y ∈ [0, 2, 2, 8, 10] ∧ leq true 1000 y := ⟨10, by decide, by decide⟩

example : ∃ y, y ∈ [0, 2, 2, 8, 10] ∧ geq false 3 y := ⟨8, by decide, by decide⟩

/-- the theorems apply to `pred(1000)` on the documentation example (D7) -/
example (s : St) (hs : build 5 10 [0, 2, 2, 8, 10] = .ok s) : ∃ r, pred s 1000 = .ok r :=
  ef_pred_total (xs := [0, 2, 2, 8, 10])
    ⟨by decide, by decide, by decide, by decide⟩ hs 1000

/-- … and to every query on the empty dictionary with the largest universe -/
example (s : St) (hs : build 0 (2 ^ 64 - 1) [] = .ok s) (q : Nat) :
    indexOf s q = .ok none ∧ pred s q = .ok none := by
  have h : Input [] (2 ^ 64 - 1) := ⟨by decide, by simp, by decide, by decide⟩
  exact ⟨(ef_index_of_none_iff (xs := []) h hs q).2 (by simp),
    (ef_pred_none_iff (xs := []) h hs q).2 (by simp)⟩

end Sux.EF
