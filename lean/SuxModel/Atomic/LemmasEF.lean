import SuxModel.Atomic.LemmasEFSeq
import SuxModel.Atomic.LemmasCompat
/-!
# Concurrent Elias–Fano builder = sequential builder (C13)
-/
namespace Sux.Atomic
open Sux.BFV

/-! ## stores from bits -/

theorem eq_of_bitAt {W : Nat} (hW : 0 < W) (a b : Array Nat) (hs : a.size = b.size)
    (ha : WordsOK W a) (hb : WordsOK W b) (h : ∀ k, bitAt W a k = bitAt W b k) : a = b := by
  apply Array.ext hs
  intro i hi1 hi2
  apply eq_of_testBit_lt (ha i hi1) (hb i hi2)
  intro j hj
  have := h (i * W + j)
  unfold bitAt at this
  rw [(mul_div_mod_eq hW hj).1, (mul_div_mod_eq hW hj).2, getD_of_lt _ _ hi1, getD_of_lt _ _ hi2] at this
  exact this

theorem getD_append (a b : Array Nat) (i : Nat) :
    (a ++ b).getD i 0 = if i < a.size then a.getD i 0 else b.getD (i - a.size) 0 := by
  rw [getD_eq_getElem?_getD, getD_eq_getElem?_getD, getD_eq_getElem?_getD, Array.getElem?_append]
  split <;> rfl

theorem bitAt_append {W : Nat} (hW : 0 < W) (a b : Array Nat) (k : Nat) :
    bitAt W (a ++ b) k = if k < W * a.size then bitAt W a k else bitAt W b (k - W * a.size) := by
  unfold bitAt
  rw [getD_append]
  by_cases h : k < W * a.size
  · rw [if_pos h, if_pos (Nat.div_lt_of_lt_mul h)]
  · have hge : W * a.size ≤ k := Nat.le_of_not_lt h
    have h1 : ¬ k / W < a.size := by
      intro hh
      exact h ((div_lt_iff_mul hW k a.size).1 hh)
    rw [if_neg h, if_neg h1]
    obtain ⟨r, rfl⟩ := Nat.exists_eq_add_of_le hge
    rw [Nat.add_sub_cancel_left, Nat.mul_add_div hW, Nat.mul_add_mod, Nat.add_sub_cancel_left]

/-! ## the calls of the concurrent builder -/

def efLowOp (n u : Nat) (xs : List Nat) (i : Nat) : Op :=
  .setField false (efLow 64 n u) i (xs.getD i 0 &&& lowMask (efL n u))

def efHighOp (n u : Nat) (xs : List Nat) (i : Nat) : Op :=
  .setBit (efHigh 64 n u) ((xs.getD i 0 >>> efL n u) + i) true

theorem ef_mem {n u : Nat} {xs : List Nat} {parts : List (List Nat)} {p : List Op} {o : Op}
    (hp : p ∈ efProgs n u xs parts) (ho : o ∈ p) :
    ∃ i, i ∈ parts.flatten ∧ (o = efLowOp n u xs i ∨ o = efHighOp n u xs i) := by
  unfold efProgs at hp
  obtain ⟨part, hpart, rfl⟩ := List.mem_map.1 hp
  obtain ⟨i, hi, hoi⟩ := List.mem_flatMap.1 ho
  refine ⟨i, List.mem_flatten.2 ⟨part, hpart, hi⟩, ?_⟩
  unfold efSetOps at hoi
  simp only [List.mem_cons, List.mem_nil_iff, or_false] at hoi
  exact hoi

theorem ef_mem_conv {n u : Nat} {xs : List Nat} {parts : List (List Nat)} {i : Nat}
    (hi : i ∈ parts.flatten) :
    ∃ p ∈ efProgs n u xs parts, efLowOp n u xs i ∈ p ∧ efHighOp n u xs i ∈ p := by
  obtain ⟨part, hpart, hip⟩ := List.mem_flatten.1 hi
  refine ⟨part.flatMap (fun i => efSetOps 64 n u i (xs.getD i 0)), ?_, ?_, ?_⟩
  · unfold efProgs; exact List.mem_map.2 ⟨part, hpart, rfl⟩
  · exact List.mem_flatMap.2 ⟨i, hip, by simp [efSetOps, efLowOp]⟩
  · exact List.mem_flatMap.2 ⟨i, hip, by simp [efSetOps, efHighOp]⟩

/-- geometry of the two vectors -/
theorem ef_geom (n u : Nat) (hu : u < 2 ^ 64) :
    efL n u < 64 ∧ n * efL n u ≤ 64 * (efLow 64 n u).nw ∧ 1 ≤ (efLow 64 n u).nw ∧
    n + (u >>> efL n u) + 1 ≤ 64 * (efHigh 64 n u).nw ∧
    (efMem n u).size = (efLow 64 n u).nw + (efHigh 64 n u).nw := by
  refine ⟨efL_lt n u hu, ?_, ?_, ?_, by simp [efMem]⟩
  · simp only [efLow]
    exact Nat.le_trans (le_mul_divCeil (by decide) _) (Nat.mul_le_mul_left 64 (Nat.le_max_right _ _))
  · simp only [efLow]; exact Nat.le_max_left _ _
  · simp only [efHigh]; omega

theorem covers_low {n u : Nat} {xs : List Nat} {i k : Nat} :
    (efLowOp n u xs i).covers 64 k ↔ i * efL n u ≤ k ∧ k < (i + 1) * efL n u := by
  unfold efLowOp
  rw [covers_setField, Nat.succ_mul]
  simp [efLow]

theorem covers_high {n u : Nat} {xs : List Nat} {i k : Nat} :
    (efHighOp n u xs i).covers 64 k ↔
      k = (efLow 64 n u).nw * 64 + ((xs.getD i 0 >>> efL n u) + i) := by
  unfold efHighOp Op.covers
  simp only [Op.pos, Op.width, efHigh]
  omega

theorem ef_wf (n u : Nat) (hu : u < 2 ^ 64) (xs : List Nat) (hle : ∀ i, i < n → xs.getD i 0 ≤ u)
    (parts : List (List Nat)) (hparts : ∀ i, i ∈ parts.flatten → i < n) :
    ProgsWF 64 (efMem n u).size (efProgs n u xs parts) := by
  obtain ⟨hl, hlow, hlw1, hhigh, hsz⟩ := ef_geom n u hu
  intro p hp o ho
  obtain ⟨i, hi, rfl | rfl⟩ := ef_mem hp ho
  · have hin := hparts i hi
    have h1 := Nat.mul_le_mul_right (efL n u) (show i + 1 ≤ n from hin)
    refine ⟨⟨?_, ?_, ?_, ?_⟩, ?_, fun h => by cases h⟩
    · show efL n u ≤ 64; omega
    · show (i + 1) * efL n u ≤ 64 * (efLow 64 n u).nw; omega
    · intro _; exact hlw1
    · rw [hsz]; show 0 + (efLow 64 n u).nw ≤ _; omega
    · show _ < 2 ^ efL n u
      unfold lowMask
      rw [Nat.and_two_pow_sub_one_eq_mod]
      exact Nat.mod_lt _ (Nat.two_pow_pos _)
  · have hin := hparts i hi
    have : xs.getD i 0 >>> efL n u ≤ u >>> efL n u := by
      rw [Nat.shiftRight_eq_div_pow, Nat.shiftRight_eq_div_pow]
      exact Nat.div_le_div_right (hle i hin)
    refine ⟨?_, ?_, ?_⟩
    · show _ < n + (u >>> efL n u) + 1; omega
    · exact hhigh
    · rw [hsz]; show (efLow 64 n u).nw + (efHigh 64 n u).nw ≤ _; omega

theorem ef_compat (n u : Nat) (hu : u < 2 ^ 64) (xs : List Nat) (parts : List (List Nat))
    (hparts : ∀ i, i ∈ parts.flatten → i < n) : Compat 64 (efProgs n u xs parts) := by
  obtain ⟨hl, hlow, hlw1, hhigh, hsz⟩ := ef_geom n u hu
  intro p hp o ho p' hp' o' ho' k hc hc'
  obtain ⟨i, hi, rfl | rfl⟩ := ef_mem hp ho <;> obtain ⟨i', hi', rfl | rfl⟩ := ef_mem hp' ho'
  · by_cases hii : i = i'
    · subst hii; rfl
    · exact absurd ⟨hc, hc'⟩ (setField_disjoint_of_ne _ _ _ _ _ _ _ hii k)
  · rw [covers_low] at hc
    rw [covers_high] at hc'
    have h1 := Nat.mul_le_mul_right (efL n u) (show i + 1 ≤ n from hparts i hi)
    generalize xs.getD i' 0 >>> efL n u = q at hc'
    omega
  · rw [covers_high] at hc
    rw [covers_low] at hc'
    have h1 := Nat.mul_le_mul_right (efL n u) (show i' + 1 ≤ n from hparts i' hi')
    generalize xs.getD i 0 >>> efL n u = q at hc
    omega
  · unfold Op.covers at hc hc'
    simp only [efHighOp, Op.pos, Op.width] at hc hc'
    unfold Op.vbit
    simp only [efHighOp, Op.pos, Op.value]
    have e1 : k - ((efHigh 64 n u).base * 64 + ((xs.getD i 0 >>> efL n u) + i)) = 0 := by omega
    have e2 : k - ((efHigh 64 n u).base * 64 + ((xs.getD i' 0 >>> efL n u) + i')) = 0 := by omega
    rw [e1, e2]

theorem range'_map_getD (xs : List Nat) : (List.range' 0 xs.length).map (fun i => xs.getD i 0) = xs := by
  apply List.ext_getElem
  · simp
  · intro i h1 h2
    simp only [List.getElem_map, List.getElem_range', Nat.zero_add, Nat.one_mul]
    rw [List.getD_eq_getElem?_getD, List.getElem?_eq_getElem h2]
    rfl

/-- the sequential builder succeeds and is described by `EfGood … n` -/
theorem efSeqBuild_good (n u : Nat) (hu : u < 2 ^ 64) (xs : List Nat) (hn : xs.length = n)
    (hle : ∀ i, i < n → xs.getD i 0 ≤ u)
    (hmono : ∀ i, i + 1 < n → xs.getD i 0 ≤ xs.getD (i + 1) 0) :
    ∃ b, efSeqBuild n u xs = .ok b ∧ EfGood n u (fun i => xs.getD i 0) n b := by
  subst hn
  obtain ⟨b, e, hg⟩ := efGood_pushAll xs.length u (fun i => xs.getD i 0) hu hle hmono xs.length 0 _
    (efGood_new xs.length u _ hu) (by omega)
  rw [Nat.zero_add] at hg
  refine ⟨b, ?_, hg⟩
  unfold efSeqBuild
  rw [range'_map_getD] at e
  rw [e]
  simp only []
  rw [if_neg (by rw [hg.count]; exact fun h => h rfl)]

/-- final memory of the concurrent builder = `low_bits ++ high_bits` of the sequential one -/
theorem ef_final (n u : Nat) (hu : u < 2 ^ 64) (xs : List Nat)
    (hle : ∀ i, i < n → xs.getD i 0 ≤ u) (parts : List (List Nat))
    (hparts : ∀ i, i ∈ parts.flatten ↔ i < n) (b : EfSeq)
    (hg : EfGood n u (fun i => xs.getD i 0) n b) (sched : List (Nat × Nat))
    (hfin : (run 64 (Cfg.init (efMem n u) (efProgs n u xs parts)) sched).AllDone) :
    (run 64 (Cfg.init (efMem n u) (efProgs n u xs parts)) sched).mem.words
      = b.low.words ++ b.high.words := by
  obtain ⟨hl, hlow, hlw1, hhigh, hsz⟩ := ef_geom n u hu
  obtain ⟨h1, h2, h3, h4⟩ := compat_writers_final_aux 64 (by decide) (efMem n u)
    (WordsOK_replicate_zero _ _) (efProgs n u xs parts)
    (ef_wf n u hu xs hle parts (fun i hi => (hparts i).1 hi))
    (ef_compat n u hu xs parts (fun i hi => (hparts i).1 hi)) sched hfin
  apply eq_of_bitAt (by decide : 0 < 64) _ _
  · rw [h1, hsz, Array.size_append, hg.lowSize, hg.highSize]
  · exact h2
  · intro i hi
    rw [Array.size_append] at hi
    rw [Array.getElem_append]
    split
    · exact hg.lowInv.2.2.2 _ _
    · exact hg.highOK _ _
  · intro k
    rw [bitAt_append (by decide), hg.lowSize]
    by_cases hcov : ∃ p ∈ efProgs n u xs parts, ∃ o ∈ p, o.covers 64 k
    · obtain ⟨p, hp, o, ho, hc⟩ := hcov
      rw [h3 p hp o ho k hc]
      obtain ⟨i, hi, rfl | rfl⟩ := ef_mem hp ho
      · have hin := (hparts i).1 hi
        have hc' := covers_low.1 hc
        have hm := Nat.mul_le_mul_right (efL n u) (show i + 1 ≤ n from hin)
        rw [if_pos (by omega), hg.lowSet i k hin hc'.1 hc'.2]
        unfold efLowOp
        rw [vbit_setField]
        simp [efLow]
      · have hc' := covers_high.1 hc
        have key : ∀ q : Nat, k = (efLow 64 n u).nw * 64 + (q + i) →
            ¬ k < 64 * (efLow 64 n u).nw ∧ k - 64 * (efLow 64 n u).nw = q + i ∧
            k - ((efLow 64 n u).nw * 64 + (q + i)) = 0 := by
          intro q hk; omega
        obtain ⟨a1, a2, a3⟩ := key _ hc'
        rw [if_neg a1, a2, hg.highSet i ((hparts i).1 hi)]
        unfold Op.vbit efHighOp
        simp only [Op.pos, Op.value, efHigh]
        rw [a3]; rfl
    · have hun : Untouched 64 (efProgs n u xs parts) k :=
        fun p hp o ho hc => hcov ⟨p, hp, o, ho, hc⟩
      rw [h4 k hun]
      unfold efMem
      rw [bitAt_replicate_zero]
      split
      · symm
        apply hg.lowClear
        intro i hi hk
        obtain ⟨p, hp, hlo, _⟩ := ef_mem_conv (n := n) (u := u) (xs := xs) ((hparts i).2 hi)
        exact hcov ⟨p, hp, _, hlo, covers_low.2 hk⟩
      · symm
        apply hg.highClear
        intro i hi hk
        obtain ⟨p, hp, _, hhi⟩ := ef_mem_conv (n := n) (u := u) (xs := xs) ((hparts i).2 hi)
        refine hcov ⟨p, hp, _, hhi, covers_high.2 ?_⟩
        have hk' : k - 64 * (efLow 64 n u).nw = (xs.getD i 0 >>> efL n u) + i := hk
        generalize xs.getD i 0 >>> efL n u = q at hk'
        omega

end Sux.Atomic
