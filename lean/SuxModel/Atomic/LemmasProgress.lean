import SuxModel.Atomic.LemmasStep
/-!
# Lock-freedom accounting (C13, T-B)

Ghost counters of a thread: `nfail` failed compare-exchanges, `nsucc` successful RMWs, `nstale`
steps taken with a non-zero (possibly stale) choice.  Potential of a thread:
`nfail + stale + nsucc`, where `stale = 1` iff the thread is inside a compare-exchange loop and
the value it expects is not the current value of the word.  Every micro-step of the thread itself
raises its potential by at most `2·[choice ≠ 0] + [it performed a successful RMW]`; a micro-step
of another thread can raise it (by 1) only by a successful RMW.
-/
namespace Sux.Atomic

/-- location and expected value of the pending `compare_exchange`, if any -/
def Thread.target (W : Nat) (th : Thread) : Option (Nat × Nat) :=
  match th.pc, th.prog[th.ip]? with
  | .cas cur, some (.setField _ d i _) => some (d.base + i * d.bw / W, cur)
  | .casLo cur, some (.setField _ d i _) => some (d.base + i * d.bw / W, cur)
  | .casHi cur, some (.setField _ d i _) => some (d.base + (i * d.bw / W + 1), cur)
  | _, _ => none

/-- 1 iff the pending `compare_exchange` is bound to fail on the current memory -/
def Thread.stale (W : Nat) (th : Thread) (ws : Array Nat) : Nat :=
  match th.target W with
  | some (a, cur) => if ws.getD a 0 = cur then 0 else 1
  | none => 0

def Thread.pot (W : Nat) (th : Thread) (ws : Array Nat) : Nat := th.nfail + th.stale W ws + th.nsucc

theorem stale_le_one (W : Nat) (th : Thread) (ws : Array Nat) : th.stale W ws ≤ 1 := by
  unfold Thread.stale
  split
  · split <;> omega
  · omega

/-! ## memory operations with choice 0 -/

theorem read_spec (m : Mem) (a c v : Nat) (h : m.read a c = .ok v) :
    c = 0 → v = m.words.getD a 0 := by
  intro hc
  subst hc
  unfold Mem.read at h
  cases hw : m.words[a]? with
  | none => rw [hw] at h; cases h
  | some w =>
    rw [hw] at h
    simp only [List.getD_cons_zero, Out.ok.injEq] at h
    rw [getD_eq_getElem?_getD, hw]
    exact h.symm

theorem rdAt_spec (m : Mem) (d : VecD) (wi c v : Nat) (h : rdAt m d wi c = .ok v) :
    c = 0 → v = m.words.getD (d.base + wi) 0 := by
  unfold rdAt VecD.loc at h
  split at h
  · rename_i a ha
    split at ha
    · cases ha; exact read_spec m _ c v h
    · cases ha
  · cases h
  · cases h

/-- outcomes of a `compare_exchange` -/
theorem cas_cases (m : Mem) (a e new c : Nat) :
    m.cas a e new c = .oob ∨
    (∃ v, m.cas a e new c = .ok (m, some v) ∧ (c = 0 → v = m.words.getD a 0 ∧ v ≠ e)) ∨
    (m.cas a e new c = .ok (m.write a new, none) ∧ m.words.getD a 0 = e) := by
  unfold Mem.cas
  cases hw : m.words[a]? with
  | none => exact .inl rfl
  | some w =>
    have hg : m.words.getD a 0 = w := by rw [getD_eq_getElem?_getD, hw]; rfl
    simp only []
    split
    · rename_i hne
      refine .inr (.inl ⟨_, rfl, ?_⟩)
      intro hc
      subst hc
      simp only [List.getD_cons_zero] at hne ⊢
      exact ⟨hg.symm, hne⟩
    · split
      · rename_i hwe
        exact .inr (.inr ⟨rfl, by rw [hg]; exact hwe⟩)
      · rename_i hwe
        exact .inr (.inl ⟨w, rfl, fun _ => ⟨hg.symm, hwe⟩⟩)

theorem casAt_cases (m : Mem) (d : VecD) (wi e new c : Nat) :
    casAt m d wi e new c = .oob ∨
    (∃ v, casAt m d wi e new c = .ok (m, some v) ∧
      (c = 0 → v = m.words.getD (d.base + wi) 0 ∧ v ≠ e)) ∨
    (casAt m d wi e new c = .ok (m.write (d.base + wi) new, none) ∧
      m.words.getD (d.base + wi) 0 = e) := by
  unfold casAt VecD.loc
  split
  · rename_i a ha
    split at ha
    · cases ha; exact cas_cases m _ e new c
    · cases ha
  · rename_i ha; split at ha <;> cases ha
  · exact .inl rfl

/-! ## `stale` in the various positions -/

theorem stale_start {W : Nat} {th : Thread} (ws : Array Nat) (h : th.pc = .start) :
    th.stale W ws = 0 := by
  unfold Thread.stale Thread.target; rw [h]

theorem stale_ldHi {W : Nat} {th : Thread} (ws : Array Nat) (h : th.pc = .ldHi) :
    th.stale W ws = 0 := by
  unfold Thread.stale Thread.target; rw [h]

theorem stale_getHi {W : Nat} {th : Thread} (ws : Array Nat) {lo : Nat} (h : th.pc = .getHi lo) :
    th.stale W ws = 0 := by
  unfold Thread.stale Thread.target; rw [h]

theorem stale_cas {W : Nat} {th : Thread} (ws : Array Nat) {chk : Bool} {d : VecD} {i v cur : Nat}
    (ho : th.prog[th.ip]? = some (.setField chk d i v)) (h : th.pc = .cas cur) :
    th.stale W ws = if ws.getD (d.base + i * d.bw / W) 0 = cur then 0 else 1 := by
  unfold Thread.stale Thread.target; rw [h, ho]

theorem stale_casLo {W : Nat} {th : Thread} (ws : Array Nat) {chk : Bool} {d : VecD} {i v cur : Nat}
    (ho : th.prog[th.ip]? = some (.setField chk d i v)) (h : th.pc = .casLo cur) :
    th.stale W ws = if ws.getD (d.base + i * d.bw / W) 0 = cur then 0 else 1 := by
  unfold Thread.stale Thread.target; rw [h, ho]

theorem stale_casHi {W : Nat} {th : Thread} (ws : Array Nat) {chk : Bool} {d : VecD} {i v cur : Nat}
    (ho : th.prog[th.ip]? = some (.setField chk d i v)) (h : th.pc = .casHi cur) :
    th.stale W ws = if ws.getD (d.base + (i * d.bw / W + 1)) 0 = cur then 0 else 1 := by
  unfold Thread.stale Thread.target; rw [h, ho]

/-! ## accounting of one micro-step -/

/-- accounting post-condition of a micro-step from `(m, th)` to `r` taken with choice `c` -/
def CntOK (W : Nat) (m : Mem) (th : Thread) (c : Nat) (r : StepR) : Prop :=
  r.2.1.nstale = th.nstale ∧ r.2.1.prog = th.prog ∧
  th.nsucc ≤ r.2.1.nsucc ∧ r.2.1.nsucc ≤ th.nsucc + 1 ∧
  (r.1.words = m.words ∨ r.2.1.nsucc = th.nsucc + 1) ∧
  r.1.words.size = m.words.size ∧
  r.2.1.pot W r.1.words + th.nsucc ≤ th.pot W m.words + (if c = 0 then 0 else 2) + r.2.1.nsucc

theorem CntOK_fault {W : Nat} (m : Mem) (th : Thread) (c : Nat) (s : Status) (site : Nat) :
    CntOK W m th c (m, th.fault s, site) := by
  refine ⟨rfl, rfl, Nat.le_refl _, Nat.le_succ _, .inl rfl, rfl, ?_⟩
  have : (th.fault s).pot W m.words = th.pot W m.words := rfl
  show (th.fault s).pot W m.words + th.nsucc ≤ _ + (th.fault s).nsucc
  rw [this]
  show _ ≤ _ + th.nsucc
  omega

/-- a step that keeps memory and counters, and ends in a position without pending CAS -/
theorem CntOK_quiet {W : Nat} (m : Mem) (th th' : Thread) (c : Nat) (site : Nat)
    (h1 : th'.nstale = th.nstale) (h2 : th'.prog = th.prog) (h3 : th'.nsucc = th.nsucc)
    (h4 : th'.nfail = th.nfail) (h5 : th'.stale W m.words = 0) :
    CntOK W m th c (m, th', site) := by
  refine ⟨h1, h2, by rw [h3]; exact Nat.le_refl _, by rw [h3]; exact Nat.le_succ _, .inl rfl, rfl, ?_⟩
  show th'.pot W m.words + th.nsucc ≤ th.pot W m.words + _ + th'.nsucc
  unfold Thread.pot
  rw [h3, h4, h5]
  omega

/-- a plain load that enters a compare-exchange loop -/
theorem CntOK_load {W : Nat} (m : Mem) (th th' : Thread) (c : Nat) (site : Nat)
    (h1 : th'.nstale = th.nstale) (h2 : th'.prog = th.prog) (h3 : th'.nsucc = th.nsucc)
    (h4 : th'.nfail = th.nfail) (h0 : th.stale W m.words = 0)
    (h5 : c = 0 → th'.stale W m.words = 0) :
    CntOK W m th c (m, th', site) := by
  refine ⟨h1, h2, by rw [h3]; exact Nat.le_refl _, by rw [h3]; exact Nat.le_succ _, .inl rfl, rfl, ?_⟩
  show th'.pot W m.words + th.nsucc ≤ th.pot W m.words + _ + th'.nsucc
  unfold Thread.pot
  rw [h3, h4, h0]
  have := stale_le_one W th' m.words
  by_cases hc : c = 0
  · rw [if_pos hc, h5 hc]; omega
  · rw [if_neg hc]; omega

/-- a failed compare-exchange that re-reads `v` -/
theorem CntOK_failed {W : Nat} (m : Mem) (th : Thread) (c : Nat) (site : Nat) (e : Pc)
    (h : c = 0 → th.stale W m.words = 1 ∧ (th.failed e).stale W m.words = 0) :
    CntOK W m th c (m, th.failed e, site) := by
  refine ⟨rfl, rfl, Nat.le_refl _, Nat.le_succ _, .inl rfl, rfl, ?_⟩
  show (th.failed e).pot W m.words + th.nsucc ≤ th.pot W m.words + _ + th.nsucc
  unfold Thread.pot
  show (th.nfail + 1) + (th.failed e).stale W m.words + th.nsucc + th.nsucc ≤ _
  have := stale_le_one W (th.failed e) m.words
  by_cases hc : c = 0
  · rw [if_pos hc, (h hc).1, (h hc).2]; omega
  · rw [if_neg hc]; omega

/-- a successful RMW after which no compare-exchange is pending -/
theorem CntOK_rmw {W : Nat} (m : Mem) (th th' : Thread) (c : Nat) (site : Nat) (a w' : Nat)
    (h1 : th'.nstale = th.nstale) (h2 : th'.prog = th.prog) (h3 : th'.nsucc = th.nsucc + 1)
    (h4 : th'.nfail = th.nfail) (h0 : th.stale W m.words = 0)
    (h5 : ∀ ws, th'.stale W ws = 0) :
    CntOK W m th c (m.write a w', th', site) := by
  refine ⟨h1, h2, by rw [h3]; exact Nat.le_succ _, by rw [h3]; exact Nat.le_refl _, .inr h3,
    by simp [write_words], ?_⟩
  show th'.pot W _ + th.nsucc ≤ th.pot W m.words + _ + th'.nsucc
  unfold Thread.pot
  rw [h3, h4, h0, h5]
  omega

theorem stepSetField_cnt {W : Nat} (m : Mem) (th : Thread) (c : Nat) (chk : Bool)
    (d : VecD) (i v : Nat) (ho : th.prog[th.ip]? = some (.setField chk d i v)) :
    CntOK W m th c (stepSetField W m th c chk d i v) := by
  unfold stepSetField
  simp only []
  split
  · exact CntOK_fault m th c _ _
  · split
    · split
      · rename_i hpc
        split
        · rename_i cur hrd
          refine CntOK_load m th (th.goto (.cas cur)) c _ rfl rfl rfl rfl (stale_start _ hpc) ?_
          intro hc
          rw [stale_cas (th := th.goto (.cas cur)) _ ho rfl, rdAt_spec m d _ c cur hrd hc, if_pos rfl]
        · exact CntOK_fault m th c _ _
      · rename_i cur hpc
        rcases casAt_cases m d (i * d.bw / W) cur
          ((cur &&& notW W (shlW W (BFV.maskOf W d.bw) (i * d.bw % W))) ||| shlW W v (i * d.bw % W)) c
          with hc | ⟨e, hc, he⟩ | ⟨hc, hcur⟩
        · rw [hc]; exact CntOK_fault m th c _ _
        · rw [hc]
          refine CntOK_failed m th c _ _ ?_
          intro h0
          obtain ⟨he1, he2⟩ := he h0
          rw [stale_cas _ ho hpc, stale_cas (th := th.failed (.cas e)) _ ho rfl, ← he1,
            if_neg he2, if_pos rfl]
          exact ⟨rfl, rfl⟩
        · rw [hc]
          refine CntOK_rmw m th th.succ.finish c _ _ _ rfl rfl rfl rfl ?_ (fun ws => stale_start ws rfl)
          rw [stale_cas _ ho hpc, if_pos hcur]
      · exact CntOK_fault m th c _ _
    · split
      · rename_i hpc
        split
        · rename_i cur hrd
          refine CntOK_load m th (th.goto (.casLo cur)) c _ rfl rfl rfl rfl (stale_start _ hpc) ?_
          intro hc
          rw [stale_casLo (th := th.goto (.casLo cur)) _ ho rfl, rdAt_spec m d _ c cur hrd hc,
            if_pos rfl]
        · exact CntOK_fault m th c _ _
      · rename_i cur hpc
        rcases casAt_cases m d (i * d.bw / W) cur
          ((cur &&& lowMask (i * d.bw % W)) ||| shlW W v (i * d.bw % W)) c
          with hc | ⟨e, hc, he⟩ | ⟨hc, hcur⟩
        · rw [hc]; exact CntOK_fault m th c _ _
        · rw [hc]
          refine CntOK_failed m th c _ _ ?_
          intro h0
          obtain ⟨he1, he2⟩ := he h0
          rw [stale_casLo _ ho hpc, stale_casLo (th := th.failed (.casLo e)) _ ho rfl, ← he1,
            if_neg he2, if_pos rfl]
          exact ⟨rfl, rfl⟩
        · rw [hc]
          refine CntOK_rmw m th (th.succ.goto .ldHi) c _ _ _ rfl rfl rfl rfl ?_
            (fun ws => stale_ldHi ws rfl)
          rw [stale_casLo _ ho hpc, if_pos hcur]
      · rename_i hpc
        split
        · rename_i cur hrd
          refine CntOK_load m th (th.goto (.casHi cur)) c _ rfl rfl rfl rfl (stale_ldHi _ hpc) ?_
          intro hc
          rw [stale_casHi (th := th.goto (.casHi cur)) _ ho rfl, rdAt_spec m d _ c cur hrd hc,
            if_pos rfl]
        · exact CntOK_fault m th c _ _
      · rename_i cur hpc
        rcases casAt_cases m d (i * d.bw / W + 1) cur
          ((cur &&& notW W (BFV.maskOf W d.bw >>> (W - i * d.bw % W))) ||| (v >>> (W - i * d.bw % W))) c
          with hc | ⟨e, hc, he⟩ | ⟨hc, hcur⟩
        · rw [hc]; exact CntOK_fault m th c _ _
        · rw [hc]
          refine CntOK_failed m th c _ _ ?_
          intro h0
          obtain ⟨he1, he2⟩ := he h0
          rw [stale_casHi _ ho hpc, stale_casHi (th := th.failed (.casHi e)) _ ho rfl, ← he1,
            if_neg he2, if_pos rfl]
          exact ⟨rfl, rfl⟩
        · rw [hc]
          refine CntOK_rmw m th th.succ.finish c _ _ _ rfl rfl rfl rfl ?_ (fun ws => stale_start ws rfl)
          rw [stale_casHi _ ho hpc, if_pos hcur]
      · exact CntOK_fault m th c _ _

theorem stepGetField_cnt {W : Nat} (m : Mem) (th : Thread) (c : Nat) (chk : Bool)
    (d : VecD) (i : Nat) : CntOK W m th c (stepGetField W m th c chk d i) := by
  unfold stepGetField
  simp only []
  split
  · exact CntOK_fault m th c _ _
  · split
    · split
      · split
        · exact CntOK_quiet m th (th.ret _).finish c _ rfl rfl rfl rfl (stale_start _ rfl)
        · exact CntOK_fault m th c _ _
      · exact CntOK_fault m th c _ _
    · split
      · split
        · exact CntOK_quiet m th (th.goto (.getHi _)) c _ rfl rfl rfl rfl (stale_getHi _ rfl)
        · exact CntOK_fault m th c _ _
      · split
        · exact CntOK_quiet m th (th.ret _).finish c _ rfl rfl rfl rfl (stale_start _ rfl)
        · exact CntOK_fault m th c _ _
      · exact CntOK_fault m th c _ _

theorem stepGetBit_cnt {W : Nat} (m : Mem) (th : Thread) (c : Nat) (d : VecD) (i : Nat) :
    CntOK W m th c (stepGetBit W m th c d i) := by
  unfold stepGetBit
  split
  · split
    · exact CntOK_fault m th c _ _
    · split
      · exact CntOK_quiet m th (th.ret _).finish c _ rfl rfl rfl rfl (stale_start _ rfl)
      · exact CntOK_fault m th c _ _
  · exact CntOK_fault m th c _ _

theorem rmwAt_cases (m : Mem) (d : VecD) (wi : Nat) (f : Nat → Nat) :
    (∃ a w, rmwAt m d wi f = .ok (m.write a (f w), w)) ∨ rmwAt m d wi f = .oob := by
  unfold rmwAt VecD.loc Mem.rmw
  split
  · rename_i a ha
    split
    · exact .inr rfl
    · exact .inl ⟨_, _, rfl⟩
  · rename_i ha; split at ha <;> cases ha
  · exact .inr rfl

theorem stepSetBit_cnt {W : Nat} (m : Mem) (th : Thread) (c : Nat) (d : VecD) (i : Nat) (b : Bool) :
    CntOK W m th c (stepSetBit W m th d i b) := by
  unfold stepSetBit
  split
  · rename_i hpc
    split
    · exact CntOK_fault m th c _ _
    · rcases rmwAt_cases m d (i / W) (bitFn W (i % W) b) with ⟨a, w, h⟩ | h
      · rw [h]
        exact CntOK_rmw m th th.succ.finish c _ _ _ rfl rfl rfl rfl (stale_start _ hpc)
          (fun ws => stale_start ws rfl)
      · rw [h]; exact CntOK_fault m th c _ _
  · exact CntOK_fault m th c _ _

theorem stepSwapBit_cnt {W : Nat} (m : Mem) (th : Thread) (c : Nat) (d : VecD) (i : Nat) (b : Bool) :
    CntOK W m th c (stepSwapBit W m th d i b) := by
  unfold stepSwapBit
  split
  · rename_i hpc
    split
    · exact CntOK_fault m th c _ _
    · rcases rmwAt_cases m d (i / W) (bitFn W (i % W) b) with ⟨a, w, h⟩ | h
      · rw [h]
        exact CntOK_rmw m th (th.succ.ret _).finish c _ _ _ rfl rfl rfl rfl (stale_start _ hpc)
          (fun ws => stale_start ws rfl)
      · rw [h]; exact CntOK_fault m th c _ _
  · exact CntOK_fault m th c _ _

/-- accounting of any micro-step (no hypothesis on the thread or the memory):
its potential grows by at most `2·[c ≠ 0]` (charged to `nstale`) plus its own successful RMW -/
theorem stepT_cnt {W : Nat} (m : Mem) (th : Thread) (c : Nat) :
    let r := stepT W m th c
    r.2.1.prog = th.prog ∧ th.nsucc ≤ r.2.1.nsucc ∧ r.2.1.nsucc ≤ th.nsucc + 1 ∧
    (r.1.words = m.words ∨ r.2.1.nsucc = th.nsucc + 1) ∧ r.1.words.size = m.words.size ∧
    th.nstale ≤ r.2.1.nstale ∧ r.2.1.nstale ≤ th.nstale + (if c = 0 then 0 else 1) ∧
    r.2.1.pot W r.1.words + th.nsucc + 2 * th.nstale
      ≤ th.pot W m.words + 2 * r.2.1.nstale + r.2.1.nsucc := by
  intro r
  have quiet : stepT W m th c = (m, th, 0) →
      r.2.1.prog = th.prog ∧ th.nsucc ≤ r.2.1.nsucc ∧ r.2.1.nsucc ≤ th.nsucc + 1 ∧
      (r.1.words = m.words ∨ r.2.1.nsucc = th.nsucc + 1) ∧ r.1.words.size = m.words.size ∧
      th.nstale ≤ r.2.1.nstale ∧ r.2.1.nstale ≤ th.nstale + (if c = 0 then 0 else 1) ∧
      r.2.1.pot W r.1.words + th.nsucc + 2 * th.nstale
        ≤ th.pot W m.words + 2 * r.2.1.nstale + r.2.1.nsucc := by
    intro h
    have hr : r = (m, th, 0) := h
    rw [hr]
    exact ⟨rfl, Nat.le_refl _, Nat.le_succ _, .inl rfl, rfl, Nat.le_refl _, Nat.le_add_right _ _, by
      show th.pot W m.words + th.nsucc + 2 * th.nstale ≤ th.pot W m.words + 2 * th.nstale + th.nsucc
      omega⟩
  by_cases hst : th.st ≠ .run
  · exact quiet (by unfold stepT; rw [if_pos hst])
  · cases hop : th.prog[th.ip]? with
    | none => exact quiet (by unfold stepT; rw [if_neg hst, hop])
    | some op =>
      have hr : r = stepOp W m (th.tick c) c op := by
        show stepT W m th c = _
        unfold stepT; rw [if_neg hst, hop]
      have hop' : (th.tick c).prog[(th.tick c).ip]? = some op := hop
      have key : CntOK W m (th.tick c) c (stepOp W m (th.tick c) c op) := by
        cases op with
        | setField chk d i v => exact stepSetField_cnt m _ c chk d i v hop'
        | getField chk d i => exact stepGetField_cnt m _ c chk d i
        | setBit d i b => exact stepSetBit_cnt m _ c d i b
        | swapBit d i b => exact stepSwapBit_cnt m _ c d i b
        | getBit d i => exact stepGetBit_cnt m _ c d i
      rw [← hr] at key
      obtain ⟨k1, k2, k3, k4, k5, k6, k7⟩ := key
      have hpot : (th.tick c).pot W m.words = th.pot W m.words := rfl
      have hns : (th.tick c).nstale = th.nstale + (if c = 0 then 0 else 1) := rfl
      have hsu : (th.tick c).nsucc = th.nsucc := rfl
      rw [hpot, hsu] at k7
      rw [hsu] at k3 k4 k5
      rw [hns] at k1
      refine ⟨k2, k3, k4, k5, k6, by rw [k1]; omega, by rw [k1]; exact Nat.le_refl _, ?_⟩
      rw [k1]
      by_cases hc : c = 0
      · rw [if_pos hc] at k7 ⊢; omega
      · rw [if_neg hc] at k7 ⊢; omega

/-! ## the global accounting invariant -/

/-- total number of successful RMWs so far -/
def Cfg.totSucc (cfg : Cfg) : Nat := (cfg.thr.map (·.nsucc)).sum

theorem sum_set (l : List Thread) (t : Nat) (th th' : Thread) (h : l[t]? = some th) :
    ((l.set t th').map (·.nsucc)).sum + th.nsucc = (l.map (·.nsucc)).sum + th'.nsucc := by
  induction l generalizing t with
  | nil => cases h
  | cons x xs ih =>
    cases t with
    | zero =>
      simp only [List.getElem?_cons_zero, Option.some.injEq] at h
      subst h
      simp only [List.set_cons_zero, List.map_cons, List.sum_cons]
      omega
    | succ t =>
      simp only [List.getElem?_cons_succ] at h
      have := ih t h
      simp only [List.set_cons_succ, List.map_cons, List.sum_cons]
      omega

/-- every thread's potential is paid for by its own stale choices and by successful RMWs -/
def CntInv (W : Nat) (cfg : Cfg) : Prop :=
  ∀ (t : Nat) (th : Thread), cfg.thr[t]? = some th →
    th.pot W cfg.mem.words ≤ 2 * th.nstale + cfg.totSucc

theorem cntInv_init (W : Nat) (ws : Array Nat) (progs : List (List Op)) :
    CntInv W (Cfg.init ws progs) := by
  intro t th hth
  have : (Cfg.init ws progs).thr[t]? = (progs[t]?).map (fun p => ({ prog := p } : Thread)) := by
    simp [Cfg.init]
  rw [this] at hth
  cases hp : progs[t]? with
  | none => rw [hp] at hth; cases hth
  | some p =>
    rw [hp] at hth
    simp only [Option.map_some, Option.some.injEq] at hth
    subst hth
    show (0 + Thread.stale W _ _ + 0) ≤ _
    rw [stale_start _ rfl]
    omega

theorem cntInv_step {W : Nat} (cfg : Cfg) (h : CntInv W cfg) (e : Nat × Nat) :
    CntInv W (step W cfg e) := by
  unfold step
  cases hth : cfg.thr[e.1]? with
  | none => exact h
  | some th =>
    simp only []
    obtain ⟨_, k3, k4, k5, _, _, _, k7⟩ := stepT_cnt (W := W) cfg.mem th e.2
    have hsum := sum_set cfg.thr e.1 th (stepT W cfg.mem th e.2).2.1 hth
    have hlt : e.1 < cfg.thr.length := by
      rcases Nat.lt_or_ge e.1 cfg.thr.length with hl | hl
      · exact hl
      · rw [List.getElem?_eq_none hl] at hth; cases hth
    intro t th'' hth''
    have hth2 : (cfg.thr.set e.1 (stepT W cfg.mem th e.2).2.1)[t]? = some th'' := hth''
    show th''.pot W (stepT W cfg.mem th e.2).1.words ≤
      2 * th''.nstale + ((cfg.thr.set e.1 (stepT W cfg.mem th e.2).2.1).map (·.nsucc)).sum
    have hold := h e.1 th hth
    unfold Cfg.totSucc at hold
    rw [List.getElem?_set] at hth2
    by_cases ht : e.1 = t
    · rw [if_pos ht, if_pos hlt] at hth2
      cases hth2
      omega
    · rw [if_neg ht] at hth2
      have hold2 := h t th'' hth2
      unfold Cfg.totSucc at hold2
      rcases k5 with hw | hs
      · rw [hw]; omega
      · have h1 := stale_le_one W th'' (stepT W cfg.mem th e.2).1.words
        unfold Thread.pot at hold2 ⊢
        omega

theorem cntInv_run {W : Nat} (sched : List (Nat × Nat)) (cfg : Cfg) (h : CntInv W cfg) :
    CntInv W (run W cfg sched) := by
  induction sched generalizing cfg with
  | nil => exact h
  | cons e es ih =>
    unfold run
    rw [List.foldl_cons]
    exact ih _ (cntInv_step cfg h e)

/-- number of schedule entries that grant thread `t` a non-zero (possibly stale) choice -/
def staleGrants (sched : List (Nat × Nat)) (t : Nat) : Nat :=
  (sched.filter (fun e => e.1 == t && e.2 != 0)).length

theorem nstale_step {W : Nat} (cfg : Cfg) (e : Nat × Nat) (t : Nat) (th : Thread)
    (hth : cfg.thr[t]? = some th) :
    ∃ th', (step W cfg e).thr[t]? = some th' ∧
      th'.nstale ≤ th.nstale + (if e.1 == t && e.2 != 0 then 1 else 0) := by
  unfold step
  cases hx : cfg.thr[e.1]? with
  | none => exact ⟨th, hth, Nat.le_add_right _ _⟩
  | some thx =>
    simp only []
    obtain ⟨_, _, _, _, _, _, k6, _⟩ := stepT_cnt (W := W) cfg.mem thx e.2
    have hlt : e.1 < cfg.thr.length := by
      rcases Nat.lt_or_ge e.1 cfg.thr.length with hl | hl
      · exact hl
      · rw [List.getElem?_eq_none hl] at hx; cases hx
    by_cases ht : e.1 = t
    · subst ht
      rw [hx] at hth; cases hth
      refine ⟨_, by rw [List.getElem?_set, if_pos rfl, if_pos hlt], ?_⟩
      by_cases hc : e.2 = 0
      · have hb : (e.1 == e.1 && e.2 != 0) = false := by simp [hc]
        rw [if_pos hc] at k6
        rw [hb]
        exact k6
      · have hb : (e.1 == e.1 && e.2 != 0) = true := by simp [hc]
        rw [if_neg hc] at k6
        rw [hb]
        exact k6
    · refine ⟨th, by rw [List.getElem?_set, if_neg ht]; exact hth, ?_⟩
      omega

theorem nstale_run {W : Nat} (sched : List (Nat × Nat)) (cfg : Cfg) (t : Nat) (th : Thread)
    (hth : cfg.thr[t]? = some th) :
    ∃ th', (run W cfg sched).thr[t]? = some th' ∧ th'.nstale ≤ th.nstale + staleGrants sched t := by
  induction sched generalizing cfg th with
  | nil => exact ⟨th, hth, Nat.le_add_right _ _⟩
  | cons e es ih =>
    obtain ⟨th1, h1, hle1⟩ := nstale_step (W := W) cfg e t th hth
    obtain ⟨th2, h2, hle2⟩ := ih (step W cfg e) th1 h1
    refine ⟨th2, by unfold run; rw [List.foldl_cons]; exact h2, ?_⟩
    unfold staleGrants at hle2 ⊢
    rw [List.filter_cons]
    split
    · rename_i hc; rw [if_pos hc] at hle1; simp only [List.length_cons]; omega
    · rename_i hc; rw [if_neg hc] at hle1; omega

theorem step_length (W : Nat) (cfg : Cfg) (e : Nat × Nat) :
    (step W cfg e).thr.length = cfg.thr.length := by
  unfold step
  cases cfg.thr[e.1]? with
  | none => rfl
  | some th => simp

theorem run_length (W : Nat) (sched : List (Nat × Nat)) (cfg : Cfg) :
    (run W cfg sched).thr.length = cfg.thr.length := by
  induction sched generalizing cfg with
  | nil => rfl
  | cons e es ih =>
    unfold run
    rw [List.foldl_cons]
    exact (ih _).trans (step_length W cfg e)

/-- the accounting theorem, from the initial configuration -/
theorem failures_bounded (W : Nat) (ws0 : Array Nat) (progs : List (List Op))
    (sched : List (Nat × Nat)) (t : Nat) (th : Thread)
    (hth : (run W (Cfg.init ws0 progs) sched).thr[t]? = some th) :
    th.nfail + th.nsucc ≤ 2 * staleGrants sched t + (run W (Cfg.init ws0 progs) sched).totSucc := by
  have hinv := cntInv_run sched _ (cntInv_init W ws0 progs) t th hth
  have hlt : t < (Cfg.init ws0 progs).thr.length := by
    rw [← run_length W sched]
    rcases Nat.lt_or_ge t (run W (Cfg.init ws0 progs) sched).thr.length with hl | hl
    · exact hl
    · rw [List.getElem?_eq_none hl] at hth; cases hth
  have h0 : (Cfg.init ws0 progs).thr[t]? = some (Cfg.init ws0 progs).thr[t] :=
    List.getElem?_eq_getElem hlt
  obtain ⟨th', h1, h2⟩ := nstale_run (W := W) sched _ t _ h0
  rw [hth] at h1
  cases h1
  have hz : (Cfg.init ws0 progs).thr[t].nstale = 0 := by
    simp [Cfg.init]
  rw [hz, Nat.zero_add] at h2
  unfold Thread.pot at hinv
  have := Nat.mul_le_mul_left 2 h2
  omega

theorem staleGrants_zero (sched : List (Nat × Nat)) (h : ∀ e ∈ sched, e.2 = 0) (t : Nat) :
    staleGrants sched t = 0 := by
  unfold staleGrants
  rw [List.length_eq_zero_iff, List.filter_eq_nil_iff]
  intro e he
  simp [h e he]

end Sux.Atomic
