import SuxModel.Atomic.LemmasStep
/-!
# The global invariant of C13 and its preservation along any schedule

`Inv`: every bit some thread has committed holds the value its writer stored, every bit no call
covers is as in the initial memory.  Preservation uses only the local step lemma and `Compat`
(writers of a common bit agree on it — in particular: writers of disjoint elements).
-/
namespace Sux.Atomic

structure Inv (W : Nat) (ws0 : Array Nat) (progs : List (List Op)) (cfg : Cfg) : Prop where
  progs_eq : cfg.thr.map (·.prog) = progs
  size_eq : cfg.mem.words.size = ws0.size
  ok : WordsOK W cfg.mem.words
  committed : ∀ (t : Nat) (th : Thread) (j k : Nat), cfg.thr[t]? = some th → th.commits W j k →
    ∃ o : Op, th.prog[j]? = some o ∧ bitAt W cfg.mem.words k = o.vbit W k
  frame : ∀ k, Untouched W progs k → bitAt W cfg.mem.words k = bitAt W ws0 k

theorem init_thr_getElem? (ws : Array Nat) (progs : List (List Op)) (t : Nat) :
    (Cfg.init ws progs).thr[t]? = (progs[t]?).map (fun p => ({ prog := p } : Thread)) := by
  simp [Cfg.init]

theorem inv_init (W : Nat) (ws0 : Array Nat) (progs : List (List Op)) (hok : WordsOK W ws0) :
    Inv W ws0 progs (Cfg.init ws0 progs) := by
  refine ⟨?_, rfl, hok, ?_, fun _ _ => rfl⟩
  · simp [Cfg.init, List.map_map, Function.comp_def]
  · intro t th j k hth hc
    rw [init_thr_getElem?] at hth
    cases hp : progs[t]? with
    | none => rw [hp] at hth; cases hth
    | some p =>
      rw [hp] at hth
      simp only [Option.map_some, Option.some.injEq] at hth
      subst hth
      obtain ⟨o, _, _, hj⟩ := hc
      rcases hj with hj | ⟨_, hm, _⟩
      · exact absurd hj (Nat.not_lt_zero _)
      · cases hm

/-- the program of a thread of the configuration is one of `progs` -/
theorem prog_mem {W : Nat} {ws0 : Array Nat} {progs : List (List Op)} {cfg : Cfg}
    (h : Inv W ws0 progs cfg) {t : Nat} {th : Thread} (hth : cfg.thr[t]? = some th) :
    progs[t]? = some th.prog := by
  rw [← h.progs_eq, List.getElem?_map, hth]; rfl

theorem inv_step {W : Nat} (hW : 0 < W) {ws0 : Array Nat} {progs : List (List Op)} {cfg : Cfg}
    (hwf : ProgsWF W ws0.size progs) (hcompat : Compat W progs) (h : Inv W ws0 progs cfg)
    (e : Nat × Nat) : Inv W ws0 progs (step W cfg e) := by
  unfold step
  cases hth : cfg.thr[e.1]? with
  | none => exact h
  | some th =>
    simp only []
    have hp := prog_mem h hth
    have hpm : th.prog ∈ progs := List.mem_of_getElem? hp
    have hwf' : ∀ o ∈ th.prog, o.WF W cfg.mem.words.size := by
      rw [h.size_eq]; exact hwf _ hpm
    obtain ⟨hsz, hok', hprog, N, hN1, hN2, hN3⟩ := stepT_ok hW cfg.mem th e.2 h.ok hwf'
    have hlt : e.1 < cfg.thr.length := by
      rcases Nat.lt_or_ge e.1 cfg.thr.length with hl | hl
      · exact hl
      · rw [List.getElem?_eq_none hl] at hth; cases hth
    -- the new bit, given an old committed bit of any thread
    have oldbit : ∀ (t : Nat) (thX : Thread) (j k : Nat), cfg.thr[t]? = some thX →
        thX.commits W j k →
        ∃ o, thX.prog[j]? = some o ∧ bitAt W (stepT W cfg.mem th e.2).1.words k = o.vbit W k := by
      intro t thX j k hX hc
      obtain ⟨o', ho', hbit⟩ := h.committed t thX j k hX hc
      refine ⟨o', ho', ?_⟩
      by_cases hn : N k
      · obtain ⟨o, ho, hcov, hb⟩ := hN1 k hn
        rw [hb]
        obtain ⟨o'', ho'', hcov', _⟩ := hc
        rw [ho'] at ho''; cases ho''
        exact hcompat _ hpm o (List.mem_of_getElem? ho) _
          (List.mem_of_getElem? (prog_mem h hX)) o' (List.mem_of_getElem? ho') k hcov hcov'
      · rw [hN2 k hn]; exact hbit
    refine ⟨?_, by rw [hsz]; exact h.size_eq, hok', ?_, ?_⟩
    · -- programs unchanged
      rw [← h.progs_eq]
      apply List.ext_getElem?
      intro i
      rw [List.getElem?_map, List.getElem?_map, List.getElem?_set]
      by_cases hi : e.1 = i
      · subst hi
        rw [if_pos rfl, if_pos hlt, hth]
        simp only [Option.map_some]
        rw [hprog]
      · rw [if_neg hi]
    · intro t th'' j k hth'' hc
      rw [List.getElem?_set] at hth''
      by_cases ht : e.1 = t
      · subst ht
        rw [if_pos rfl, if_pos hlt] at hth''
        cases hth''
        rcases hN3 j k hc with hold | hn
        · obtain ⟨o, ho, hb⟩ := oldbit e.1 th j k hth hold
          exact ⟨o, by rw [hprog]; exact ho, hb⟩
        · obtain ⟨o', ho', hcov', _⟩ := hc
          refine ⟨o', ho', ?_⟩
          obtain ⟨o, ho, hcov, hb⟩ := hN1 k hn
          rw [hb]
          rw [hprog] at ho'
          exact hcompat _ hpm o (List.mem_of_getElem? ho) _ hpm o' (List.mem_of_getElem? ho') k
            hcov hcov'
      · rw [if_neg ht] at hth''
        exact oldbit t th'' j k hth'' hc
    · intro k hk
      have hn : ¬ N k := by
        intro hn
        obtain ⟨o, ho, hcov, _⟩ := hN1 k hn
        exact hk _ hpm o (List.mem_of_getElem? ho) hcov
      rw [hN2 k hn]
      exact h.frame k hk

theorem inv_run {W : Nat} (hW : 0 < W) {ws0 : Array Nat} {progs : List (List Op)}
    (hwf : ProgsWF W ws0.size progs) (hcompat : Compat W progs) (sched : List (Nat × Nat))
    (cfg : Cfg) (h : Inv W ws0 progs cfg) : Inv W ws0 progs (run W cfg sched) := by
  induction sched generalizing cfg with
  | nil => exact h
  | cons e es ih =>
    unfold run
    rw [List.foldl_cons]
    exact ih _ (inv_step hW hwf hcompat h e)

/-- in a final configuration every call of every thread is committed -/
theorem inv_final {W : Nat} {ws0 : Array Nat} {progs : List (List Op)} {cfg : Cfg}
    (h : Inv W ws0 progs cfg) (hdone : cfg.AllDone) :
    ∀ p ∈ progs, ∀ o ∈ p, ∀ k, o.covers W k → bitAt W cfg.mem.words k = o.vbit W k := by
  intro p hp o ho k hcov
  obtain ⟨t, ht⟩ := List.mem_iff_getElem?.1 hp
  obtain ⟨j, hj⟩ := List.mem_iff_getElem?.1 ho
  rw [← h.progs_eq, List.getElem?_map] at ht
  cases hth : cfg.thr[t]? with
  | none => rw [hth] at ht; cases ht
  | some th =>
    rw [hth] at ht
    simp only [Option.map_some, Option.some.injEq] at ht
    have hd := hdone th (List.mem_of_getElem? hth)
    unfold Thread.done at hd
    simp only [Bool.and_eq_true, decide_eq_true_eq] at hd
    have hjl : j < p.length := by
      rcases Nat.lt_or_ge j p.length with hl | hl
      · exact hl
      · rw [List.getElem?_eq_none hl] at hj; cases hj
    have hc : th.commits W j k := ⟨o, by rw [ht]; exact hj, hcov, .inl (by rw [hd.2, ht]; exact hjl)⟩
    obtain ⟨o', ho', hb⟩ := h.committed t th j k hth hc
    rw [ht, hj] at ho'
    cases ho'
    exact hb

end Sux.Atomic
