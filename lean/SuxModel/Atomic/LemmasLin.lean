import SuxModel.Atomic.LemmasStep
/-!
# Linearizability of `AtomicBitVec::{set, swap}` (C13)

Each call is one `fetch_or` / `fetch_and`.  `linOf` collects the calls in the order their RMWs
were executed; the concurrent run equals the sequential execution of that list (`seqRun`), and
the list is an interleaving of the threads' programs.
-/
namespace Sux.Atomic

/-- the call is a single RMW on an `AtomicBitVec` -/
def Op.isBitRmw : Op → Bool
  | .setBit _ _ _ => true
  | .swapBit _ _ _ => true
  | _ => false

/-- sequential state: memory words and, per thread, the values returned so far (newest first) -/
abbrev SeqSt := Array Nat × (Nat → List Nat)

/-- one call `e.2`, issued by thread `e.1`, executed alone -/
def seqStep (W : Nat) (s : SeqSt) (e : Nat × Op) : SeqSt :=
  match e.2 with
  | .setBit d i b =>
    (s.1.setIfInBounds (d.base + i / W) (bitFn W (i % W) b (s.1.getD (d.base + i / W) 0)), s.2)
  | .swapBit d i b =>
    (s.1.setIfInBounds (d.base + i / W) (bitFn W (i % W) b (s.1.getD (d.base + i / W) 0)),
      fun t => if t = e.1 then ((s.1.getD (d.base + i / W) 0 >>> (i % W)) &&& 1) :: s.2 t else s.2 t)
  | _ => s

def seqRun (W : Nat) (s : SeqSt) (lin : List (Nat × Op)) : SeqSt := lin.foldl (seqStep W) s

/-- the call thread `t` is about to perform, if it is still running -/
def evOf (cfg : Cfg) (t : Nat) : List (Nat × Op) :=
  match cfg.thr[t]? with
  | none => []
  | some th =>
    if th.st = .run then
      match th.prog[th.ip]? with
      | some o => [(t, o)]
      | none => []
    else []

/-- the calls in the order the schedule executes them -/
def linOf (W : Nat) : Cfg → List (Nat × Nat) → List (Nat × Op)
  | _, [] => []
  | cfg, e :: es => evOf cfg e.1 ++ linOf W (step W cfg e) es

/-- all threads are between calls, all calls are well-formed bit RMWs -/
def BitCfg (W : Nat) (cfg : Cfg) : Prop :=
  ∀ th ∈ cfg.thr, th.pc = .start ∧ ∀ o ∈ th.prog, o.isBitRmw = true ∧ o.WF W cfg.mem.words.size

theorem stepT_setBit {W : Nat} (m : Mem) (th : Thread) (c : Nat) (d : VecD) (i : Nat) (b : Bool)
    (hst : th.st = .run) (ho : th.prog[th.ip]? = some (.setBit d i b)) (hpc : th.pc = .start)
    (hwf : d.BitOK W m.words.size i) :
    stepT W m th c =
      (m.write (d.base + i / W) (bitFn W (i % W) b (m.words.getD (d.base + i / W) 0)),
        (th.tick c).succ.finish, 31) := by
  have hwi : i / W < d.nw := Nat.div_lt_of_lt_mul (by have := hwf.1; have := hwf.2.1; omega)
  unfold stepT
  rw [if_neg (by rw [hst]; exact fun h => h rfl), ho]
  simp only [stepOp]
  unfold stepSetBit
  have : (th.tick c).pc = .start := hpc
  rw [this]
  simp only []
  rw [if_neg (by have := hwf.1; omega), rmwAt_spec m d (i / W) _ hwi hwf.2.2]

theorem stepT_swapBit {W : Nat} (m : Mem) (th : Thread) (c : Nat) (d : VecD) (i : Nat) (b : Bool)
    (hst : th.st = .run) (ho : th.prog[th.ip]? = some (.swapBit d i b)) (hpc : th.pc = .start)
    (hwf : d.BitOK W m.words.size i) :
    stepT W m th c =
      (m.write (d.base + i / W) (bitFn W (i % W) b (m.words.getD (d.base + i / W) 0)),
        (((th.tick c).succ.ret ((m.words.getD (d.base + i / W) 0 >>> (i % W)) &&& 1)).finish), 32) := by
  have hwi : i / W < d.nw := Nat.div_lt_of_lt_mul (by have := hwf.1; have := hwf.2.1; omega)
  unfold stepT
  rw [if_neg (by rw [hst]; exact fun h => h rfl), ho]
  simp only [stepOp]
  unfold stepSwapBit
  have : (th.tick c).pc = .start := hpc
  rw [this]
  simp only []
  rw [if_neg (by have := hwf.1; omega), rmwAt_spec m d (i / W) _ hwi hwf.2.2]

/-- values returned so far by thread `t` (newest first) -/
def Cfg.resOf (cfg : Cfg) (t : Nat) : List Nat :=
  match cfg.thr[t]? with
  | some th => th.res
  | none => []

theorem resOf_mk (m : Mem) (thr : List Thread) (t : Nat) :
    Cfg.resOf { mem := m, thr := thr } t
      = match thr[t]? with
        | some th => th.res
        | none => [] := rfl

theorem resOf_def (cfg : Cfg) (t : Nat) :
    cfg.resOf t
      = match cfg.thr[t]? with
        | some th => th.res
        | none => [] := rfl

/-- the facts `bit_step` establishes about one schedule entry -/
structure BitStep (W : Nat) (cfg cfg1 : Cfg) (ev : List (Nat × Op)) : Prop where
  bit : BitCfg W cfg1
  seq : (cfg1.mem.words, cfg1.resOf) = seqRun W (cfg.mem.words, cfg.resOf) ev
  prog : ∀ (t : Nat) (th : Thread), cfg.thr[t]? = some th → ∃ th', cfg1.thr[t]? = some th' ∧
    th'.prog = th.prog ∧
    th'.prog.take th'.ip = th.prog.take th.ip ++ (ev.filter (fun x => x.1 == t)).map (·.2)

/-- a schedule entry that changes nothing -/
theorem bitStep_idle {W : Nat} (cfg : Cfg) (h : BitCfg W cfg) (t : Nat) (th : Thread)
    (hth : cfg.thr[t]? = some th) :
    BitStep W cfg { mem := cfg.mem, thr := cfg.thr.set t th } [] := by
  have hlt : t < cfg.thr.length := by
    rcases Nat.lt_or_ge t cfg.thr.length with hl | hl
    · exact hl
    · rw [List.getElem?_eq_none hl] at hth; cases hth
  have hget : ∀ t' : Nat, (cfg.thr.set t th)[t']? = cfg.thr[t']? := by
    intro t'
    rw [List.getElem?_set]
    by_cases ht : t = t'
    · subst ht; rw [if_pos rfl, if_pos hlt, hth]
    · rw [if_neg ht]
  refine ⟨?_, ?_, ?_⟩
  · intro th' hm
    obtain ⟨t', ht'⟩ := List.mem_iff_getElem?.1 hm
    have ht'' : (cfg.thr.set t th)[t']? = some th' := ht'
    rw [hget] at ht''
    exact h th' (List.mem_of_getElem? ht'')
  · show (cfg.mem.words, _) = (cfg.mem.words, cfg.resOf)
    congr 1
    funext t'
    rw [resOf_mk, resOf_def, hget]
  · intro t' th' ht'
    refine ⟨th', ?_, rfl, by simp⟩
    show (cfg.thr.set t th)[t']? = some th'
    rw [hget]; exact ht'

/-- a schedule entry that performs the RMW of the current call of thread `t` -/
theorem bitStep_rmw {W : Nat} (cfg : Cfg) (h : BitCfg W cfg) (t : Nat) (th th' : Thread) (o : Op)
    (a w' : Nat) (hth : cfg.thr[t]? = some th) (ho : th.prog[th.ip]? = some o)
    (h1 : th'.prog = th.prog) (h2 : th'.ip = th.ip + 1) (h3 : th'.pc = .start)
    (hseq : seqStep W (cfg.mem.words, cfg.resOf) (t, o)
      = (cfg.mem.words.setIfInBounds a w', fun t' => if t' = t then th'.res else cfg.resOf t')) :
    BitStep W cfg { mem := cfg.mem.write a w', thr := cfg.thr.set t th' } [(t, o)] := by
  have hlt : t < cfg.thr.length := by
    rcases Nat.lt_or_ge t cfg.thr.length with hl | hl
    · exact hl
    · rw [List.getElem?_eq_none hl] at hth; cases hth
  have hget : ∀ t' : Nat, (cfg.thr.set t th')[t']? = if t = t' then some th' else cfg.thr[t']? := by
    intro t'
    rw [List.getElem?_set]
    by_cases ht : t = t'
    · subst ht; rw [if_pos rfl, if_pos hlt, if_pos rfl]
    · rw [if_neg ht, if_neg ht]
  refine ⟨?_, ?_, ?_⟩
  · intro th'' hm
    obtain ⟨t', ht'⟩ := List.mem_iff_getElem?.1 hm
    have ht'' : (cfg.thr.set t th')[t']? = some th'' := ht'
    rw [hget] at ht''
    have hsz : (cfg.mem.write a w').words.size = cfg.mem.words.size := by simp [write_words]
    show th''.pc = .start ∧ ∀ o ∈ th''.prog, o.isBitRmw = true ∧ o.WF W (cfg.mem.write a w').words.size
    rw [hsz]
    by_cases ht : t = t'
    · rw [if_pos ht] at ht''
      cases ht''
      refine ⟨h3, ?_⟩
      rw [h1]
      exact (h th (List.mem_of_getElem? hth)).2
    · rw [if_neg ht] at ht''
      exact h th'' (List.mem_of_getElem? ht'')
  · unfold seqRun
    rw [List.foldl_cons, List.foldl_nil, hseq]
    show ((cfg.mem.write a w').words, _) = _
    rw [write_words]
    congr 1
    funext t'
    rw [resOf_mk, hget]
    by_cases ht : t = t'
    · subst ht; rw [if_pos rfl, if_pos rfl]
    · rw [if_neg ht, if_neg (fun e => ht e.symm), resOf_def]
  · intro t' thx ht'
    by_cases ht : t = t'
    · subst ht
      rw [hth] at ht'
      cases ht'
      refine ⟨th', ?_, h1, ?_⟩
      · show (cfg.thr.set t th')[t]? = some th'
        rw [hget, if_pos rfl]
      · rw [h1, h2, List.take_add_one, ho]
        simp
    · refine ⟨thx, ?_, rfl, ?_⟩
      · show (cfg.thr.set t th')[t']? = some thx
        rw [hget, if_neg ht]; exact ht'
      · have : ((t, o).1 == t') = false := by simpa using ht
        simp [List.filter, this]

/-- what one schedule entry does to a `BitCfg`: nothing, or exactly the call `evOf` names -/
theorem bit_step {W : Nat} (cfg : Cfg) (h : BitCfg W cfg) (e : Nat × Nat) :
    BitStep W cfg (step W cfg e) (evOf cfg e.1) := by
  unfold step evOf
  cases hth : cfg.thr[e.1]? with
  | none => exact ⟨h, rfl, fun t th ht => ⟨th, ht, rfl, by simp⟩⟩
  | some th =>
    simp only []
    have hb := h th (List.mem_of_getElem? hth)
    by_cases hst : th.st = .run
    · rw [if_pos hst]
      cases hop : th.prog[th.ip]? with
      | none =>
        have : stepT W cfg.mem th e.2 = (cfg.mem, th, 0) := by
          unfold stepT; rw [if_neg (by rw [hst]; exact fun h => h rfl), hop]
        rw [this]
        exact bitStep_idle cfg h e.1 th hth
      | some o =>
        have ho := hb.2 o (List.mem_of_getElem? hop)
        simp only []
        cases o with
        | setField chk d i v => cases ho.1
        | getField chk d i => cases ho.1
        | getBit d i => cases ho.1
        | setBit d i b =>
          rw [stepT_setBit cfg.mem th e.2 d i b hst hop hb.1 ho.2]
          refine bitStep_rmw cfg h e.1 th ((th.tick e.2).succ.finish) _ (d.base + i / W)
            (bitFn W (i % W) b (cfg.mem.words.getD (d.base + i / W) 0)) hth hop rfl rfl rfl ?_
          show (_, _) = (_, _)
          congr 1
          funext t'
          by_cases ht : t' = e.1
          · subst ht
            rw [if_pos rfl]
            show cfg.resOf e.1 = _
            rw [resOf_def, hth]; rfl
          · rw [if_neg ht]
        | swapBit d i b =>
          rw [stepT_swapBit cfg.mem th e.2 d i b hst hop hb.1 ho.2]
          refine bitStep_rmw cfg h e.1 th
            (((th.tick e.2).succ.ret ((cfg.mem.words.getD (d.base + i / W) 0 >>> (i % W)) &&& 1)).finish)
            _ (d.base + i / W)
            (bitFn W (i % W) b (cfg.mem.words.getD (d.base + i / W) 0)) hth hop rfl rfl rfl ?_
          show (_, _) = (_, _)
          congr 1
          funext t'
          by_cases ht : t' = e.1
          · subst ht
            rw [if_pos rfl, if_pos rfl]
            show _ :: cfg.resOf e.1 = _
            rw [resOf_def, hth]; rfl
          · rw [if_neg ht, if_neg ht]
    · rw [if_neg hst]
      have : stepT W cfg.mem th e.2 = (cfg.mem, th, 0) := by
        unfold stepT; rw [if_pos hst]
      rw [this]
      exact bitStep_idle cfg h e.1 th hth

theorem seqRun_append (W : Nat) (s : SeqSt) (a b : List (Nat × Op)) :
    seqRun W s (a ++ b) = seqRun W (seqRun W s a) b := by
  unfold seqRun; rw [List.foldl_append]

/-- the concurrent run of bit RMWs is the sequential run of `linOf`, an interleaving of the
programs -/
theorem bit_run {W : Nat} (sched : List (Nat × Nat)) (cfg : Cfg) (h : BitCfg W cfg) :
    BitCfg W (run W cfg sched) ∧
    ((run W cfg sched).mem.words, (run W cfg sched).resOf)
      = seqRun W (cfg.mem.words, cfg.resOf) (linOf W cfg sched) ∧
    ∀ (t : Nat) (th : Thread), cfg.thr[t]? = some th → ∃ th', (run W cfg sched).thr[t]? = some th' ∧
      th'.prog = th.prog ∧
      th'.prog.take th'.ip = th.prog.take th.ip ++
        ((linOf W cfg sched).filter (fun x => x.1 == t)).map (·.2) := by
  induction sched generalizing cfg with
  | nil => exact ⟨h, rfl, fun t th ht => ⟨th, ht, rfl, by simp [linOf]⟩⟩
  | cons e es ih =>
    have hs := bit_step cfg h e
    obtain ⟨ih1, ih2, ih3⟩ := ih (step W cfg e) hs.bit
    have hrun : run W cfg (e :: es) = run W (step W cfg e) es := by
      unfold run; rw [List.foldl_cons]
    rw [hrun]
    refine ⟨ih1, ?_, ?_⟩
    · rw [ih2, hs.seq]
      show _ = seqRun W _ (evOf cfg e.1 ++ linOf W (step W cfg e) es)
      rw [seqRun_append]
    · intro t th ht
      obtain ⟨th1, ht1, hp1, hk1⟩ := hs.prog t th ht
      obtain ⟨th2, ht2, hp2, hk2⟩ := ih3 t th1 ht1
      refine ⟨th2, ht2, by rw [hp2, hp1], ?_⟩
      rw [hk2, hk1]
      show _ = _ ++ ((evOf cfg e.1 ++ linOf W (step W cfg e) es).filter _).map _
      rw [List.filter_append, List.map_append, List.append_assoc]

end Sux.Atomic
