import SuxModel.Atomic.LemmasRun
/-!
# From "distinct elements" to `Compat`, and from bits to elements
-/
namespace Sux.Atomic
open Sux.BFV

theorem pairwise_mem {α : Type} {R : α → α → Prop} (hs : ∀ a b, R a b → R b a) {l : List α}
    (h : l.Pairwise R) {a b : α} (ha : a ∈ l) (hb : b ∈ l) : a = b ∨ R a b := by
  induction l with
  | nil => cases ha
  | cons x xs ih =>
    rw [List.pairwise_cons] at h
    rcases List.mem_cons.1 ha with rfl | ha'
    · rcases List.mem_cons.1 hb with rfl | hb'
      · exact .inl rfl
      · exact .inr (h.1 _ hb')
    · rcases List.mem_cons.1 hb with rfl | hb'
      · exact .inr (hs _ _ (h.1 _ ha'))
      · exact ih h.2 ha' hb'

/-- writers of pairwise disjoint elements are compatible -/
theorem compat_of_disjoint {W : Nat} {progs : List (List Op)} (h : DisjointWrites W progs) :
    Compat W progs := by
  intro p hp o ho p' hp' o' ho' k hc hc'
  have hm : o ∈ progs.flatten := List.mem_flatten.2 ⟨p, hp, ho⟩
  have hm' : o' ∈ progs.flatten := List.mem_flatten.2 ⟨p', hp', ho'⟩
  rcases pairwise_mem (fun a b hab k hk => hab k ⟨hk.2, hk.1⟩) h hm hm' with rfl | hd
  · rfl
  · exact absurd ⟨hc, hc'⟩ (hd k)

/-- two elements of one bit-field vector with different indices occupy disjoint bit ranges -/
theorem setField_disjoint_of_ne {W : Nat} (chk chk' : Bool) (d : VecD) (i i' v v' : Nat)
    (hne : i ≠ i') (k : Nat) :
    ¬ ((Op.setField chk d i v).covers W k ∧ (Op.setField chk' d i' v').covers W k) := by
  rw [covers_setField, covers_setField]
  intro ⟨h1, h2⟩
  rcases Nat.lt_or_gt_of_ne hne with hlt | hlt
  · have := Nat.mul_le_mul_right d.bw (Nat.succ_le_of_lt hlt)
    rw [Nat.succ_mul] at this
    omega
  · have := Nat.mul_le_mul_right d.bw (Nat.succ_le_of_lt hlt)
    rw [Nat.succ_mul] at this
    omega

/-- an element all of whose bits hold the writer's bits holds the writer's value -/
theorem fieldAt_of_bits {W : Nat} (ws : Array Nat) (chk : Bool) (d : VecD) (i v : Nat)
    (hv : v < 2 ^ d.bw)
    (h : ∀ k, (Op.setField chk d i v).covers W k →
      bitAt W ws k = (Op.setField chk d i v).vbit W k) :
    fieldAt W ws (d.base * W + i * d.bw) d.bw = v := by
  unfold fieldAt
  rw [← bitsVal_testBit hv]
  apply bitsVal_congr
  intro j hj
  rw [h _ ((covers_setField chk d i v _).2 ⟨by omega, by omega⟩), vbit_setField]
  congr 1
  omega

/-- final memory under `Compat` (the body of `compat_writers_final`, `Props/C13.lean`) -/
theorem compat_writers_final_aux (W : Nat) (hW : 0 < W) (ws0 : Array Nat) (hok : WordsOK W ws0)
    (progs : List (List Op)) (hwf : ProgsWF W ws0.size progs) (hc : Compat W progs)
    (sched : List (Nat × Nat)) (hfin : (run W (Cfg.init ws0 progs) sched).AllDone) :
    (run W (Cfg.init ws0 progs) sched).mem.words.size = ws0.size ∧
    WordsOK W (run W (Cfg.init ws0 progs) sched).mem.words ∧
    (∀ p ∈ progs, ∀ o ∈ p, ∀ k, o.covers W k →
      bitAt W (run W (Cfg.init ws0 progs) sched).mem.words k = o.vbit W k) ∧
    (∀ k, Untouched W progs k →
      bitAt W (run W (Cfg.init ws0 progs) sched).mem.words k = bitAt W ws0 k) := by
  have h := inv_run hW hwf hc sched _ (inv_init W ws0 progs hok)
  exact ⟨h.size_eq, h.ok, inv_final h hfin, h.frame⟩

end Sux.Atomic
