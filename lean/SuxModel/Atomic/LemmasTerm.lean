import SuxModel.Atomic.LemmasSafe
import SuxModel.Atomic.LemmasProgress
/-!
# Termination accounting (C13, T-B): every micro-step of an active thread is either progress or
a failed compare-exchange

`progress` = number of micro-steps a thread has completed if none had failed
(`cost` per completed call + `offset` inside the current call).  For a safe, active thread every
micro-step raises `progress + nfail` by exactly one.  Together with the bound on failures
(`LemmasProgress.lean`) this bounds the number of grants an unfinished thread can have received.
-/
namespace Sux.Atomic

/-- micro-steps of a call when no compare-exchange fails -/
def Op.cost (W : Nat) : Op → Nat
  | .setField _ d i _ => if i * d.bw % W + d.bw ≤ W then 2 else 4
  | .getField _ d i => if i * d.bw % W + d.bw ≤ W then 1 else 2
  | _ => 1

/-- micro-steps already done inside the current call -/
def Pc.offset : Pc → Nat
  | .start => 0
  | .cas _ => 1
  | .casLo _ => 1
  | .ldHi => 2
  | .casHi _ => 3
  | .getHi _ => 1

def Thread.progress (W : Nat) (th : Thread) : Nat :=
  ((th.prog.take th.ip).map (Op.cost W)).sum + th.pc.offset

/-- successful RMWs a thread can have performed at its position: two per completed call -/
def Thread.rmwDone (th : Thread) : Nat := 2 * th.ip + (if th.pc.mid then 1 else 0)

/-- accounting of one micro-step of an active thread -/
structure TermAcc (W : Nat) (th th' : Thread) : Prop where
  prog : th'.prog = th.prog
  step : th'.progress W + th'.nfail = th.progress W + th.nfail + 1
  rmw : th'.nsucc + th.rmwDone ≤ th.nsucc + th'.rmwDone
  ip : th'.ip ≤ th.prog.length

theorem acc_goto {W : Nat} (th : Thread) (e : Pc) (hip : th.ip < th.prog.length)
    (hoff : e.offset = th.pc.offset + 1) (hmid : e.mid = th.pc.mid) :
    TermAcc W th (th.goto e) := by
  refine ⟨rfl, ?_, ?_, Nat.le_of_lt hip⟩
  · show ((th.prog.take th.ip).map (Op.cost W)).sum + e.offset + th.nfail = _
    unfold Thread.progress; omega
  · show th.nsucc + th.rmwDone ≤ th.nsucc + (2 * th.ip + (if e.mid then 1 else 0))
    unfold Thread.rmwDone; rw [hmid]; omega

theorem acc_failed {W : Nat} (th : Thread) (e : Pc) (hip : th.ip < th.prog.length)
    (hoff : e.offset = th.pc.offset) (hmid : e.mid = th.pc.mid) :
    TermAcc W th (th.failed e) := by
  refine ⟨rfl, ?_, ?_, Nat.le_of_lt hip⟩
  · show ((th.prog.take th.ip).map (Op.cost W)).sum + e.offset + (th.nfail + 1) = _
    unfold Thread.progress; omega
  · show th.nsucc + th.rmwDone ≤ th.nsucc + (2 * th.ip + (if e.mid then 1 else 0))
    unfold Thread.rmwDone; rw [hmid]; omega

theorem acc_succ_mid {W : Nat} (th : Thread) (cur : Nat) (hip : th.ip < th.prog.length)
    (hpc : th.pc = .casLo cur) : TermAcc W th (th.succ.goto .ldHi) := by
  refine ⟨rfl, ?_, ?_, Nat.le_of_lt hip⟩
  · show ((th.prog.take th.ip).map (Op.cost W)).sum + 2 + th.nfail = _
    unfold Thread.progress; rw [hpc]; show _ = _ + 1 + _ + 1; omega
  · show th.nsucc + 1 + th.rmwDone ≤ th.nsucc + (2 * th.ip + 1)
    unfold Thread.rmwDone; rw [hpc]; show _ + (2 * th.ip + 0) ≤ _; omega

theorem sum_take_succ (W : Nat) (l : List Op) (k : Nat) (o : Op) (h : l[k]? = some o) :
    ((l.take (k + 1)).map (Op.cost W)).sum = ((l.take k).map (Op.cost W)).sum + o.cost W := by
  rw [List.take_add_one, h]
  simp

/-- the micro-step that completes the current call -/
theorem acc_finish {W : Nat} (th th' : Thread) (o : Op) (ho : th.prog[th.ip]? = some o)
    (h1 : th'.prog = th.prog) (h2 : th'.ip = th.ip + 1) (h3 : th'.pc = .start)
    (h4 : th'.nfail = th.nfail) (h5 : th'.nsucc ≤ th.nsucc + 1)
    (hcost : o.cost W = th.pc.offset + 1) : TermAcc W th th' := by
  have hip : th.ip < th.prog.length := by
    rcases Nat.lt_or_ge th.ip th.prog.length with hl | hl
    · exact hl
    · rw [List.getElem?_eq_none hl] at ho; cases ho
  refine ⟨h1, ?_, ?_, by rw [h2]; exact hip⟩
  · unfold Thread.progress
    rw [h1, h2, h3, h4, sum_take_succ W _ _ o ho, hcost]
    show _ + 0 + _ = _
    omega
  · unfold Thread.rmwDone
    rw [h2, h3]
    show _ ≤ _ + (2 * (th.ip + 1) + 0)
    split <;> omega

open Sux.BFV in
theorem stepSetField_acc {W : Nat} (hW : 0 < W) (m : Mem) (th : Thread) (c : Nat) (chk : Bool)
    (d : VecD) (i v : Nat) (hs : th.Safe W)
    (ho : th.prog[th.ip]? = some (.setField chk d i v))
    (hwf : (Op.setField chk d i v).WF W m.words.size) :
    TermAcc W th (stepSetField W m th c chk d i v).2.1 := by
  have hip : th.ip < th.prog.length := by
    rcases Nat.lt_or_ge th.ip th.prog.length with hl | hl
    · exact hl
    · rw [List.getElem?_eq_none hl] at ho; cases ho
  obtain ⟨hst, hpc⟩ := hs
  unfold Thread.PcOK at hpc
  rw [ho] at hpc
  obtain ⟨⟨hbw, hfield, h0, hmem⟩, hv, hchk⟩ := hwf
  rw [Nat.succ_mul] at hfield
  have hwi : i * d.bw / W < d.nw :=
    field_word_lt hW hfield (fun h => ⟨by rw [h]; rfl, h0 h⟩)
  unfold stepSetField
  simp only []
  split
  · rename_i hpanic
    obtain ⟨_, hc, hbad⟩ := hpanic
    rcases hbad with hbad | hbad
    · have := hchk hc; omega
    · rw [(fits_iff W d.bw v hbw).2 hv] at hbad; cases hbad
  · split
    · rename_i hshape
      split
      · rename_i hpceq
        obtain ⟨cur, hrd⟩ := rdAt_ok m d (i * d.bw / W) c hwi hmem
        rw [hrd]
        exact acc_goto th _ hip (by rw [hpceq]; rfl) (by rw [hpceq]; rfl)
      · rename_i cur hpceq
        rcases casAt_spec m d (i * d.bw / W) cur
          ((cur &&& notW W (shlW W (maskOf W d.bw) (i * d.bw % W))) ||| shlW W v (i * d.bw % W)) c
          hwi hmem with ⟨e, hc⟩ | ⟨_, hc⟩
        · rw [hc]
          exact acc_failed th _ hip (by rw [hpceq]; rfl) (by rw [hpceq]; rfl)
        · rw [hc]
          refine acc_finish th th.succ.finish _ ho rfl rfl rfl rfl (Nat.le_refl _) ?_
          rw [hpceq]
          show (if i * d.bw % W + d.bw ≤ W then 2 else 4) = 1 + 1
          rw [if_pos hshape]
      · rename_i hn1 hn2
        exfalso
        cases hp : th.pc with
        | start => exact hn1 hp
        | cas cur => exact hn2 cur hp
        | casLo cur => rw [hp] at hpc; exact hpc hshape
        | ldHi => rw [hp] at hpc; exact hpc hshape
        | casHi cur => rw [hp] at hpc; exact hpc hshape
        | getHi lo => rw [hp] at hpc; exact hpc
    · rename_i hshape
      have hshape' : W < i * d.bw % W + d.bw := by omega
      have hwi1 : i * d.bw / W + 1 < d.nw := field_word_succ_lt hW hfield hshape'
      split
      · rename_i hpceq
        obtain ⟨cur, hrd⟩ := rdAt_ok m d (i * d.bw / W) c hwi hmem
        rw [hrd]
        exact acc_goto th _ hip (by rw [hpceq]; rfl) (by rw [hpceq]; rfl)
      · rename_i cur hpceq
        rcases casAt_spec m d (i * d.bw / W) cur
          ((cur &&& lowMask (i * d.bw % W)) ||| shlW W v (i * d.bw % W)) c
          hwi hmem with ⟨e, hc⟩ | ⟨_, hc⟩
        · rw [hc]
          exact acc_failed th _ hip (by rw [hpceq]; rfl) (by rw [hpceq]; rfl)
        · rw [hc]
          exact acc_succ_mid th cur hip hpceq
      · rename_i hpceq
        obtain ⟨cur, hrd⟩ := rdAt_ok m d (i * d.bw / W + 1) c hwi1 hmem
        rw [hrd]
        exact acc_goto th _ hip (by rw [hpceq]; rfl) (by rw [hpceq]; rfl)
      · rename_i cur hpceq
        rcases casAt_spec m d (i * d.bw / W + 1) cur
          ((cur &&& notW W (maskOf W d.bw >>> (W - i * d.bw % W))) ||| (v >>> (W - i * d.bw % W))) c
          hwi1 hmem with ⟨e, hc⟩ | ⟨_, hc⟩
        · rw [hc]
          exact acc_failed th _ hip (by rw [hpceq]; rfl) (by rw [hpceq]; rfl)
        · rw [hc]
          refine acc_finish th th.succ.finish _ ho rfl rfl rfl rfl (Nat.le_refl _) ?_
          rw [hpceq]
          show (if i * d.bw % W + d.bw ≤ W then 2 else 4) = 3 + 1
          rw [if_neg hshape]
      · rename_i hn1 hn2 hn3 hn4
        exfalso
        cases hp : th.pc with
        | start => exact hn1 hp
        | cas cur => rw [hp] at hpc; exact hshape hpc
        | casLo cur => exact hn2 cur hp
        | ldHi => exact hn3 hp
        | casHi cur => exact hn4 cur hp
        | getHi lo => rw [hp] at hpc; exact hpc

theorem stepGetField_acc {W : Nat} (hW : 0 < W) (m : Mem) (th : Thread) (c : Nat) (chk : Bool)
    (d : VecD) (i : Nat) (hs : th.Safe W)
    (ho : th.prog[th.ip]? = some (.getField chk d i))
    (hwf : (Op.getField chk d i).WF W m.words.size) :
    TermAcc W th (stepGetField W m th c chk d i).2.1 := by
  have hip : th.ip < th.prog.length := by
    rcases Nat.lt_or_ge th.ip th.prog.length with hl | hl
    · exact hl
    · rw [List.getElem?_eq_none hl] at ho; cases ho
  obtain ⟨hst, hpc⟩ := hs
  unfold Thread.PcOK at hpc
  rw [ho] at hpc
  obtain ⟨⟨hbw, hfield, h0, hmem⟩, hchk⟩ := hwf
  rw [Nat.succ_mul] at hfield
  have hwi : i * d.bw / W < d.nw :=
    BFV.field_word_lt hW hfield (fun h => ⟨by rw [h]; rfl, h0 h⟩)
  unfold stepGetField
  simp only []
  split
  · rename_i hpanic
    have := hchk hpanic.2.1
    have := hpanic.2.2
    omega
  · split
    · rename_i hshape
      split
      · rename_i hpceq
        obtain ⟨w, hrd⟩ := rdAt_ok m d (i * d.bw / W) c hwi hmem
        rw [hrd]
        refine acc_finish th (th.ret _).finish _ ho rfl rfl rfl rfl (Nat.le_succ _) ?_
        rw [hpceq]
        show (if i * d.bw % W + d.bw ≤ W then 1 else 2) = 0 + 1
        rw [if_pos hshape]
      · rename_i hn1
        exfalso
        cases hp : th.pc with
        | start => exact hn1 hp
        | cas cur => rw [hp] at hpc; exact hpc
        | casLo cur => rw [hp] at hpc; exact hpc
        | ldHi => rw [hp] at hpc; exact hpc
        | casHi cur => rw [hp] at hpc; exact hpc
        | getHi lo => rw [hp] at hpc; exact hpc hshape
    · rename_i hshape
      have hshape' : W < i * d.bw % W + d.bw := by omega
      have hwi1 : i * d.bw / W + 1 < d.nw := BFV.field_word_succ_lt hW hfield hshape'
      split
      · rename_i hpceq
        obtain ⟨lo, hrd⟩ := rdAt_ok m d (i * d.bw / W) c hwi hmem
        rw [hrd]
        exact acc_goto th _ hip (by rw [hpceq]; rfl) (by rw [hpceq]; rfl)
      · rename_i lo hpceq
        obtain ⟨hi, hrd⟩ := rdAt_ok m d (i * d.bw / W + 1) c hwi1 hmem
        rw [hrd]
        refine acc_finish th (th.ret _).finish _ ho rfl rfl rfl rfl (Nat.le_succ _) ?_
        rw [hpceq]
        show (if i * d.bw % W + d.bw ≤ W then 1 else 2) = 1 + 1
        rw [if_neg hshape]
      · rename_i hn1 hn2
        exfalso
        cases hp : th.pc with
        | start => exact hn1 hp
        | cas cur => rw [hp] at hpc; exact hpc
        | casLo cur => rw [hp] at hpc; exact hpc
        | ldHi => rw [hp] at hpc; exact hpc
        | casHi cur => rw [hp] at hpc; exact hpc
        | getHi lo => exact hn2 lo hp

theorem stepSetBit_acc {W : Nat} (m : Mem) (th : Thread) (d : VecD) (i : Nat) (b : Bool)
    (hs : th.Safe W) (ho : th.prog[th.ip]? = some (.setBit d i b))
    (hwf : d.BitOK W m.words.size i) : TermAcc W th (stepSetBit W m th d i b).2.1 := by
  have hwi : i / W < d.nw := Nat.div_lt_of_lt_mul (by have := hwf.1; have := hwf.2.1; omega)
  have hp := pc_start_of_bit hs.2 ho (fun _ _ _ _ h => by cases h) (fun _ _ _ h => by cases h)
  unfold stepSetBit
  rw [hp]
  simp only []
  rw [if_neg (by have := hwf.1; omega), rmwAt_spec m d (i / W) _ hwi hwf.2.2]
  exact acc_finish th th.succ.finish _ ho rfl rfl rfl rfl (Nat.le_refl _) (by rw [hp]; rfl)

theorem stepSwapBit_acc {W : Nat} (m : Mem) (th : Thread) (d : VecD) (i : Nat) (b : Bool)
    (hs : th.Safe W) (ho : th.prog[th.ip]? = some (.swapBit d i b))
    (hwf : d.BitOK W m.words.size i) : TermAcc W th (stepSwapBit W m th d i b).2.1 := by
  have hwi : i / W < d.nw := Nat.div_lt_of_lt_mul (by have := hwf.1; have := hwf.2.1; omega)
  have hp := pc_start_of_bit hs.2 ho (fun _ _ _ _ h => by cases h) (fun _ _ _ h => by cases h)
  unfold stepSwapBit
  rw [hp]
  simp only []
  rw [if_neg (by have := hwf.1; omega), rmwAt_spec m d (i / W) _ hwi hwf.2.2]
  exact acc_finish th (th.succ.ret _).finish _ ho rfl rfl rfl rfl (Nat.le_refl _) (by rw [hp]; rfl)

theorem stepGetBit_acc {W : Nat} (m : Mem) (th : Thread) (c : Nat) (d : VecD) (i : Nat)
    (hs : th.Safe W) (ho : th.prog[th.ip]? = some (.getBit d i))
    (hwf : d.BitOK W m.words.size i) : TermAcc W th (stepGetBit W m th c d i).2.1 := by
  have hwi : i / W < d.nw := Nat.div_lt_of_lt_mul (by have := hwf.1; have := hwf.2.1; omega)
  have hp := pc_start_of_bit hs.2 ho (fun _ _ _ _ h => by cases h) (fun _ _ _ h => by cases h)
  unfold stepGetBit
  rw [hp]
  simp only []
  rw [if_neg (by have := hwf.1; omega)]
  obtain ⟨w, hrd⟩ := rdAt_ok m d (i / W) c hwi hwf.2.2
  rw [hrd]
  exact acc_finish th (th.ret _).finish _ ho rfl rfl rfl rfl (Nat.le_succ _) (by rw [hp]; rfl)

/-- a micro-step of a safe thread: nothing if the thread is finished, otherwise exactly one unit
of `progress + nfail` -/
theorem stepT_acc {W : Nat} (hW : 0 < W) (m : Mem) (th : Thread) (c : Nat) (hs : th.Safe W)
    (hwf : ∀ o ∈ th.prog, o.WF W m.words.size) :
    (th.ip < th.prog.length → TermAcc W th (stepT W m th c).2.1) ∧
    (¬ th.ip < th.prog.length → (stepT W m th c).2.1 = th) := by
  constructor
  · intro hip
    have hop : th.prog[th.ip]? = some th.prog[th.ip] := List.getElem?_eq_getElem hip
    unfold stepT
    rw [if_neg (by rw [hs.1]; exact fun h => h rfl), hop]
    simp only []
    have hw := hwf _ (List.getElem_mem hip)
    have hs' : (th.tick c).Safe W := hs
    have hop' : (th.tick c).prog[(th.tick c).ip]? = some th.prog[th.ip] := hop
    have lift : ∀ th', TermAcc W (th.tick c) th' → TermAcc W th th' := fun th' h =>
      ⟨h.prog, h.step, h.rmw, h.ip⟩
    apply lift
    generalize th.prog[th.ip] = op at hw hop'
    cases op with
    | setField chk d i v => exact stepSetField_acc hW m _ c chk d i v hs' hop' hw
    | getField chk d i => exact stepGetField_acc hW m _ c chk d i hs' hop' hw
    | setBit d i b => exact stepSetBit_acc m _ d i b hs' hop' hw
    | swapBit d i b => exact stepSwapBit_acc m _ d i b hs' hop' hw
    | getBit d i => exact stepGetBit_acc m _ c d i hs' hop' hw
  · intro hip
    have hop : th.prog[th.ip]? = none := List.getElem?_eq_none (Nat.le_of_not_lt hip)
    unfold stepT
    rw [if_neg (by rw [hs.1]; exact fun h => h rfl), hop]

/-! ## bounds that hold at every position of a safe thread -/

theorem sum_take_le (W : Nat) (l : List Op) (k : Nat) :
    ((l.take k).map (Op.cost W)).sum ≤ (l.map (Op.cost W)).sum := by
  induction l generalizing k with
  | nil => simp
  | cons x xs ih =>
    cases k with
    | zero => simp
    | succ k =>
      simp only [List.take_succ_cons, List.map_cons, List.sum_cons]
      have := ih k
      omega

theorem cost_le (W : Nat) (o : Op) : o.cost W ≤ 4 := by
  cases o <;> simp only [Op.cost] <;> (try split) <;> omega

theorem sum_cost_le (W : Nat) (l : List Op) : (l.map (Op.cost W)).sum ≤ 4 * l.length := by
  induction l with
  | nil => simp
  | cons x xs ih =>
    simp only [List.map_cons, List.sum_cons, List.length_cons]
    have := cost_le W x
    omega

/-- inside a call (`pc ≠ start`) the call exists and the offset is below its cost -/
theorem pcOK_inside {W : Nat} {th : Thread} (h : th.PcOK W) (hne : th.pc ≠ .start) :
    ∃ o, th.prog[th.ip]? = some o ∧ th.pc.offset + 1 ≤ o.cost W := by
  unfold Thread.PcOK at h
  cases hp : th.pc with
  | start => exact absurd hp hne
  | cas cur =>
    rw [hp] at h
    cases ho : th.prog[th.ip]? with
    | none => rw [ho] at h; exact h.elim
    | some o =>
      rw [ho] at h
      cases o with
      | setField chk d i v =>
        refine ⟨_, rfl, ?_⟩
        show 1 + 1 ≤ (if i * d.bw % W + d.bw ≤ W then 2 else 4)
        have h' : i * d.bw % W + d.bw ≤ W := h
        rw [if_pos h']
        omega
      | _ => exact h.elim
  | casLo cur =>
    rw [hp] at h
    cases ho : th.prog[th.ip]? with
    | none => rw [ho] at h; exact h.elim
    | some o =>
      rw [ho] at h
      cases o with
      | setField chk d i v =>
        refine ⟨_, rfl, ?_⟩
        show 1 + 1 ≤ (if i * d.bw % W + d.bw ≤ W then 2 else 4)
        split <;> omega
      | _ => exact h.elim
  | ldHi =>
    rw [hp] at h
    cases ho : th.prog[th.ip]? with
    | none => rw [ho] at h; exact h.elim
    | some o =>
      rw [ho] at h
      cases o with
      | setField chk d i v =>
        refine ⟨_, rfl, ?_⟩
        show 2 + 1 ≤ (if i * d.bw % W + d.bw ≤ W then 2 else 4)
        have h' : ¬ i * d.bw % W + d.bw ≤ W := h
        rw [if_neg h']; omega
      | _ => exact h.elim
  | casHi cur =>
    rw [hp] at h
    cases ho : th.prog[th.ip]? with
    | none => rw [ho] at h; exact h.elim
    | some o =>
      rw [ho] at h
      cases o with
      | setField chk d i v =>
        refine ⟨_, rfl, ?_⟩
        show 3 + 1 ≤ (if i * d.bw % W + d.bw ≤ W then 2 else 4)
        have h' : ¬ i * d.bw % W + d.bw ≤ W := h
        rw [if_neg h']; omega
      | _ => exact h.elim
  | getHi lo =>
    rw [hp] at h
    cases ho : th.prog[th.ip]? with
    | none => rw [ho] at h; exact h.elim
    | some o =>
      rw [ho] at h
      cases o with
      | getField chk d i =>
        refine ⟨_, rfl, ?_⟩
        show 1 + 1 ≤ (if i * d.bw % W + d.bw ≤ W then 1 else 2)
        have h' : ¬ i * d.bw % W + d.bw ≤ W := h
        rw [if_neg h']; omega
      | _ => exact h.elim

theorem progress_le {W : Nat} {th : Thread} (h : th.PcOK W) :
    th.progress W ≤ 4 * th.prog.length := by
  unfold Thread.progress
  by_cases hne : th.pc = .start
  · rw [hne]
    have := sum_take_le W th.prog th.ip
    have := sum_cost_le W th.prog
    show _ + 0 ≤ _
    omega
  · obtain ⟨o, ho, hc⟩ := pcOK_inside h hne
    have h1 := sum_take_succ W th.prog th.ip o ho
    have h2 := sum_take_le W th.prog (th.ip + 1)
    have h3 := sum_cost_le W th.prog
    omega

theorem rmwDone_le {W : Nat} {th : Thread} (h : th.PcOK W) (hip : th.ip ≤ th.prog.length) :
    th.rmwDone ≤ 2 * th.prog.length := by
  unfold Thread.rmwDone
  by_cases hm : th.pc.mid = true
  · have hne : th.pc ≠ .start := by intro e; rw [e] at hm; cases hm
    obtain ⟨o, ho, _⟩ := pcOK_inside h hne
    have : th.ip < th.prog.length := by
      rcases Nat.lt_or_ge th.ip th.prog.length with hl | hl
      · exact hl
      · rw [List.getElem?_eq_none hl] at ho; cases ho
    rw [if_pos hm]; omega
  · rw [if_neg hm]; omega

/-! ## the global invariant: grants received = progress + failures, while unfinished -/

/-- schedule entries that grant thread `t` -/
def grants (sched : List (Nat × Nat)) (t : Nat) : Nat := (sched.filter (fun e => e.1 == t)).length

structure TermInv (W sz : Nat) (progs : List (List Op)) (g : Nat → Nat) (cfg : Cfg) : Prop where
  safe : SafeCfg W sz cfg
  progs_eq : cfg.thr.map (·.prog) = progs
  thr : ∀ (t : Nat) (th : Thread), cfg.thr[t]? = some th →
    th.ip ≤ th.prog.length ∧ th.nsucc ≤ th.rmwDone ∧ th.progress W + th.nfail ≤ g t ∧
    (th.ip < th.prog.length → th.progress W + th.nfail = g t)

theorem termInv_step {W sz : Nat} (hW : 0 < W) {progs : List (List Op)} {g : Nat → Nat} {cfg : Cfg}
    (h : TermInv W sz progs g cfg) (e : Nat × Nat) :
    TermInv W sz progs (fun t => g t + (if e.1 == t then 1 else 0)) (step W cfg e) := by
  have hsafe' := safe_step hW cfg h.safe e
  refine ⟨hsafe', ?_, ?_⟩
  · -- programs unchanged
    unfold step
    cases hth : cfg.thr[e.1]? with
    | none => exact h.progs_eq
    | some th =>
      simp only []
      have hm := h.safe.2 th (List.mem_of_getElem? hth)
      have hwf : ∀ o ∈ th.prog, o.WF W cfg.mem.words.size := by rw [h.safe.1.1]; exact hm.2
      obtain ⟨_, _, hprog, _⟩ := stepT_ok hW cfg.mem th e.2 h.safe.1.2 hwf
      rw [← h.progs_eq]
      apply List.ext_getElem?
      intro i
      rw [List.getElem?_map, List.getElem?_map, List.getElem?_set]
      by_cases hi : e.1 = i
      · subst hi
        rw [if_pos rfl]
        split
        · rw [hth]; simp only [Option.map_some]; rw [hprog]
        · rename_i hl
          rw [List.getElem?_eq_none (Nat.le_of_not_lt hl)] at hth; cases hth
      · rw [if_neg hi]
  · intro t th' hth'
    unfold step at hth'
    cases hth : cfg.thr[e.1]? with
    | none =>
      rw [hth] at hth'
      obtain ⟨a, b, c, d⟩ := h.thr t th' hth'
      exact ⟨a, b, Nat.le_trans c (Nat.le_add_right _ _), fun hip => by
        have hne : ¬ e.1 = t := by
          intro e1; rw [e1, hth'] at hth; cases hth
        have : (e.1 == t) = false := by simpa using hne
        rw [this]; simp only [Bool.false_eq_true, if_false, Nat.add_zero]; exact d hip⟩
    | some th =>
      rw [hth] at hth'
      simp only [] at hth'
      rw [List.getElem?_set] at hth'
      by_cases ht : e.1 = t
      · rw [if_pos ht] at hth'
        split at hth'
        · cases hth'
          have hbt : (e.1 == t) = true := by simpa using ht
          rw [hbt]
          simp only [if_true]
          have hm := h.safe.2 th (List.mem_of_getElem? hth)
          have hwf : ∀ o ∈ th.prog, o.WF W cfg.mem.words.size := by rw [h.safe.1.1]; exact hm.2
          obtain ⟨hact, hidle⟩ := stepT_acc hW cfg.mem th e.2 hm.1 hwf
          obtain ⟨a, b, c, d⟩ := h.thr t th (by rw [← ht]; exact hth)
          by_cases hip : th.ip < th.prog.length
          · have acc := hact hip
            have hd := d hip
            refine ⟨by rw [acc.prog]; exact acc.ip, ?_, ?_, ?_⟩
            · have := acc.rmw; omega
            · have := acc.step; omega
            · intro _; have := acc.step; omega
          · rw [hidle hip]
            exact ⟨a, b, Nat.le_trans c (Nat.le_succ _), fun hh => absurd hh hip⟩
        · cases hth'
      · rw [if_neg ht] at hth'
        have hbt : (e.1 == t) = false := by simpa using ht
        rw [hbt]
        simp only [Bool.false_eq_true, if_false, Nat.add_zero]
        exact h.thr t th' hth'

theorem grants_cons (e : Nat × Nat) (es : List (Nat × Nat)) (t : Nat) :
    grants (e :: es) t = (if e.1 == t then 1 else 0) + grants es t := by
  unfold grants
  rw [List.filter_cons]
  split <;> simp <;> omega

theorem termInv_run {W sz : Nat} (hW : 0 < W) {progs : List (List Op)} (sched : List (Nat × Nat))
    (g : Nat → Nat) (cfg : Cfg) (h : TermInv W sz progs g cfg) :
    TermInv W sz progs (fun t => g t + grants sched t) (run W cfg sched) := by
  induction sched generalizing g cfg with
  | nil =>
    have : (fun t => g t + grants [] t) = g := by funext t; simp [grants]
    rw [this]; exact h
  | cons e es ih =>
    have h1 := ih _ _ (termInv_step hW h e)
    have : (fun t => g t + grants (e :: es) t)
        = fun t => g t + (if e.1 == t then 1 else 0) + grants es t := by
      funext t; rw [grants_cons]; omega
    rw [this]
    unfold run
    rw [List.foldl_cons]
    exact h1

theorem termInv_init (W : Nat) (ws0 : Array Nat) (progs : List (List Op)) (hok : WordsOK W ws0)
    (hwf : ProgsWF W ws0.size progs) :
    TermInv W ws0.size progs (fun _ => 0) (Cfg.init ws0 progs) := by
  refine ⟨safe_init W ws0 progs hok hwf, by simp [Cfg.init, List.map_map, Function.comp_def], ?_⟩
  intro t th hth
  have hi : (Cfg.init ws0 progs).thr[t]? = (progs[t]?).map (fun p => ({ prog := p } : Thread)) := by
    simp [Cfg.init]
  rw [hi] at hth
  cases hp : progs[t]? with
  | none => rw [hp] at hth; cases hth
  | some p =>
    rw [hp] at hth
    simp only [Option.map_some, Option.some.injEq] at hth
    subst hth
    refine ⟨Nat.zero_le _, Nat.zero_le _, ?_, fun _ => ?_⟩ <;>
      simp [Thread.progress, Pc.offset]

theorem sum_map_le {α : Type} (l : List α) (f g : α → Nat) (h : ∀ x ∈ l, f x ≤ g x) :
    (l.map f).sum ≤ (l.map g).sum := by
  induction l with
  | nil => simp
  | cons x xs ih =>
    simp only [List.map_cons, List.sum_cons]
    have := h x (List.mem_cons_self)
    have := ih (fun y hy => h y (List.mem_cons_of_mem _ hy))
    omega

theorem sum_map_two_mul (l : List (List Op)) :
    (l.map (fun p => 2 * p.length)).sum = 2 * (l.map List.length).sum := by
  induction l with
  | nil => simp
  | cons x xs ih => simp only [List.map_cons, List.sum_cons]; omega

/-- a thread that has been granted more steps than `4·(its calls) + 2·(its stale choices) +
2·(all calls)` has finished -/
theorem term_final (W : Nat) (hW : 0 < W) (ws0 : Array Nat) (hok : WordsOK W ws0)
    (progs : List (List Op)) (hwf : ProgsWF W ws0.size progs) (sched : List (Nat × Nat))
    (hfair : ∀ t p, progs[t]? = some p →
      4 * p.length + 2 * staleGrants sched t + 2 * (progs.map List.length).sum < grants sched t) :
    (run W (Cfg.init ws0 progs) sched).AllDone := by
  have hinv := termInv_run hW sched _ _ (termInv_init W ws0 progs hok hwf)
  intro th hth
  obtain ⟨t, ht⟩ := List.mem_iff_getElem?.1 hth
  obtain ⟨hsafe, hpc⟩ := (hinv.safe.2 th hth).1
  obtain ⟨hip, hns, _, hact⟩ := hinv.thr t th ht
  have hp : progs[t]? = some th.prog := by
    rw [← hinv.progs_eq, List.getElem?_map, ht]; rfl
  have hf := hfair t th.prog hp
  -- total number of successful RMWs ≤ 2 · number of calls
  have htot : (run W (Cfg.init ws0 progs) sched).totSucc ≤ 2 * (progs.map List.length).sum := by
    have h2 : 2 * (progs.map List.length).sum
        = ((run W (Cfg.init ws0 progs) sched).thr.map (fun th => 2 * th.prog.length)).sum := by
      rw [← sum_map_two_mul]
      conv => lhs; rw [← hinv.progs_eq, List.map_map]
      rfl
    unfold Cfg.totSucc
    rw [h2]
    apply sum_map_le
    intro th' hth'
    obtain ⟨t', ht'⟩ := List.mem_iff_getElem?.1 hth'
    obtain ⟨hip', hns', _, _⟩ := hinv.thr t' th' ht'
    have := rmwDone_le (hinv.safe.2 th' hth').1.2 hip'
    show th'.nsucc ≤ 2 * th'.prog.length
    omega
  have hfail := failures_bounded W ws0 progs sched t th ht
  unfold Thread.done
  simp only [Bool.and_eq_true, beq_iff_eq, decide_eq_true_eq]
  refine ⟨hsafe, ?_⟩
  rcases Nat.lt_or_ge th.ip th.prog.length with hlt | hge
  · exfalso
    have h1 := hact hlt
    have h2 := progress_le hpc
    simp only [Nat.zero_add] at h1
    omega
  · omega

end Sux.Atomic
