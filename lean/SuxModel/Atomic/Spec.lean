import SuxModel.Atomic.Machine
/-!
# Specification vocabulary for C13

What a call writes (`pos`, `width`, `value` ⇒ `covers`, `vbit`), when a call is well formed for a
memory of a given size (`Op.WF`: the contract of `from_raw_parts` + the safety contract of the
unchecked calls), when two writers are compatible, and which bits a thread has already committed.
-/
namespace Sux.Atomic

/-- bit position, in the flat memory, of the element the call addresses -/
def Op.pos (W : Nat) : Op → Nat
  | .setField _ d i _ => d.base * W + i * d.bw
  | .getField _ d i => d.base * W + i * d.bw
  | .setBit d i _ => d.base * W + i
  | .swapBit d i _ => d.base * W + i
  | .getBit d i => d.base * W + i

/-- number of bits the call writes (readers write none) -/
def Op.width : Op → Nat
  | .setField _ d _ _ => d.bw
  | .setBit _ _ _ => 1
  | .swapBit _ _ _ => 1
  | _ => 0

/-- the value the call stores -/
def Op.value : Op → Nat
  | .setField _ _ _ v => v
  | .setBit _ _ b => b.toNat
  | .swapBit _ _ b => b.toNat
  | _ => 0

/-- bit `k` of the flat memory belongs to the element the call writes -/
def Op.covers (W : Nat) (o : Op) (k : Nat) : Prop := o.pos W ≤ k ∧ k < o.pos W + o.width

instance (W : Nat) (o : Op) (k : Nat) : Decidable (o.covers W k) := by
  unfold Op.covers; exact inferInstance

/-- the bit the call stores at position `k` -/
def Op.vbit (W : Nat) (o : Op) (k : Nat) : Bool := o.value.testBit (k - o.pos W)

/-- the vector is a valid `from_raw_parts` object inside a memory of `sz` words -/
def VecD.FieldOK (W sz : Nat) (d : VecD) (i : Nat) : Prop :=
  d.bw ≤ W ∧ (i + 1) * d.bw ≤ W * d.nw ∧ (d.bw = 0 → 1 ≤ d.nw) ∧ d.base + d.nw ≤ sz

def VecD.BitOK (W sz : Nat) (d : VecD) (i : Nat) : Prop :=
  i < d.len ∧ d.len ≤ W * d.nw ∧ d.base + d.nw ≤ sz

/-- the call respects its contract: the element exists inside the backing words (for the checked
calls also `index < len`, otherwise they panic) and the value fits the bit width (checked by
`set_atomic`, promised by the caller of `set_atomic_unchecked`) -/
def Op.WF (W sz : Nat) : Op → Prop
  | .setField chk d i v => d.FieldOK W sz i ∧ v < 2 ^ d.bw ∧ (chk = true → i < d.len)
  | .getField chk d i => d.FieldOK W sz i ∧ (chk = true → i < d.len)
  | .setBit d i _ => d.BitOK W sz i
  | .swapBit d i _ => d.BitOK W sz i
  | .getBit d i => d.BitOK W sz i

instance (W sz : Nat) (o : Op) : Decidable (o.WF W sz) := by
  cases o <;> (unfold Op.WF VecD.FieldOK VecD.BitOK; exact inferInstance)

/-- all calls of all threads are well formed -/
def ProgsWF (W sz : Nat) (progs : List (List Op)) : Prop := ∀ p ∈ progs, ∀ o ∈ p, o.WF W sz

/-- writers never disagree on a bit: they write disjoint elements, or the same values -/
def Compat (W : Nat) (progs : List (List Op)) : Prop :=
  ∀ p ∈ progs, ∀ o ∈ p, ∀ p' ∈ progs, ∀ o' ∈ p', ∀ k, o.covers W k → o'.covers W k →
    o.vbit W k = o'.vbit W k

/-- all calls (of all threads) write pairwise disjoint elements -/
def DisjointWrites (W : Nat) (progs : List (List Op)) : Prop :=
  progs.flatten.Pairwise (fun o o' => ∀ k, ¬ (o.covers W k ∧ o'.covers W k))

/-- no call of any thread writes bit `k` -/
def Untouched (W : Nat) (progs : List (List Op)) (k : Nat) : Prop :=
  ∀ p ∈ progs, ∀ o ∈ p, ¬ o.covers W k

/-- the thread is between the two compare-exchange loops of a two-word `set` -/
def Pc.mid : Pc → Bool
  | .ldHi => true
  | .casHi _ => true
  | _ => false

/-- bit `k` has been written by call number `j` of the thread: the call is complete, or it is the
current two-word `set`, its lower word is done, and `k` lies in the lower word -/
def Thread.commits (W : Nat) (th : Thread) (j k : Nat) : Prop :=
  ∃ o, th.prog[j]? = some o ∧ o.covers W k ∧
    (j < th.ip ∨ (j = th.ip ∧ th.pc.mid = true ∧ k / W = o.pos W / W))

/-- the returned values, oldest first -/
def Thread.results (th : Thread) : List Nat := th.res.reverse

end Sux.Atomic
