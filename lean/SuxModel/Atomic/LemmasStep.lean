import SuxModel.Atomic.LemmasStore
/-!
# The local step lemma of C13

One micro-step of one thread either leaves the memory alone, or is a successful RMW that
replaces, in the *current* contents of one word, exactly the bits `N` of the element the thread's
current call writes (`StepOK`).  Loaded values (possibly stale) never matter: a `compare_exchange`
only succeeds when the expected value is the current one.
-/
namespace Sux.Atomic
open Sux.BFV

/-! ## memory operations -/

theorem write_words (m : Mem) (a w' : Nat) : (m.write a w').words = m.words.setIfInBounds a w' := rfl

theorem loc_ok {d : VecD} {wi : Nat} (h : wi < d.nw) : d.loc wi = .ok (d.base + wi) := by
  unfold VecD.loc; rw [if_pos h]

theorem getElem?_of_lt {ws : Array Nat} {a : Nat} (h : a < ws.size) :
    ws[a]? = some (ws.getD a 0) := by
  simp [Array.getD, h]

theorem rdAt_ok (m : Mem) (d : VecD) (wi c : Nat) (h1 : wi < d.nw)
    (h2 : d.base + d.nw ≤ m.words.size) : ∃ v, rdAt m d wi c = .ok v := by
  unfold rdAt Mem.read
  rw [loc_ok h1]
  simp only
  rw [getElem?_of_lt (by omega)]
  exact ⟨_, rfl⟩

theorem casAt_spec (m : Mem) (d : VecD) (wi e new c : Nat) (h1 : wi < d.nw)
    (h2 : d.base + d.nw ≤ m.words.size) :
    (∃ v, casAt m d wi e new c = .ok (m, some v)) ∨
    (m.words.getD (d.base + wi) 0 = e ∧
      casAt m d wi e new c = .ok (m.write (d.base + wi) new, none)) := by
  unfold casAt Mem.cas
  rw [loc_ok h1]
  simp only
  rw [getElem?_of_lt (by omega)]
  simp only
  split
  · exact .inl ⟨_, rfl⟩
  · split
    · rename_i h; exact .inr ⟨h, rfl⟩
    · exact .inl ⟨_, rfl⟩

theorem rmwAt_spec (m : Mem) (d : VecD) (wi : Nat) (f : Nat → Nat) (h1 : wi < d.nw)
    (h2 : d.base + d.nw ≤ m.words.size) :
    rmwAt m d wi f = .ok (m.write (d.base + wi) (f (m.words.getD (d.base + wi) 0)),
      m.words.getD (d.base + wi) 0) := by
  unfold rmwAt Mem.rmw
  rw [loc_ok h1]
  simp only
  rw [getElem?_of_lt (by omega)]

/-! ## committed bits of a modified thread -/

theorem commits_same {W : Nat} {th th' : Thread} (h1 : th'.prog = th.prog) (h2 : th'.ip = th.ip)
    (h3 : th'.pc.mid = true → th.pc.mid = true) {j k : Nat} (h : th'.commits W j k) :
    th.commits W j k := by
  obtain ⟨o, ho, hc, hj⟩ := h
  rw [h1] at ho
  rw [h2] at hj
  refine ⟨o, ho, hc, ?_⟩
  rcases hj with hj | ⟨hj, hm, hk⟩
  · exact .inl hj
  · exact .inr ⟨hj, h3 hm, hk⟩

/-- after the current call completes: everything the call covers counts as committed -/
theorem commits_finish {W : Nat} {th th' : Thread} (h1 : th'.prog = th.prog)
    (h2 : th'.ip = th.ip + 1) (h3 : th'.pc.mid = false) {j k : Nat} (h : th'.commits W j k) :
    (∃ o, th.prog[j]? = some o ∧ o.covers W k ∧ j < th.ip) ∨
    (∃ o, th.prog[th.ip]? = some o ∧ o.covers W k ∧ j = th.ip) := by
  obtain ⟨o, ho, hc, hj⟩ := h
  rw [h1] at ho
  rw [h2] at hj
  by_cases hlt : j < th.ip
  · exact .inl ⟨o, ho, hc, hlt⟩
  · have : j = th.ip := by
      rcases hj with hj | ⟨_, hm, _⟩
      · omega
      · rw [h3] at hm; cases hm
    subst this
    exact .inr ⟨o, ho, hc, rfl⟩

/-! ## the local step lemma -/

/-- post-condition of a micro-step from `(m, th)` to `r` -/
def StepOK (W : Nat) (m : Mem) (th : Thread) (r : StepR) : Prop :=
  r.1.words.size = m.words.size ∧ WordsOK W r.1.words ∧ r.2.1.prog = th.prog ∧
  ∃ N : Nat → Prop,
    (∀ k, N k → ∃ o, th.prog[th.ip]? = some o ∧ o.covers W k ∧ bitAt W r.1.words k = o.vbit W k) ∧
    (∀ k, ¬ N k → bitAt W r.1.words k = bitAt W m.words k) ∧
    (∀ j k, r.2.1.commits W j k → th.commits W j k ∨ N k)

/-- a micro-step that does not touch the memory and does not complete anything -/
theorem StepOK_silent {W : Nat} {m : Mem} {th th' : Thread} (hok : WordsOK W m.words)
    (h1 : th'.prog = th.prog) (h2 : th'.ip = th.ip) (h3 : th'.pc.mid = true → th.pc.mid = true)
    (site : Nat) : StepOK W m th (m, th', site) :=
  ⟨rfl, hok, h1, fun _ => False, fun _ h => h.elim, fun _ _ => rfl,
    fun _ _ h => .inl (commits_same h1 h2 h3 h)⟩

theorem StepOK_fault {W : Nat} {m : Mem} {th : Thread} (hok : WordsOK W m.words) (s : Status)
    (site : Nat) : StepOK W m th (m, th.fault s, site) :=
  StepOK_silent (th := th) (th' := th.fault s) hok rfl rfl (fun h => h) site

theorem StepOK_goto {W : Nat} {m : Mem} {th : Thread} (hok : WordsOK W m.words) (e : Pc)
    (h : e.mid = true → th.pc.mid = true) (site : Nat) : StepOK W m th (m, th.goto e, site) :=
  StepOK_silent (th := th) (th' := th.goto e) hok rfl rfl h site

theorem StepOK_failed {W : Nat} {m : Mem} {th : Thread} (hok : WordsOK W m.words) (e : Pc)
    (h : e.mid = true → th.pc.mid = true) (site : Nat) : StepOK W m th (m, th.failed e, site) :=
  StepOK_silent (th := th) (th' := th.failed e) hok rfl rfl h site

/-- a reader that completes: it covers no bit -/
theorem StepOK_reader {W : Nat} {m : Mem} {th th' : Thread} (hok : WordsOK W m.words)
    (h1 : th'.prog = th.prog) (h2 : th'.ip = th.ip + 1) (h3 : th'.pc.mid = false) {o : Op}
    (ho : th.prog[th.ip]? = some o) (hw : o.width = 0) (site : Nat) :
    StepOK W m th (m, th', site) := by
  refine ⟨rfl, hok, h1, fun _ => False, fun _ h => h.elim, fun _ _ => rfl, fun j k h => ?_⟩
  rcases commits_finish h1 h2 h3 h with ⟨o', ho', hc, hj⟩ | ⟨o', ho', hc, _⟩
  · exact .inl ⟨o', ho', hc, .inl hj⟩
  · rw [ho] at ho'
    cases ho'
    unfold Op.covers at hc
    omega

end Sux.Atomic

namespace Sux.Atomic
open Sux.BFV

/-- `N ⊆ covers`, stated for the pieces of a `StepOK` proof -/
theorem covers_setField {W : Nat} (chk : Bool) (d : VecD) (i v k : Nat) :
    (Op.setField chk d i v).covers W k ↔
      d.base * W + i * d.bw ≤ k ∧ k < d.base * W + i * d.bw + d.bw := Iff.rfl

theorem vbit_setField {W : Nat} (chk : Bool) (d : VecD) (i v k : Nat) :
    (Op.setField chk d i v).vbit W k = v.testBit (k - (d.base * W + i * d.bw)) := rfl

theorem stepSetField_ok {W : Nat} (hW : 0 < W) (m : Mem) (th : Thread) (c : Nat) (chk : Bool)
    (d : VecD) (i v : Nat) (hok : WordsOK W m.words)
    (ho : th.prog[th.ip]? = some (.setField chk d i v))
    (hwf : (Op.setField chk d i v).WF W m.words.size) :
    StepOK W m th (stepSetField W m th c chk d i v) := by
  obtain ⟨⟨hbw, hfield, h0, hmem⟩, hv, _⟩ := hwf
  rw [Nat.succ_mul] at hfield
  have hpd : (d.base * W + i * d.bw) / W = d.base + i * d.bw / W := flat_div hW _ _
  have hpm : (d.base * W + i * d.bw) % W = i * d.bw % W := flat_mod _ _ _
  have hwi : i * d.bw / W < d.nw :=
    field_word_lt hW hfield (fun h => ⟨by rw [h]; rfl, h0 h⟩)
  unfold stepSetField
  simp only []
  split
  · -- a failing check: the call panics
    exact StepOK_fault hok _ _
  · split
    · -- one-word field
      rename_i hshape
      split
      · -- load
        split
        · exact StepOK_goto hok _ (by intro h; cases h) _
        · exact StepOK_fault hok _ _
      · -- compare_exchange
        rename_i cur hpc
        rcases casAt_spec m d (i * d.bw / W) cur
          ((cur &&& notW W (shlW W (maskOf W d.bw) (i * d.bw % W))) ||| shlW W v (i * d.bw % W)) c
          hwi hmem with ⟨e, hc⟩ | ⟨hcur, hc⟩
        · rw [hc]
          exact StepOK_failed hok _ (by intro h; cases h) _
        · rw [hc]
          simp only []
          have hb := set_store_one hW m.words hok (d.base * W + i * d.bw) d.bw v
            (by rw [hpm]; exact hshape) (by rw [hpd]; omega) hv
          rw [hpd, hpm] at hb
          rw [hcur, ← maskOf_eq W d.bw hbw] at hb
          refine ⟨by simp [write_words], ?_, rfl, (Op.setField chk d i v).covers W, ?_, ?_, ?_⟩
          · rw [write_words]
            apply WordsOK_setIfInBounds hok
            rw [maskOf_eq W d.bw hbw]
            exact set_one_lt _ _ _ _ (by rw [← hcur]; exact getD_lt hok _)
          · intro k hk
            refine ⟨_, ho, hk, ?_⟩
            rw [write_words, hb k, if_pos ((covers_setField chk d i v k).1 hk)]
            rfl
          · intro k hk
            rw [write_words, hb k, if_neg (fun h => hk ((covers_setField chk d i v k).2 h))]
          · intro j k h
            have h' : (th.succ.finish).commits W j k := h
            rcases commits_finish (th := th) (th' := th.succ.finish) rfl rfl rfl h' with
              ⟨o', ho', hc', hj⟩ | ⟨o', ho', hc', _⟩
            · exact .inl ⟨o', ho', hc', .inl hj⟩
            · rw [ho] at ho'; cases ho'; exact .inr hc'
      · exact StepOK_fault hok _ _
    · -- two-word field
      rename_i hshape
      have hshape' : W < i * d.bw % W + d.bw := by omega
      have hwi1 : i * d.bw / W + 1 < d.nw := field_word_succ_lt hW hfield hshape'
      split
      · split
        · exact StepOK_goto hok _ (by intro h; cases h) _
        · exact StepOK_fault hok _ _
      · -- compare_exchange on the lower word
        rename_i cur hpc
        rcases casAt_spec m d (i * d.bw / W) cur
          ((cur &&& lowMask (i * d.bw % W)) ||| shlW W v (i * d.bw % W)) c
          hwi hmem with ⟨e, hc⟩ | ⟨hcur, hc⟩
        · rw [hc]
          exact StepOK_failed hok _ (by intro h; cases h) _
        · rw [hc]
          simp only []
          have hb := set_store_lo hW m.words hok (d.base * W + i * d.bw) d.bw v
            (by rw [hpm]; exact hshape') (by rw [hpd]; omega)
          rw [hpd, hpm] at hb
          rw [hcur] at hb
          refine ⟨by simp [write_words], ?_, rfl,
            fun k => (Op.setField chk d i v).covers W k ∧ k / W = d.base + i * d.bw / W, ?_, ?_, ?_⟩
          · rw [write_words]
            apply WordsOK_setIfInBounds hok
            exact set_lo_lt _ _ _ (by rw [← hcur]; exact getD_lt hok _)
          · intro k hk
            refine ⟨_, ho, hk.1, ?_⟩
            rw [write_words, hb k, if_pos ⟨(covers_setField chk d i v k).1 hk.1, hk.2⟩]
            rfl
          · intro k hk
            rw [write_words, hb k,
              if_neg (fun h => hk ⟨(covers_setField chk d i v k).2 h.1, h.2⟩)]
          · intro j k h
            obtain ⟨o', ho', hc', hj⟩ := h
            rcases hj with hj | ⟨hj, _, hkw⟩
            · exact .inl ⟨o', ho', hc', .inl hj⟩
            · have hj' : j = th.ip := hj
              subst hj'
              have ho'' : th.prog[th.ip]? = some o' := ho'
              rw [ho] at ho''; cases ho''
              refine .inr ⟨hc', ?_⟩
              rw [hkw]; exact hpd
      · -- load of the upper word
        rename_i hpc
        split
        · exact StepOK_goto hok _ (fun _ => by rw [hpc]; rfl) _
        · exact StepOK_fault hok _ _
      · -- compare_exchange on the upper word
        rename_i cur hpc
        rcases casAt_spec m d (i * d.bw / W + 1) cur
          ((cur &&& notW W (maskOf W d.bw >>> (W - i * d.bw % W))) ||| (v >>> (W - i * d.bw % W))) c
          hwi1 hmem with ⟨e, hc⟩ | ⟨hcur, hc⟩
        · rw [hc]
          exact StepOK_failed hok _ (fun _ => by rw [hpc]; rfl) _
        · rw [hc]
          simp only []
          have hb := set_store_hi hW m.words hok (d.base * W + i * d.bw) d.bw v hbw
            (by rw [hpm]; exact hshape') (by rw [hpd]; omega) hv
          rw [hpd, hpm] at hb
          rw [Nat.add_assoc, hcur, ← maskOf_eq W d.bw hbw] at hb
          refine ⟨by simp [write_words], ?_, rfl,
            fun k => (Op.setField chk d i v).covers W k ∧ ¬ k / W = d.base + i * d.bw / W, ?_, ?_, ?_⟩
          · rw [write_words]
            apply WordsOK_setIfInBounds hok
            rw [maskOf_eq W d.bw hbw]
            exact set_two_hi_lt _ _ _ _ hbw hv (by rw [← hcur]; exact getD_lt hok _)
          · intro k hk
            refine ⟨_, ho, hk.1, ?_⟩
            rw [write_words, hb k, if_pos ⟨(covers_setField chk d i v k).1 hk.1, hk.2⟩]
            rfl
          · intro k hk
            rw [write_words, hb k,
              if_neg (fun h => hk ⟨(covers_setField chk d i v k).2 h.1, h.2⟩)]
          · intro j k h
            have h' : (th.succ.finish).commits W j k := h
            rcases commits_finish (th := th) (th' := th.succ.finish) rfl rfl rfl h' with
              ⟨o', ho', hc', hj⟩ | ⟨o', ho', hc', hj⟩
            · exact .inl ⟨o', ho', hc', .inl hj⟩
            · rw [ho] at ho'; cases ho'
              by_cases hkw : k / W = d.base + i * d.bw / W
              · refine .inl ⟨_, by rw [hj]; exact ho, hc', .inr ⟨hj, by rw [hpc]; rfl, ?_⟩⟩
                rw [hkw]; exact hpd.symm
              · exact .inr ⟨hc', hkw⟩
      · exact StepOK_fault hok _ _

end Sux.Atomic

namespace Sux.Atomic
open Sux.BFV

theorem stepGetField_ok {W : Nat} (m : Mem) (th : Thread) (c : Nat) (chk : Bool)
    (d : VecD) (i : Nat) (hok : WordsOK W m.words)
    (ho : th.prog[th.ip]? = some (.getField chk d i)) :
    StepOK W m th (stepGetField W m th c chk d i) := by
  unfold stepGetField
  simp only []
  split
  · exact StepOK_fault hok _ _
  · split
    · split
      · split
        · exact StepOK_reader (th := th) (th' := (th.ret _).finish) hok rfl rfl rfl ho rfl _
        · exact StepOK_fault hok _ _
      · exact StepOK_fault hok _ _
    · split
      · split
        · exact StepOK_goto hok _ (by intro h; cases h) _
        · exact StepOK_fault hok _ _
      · split
        · exact StepOK_reader (th := th) (th' := (th.ret _).finish) hok rfl rfl rfl ho rfl _
        · exact StepOK_fault hok _ _
      · exact StepOK_fault hok _ _

theorem stepGetBit_ok {W : Nat} (m : Mem) (th : Thread) (c : Nat) (d : VecD) (i : Nat)
    (hok : WordsOK W m.words) (ho : th.prog[th.ip]? = some (.getBit d i)) :
    StepOK W m th (stepGetBit W m th c d i) := by
  unfold stepGetBit
  split
  · split
    · exact StepOK_fault hok _ _
    · split
      · exact StepOK_reader (th := th) (th' := (th.ret _).finish) hok rfl rfl rfl ho rfl _
      · exact StepOK_fault hok _ _
  · exact StepOK_fault hok _ _

/-- a completed one-bit RMW of the current call `o` at flat position `o.pos` -/
theorem StepOK_bitRmw {W : Nat} (hW : 0 < W) (m : Mem) (th th' : Thread) (o : Op) (d : VecD)
    (i : Nat) (b : Bool) (site : Nat) (hok : WordsOK W m.words) (ho : th.prog[th.ip]? = some o)
    (hpos : o.pos W = d.base * W + i) (hwidth : o.width = 1) (hval : o.value = b.toNat)
    (hwf : d.BitOK W m.words.size i)
    (h1 : th'.prog = th.prog) (h2 : th'.ip = th.ip + 1) (h3 : th'.pc.mid = false) :
    StepOK W m th
      (m.write (d.base + i / W) (bitFn W (i % W) b (m.words.getD (d.base + i / W) 0)), th', site) := by
  obtain ⟨hi, hlen, hmem⟩ := hwf
  have hpd : (d.base * W + i) / W = d.base + i / W := flat_div hW _ _
  have hpm : (d.base * W + i) % W = i % W := flat_mod _ _ _
  have hwi : i / W < d.nw := Nat.div_lt_of_lt_mul (by omega)
  have hb := set_store_bit hW m.words hok (d.base * W + i) b (by rw [hpd]; omega)
  rw [hpd, hpm] at hb
  have hcov : ∀ k, o.covers W k ↔ k = d.base * W + i := by
    intro k; unfold Op.covers; rw [hpos, hwidth]; omega
  refine ⟨by simp [write_words], ?_, h1, o.covers W, ?_, ?_, ?_⟩
  · rw [write_words]
    apply WordsOK_setIfInBounds hok
    exact bitFn_lt _ _ _ (Nat.mod_lt _ hW) (getD_lt hok _)
  · intro k hk
    refine ⟨o, ho, hk, ?_⟩
    have hk' := (hcov k).1 hk
    rw [write_words, hb k, if_pos hk']
    unfold Op.vbit
    rw [hpos, hval, hk', Nat.sub_self]
    cases b <;> rfl
  · intro k hk
    rw [write_words, hb k, if_neg (fun h => hk ((hcov k).2 h))]
  · intro j k h
    rcases commits_finish h1 h2 h3 h with ⟨o', ho', hc', hj⟩ | ⟨o', ho', hc', _⟩
    · exact .inl ⟨o', ho', hc', .inl hj⟩
    · rw [ho] at ho'; cases ho'; exact .inr hc'

theorem stepSetBit_ok {W : Nat} (hW : 0 < W) (m : Mem) (th : Thread) (d : VecD) (i : Nat)
    (b : Bool) (hok : WordsOK W m.words) (ho : th.prog[th.ip]? = some (.setBit d i b))
    (hwf : d.BitOK W m.words.size i) : StepOK W m th (stepSetBit W m th d i b) := by
  have hwi : i / W < d.nw := Nat.div_lt_of_lt_mul (by have := hwf.1; have := hwf.2.1; omega)
  unfold stepSetBit
  split
  · split
    · exact StepOK_fault hok _ _
    · rw [rmwAt_spec m d (i / W) _ hwi hwf.2.2]
      exact StepOK_bitRmw hW m th th.succ.finish _ d i b 31 hok ho rfl rfl rfl hwf rfl rfl rfl
  · exact StepOK_fault hok _ _

theorem stepSwapBit_ok {W : Nat} (hW : 0 < W) (m : Mem) (th : Thread) (d : VecD) (i : Nat)
    (b : Bool) (hok : WordsOK W m.words) (ho : th.prog[th.ip]? = some (.swapBit d i b))
    (hwf : d.BitOK W m.words.size i) : StepOK W m th (stepSwapBit W m th d i b) := by
  have hwi : i / W < d.nw := Nat.div_lt_of_lt_mul (by have := hwf.1; have := hwf.2.1; omega)
  unfold stepSwapBit
  split
  · split
    · exact StepOK_fault hok _ _
    · rw [rmwAt_spec m d (i / W) _ hwi hwf.2.2]
      exact StepOK_bitRmw hW m th (th.succ.ret _).finish _ d i b 32 hok ho rfl rfl rfl hwf rfl rfl rfl
  · exact StepOK_fault hok _ _

theorem commits_tick {W : Nat} (th : Thread) (c j k : Nat) :
    (th.tick c).commits W j k ↔ th.commits W j k := Iff.rfl

/-- **local step lemma**: any micro-step of a thread whose calls are well formed -/
theorem stepT_ok {W : Nat} (hW : 0 < W) (m : Mem) (th : Thread) (c : Nat)
    (hok : WordsOK W m.words) (hwf : ∀ o ∈ th.prog, o.WF W m.words.size) :
    StepOK W m th (stepT W m th c) := by
  unfold stepT
  split
  · exact StepOK_silent hok rfl rfl (fun h => h) 0
  · split
    · exact StepOK_silent hok rfl rfl (fun h => h) 0
    · rename_i op hop
      have hmem : op ∈ th.prog := List.mem_of_getElem? hop
      have hw := hwf op hmem
      have key : StepOK W m (th.tick c) (stepOp W m (th.tick c) c op) := by
        have hop' : (th.tick c).prog[(th.tick c).ip]? = some op := hop
        cases op with
        | setField chk d i v => exact stepSetField_ok hW m _ c chk d i v hok hop' hw
        | getField chk d i => exact stepGetField_ok m _ c chk d i hok hop'
        | setBit d i b => exact stepSetBit_ok hW m _ d i b hok hop' hw
        | swapBit d i b => exact stepSwapBit_ok hW m _ d i b hok hop' hw
        | getBit d i => exact stepGetBit_ok m _ c d i hok hop'
      exact key

end Sux.Atomic
