import SuxModel.Atomic.EF
import SuxModel.Atomic.LemmasStore
import SuxModel.BitFieldVec.LemmasEq
/-!
# The sequential Elias–Fano builder, bit by bit (C13)

After pushing `x 0, …, x (c-1)`: bit `k` of `low_bits` is bit `k - i·l` of `x i & mask` if
`i·l ≤ k < (i+1)·l` for some `i < c` and 0 otherwise; bit `k` of `high_bits` is 1 iff
`k = (x i >> l) + i` for some `i < c`.
-/
namespace Sux.Atomic
open Sux.BFV

theorem efL_lt (n u : Nat) (hu : u < 2 ^ 64) : efL n u < 64 := by
  unfold efL
  split
  · rename_i h
    have h1 : u / n ≠ 0 := by
      have : n ≤ u := h.2
      have := Nat.div_pos this h.1
      omega
    rw [Nat.log2_lt h1]
    exact Nat.lt_of_le_of_lt (Nat.div_le_self u n) hu
  · decide

/-- `BFV.set` with in-range index and fitting value: exactly the element's bits change -/
theorem bfv_set_bits (s : St) (h : s.Inv 64) (i v : Nat) (hi : i < s.len) (hv : v < 2 ^ s.bw) :
    ∃ s', BFV.set 64 s i v = .ok s' ∧ s'.Inv 64 ∧ s'.bw = s.bw ∧ s'.len = s.len ∧
      s'.words.size = s.words.size ∧
      ∀ k, bitAt 64 s'.words k =
        if i * s.bw ≤ k ∧ k < (i + 1) * s.bw then v.testBit (k - i * s.bw) else bitAt 64 s.words k := by
  have hi' : (i + 1) * s.bw ≤ 64 * s.words.size :=
    Nat.le_trans (succ_mul_le_of_lt hi) h.2.1
  obtain ⟨s', e, hlen, hbw, hsz, hok, hbits⟩ := setU_of_inv 64 (by decide) s h i v hi' hv
  refine ⟨s', ?_, ⟨by rw [hbw]; exact h.1, by rw [hlen, hbw, hsz]; exact h.2.1,
    by rw [hsz]; exact h.2.2.1, hok⟩, hbw, hlen, hsz, hbits⟩
  unfold BFV.set
  rw [if_neg (by omega)]
  have : fits 64 s.bw v = true := (fits_iff 64 s.bw v h.1).2 hv
  rw [this]
  exact e

/-- `BV.set i true` with `i` in range: exactly bit `i` changes -/
theorem bv_set_bits (s : BV.St) (hlen : s.len ≤ 64 * s.words.size) (hok : WordsOK 64 s.words)
    (i : Nat) (hi : i < s.len) :
    ∃ s', BV.set s i true = .ok s' ∧ s'.len = s.len ∧ s'.words.size = s.words.size ∧
      WordsOK 64 s'.words ∧
      ∀ k, bitAt 64 s'.words k = if k = i then true else bitAt 64 s.words k := by
  have hw : i / 64 < s.words.size := Nat.div_lt_of_lt_mul (by omega)
  refine ⟨{ s with words :=
      (s.words.setIfInBounds (i / 64) (bitFn 64 (i % 64) true (s.words.getD (i / 64) 0))) },
    ?_, rfl, by simp, ?_, ?_⟩
  · unfold BV.set BV.setU
    rw [if_neg (by omega)]
    simp only [bind, Out.bind, pure]
    rw [readU_of_lt _ _ hw]
    rfl
  · exact WordsOK_setIfInBounds hok _ _ (bitFn_lt _ _ _ (Nat.mod_lt _ (by decide)) (getD_lt hok _))
  · intro k
    exact set_store_bit (by decide) s.words hok i true hw k

/-- state of the sequential builder after `c` pushes of the values `x 0, x 1, …` -/
structure EfGood (n u : Nat) (x : Nat → Nat) (c : Nat) (b : EfSeq) : Prop where
  count : b.count = c
  last : b.last = if c = 0 then 0 else x (c - 1)
  lowInv : b.low.Inv 64
  lowBw : b.low.bw = efL n u
  lowLen : b.low.len = n
  lowSize : b.low.words.size = (efLow 64 n u).nw
  highLen : b.high.len = n + (u >>> efL n u) + 1
  highSize : b.high.words.size = (efHigh 64 n u).nw
  highOK : WordsOK 64 b.high.words
  lowSet : ∀ i k, i < c → i * efL n u ≤ k → k < (i + 1) * efL n u →
    bitAt 64 b.low.words k = (x i &&& lowMask (efL n u)).testBit (k - i * efL n u)
  lowClear : ∀ k, (∀ i, i < c → ¬ (i * efL n u ≤ k ∧ k < (i + 1) * efL n u)) →
    bitAt 64 b.low.words k = false
  highSet : ∀ i, i < c → bitAt 64 b.high.words ((x i >>> efL n u) + i) = true
  highClear : ∀ k, (∀ i, i < c → k ≠ (x i >>> efL n u) + i) → bitAt 64 b.high.words k = false

theorem bv_new_words (len : Nat) :
    (BV.new len).len = len ∧ (BV.new len).words.size = (len + 63) / 64 ∧
    WordsOK 64 (BV.new len).words ∧ ∀ k, bitAt 64 (BV.new len).words k = false := by
  have hget : ∀ i, (BV.new len).words.getD i 0 = 0 := by
    intro i
    unfold BV.new BV.withValue
    simp only [Bool.false_eq_true, if_false]
    split
    · rw [getD_setIfInBounds]
      split
      · exact Nat.zero_shiftRight _
      · exact getD_replicate_zero _ _
    · exact getD_replicate_zero _ _
  refine ⟨rfl, ?_, ?_, ?_⟩
  · unfold BV.new BV.withValue
    simp only [Bool.false_eq_true, if_false]
    split <;> simp
  · intro i hi
    have := hget i
    rw [getD_of_lt _ _ hi] at this
    rw [this]; exact Nat.two_pow_pos 64
  · intro k; unfold bitAt; rw [hget]; simp

theorem efGood_new (n u : Nat) (x : Nat → Nat) (hu : u < 2 ^ 64) :
    EfGood n u x 0 (efSeqNew n u) := by
  have hl := efL_lt n u hu
  obtain ⟨h1, h2, h3, h4⟩ := bv_new_words (n + (u >>> efL n u) + 1)
  refine ⟨rfl, rfl, new_inv (by decide) _ _ (by omega), rfl, rfl, ?_, h1, ?_, h3, ?_, ?_, ?_, ?_⟩
  · simp [efSeqNew, BFV.new, efLow]
  · rw [show (efSeqNew n u).high = BV.new (n + (u >>> efL n u) + 1) from rfl, h2]
    simp [efHigh]
  · intro i k hi; omega
  · intro k _
    exact bitAt_replicate_zero _ _ _
  · intro i hi; omega
  · intro k _
    exact h4 k

/-- one `push` -/
theorem efGood_push (n u : Nat) (x : Nat → Nat) (hu : u < 2 ^ 64) (c : Nat) (b : EfSeq)
    (h : EfGood n u x c b) (hc : c < n) (hle : x c ≤ u) (hmono : c ≠ 0 → x (c - 1) ≤ x c) :
    ∃ b', efSeqPush n u b (x c) = .ok b' ∧ EfGood n u x (c + 1) b' := by
  have hl := efL_lt n u hu
  have hv : x c &&& lowMask (efL n u) < 2 ^ b.low.bw := by
    rw [h.lowBw]
    unfold lowMask
    rw [Nat.and_two_pow_sub_one_eq_mod]
    exact Nat.mod_lt _ (Nat.two_pow_pos _)
  obtain ⟨low', e1, hinv', hbw', hlen', hsz', hbits'⟩ :=
    bfv_set_bits b.low h.lowInv c (x c &&& lowMask (efL n u)) (by rw [h.lowLen]; exact hc) hv
  have hq : (x c >>> efL n u) + c < b.high.len := by
    rw [h.highLen]
    have : x c >>> efL n u ≤ u >>> efL n u := by
      rw [Nat.shiftRight_eq_div_pow, Nat.shiftRight_eq_div_pow]
      exact Nat.div_le_div_right hle
    omega
  have hhl : b.high.len ≤ 64 * b.high.words.size := by
    rw [h.highLen, h.highSize]
    simp only [efHigh]
    omega
  obtain ⟨high', e2, hlen2, hsz2, hok2, hbits2⟩ :=
    bv_set_bits b.high hhl h.highOK _ hq
  refine ⟨{ low := low', high := high', last := x c, count := b.count + 1 }, ?_, ?_⟩
  · unfold efSeqPush
    rw [if_neg (by rw [h.count]; omega), if_neg (by omega)]
    rw [if_neg (by
      rw [h.last]
      split
      · omega
      · rename_i h0; have := hmono h0; omega)]
    simp only []
    rw [h.count, e1]
    simp only []
    rw [e2]
  · rw [h.lowBw] at hbits'
    refine ⟨by show b.count + 1 = c + 1; rw [h.count], by simp, hinv', by rw [hbw', h.lowBw],
      by rw [hlen', h.lowLen], by rw [hsz', h.lowSize], by rw [hlen2, h.highLen],
      by rw [hsz2, h.highSize], hok2, ?_, ?_, ?_, ?_⟩
    · intro i k hi hk1 hk2
      show bitAt 64 low'.words k = _
      rw [hbits' k]
      by_cases hic : i = c
      · subst hic
        rw [if_pos ⟨hk1, hk2⟩]
      · have hlt : i < c := by omega
        have := Nat.mul_le_mul_right (efL n u) (show i + 1 ≤ c from hlt)
        rw [if_neg (by omega)]
        exact h.lowSet i k hlt hk1 hk2
    · intro k hk
      show bitAt 64 low'.words k = _
      rw [hbits' k, if_neg (hk c (by omega))]
      exact h.lowClear k (fun i hi => hk i (by omega))
    · intro i hi
      show bitAt 64 high'.words _ = _
      rw [hbits2]
      split
      · rfl
      · by_cases hic : i = c
        · subst hic; rename_i hne; exact absurd rfl hne
        · exact h.highSet i (by omega)
    · intro k hk
      show bitAt 64 high'.words _ = _
      rw [hbits2, if_neg (hk c (by omega))]
      exact h.highClear k (fun i hi => hk i (by omega))

/-- pushing `x c, …, x (c+m-1)` -/
theorem efGood_pushAll (n u : Nat) (x : Nat → Nat) (hu : u < 2 ^ 64)
    (hle : ∀ i, i < n → x i ≤ u) (hmono : ∀ i, i + 1 < n → x i ≤ x (i + 1)) :
    ∀ (m c : Nat) (b : EfSeq), EfGood n u x c b → c + m ≤ n →
      ∃ b', efSeqPushAll n u b ((List.range' c m).map x) = .ok b' ∧ EfGood n u x (c + m) b' := by
  intro m
  induction m with
  | zero => intro c b h _; exact ⟨b, rfl, h⟩
  | succ m ih =>
    intro c b h hcm
    obtain ⟨b1, e1, h1⟩ := efGood_push n u x hu c b h (by omega) (hle c (by omega))
      (fun h0 => by
        have := hmono (c - 1) (by omega)
        rwa [Nat.sub_add_cancel (by omega)] at this)
    obtain ⟨b2, e2, h2⟩ := ih (c + 1) b1 h1 (by omega)
    refine ⟨b2, ?_, by rw [← Nat.add_assoc] at *; rwa [Nat.add_right_comm] ⟩
    rw [List.range'_succ, List.map_cons]
    show (match efSeqPush n u b (x c) with
      | .ok b' => efSeqPushAll n u b' ((List.range' (c + 1) m).map x)
      | .panic => .panic
      | .oob => .oob) = _
    rw [e1]
    exact e2

end Sux.Atomic
