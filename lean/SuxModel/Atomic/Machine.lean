import SuxModel.Base.Bits
import SuxModel.BitFieldVec.Model
/-!
# Interleaving machine for the atomic vectors (C13)

Sources mirrored: `AtomicBitFieldVec::{get_atomic, get_atomic_unchecked, set_atomic,
set_atomic_unchecked}` (src/bits/bit_field_vec.rs), `AtomicBitVec::{get, set, swap}`
(src/bits/bit_vec.rs), `EliasFanoConcurrentBuilder::{new, set}` (src/dict/elias_fano.rs).

* Shared memory (`Mem`) is flat: `words[a]` is the current (latest in modification order) value
  of location `a`, `old[a]` the earlier values, newest first.  Several vectors live in the same
  memory; a `VecD` says where (`base`, `nw` words) and how (`bw`, `len`).
* A thread runs a program (`List Op`); every call is compiled to micro-steps that follow the
  source: one micro-step per atomic memory operation, i.e. per `sched_point` site of the
  instrumented source (sites 1, 2, 10, 11, 20–23, 30–32).  Local computation between two atomic
  operations belongs to the micro-step of the *preceding* operation.  Two kinds of micro-step
  have no `sched_point` of their own and report site 0: a failing bounds/value check
  (`panic!` before any atomic operation) and the second load of a two-word `get`.
* A schedule is a list of `(thread id, choice)`.  `choice` resolves memory-model
  non-determinism: a plain `load` returns the value `choice` positions back in the location's
  history (0 = latest; relaxed loads may be stale).  `fetch_or` / `fetch_and` and *successful*
  `compare_exchange` always act on the latest value.  A *failed* `compare_exchange` is a load;
  it may also have read a stale value: with `choice ≠ 0` it fails returning that stale value
  whenever the stale value differs from the expected one.  With `choice = 0` everywhere the
  machine is the sequentially consistent interleaving semantics (this is what the real runs
  under the token-passing scheduler exhibit).
* Fences are no-ops: the machine has per-location coherence only, which is all the theorems use.
-/
namespace Sux.Atomic

/-- where a vector lives in the flat memory, and its shape -/
structure VecD where
  /-- index of its first word -/
  base : Nat
  /-- number of backing words -/
  nw : Nat
  /-- `bit_width` (unused by `AtomicBitVec`) -/
  bw : Nat
  len : Nat
deriving Repr, DecidableEq, Inhabited

/-- one call on a shared vector -/
inductive Op where
  /-- `set_atomic` (`chk = true`: bounds and value checks first) / `set_atomic_unchecked` -/
  | setField (chk : Bool) (d : VecD) (i v : Nat)
  /-- `get_atomic` / `get_atomic_unchecked` -/
  | getField (chk : Bool) (d : VecD) (i : Nat)
  /-- `AtomicBitVec::set` -/
  | setBit (d : VecD) (i : Nat) (b : Bool)
  /-- `AtomicBitVec::swap` -/
  | swapBit (d : VecD) (i : Nat) (b : Bool)
  /-- `AtomicBitVec::get` -/
  | getBit (d : VecD) (i : Nat)
deriving Repr, DecidableEq, Inhabited

/-! ## shared memory -/

structure Mem where
  words : Array Nat
  old : Array (List Nat)
deriving Repr, Inhabited

def Mem.init (ws : Array Nat) : Mem := { words := ws, old := Array.replicate ws.size [] }

/-- plain load of location `a`; `c` = staleness (0 = latest; beyond the history = latest) -/
def Mem.read (m : Mem) (a c : Nat) : Out Nat :=
  match m.words[a]? with
  | none => .oob
  | some w => .ok ((w :: m.old.getD a []).getD c w)

/-- a store into location `a` that is the write half of a RMW -/
def Mem.write (m : Mem) (a w' : Nat) : Mem :=
  { words := m.words.setIfInBounds a w'
    old := m.old.setIfInBounds a (m.words.getD a 0 :: m.old.getD a []) }

/-- `fetch_or` / `fetch_and`: acts on the latest value, returns it -/
def Mem.rmw (m : Mem) (a : Nat) (f : Nat → Nat) : Out (Mem × Nat) :=
  match m.words[a]? with
  | none => .oob
  | some w => .ok (m.write a (f w), w)

/-- `compare_exchange(e, new)`: `none` = success, `some v` = failure returning `v` -/
def Mem.cas (m : Mem) (a e new c : Nat) : Out (Mem × Option Nat) :=
  match m.words[a]? with
  | none => .oob
  | some w =>
    let r := (w :: m.old.getD a []).getD c w
    if r ≠ e then .ok (m, some r)
    else if w = e then .ok (m.write a new, none)
    else .ok (m, some w)

/-- `bits.get_unchecked(wi)`: location of word `wi` of the vector -/
def VecD.loc (d : VecD) (wi : Nat) : Out Nat := if wi < d.nw then .ok (d.base + wi) else .oob

def rdAt (m : Mem) (d : VecD) (wi c : Nat) : Out Nat :=
  match d.loc wi with
  | .ok a => m.read a c
  | .panic => .panic
  | .oob => .oob

def rmwAt (m : Mem) (d : VecD) (wi : Nat) (f : Nat → Nat) : Out (Mem × Nat) :=
  match d.loc wi with
  | .ok a => m.rmw a f
  | .panic => .panic
  | .oob => .oob

def casAt (m : Mem) (d : VecD) (wi e new c : Nat) : Out (Mem × Option Nat) :=
  match d.loc wi with
  | .ok a => m.cas a e new c
  | .panic => .panic
  | .oob => .oob

/-! ## threads -/

/-- position inside the current call -/
inductive Pc where
  /-- before the first atomic operation of the call -/
  | start
  /-- one-word `set`: `current` loaded, about to `compare_exchange` (site 11) -/
  | cas (cur : Nat)
  /-- two-word `set`: lower word loaded, about to `compare_exchange` it (site 21) -/
  | casLo (cur : Nat)
  /-- two-word `set`: lower word written, about to load the upper word (site 22) -/
  | ldHi
  /-- two-word `set`: upper word loaded, about to `compare_exchange` it (site 23) -/
  | casHi (cur : Nat)
  /-- two-word `get`: lower word loaded, about to load the upper word (same grant, site 2) -/
  | getHi (lo : Nat)
deriving Repr, DecidableEq, Inhabited

inductive Status where
  | run
  /-- the call unwound (`panic!`): the thread is over -/
  | panicked
  /-- out-of-bounds unchecked access (undefined behaviour), or a malformed thread state -/
  | oob
deriving Repr, DecidableEq, Inhabited

structure Thread where
  prog : List Op
  /-- index of the current call -/
  ip : Nat := 0
  pc : Pc := .start
  st : Status := .run
  /-- values returned by `swap` / `get` calls, newest first -/
  res : List Nat := []
  /-- ghost counters: failed `compare_exchange`s, successful RMWs, steps taken with a non-zero
  (possibly stale) choice -/
  nfail : Nat := 0
  nsucc : Nat := 0
  nstale : Nat := 0
deriving Repr, Inhabited

def Thread.finish (th : Thread) : Thread := { th with ip := th.ip + 1, pc := .start }
def Thread.ret (th : Thread) (v : Nat) : Thread := { th with res := v :: th.res }
def Thread.fault (th : Thread) (s : Status) : Thread := { th with st := s }
def Thread.succ (th : Thread) : Thread := { th with nsucc := th.nsucc + 1 }
def Thread.failed (th : Thread) (e : Pc) : Thread := { th with nfail := th.nfail + 1, pc := e }
def Thread.goto (th : Thread) (e : Pc) : Thread := { th with pc := e }

/-- the thread still has something to do -/
def Thread.active (th : Thread) : Bool := th.st == .run && decide (th.ip < th.prog.length)

/-- the thread ran its whole program -/
def Thread.done (th : Thread) : Bool := th.st == .run && decide (th.ip = th.prog.length)

/-- result of a micro-step: new memory, new thread state, `sched_point` site (0 = none) -/
abbrev StepR := Mem × Thread × Nat

/-- `set_atomic` / `set_atomic_unchecked` -/
def stepSetField (W : Nat) (m : Mem) (th : Thread) (c : Nat) (chk : Bool) (d : VecD) (i v : Nat) :
    StepR :=
  let pos := i * d.bw
  let wi := pos / W
  let bi := pos % W
  let mask := BFV.maskOf W d.bw
  if th.pc = .start ∧ chk = true ∧ (i ≥ d.len ∨ BFV.fits W d.bw v = false) then
    -- panic_if_out_of_bounds! / panic_if_value!
    (m, th.fault .panicked, 0)
  else if bi + d.bw ≤ W then
    match th.pc with
    | .start =>
      match rdAt m d wi c with
      | .ok cur => (m, th.goto (.cas cur), 10)
      | _ => (m, th.fault .oob, 10)
    | .cas cur =>
      let new := (cur &&& notW W (shlW W mask bi)) ||| shlW W v bi
      match casAt m d wi cur new c with
      | .ok (m', none) => (m', th.succ.finish, 11)
      | .ok (m', some e) => (m', th.failed (.cas e), 11)
      | _ => (m, th.fault .oob, 11)
    | _ => (m, th.fault .oob, 0)
  else
    match th.pc with
    | .start =>
      match rdAt m d wi c with
      | .ok cur => (m, th.goto (.casLo cur), 20)
      | _ => (m, th.fault .oob, 20)
    | .casLo cur =>
      let new := (cur &&& lowMask bi) ||| shlW W v bi
      match casAt m d wi cur new c with
      | .ok (m', none) => (m', th.succ.goto .ldHi, 21)
      | .ok (m', some e) => (m', th.failed (.casLo e), 21)
      | _ => (m, th.fault .oob, 21)
    | .ldHi =>
      match rdAt m d (wi + 1) c with
      | .ok cur => (m, th.goto (.casHi cur), 22)
      | _ => (m, th.fault .oob, 22)
    | .casHi cur =>
      let new := (cur &&& notW W (mask >>> (W - bi))) ||| (v >>> (W - bi))
      match casAt m d (wi + 1) cur new c with
      | .ok (m', none) => (m', th.succ.finish, 23)
      | .ok (m', some e) => (m', th.failed (.casHi e), 23)
      | _ => (m, th.fault .oob, 23)
    | _ => (m, th.fault .oob, 0)

/-- `get_atomic` / `get_atomic_unchecked` -/
def stepGetField (W : Nat) (m : Mem) (th : Thread) (c : Nat) (chk : Bool) (d : VecD) (i : Nat) :
    StepR :=
  let pos := i * d.bw
  let wi := pos / W
  let bi := pos % W
  let mask := BFV.maskOf W d.bw
  if th.pc = .start ∧ chk = true ∧ i ≥ d.len then (m, th.fault .panicked, 0)
  else if bi + d.bw ≤ W then
    match th.pc with
    | .start =>
      match rdAt m d wi c with
      | .ok w => (m, (th.ret ((w >>> bi) &&& mask)).finish, 1)
      | _ => (m, th.fault .oob, 1)
    | _ => (m, th.fault .oob, 0)
  else
    match th.pc with
    | .start =>
      match rdAt m d wi c with
      | .ok lo => (m, th.goto (.getHi lo), 2)
      | _ => (m, th.fault .oob, 2)
    | .getHi lo =>
      match rdAt m d (wi + 1) c with
      | .ok hi => (m, (th.ret (((lo >>> bi) ||| shlW W hi (W - bi)) &&& mask)).finish, 0)
      | _ => (m, th.fault .oob, 0)
    | _ => (m, th.fault .oob, 0)

/-- the word function of `fetch_or(1 << bi)` / `fetch_and(!(1 << bi))` -/
def bitFn (W bi : Nat) (b : Bool) (w : Nat) : Nat :=
  if b then w ||| (1 <<< bi) else w &&& notW W (1 <<< bi)

/-- `AtomicBitVec::set` -/
def stepSetBit (W : Nat) (m : Mem) (th : Thread) (d : VecD) (i : Nat) (b : Bool) : StepR :=
  match th.pc with
  | .start =>
    if i ≥ d.len then (m, th.fault .panicked, 0)
    else
      match rmwAt m d (i / W) (bitFn W (i % W) b) with
      | .ok (m', _) => (m', th.succ.finish, 31)
      | _ => (m, th.fault .oob, 31)
  | _ => (m, th.fault .oob, 0)

/-- `AtomicBitVec::swap` -/
def stepSwapBit (W : Nat) (m : Mem) (th : Thread) (d : VecD) (i : Nat) (b : Bool) : StepR :=
  match th.pc with
  | .start =>
    if i ≥ d.len then (m, th.fault .panicked, 0)
    else
      match rmwAt m d (i / W) (bitFn W (i % W) b) with
      | .ok (m', w) => (m', (th.succ.ret ((w >>> (i % W)) &&& 1)).finish, 32)
      | _ => (m, th.fault .oob, 32)
  | _ => (m, th.fault .oob, 0)

/-- `AtomicBitVec::get` -/
def stepGetBit (W : Nat) (m : Mem) (th : Thread) (c : Nat) (d : VecD) (i : Nat) : StepR :=
  match th.pc with
  | .start =>
    if i ≥ d.len then (m, th.fault .panicked, 0)
    else
      match rdAt m d (i / W) c with
      | .ok w => (m, (th.ret ((w >>> (i % W)) &&& 1)).finish, 30)
      | _ => (m, th.fault .oob, 30)
  | _ => (m, th.fault .oob, 0)

def stepOp (W : Nat) (m : Mem) (th : Thread) (c : Nat) : Op → StepR
  | .setField chk d i v => stepSetField W m th c chk d i v
  | .getField chk d i => stepGetField W m th c chk d i
  | .setBit d i b => stepSetBit W m th d i b
  | .swapBit d i b => stepSwapBit W m th d i b
  | .getBit d i => stepGetBit W m th c d i

/-- count a step taken with a non-zero choice (ghost) -/
def Thread.tick (th : Thread) (c : Nat) : Thread :=
  { th with nstale := th.nstale + (if c = 0 then 0 else 1) }

/-- one micro-step of a thread; finished and faulted threads do not move -/
def stepT (W : Nat) (m : Mem) (th : Thread) (c : Nat) : StepR :=
  if th.st ≠ .run then (m, th, 0)
  else
    match th.prog[th.ip]? with
    | none => (m, th, 0)
    | some op => stepOp W m (th.tick c) c op

/-! ## the machine -/

structure Cfg where
  mem : Mem
  thr : List Thread
deriving Repr, Inhabited

def Cfg.init (ws : Array Nat) (progs : List (List Op)) : Cfg :=
  { mem := Mem.init ws, thr := progs.map (fun p => { prog := p }) }

/-- one schedule entry `(t, c)`: thread `t` performs its next micro-step with choice `c` -/
def step (W : Nat) (cfg : Cfg) (e : Nat × Nat) : Cfg :=
  match cfg.thr[e.1]? with
  | none => cfg
  | some th =>
    let r := stepT W cfg.mem th e.2
    { mem := r.1, thr := cfg.thr.set e.1 r.2.1 }

def run (W : Nat) (cfg : Cfg) (sched : List (Nat × Nat)) : Cfg := sched.foldl (step W) cfg

/-- every thread ran its whole program (none panicked, none faulted) -/
def Cfg.AllDone (cfg : Cfg) : Prop := ∀ th ∈ cfg.thr, th.done = true

/-! ## `EliasFanoConcurrentBuilder` -/

/-- `new(n, u)`: `l`, descriptor of `low_bits` (`AtomicBitFieldVec::new(l, n)`) at word 0, descriptor
of `high_bits` (`AtomicBitVec::new(n + (u >> l) + 1)`) right after it -/
def efL (n u : Nat) : Nat := if n > 0 ∧ u ≥ n then Nat.log2 (u / n) else 0

def efLow (W n u : Nat) : VecD :=
  let l := efL n u
  { base := 0, nw := max 1 (BFV.divCeil (n * l) W), bw := l, len := n }

def efHigh (W n u : Nat) : VecD :=
  let l := efL n u
  let hl := n + (u >>> l) + 1
  { base := (efLow W n u).nw, nw := (hl + (W - 1)) / W, bw := 1, len := hl }

/-- `set(index, value)`: `low_bits.set_atomic_unchecked(index, value & ((1 << l) - 1))`, then
`high_bits.set((value >> l) + index, true)` -/
def efSetOps (W n u : Nat) (i x : Nat) : List Op :=
  let l := efL n u
  [ .setField false (efLow W n u) i (x &&& lowMask l),
    .setBit (efHigh W n u) ((x >>> l) + i) true ]

end Sux.Atomic
