import SuxModel.Atomic.LemmasSafe
/-!
# Safe (checked) calls on atomic vectors with arbitrary arguments never fault (for C12)

`LemmasSafe.lean` shows that programs whose calls respect their contract (`Op.WF`: in particular
`index < len`) never panic and never leave the backing words.  Here the calls are the SAFE methods
(`set_atomic`, `get_atomic`, `AtomicBitVec::{set, swap, get}`) on valid vector objects with
ARBITRARY indices and values: an out-of-domain call unwinds at its first micro-step (status
`panicked`, memory untouched), an in-domain call is well formed; hence in every interleaving no
thread ever reaches the status `oob`.
-/
namespace Sux.Atomic
open Sux.BFV

/-- the bit-field vector is a valid object inside a memory of `sz` words (what every safe
constructor of `AtomicBitFieldVec` establishes) -/
def VecD.ObjOK (W sz : Nat) (d : VecD) : Prop :=
  d.bw ≤ W ∧ d.len * d.bw ≤ W * d.nw ∧ (d.bw = 0 → 1 ≤ d.nw) ∧ d.base + d.nw ≤ sz

/-- the bit vector is a valid object inside a memory of `sz` words -/
def VecD.BitObjOK (W sz : Nat) (d : VecD) : Prop := d.len ≤ W * d.nw ∧ d.base + d.nw ≤ sz

/-- a call of a SAFE method on a valid object; index and value are arbitrary -/
def Op.SafeCall (W sz : Nat) : Op → Prop
  | .setField chk d _ _ => chk = true ∧ d.ObjOK W sz
  | .getField chk d _ => chk = true ∧ d.ObjOK W sz
  | .setBit d _ _ => d.BitObjOK W sz
  | .swapBit d _ _ => d.BitObjOK W sz
  | .getBit d _ => d.BitObjOK W sz

instance (W sz : Nat) (o : Op) : Decidable (o.SafeCall W sz) := by
  cases o <;> (unfold Op.SafeCall VecD.ObjOK VecD.BitObjOK; exact inferInstance)

/-- the arguments are inside the documented domain: `index < len`, and the value fits -/
def Op.InDom (W : Nat) : Op → Prop
  | .setField _ d i v => i < d.len ∧ fits W d.bw v = true
  | .getField _ d i => i < d.len
  | .setBit d i _ => i < d.len
  | .swapBit d i _ => i < d.len
  | .getBit d i => i < d.len

instance (W : Nat) (o : Op) : Decidable (o.InDom W) := by
  cases o <;> (unfold Op.InDom; exact inferInstance)

def ProgsSafeCalls (W sz : Nat) (progs : List (List Op)) : Prop :=
  ∀ p ∈ progs, ∀ o ∈ p, o.SafeCall W sz

theorem field_ok_of_lt {W sz : Nat} {d : VecD} {i : Nat} (h : d.ObjOK W sz) (hi : i < d.len) :
    d.FieldOK W sz i := by
  obtain ⟨h1, h2, h3, h4⟩ := h
  refine ⟨h1, ?_, h3, h4⟩
  have : (i + 1) * d.bw ≤ d.len * d.bw := Nat.mul_le_mul_right _ hi
  omega

/-- a safe call with in-domain arguments respects the contract of `LemmasSafe` -/
theorem wf_of_inDom {W sz : Nat} {o : Op} (hs : o.SafeCall W sz) (hd : o.InDom W) : o.WF W sz := by
  cases o with
  | setField chk d i v =>
    exact ⟨field_ok_of_lt hs.2 hd.1, (fits_iff W d.bw v hs.2.1).1 hd.2, fun _ => hd.1⟩
  | getField chk d i => exact ⟨field_ok_of_lt hs.2 hd, fun _ => hd⟩
  | setBit d i b => exact ⟨hd, hs.1, hs.2⟩
  | swapBit d i b => exact ⟨hd, hs.1, hs.2⟩
  | getBit d i => exact ⟨hd, hs.1, hs.2⟩

/-- a safe call with out-of-domain arguments unwinds at its first micro-step -/
theorem stepOp_outDom {W sz : Nat} (m : Mem) (th : Thread) (c : Nat) (o : Op)
    (hs : o.SafeCall W sz) (hd : ¬ o.InDom W) (hpc : th.pc = .start) :
    stepOp W m th c o = (m, th.fault .panicked, 0) := by
  cases o with
  | setField chk d i v =>
    obtain ⟨hc, -⟩ := hs
    subst hc
    have hbad : i ≥ d.len ∨ fits W d.bw v = false := by
      unfold Op.InDom at hd
      by_cases h1 : i < d.len
      · right
        cases hf : fits W d.bw v with
        | false => rfl
        | true => exact absurd ⟨h1, hf⟩ hd
      · left; omega
    show stepSetField W m th c true d i v = _
    unfold stepSetField
    simp only
    rw [if_pos ⟨hpc, trivial, hbad⟩]
  | getField chk d i =>
    obtain ⟨hc, -⟩ := hs
    subst hc
    have hbad : i ≥ d.len := by unfold Op.InDom at hd; omega
    show stepGetField W m th c true d i = _
    unfold stepGetField
    simp only
    rw [if_pos ⟨hpc, trivial, hbad⟩]
  | setBit d i b =>
    have hbad : i ≥ d.len := by unfold Op.InDom at hd; omega
    show stepSetBit W m th d i b = _
    unfold stepSetBit
    rw [hpc]; simp only; rw [if_pos hbad]
  | swapBit d i b =>
    have hbad : i ≥ d.len := by unfold Op.InDom at hd; omega
    show stepSwapBit W m th d i b = _
    unfold stepSwapBit
    rw [hpc]; simp only; rw [if_pos hbad]
  | getBit d i =>
    have hbad : i ≥ d.len := by unfold Op.InDom at hd; omega
    show stepGetBit W m th c d i = _
    unfold stepGetBit
    rw [hpc]; simp only; rw [if_pos hbad]

/-! ## a micro-step either stays inside the current call or returns to `start` -/

theorem stepSetField_ip (W : Nat) (m : Mem) (th : Thread) (c : Nat) (chk : Bool) (d : VecD)
    (i v : Nat) :
    (stepSetField W m th c chk d i v).2.1.ip = th.ip ∨
    (stepSetField W m th c chk d i v).2.1.pc = .start := by
  unfold stepSetField
  simp only
  repeat' split
  all_goals first | exact Or.inl rfl | exact Or.inr rfl

theorem stepGetField_ip (W : Nat) (m : Mem) (th : Thread) (c : Nat) (chk : Bool) (d : VecD)
    (i : Nat) :
    (stepGetField W m th c chk d i).2.1.ip = th.ip ∨
    (stepGetField W m th c chk d i).2.1.pc = .start := by
  unfold stepGetField
  simp only
  repeat' split
  all_goals first | exact Or.inl rfl | exact Or.inr rfl

theorem stepSetBit_ip (W : Nat) (m : Mem) (th : Thread) (d : VecD) (i : Nat) (b : Bool) :
    (stepSetBit W m th d i b).2.1.ip = th.ip ∨ (stepSetBit W m th d i b).2.1.pc = .start := by
  unfold stepSetBit
  repeat' split
  all_goals first | exact Or.inl rfl | exact Or.inr rfl

theorem stepSwapBit_ip (W : Nat) (m : Mem) (th : Thread) (d : VecD) (i : Nat) (b : Bool) :
    (stepSwapBit W m th d i b).2.1.ip = th.ip ∨ (stepSwapBit W m th d i b).2.1.pc = .start := by
  unfold stepSwapBit
  repeat' split
  all_goals first | exact Or.inl rfl | exact Or.inr rfl

theorem stepGetBit_ip (W : Nat) (m : Mem) (th : Thread) (c : Nat) (d : VecD) (i : Nat) :
    (stepGetBit W m th c d i).2.1.ip = th.ip ∨ (stepGetBit W m th c d i).2.1.pc = .start := by
  unfold stepGetBit
  repeat' split
  all_goals first | exact Or.inl rfl | exact Or.inr rfl

theorem stepOp_ip (W : Nat) (m : Mem) (th : Thread) (c : Nat) (o : Op) :
    (stepOp W m th c o).2.1.ip = th.ip ∨ (stepOp W m th c o).2.1.pc = .start := by
  cases o with
  | setField chk d i v => exact stepSetField_ip W m th c chk d i v
  | getField chk d i => exact stepGetField_ip W m th c chk d i
  | setBit d i b => exact stepSetBit_ip W m th d i b
  | swapBit d i b => exact stepSwapBit_ip W m th d i b
  | getBit d i => exact stepGetBit_ip W m th c d i

/-! ## the invariant -/

/-- the thread has unwound, or it is consistent and — when it is in the middle of a call — that
call passed its checks -/
def Thread.Guarded (W sz : Nat) (th : Thread) : Prop :=
  th.st = .panicked ∨
    (th.Safe W ∧ (th.pc ≠ .start → ∀ o, th.prog[th.ip]? = some o → o.WF W sz))

theorem Thread.Guarded.not_oob {W sz : Nat} {th : Thread} (h : th.Guarded W sz) : th.st ≠ .oob := by
  rcases h with h | ⟨⟨h, -⟩, -⟩ <;> (rw [h]; intro e; cases e)

/-- one micro-step of a thread of safe calls -/
theorem stepT_guarded {W : Nat} (hW : 0 < W) (m : Mem) (th : Thread) (c : Nat)
    (hok : WordsOK W m.words) (hsc : ∀ o ∈ th.prog, o.SafeCall W m.words.size)
    (hg : th.Guarded W m.words.size) :
    (stepT W m th c).1.words.size = m.words.size ∧ WordsOK W (stepT W m th c).1.words ∧
    (stepT W m th c).2.1.prog = th.prog ∧ (stepT W m th c).2.1.Guarded W m.words.size := by
  unfold stepT
  split
  · exact ⟨rfl, hok, rfl, hg⟩
  · rename_i hrun
    have hrun' : th.st = .run := Classical.byContradiction hrun
    split
    · exact ⟨rfl, hok, rfl, hg⟩
    · rename_i op hop
      have hmem : op ∈ th.prog := List.mem_of_getElem? hop
      have hs := hsc op hmem
      have hsafe : th.Safe W ∧ (th.pc ≠ .start → ∀ o, th.prog[th.ip]? = some o →
          o.WF W m.words.size) := by
        rcases hg with h | h
        · rw [hrun'] at h; cases h
        · exact h
      by_cases hout : th.pc = .start ∧ ¬ op.InDom W
      · -- out-of-domain call at its start: it unwinds
        have hpc : (th.tick c).pc = .start := hout.1
        rw [stepOp_outDom m (th.tick c) c op hs hout.2 hpc]
        exact ⟨rfl, hok, rfl, Or.inl rfl⟩
      · -- the current call respects its contract
        have hw : op.WF W m.words.size := by
          by_cases hpc : th.pc = .start
          · have hd : op.InDom W := Classical.byContradiction fun h => hout ⟨hpc, h⟩
            exact wf_of_inDom hs hd
          · exact hsafe.2 hpc op hop
        have hs' : (th.tick c).Safe W := hsafe.1
        have hop' : (th.tick c).prog[(th.tick c).ip]? = some op := hop
        have key : StepOK W m (th.tick c) (stepOp W m (th.tick c) c op) := by
          cases op with
          | setField chk d i v => exact stepSetField_ok hW m _ c chk d i v hok hop' hw
          | getField chk d i => exact stepGetField_ok m _ c chk d i hok hop'
          | setBit d i b => exact stepSetBit_ok hW m _ d i b hok hop' hw
          | swapBit d i b => exact stepSwapBit_ok hW m _ d i b hok hop' hw
          | getBit d i => exact stepGetBit_ok m _ c d i hok hop'
        have ksafe : (stepOp W m (th.tick c) c op).2.1.Safe W := by
          cases op with
          | setField chk d i v => exact stepSetField_safe hW m _ c chk d i v hs' hop' hw
          | getField chk d i => exact stepGetField_safe hW m _ c chk d i hs' hop' hw
          | setBit d i b => exact stepSetBit_safe m _ d i b hs' hop' hw
          | swapBit d i b => exact stepSwapBit_safe m _ d i b hs' hop' hw
          | getBit d i => exact stepGetBit_safe m _ c d i hs' hop' hw
        obtain ⟨ksz, kok, kprog, -⟩ := key
        refine ⟨ksz, kok, kprog, Or.inr ⟨ksafe, fun hne o ho => ?_⟩⟩
        rcases stepOp_ip W m (th.tick c) c op with hip | hst
        · rw [kprog, hip] at ho
          have : some o = some op := ho.symm.trans hop
          cases this
          exact hw
        · exact absurd hst hne

/-- all threads guarded, programs made of safe calls for the (constant) memory size -/
def GuardedCfg (W sz : Nat) (cfg : Cfg) : Prop :=
  (cfg.mem.words.size = sz ∧ WordsOK W cfg.mem.words) ∧
  ∀ th ∈ cfg.thr, th.Guarded W sz ∧ ∀ o ∈ th.prog, o.SafeCall W sz

theorem guarded_step {W sz : Nat} (hW : 0 < W) (cfg : Cfg) (h : GuardedCfg W sz cfg)
    (e : Nat × Nat) : GuardedCfg W sz (step W cfg e) := by
  unfold step
  cases hth : cfg.thr[e.1]? with
  | none => exact h
  | some th =>
    simp only []
    have hm := h.2 th (List.mem_of_getElem? hth)
    have hsc : ∀ o ∈ th.prog, o.SafeCall W cfg.mem.words.size := by rw [h.1.1]; exact hm.2
    have hg : th.Guarded W cfg.mem.words.size := by rw [h.1.1]; exact hm.1
    obtain ⟨hsz, hok', hprog, hg'⟩ := stepT_guarded hW cfg.mem th e.2 h.1.2 hsc hg
    refine ⟨⟨by rw [hsz]; exact h.1.1, hok'⟩, ?_⟩
    intro th' hth'
    obtain ⟨t, ht⟩ := List.mem_iff_getElem?.1 hth'
    have ht' : (cfg.thr.set e.1 (stepT W cfg.mem th e.2).2.1)[t]? = some th' := ht
    rw [List.getElem?_set] at ht'
    by_cases hte : e.1 = t
    · rw [if_pos hte] at ht'
      split at ht'
      · cases ht'
        refine ⟨?_, by rw [hprog]; exact hm.2⟩
        rw [h.1.1] at hg'; exact hg'
      · cases ht'
    · rw [if_neg hte] at ht'
      exact h.2 th' (List.mem_of_getElem? ht')

theorem guarded_run {W sz : Nat} (hW : 0 < W) (sched : List (Nat × Nat)) (cfg : Cfg)
    (h : GuardedCfg W sz cfg) : GuardedCfg W sz (run W cfg sched) := by
  induction sched generalizing cfg with
  | nil => exact h
  | cons e es ih =>
    unfold run
    rw [List.foldl_cons]
    exact ih _ (guarded_step hW cfg h e)

theorem guarded_init (W : Nat) (ws0 : Array Nat) (progs : List (List Op))
    (hok : WordsOK W ws0) (hsc : ProgsSafeCalls W ws0.size progs) :
    GuardedCfg W ws0.size (Cfg.init ws0 progs) := by
  refine ⟨⟨rfl, hok⟩, ?_⟩
  intro th hth
  simp only [Cfg.init, List.mem_map] at hth
  obtain ⟨p, hp, rfl⟩ := hth
  exact ⟨Or.inr ⟨⟨rfl, trivial⟩, fun h => absurd rfl h⟩, hsc p hp⟩

/-- **Safe calls with arbitrary arguments never fault**: any number of threads, any interleaving,
any stale-load choices, any indices and values — no thread ever reaches the status `oob`, the
memory keeps its size and its words stay words. -/
theorem safe_calls_never_oob (W : Nat) (hW : 0 < W) (ws0 : Array Nat) (hok : WordsOK W ws0)
    (progs : List (List Op)) (hsc : ProgsSafeCalls W ws0.size progs) (sched : List (Nat × Nat)) :
    (∀ th ∈ (run W (Cfg.init ws0 progs) sched).thr, th.st ≠ .oob) ∧
    (run W (Cfg.init ws0 progs) sched).mem.words.size = ws0.size ∧
    WordsOK W (run W (Cfg.init ws0 progs) sched).mem.words := by
  have h := guarded_run hW sched _ (guarded_init W ws0 progs hok hsc)
  exact ⟨fun th hth => (h.2 th hth).1.not_oob, h.1.1, h.1.2⟩

end Sux.Atomic
