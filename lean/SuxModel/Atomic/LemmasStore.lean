import SuxModel.BitFieldVec.Lemmas
import SuxModel.Atomic.Spec
/-!
# Store-level lemmas for C13: what one successful RMW does to the bits of the flat memory

Reuses the word-level characterisations of `SuxModel/BitFieldVec/Lemmas.lean`
(`set_store_one`, `set_two_lo_bits`, `set_two_hi_bits`).
-/
namespace Sux.Atomic
open Sux.BFV

/-! ## flat positions -/

theorem flat_div {W : Nat} (hW : 0 < W) (b q : Nat) : (b * W + q) / W = b + q / W := by
  rw [Nat.mul_comm]; exact Nat.mul_add_div hW b q

theorem flat_mod (W b q : Nat) : (b * W + q) % W = q % W := by
  rw [Nat.mul_comm]; exact Nat.mul_add_mod W b q

/-! ## lower / upper half of a two-word field write, on the store -/

/-- successful `compare_exchange` of the lower word: exactly the field bits of that word change -/
theorem set_store_lo {W : Nat} (hW : 0 < W) (ws : Array Nat) (hok : WordsOK W ws) (p n v : Nat)
    (h : W < p % W + n) (hwi : p / W < ws.size) (k : Nat) :
    bitAt W (ws.setIfInBounds (p / W) ((ws.getD (p / W) 0 &&& lowMask (p % W)) ||| shlW W v (p % W))) k
      = if (p ≤ k ∧ k < p + n) ∧ k / W = p / W then v.testBit (k - p) else bitAt W ws k := by
  unfold bitAt
  rw [getD_setIfInBounds']
  have hd := div_mod_decomp hW p
  have hk' := div_mod_decomp hW k
  by_cases hk : p / W = k / W
  · rw [if_pos ⟨hk, hwi⟩, set_two_lo_bits _ _ _ (getD_lt hok _)]
    rw [← hk] at hk'
    by_cases hin : p ≤ k
    · have hc : (p ≤ k ∧ k < p + n) ∧ k / W = p / W := ⟨⟨hin, by omega⟩, hk.symm⟩
      rw [if_pos hc, if_pos (by omega)]
      congr 1; omega
    · have hc : ¬ ((p ≤ k ∧ k < p + n) ∧ k / W = p / W) := fun hh => hin hh.1.1
      rw [if_neg hc, if_neg (by omega), hk]
  · rw [if_neg (fun hh => hk hh.1), if_neg (fun hh => hk hh.2.symm)]

/-- successful `compare_exchange` of the upper word -/
theorem set_store_hi {W : Nat} (hW : 0 < W) (ws : Array Nat) (hok : WordsOK W ws) (p n v : Nat)
    (hn : n ≤ W) (h : W < p % W + n) (hwi : p / W + 1 < ws.size) (hv : v < 2 ^ n) (k : Nat) :
    bitAt W (ws.setIfInBounds (p / W + 1)
        ((ws.getD (p / W + 1) 0 &&& notW W (lowMask n >>> (W - p % W))) ||| (v >>> (W - p % W)))) k
      = if (p ≤ k ∧ k < p + n) ∧ ¬ k / W = p / W then v.testBit (k - p) else bitAt W ws k := by
  unfold bitAt
  rw [getD_setIfInBounds']
  have hd := div_mod_decomp hW p
  have hk' := div_mod_decomp hW k
  by_cases hk1 : p / W + 1 = k / W
  · rw [if_pos ⟨hk1, hwi⟩, set_two_hi_bits _ _ _ _ hd.2 hn h hv (getD_lt hok _)]
    rw [← hk1, Nat.mul_succ] at hk'
    by_cases hin : k < p + n
    · have hc : (p ≤ k ∧ k < p + n) ∧ ¬ k / W = p / W := ⟨⟨by omega, hin⟩, by omega⟩
      rw [if_pos hc, if_pos (by omega)]
      congr 1; omega
    · have hc : ¬ ((p ≤ k ∧ k < p + n) ∧ ¬ k / W = p / W) := fun hh => hin hh.1.2
      rw [if_neg hc, if_neg (by omega), hk1]
  · rw [if_neg (fun hh => hk1 hh.1)]
    by_cases hk : k / W = p / W
    · rw [if_neg (fun hh => hh.2 hk)]
    · have h1 := lt_or_ge_of_div_ne hW hk
      have h2 := lt_or_ge_of_div_ne hW (fun e => hk1 e.symm)
      rw [Nat.mul_succ] at h2
      rw [if_neg (by omega)]

theorem set_lo_lt {W : Nat} (w v b : Nat) (hw : w < 2 ^ W) :
    ((w &&& lowMask b) ||| shlW W v b) < 2 ^ W := set_two_lo_lt w v b hw

/-! ## `fetch_or(1 << b)` / `fetch_and(!(1 << b))` -/

theorem bitFn_bits {W : Nat} (w bi : Nat) (b : Bool) (hb : bi < W) (hw : w < 2 ^ W) (j : Nat) :
    (bitFn W bi b w).testBit j = if j = bi then b else w.testBit j := by
  unfold bitFn
  cases b with
  | true =>
    simp only [if_true]
    rw [Nat.testBit_or, testBit_one_shl]
    by_cases h : j = bi <;> simp [h]
  | false =>
    simp only [Bool.false_eq_true, if_false]
    rw [Nat.testBit_and, testBit_notW, testBit_one_shl]
    by_cases h : j = bi
    · simp [h, hb]
    · by_cases hj : j < W
      · simp [h, hj]
      · have : w.testBit j = false := testBit_ge_of_lt hw (by omega)
        simp [h, this]

theorem bitFn_lt {W : Nat} (w bi : Nat) (b : Bool) (hb : bi < W) (hw : w < 2 ^ W) :
    bitFn W bi b w < 2 ^ W := by
  unfold bitFn
  cases b with
  | true =>
    apply Nat.or_lt_two_pow hw
    rw [Nat.one_shiftLeft]
    exact Nat.pow_lt_pow_right (by omega) hb
  | false => exact and_lt_left _ hw

/-- a bit RMW changes exactly bit `q` of the store -/
theorem set_store_bit {W : Nat} (hW : 0 < W) (ws : Array Nat) (hok : WordsOK W ws) (q : Nat)
    (b : Bool) (hwi : q / W < ws.size) (k : Nat) :
    bitAt W (ws.setIfInBounds (q / W) (bitFn W (q % W) b (ws.getD (q / W) 0))) k
      = if k = q then b else bitAt W ws k := by
  unfold bitAt
  rw [getD_setIfInBounds']
  have hq := div_mod_decomp hW q
  have hk' := div_mod_decomp hW k
  by_cases hk : q / W = k / W
  · rw [if_pos ⟨hk, hwi⟩, bitFn_bits _ _ _ hq.2 (getD_lt hok _)]
    by_cases h : k = q
    · subst h; simp
    · have : ¬ k % W = q % W := by
        intro e; rw [← hk, e] at hk'; omega
      rw [if_neg this, if_neg h, hk]
  · rw [if_neg (fun hh => hk hh.1)]
    have : ¬ k = q := fun e => hk (by rw [e])
    rw [if_neg this]

end Sux.Atomic
