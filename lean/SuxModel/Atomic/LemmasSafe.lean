import SuxModel.Atomic.LemmasStep
/-!
# No faults (C13 / C12 for the atomic vectors)

If every call respects its contract (`Op.WF`), no thread ever panics and no unchecked access
ever leaves the backing words, in any interleaving.
-/
namespace Sux.Atomic
open Sux.BFV

/-- the position inside a call is consistent with the call -/
def pcOK (W : Nat) : Pc → Option Op → Prop
  | .start, _ => True
  | .cas _, some (.setField _ d i _) => i * d.bw % W + d.bw ≤ W
  | .casLo _, some (.setField _ d i _) => ¬ i * d.bw % W + d.bw ≤ W
  | .ldHi, some (.setField _ d i _) => ¬ i * d.bw % W + d.bw ≤ W
  | .casHi _, some (.setField _ d i _) => ¬ i * d.bw % W + d.bw ≤ W
  | .getHi _, some (.getField _ d i) => ¬ i * d.bw % W + d.bw ≤ W
  | _, _ => False

def Thread.PcOK (W : Nat) (th : Thread) : Prop := pcOK W th.pc th.prog[th.ip]?

/-- the thread is running and consistent -/
def Thread.Safe (W : Nat) (th : Thread) : Prop := th.st = .run ∧ th.PcOK W

theorem safe_finish {W : Nat} (_th th' : Thread) (h1 : th'.st = .run) (h2 : th'.pc = .start) :
    th'.Safe W := by
  refine ⟨h1, ?_⟩
  unfold Thread.PcOK
  rw [h2]
  trivial

theorem stepSetField_safe {W : Nat} (hW : 0 < W) (m : Mem) (th : Thread) (c : Nat) (chk : Bool)
    (d : VecD) (i v : Nat) (hs : th.Safe W)
    (ho : th.prog[th.ip]? = some (.setField chk d i v))
    (hwf : (Op.setField chk d i v).WF W m.words.size) :
    (stepSetField W m th c chk d i v).2.1.Safe W := by
  obtain ⟨hst, hpc⟩ := hs
  unfold Thread.PcOK at hpc
  rw [ho] at hpc
  obtain ⟨⟨hbw, hfield, h0, hmem⟩, hv, hchk⟩ := hwf
  rw [Nat.succ_mul] at hfield
  have hwi : i * d.bw / W < d.nw :=
    field_word_lt hW hfield (fun h => ⟨by rw [h]; rfl, h0 h⟩)
  unfold stepSetField
  simp only []
  split
  · rename_i hpanic
    obtain ⟨_, hc, hbad⟩ := hpanic
    rcases hbad with hbad | hbad
    · have := hchk hc; omega
    · rw [(fits_iff W d.bw v hbw).2 hv] at hbad; cases hbad
  · split
    · rename_i hshape
      split
      · obtain ⟨cur, hrd⟩ := rdAt_ok m d (i * d.bw / W) c hwi hmem
        rw [hrd]
        refine ⟨hst, ?_⟩
        show pcOK W (.cas cur) th.prog[th.ip]?
        rw [ho]; exact hshape
      · rename_i cur hpceq
        rcases casAt_spec m d (i * d.bw / W) cur
          ((cur &&& notW W (shlW W (maskOf W d.bw) (i * d.bw % W))) ||| shlW W v (i * d.bw % W)) c
          hwi hmem with ⟨e, hc⟩ | ⟨_, hc⟩
        · rw [hc]
          refine ⟨hst, ?_⟩
          show pcOK W (.cas e) th.prog[th.ip]?
          rw [ho]; exact hshape
        · rw [hc]
          exact safe_finish th _ hst rfl
      · rename_i hn1 hn2
        exfalso
        cases hp : th.pc with
        | start => exact hn1 hp
        | cas cur => exact hn2 cur hp
        | casLo cur => rw [hp] at hpc; exact hpc hshape
        | ldHi => rw [hp] at hpc; exact hpc hshape
        | casHi cur => rw [hp] at hpc; exact hpc hshape
        | getHi lo => rw [hp] at hpc; exact hpc
    · rename_i hshape
      have hshape' : W < i * d.bw % W + d.bw := by omega
      have hwi1 : i * d.bw / W + 1 < d.nw := field_word_succ_lt hW hfield hshape'
      split
      · obtain ⟨cur, hrd⟩ := rdAt_ok m d (i * d.bw / W) c hwi hmem
        rw [hrd]
        refine ⟨hst, ?_⟩
        show pcOK W (.casLo cur) th.prog[th.ip]?
        rw [ho]; exact hshape
      · rename_i cur hpceq
        rcases casAt_spec m d (i * d.bw / W) cur
          ((cur &&& lowMask (i * d.bw % W)) ||| shlW W v (i * d.bw % W)) c
          hwi hmem with ⟨e, hc⟩ | ⟨_, hc⟩
        · rw [hc]
          refine ⟨hst, ?_⟩
          show pcOK W (.casLo e) th.prog[th.ip]?
          rw [ho]; exact hshape
        · rw [hc]
          refine ⟨hst, ?_⟩
          show pcOK W .ldHi th.prog[th.ip]?
          rw [ho]; exact hshape
      · obtain ⟨cur, hrd⟩ := rdAt_ok m d (i * d.bw / W + 1) c hwi1 hmem
        rw [hrd]
        refine ⟨hst, ?_⟩
        show pcOK W (.casHi cur) th.prog[th.ip]?
        rw [ho]; exact hshape
      · rename_i cur hpceq
        rcases casAt_spec m d (i * d.bw / W + 1) cur
          ((cur &&& notW W (maskOf W d.bw >>> (W - i * d.bw % W))) ||| (v >>> (W - i * d.bw % W))) c
          hwi1 hmem with ⟨e, hc⟩ | ⟨_, hc⟩
        · rw [hc]
          refine ⟨hst, ?_⟩
          show pcOK W (.casHi e) th.prog[th.ip]?
          rw [ho]; exact hshape
        · rw [hc]
          exact safe_finish th _ hst rfl
      · rename_i hn1 hn2 hn3 hn4
        exfalso
        cases hp : th.pc with
        | start => exact hn1 hp
        | cas cur => rw [hp] at hpc; exact hshape hpc
        | casLo cur => exact hn2 cur hp
        | ldHi => exact hn3 hp
        | casHi cur => exact hn4 cur hp
        | getHi lo => rw [hp] at hpc; exact hpc

theorem stepGetField_safe {W : Nat} (hW : 0 < W) (m : Mem) (th : Thread) (c : Nat) (chk : Bool)
    (d : VecD) (i : Nat) (hs : th.Safe W)
    (ho : th.prog[th.ip]? = some (.getField chk d i))
    (hwf : (Op.getField chk d i).WF W m.words.size) :
    (stepGetField W m th c chk d i).2.1.Safe W := by
  obtain ⟨hst, hpc⟩ := hs
  unfold Thread.PcOK at hpc
  rw [ho] at hpc
  obtain ⟨⟨hbw, hfield, h0, hmem⟩, hchk⟩ := hwf
  rw [Nat.succ_mul] at hfield
  have hwi : i * d.bw / W < d.nw :=
    field_word_lt hW hfield (fun h => ⟨by rw [h]; rfl, h0 h⟩)
  unfold stepGetField
  simp only []
  split
  · rename_i hpanic
    have := hchk hpanic.2.1
    have := hpanic.2.2
    omega
  · split
    · rename_i hshape
      split
      · obtain ⟨w, hrd⟩ := rdAt_ok m d (i * d.bw / W) c hwi hmem
        rw [hrd]
        exact safe_finish th _ hst rfl
      · rename_i hn1
        exfalso
        cases hp : th.pc with
        | start => exact hn1 hp
        | cas cur => rw [hp] at hpc; exact hpc
        | casLo cur => rw [hp] at hpc; exact hpc
        | ldHi => rw [hp] at hpc; exact hpc
        | casHi cur => rw [hp] at hpc; exact hpc
        | getHi lo => rw [hp] at hpc; exact hpc hshape
    · rename_i hshape
      have hshape' : W < i * d.bw % W + d.bw := by omega
      have hwi1 : i * d.bw / W + 1 < d.nw := field_word_succ_lt hW hfield hshape'
      split
      · obtain ⟨lo, hrd⟩ := rdAt_ok m d (i * d.bw / W) c hwi hmem
        rw [hrd]
        refine ⟨hst, ?_⟩
        show pcOK W (.getHi lo) th.prog[th.ip]?
        rw [ho]; exact hshape
      · obtain ⟨hi, hrd⟩ := rdAt_ok m d (i * d.bw / W + 1) c hwi1 hmem
        rw [hrd]
        exact safe_finish th _ hst rfl
      · rename_i hn1 hn2
        exfalso
        cases hp : th.pc with
        | start => exact hn1 hp
        | cas cur => rw [hp] at hpc; exact hpc
        | casLo cur => rw [hp] at hpc; exact hpc
        | ldHi => rw [hp] at hpc; exact hpc
        | casHi cur => rw [hp] at hpc; exact hpc
        | getHi lo => exact hn2 lo hp

/-- for the one-step calls the position must be `start` -/
theorem pc_start_of_bit {W : Nat} {th : Thread} {o : Op} (hpc : th.PcOK W)
    (ho : th.prog[th.ip]? = some o) (hb : ∀ chk d i v, o ≠ .setField chk d i v)
    (hg : ∀ chk d i, o ≠ .getField chk d i) : th.pc = .start := by
  unfold Thread.PcOK at hpc
  rw [ho] at hpc
  cases hp : th.pc with
  | start => rfl
  | cas cur =>
    rw [hp] at hpc
    cases o with
    | setField chk d i v => exact absurd rfl (hb chk d i v)
    | _ => exact hpc.elim
  | casLo cur =>
    rw [hp] at hpc
    cases o with
    | setField chk d i v => exact absurd rfl (hb chk d i v)
    | _ => exact hpc.elim
  | ldHi =>
    rw [hp] at hpc
    cases o with
    | setField chk d i v => exact absurd rfl (hb chk d i v)
    | _ => exact hpc.elim
  | casHi cur =>
    rw [hp] at hpc
    cases o with
    | setField chk d i v => exact absurd rfl (hb chk d i v)
    | _ => exact hpc.elim
  | getHi lo =>
    rw [hp] at hpc
    cases o with
    | getField chk d i => exact absurd rfl (hg chk d i)
    | _ => exact hpc.elim

theorem stepSetBit_safe {W : Nat} (m : Mem) (th : Thread) (d : VecD) (i : Nat) (b : Bool)
    (hs : th.Safe W) (ho : th.prog[th.ip]? = some (.setBit d i b))
    (hwf : d.BitOK W m.words.size i) : (stepSetBit W m th d i b).2.1.Safe W := by
  have hwi : i / W < d.nw := Nat.div_lt_of_lt_mul (by have := hwf.1; have := hwf.2.1; omega)
  have hp := pc_start_of_bit hs.2 ho (fun _ _ _ _ h => by cases h) (fun _ _ _ h => by cases h)
  unfold stepSetBit
  rw [hp]
  simp only []
  rw [if_neg (by have := hwf.1; omega), rmwAt_spec m d (i / W) _ hwi hwf.2.2]
  exact safe_finish th _ hs.1 rfl

theorem stepSwapBit_safe {W : Nat} (m : Mem) (th : Thread) (d : VecD) (i : Nat) (b : Bool)
    (hs : th.Safe W) (ho : th.prog[th.ip]? = some (.swapBit d i b))
    (hwf : d.BitOK W m.words.size i) : (stepSwapBit W m th d i b).2.1.Safe W := by
  have hwi : i / W < d.nw := Nat.div_lt_of_lt_mul (by have := hwf.1; have := hwf.2.1; omega)
  have hp := pc_start_of_bit hs.2 ho (fun _ _ _ _ h => by cases h) (fun _ _ _ h => by cases h)
  unfold stepSwapBit
  rw [hp]
  simp only []
  rw [if_neg (by have := hwf.1; omega), rmwAt_spec m d (i / W) _ hwi hwf.2.2]
  exact safe_finish th _ hs.1 rfl

theorem stepGetBit_safe {W : Nat} (m : Mem) (th : Thread) (c : Nat) (d : VecD) (i : Nat)
    (hs : th.Safe W) (ho : th.prog[th.ip]? = some (.getBit d i))
    (hwf : d.BitOK W m.words.size i) : (stepGetBit W m th c d i).2.1.Safe W := by
  have hwi : i / W < d.nw := Nat.div_lt_of_lt_mul (by have := hwf.1; have := hwf.2.1; omega)
  have hp := pc_start_of_bit hs.2 ho (fun _ _ _ _ h => by cases h) (fun _ _ _ h => by cases h)
  unfold stepGetBit
  rw [hp]
  simp only []
  rw [if_neg (by have := hwf.1; omega)]
  obtain ⟨w, hrd⟩ := rdAt_ok m d (i / W) c hwi hwf.2.2
  rw [hrd]
  exact safe_finish th _ hs.1 rfl

/-- a safe thread with well-formed calls stays safe -/
theorem stepT_safe {W : Nat} (hW : 0 < W) (m : Mem) (th : Thread) (c : Nat) (hs : th.Safe W)
    (hwf : ∀ o ∈ th.prog, o.WF W m.words.size) : (stepT W m th c).2.1.Safe W := by
  unfold stepT
  split
  · exact hs
  · split
    · exact hs
    · rename_i op hop
      have hw := hwf op (List.mem_of_getElem? hop)
      have hs' : (th.tick c).Safe W := hs
      have hop' : (th.tick c).prog[(th.tick c).ip]? = some op := hop
      cases op with
      | setField chk d i v => exact stepSetField_safe hW m _ c chk d i v hs' hop' hw
      | getField chk d i => exact stepGetField_safe hW m _ c chk d i hs' hop' hw
      | setBit d i b => exact stepSetBit_safe m _ d i b hs' hop' hw
      | swapBit d i b => exact stepSwapBit_safe m _ d i b hs' hop' hw
      | getBit d i => exact stepGetBit_safe m _ c d i hs' hop' hw

/-- all threads safe, programs fixed and well formed for the (constant) memory size -/
def SafeCfg (W sz : Nat) (cfg : Cfg) : Prop :=
  (cfg.mem.words.size = sz ∧ WordsOK W cfg.mem.words) ∧
  ∀ th ∈ cfg.thr, th.Safe W ∧ ∀ o ∈ th.prog, o.WF W sz

theorem safe_step {W sz : Nat} (hW : 0 < W) (cfg : Cfg) (h : SafeCfg W sz cfg) (e : Nat × Nat) :
    SafeCfg W sz (step W cfg e) := by
  unfold step
  cases hth : cfg.thr[e.1]? with
  | none => exact h
  | some th =>
    simp only []
    have hm := h.2 th (List.mem_of_getElem? hth)
    have hwf : ∀ o ∈ th.prog, o.WF W cfg.mem.words.size := by rw [h.1.1]; exact hm.2
    have hok := h.1.2
    have hsafe := stepT_safe hW cfg.mem th e.2 hm.1 hwf
    obtain ⟨hsz, hok', hprog, _⟩ := stepT_ok hW cfg.mem th e.2 hok hwf
    refine ⟨⟨by rw [hsz]; exact h.1.1, hok'⟩, ?_⟩
    intro th' hth'
    obtain ⟨t, ht⟩ := List.mem_iff_getElem?.1 hth'
    have ht' : (cfg.thr.set e.1 (stepT W cfg.mem th e.2).2.1)[t]? = some th' := ht
    rw [List.getElem?_set] at ht'
    by_cases hte : e.1 = t
    · rw [if_pos hte] at ht'
      split at ht'
      · cases ht'
        exact ⟨hsafe, by rw [hprog]; exact hm.2⟩
      · cases ht'
    · rw [if_neg hte] at ht'
      exact h.2 th' (List.mem_of_getElem? ht')

theorem safe_run {W sz : Nat} (hW : 0 < W) (sched : List (Nat × Nat)) (cfg : Cfg)
    (h : SafeCfg W sz cfg) : SafeCfg W sz (run W cfg sched) := by
  induction sched generalizing cfg with
  | nil => exact h
  | cons e es ih =>
    unfold run
    rw [List.foldl_cons]
    exact ih _ (safe_step hW cfg h e)

theorem safe_init (W : Nat) (ws0 : Array Nat) (progs : List (List Op))
    (hok : WordsOK W ws0) (hwf : ProgsWF W ws0.size progs) :
    SafeCfg W ws0.size (Cfg.init ws0 progs) := by
  refine ⟨⟨rfl, hok⟩, ?_⟩
  intro th hth
  simp only [Cfg.init, List.mem_map] at hth
  obtain ⟨p, hp, rfl⟩ := hth
  exact ⟨⟨rfl, trivial⟩, hwf p hp⟩

end Sux.Atomic
