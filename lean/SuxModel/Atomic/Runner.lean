import SuxModel.Base.Proto
import SuxModel.Atomic.Machine
import SuxModel.Atomic.EF
/-!
# Protocol runner `atomic` (C13)

```
case <n>
vec abfv <W> <bw> <len> <[words]>     declare an AtomicBitFieldVec<W> (appended to the flat memory)
vec abv <len> <[words]>               declare an AtomicBitVec (W = 64)
vec ef <n> <u>                        EliasFanoConcurrentBuilder::new(n, u): low_bits = vec 0, high_bits = vec 1
thread <t> set|setu <vec> <i> <v>     append a call to the program of thread t (t = 0, 1, 2, … in order)
thread <t> get|getu <vec> <i>
thread <t> bset|bswap <vec> <i> <b>
thread <t> bget <vec> <i>
thread <t> efset <i> <x>              EliasFanoConcurrentBuilder::set(i, x)
thread <t> none                       declare a thread with an empty program
plan ids|idx <[…]>                    harness-side decision list (written before the run); ignored here
schedule <[t0,t1,…]>                  thread ids in the order their sched_points were granted
efseq <n> <u> <[xs]>                  sequential EliasFanoBuilder: new(n, u), push every x, build
```
`schedule` runs the declared programs from the declared memory (it does not change the runner
state, so one case may carry many schedules).  A grant executes the granted micro-step (choice 0:
under the real scheduler every load sees the latest value) and then the thread's following
*silent* micro-steps (site 0: failing checks, second load of a two-word get), which the real
thread performs without asking the scheduler.  Reply:
`ok sites=[…];words=[…];res=[[…],…];st=<d|p|o|r per thread>;fail=[…]`.
-/
namespace Sux.Atomic
open Sux.Proto

structure RSt where
  W : Nat := 0
  words : Array Nat := #[]
  vecs : Array VecD := #[]
  progs : Array (List Op) := #[]
  ef : Option (Nat × Nat) := none

/-- perform the silent micro-steps (site 0) thread `t` has in front of it -/
def settle (W : Nat) : Nat → Cfg → Nat → Cfg
  | 0, cfg, _ => cfg
  | fuel + 1, cfg, t =>
    match cfg.thr[t]? with
    | none => cfg
    | some th =>
      if th.active && (stepT W cfg.mem th 0).2.2 == 0 then settle W fuel (step W cfg (t, 0)) t
      else cfg

def settleAll (W : Nat) (cfg : Cfg) : Cfg :=
  (List.range cfg.thr.length).foldl (fun c t => settle W (2 * (c.thr.getD t default).prog.length + 2) c t) cfg

/-- one grant: returns the site of the granted micro-step -/
def grant (W : Nat) (cfg : Cfg) (t : Nat) : Cfg × Nat :=
  match cfg.thr[t]? with
  | none => (cfg, 0)
  | some th =>
    let site := if th.active then (stepT W cfg.mem th 0).2.2 else 0
    let cfg := step W cfg (t, 0)
    (settle W (2 * th.prog.length + 2) cfg t, site)

def runGrants (W : Nat) : Cfg → List Nat → List Nat → Cfg × List Nat
  | cfg, [], acc => (cfg, acc.reverse)
  | cfg, t :: ts, acc =>
    let (cfg', s) := grant W cfg t
    runGrants W cfg' ts (s :: acc)

def fmtStatus (th : Thread) : String :=
  match th.st with
  | .panicked => "p"
  | .oob => "o"
  | .run => if th.ip = th.prog.length then "d" else "r"

def fmtCfg (cfg : Cfg) (sites : List Nat) : String :=
  let res := "[" ++ ",".intercalate (cfg.thr.map (fun th => fmtNatList th.res.reverse)) ++ "]"
  let st := String.join (cfg.thr.map fmtStatus)
  s!"ok sites={fmtNatList sites};words={fmtNatList cfg.mem.words.toList};res={res};st={st};fail={fmtNatList (cfg.thr.map (·.nfail))}"

def addOp (r : RSt) (t : Nat) (ops : List Op) : Option RSt :=
  if t < r.progs.size then some { r with progs := r.progs.modify t (· ++ ops) }
  else if t = r.progs.size then some { r with progs := r.progs.push ops }
  else none

def step' (r : RSt) (toks : List String) : RSt × String :=
  let bad := (r, "bad-op")
  match toks with
  | ["case", _] => ({}, "case")
  | ["vec", "abfv", w, bw, len, ws] =>
    match parseNat w, parseNat bw, parseNat len, parseNatList ws with
    | some w, some bw, some len, some ws =>
      if w = 0 ∨ (r.W ≠ 0 ∧ r.W ≠ w) then bad
      else
        let d : VecD := { base := r.words.size, nw := ws.length, bw := bw, len := len }
        ({ r with W := w, words := r.words ++ ws.toArray, vecs := r.vecs.push d }, s!"ok {r.vecs.size}")
    | _, _, _, _ => bad
  | ["vec", "abv", len, ws] =>
    match parseNat len, parseNatList ws with
    | some len, some ws =>
      if r.W ≠ 0 ∧ r.W ≠ 64 then bad
      else
        let d : VecD := { base := r.words.size, nw := ws.length, bw := 1, len := len }
        ({ r with W := 64, words := r.words ++ ws.toArray, vecs := r.vecs.push d }, s!"ok {r.vecs.size}")
    | _, _ => bad
  | ["vec", "ef", n, u] =>
    match parseNat n, parseNat u with
    | some n, some u =>
      if r.words.size ≠ 0 ∨ r.vecs.size ≠ 0 then bad
      else
        let lo := efLow 64 n u
        let hi := efHigh 64 n u
        ({ r with W := 64, words := Array.replicate (lo.nw + hi.nw) 0, vecs := #[lo, hi], ef := some (n, u) },
          s!"ok l={efL n u} lw={lo.nw} hl={hi.len} hw={hi.nw}")
    | _, _ => bad
  | ["thread", t, "none"] =>
    match parseNat t with
    | some t => match addOp r t [] with
      | some r' => (r', "ok") | none => bad
    | none => bad
  | ["thread", t, "efset", i, x] =>
    match parseNat t, parseNat i, parseNat x, r.ef with
    | some t, some i, some x, some (n, u) =>
      match addOp r t (efSetOps 64 n u i x) with
      | some r' => (r', "ok") | none => bad
    | _, _, _, _ => bad
  | ["thread", t, op, v, i] =>
    match parseNat t, parseNat v, parseNat i with
    | some t, some v, some i =>
      match r.vecs[v]? with
      | none => bad
      | some d =>
        let o : Option Op := match op with
          | "get" => some (.getField true d i)
          | "getu" => some (.getField false d i)
          | "bget" => some (.getBit d i)
          | _ => none
        match o with
        | none => bad
        | some o => match addOp r t [o] with
          | some r' => (r', "ok") | none => bad
    | _, _, _ => bad
  | ["thread", t, op, v, i, x] =>
    match parseNat t, parseNat v, parseNat i, parseNat x with
    | some t, some v, some i, some x =>
      match r.vecs[v]? with
      | none => bad
      | some d =>
        let o : Option Op := match op with
          | "set" => some (.setField true d i x)
          | "setu" => some (.setField false d i x)
          | "bset" => if x ≤ 1 then some (.setBit d i (x == 1)) else none
          | "bswap" => if x ≤ 1 then some (.swapBit d i (x == 1)) else none
          | _ => none
        match o with
        | none => bad
        | some o => match addOp r t [o] with
          | some r' => (r', "ok") | none => bad
    | _, _, _, _ => bad
  | ["plan", _, _] => (r, "ok")
  | ["efseq", n, u, xs] =>
    match parseNat n, parseNat u, parseNatList xs with
    | some n, some u, some xs =>
      match efSeqBuild n u xs with
      | .ok b => (r, s!"ok l={b.low.bw} low={fmtNatList b.low.words.toList} hl={b.high.len} high={fmtNatList b.high.words.toList}")
      | .panic => (r, "panic")
      | .oob => (r, "oob")
    | _, _, _ => bad
  | ["schedule", ts] =>
    match parseNatList ts with
    | some ts =>
      if r.W = 0 then bad
      else
        let cfg := settleAll r.W (Cfg.init r.words r.progs.toList)
        let (cfg', sites) := runGrants r.W cfg ts []
        (r, fmtCfg cfg' sites)
    | none => bad
  | _ => bad

def runner : Runner := { σ := RSt, init := {}, step := step' }

end Sux.Atomic
