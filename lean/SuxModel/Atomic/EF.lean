import SuxModel.Atomic.Spec
import SuxModel.BitVec.Model
/-!
# Sequential and concurrent Elias–Fano builders (C13, last sentence)

`EfSeq` mirrors `EliasFanoBuilder::{new, push, build}` (src/dict/elias_fano.rs) on top of the
single-threaded models `BFV.set` (`BitFieldVec::set`) and `BV.set` (`BitVec::set`), `usize` = 64
bits.  `efProgs` compiles a distribution of the indices over threads into the calls
`EliasFanoConcurrentBuilder::set` performs (`efSetOps`, `Machine.lean`).
-/
namespace Sux.Atomic

structure EfSeq where
  low : BFV.St
  high : BV.St
  last : Nat
  count : Nat

/-- `EliasFanoBuilder::new(n, u)` -/
def efSeqNew (n u : Nat) : EfSeq :=
  let l := efL n u
  { low := BFV.new 64 l n, high := BV.new (n + (u >>> l) + 1), last := 0, count := 0 }

/-- `EliasFanoBuilder::push` (the three checks, then `push_unchecked`) -/
def efSeqPush (n u : Nat) (b : EfSeq) (x : Nat) : Out EfSeq :=
  if b.count = n then .panic
  else if x > u then .panic
  else if x < b.last then .panic
  else
    let l := efL n u
    match BFV.set 64 b.low b.count (x &&& lowMask l) with
    | .ok low =>
      match BV.set b.high ((x >>> l) + b.count) true with
      | .ok high => .ok { low := low, high := high, last := x, count := b.count + 1 }
      | .panic => .panic
      | .oob => .oob
    | .panic => .panic
    | .oob => .oob

def efSeqPushAll (n u : Nat) : EfSeq → List Nat → Out EfSeq
  | b, [] => .ok b
  | b, x :: xs =>
    match efSeqPush n u b x with
    | .ok b' => efSeqPushAll n u b' xs
    | .panic => .panic
    | .oob => .oob

/-- `new`, `push` every value, `build` (which panics unless `n` values were pushed) -/
def efSeqBuild (n u : Nat) (xs : List Nat) : Out EfSeq :=
  match efSeqPushAll n u (efSeqNew n u) xs with
  | .ok b => if b.count ≠ n then .panic else .ok b
  | .panic => .panic
  | .oob => .oob

/-- the programs of the threads: thread `t` calls `set(i, xs[i])` for the indices `parts[t]` -/
def efProgs (n u : Nat) (xs : List Nat) (parts : List (List Nat)) : List (List Op) :=
  parts.map (fun part => part.flatMap (fun i => efSetOps 64 n u i (xs.getD i 0)))

/-- `EliasFanoConcurrentBuilder::new(n, u)`: zeroed `low_bits` followed by zeroed `high_bits` -/
def efMem (n u : Nat) : Array Nat := Array.replicate ((efLow 64 n u).nw + (efHigh 64 n u).nw) 0

end Sux.Atomic
