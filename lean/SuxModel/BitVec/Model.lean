import SuxModel.Base.Bits
/-!
# Model of `sux::bits::BitVec` / `AtomicBitVec` (src/bits/bit_vec.rs)

`BITS = usize::BITS = 64`.  Every function mirrors the Rust method of the same name;
`&mut self` methods return the new state.  `get_unchecked`-style accesses go through
`Out.readU` (failure = `oob`), safe slice indexing through `Out.readS` (failure = `panic`).

Single-threaded `AtomicBitVec` methods perform the same word operations
(`fetch_or`/`fetch_and`/`fetch_xor`/`load`/`store`) and are modelled by the same functions
(`aset = setU` etc.); the concurrent semantics is in `SuxModel/Atomic`.
-/
namespace Sux.BV

structure St where
  words : Array Nat
  len : Nat
deriving Repr, Inhabited, DecidableEq

/-- bit `k` of the backing store -/
def St.bit (s : St) (k : Nat) : Bool := bitAt 64 s.words k

/-- abstraction: the `Vec<bool>` the bit vector stands for -/
def St.abs (s : St) : List Bool := (List.range s.len).map s.bit

/-- representation invariant (what the safe constructors establish and `from_raw_parts` demands) -/
def St.Inv (s : St) : Prop := s.len ≤ 64 * s.words.size ∧ WordsOK 64 s.words

/-! ## element access -/

/-- `get_unchecked` -/
def getU (s : St) (i : Nat) : Out Bool := do
  let w ← Out.readU s.words (i / 64)
  pure (((w >>> (i % 64)) &&& 1) != 0)

/-- `get` (also `Index`, `AtomicBitVec::get`) -/
def get (s : St) (i : Nat) : Out Bool :=
  if i ≥ s.len then .panic else getU s i

/-- `set_unchecked` (also `AtomicBitVec::set_unchecked`: `fetch_or` / `fetch_and`) -/
def setU (s : St) (i : Nat) (v : Bool) : Out St := do
  let w ← Out.readU s.words (i / 64)
  let w' := if v then w ||| (1 <<< (i % 64)) else w &&& notW 64 (1 <<< (i % 64))
  pure { s with words := s.words.setIfInBounds (i / 64) w' }

/-- `set` -/
def set (s : St) (i : Nat) (v : Bool) : Out St :=
  if i ≥ s.len then .panic else setU s i v

/-- `AtomicBitVec::swap`: returns the old bit -/
def swap (s : St) (i : Nat) (v : Bool) : Out (St × Bool) :=
  if i ≥ s.len then .panic else do
    let w ← Out.readU s.words (i / 64)
    let s' ← setU s i v
    pure (s', ((w >>> (i % 64)) &&& 1) != 0)

/-! ## constructors -/

/-- `with_value` (`new len = with_value len false`) -/
def withValue (len : Nat) (value : Bool) : St :=
  let n := (len + 63) / 64
  let extra := n * 64 - len
  let wv := if value then allOnes 64 else 0
  let ws := Array.replicate n wv
  let ws := if extra > 0 then ws.setIfInBounds (n - 1) (wv >>> extra) else ws
  { words := ws, len := len }

def new (len : Nat) : St := withValue len false

/-- `with_capacity`: no words are materialised -/
def withCapacity (_cap : Nat) : St := { words := #[], len := 0 }

/-! ## growth -/

/-- `push` -/
def push (s : St) (b : Bool) : Out St := do
  let ws := if s.words.size * 64 == s.len then s.words.push 0 else s.words
  let wi := s.len / 64
  let bi := s.len % 64
  let w ← Out.readS ws wi
  let w1 := w &&& notW 64 (1 <<< bi)
  let w2 := w1 ||| ((if b then 1 else 0) <<< bi)
  pure { words := ws.setIfInBounds wi w2, len := s.len + 1 }

/-- `pop` -/
def pop (s : St) : Out (St × Option Bool) :=
  if s.len == 0 then .ok (s, none) else do
    let len' := s.len - 1
    let w ← Out.readS s.words (len' / 64)
    pure ({ s with len := len' }, some (((w >>> (len' % 64)) &&& 1) != 0))

/-- `for i in start..start+n { set_unchecked(i, v) }` -/
def setRange (v : Bool) : Nat → Nat → St → Out St
  | _, 0, s => .ok s
  | start, n + 1, s => do
    let s' ← setU s start v
    setRange v (start + 1) n s'

/-- `resize` -/
def resize (s : St) (newLen : Nat) (value : Bool) : Out St :=
  if newLen > s.len then do
    let ws := if newLen > s.words.size * 64
      then s.words ++ Array.replicate ((newLen + 63) / 64 - s.words.size) 0 else s.words
    let s' ← setRange value s.len (newLen - s.len) { s with words := ws }
    pure { s' with len := newLen }
  else .ok { s with len := newLen }

/-- `extend` / `from_iter` / the list form of `bit_vec!` -/
def extend : St → List Bool → Out St
  | s, [] => .ok s
  | s, b :: bs => do
    let s' ← push s b
    extend s' bs

/-! ## whole-vector operations -/

/-- `fill` / `par_fill` / `AtomicBitVec::fill` on the word array -/
def fillWords (ws : Array Nat) (len : Nat) (value : Bool) : Out (Array Nat) :=
  let full := len / 64
  let residual := len % 64
  let wv := if value then allOnes 64 else 0
  if full > ws.size then .panic
  else
    let ws1 := ws.mapIdx (fun i w => if i < full then wv else w)
    if residual != 0 then do
      let w ← Out.readS ws1 full
      let mask := lowMask residual
      pure (ws1.setIfInBounds full ((w &&& notW 64 mask) ||| (wv &&& mask)))
    else .ok ws1

def fill (s : St) (value : Bool) : Out St := do
  let ws ← fillWords s.words s.len value
  pure { s with words := ws }

def reset (s : St) : Out St := fill s false

/-- `flip` / `par_flip` / `AtomicBitVec::flip` -/
def flip (s : St) : Out St :=
  let full := s.len / 64
  let residual := s.len % 64
  if full > s.words.size then .panic
  else
    let ws1 := s.words.mapIdx (fun i w => if i < full then notW 64 w else w)
    if residual != 0 then do
      let w ← Out.readS ws1 full
      let mask := lowMask residual
      pure { s with words := ws1.setIfInBounds full ((w &&& notW 64 mask) ||| (notW 64 w &&& mask)) }
    else .ok { s with words := ws1 }

/-- sum of the popcounts of the first `n` words -/
def popPrefix (ws : Array Nat) : Nat → Nat
  | 0 => 0
  | n + 1 => popPrefix ws n + popcount 64 (ws.getD n 0)

/-- `count_ones` / `par_count_ones` -/
def countOnes (s : St) : Out Nat :=
  let full := s.len / 64
  let residual := s.len % 64
  if full > s.words.size then .panic
  else
    let base := popPrefix s.words full
    if residual != 0 then do
      let w ← Out.readS s.words full
      pure (base + popcount 64 (shlW 64 w (64 - residual)))
    else .ok base

/-- `count_zeros` (trait default: `len - count_ones`) -/
def countZeros (s : St) : Out Nat := do
  let c ← countOnes s
  pure (s.len - c)

/-- `words[..n] == words'[..n]` for the first `n` words -/
def prefixEq (a b : Array Nat) : Nat → Bool
  | 0 => true
  | n + 1 => prefixEq a b n && (a.getD n 0 == b.getD n 0)

/-- `PartialEq` -/
def eq (a b : St) : Out Bool :=
  if a.len != b.len then .ok false
  else
    let full := a.len / 64
    if full > a.words.size || full > b.words.size then .panic
    else if !prefixEq a.words b.words full then .ok false
    else
      let residual := a.len % 64
      if residual == 0 then .ok true
      else do
        let x ← Out.readS a.words full
        let y ← Out.readS b.words full
        pure (shlW 64 (x ^^^ y) (64 - residual) == 0)

/-! ## iterators -/

/-- `BitIterator`: `n` further calls of `next` starting at `pos` -/
def iterAux (s : St) : Nat → Nat → Out (List Bool)
  | 0, _ => .ok []
  | n + 1, pos => do
    let b ← getU s pos
    let r ← iterAux s n (pos + 1)
    pure (b :: r)

/-- `iter().collect()` -/
def iterAll (s : St) : Out (List Bool) := iterAux s s.len 0

/-- state of `OnesIterator` / `ZerosIterator` -/
structure WordIt where
  wi : Nat
  w : Nat
deriving Repr, DecidableEq

/-- word `i` as seen by the iterator (`neg` = `ZerosIterator`) -/
def itWord (neg : Bool) (w : Nat) : Nat := if neg then notW 64 w else w

/-- `OnesIterator::new` / `ZerosIterator::new` -/
def itNew (ws : Array Nat) (neg : Bool) : Out WordIt :=
  if ws.size == 0 then .ok { wi := 0, w := 0 }
  else do
    let w ← Out.readU ws 0
    pure { wi := 0, w := itWord neg w }

/-- the `while self.word == 0` loop of `next`; `none` = iterator exhausted -/
def itSkip (ws : Array Nat) (neg : Bool) (wi w : Nat) : Out (Option WordIt) :=
  if w != 0 then .ok (some { wi := wi, w := w })
  else if wi + 1 ≥ ws.size then .ok none
  else do
    let w' ← Out.readU ws (wi + 1)
    itSkip ws neg (wi + 1) (itWord neg w')
termination_by ws.size - wi

/-- one call of `next` -/
def itNext (ws : Array Nat) (len : Nat) (neg : Bool) (it : WordIt) : Out (Option (Nat × WordIt)) := do
  match ← itSkip ws neg it.wi it.w with
  | none => pure none
  | some it' =>
    let res := it'.wi * 64 + ctz 64 it'.w
    if res ≥ len then pure none
    else pure (some (res, { it' with w := it'.w &&& (it'.w - 1) }))

/-- repeated `next` until `None` (at most `fuel` items) -/
def itCollect (ws : Array Nat) (len : Nat) (neg : Bool) : Nat → WordIt → Out (List Nat)
  | 0, _ => .ok []
  | fuel + 1, it => do
    match ← itNext ws len neg it with
    | none => pure []
    | some (r, it') =>
      let rest ← itCollect ws len neg fuel it'
      pure (r :: rest)

/-- `iter_ones().collect()` -/
def iterOnes (s : St) : Out (List Nat) := do
  let it ← itNew s.words false
  itCollect s.words s.len false (s.len + 1) it

/-- `iter_zeros().collect()` -/
def iterZeros (s : St) : Out (List Nat) := do
  let it ← itNew s.words true
  itCollect s.words s.len true (s.len + 1) it

end Sux.BV
