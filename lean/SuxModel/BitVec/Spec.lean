import SuxModel.BitVec.Model
/-!
# Specification of `BitVec`: a `List Bool` (the `Vec<bool>` of property C06) and the op language
-/
namespace Sux.BV

inductive Op where
  | push (b : Bool)
  | pop
  | set (i : Nat) (b : Bool)
  | swap (i : Nat) (b : Bool)       -- AtomicBitVec::swap (single-threaded)
  | get (i : Nat)
  | resize (n : Nat) (b : Bool)
  | fill (b : Bool)
  | flip
  | reset
  | extend (bs : List Bool)
  | iter
  | ones
  | zeros
  | countOnes
  | countZeros
deriving Repr

inductive Obs where
  | unit
  | bool (b : Bool)
  | obool (o : Option Bool)
  | bools (l : List Bool)
  | nats (l : List Nat)
  | nat (n : Nat)
deriving Repr, DecidableEq

/-- one op on the model -/
def step (s : St) : Op → Out (St × Obs)
  | .push b => do let s' ← push s b; pure (s', .unit)
  | .pop => do let (s', o) ← pop s; pure (s', .obool o)
  | .set i b => do let s' ← set s i b; pure (s', .unit)
  | .swap i b => do let (s', o) ← swap s i b; pure (s', .bool o)
  | .get i => do let b ← get s i; pure (s, .bool b)
  | .resize n b => do let s' ← resize s n b; pure (s', .unit)
  | .fill b => do let s' ← fill s b; pure (s', .unit)
  | .flip => do let s' ← flip s; pure (s', .unit)
  | .reset => do let s' ← reset s; pure (s', .unit)
  | .extend bs => do let s' ← extend s bs; pure (s', .unit)
  | .iter => do let l ← iterAll s; pure (s, .bools l)
  | .ones => do let l ← iterOnes s; pure (s, .nats l)
  | .zeros => do let l ← iterZeros s; pure (s, .nats l)
  | .countOnes => do let n ← countOnes s; pure (s, .nat n)
  | .countZeros => do let n ← countZeros s; pure (s, .nat n)

/-- positions `k < l.length` with `l[k] = v` -/
def positions (l : List Bool) (v : Bool) : List Nat :=
  (List.range l.length).filter (fun k => l.getD k false == v)

/-- the same op on a `Vec<bool>`; `none` = the documented panic (index out of range) -/
def specStep (l : List Bool) : Op → Option (List Bool × Obs)
  | .push b => some (l ++ [b], .unit)
  | .pop => some (l.dropLast, .obool l.getLast?)
  | .set i b => if i < l.length then some (l.set i b, .unit) else none
  | .swap i b => if i < l.length then some (l.set i b, .bool (l.getD i false)) else none
  | .get i => if i < l.length then some (l, .bool (l.getD i false)) else none
  | .resize n b => some (l.take n ++ List.replicate (n - l.length) b, .unit)
  | .fill b => some (List.replicate l.length b, .unit)
  | .flip => some (l.map (!·), .unit)
  | .reset => some (List.replicate l.length false, .unit)
  | .extend bs => some (l ++ bs, .unit)
  | .iter => some (l, .bools l)
  | .ones => some (l, .nats (positions l true))
  | .zeros => some (l, .nats (positions l false))
  | .countOnes => some (l, .nat (l.count true))
  | .countZeros => some (l, .nat (l.count false))

/-- ops that may not touch storage at or beyond `len` (C14 write frame) -/
def Op.nonGrowing : Op → Bool
  | .push _ | .pop | .resize _ _ | .extend _ => false
  | _ => true

/-- run a history on the model; stops at the first panic/oob (state is then unchanged by convention) -/
def run (s : St) : List Op → Out (St × List Obs)
  | [] => .ok (s, [])
  | op :: ops => do
    let (s', o) ← step s op
    let (s'', os) ← run s' ops
    pure (s'', o :: os)

def specRun (l : List Bool) : List Op → Option (List Bool × List Obs)
  | [] => some (l, [])
  | op :: ops =>
    match specStep l op with
    | none => none
    | some (l', o) =>
      match specRun l' ops with
      | none => none
      | some (l'', os) => some (l'', o :: os)

end Sux.BV
