import SuxModel.BitVec.LemmasRead
/-!
# Lemmas for C06: `OnesIterator` / `ZerosIterator` (`iter_ones`, `iter_zeros`)

The word-skipping state machine yields exactly the positions `k < len` whose bit is `!neg`,
in increasing order, whatever lies in storage at or beyond `len`; it never reads out of bounds
(including on the empty vector).
-/
namespace Sux.BV

/-- what `OnesIterator` (`neg = false`) / `ZerosIterator` (`neg = true`) looks for at position `k` -/
def hit (ws : Array Nat) (neg : Bool) (k : Nat) : Bool := bitAt 64 ws k != neg

theorem testBit_itWord (neg : Bool) (w j : Nat) (hj : j < 64) :
    (itWord neg w).testBit j = (w.testBit j != neg) := by
  cases neg
  · simp [itWord]
  · simp [itWord, testBit_notW, hj]

theorem itWord_lt (neg : Bool) (w : Nat) (hw : w < 2 ^ 64) : itWord neg w < 2 ^ 64 := by
  cases neg
  · exact hw
  · exact notW_lt 64 w hw

/-- iterator invariant: `it.w` is the view of word `it.wi` with the positions below `p` cleared -/
structure ItInv (ws : Array Nat) (neg : Bool) (it : WordIt) (p : Nat) : Prop where
  wi_lt : it.wi < ws.size
  w_lt : it.w < 2 ^ 64
  lo : 64 * it.wi ≤ p
  hi : p ≤ 64 * it.wi + 64
  bits : ∀ j, j < 64 → it.w.testBit j = (decide (p ≤ 64 * it.wi + j) && hit ws neg (64 * it.wi + j))

theorem ItInv_start (ws : Array Nat) (hok : WordsOK 64 ws) (neg : Bool) (wi : Nat)
    (h : wi < ws.size) :
    ItInv ws neg { wi := wi, w := itWord neg (ws.getD wi 0) } (64 * wi) := by
  refine ⟨h, itWord_lt _ _ (getD_lt_of_WordsOK hok wi), Nat.le_refl _, Nat.le_add_right _ _, ?_⟩
  intro j hj
  simp only
  rw [testBit_itWord _ _ _ hj]
  have h1 : (64 * wi + j) / 64 = wi := by omega
  have h2 : (64 * wi + j) % 64 = j := by omega
  have h3 : 64 * wi ≤ 64 * wi + j := by omega
  simp [hit, bitAt, h1, h2]

theorem itSkip_spec (ws : Array Nat) (hok : WordsOK 64 ws) (neg : Bool) :
    ∀ (n wi w p : Nat), ws.size - wi = n → ItInv ws neg { wi := wi, w := w } p →
      (itSkip ws neg wi w = .ok none ∧ ∀ k, p ≤ k → k < 64 * ws.size → hit ws neg k = false) ∨
      (∃ it' p', itSkip ws neg wi w = .ok (some it') ∧ it'.w ≠ 0 ∧ ItInv ws neg it' p' ∧ p ≤ p' ∧
        ∀ k, p ≤ k → k < p' → hit ws neg k = false) := by
  intro n
  induction n with
  | zero => intro wi w p hn hi; have := hi.wi_lt; simp only at this; omega
  | succ n ih =>
    intro wi w p hn hi
    have hwi : wi < ws.size := hi.wi_lt
    have hlo : 64 * wi ≤ p := hi.lo
    have hhi : p ≤ 64 * wi + 64 := hi.hi
    have hbits := hi.bits
    simp only at hbits
    unfold itSkip
    by_cases hw : w = 0
    · -- the current word is exhausted: nothing in [p, 64 wi + 64)
      have hnone : ∀ k, p ≤ k → k < 64 * wi + 64 → hit ws neg k = false := by
        intro k h1 h2
        have hb := hbits (k - 64 * wi) (by omega)
        have e : 64 * wi + (k - 64 * wi) = k := by omega
        rw [e, hw, Nat.zero_testBit] at hb
        have : decide (p ≤ k) = true := by simp [h1]
        rw [this, Bool.true_and] at hb
        exact hb.symm
      have hw' : (w != 0) = false := by simp [hw]
      simp only [hw', Bool.false_eq_true, if_false]
      by_cases hlast : wi + 1 ≥ ws.size
      · left
        simp only [hlast, if_true, true_and]
        intro k h1 h2
        exact hnone k h1 (by omega)
      · have hlt : wi + 1 < ws.size := by omega
        simp only [hlast, if_false, readU_eq hlt, Out.bind_ok]
        rcases ih (wi + 1) (itWord neg (ws.getD (wi + 1) 0)) (64 * (wi + 1)) (by omega)
          (ItInv_start ws hok neg (wi + 1) hlt) with ⟨h1, h2⟩ | ⟨it', p', h1, h2, h3, h4, h5⟩
        · left
          refine ⟨h1, ?_⟩
          intro k hk1 hk2
          by_cases hk : k < 64 * wi + 64
          · exact hnone k hk1 hk
          · exact h2 k (by omega) hk2
        · right
          refine ⟨it', p', h1, h2, h3, by omega, ?_⟩
          intro k hk1 hk2
          by_cases hk : k < 64 * wi + 64
          · exact hnone k hk1 hk
          · exact h5 k (by omega) hk2
    · right
      have hw' : (w != 0) = true := by simp [hw]
      simp only [hw', if_true]
      exact ⟨{ wi := wi, w := w }, p, rfl, hw, hi, Nat.le_refl _, fun k h1 h2 => by omega⟩


theorem itNext_spec (ws : Array Nat) (hok : WordsOK 64 ws) (len : Nat) (neg : Bool)
    (it : WordIt) (p : Nat) (hlen : len ≤ 64 * ws.size) (hi : ItInv ws neg it p) :
    (itNext ws len neg it = .ok none ∧ ∀ k, p ≤ k → k < len → hit ws neg k = false) ∨
    (∃ r it', itNext ws len neg it = .ok (some (r, it')) ∧ p ≤ r ∧ r < len ∧
      hit ws neg r = true ∧ (∀ k, p ≤ k → k < r → hit ws neg k = false) ∧
      ItInv ws neg it' (r + 1)) := by
  unfold itNext
  rcases itSkip_spec ws hok neg _ it.wi it.w p rfl hi with
    ⟨h1, h2⟩ | ⟨it', p', h1, h2, h3, h4, h5⟩
  · left
    simp only [h1, Out.bind_ok, Out.pure_eq, true_and]
    intro k hk1 hk2
    exact h2 k hk1 (by omega)
  · simp only [h1, Out.bind_ok]
    have hpos : 0 < it'.w := Nat.pos_of_ne_zero h2
    obtain ⟨c1, c2, c3⟩ := ctz_spec 64 it'.w hpos h3.w_lt
    have hlo := h3.lo
    have hhi := h3.hi
    have hb := h3.bits
    -- the candidate position
    have hc := hb _ c1
    rw [c2] at hc
    have hc' := hc.symm
    rw [Bool.and_eq_true, decide_eq_true_iff] at hc'
    have hbelow : ∀ k, p ≤ k → k < it'.wi * 64 + ctz 64 it'.w → hit ws neg k = false := by
      intro k hk1 hk2
      by_cases hk : k < p'
      · exact h5 k hk1 hk
      · have hj := hb (k - 64 * it'.wi) (by omega)
        have e : 64 * it'.wi + (k - 64 * it'.wi) = k := by omega
        rw [e, c3 _ (by omega)] at hj
        have : decide (p' ≤ k) = true := by simp; omega
        rw [this, Bool.true_and] at hj
        exact hj.symm
    by_cases hge : it'.wi * 64 + ctz 64 it'.w ≥ len
    · left
      simp only [hge, if_true, Out.pure_eq, true_and]
      intro k hk1 hk2
      exact hbelow k hk1 (by omega)
    · right
      simp only [hge, if_false, Out.pure_eq]
      refine ⟨_, _, rfl, by omega, by omega, ?_, hbelow, ?_⟩
      · have e : it'.wi * 64 + ctz 64 it'.w = 64 * it'.wi + ctz 64 it'.w := by omega
        rw [e]; exact hc'.2
      · refine ⟨h3.wi_lt, and_lt_left _ h3.w_lt, ?_, ?_, ?_⟩
        · show 64 * it'.wi ≤ _; omega
        · show _ ≤ 64 * it'.wi + 64; omega
        · intro j hj
          show (it'.w &&& (it'.w - 1)).testBit j = _
          rw [testBit_and_pred _ _ c2 c3]
          by_cases hjc : j < ctz 64 it'.w
          · rw [c3 j hjc]
            have : ¬ (it'.wi * 64 + ctz 64 it'.w + 1 ≤ 64 * it'.wi + j) := by omega
            simp [this]
          · by_cases hje : j = ctz 64 it'.w
            · subst hje
              have : ¬ (it'.wi * 64 + ctz 64 it'.w + 1 ≤ 64 * it'.wi + ctz 64 it'.w) := by omega
              simp [this]
            · rw [hb j hj]
              have a1 : p' ≤ 64 * it'.wi + j := by omega
              have a2 : it'.wi * 64 + ctz 64 it'.w + 1 ≤ 64 * it'.wi + j := by omega
              simp [a1, a2, hje]

theorem filter_range'_none (P : Nat → Bool) (p len : Nat)
    (h : ∀ k, p ≤ k → k < len → P k = false) : (List.range' p (len - p)).filter P = [] := by
  rw [List.filter_eq_nil_iff]
  intro k hk
  rw [List.mem_range'_1] at hk
  rw [h k hk.1 (by omega)]
  simp

theorem filter_range'_first (P : Nat → Bool) (p r len : Nat) (h1 : p ≤ r) (h2 : r < len)
    (h3 : P r = true) (h : ∀ k, p ≤ k → k < r → P k = false) :
    (List.range' p (len - p)).filter P = r :: (List.range' (r + 1) (len - (r + 1))).filter P := by
  have e1 : len - p = (r - p) + (len - r) := by omega
  have e2 : len - r = (len - (r + 1)) + 1 := by omega
  have e3 : p + (r - p) = r := by omega
  rw [e1, ← List.range'_append_1, List.filter_append, e3, e2, List.range'_succ,
    List.filter_cons_of_pos h3]
  have := filter_range'_none P p r h
  rw [this, List.nil_append]

theorem itCollect_spec (ws : Array Nat) (hok : WordsOK 64 ws) (len : Nat) (neg : Bool)
    (hlen : len ≤ 64 * ws.size) : ∀ (fuel : Nat) (it : WordIt) (p : Nat), ItInv ws neg it p →
      len - p ≤ fuel →
      itCollect ws len neg fuel it = .ok ((List.range' p (len - p)).filter (hit ws neg)) := by
  intro fuel
  induction fuel with
  | zero =>
    intro it p _ hf
    have : len - p = 0 := by omega
    rw [this]; rfl
  | succ fuel ih =>
    intro it p hi hf
    unfold itCollect
    rcases itNext_spec ws hok len neg it p hlen hi with
      ⟨h1, h2⟩ | ⟨r, it', h1, h2, h3, h4, h5, h6⟩
    · simp only [h1, Out.bind_ok, Out.pure_eq]
      rw [filter_range'_none _ _ _ h2]
    · simp only [h1, Out.bind_ok, ih it' (r + 1) h6 (by omega), Out.pure_eq]
      rw [filter_range'_first _ p r len h2 h3 h4 h5]

theorem positions_abs (s : St) (neg : Bool) :
    positions s.abs (!neg) = (List.range' 0 (s.len - 0)).filter (hit s.words neg) := by
  unfold positions
  rw [abs_length, List.range_eq_range', Nat.sub_zero]
  apply List.filter_congr
  intro k hk
  rw [List.mem_range'_1] at hk
  rw [abs_getD s k (by omega)]
  unfold hit St.bit
  cases bitAt 64 s.words k <;> cases neg <;> rfl

theorem iterGen_eq (s : St) (hs : s.Inv) (neg : Bool) :
    (do let it ← itNew s.words neg; itCollect s.words s.len neg (s.len + 1) it)
      = .ok (positions s.abs (!neg)) := by
  by_cases h0 : s.words.size = 0
  · have hl : s.len = 0 := by have := hs.1; omega
    have habs : s.abs = [] := List.eq_nil_of_length_eq_zero (by rw [abs_length, hl])
    simp only [itNew, h0, beq_self_eq_true, if_true, Out.bind_ok, hl, Nat.zero_add, habs]
    simp [itCollect, itNext, itSkip, h0, positions]
  · have hpos : 0 < s.words.size := by omega
    have h0' : (s.words.size == 0) = false := by simp [h0]
    simp only [itNew, h0', Bool.false_eq_true, if_false, readU_eq hpos, Out.bind_ok, Out.pure_eq]
    rw [itCollect_spec s.words hs.2 s.len neg hs.1 (s.len + 1) _ (64 * 0)
      (ItInv_start s.words hs.2 neg 0 hpos) (by omega), positions_abs]

theorem iterOnes_eq (s : St) (hs : s.Inv) : iterOnes s = .ok (positions s.abs true) :=
  iterGen_eq s hs false

theorem iterZeros_eq (s : St) (hs : s.Inv) : iterZeros s = .ok (positions s.abs false) :=
  iterGen_eq s hs true

end Sux.BV
