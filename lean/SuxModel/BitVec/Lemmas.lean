import SuxModel.Base.BitsLemmas
import SuxModel.BitVec.Spec
/-!
# Lemmas for C06: every `BitVec` method, bit by bit (no assumption on storage beyond `len`)
-/
namespace Sux.BV

/-! ## the abstraction -/

theorem abs_length (s : St) : s.abs.length = s.len := by simp [St.abs]

theorem abs_getElem (s : St) (k : Nat) (h : k < s.abs.length) : s.abs[k] = s.bit k := by
  simp [St.abs]

theorem abs_getD (s : St) (k : Nat) (h : k < s.len) : s.abs.getD k false = s.bit k := by
  have h' : k < s.abs.length := by rw [abs_length]; exact h
  rw [List.getD_eq_getElem?_getD, List.getElem?_eq_getElem h', Option.getD_some, abs_getElem]

theorem abs_eq_of {s : St} {l : List Bool} (hl : s.len = l.length)
    (h : ∀ k (hk : k < l.length), s.bit k = l[k]) : s.abs = l := by
  apply List.ext_getElem
  · rw [abs_length, hl]
  · intro k h1 h2
    rw [abs_getElem, h k h2]

theorem abs_congr {s t : St} (hl : s.len = t.len) (h : ∀ k, k < s.len → s.bit k = t.bit k) :
    s.abs = t.abs := by
  apply abs_eq_of
  · rw [abs_length, hl]
  · intro k hk
    rw [abs_length] at hk
    rw [abs_getElem, h k (by omega)]

theorem inv_div_lt {s : St} (h : s.Inv) {i : Nat} (hi : i < s.len) : i / 64 < s.words.size := by
  have := h.1; omega

/-! ## single-word bit updates -/

theorem testBit_setbit (w b : Nat) (v : Bool) (j : Nat) (hj : j < 64) :
    (if v then w ||| (1 <<< b) else w &&& notW 64 (1 <<< b)).testBit j
      = if j = b then v else w.testBit j := by
  cases v
  · simp only [Bool.false_eq_true, if_false, Nat.testBit_and, testBit_notW, testBit_one_shl]
    by_cases h : j = b
    · subst h; simp [hj]
    · simp [h, hj]
  · simp only [if_true, Nat.testBit_or, testBit_one_shl]
    by_cases h : j = b <;> simp [h]

theorem setbit_lt (w b : Nat) (v : Bool) (hw : w < 2 ^ 64) (hb : b < 64) :
    (if v then w ||| (1 <<< b) else w &&& notW 64 (1 <<< b)) < 2 ^ 64 := by
  cases v
  · simp only [Bool.false_eq_true, if_false]; exact and_lt_left _ hw
  · simp only [if_true]; exact or_lt hw (one_shl_lt hb)

theorem testBit_pushbit (w bi : Nat) (b : Bool) (j : Nat) (hj : j < 64) :
    ((w &&& notW 64 (1 <<< bi)) ||| ((if b then 1 else 0) <<< bi)).testBit j
      = if j = bi then b else w.testBit j := by
  cases b
  · simp only [Bool.false_eq_true, if_false, Nat.zero_shiftLeft, Nat.or_zero, Nat.testBit_and,
      testBit_notW, testBit_one_shl]
    by_cases h : j = bi
    · subst h; simp [hj]
    · simp [h, hj]
  · simp only [if_true, Nat.testBit_or, Nat.testBit_and, testBit_notW, testBit_one_shl]
    by_cases h : j = bi
    · subst h; simp [hj]
    · simp [h, hj]

theorem pushbit_lt (w bi : Nat) (b : Bool) (hw : w < 2 ^ 64) (hb : bi < 64) :
    ((w &&& notW 64 (1 <<< bi)) ||| ((if b then 1 else 0) <<< bi)) < 2 ^ 64 := by
  apply or_lt (and_lt_left _ hw)
  cases b
  · simp
  · simp only [if_true]; exact one_shl_lt hb

/-! ## get / set / swap -/

theorem getU_eq (s : St) (i : Nat) (h : i / 64 < s.words.size) : getU s i = .ok (s.bit i) := by
  simp only [getU, readU_eq h, Out.bind_ok, Out.pure_eq, getbit_eq]
  rfl

theorem get_eq (s : St) (hs : s.Inv) (i : Nat) (h : i < s.len) : get s i = .ok (s.bit i) := by
  have : ¬ i ≥ s.len := by omega
  simp only [get, this, if_false]
  exact getU_eq s i (inv_div_lt hs h)

theorem get_panic (s : St) (i : Nat) (h : s.len ≤ i) : get s i = .panic := by
  simp [get, h]

/-- the state written by `set_unchecked` -/
def setState (s : St) (i : Nat) (v : Bool) : St :=
  { s with
    words := s.words.setIfInBounds (i / 64)
      (if v then s.words.getD (i / 64) 0 ||| (1 <<< (i % 64))
        else s.words.getD (i / 64) 0 &&& notW 64 (1 <<< (i % 64))) }

theorem setU_eq (s : St) (i : Nat) (v : Bool) (h : i / 64 < s.words.size) :
    setU s i v = .ok (setState s i v) := by
  simp only [setU, readU_eq h, Out.bind_ok, Out.pure_eq]
  rfl

theorem setState_len (s : St) (i : Nat) (v : Bool) : (setState s i v).len = s.len := rfl

theorem setState_size (s : St) (i : Nat) (v : Bool) :
    (setState s i v).words.size = s.words.size := by
  unfold setState
  exact Array.size_setIfInBounds

theorem setState_bit (s : St) (i : Nat) (v : Bool) (h : i / 64 < s.words.size) (k : Nat) :
    (setState s i v).bit k = if k = i then v else s.bit k := by
  unfold St.bit setState
  simp only
  rw [bitAt_setIfInBounds _ _ _ _ _ h]
  by_cases hk : k / 64 = i / 64
  · simp only [hk, if_true]
    rw [testBit_setbit _ _ _ _ (Nat.mod_lt _ (by omega))]
    by_cases hki : k = i
    · simp [hki]
    · have : ¬ k % 64 = i % 64 := by omega
      simp only [this, hki, if_false]
      unfold bitAt; rw [hk]
  · have : ¬ k = i := fun e => hk (by rw [e])
    simp [hk, this]

theorem setState_wordsOK (s : St) (i : Nat) (v : Bool) (h : WordsOK 64 s.words) :
    WordsOK 64 (setState s i v).words := by
  unfold setState
  apply WordsOK_setIfInBounds h
  exact setbit_lt _ _ _ (getD_lt_of_WordsOK h _) (Nat.mod_lt _ (by omega))

theorem setState_inv (s : St) (i : Nat) (v : Bool) (h : s.Inv) : (setState s i v).Inv :=
  ⟨by rw [setState_len, setState_size]; exact h.1, setState_wordsOK s i v h.2⟩

theorem setState_abs (s : St) (i : Nat) (v : Bool) (h : i / 64 < s.words.size) :
    (setState s i v).abs = s.abs.set i v := by
  apply abs_eq_of
  · simp [setState_len, abs_length]
  · intro k hk
    rw [setState_bit s i v h, List.getElem_set]
    by_cases e : i = k
    · simp [e]
    · have : ¬ k = i := fun e' => e e'.symm
      simp only [e, this, if_false]
      rw [abs_getElem]

theorem set_eq (s : St) (hs : s.Inv) (i : Nat) (v : Bool) (h : i < s.len) :
    set s i v = .ok (setState s i v) := by
  have : ¬ i ≥ s.len := by omega
  simp only [set, this, if_false]
  exact setU_eq s i v (inv_div_lt hs h)

theorem set_panic (s : St) (i : Nat) (v : Bool) (h : s.len ≤ i) : set s i v = .panic := by
  simp [set, h]

theorem swap_eq (s : St) (hs : s.Inv) (i : Nat) (v : Bool) (h : i < s.len) :
    swap s i v = .ok (setState s i v, s.bit i) := by
  have : ¬ i ≥ s.len := by omega
  have hd := inv_div_lt hs h
  simp only [swap, this, if_false, readU_eq hd, setU_eq s i v hd, Out.bind_ok, Out.pure_eq,
    getbit_eq]
  rfl

theorem swap_panic (s : St) (i : Nat) (v : Bool) (h : s.len ≤ i) : swap s i v = .panic := by
  simp [swap, h]

/-! ## push / pop -/

/-- the word array `push` works on -/
def pushWords (s : St) : Array Nat :=
  if s.words.size * 64 == s.len then s.words.push 0 else s.words

theorem pushWords_bit (s : St) (k : Nat) : bitAt 64 (pushWords s) k = s.bit k := by
  unfold pushWords St.bit
  split
  · rw [bitAt_push_zero]
  · rfl

theorem pushWords_size (s : St) (hs : s.Inv) : s.len / 64 < (pushWords s).size := by
  have h1 := hs.1
  unfold pushWords
  by_cases h : s.words.size * 64 = s.len
  · simp [h]; omega
  · simp [h]; omega

theorem pushWords_size_le (s : St) : s.words.size ≤ (pushWords s).size := by
  unfold pushWords
  split <;> simp

theorem pushWords_ok (s : St) (hs : s.Inv) : WordsOK 64 (pushWords s) := by
  unfold pushWords
  split
  · exact WordsOK_push_zero hs.2
  · exact hs.2

/-- the state produced by `push` -/
def pushState (s : St) (b : Bool) : St :=
  { words := (pushWords s).setIfInBounds (s.len / 64)
      (((pushWords s).getD (s.len / 64) 0 &&& notW 64 (1 <<< (s.len % 64)))
        ||| ((if b then 1 else 0) <<< (s.len % 64))),
    len := s.len + 1 }

theorem push_eq (s : St) (hs : s.Inv) (b : Bool) : push s b = .ok (pushState s b) := by
  have h := pushWords_size s hs
  unfold push
  simp only [← pushWords.eq_1, readS_eq h, Out.bind_ok, Out.pure_eq]
  rfl

theorem pushState_len (s : St) (b : Bool) : (pushState s b).len = s.len + 1 := rfl

theorem pushState_bit (s : St) (hs : s.Inv) (b : Bool) (k : Nat) :
    (pushState s b).bit k = if k = s.len then b else s.bit k := by
  have h := pushWords_size s hs
  unfold St.bit pushState
  simp only
  rw [bitAt_setIfInBounds _ _ _ _ _ h]
  by_cases hk : k / 64 = s.len / 64
  · simp only [hk, if_true]
    rw [testBit_pushbit _ _ _ _ (Nat.mod_lt _ (by omega))]
    by_cases hki : k = s.len
    · simp [hki]
    · have : ¬ k % 64 = s.len % 64 := by omega
      simp only [this, hki, if_false]
      rw [← hk]
      exact pushWords_bit s k
  · have : ¬ k = s.len := fun e => hk (by rw [e])
    simp only [hk, this, if_false]
    exact pushWords_bit s k

theorem pushState_inv (s : St) (hs : s.Inv) (b : Bool) : (pushState s b).Inv := by
  have h := pushWords_size s hs
  constructor
  · unfold pushState
    simp only [Array.size_setIfInBounds]
    omega
  · unfold pushState
    apply WordsOK_setIfInBounds (pushWords_ok s hs)
    exact pushbit_lt _ _ _ (getD_lt_of_WordsOK (pushWords_ok s hs) _) (Nat.mod_lt _ (by omega))

theorem pushState_abs (s : St) (hs : s.Inv) (b : Bool) : (pushState s b).abs = s.abs ++ [b] := by
  apply abs_eq_of
  · simp [pushState_len, abs_length]
  · intro k hk
    rw [pushState_bit s hs, List.getElem_append]
    simp only [abs_length]
    by_cases e : k = s.len
    · simp [e]
    · simp [abs_length] at hk
      have : k < s.len := by omega
      simp only [e, this, if_false, dif_pos]
      rw [abs_getElem]

theorem pop_zero (s : St) (h : s.len = 0) : pop s = .ok (s, none) := by
  simp [pop, h]

theorem pop_pos (s : St) (hs : s.Inv) (h : 0 < s.len) :
    pop s = .ok ({ s with len := s.len - 1 }, some (s.bit (s.len - 1))) := by
  have h0 : ¬ (s.len = 0) := by omega
  have hd : (s.len - 1) / 64 < s.words.size := inv_div_lt hs (by omega)
  simp only [pop, beq_iff_eq, h0, if_false, readS_eq hd, Out.bind_ok, Out.pure_eq, getbit_eq]
  rfl

theorem pop_abs (s : St) : ({ s with len := s.len - 1 } : St).abs = s.abs.dropLast := by
  apply abs_eq_of
  · simp [abs_length]
  · intro k hk
    rw [List.getElem_dropLast, abs_getElem]
    rfl

theorem abs_getLast?_zero (s : St) (h : s.len = 0) : s.abs.getLast? = none := by
  have : s.abs = [] := by
    apply List.eq_nil_of_length_eq_zero; rw [abs_length, h]
  rw [this]; rfl

theorem abs_getLast?_pos (s : St) (h : 0 < s.len) : s.abs.getLast? = some (s.bit (s.len - 1)) := by
  rw [List.getLast?_eq_getElem?, abs_length]
  have h' : s.len - 1 < s.abs.length := by rw [abs_length]; omega
  rw [List.getElem?_eq_getElem h', abs_getElem]

/-! ## setRange / resize / extend -/

theorem setRange_spec (v : Bool) : ∀ (n start : Nat) (s : St), WordsOK 64 s.words →
    start + n ≤ 64 * s.words.size →
    ∃ s', setRange v start n s = .ok s' ∧ s'.len = s.len ∧ s'.words.size = s.words.size ∧
      WordsOK 64 s'.words ∧ ∀ k, s'.bit k = if start ≤ k ∧ k < start + n then v else s.bit k := by
  intro n
  induction n with
  | zero =>
    intro start s hw _
    refine ⟨s, rfl, rfl, rfl, hw, ?_⟩
    intro k
    have : ¬ (start ≤ k ∧ k < start + 0) := by omega
    rw [if_neg this]
  | succ n ih =>
    intro start s hw hb
    have hd : start / 64 < s.words.size := by omega
    obtain ⟨s', h1, h2, h3, h4, h5⟩ := ih (start + 1) (setState s start v)
      (setState_wordsOK s start v hw) (by rw [setState_size]; omega)
    refine ⟨s', ?_, ?_, ?_, h4, ?_⟩
    · simp only [setRange, setU_eq s start v hd, Out.bind_ok]
      exact h1
    · rw [h2, setState_len]
    · rw [h3, setState_size]
    · intro k
      rw [h5, setState_bit s start v hd]
      by_cases a : start + 1 ≤ k ∧ k < start + 1 + n
      · have b : start ≤ k ∧ k < start + (n + 1) := by omega
        rw [if_pos a, if_pos b]
      · by_cases e : k = start
        · have b : start ≤ k ∧ k < start + (n + 1) := by omega
          rw [if_neg a, if_pos b, if_pos e]
        · have b : ¬ (start ≤ k ∧ k < start + (n + 1)) := by omega
          rw [if_neg a, if_neg b, if_neg e]

/-- the word array `resize` works on when growing -/
def resizeWords (s : St) (newLen : Nat) : Array Nat :=
  if newLen > s.words.size * 64
  then s.words ++ Array.replicate ((newLen + 63) / 64 - s.words.size) 0 else s.words

theorem resizeWords_bit (s : St) (n k : Nat) : bitAt 64 (resizeWords s n) k = s.bit k := by
  unfold resizeWords St.bit
  split
  · rw [bitAt_append_replicate_zero]
  · rfl

theorem resizeWords_size (s : St) (n : Nat) : n ≤ 64 * (resizeWords s n).size := by
  unfold resizeWords
  split
  · simp only [Array.size_append, Array.size_replicate]; omega
  · omega

theorem resizeWords_ok (s : St) (hs : s.Inv) (n : Nat) : WordsOK 64 (resizeWords s n) := by
  unfold resizeWords
  split
  · exact WordsOK_append_replicate_zero hs.2 _
  · exact hs.2

theorem resize_shrink (s : St) (n : Nat) (v : Bool) (h : n ≤ s.len) :
    resize s n v = .ok { s with len := n } := by
  have : ¬ n > s.len := by omega
  simp [resize, this]

theorem resize_grow (s : St) (hs : s.Inv) (n : Nat) (v : Bool) (h : s.len < n) :
    ∃ s', resize s n v = .ok s' ∧ s'.Inv ∧ s'.len = n ∧
      ∀ k, s'.bit k = if s.len ≤ k ∧ k < n then v else s.bit k := by
  have hsz := resizeWords_size s n
  obtain ⟨s', h1, h2, h3, h4, h5⟩ := setRange_spec v (n - s.len) s.len
    { s with words := resizeWords s n } (resizeWords_ok s hs n) (by simp only; omega)
  refine ⟨{ s' with len := n }, ?_, ⟨?_, h4⟩, rfl, ?_⟩
  · have : n > s.len := h
    simp only [resize, this, if_true, ← resizeWords.eq_1, h1, Out.bind_ok, Out.pure_eq]
  · simp only [h3]; exact hsz
  · intro k
    have e : s.len + (n - s.len) = n := by omega
    show s'.bit k = _
    rw [h5 k, e]
    split
    · rfl
    · exact resizeWords_bit s n k

theorem extend_spec : ∀ (bs : List Bool) (s : St), s.Inv →
    ∃ s', extend s bs = .ok s' ∧ s'.Inv ∧ s'.abs = s.abs ++ bs := by
  intro bs
  induction bs with
  | nil => intro s hs; exact ⟨s, rfl, hs, by simp⟩
  | cons b bs ih =>
    intro s hs
    obtain ⟨s', h1, h2, h3⟩ := ih (pushState s b) (pushState_inv s hs b)
    refine ⟨s', ?_, h2, ?_⟩
    · simp only [extend, push_eq s hs b, Out.bind_ok]; exact h1
    · rw [h3, pushState_abs s hs]; simp

theorem resize_abs (s s' : St) (n : Nat) (v : Bool) (hl : s'.len = n)
    (hb : ∀ k, s'.bit k = if s.len ≤ k ∧ k < n then v else s.bit k) :
    s'.abs = s.abs.take n ++ List.replicate (n - s.len) v := by
  apply abs_eq_of
  · simp only [List.length_append, List.length_take, List.length_replicate, abs_length]; omega
  · intro k hk
    simp only [List.length_append, List.length_take, List.length_replicate, abs_length] at hk
    rw [hb, List.getElem_append]
    simp only [List.length_take, abs_length]
    by_cases a : s.len ≤ k
    · have b : s.len ≤ k ∧ k < n := by omega
      have c : ¬ k < min n s.len := by omega
      rw [if_pos b, dif_neg c, List.getElem_replicate]
    · have b : ¬ (s.len ≤ k ∧ k < n) := by omega
      have c : k < min n s.len := by omega
      rw [if_neg b, dif_pos c, List.getElem_take, abs_getElem]

/-! ## fill / flip -/

theorem bitAt_mapIdx_prefix (ws : Array Nat) (full : Nat) (g : Nat → Nat) (k : Nat)
    (hf : full ≤ ws.size) :
    bitAt 64 (ws.mapIdx (fun i w => if i < full then g w else w)) k
      = if k / 64 < full then (g (ws.getD (k / 64) 0)).testBit (k % 64) else bitAt 64 ws k := by
  unfold bitAt
  rw [getD_mapIdx]
  by_cases h : k / 64 < full
  · have : k / 64 < ws.size := by omega
    simp [h, this]
  · by_cases h2 : k / 64 < ws.size
    · simp [h, h2]
    · have : ws.getD (k / 64) 0 = 0 := getD_of_ge (by omega)
      simp [h, h2, this]

theorem testBit_merge (w x r j : Nat) (hj : j < 64) :
    ((w &&& notW 64 (lowMask r)) ||| (x &&& lowMask r)).testBit j
      = if j < r then x.testBit j else w.testBit j := by
  simp only [Nat.testBit_or, Nat.testBit_and, testBit_notW, testBit_lowMask]
  by_cases h : j < r <;> simp [h, hj]

theorem merge_lt (w x r : Nat) (hw : w < 2 ^ 64) (hr : r < 64) :
    ((w &&& notW 64 (lowMask r)) ||| (x &&& lowMask r)) < 2 ^ 64 := by
  apply or_lt (and_lt_left _ hw)
  apply and_lt_right
  unfold lowMask
  have : 2 ^ r < 2 ^ 64 := Nat.pow_lt_pow_right (by omega) hr
  omega


/-- common shape of `fill` and `flip`: apply `g` to the full words, merge `g` of the last word
under the residual mask -/
def prefixMap (g : Nat → Nat) (ws : Array Nat) (len : Nat) : Array Nat :=
  let ws1 := ws.mapIdx (fun i w => if i < len / 64 then g w else w)
  if len % 64 != 0 then
    ws1.setIfInBounds (len / 64)
      ((ws1.getD (len / 64) 0 &&& notW 64 (lowMask (len % 64)))
        ||| (g (ws1.getD (len / 64) 0) &&& lowMask (len % 64)))
  else ws1

theorem prefixMap_size (g : Nat → Nat) (ws : Array Nat) (len : Nat) :
    (prefixMap g ws len).size = ws.size := by
  unfold prefixMap
  simp only
  split <;> simp

theorem prefixMap_bit (g : Nat → Nat) (ws : Array Nat) (len : Nat) (hlen : len ≤ 64 * ws.size)
    (k : Nat) :
    bitAt 64 (prefixMap g ws len) k
      = if k < len then (g (ws.getD (k / 64) 0)).testBit (k % 64) else bitAt 64 ws k := by
  have hf : len / 64 ≤ ws.size := by omega
  have hkm : k % 64 < 64 := Nat.mod_lt _ (by omega)
  unfold prefixMap
  simp only
  by_cases hr : len % 64 = 0
  · simp only [hr, bne_self_eq_false, Bool.false_eq_true, if_false]
    rw [bitAt_mapIdx_prefix _ _ _ _ hf]
    by_cases a : k < len
    · have b : k / 64 < len / 64 := by omega
      rw [if_pos a, if_pos b]
    · have b : ¬ k / 64 < len / 64 := by omega
      rw [if_neg a, if_neg b]
  · have hr' : (len % 64 != 0) = true := by simp [hr]
    have hfl : len / 64 < ws.size := by omega
    simp only [hr', if_true]
    rw [bitAt_setIfInBounds _ _ _ _ _ (by simp; exact hfl)]
    have hw1 : (ws.mapIdx (fun i w => if i < len / 64 then g w else w)).getD (len / 64) 0
        = ws.getD (len / 64) 0 := by
      rw [getD_mapIdx]; simp [hfl]
    rw [hw1]
    by_cases e : k / 64 = len / 64
    · rw [if_pos e, testBit_merge _ _ _ _ hkm]
      by_cases a : k < len
      · have b : k % 64 < len % 64 := by omega
        rw [if_pos a, if_pos b, e]
      · have b : ¬ k % 64 < len % 64 := by omega
        rw [if_neg a, if_neg b]
        unfold bitAt; rw [e]
    · rw [if_neg e, bitAt_mapIdx_prefix _ _ _ _ hf]
      by_cases a : k < len
      · have b : k / 64 < len / 64 := by omega
        rw [if_pos a, if_pos b]
      · have b : ¬ k / 64 < len / 64 := by omega
        rw [if_neg a, if_neg b]

theorem prefixMap_ok (g : Nat → Nat) (hg : ∀ w, w < 2 ^ 64 → g w < 2 ^ 64) (ws : Array Nat)
    (len : Nat) (hok : WordsOK 64 ws) : WordsOK 64 (prefixMap g ws len) := by
  have h1 : WordsOK 64 (ws.mapIdx (fun i w => if i < len / 64 then g w else w)) := by
    apply WordsOK_of_getD
    intro i _
    rw [getD_mapIdx]
    by_cases a : i < ws.size
    · rw [if_pos a]
      by_cases b : i < len / 64
      · rw [if_pos b]; exact hg _ (getD_lt_of_WordsOK hok i)
      · rw [if_neg b]; exact getD_lt_of_WordsOK hok i
    · rw [if_neg a]; exact Nat.two_pow_pos 64
  unfold prefixMap
  simp only
  split
  · apply WordsOK_setIfInBounds h1
    exact merge_lt _ _ _ (getD_lt_of_WordsOK h1 _) (Nat.mod_lt _ (by omega))
  · exact h1

theorem fillWords_eq (ws : Array Nat) (len : Nat) (v : Bool) (hlen : len ≤ 64 * ws.size) :
    fillWords ws len v
      = .ok (prefixMap (fun _ => if v then allOnes 64 else 0) ws len) := by
  have hf : ¬ len / 64 > ws.size := by omega
  unfold fillWords prefixMap
  simp only [hf, if_false]
  by_cases hr : len % 64 = 0
  · simp [hr]
  · have hr' : (len % 64 != 0) = true := by simp [hr]
    have hfl : len / 64 < (ws.mapIdx (fun i w => if i < len / 64 then
        (if v then allOnes 64 else 0) else w)).size := by simp; omega
    simp only [hr', if_true, readS_eq hfl, Out.bind_ok, Out.pure_eq]

theorem flip_eq (s : St) (hs : s.Inv) :
    flip s = .ok { s with words := prefixMap (notW 64) s.words s.len } := by
  have h1 := hs.1
  have hf : ¬ s.len / 64 > s.words.size := by omega
  unfold flip prefixMap
  simp only [hf, if_false]
  by_cases hr : s.len % 64 = 0
  · simp [hr]
  · have hr' : (s.len % 64 != 0) = true := by simp [hr]
    have hfl : s.len / 64 < (s.words.mapIdx (fun i w => if i < s.len / 64 then
        notW 64 w else w)).size := by simp; omega
    simp only [hr', if_true, readS_eq hfl, Out.bind_ok, Out.pure_eq]

theorem fill_eq (s : St) (hs : s.Inv) (v : Bool) :
    fill s v = .ok { s with words := prefixMap (fun _ => if v then allOnes 64 else 0) s.words s.len } := by
  simp only [fill, fillWords_eq _ _ v hs.1, Out.bind_ok, Out.pure_eq]

theorem fill_bit (s : St) (hs : s.Inv) (v : Bool) (k : Nat) :
    ({ s with words := prefixMap (fun _ => if v then allOnes 64 else 0) s.words s.len } : St).bit k
      = if k < s.len then v else s.bit k := by
  unfold St.bit
  simp only
  rw [prefixMap_bit _ _ _ hs.1]
  have hkm : k % 64 < 64 := Nat.mod_lt _ (by omega)
  cases v <;> simp [testBit_allOnes, hkm]

theorem flip_bit (s : St) (hs : s.Inv) (k : Nat) :
    ({ s with words := prefixMap (notW 64) s.words s.len } : St).bit k
      = if k < s.len then !s.bit k else s.bit k := by
  unfold St.bit
  simp only
  rw [prefixMap_bit _ _ _ hs.1]
  have hkm : k % 64 < 64 := Nat.mod_lt _ (by omega)
  simp [testBit_notW, hkm, bitAt]

theorem prefixMap_inv (g : Nat → Nat) (hg : ∀ w, w < 2 ^ 64 → g w < 2 ^ 64) (s : St) (hs : s.Inv) :
    ({ s with words := prefixMap g s.words s.len } : St).Inv :=
  ⟨by simp only [prefixMap_size]; exact hs.1, prefixMap_ok g hg _ _ hs.2⟩

theorem fillconst_lt (v : Bool) : ∀ w, w < 2 ^ 64 → (fun _ : Nat => if v then allOnes 64 else 0) w < 2 ^ 64 := by
  intro w _
  cases v
  · simp
  · simp only [if_true]; exact allOnes_lt 64

/-! ## constructors -/

theorem withValue_inv (n : Nat) (v : Bool) : (withValue n v).Inv := by
  have hwv : (if v then allOnes 64 else 0) < 2 ^ 64 := by
    cases v
    · simp
    · simp only [if_true]; exact allOnes_lt 64
  have hrep : WordsOK 64 (Array.replicate ((n + 63) / 64) (if v then allOnes 64 else 0)) := by
    apply WordsOK_of_getD
    intro i _
    rw [getD_replicate]
    split
    · exact hwv
    · exact Nat.two_pow_pos 64
  unfold withValue
  simp only
  constructor
  · split
    · simp only [Array.size_setIfInBounds, Array.size_replicate]; omega
    · simp only [Array.size_replicate]; omega
  · split
    · apply WordsOK_setIfInBounds hrep
      exact Nat.lt_of_le_of_lt (Nat.shiftRight_le _ _) hwv
    · exact hrep

theorem withValue_bit (n : Nat) (v : Bool) (k : Nat) (hk : k < n) : (withValue n v).bit k = v := by
  have hkm : k % 64 < 64 := Nat.mod_lt _ (by omega)
  have hwv : ∀ j, j < 64 → (if v then allOnes 64 else 0).testBit j = v := by
    intro j hj
    cases v <;> simp [testBit_allOnes, hj]
  have hkd : k / 64 < (n + 63) / 64 := by omega
  unfold St.bit withValue
  simp only
  by_cases hx : (n + 63) / 64 * 64 - n > 0
  · simp only [hx, if_true]
    rw [bitAt_setIfInBounds _ _ _ _ _ (by simp; omega)]
    by_cases hl : k / 64 = (n + 63) / 64 - 1
    · rw [if_pos hl, Nat.testBit_shiftRight]
      exact hwv _ (by omega)
    · rw [if_neg hl]
      unfold bitAt
      rw [getD_replicate, if_pos hkd]
      exact hwv _ hkm
  · simp only [hx, if_false]
    unfold bitAt
    rw [getD_replicate, if_pos hkd]
    exact hwv _ hkm

theorem withValue_abs (n : Nat) (v : Bool) : (withValue n v).abs = List.replicate n v := by
  apply abs_eq_of
  · simp [withValue]
  · intro k hk
    rw [List.length_replicate] at hk
    rw [withValue_bit n v k hk, List.getElem_replicate]

theorem withCapacity_inv (c : Nat) : (withCapacity c).Inv := by
  constructor
  · simp [withCapacity]
  · intro i hi; simp [withCapacity] at hi

theorem withCapacity_abs (c : Nat) : (withCapacity c).abs = [] := by
  simp [withCapacity, St.abs]

end Sux.BV
