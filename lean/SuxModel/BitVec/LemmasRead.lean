import SuxModel.BitVec.Lemmas
/-!
# Lemmas for C06: read-only operations (`iter`, `count_ones`, `count_zeros`, `PartialEq`)
-/
namespace Sux.BV

/-! ## iter -/

theorem iterAux_spec (s : St) : ∀ (n pos : Nat), pos + n ≤ 64 * s.words.size →
    iterAux s n pos = .ok ((List.range' pos n).map s.bit) := by
  intro n
  induction n with
  | zero => intro pos _; rfl
  | succ n ih =>
    intro pos h
    have hd : pos / 64 < s.words.size := by omega
    simp only [iterAux, getU_eq s pos hd, ih (pos + 1) (by omega), Out.bind_ok, Out.pure_eq]
    rfl

theorem iterAll_eq (s : St) (hs : s.Inv) : iterAll s = .ok s.abs := by
  unfold iterAll
  rw [iterAux_spec s s.len 0 (by have := hs.1; omega)]
  simp [St.abs, List.range_eq_range']

/-! ## counting -/

theorem popPrefix_eq (ws : Array Nat) : ∀ n,
    popPrefix ws n = (List.range (64 * n)).countP (bitAt 64 ws) := by
  intro n
  induction n with
  | zero => rfl
  | succ n ih =>
    rw [popPrefix, ih, Nat.mul_succ, List.range_add, List.countP_append, List.countP_map]
    congr 1
    unfold popcount
    apply List.countP_congr
    intro j hj
    rw [List.mem_range] at hj
    simp only [Function.comp, bitAt]
    have h1 : (64 * n + j) / 64 = n := by omega
    have h2 : (64 * n + j) % 64 = j := by omega
    rw [h1, h2]

theorem countOnes_eq (s : St) (hs : s.Inv) :
    countOnes s = .ok ((List.range s.len).countP s.bit) := by
  have h1 := hs.1
  have hf : ¬ s.len / 64 > s.words.size := by omega
  unfold countOnes
  simp only [hf, if_false]
  have hlen : s.len = 64 * (s.len / 64) + s.len % 64 := by omega
  by_cases hr : s.len % 64 = 0
  · simp only [hr, bne_self_eq_false, Bool.false_eq_true, if_false]
    rw [popPrefix_eq]
    have : 64 * (s.len / 64) = s.len := by omega
    rw [this]; rfl
  · have hr' : (s.len % 64 != 0) = true := by simp [hr]
    have hfl : s.len / 64 < s.words.size := by omega
    simp only [hr', if_true, readS_eq hfl, Out.bind_ok, Out.pure_eq]
    rw [popPrefix_eq, popcount_shlW 64 _ _ (by omega)]
    conv => rhs; rw [hlen, List.range_add, List.countP_append, List.countP_map]
    congr 2
    apply List.countP_congr
    intro j hj
    rw [List.mem_range] at hj
    simp only [Function.comp, St.bit, bitAt]
    have h1 : (64 * (s.len / 64) + j) / 64 = s.len / 64 := by omega
    have h2 : (64 * (s.len / 64) + j) % 64 = j := by omega
    rw [h1, h2]

theorem abs_count_true (s : St) : s.abs.count true = (List.range s.len).countP s.bit := by
  unfold St.abs
  rw [List.count, List.countP_map]
  apply List.countP_congr
  intro j _
  simp

theorem count_true_add_false (l : List Bool) : l.count true + l.count false = l.length := by
  induction l with
  | nil => rfl
  | cons b l ih => cases b <;> simp <;> omega

theorem countZeros_eq (s : St) (hs : s.Inv) : countZeros s = .ok (s.abs.count false) := by
  simp only [countZeros, countOnes_eq s hs, Out.bind_ok, Out.pure_eq]
  have := count_true_add_false s.abs
  rw [abs_length, abs_count_true] at this
  congr 1
  omega

/-! ## PartialEq -/

theorem abs_eq_iff (a b : St) :
    a.abs = b.abs ↔ a.len = b.len ∧ ∀ k, k < a.len → a.bit k = b.bit k := by
  constructor
  · intro h
    have hl : a.len = b.len := by rw [← abs_length a, h, abs_length]
    refine ⟨hl, ?_⟩
    intro k hk
    have h1 : k < a.abs.length := by rw [abs_length]; exact hk
    have h2 : k < b.abs.length := by rw [abs_length]; omega
    rw [← abs_getElem a k h1, ← abs_getElem b k h2]
    simp only [h]
  · intro ⟨hl, h⟩
    exact abs_congr hl h

theorem prefixEq_iff (a b : Array Nat) (ha : WordsOK 64 a) (hb : WordsOK 64 b) : ∀ n,
    prefixEq a b n = true ↔ ∀ k, k < 64 * n → bitAt 64 a k = bitAt 64 b k := by
  intro n
  induction n with
  | zero => simp [prefixEq]
  | succ n ih =>
    rw [prefixEq, Bool.and_eq_true, ih, beq_iff_eq]
    constructor
    · intro ⟨h1, h2⟩ k hk
      by_cases hk' : k < 64 * n
      · exact h1 k hk'
      · have : k / 64 = n := by omega
        unfold bitAt; rw [this, h2]
    · intro h
      refine ⟨fun k hk => h k (by omega), ?_⟩
      apply eq_of_testBit_lt (getD_lt_of_WordsOK ha n) (getD_lt_of_WordsOK hb n)
      intro j hj
      have := h (64 * n + j) (by omega)
      unfold bitAt at this
      have h1 : (64 * n + j) / 64 = n := by omega
      have h2 : (64 * n + j) % 64 = j := by omega
      rw [h1, h2] at this
      exact this

theorem resid_iff (x y r : Nat) (hr : r ≤ 64) :
    (shlW 64 (x ^^^ y) (64 - r) == 0) = true ↔ ∀ j, j < r → x.testBit j = y.testBit j := by
  rw [beq_iff_eq]
  constructor
  · intro h j hj
    have := congrArg (fun z => z.testBit (64 - r + j)) h
    simp only [testBit_shlW, Nat.zero_testBit, Nat.testBit_xor] at this
    have h1 : 64 - r + j < 64 := by omega
    have h2 : 64 - r + j - (64 - r) = j := by omega
    simp [h1, h2] at this
    exact this
  · intro h
    apply Nat.eq_of_testBit_eq
    intro i
    rw [testBit_shlW, Nat.zero_testBit, Nat.testBit_xor]
    by_cases h1 : i < 64
    · by_cases h2 : 64 - r ≤ i
      · have := h (i - (64 - r)) (by omega)
        simp [h1, h2, this]
      · simp [h2]
    · simp [h1]

theorem eq_aux (a b : St) (ha : a.Inv) (hb : b.Inv) :
    ∃ c, eq a b = .ok c ∧ (c = true ↔ (a.len = b.len ∧ ∀ k, k < a.len → a.bit k = b.bit k)) := by
  unfold eq
  by_cases hl : a.len = b.len
  · have hl' : (a.len != b.len) = false := by simp [hl]
    have h1 := ha.1
    have h2 := hb.1
    have hf : (decide (a.len / 64 > a.words.size) || decide (a.len / 64 > b.words.size)) = false := by
      have x1 : ¬ a.len / 64 > a.words.size := by omega
      have x2 : ¬ a.len / 64 > b.words.size := by omega
      simp [x1, x2]
    simp only [hl', hf, Bool.false_eq_true, if_false]
    by_cases hp : prefixEq a.words b.words (a.len / 64) = true
    · simp only [hp, Bool.not_true, Bool.false_eq_true, if_false]
      rw [prefixEq_iff _ _ ha.2 hb.2] at hp
      by_cases hr : a.len % 64 = 0
      · simp only [hr, beq_self_eq_true, if_true]
        refine ⟨true, rfl, ?_⟩
        simp only [true_iff]
        exact ⟨hl, fun k hk => hp k (by omega)⟩
      · have hr' : (a.len % 64 == 0) = false := by simp [hr]
        have hx : a.len / 64 < a.words.size := by omega
        have hy : a.len / 64 < b.words.size := by omega
        simp only [hr', Bool.false_eq_true, if_false, readS_eq hx, readS_eq hy, Out.bind_ok,
          Out.pure_eq]
        refine ⟨_, rfl, ?_⟩
        rw [resid_iff _ _ _ (by omega)]
        constructor
        · intro h
          refine ⟨hl, ?_⟩
          intro k hk
          by_cases hk' : k < 64 * (a.len / 64)
          · exact hp k hk'
          · have e1 : k / 64 = a.len / 64 := by omega
            have := h (k % 64) (by omega)
            unfold St.bit bitAt
            rw [e1]; exact this
        · intro ⟨_, h⟩ j hj
          have := h (64 * (a.len / 64) + j) (by omega)
          unfold St.bit bitAt at this
          have e1 : (64 * (a.len / 64) + j) / 64 = a.len / 64 := by omega
          have e2 : (64 * (a.len / 64) + j) % 64 = j := by omega
          rw [e1, e2] at this
          exact this
    · have hp' : prefixEq a.words b.words (a.len / 64) = false := by simpa using hp
      simp only [hp', Bool.not_false, if_true]
      refine ⟨false, rfl, ?_⟩
      simp only [Bool.false_eq_true, false_iff]
      intro ⟨_, h⟩
      apply hp
      rw [prefixEq_iff _ _ ha.2 hb.2]
      intro k hk
      exact h k (by omega)
  · have hl' : (a.len != b.len) = true := by simp [hl]
    simp only [hl', if_true]
    refine ⟨false, rfl, ?_⟩
    simp [hl]

theorem eq_eq (a b : St) (ha : a.Inv) (hb : b.Inv) : eq a b = .ok (decide (a.abs = b.abs)) := by
  obtain ⟨c, h1, h2⟩ := eq_aux a b ha hb
  rw [h1]
  congr 1
  rw [Bool.eq_iff_iff, h2, decide_eq_true_iff, abs_eq_iff]

end Sux.BV
