import SuxModel.Base.Proto
import SuxModel.BitVec.Model
import SuxModel.RankSel.Hinted
import SuxModel.RankSel.RankSmall.Model
/-!
# Protocol runner `bitvec` (C06, C10, C14): two registers `a` (current) and `b` (saved)
Reply format: `<result>;<len of a>;<words of a>`.
-/
namespace Sux.BV
open Sux.Proto

structure RSt where
  a : St := { words := #[], len := 0 }
  b : St := { words := #[], len := 0 }

def dump (s : St) : String := s!"{s.len};{fmtNatList s.words.toList}"

def reply (r : RSt) (res : String) : RSt × String := (r, s!"{res};{dump r.a}")

/-- apply a mutator returning a new state -/
def mutate (r : RSt) (o : Out St) : RSt × String :=
  match o with
  | .ok s => reply { r with a := s } "ok"
  | .panic => reply r "panic"
  | .oob => reply r "oob"

def obs {α} (r : RSt) (o : Out α) (f : α → String) : RSt × String :=
  match o with
  | .ok v => reply r s!"ok {f v}"
  | .panic => reply r "panic"
  | .oob => reply r "oob"

/-- two successive `Iterator::nth` calls on an iterator that still has to yield `l` (an overshooting
`nth` exhausts it), then everything that is left -/
def nth2 {α} (sh : α → String) (fmt : List α → String) (a b : Nat) (l : List α) : String :=
  let o (x : Option α) : String := match x with | some x => sh x | none => "none"
  let l1 := l.drop (a + 1)
  s!"{o (l.drop a).head?} {o (l1.drop b).head?} {fmt (l1.drop (b + 1))}"

def rstep (r : RSt) (toks : List String) : RSt × String :=
  let bad := (r, "bad-op")
  match toks with
  | ["case", _] => ({}, "case")
  | ["new", n] => match parseNat n with
    | some n => reply { r with a := new n } "ok" | none => bad
  | ["with_value", n, b] => match parseNat n, parseBool b with
    | some n, some b => reply { r with a := withValue n b } "ok" | _, _ => bad
  | ["with_capacity", n] => match parseNat n with
    | some n => reply { r with a := withCapacity n } "ok" | none => bad
  | ["raw", ws, len] => match parseNatList ws, parseNat len with
    | some ws, some len => reply { r with a := { words := ws.toArray, len := len } } "ok" | _, _ => bad
  | ["push", b] => match parseBool b with
    | some b => mutate r (push r.a b) | none => bad
  | ["pop"] => match pop r.a with
    | .ok (s, v) => reply { r with a := s } (match v with | some b => s!"ok {fmtBool b}" | none => "ok none")
    | .panic => reply r "panic" | .oob => reply r "oob"
  | ["set", i, b] => match parseNat i, parseBool b with
    | some i, some b => mutate r (set r.a i b) | _, _ => bad
  | ["aset", i, b] => match parseNat i, parseBool b with
    | some i, some b => mutate r (set r.a i b) | _, _ => bad
  | ["aswap", i, b] => match parseNat i, parseBool b with
    | some i, some b => match swap r.a i b with
      | .ok (s, v) => reply { r with a := s } s!"ok {fmtBool v}"
      | .panic => reply r "panic" | .oob => reply r "oob"
    | _, _ => bad
  | ["get", i] => match parseNat i with
    | some i => obs r (get r.a i) fmtBool | none => bad
  | ["index", i] => match parseNat i with
    | some i => obs r (get r.a i) fmtBool | none => bad
  | ["aget", i] => match parseNat i with
    | some i => obs r (get r.a i) fmtBool | none => bad
  | ["resize", n, b] => match parseNat n, parseBool b with
    | some n, some b => mutate r (resize r.a n b) | _, _ => bad
  | ["fill", b] => match parseBool b with | some b => mutate r (fill r.a b) | none => bad
  | ["par_fill", b] => match parseBool b with | some b => mutate r (fill r.a b) | none => bad
  | ["afill", b] => match parseBool b with | some b => mutate r (fill r.a b) | none => bad
  | ["flip"] => mutate r (flip r.a)
  | ["par_flip"] => mutate r (flip r.a)
  | ["aflip"] => mutate r (flip r.a)
  | ["reset"] => mutate r (reset r.a)
  | ["par_reset"] => mutate r (reset r.a)
  | ["areset"] => mutate r (reset r.a)
  | ["extend", bs] => match parseBoolString bs with
    | some bs => mutate r (extend r.a bs) | none => bad
  | ["collect", bs] => match parseBoolString bs with
    | some bs => mutate r (extend (new 0) bs) | none => bad
  | ["macro", bs] => match parseBoolString bs with
    | some bs => mutate r (extend (withCapacity bs.length) bs) | none => bad
  | ["iter"] => obs r (iterAll r.a) fmtBoolList
  | ["aiter"] => obs r (iterAll r.a) fmtBoolList
  | ["it_nth", kind, a, b] => match parseNat a, parseNat b with
    | some a, some b =>
      if kind = "bits" || kind = "abits" then obs r (iterAll r.a) (nth2 fmtBool fmtBoolList a b)
      else if kind = "ones" then obs r (iterOnes r.a) (nth2 toString fmtNatList a b)
      else if kind = "zeros" then obs r (iterZeros r.a) (nth2 toString fmtNatList a b)
      else bad
    | _, _ => bad
  | ["ones"] => obs r (iterOnes r.a) fmtNatList
  | ["zeros"] => obs r (iterZeros r.a) fmtNatList
  | ["count_ones"] => obs r (countOnes r.a) toString
  | ["par_count_ones"] => obs r (countOnes r.a) toString
  | ["acount"] => obs r (countOnes r.a) toString
  | ["count_zeros"] => obs r (countZeros r.a) toString
  -- the same observers through a borrowed slice view (`BitVec<&[usize]>` at an odd word offset):
  -- the model is backend-parametric, so they are the same functions
  | ["sv_count_ones"] => obs r (countOnes r.a) toString
  | ["sv_ones"] => obs r (iterOnes r.a) fmtNatList
  | ["sv_zeros"] => obs r (iterZeros r.a) fmtNatList
  | ["sv_iter"] => obs r (iterAll r.a) fmtBoolList
  | ["sv_eq"] => obs r (eq r.a r.b) fmtBool
  | ["sv_get", i] => match parseNat i with
    | some i => obs r (get r.a i) fmtBool | none => bad
  | ["eq"] => obs r (eq r.a r.b) fmtBool
  | ["clone"] => reply { r with b := r.a } "ok"
  | ["swapab"] => reply { a := r.b, b := r.a } "ok"
  | ["conv", _] => reply r "ok"
  -- ---- type-aware API coverage (API_COVERAGE_A.md) ----
  -- the real `bit_vec!` forms
  | ["macro_lit", bs] => match parseBoolString bs with
    | some bs => mutate r (extend (withCapacity bs.length) bs) | none => bad
  | ["macro_fill", form, n] => match parseNat n with
    | some n =>
      if form == "empty" then reply { r with a := new 0 } "ok"
      else if form == "false" || form == "0" then reply { r with a := new n } "ok"
      else if form == "true" || form == "1" then reply { r with a := withValue n true } "ok"
      else bad
    | none => bad
  -- `AtomicBitVec::new` / `with_value`, converted
  | ["anew", n] => match parseNat n with
    | some n => reply { r with a := new n } "ok" | none => bad
  | ["awith_value", n, b] => match parseNat n, parseBool b with
    | some n, some b => reply { r with a := withValue n b } "ok" | _, _ => bad
  -- `capacity()` = 64 × capacity of the backend ≥ len (the allocator's choice is not modelled)
  | ["capacity"] => reply r "ok 1"
  -- `*_unchecked` accessors, evaluated under their contract only
  | ["get_unchecked", i] => match parseNat i with
    | some i => if i < r.a.len then obs r (getU r.a i) fmtBool else reply r "out-of-contract"
    | none => bad
  | ["set_unchecked", i, b] => match parseNat i, parseBool b with
    | some i, some b => if i < r.a.len then mutate r (setU r.a i b) else reply r "out-of-contract"
    | _, _ => bad
  | ["display"] => obs r (iterAll r.a) (fun l => "[" ++ String.join (l.map fmtBool) ++ "]")
  | ["into_iter"] => obs r (iterAll r.a) fmtBoolList
  | ["len2"] => reply r s!"ok {r.a.len}"
  | ["aindex", i] => match parseNat i with
    | some i => obs r (get r.a i) fmtBool | none => bad
  | ["apar_fill", b] => match parseBool b with | some b => mutate r (fill r.a b) | none => bad
  | ["apar_flip"] => mutate r (flip r.a)
  | ["apar_reset"] => mutate r (reset r.a)
  | ["apar_count"] => obs r (countOnes r.a) toString
  -- `OnesIterator::new(&words, l)` / `ZerosIterator::new(&words, l)` with an arbitrary length
  | ["ones_new", l] => match parseNat l with
    | some l => obs r (iterOnes { r.a with len := l }) fmtNatList | none => bad
  | ["zeros_new", l] => match parseNat l with
    | some l => obs r (iterZeros { r.a with len := l }) fmtNatList | none => bad
  -- borrowed view -> atomic borrowed view -> back
  | ["sv_atomic"] => match iterAll r.a, countOnes r.a with
    | .ok l, .ok c => reply r s!"ok {r.a.len} {fmtBoolList l} {c} {r.a.len} {fmtBoolList l}"
    | .oob, _ | _, .oob => reply r "oob"
    | _, _ => reply r "panic"
  -- mutators over caller-supplied `&mut [usize]` storage (plain and through the atomic glue)
  | ["svm_set", i, b] => match parseNat i, parseBool b with
    | some i, some b => mutate r (set r.a i b) | _, _ => bad
  | ["svm_aset", i, b] => match parseNat i, parseBool b with
    | some i, some b => mutate r (set r.a i b) | _, _ => bad
  | ["svm_fill", b] => match parseBool b with | some b => mutate r (fill r.a b) | none => bad
  | ["svm_flip"] => mutate r (flip r.a)
  -- the hinted primitives of `BitVec` (issued under their contracts)
  | ["rank_hinted", p, hp, hr] => match parseNat p, parseNat hp, parseNat hr with
    | some p, some hp, some hr => obs r (Sux.RS.RankSmall.rankHinted r.a.words p hp hr) toString
    | _, _, _ => bad
  | ["select_hinted", k, hp, hr] => match parseNat k, parseNat hp, parseNat hr with
    | some k, some hp, some hr => obs r (Sux.RS.selectHinted r.a.words k hp hr) toString
    | _, _, _ => bad
  | ["select_zero_hinted", k, hp, hr] => match parseNat k, parseNat hp, parseNat hr with
    | some k, some hp, some hr => obs r (Sux.RS.selectZeroHinted r.a.words k hp hr) toString
    | _, _, _ => bad
  | _ => bad

def runner : Runner := { σ := RSt, init := {}, step := rstep }

end Sux.BV
